"""C01 — write then read returns the same file, for every physical line layout."""
import json
import os

import common as C

PROPS = ["Props/C01.v"]
OBLIG = ["Oblig/C01Frame.v"]
# the record-level codec proofs (layout checker + generic theorems) are added when present
# ... and the file-level composition (typed file tree, reader dispatch tables regenerated from reader.go)
for extra_p, extra_o in (("Props/C01Records.v", "Oblig/C01Obl.v"), ("Props/C01File.v", "Oblig/C01FileObl.v")):
    if os.path.exists(os.path.join(C.COQ, extra_p)):
        PROPS.append(extra_p)
        OBLIG.append(extra_o)


def build(ctx):
    ok, out = C.translate()
    ctx.log("translate", out)
    if not ok:
        ctx.diag.append("translator failed: " + out[-300:])
    C.prove(ctx, PROPS, OBLIG)
    ok, out = C.build_harness()
    ctx.log("go build", out)
    if not ok:
        ctx.diag.append("harness does not build against the repository: " + out[-600:])
        return False
    ok, out = C.build_ocaml("c01")
    ctx.log("ocaml", out[-3000:])
    if not ok:
        ctx.diag.append("extracted model does not build: " + out[-600:])
    if os.path.exists(os.path.join(C.COQ, "Extract", "C01FILE.v")):
        ok, out = C.build_ocaml("c01file")
        ctx.log("ocaml c01file", out[-3000:])
        if not ok:
            ctx.diag.append("extracted whole-file model does not build: " + out[-600:])
    return True


def file_corr(ctx, d):
    """(3) whole files: extracted Dispatch.read_text over the regenerated layouts vs ach.NewReader on the
    writer's output for generated valid files of every SEC code, and on structural variants (SkipAll)."""
    drv = os.path.join(C.BUILD, "ocaml", "c01file", "driver")
    exe = os.path.join(C.BIN, "c01file")
    if not (os.path.exists(drv) and os.path.exists(exe)):
        ctx.diag.append("whole-file correspondence could not run (driver or harness missing)")
        return
    rc, out = C.sh([exe, "files", "-out", d, "-n", str(ctx.scale(2, 12)), "-nvar", str(ctx.scale(3, 6))], timeout=3000)
    ctx.log("corr files", out[-1500:])
    if rc != 0:
        ctx.diag.append("whole-file correspondence crashed rc=%d: %s" % (rc, out[-300:]))
        return
    try:
        ctx.cov["file_corr"] = json.loads(out.strip().splitlines()[-1])
    except (ValueError, IndexError):
        pass
    C.sh("%s %s > %s" % (drv, os.path.join(d, "filecases.txt"), os.path.join(d, "filemodel.txt")), timeout=3000)
    # long hex texts: keep the case column short in the evidence
    c = open(os.path.join(d, "filecases.txt")).read().splitlines()
    with open(os.path.join(d, "filecases.short.txt"), "w") as fh:
        fh.write("\n".join(x[:2000] for x in c) + "\n")
    ctx.compare("whole file read (typed reader model vs ach.Reader)", os.path.join(d, "filemodel.txt"),
                os.path.join(d, "fileimpl.txt"), os.path.join(d, "filecases.short.txt"))


def oracle(ctx, n, ntext, sub="oracle"):
    d = os.path.join(ctx.rundir, sub)
    os.makedirs(d, exist_ok=True)
    rc, out = C.sh([os.path.join(C.BIN, "c01"), "oracle", "-out", d, "-n", str(n), "-ntext", str(ntext), "-repo", C.REPO,
                    "-corpus", os.path.join(C.VERIF, "corpus", "C01")], timeout=3000)
    ctx.log("oracle", out[-2000:])
    if rc != 0:
        ctx.diag.append("oracle crashed rc=%d: %s" % (rc, out[-300:]))
    before = len(ctx.fails)
    summ = ctx.read_jsonl(os.path.join(d, "oracle.jsonl"))
    for f in ctx.fails[before:]:
        f["input"] = f.get("case")
    return summ


def search(ctx, factor):
    before = len(ctx.fails)
    oracle(ctx, ctx.scale(600, 6000) * factor, ctx.scale(600, 6000) * factor, "search")
    found = ctx.fails[before:]
    del ctx.fails[before:]
    return found


def run(ctx):
    ctx.search = search
    ctx.trusted += ["reader-dispatch translator (translator/readerdispatch.go: switch cases, code lists, SEC list, detection columns, guard texts of reader.go -> Gen/ReaderDispatch.v); the hand-modelled control flow of Codec/Dispatch.v (step1..step9) is validated by the whole-file correspondence",
                    "layout translator (translator/layouts.go: Parse/String/…Field of the 26 record types -> Gen/Layouts.v), validated by the record correspondence",
                    "golang.org/x/net charset sniffing, bufio.Scanner (ScanRunes) — modelled as 'yield the decoded characters', not verified"]
    ctx.assumptions += ["input is valid UTF-8 (the charset stage is outside the model; late non-ASCII is a known finding)",
                        "record validators are not part of the C01 model: the oracle supplies valid files",
                        "file-level theorems: the typed reader is Reader.Read with record/batch validation skipped (ValidateOpts.SkipAll); a batch without control (accepted by Go) is outside the file tree (model: None)"]
    if not build(ctx):
        return
    drv = os.path.join(C.BUILD, "ocaml", "c01", "driver")
    d = os.path.join(ctx.rundir, "corr")
    os.makedirs(d, exist_ok=True)
    # (1) layout interpreter + regenerated tables vs real String()/Parse() of the 26 records
    rc, out = C.sh([os.path.join(C.BIN, "c01"), "records", "-out", d, "-n", str(ctx.scale(200, 3000))], timeout=3000)
    # (2) framing loop vs Reader.Read's observable line reports
    rc2, out2 = C.sh([os.path.join(C.BIN, "c01"), "framing", "-out", d, "-n", str(ctx.scale(3000, 60000))], timeout=3000)
    ctx.log("corr", out[-500:] + out2[-500:])
    if rc == 0 and rc2 == 0 and os.path.exists(drv):
        C.sh("%s %s > %s" % (drv, os.path.join(d, "cases.txt"), os.path.join(d, "model.txt")), timeout=3000)
        C.sh("%s %s > %s" % (drv, os.path.join(d, "fcases.txt"), os.path.join(d, "fmodel.txt")), timeout=3000)
        # records the model does not cover (time.Now / ISO-8601 creation dates) are skipped, and counted
        m = open(os.path.join(d, "model.txt")).read().splitlines()
        i = open(os.path.join(d, "impl.txt")).read().splitlines()
        keep = [k for k in range(min(len(m), len(i))) if m[k] != "OUTSIDE"]
        ctx.cov["records_outside_model"] = len(m) - len(keep)
        with open(os.path.join(d, "model.f.txt"), "w") as fh:
            fh.write("\n".join(m[k] for k in keep) + "\n")
        with open(os.path.join(d, "impl.f.txt"), "w") as fh:
            fh.write("\n".join(i[k] for k in keep) + "\n")
        c = open(os.path.join(d, "cases.txt")).read().splitlines()
        with open(os.path.join(d, "cases.f.txt"), "w") as fh:
            fh.write("\n".join(c[k][:300] for k in keep) + "\n")
        ctx.compare("record String/Parse (26 layouts)", os.path.join(d, "model.f.txt"), os.path.join(d, "impl.f.txt"), os.path.join(d, "cases.f.txt"))
        ctx.compare("reader framing", os.path.join(d, "fmodel.txt"), os.path.join(d, "fimpl.txt"), os.path.join(d, "fcases.txt"))
        file_corr(ctx, d)
    else:
        ctx.diag.append("correspondence could not run: " + (out + out2)[-300:])
    summ = oracle(ctx, ctx.scale(600, 6000), ctx.scale(600, 6000))
    ctx.add_summary(summ, "write/8 layouts/read/write oracle")


def replay(path):
    ok, out = C.build_harness()
    if not ok:
        print(out[-2000:])
        return 1
    rc, out = C.sh([os.path.join(C.BIN, "c01"), "replay", path], timeout=600)
    print(out)
    return 1 if rc != 0 else 0

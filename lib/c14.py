"""C14 — Validating, rendering and serialising never modify the file."""
import os

import common as C
import optsdom


def build(ctx):
    ok, out = C.translate()      # Effects.v comes from translator-ssa (run and cached by translator/effects.go)
    ctx.log("translate", out)
    if not ok or "translate: Effects:" in out or "translate: EffectsAlias:" in out:
        ctx.diag.append("translator failed: " + out[-400:])
    C.prove(ctx, ["Props/C14.v", "Props/C14Alias.v", "Props/C14Obs.v"],
            ["Oblig/C14Obl.v", "Model/PurityFacts.v", "Model/EffectTable.v",
             "Oblig/C14AliasObl.v", "Model/PurityAliasFacts.v", "Model/AliasTable.v",
             "Oblig/C14ObsObl.v", "Model/PurityObsFacts.v"])
    ok, out = C.build_harness()
    ctx.log("go build", out)
    if not ok:
        ctx.diag.append("harness does not build against the repository: " + out[-600:])
        return False
    ok, out = C.build_ocaml("c14")
    ctx.log("ocaml", out[-3000:])
    if not ok:
        ctx.diag.append("extracted model does not build: " + out[-600:])
    ok, out = C.build_ocaml("c14alias")
    ctx.log("ocaml c14alias", out[-3000:])
    if not ok:
        ctx.diag.append("extracted store model does not build: " + out[-600:])
    return True


def server_corr(ctx):
    """phase 5: the server's validate operation (Service.ValidateFile and the HTTP route) against the extracted store model."""
    d = os.path.join(ctx.rundir, "srvcorr")
    os.makedirs(d, exist_ok=True)
    rc, out = C.sh([os.path.join(C.BIN, "c14"), "srvcorr", "-out", d, "-repo", C.REPO, "-n", str(ctx.scale(1800, 30000))], timeout=3000)
    ctx.log("srvcorr", out[-1000:])
    drv = os.path.join(C.BUILD, "ocaml", "c14alias", "driver")
    if rc == 0 and os.path.exists(drv):
        rc2, out2 = C.sh("%s %s > %s" % (drv, os.path.join(d, "srvcases.txt"), os.path.join(d, "srvmodel.txt")), timeout=3000)
        if rc2 != 0:
            ctx.diag.append("extracted store model crashed: " + out2[-300:])
        ctx.compare("stored files after each validate request", os.path.join(d, "srvmodel.txt"), os.path.join(d, "srvimpl.txt"), os.path.join(d, "srvcases.txt"))
    else:
        ctx.diag.append("server correspondence could not run: " + out[-300:])
    before = len(ctx.fails)
    summ = ctx.read_jsonl(os.path.join(d, "srvoracle.jsonl"))
    for f in ctx.fails[before:]:
        f["input"] = f.get("case")
    ctx.add_summary(summ, "server validate")


def oracle(ctx, n, sub="oracle"):
    d = os.path.join(ctx.rundir, sub)
    os.makedirs(d, exist_ok=True)
    rc, out = C.sh([os.path.join(C.BIN, "c14"), "oracle", "-out", d, "-n", str(n), "-repo", C.REPO,
                    "-corpus", os.path.join(C.VERIF, "corpus", "C14")], timeout=3000)
    ctx.log("oracle", out[-2000:])
    if rc != 0:
        ctx.diag.append("oracle crashed rc=%d: %s" % (rc, out[-300:]))
    before = len(ctx.fails)
    summ = ctx.read_jsonl(os.path.join(d, "oracle.jsonl"))
    for f in ctx.fails[before:]:
        f["input"] = f.get("case")
    return summ


def search(ctx, factor):
    before = len(ctx.fails)
    oracle(ctx, ctx.scale(15000, 150000) * factor, "search")
    found = ctx.fails[before:]
    del ctx.fails[before:]
    return found


def effect_table_size():
    try:
        return open(os.path.join(C.COQ, "Gen", "Effects.v")).read().count("mkeff ")
    except OSError:
        return 0


def run(ctx):
    ctx.search = search
    ctx.trusted += ["translator-ssa (golang.org/x/tools v0.29.0 go/packages + ssa + callgraph/cha): heap-write analysis of the call-graph closure of Validate/ValidateWith/Batch.Validate/String/MarshalJSON/Error/Writer.Write; over-approximate by construction (CHA, taint from parameters/receivers/free variables/globals), blind to writes through unsafe/reflect (fails closed if the package imports them)",
                    "hand model of the nil guards inside File.IsADV (tied by the correspondence on files with nil headers/controls)"]
    ctx.trusted += ["translator-ssa alias mode (translator-ssa/alias.go): the same SSA program and call graph over packages ach and ach/server, origin / re-slice marks on tainted values, go/ast reading of NewBatch's switch and the NewBatchXXX bodies, SSA dominators for the returns of Reader.Read / File.Create"]
    ctx.assumptions += ["the observation of the model is the part of the file the table's effects can touch (per batch: header nil or its SEC code, control nil) plus the ValidateOpts stored on the file; every other field is unwritten by the table's soundness",
                        "constructions are derived from regenerated tables (NewBatch's switch, constructor statements, return classes of Reader.Read / File.Create relative to File.IsADV, provenance chain NewBatch -> File.Batches in the Reader); assumed: the Reader starts from an empty File, and package-level Err... variables are non-nil",
                        "a file assembled with NewBatch(ADV) + AddBatch without File.Create is modified by the first Validate/Write (known finding)"]
    if not build(ctx):
        return
    ctx.cov["effect_table_entries"] = effect_table_size()
    # correspondence: extracted model vs real operations on real files, nil headers/controls included
    d = os.path.join(ctx.rundir, "corr")
    os.makedirs(d, exist_ok=True)
    args = [os.path.join(C.BIN, "c14"), "corr", "-out", d, "-repo", C.REPO, "-maxb", str(ctx.scale(3, 4)), "-random", str(ctx.scale(3000, 60000))]
    rc, out = C.sh(args, timeout=3000)
    ctx.log("corr", out[-1000:])
    drv = os.path.join(C.BUILD, "ocaml", "c14", "driver")
    if rc == 0 and os.path.exists(drv):
        rc2, out2 = C.sh("%s %s > %s" % (drv, os.path.join(d, "cases.txt"), os.path.join(d, "model.txt")), timeout=3000)
        if rc2 != 0:
            ctx.diag.append("extracted model crashed: " + out2[-300:])
        ctx.compare("state after each operation", os.path.join(d, "model.txt"), os.path.join(d, "impl.txt"), os.path.join(d, "cases.txt"))
    else:
        ctx.diag.append("correspondence could not run: " + out[-300:])
    server_corr(ctx)
    summ = oracle(ctx, ctx.scale(15000, 150000))
    ctx.add_summary(summ, "snapshot oracle")
    optsdom.run(ctx, "C14")
    if ctx.tier == "thorough":
        ctx.cov["forbidden_vernacular"] = C.forbidden_vernacular()


def replay(path):
    if optsdom.is_case(path):
        return optsdom.replay(path)
    ok, out = C.build_harness()
    if not ok:
        print(out[-2000:])
        return 1
    rc, out = C.sh([os.path.join(C.BIN, "c14"), "replay", path], timeout=600)
    print(out)
    return 1 if rc != 0 else 0

"""Phase 4, cross-cutting (C05 C07 C08 C09 C11 C12 C13 C14 C17): the domain "files that are valid
ONLY under the ValidateOpts stored on them" (harness/internal/gen/needsopts.go, one variant per
relaxation flag) and what each property's operation owes such a file (harness/internal/optsdom,
command harness/cmd/optsdom).  Each property's check calls run(ctx, prop); a replay file whose
input carries "optsdom" is re-evaluated by replay(path).  The self test of the generator
(harness/cmd/optstest: every variant is produced at a healthy rate, with every content kind the
flag applies to) runs with C05."""
import json
import os

import common as C


def corpus_dir(prop):
    return os.path.join(C.VERIF, "corpus", prop, "optsdom")


def run(ctx, prop, quick=1020, thorough=20400, sub="optsdom"):
    binary = os.path.join(C.BIN, "optsdom")
    if not os.path.exists(binary):
        ctx.diag.append("optsdom: harness command missing (the harness did not build)")
        return None
    d = os.path.join(ctx.rundir, sub)
    os.makedirs(d, exist_ok=True)
    rc, out = C.sh([binary, "oracle", "-prop", prop, "-out", d, "-n", str(ctx.scale(quick, thorough)),
                    "-corpus", corpus_dir(prop)], timeout=3000)
    ctx.log(sub, out[-1500:])
    if rc != 0:
        ctx.diag.append("optsdom oracle crashed rc=%d: %s" % (rc, out[-300:]))
    before = len(ctx.fails)
    summ = ctx.read_jsonl(os.path.join(d, "oracle.jsonl"))
    for f in ctx.fails[before:]:
        f["input"] = f.get("case")
    ctx.add_summary(summ, "files valid only under their stored ValidateOpts (%s)" % prop)
    if summ and not summ.get("evaluations"):
        ctx.diag.append("optsdom: no file of the domain was evaluated for %s (vacuous run)" % prop)
    return summ


CORR = {
    "C12": ("c12opts", "FlattenBatches: option values of the result (FlattenOpts.flatten_o_stable_view)"),
    "C11": ("c11opts", "SegmentFile: option values of both outputs (SegmentOpts.segment_opts_view ST)"),
}


def corr(ctx, prop):
    """Correspondence of the option model of the property (coq/Model/FlattenOpts.v / SegmentOpts.v, extracted)
    with the real FlattenBatches / SegmentFile: exact option value of the derived file(s) and of every batch."""
    name, label = CORR[prop]
    binary = os.path.join(C.BIN, "optsdom")
    ok, out = C.build_ocaml(name)
    ctx.log("ocaml " + name, out[-2000:])
    drv = os.path.join(C.BUILD, "ocaml", name, "driver")
    if not ok or not os.path.exists(drv) or not os.path.exists(binary):
        ctx.diag.append("option correspondence (%s): extracted model or harness command missing: %s" % (prop, out[-300:]))
        return
    d = os.path.join(ctx.rundir, "corr-opts")
    os.makedirs(d, exist_ok=True)
    rc, out = C.sh([binary, "corr", "-prop", prop, "-out", d, "-n", str(ctx.scale(1500, 20000))], timeout=3000)
    ctx.log("corr-opts", out[-1500:])
    if rc != 0:
        ctx.diag.append("option correspondence (%s) crashed rc=%d: %s" % (prop, rc, out[-300:]))
        return
    rc2, out2 = C.sh("%s %s > %s" % (drv, os.path.join(d, "cases.txt"), os.path.join(d, "model.txt")), timeout=3000)
    if rc2 != 0:
        ctx.diag.append("extracted option model crashed: " + out2[-300:])
    ctx.compare(label, os.path.join(d, "model.txt"), os.path.join(d, "impl.txt"), os.path.join(d, "specs.jsonl"))
    try:
        info = json.loads(out.strip().splitlines()[-1])
        ctx.cov.setdefault("distribution", {})["option correspondence"] = info
        if info.get("cases", 0) < 100:
            ctx.diag.append("option correspondence (%s): only %d cases" % (prop, info.get("cases", 0)))
    except (ValueError, IndexError):
        pass
    ctx.trusted.append("option observation of harness/cmd/optsdom corr: ValidateOpts read through the verif hooks VerifBatchValidation / "
                       "VerifIATBatchValidation and File.GetValidation, CheckTransactionCode identified by behaviour on three probe codes; "
                       "translator/optsites.go (syntactic list of the SetValidation statements of file_flattener.go, the segment functions of file.go and reversal.go)")


def selftest(ctx):
    """gen.NeedsOpts produces every variant at a healthy rate (table-driven, harness/cmd/optstest)."""
    binary = os.path.join(C.BIN, "optstest")
    if not os.path.exists(binary):
        ctx.diag.append("optstest: harness command missing")
        return
    rc, out = C.sh([binary, "-n", str(ctx.scale(200, 1000))], timeout=1200)
    try:
        doc = json.loads(out)
    except ValueError:
        ctx.diag.append("optstest: unreadable output: " + out[-300:])
        return
    ctx.cov["needs_opts_generator"] = {k: {"produced": v["produced"], "tries": v["tries"], "kinds": v["kinds"], "flag": v["flag"], "level": v["level"]}
                                       for k, v in doc.get("variants", {}).items()}
    if rc != 0 or doc.get("failed"):
        ctx.diag.append("optstest: gen.NeedsOpts self test failed: " + "; ".join(doc.get("failed", []))[:600])


def is_case(path):
    try:
        inp = json.load(open(path)).get("input") or {}
    except (OSError, ValueError):
        return False
    return isinstance(inp, dict) and "optsdom" in inp


def replay(path):
    ok, out = C.build_harness()
    if not ok:
        print(out[-2000:])
        return 1
    rc, out = C.sh([os.path.join(C.BIN, "optsdom"), "replay", path], timeout=600)
    print(out)
    return 1 if rc != 0 else 0

package main

// Emitter "RecRules" (C02, valid => width; writes coq/Gen/RecRules.v, types in coq/Codec/RecValid.v): the per-record validation rules of the 26
// fixed-width record types, extracted from their Validate()/ValidateWith()/fieldInclusion()
// methods under DEFAULT validation options, as a list of reject conditions
//
//	V_<Type> : list (string * cond)        -- Validate() returns an error iff some condition holds
//
// A condition is a small boolean expression over the record's fields: comparisons with
// literals/constants, membership in the finite sets accepted by the validators.go helpers
// (the callee is inlined: `switch code { case A, B: return nil }; return Err`), dictionary
// lookups (`_, ok := changeCodeDict[x.F]`, keys read from the make…Dict() literal), len() /
// utf8.RuneCountInString() checks (also of a rendered …Field() accessor), the rune-range loop
// of isUpperASCII, strconv.Atoi / CalculateCheckDigit comparisons.  Conditions on
// ValidateOpts are folded with the default options (validateOpts == nil, every flag false);
// what was folded is listed in opt_atoms.  Anything not recognised becomes
// `CUnknown "<source>" [fields it mentions]`, which never rejects in the Coq interpreter and
// never bounds a column (so a field whose only check has an unknown shape shows up in
// unbounded_columns and breaks the reviewed list).
//
// A second table, batch_entry_rules, holds the conditions Batch.isAddendaSequence and
// IATBatch.isAddendaSequence impose on each entry (`entry.AddendaRecordIndicator != 1` under
// `entry.Addenda02 != nil`, …); presence of an optional sub-record F is the pseudo field "#F".

import (
	"fmt"
	"go/ast"
	"go/token"
	"sort"
	"strconv"
	"strings"
)

func init() { register("RecRules", emitRecValid) }

// ---------------------------------------------------------------- conditions

type rvCond struct {
	op     string // true false and or not atom unknown
	a, b   *rvCond
	coq    string // atom
	negCoq string // negated atom ("" when there is no direct form)
	src    string
	fields []string
}

var rvTrue = &rvCond{op: "true"}
var rvFalse = &rvCond{op: "false"}

func rvAtom(coq, neg string) *rvCond { return &rvCond{op: "atom", coq: coq, negCoq: neg} }

func rvUnknown(src string, fields []string) *rvCond {
	return &rvCond{op: "unknown", src: src, fields: uniq(fields)}
}

func rvAnd(a, b *rvCond) *rvCond {
	switch {
	case a.op == "false" || b.op == "false":
		return rvFalse
	case a.op == "true":
		return b
	case b.op == "true":
		return a
	}
	return &rvCond{op: "and", a: a, b: b}
}

func rvOr(a, b *rvCond) *rvCond {
	switch {
	case a.op == "true" || b.op == "true":
		return rvTrue
	case a.op == "false":
		return b
	case b.op == "false":
		return a
	}
	return &rvCond{op: "or", a: a, b: b}
}

func rvNot(a *rvCond) *rvCond {
	switch a.op {
	case "true":
		return rvFalse
	case "false":
		return rvTrue
	case "not":
		return a.a
	case "and":
		return rvOr(rvNot(a.a), rvNot(a.b))
	case "or":
		return rvAnd(rvNot(a.a), rvNot(a.b))
	case "atom":
		if a.negCoq != "" {
			return rvAtom(a.negCoq, a.coq)
		}
	}
	return &rvCond{op: "not", a: a}
}

func (c *rvCond) String() string {
	switch c.op {
	case "true":
		return "CTrue"
	case "false":
		return "CFalse"
	case "and":
		return "CAnd (" + c.a.String() + ") (" + c.b.String() + ")"
	case "or":
		return "COr (" + c.a.String() + ") (" + c.b.String() + ")"
	case "not":
		return "CNot (" + c.a.String() + ")"
	case "atom":
		return c.coq
	}
	var fs []string
	for _, f := range c.fields {
		fs = append(fs, coqString(f))
	}
	return "CUnknown " + coqString(c.src) + " " + coqList(fs)
}

func uniq(l []string) []string {
	seen := map[string]bool{}
	var out []string
	for _, x := range l {
		if !seen[x] {
			seen[x] = true
			out = append(out, x)
		}
	}
	sort.Strings(out)
	return out
}

// ---------------------------------------------------------------- terms

type rvTerm struct {
	kind   string // str int strlit intlit bool err opts optfield nil recv ptr len runelen slicelen unknown
	coq    string // sterm / iterm text (str, int, len, runelen: the sterm measured)
	cnd    *rvCond
	s      string
	n      int64
	field  string
	fields []string
	src    string
}

func coqZ(n int64) string { return fmt.Sprintf("(%d)%%Z", n) }

func (t *rvTerm) iterm() (string, bool) {
	switch t.kind {
	case "int":
		return t.coq, true
	case "intlit":
		return "IConst " + coqZ(t.n), true
	}
	return "", false
}

type rvFrame struct {
	recv     string // receiver identifier that denotes the record ("" inside helpers of validator/converters)
	locals   map[string]*rvTerm
	exit     *rvCond
	label    string
	errNamed bool
	// inside `for _, entry := range batch.Entries`: a `return nil` leaves the whole function, so the
	// entries after this one are not inspected at all; fexit collects the conditions under which that happens
	inLoop bool
	fexit  *rvCond
}

type rvRule struct {
	label string
	cond  *rvCond
}

type rvCtx struct {
	p      *pkgInfo
	typ    string
	ftypes map[string]string
	rules  []rvRule
	opts   map[string]bool
	depth  int
}

func (c *rvCtx) text(n ast.Node) string { return strings.Join(strings.Fields(c.p.src(n)), " ") }

// structFields: field name -> string | int | ptr | slice | other
func structFields(p *pkgInfo, typ string) map[string]string {
	out := map[string]string{}
	for _, f := range p.files {
		for _, d := range f.Decls {
			gd, ok := d.(*ast.GenDecl)
			if !ok || gd.Tok != token.TYPE {
				continue
			}
			for _, s := range gd.Specs {
				ts := s.(*ast.TypeSpec)
				st, ok := ts.Type.(*ast.StructType)
				if !ok || ts.Name.Name != typ {
					continue
				}
				for _, fl := range st.Fields.List {
					k := "other"
					switch t := fl.Type.(type) {
					case *ast.Ident:
						if t.Name == "string" || t.Name == "int" {
							k = t.Name
						}
					case *ast.StarExpr:
						k = "ptr"
					case *ast.ArrayType:
						k = "slice"
					}
					for _, n := range fl.Names {
						out[n.Name] = k
					}
				}
			}
		}
	}
	return out
}

// mentions: the record fields an expression refers to (through accessor methods one level deep)
func (c *rvCtx) mentions(fr *rvFrame, n ast.Node, depth int) []string {
	var out []string
	if n == nil {
		return out
	}
	ast.Inspect(n, func(x ast.Node) bool {
		switch e := x.(type) {
		case *ast.Ident:
			if t, ok := fr.locals[e.Name]; ok && t != nil {
				out = append(out, t.fields...)
			}
		case *ast.SelectorExpr:
			if id, ok := e.X.(*ast.Ident); ok && fr.recv != "" && id.Name == fr.recv {
				if _, isField := c.ftypes[e.Sel.Name]; isField {
					out = append(out, e.Sel.Name)
				}
			}
		case *ast.CallExpr:
			if sel, ok := e.Fun.(*ast.SelectorExpr); ok && depth < 2 {
				if id, ok := sel.X.(*ast.Ident); ok && fr.recv != "" && id.Name == fr.recv {
					if fd := c.p.method(c.typ, sel.Sel.Name); fd != nil && fd.Body != nil {
						sub := &rvFrame{recv: recvName(fd), locals: map[string]*rvTerm{}}
						out = append(out, c.mentions(sub, fd.Body, depth+1)...)
					}
				}
			}
		}
		return true
	})
	return uniq(out)
}

func (c *rvCtx) unknownTerm(fr *rvFrame, e ast.Expr) *rvTerm {
	return &rvTerm{kind: "unknown", src: c.text(e), fields: c.mentions(fr, e, 0)}
}

func rvFlipOp(op token.Token) token.Token {
	switch op {
	case token.LSS:
		return token.GTR
	case token.LEQ:
		return token.GEQ
	case token.GTR:
		return token.LSS
	case token.GEQ:
		return token.LEQ
	}
	return op
}

func rvNegOp(op token.Token) token.Token {
	switch op {
	case token.EQL:
		return token.NEQ
	case token.NEQ:
		return token.EQL
	case token.LSS:
		return token.GEQ
	case token.LEQ:
		return token.GTR
	case token.GTR:
		return token.LEQ
	case token.GEQ:
		return token.LSS
	}
	return op
}

func rvCmpName(op token.Token) string {
	switch op {
	case token.EQL:
		return "Ceq"
	case token.NEQ:
		return "Cne"
	case token.LSS:
		return "Clt"
	case token.LEQ:
		return "Cle"
	case token.GTR:
		return "Cgt"
	case token.GEQ:
		return "Cge"
	}
	return "?"
}

func isLit(t *rvTerm) bool { return t.kind == "strlit" || t.kind == "intlit" || t.kind == "nil" }

func (c *rvCtx) optAtom(src string, val bool) *rvCond {
	c.opts[src+" := "+coqBool(val)] = true
	if val {
		return rvTrue
	}
	return rvFalse
}

func (c *rvCtx) compare(fr *rvFrame, e *ast.BinaryExpr) *rvCond {
	l, r, op := c.term(fr, e.X), c.term(fr, e.Y), e.Op
	if isLit(l) && !isLit(r) {
		l, r, op = r, l, rvFlipOp(op)
	}
	unknown := func() *rvCond {
		return rvUnknown(c.text(e), append(append(c.mentions(fr, e, 0), l.fields...), r.fields...))
	}
	eq := op == token.EQL
	if op == token.EQL || op == token.NEQ {
		switch {
		case l.kind == "recv" && r.kind == "nil":
			if eq {
				return rvFalse
			}
			return rvTrue
		case (l.kind == "opts" || l.kind == "optfield") && r.kind == "nil":
			return c.optAtom(c.text(e), eq)
		case l.kind == "err" && r.kind == "nil":
			if eq {
				return rvNot(l.cnd)
			}
			return l.cnd
		case l.kind == "ptr" && r.kind == "nil":
			a := fmt.Sprintf("CIntCmp Ceq (IField %s) (IConst (0)%%Z)", coqString("#"+l.field))
			b := fmt.Sprintf("CIntCmp Cne (IField %s) (IConst (0)%%Z)", coqString("#"+l.field))
			if eq {
				return rvAtom(a, b)
			}
			return rvAtom(b, a)
		case l.kind == "str" && r.kind == "strlit":
			in := fmt.Sprintf("CStrIn (%s) [%s]", l.coq, coqBytes(r.s))
			notin := fmt.Sprintf("CStrNotIn (%s) [%s]", l.coq, coqBytes(r.s))
			if eq {
				return rvAtom(in, notin)
			}
			return rvAtom(notin, in)
		}
	}
	switch {
	case (l.kind == "int" || l.kind == "intlit") && (r.kind == "int" || r.kind == "intlit"):
		a, _ := l.iterm()
		b, _ := r.iterm()
		return rvAtom(fmt.Sprintf("CIntCmp %s (%s) (%s)", rvCmpName(op), a, b), fmt.Sprintf("CIntCmp %s (%s) (%s)", rvCmpName(rvNegOp(op)), a, b))
	case l.kind == "len" && r.kind == "intlit":
		return rvAtom(fmt.Sprintf("CByteLen %s (%s) %s", rvCmpName(op), l.coq, coqZ(r.n)), fmt.Sprintf("CByteLen %s (%s) %s", rvCmpName(rvNegOp(op)), l.coq, coqZ(r.n)))
	case l.kind == "runelen" && r.kind == "intlit":
		return rvAtom(fmt.Sprintf("CRuneLen %s (%s) %s", rvCmpName(op), l.coq, coqZ(r.n)), fmt.Sprintf("CRuneLen %s (%s) %s", rvCmpName(rvNegOp(op)), l.coq, coqZ(r.n)))
	case l.kind == "slicelen" && r.kind == "intlit":
		f := coqString("#" + l.field)
		return rvAtom(fmt.Sprintf("CIntCmp %s (IField %s) (IConst %s)", rvCmpName(op), f, coqZ(r.n)), fmt.Sprintf("CIntCmp %s (IField %s) (IConst %s)", rvCmpName(rvNegOp(op)), f, coqZ(r.n)))
	}
	return unknown()
}

// cond translates a boolean expression.
func (c *rvCtx) cond(fr *rvFrame, e ast.Expr) *rvCond {
	t := c.term(fr, e)
	switch t.kind {
	case "bool":
		return t.cnd
	case "optfield":
		return c.optAtom(c.text(e), false)
	}
	return rvUnknown(c.text(e), append(c.mentions(fr, e, 0), t.fields...))
}

func (c *rvCtx) term(fr *rvFrame, e ast.Expr) *rvTerm {
	switch x := e.(type) {
	case *ast.ParenExpr:
		return c.term(fr, x.X)
	case *ast.BasicLit:
		switch x.Kind {
		case token.STRING:
			if s, err := strconv.Unquote(x.Value); err == nil {
				return &rvTerm{kind: "strlit", s: s}
			}
		case token.INT:
			if v, err := strconv.ParseInt(strings.ReplaceAll(x.Value, "_", ""), 0, 64); err == nil {
				return &rvTerm{kind: "intlit", n: v}
			}
		case token.CHAR:
			if s, err := strconv.Unquote(x.Value); err == nil && len([]rune(s)) == 1 {
				return &rvTerm{kind: "intlit", n: int64([]rune(s)[0])}
			}
		}
	case *ast.Ident:
		switch x.Name {
		case "nil":
			return &rvTerm{kind: "nil"}
		case "true":
			return &rvTerm{kind: "bool", cnd: rvTrue}
		case "false":
			return &rvTerm{kind: "bool", cnd: rvFalse}
		}
		if t, ok := fr.locals[x.Name]; ok {
			if t == nil {
				return &rvTerm{kind: "unknown", src: x.Name}
			}
			return t
		}
		if fr.recv != "" && x.Name == fr.recv {
			return &rvTerm{kind: "recv"}
		}
		if s, ok := c.p.consts[x.Name]; ok {
			return &rvTerm{kind: "strlit", s: s}
		}
		if v, ok := c.p.ints[x.Name]; ok {
			return &rvTerm{kind: "intlit", n: v}
		}
	case *ast.SelectorExpr:
		base := c.term(fr, x.X)
		switch base.kind {
		case "recv":
			name := x.Sel.Name
			if name == "validateOpts" {
				return &rvTerm{kind: "opts"}
			}
			switch c.ftypes[name] {
			case "string":
				return &rvTerm{kind: "str", coq: "TField " + coqString(name), fields: []string{name}}
			case "int":
				return &rvTerm{kind: "int", coq: "IField " + coqString(name), fields: []string{name}}
			case "ptr":
				return &rvTerm{kind: "ptr", field: name, fields: []string{"#" + name}}
			case "slice":
				return &rvTerm{kind: "slice", field: name, fields: []string{"#" + name}}
			}
		case "opts":
			return &rvTerm{kind: "optfield", src: c.text(e)}
		}
	case *ast.UnaryExpr:
		if x.Op == token.NOT {
			return &rvTerm{kind: "bool", cnd: rvNot(c.cond(fr, x.X))}
		}
		if x.Op == token.SUB {
			if t := c.term(fr, x.X); t.kind == "intlit" {
				return &rvTerm{kind: "intlit", n: -t.n}
			}
		}
	case *ast.BinaryExpr:
		switch x.Op {
		case token.LAND:
			return &rvTerm{kind: "bool", cnd: rvAnd(c.cond(fr, x.X), c.cond(fr, x.Y))}
		case token.LOR:
			return &rvTerm{kind: "bool", cnd: rvOr(c.cond(fr, x.X), c.cond(fr, x.Y))}
		case token.EQL, token.NEQ, token.LSS, token.LEQ, token.GTR, token.GEQ:
			return &rvTerm{kind: "bool", cnd: c.compare(fr, x)}
		}
	case *ast.CallExpr:
		return c.call(fr, x)
	}
	return c.unknownTerm(fr, e)
}

func (c *rvCtx) call(fr *rvFrame, x *ast.CallExpr) *rvTerm {
	switch f := x.Fun.(type) {
	case *ast.Ident:
		switch {
		case f.Name == "len" && len(x.Args) == 1:
			a := c.term(fr, x.Args[0])
			if a.kind == "str" {
				return &rvTerm{kind: "len", coq: a.coq, fields: a.fields}
			}
			if a.kind == "slice" {
				return &rvTerm{kind: "slicelen", field: a.field, fields: a.fields}
			}
		case f.Name == "string" && len(x.Args) == 1:
			return c.term(fr, x.Args[0])
		case f.Name == "CalculateCheckDigit" && len(x.Args) == 1:
			if a := c.term(fr, x.Args[0]); a.kind == "str" {
				return &rvTerm{kind: "int", coq: "ICheckDigit (" + a.coq + ")", fields: a.fields}
			}
		}
	case *ast.SelectorExpr:
		if id, ok := f.X.(*ast.Ident); ok {
			switch {
			case id.Name == "utf8" && f.Sel.Name == "RuneCountInString" && len(x.Args) == 1:
				if a := c.term(fr, x.Args[0]); a.kind == "str" {
					return &rvTerm{kind: "runelen", coq: a.coq, fields: a.fields}
				}
			case id.Name == "strings" && f.Sel.Name == "ToUpper" && len(x.Args) == 1:
				if a := c.term(fr, x.Args[0]); a.kind == "str" {
					return &rvTerm{kind: "str", coq: "TUpper (" + a.coq + ")", fields: a.fields}
				}
			case fr.recv != "" && id.Name == fr.recv && f.Sel.Name == "CalculateCheckDigit" && len(x.Args) == 1:
				if a := c.term(fr, x.Args[0]); a.kind == "str" {
					return &rvTerm{kind: "int", coq: "ICheckDigit (" + a.coq + ")", fields: a.fields}
				}
			case fr.recv != "" && id.Name == fr.recv && len(x.Args) == 0 && c.boolMethod(f.Sel.Name) != nil:
				// func (x *T) isFoo() bool { return EXPR }
				fd := c.boolMethod(f.Sel.Name)
				sub := &rvFrame{recv: recvName(fd), locals: map[string]*rvTerm{}, exit: rvFalse}
				return &rvTerm{kind: "bool", cnd: c.cond(sub, fd.Body.List[0].(*ast.ReturnStmt).Results[0]), fields: c.mentions(fr, x, 0)}
			case fr.recv != "" && id.Name == fr.recv && len(x.Args) == 0:
				// accessor x.FooField(): rendered as in the layout table
				if fd := c.p.method(c.typ, f.Sel.Name); fd != nil && fd.Type.Results != nil && len(fd.Type.Results.List) == 1 {
					if rt, ok := fd.Type.Results.List[0].Type.(*ast.Ident); ok && rt.Name == "string" {
						seg := fieldAccessor(c.p, c.typ, f.Sel.Name)
						if !strings.Contains(seg, "\n") && !strings.HasPrefix(seg, "SUnknown") {
							return &rvTerm{kind: "str", coq: "TRender (" + seg + ")", fields: c.mentions(fr, x, 0)}
						}
					}
				}
			}
		}
	}
	return c.unknownTerm(fr, x)
}

// boolMethod: a zero-argument method of the record type of the form `return <bool expression>`.
func (c *rvCtx) boolMethod(name string) *ast.FuncDecl {
	fd := c.p.method(c.typ, name)
	if fd == nil || fd.Body == nil || len(fd.Body.List) != 1 || fd.Type.Results == nil || len(fd.Type.Results.List) != 1 {
		return nil
	}
	if fd.Type.Params != nil && len(fd.Type.Params.List) != 0 {
		return nil
	}
	if id, ok := fd.Type.Results.List[0].Type.(*ast.Ident); !ok || id.Name != "bool" {
		return nil
	}
	if ret, ok := fd.Body.List[0].(*ast.ReturnStmt); !ok || len(ret.Results) != 1 {
		return nil
	}
	return fd
}

// ---------------------------------------------------------------- statements

func (c *rvCtx) reject(fr *rvFrame, guard *rvCond) {
	cond := rvAnd(guard, rvNot(fr.exit))
	if cond.op == "false" {
		return
	}
	c.rules = append(c.rules, rvRule{fmt.Sprintf("%s#%d", fr.label, len(c.rules)+1), cond})
}

func isNilIdent(e ast.Expr) bool {
	id, ok := e.(*ast.Ident)
	return ok && id.Name == "nil"
}

// lookupFunc finds the declaration a call refers to: a method of the record type, a method of an
// embedded helper (validator, converters) or a package level function.
func (c *rvCtx) lookupFunc(fr *rvFrame, call *ast.CallExpr) (fd *ast.FuncDecl, onRecord bool) {
	switch f := call.Fun.(type) {
	case *ast.Ident:
		for _, d := range c.p.funcs {
			if d.Recv == nil && d.Name.Name == f.Name && d.Body != nil {
				return d, false
			}
		}
	case *ast.SelectorExpr:
		id, ok := f.X.(*ast.Ident)
		if !ok || fr.recv == "" || id.Name != fr.recv {
			return nil, false
		}
		if d := c.p.method(c.typ, f.Sel.Name); d != nil && d.Body != nil {
			return d, true
		}
		for _, h := range []string{"validator", "converters"} {
			if d := c.p.method(h, f.Sel.Name); d != nil && d.Body != nil {
				return d, false
			}
		}
	}
	return nil, false
}

// returnsErrorType: a validation function (returns exactly `error`), not an error constructor
// (fieldError, New…: functions that take an error or arbitrary values and wrap them).
func returnsErrorType(fd *ast.FuncDecl) bool {
	if fd.Type.Results == nil || len(fd.Type.Results.List) != 1 {
		return false
	}
	id, ok := fd.Type.Results.List[0].Type.(*ast.Ident)
	if !ok || id.Name != "error" {
		return false
	}
	if strings.HasPrefix(fd.Name.Name, "New") || strings.HasPrefix(fd.Name.Name, "Err") || fd.Name.Name == "fieldError" || fd.Name.Name == "Error" {
		return false
	}
	if fd.Type.Params != nil {
		for _, pl := range fd.Type.Params.List {
			switch t := pl.Type.(type) {
			case *ast.Ident:
				if t.Name == "error" || t.Name == "any" {
					return false
				}
			case *ast.InterfaceType, *ast.Ellipsis:
				return false
			}
		}
	}
	return true
}

// inlineCall walks the callee's body as part of the caller: every error return of the callee is a
// reject of the record (the callers handled here all propagate the error).
func (c *rvCtx) inlineCall(fr *rvFrame, call *ast.CallExpr, guard *rvCond) bool {
	fd, onRecord := c.lookupFunc(fr, call)
	if fd == nil || !returnsErrorType(fd) || c.depth > 5 {
		return false
	}
	sub := &rvFrame{locals: map[string]*rvTerm{}, exit: rvFalse, label: fd.Name.Name}
	if fd.Recv != nil {
		sub.label = recvType(fd) + "." + fd.Name.Name
	}
	if onRecord {
		sub.recv = recvName(fd)
	}
	i := 0
	if fd.Type.Params != nil {
		for _, pl := range fd.Type.Params.List {
			for _, nm := range pl.Names {
				if i >= len(call.Args) {
					return false
				}
				sub.locals[nm.Name] = c.term(fr, call.Args[i])
				i++
			}
		}
	}
	if i != len(call.Args) {
		return false
	}
	// the callee runs only when the caller has not returned yet and the guard holds
	g := rvAnd(guard, rvNot(fr.exit))
	c.depth++
	c.walk(sub, fd.Body.List, g)
	c.depth--
	return true
}

// runeRanges recognises `(r == K) || (lo <= r && r <= hi) || …` over the loop variable.
func (c *rvCtx) runeRanges(fr *rvFrame, e ast.Expr, rv string) ([]string, bool) {
	switch x := e.(type) {
	case *ast.ParenExpr:
		return c.runeRanges(fr, x.X, rv)
	case *ast.BinaryExpr:
		isVar := func(e ast.Expr) bool { id, ok := e.(*ast.Ident); return ok && id.Name == rv }
		lit := func(e ast.Expr) (int64, bool) {
			t := c.term(fr, e)
			return t.n, t.kind == "intlit"
		}
		switch x.Op {
		case token.LOR:
			a, ok1 := c.runeRanges(fr, x.X, rv)
			b, ok2 := c.runeRanges(fr, x.Y, rv)
			return append(a, b...), ok1 && ok2
		case token.EQL:
			if isVar(x.X) {
				if v, ok := lit(x.Y); ok {
					return []string{fmt.Sprintf("(%d%%N, %d%%N)", v, v)}, true
				}
			}
		case token.LAND:
			lo, ok1 := x.X.(*ast.BinaryExpr)
			hi, ok2 := x.Y.(*ast.BinaryExpr)
			if ok1 && ok2 && lo.Op == token.LEQ && hi.Op == token.LEQ && isVar(lo.Y) && isVar(hi.X) {
				a, oka := lit(lo.X)
				b, okb := lit(hi.Y)
				if oka && okb {
					return []string{fmt.Sprintf("(%d%%N, %d%%N)", a, b)}, true
				}
			}
		}
	}
	return nil, false
}

func containsReturn(n ast.Node) (nonNil, isNil bool) {
	ast.Inspect(n, func(x ast.Node) bool {
		if _, ok := x.(*ast.FuncLit); ok {
			return false
		}
		if r, ok := x.(*ast.ReturnStmt); ok {
			if len(r.Results) == 1 && isNilIdent(r.Results[0]) {
				isNil = true
			} else {
				nonNil = true
			}
		}
		return true
	})
	return
}

func (c *rvCtx) unknownStmt(fr *rvFrame, st ast.Stmt, guard *rvCond) {
	nonNil, isNil := containsReturn(st)
	u := rvUnknown(c.text(st), c.mentions(fr, st, 0))
	if len(u.src) > 160 {
		u.src = u.src[:160] + "..."
	}
	if nonNil {
		c.reject(fr, rvAnd(guard, u))
	}
	if isNil {
		if fr.inLoop {
			fr.fexit = rvOr(fr.fexit, rvAnd(guard, u))
		}
		fr.exit = rvOr(fr.exit, rvAnd(guard, u))
	}
}

func (c *rvCtx) walk(fr *rvFrame, stmts []ast.Stmt, guard *rvCond) {
	for _, st := range stmts {
		switch x := st.(type) {
		case *ast.IfStmt:
			c.ifStmt(fr, x, guard)
		case *ast.BlockStmt:
			c.walk(fr, x.List, guard)
		case *ast.ReturnStmt:
			c.returnStmt(fr, x, guard)
		case *ast.AssignStmt:
			c.assign(fr, x, guard)
		case *ast.SwitchStmt:
			c.switchStmt(fr, x, guard)
		case *ast.RangeStmt:
			c.rangeStmt(fr, x, guard)
		case *ast.ExprStmt, *ast.EmptyStmt:
		case *ast.BranchStmt:
			if x.Tok == token.CONTINUE && fr.inLoop && x.Label == nil {
				fr.exit = rvOr(fr.exit, guard) // next entry
			} else {
				c.unknownStmt(fr, st, guard)
				fr.exit = rvOr(fr.exit, rvAnd(guard, rvUnknown(c.text(st), nil)))
			}
		case *ast.DeclStmt:
			if gd, ok := x.Decl.(*ast.GenDecl); ok {
				for _, s := range gd.Specs {
					if vs, ok := s.(*ast.ValueSpec); ok {
						for _, nm := range vs.Names {
							fr.locals[nm.Name] = &rvTerm{kind: "unknown", src: nm.Name, fields: c.mentions(fr, vs, 0)}
						}
					}
				}
			}
		default:
			c.unknownStmt(fr, st, guard)
		}
	}
}

func (c *rvCtx) returnStmt(fr *rvFrame, x *ast.ReturnStmt, guard *rvCond) {
	if len(x.Results) != 1 {
		c.unknownStmt(fr, x, guard)
		return
	}
	res := x.Results[0]
	if isNilIdent(res) {
		if fr.inLoop {
			fr.fexit = rvOr(fr.fexit, rvAnd(guard, rvNot(fr.exit)))
		}
		fr.exit = rvOr(fr.exit, guard)
		return
	}
	if call, ok := res.(*ast.CallExpr); ok {
		// tail call of another validation function: `return fh.ValidateWith(fh.validateOpts)`,
		// `return StandardTransactionCode(code)`
		if fd, _ := c.lookupFunc(fr, call); fd != nil && returnsErrorType(fd) {
			if c.inlineCall(fr, call, guard) {
				fr.exit = rvOr(fr.exit, guard)
				return
			}
		}
	}
	if id, ok := res.(*ast.Ident); ok {
		if t, ok := fr.locals[id.Name]; ok && t != nil && t.kind == "err" {
			// `return err`: an error when err is one, a normal return otherwise
			c.reject(fr, rvAnd(guard, t.cnd))
			fr.exit = rvOr(fr.exit, rvAnd(guard, rvNot(t.cnd)))
			return
		}
	}
	// an error return: the statements after it are reached only by records that were not rejected
	// here, so the later conditions need no "and not this one" (the rules are a conjunction)
	c.reject(fr, guard)
}

func (c *rvCtx) ifStmt(fr *rvFrame, x *ast.IfStmt, guard *rvCond) {
	if x.Init != nil {
		as, ok := x.Init.(*ast.AssignStmt)
		if !ok {
			c.unknownStmt(fr, x, guard)
			return
		}
		// `if err := CALL; err != nil { return … }`
		if len(as.Lhs) == 1 && len(as.Rhs) == 1 {
			if id, ok := as.Lhs[0].(*ast.Ident); ok {
				if call, ok := as.Rhs[0].(*ast.CallExpr); ok && c.text(x.Cond) == id.Name+" != nil" && x.Else == nil {
					if nonNil, _ := containsReturn(x.Body); nonNil {
						if c.inlineCall(fr, call, guard) {
							return
						}
						c.reject(fr, rvAnd(guard, rvUnknown(c.text(call), c.mentions(fr, call, 0))))
						return
					}
				}
			}
		}
		c.assign(fr, as, guard)
	}
	cnd := c.cond(fr, x.Cond)
	c.walk(fr, x.Body.List, rvAnd(guard, cnd))
	switch e := x.Else.(type) {
	case *ast.BlockStmt:
		c.walk(fr, e.List, rvAnd(guard, rvNot(cnd)))
	case *ast.IfStmt:
		c.ifStmt(fr, e, rvAnd(guard, rvNot(cnd)))
	}
}

func (c *rvCtx) assign(fr *rvFrame, x *ast.AssignStmt, guard *rvCond) {
	names := make([]string, len(x.Lhs))
	for i, l := range x.Lhs {
		if id, ok := l.(*ast.Ident); ok {
			names[i] = id.Name
		} else {
			// assignment to something that is not a local (e.g. a field): not expected in validation code
			return
		}
	}
	set := func(n string, t *rvTerm) {
		if n != "_" && n != "" {
			fr.locals[n] = t
		}
	}
	if len(x.Rhs) == 1 {
		rhs := x.Rhs[0]
		// v, err := strconv.Atoi(T)
		if call, ok := rhs.(*ast.CallExpr); ok && len(names) == 2 {
			if sel, ok := call.Fun.(*ast.SelectorExpr); ok && c.text(sel) == "strconv.Atoi" && len(call.Args) == 1 {
				if a := c.term(fr, call.Args[0]); a.kind == "str" {
					set(names[0], &rvTerm{kind: "int", coq: "IAtoi (" + a.coq + ")", fields: a.fields})
					set(names[1], &rvTerm{kind: "err", cnd: rvAtom("CAtoiErr ("+a.coq+")", ""), fields: a.fields})
					return
				}
			}
		}
		// _, ok := dict[T]
		if ix, ok := rhs.(*ast.IndexExpr); ok && len(names) == 2 {
			if id, ok := ix.X.(*ast.Ident); ok {
				if keys, ok := c.dictKeys(id.Name); ok {
					if a := c.term(fr, ix.Index); a.kind == "str" {
						var ks []string
						for _, k := range keys {
							ks = append(ks, coqBytes(k))
						}
						in := fmt.Sprintf("CStrIn (%s) %s", a.coq, coqList(ks))
						notin := fmt.Sprintf("CStrNotIn (%s) %s", a.coq, coqList(ks))
						set(names[0], &rvTerm{kind: "unknown", src: c.text(rhs), fields: a.fields})
						set(names[1], &rvTerm{kind: "bool", cnd: rvAtom(in, notin), fields: a.fields})
						return
					}
				}
			}
		}
		if len(names) == 1 {
			t := c.term(fr, rhs)
			if t.kind == "unknown" {
				t = &rvTerm{kind: "unknown", src: c.text(rhs), fields: c.mentions(fr, rhs, 0)}
			}
			// `opts = &ValidateOpts{}` under `opts == nil`: still the default options
			if old, ok := fr.locals[names[0]]; ok && old != nil && old.kind == "opts" {
				if strings.HasPrefix(c.text(rhs), "&ValidateOpts{}") {
					return
				}
			}
			set(names[0], t)
			return
		}
	}
	for _, n := range names {
		set(n, &rvTerm{kind: "unknown", src: c.text(x), fields: c.mentions(fr, x, 0)})
	}
}

func (c *rvCtx) switchStmt(fr *rvFrame, x *ast.SwitchStmt, guard *rvCond) {
	if x.Init != nil || x.Tag == nil {
		c.unknownStmt(fr, x, guard)
		return
	}
	tag := c.term(fr, x.Tag)
	if tag.kind != "str" && tag.kind != "int" {
		c.unknownStmt(fr, x, guard)
		return
	}
	earlier := rvFalse
	var def *ast.CaseClause
	for _, cl := range x.Body.List {
		cc := cl.(*ast.CaseClause)
		if cc.List == nil {
			def = cc
			continue
		}
		var items []string
		ok := true
		for _, e := range cc.List {
			t := c.term(fr, e)
			switch {
			case tag.kind == "str" && t.kind == "strlit":
				items = append(items, coqBytes(t.s))
			case tag.kind == "int" && t.kind == "intlit":
				items = append(items, coqZ(t.n))
			default:
				ok = false
			}
		}
		var m *rvCond
		if !ok {
			m = rvUnknown(c.text(x.Tag)+" case "+c.text(cc.List[0])+"...", tag.fields)
		} else if tag.kind == "str" {
			m = rvAtom(fmt.Sprintf("CStrIn (%s) %s", tag.coq, coqList(items)), fmt.Sprintf("CStrNotIn (%s) %s", tag.coq, coqList(items)))
		} else {
			m = rvAtom(fmt.Sprintf("CIntIn (%s) %s", tag.coq, coqList(items)), fmt.Sprintf("CIntNotIn (%s) %s", tag.coq, coqList(items)))
		}
		for _, s := range cc.Body {
			if bs, ok := s.(*ast.BranchStmt); ok && bs.Tok == token.FALLTHROUGH {
				c.unknownStmt(fr, x, guard)
				return
			}
		}
		c.walk(fr, cc.Body, rvAnd(guard, rvAnd(rvNot(earlier), m)))
		earlier = rvOr(earlier, m)
	}
	if def != nil {
		c.walk(fr, def.Body, rvAnd(guard, rvNot(earlier)))
	}
}

// rangeStmt: `for _, r := range T { if RANGES { continue }; return err }` (isUpperASCII)
func (c *rvCtx) rangeStmt(fr *rvFrame, x *ast.RangeStmt, guard *rvCond) {
	t := c.term(fr, x.X)
	rv, ok := x.Value.(*ast.Ident)
	if t.kind == "str" && ok && len(x.Body.List) == 2 {
		if is, ok := x.Body.List[0].(*ast.IfStmt); ok && is.Init == nil && is.Else == nil && len(is.Body.List) == 1 {
			if bs, ok := is.Body.List[0].(*ast.BranchStmt); ok && bs.Tok == token.CONTINUE {
				if ret, ok := x.Body.List[1].(*ast.ReturnStmt); ok && len(ret.Results) == 1 && !isNilIdent(ret.Results[0]) {
					if rs, ok := c.runeRanges(fr, is.Cond, rv.Name); ok {
						c.reject(fr, rvAnd(guard, rvAtom(fmt.Sprintf("CRunesOutside (%s) %s", t.coq, coqList(rs)), "")))
						return
					}
				}
			}
		}
	}
	c.unknownStmt(fr, x, guard)
}

// dictKeys resolves a package level map filled by `name = makeXxx()` where makeXxx builds the map
// from a slice literal of structs whose first element (or Code: field) is the key.
func (c *rvCtx) dictKeys(name string) ([]string, bool) {
	var maker string
	for _, f := range c.p.files {
		ast.Inspect(f, func(n ast.Node) bool {
			as, ok := n.(*ast.AssignStmt)
			if !ok || len(as.Lhs) != 1 || len(as.Rhs) != 1 {
				return true
			}
			if id, ok := as.Lhs[0].(*ast.Ident); ok && id.Name == name {
				if call, ok := as.Rhs[0].(*ast.CallExpr); ok && len(call.Args) == 0 {
					if fn, ok := call.Fun.(*ast.Ident); ok {
						maker = fn.Name
					}
				}
			}
			return true
		})
	}
	if maker == "" {
		return nil, false
	}
	var fd *ast.FuncDecl
	for _, d := range c.p.funcs {
		if d.Recv == nil && d.Name.Name == maker && d.Body != nil {
			fd = d
		}
	}
	if fd == nil {
		return nil, false
	}
	var keys []string
	ok := true
	nlit := 0
	keyed := false
	ast.Inspect(fd.Body, func(n ast.Node) bool {
		switch x := n.(type) {
		case *ast.CompositeLit:
			if _, isArr := x.Type.(*ast.ArrayType); !isArr {
				return true
			}
			nlit++
			for _, el := range x.Elts {
				cl, isCl := el.(*ast.CompositeLit)
				if !isCl || len(cl.Elts) == 0 {
					ok = false
					continue
				}
				first := cl.Elts[0]
				if _, isKV := first.(*ast.KeyValueExpr); isKV {
					first = nil
					for _, e := range cl.Elts {
						if kv2, isKV2 := e.(*ast.KeyValueExpr); isKV2 {
							if id, isID := kv2.Key.(*ast.Ident); isID && id.Name == "Code" {
								first = kv2.Value
							}
						}
					}
				}
				lit, isLit := first.(*ast.BasicLit)
				if !isLit || lit.Kind != token.STRING {
					ok = false
					continue
				}
				s, err := strconv.Unquote(lit.Value)
				if err != nil {
					ok = false
					continue
				}
				keys = append(keys, s)
			}
			return false
		case *ast.AssignStmt:
			// dict[codes[i].Code] = &codes[i]
			if len(x.Lhs) == 1 {
				if ix, isIx := x.Lhs[0].(*ast.IndexExpr); isIx {
					if sel, isSel := ix.Index.(*ast.SelectorExpr); isSel && sel.Sel.Name == "Code" {
						keyed = true
					}
				}
			}
		}
		return true
	})
	if !ok || nlit != 1 || !keyed || len(keys) == 0 {
		return nil, false
	}
	return keys, true
}

// ---------------------------------------------------------------- emitter

func (c *rvCtx) recordRules(typ string) []rvRule {
	c.typ = typ
	c.ftypes = structFields(c.p, typ)
	c.rules = nil
	fd := c.p.method(typ, "Validate")
	if fd == nil || fd.Body == nil || (fd.Type.Params != nil && len(fd.Type.Params.List) != 0) {
		return []rvRule{{typ + ".Validate#0", rvUnknown("no Validate() method", nil)}}
	}
	fr := &rvFrame{recv: recvName(fd), locals: map[string]*rvTerm{}, exit: rvFalse, label: typ + ".Validate"}
	c.walk(fr, fd.Body.List, rvTrue)
	return c.rules
}

func (c *rvCtx) entryLoopRules(batchTyp, fn, entryTyp string) ([]rvRule, *rvCond) {
	c.typ = entryTyp
	c.ftypes = structFields(c.p, entryTyp)
	c.rules = nil
	fd := c.p.method(batchTyp, fn)
	if fd == nil || fd.Body == nil {
		return []rvRule{{batchTyp + "." + fn + "#0", rvUnknown("function not found", nil)}}, rvUnknown("function not found", nil)
	}
	fexit := rvFalse
	for _, st := range fd.Body.List {
		rs, ok := st.(*ast.RangeStmt)
		if !ok {
			continue
		}
		v, ok := rs.Value.(*ast.Ident)
		if !ok || !strings.HasSuffix(c.text(rs.X), ".Entries") {
			continue
		}
		fr := &rvFrame{recv: v.Name, locals: map[string]*rvTerm{}, exit: rvFalse, label: batchTyp + "." + fn, inLoop: true, fexit: rvFalse}
		c.walk(fr, rs.Body.List, rvTrue)
		fexit = rvOr(fexit, fr.fexit)
	}
	if len(c.rules) == 0 {
		return []rvRule{{batchTyp + "." + fn + "#0", rvUnknown("no loop over the entries", nil)}}, fexit
	}
	return c.rules, fexit
}

func rvRulesCoq(rules []rvRule) string {
	if len(rules) == 0 {
		return "[]"
	}
	var items []string
	for _, r := range rules {
		items = append(items, "("+coqString(r.label)+", "+r.cond.String()+")")
	}
	return "[ " + strings.Join(items, "\n  ; ") + " ]"
}

func emitRecValid(repo string) (string, error) {
	pkg, err := loadPackage(repo)
	if err != nil {
		return "", err
	}
	// the record types: those with Parse(record) and String(), as in the Layouts emitter
	has := map[string]int{}
	for _, fd := range pkg.funcs {
		if fd.Recv == nil || len(fd.Recv.List) != 1 {
			continue
		}
		tn := recvType(fd)
		switch fd.Name.Name {
		case "Parse":
			if fd.Type.Params != nil && len(fd.Type.Params.List) == 1 && fd.Type.Results == nil {
				has[tn] |= 1
			}
		case "String":
			if fd.Type.Params == nil || len(fd.Type.Params.List) == 0 {
				has[tn] |= 2
			}
		}
	}
	var names []string
	for n, m := range has {
		if m == 3 {
			names = append(names, n)
		}
	}
	sort.Strings(names)
	c := &rvCtx{p: pkg, opts: map[string]bool{}}
	var b strings.Builder
	b.WriteString("(* GENERATED by /verif/translator (recvalid.go) from the Validate/ValidateWith/fieldInclusion methods of the record types,\n   validators.go and the change/return code dictionaries, under default ValidateOpts; do not edit *)\n")
	b.WriteString("From Coq Require Import String List NArith ZArith.\nImport ListNotations.\nFrom ACH Require Import Bytes LayoutTypes RecValid.\nOpen Scope string_scope.\n\n")
	var all []string
	for _, n := range names {
		rules := c.recordRules(n)
		fmt.Fprintf(&b, "Definition V_%s : list (string * cond) :=\n  %s.\n\n", n, rvRulesCoq(rules))
		all = append(all, fmt.Sprintf("(%s, V_%s)", coqString(n), n))
	}
	fmt.Fprintf(&b, "Definition all_rules : list (string * list (string * cond)) :=\n  [ %s ].\n\n", strings.Join(all, "\n  ; "))
	std, stdExit := c.entryLoopRules("Batch", "isAddendaSequence", "EntryDetail")
	fmt.Fprintf(&b, "(* conditions Batch.isAddendaSequence imposes on the entries of a batch, in entry order; \"#F\" = the optional sub-record F is present *)\nDefinition B_EntryDetail : list (string * cond) :=\n  %s.\n\n", rvRulesCoq(std))
	iat, iatExit := c.entryLoopRules("IATBatch", "isAddendaSequence", "IATEntryDetail")
	fmt.Fprintf(&b, "Definition B_IATEntryDetail : list (string * cond) :=\n  %s.\n\n", rvRulesCoq(iat))
	b.WriteString("Definition batch_entry_rules : list (string * list (string * cond)) :=\n  [ (\"EntryDetail\", B_EntryDetail); (\"IATEntryDetail\", B_IATEntryDetail) ].\n\n")
	fmt.Fprintf(&b, "(* the loop `for _, entry := range batch.Entries` leaves the FUNCTION with `return nil` on an entry satisfying this\n   condition: the entries after it are not inspected *)\nDefinition batch_loop_exits : list (string * cond) :=\n  [ (\"EntryDetail\", %s); (\"IATEntryDetail\", %s) ].\n\n", stdExit.String(), iatExit.String())
	// the optional sub-records an entry can carry (pointer or slice fields named Addenda…)
	var subs []string
	for _, et := range []string{"EntryDetail", "IATEntryDetail"} {
		ft := structFields(pkg, et)
		var fs []string
		for f, k := range ft {
			if (k == "ptr" || k == "slice") && strings.HasPrefix(f, "Addenda") {
				fs = append(fs, coqString("#"+f))
			}
		}
		sort.Strings(fs)
		subs = append(subs, "("+coqString(et)+", "+coqList(fs)+")")
	}
	fmt.Fprintf(&b, "(* pseudo fields for the optional sub-records of an entry (struct fields of pointer or slice type named Addenda…) *)\nDefinition entry_subrecords : list (string * list string) :=\n  [ %s ].\n\n", strings.Join(subs, "\n  ; "))
	var os []string
	for o := range c.opts {
		os = append(os, coqString(o))
	}
	sort.Strings(os)
	fmt.Fprintf(&b, "(* option dependent conditions folded with the default options *)\nDefinition opt_atoms : list string :=\n  %s.\n", coqList(os))
	return b.String(), nil
}

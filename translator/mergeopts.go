package main

import (
	"bytes"
	"fmt"
	"go/ast"
	"go/parser"
	"go/printer"
	"go/token"
	"path/filepath"
	"strings"
)

func init() { register("MergeOptsGen", emitMergeOptsGen) }

// emitMergeOptsGen reads file.go, merge.go, batch.go and entryDetail.go and emits what the
// option part of the merge model (coq/Model/MergeOpts.v) was derived from:
//   - the fields of ValidateOpts in declaration order with their kind ("bool", "func", other),
//   - the shape of ValidateOpts.merge: the leading nil guards `if X == nil { return Y }`, the
//     composite literal entries `F: a.F || b.F` (operator and the two bases), the trailing
//     `if B.F != nil { out.F = B.F }` statements, in source order,
//   - every place of MergeFilesWith / outFile.add / convertToFiles / pickOutFile / findOutBatch /
//     batchValidation that touches option values (validateOpts, GetValidation, SetValidation,
//     merge, batchValidation), as (function, position path, kind, printed source); the path
//     names the enclosing for/if/else statements and the goto label a statement follows,
//   - the printed source of the trace-number statement of Batch.build, of
//     Batch.isSequenceAscending, Batch.isTraceNumberODFI and of the assignment in
//     EntryDetail.SetTraceNumber (comments dropped, whitespace normalised).
// Nothing is interpreted here: anything that is not recognised is emitted as it is printed (or as
// MUnknown), and the Coq checker compares with the table the model was written against.
func emitMergeOptsGen(repo string) (string, error) {
	fset := token.NewFileSet()
	parse := func(name string) (*ast.File, error) {
		return parser.ParseFile(fset, filepath.Join(repo, name), nil, 0)
	}
	fileGo, err := parse("file.go")
	if err != nil {
		return "", err
	}
	mergeGo, err := parse("merge.go")
	if err != nil {
		return "", err
	}
	batchGo, err := parse("batch.go")
	if err != nil {
		return "", err
	}
	entryGo, err := parse("entryDetail.go")
	if err != nil {
		return "", err
	}

	// ---- fields of ValidateOpts
	var fields []string
	for _, d := range fileGo.Decls {
		gd, ok := d.(*ast.GenDecl)
		if !ok || gd.Tok != token.TYPE {
			continue
		}
		for _, sp := range gd.Specs {
			ts, ok := sp.(*ast.TypeSpec)
			if !ok || ts.Name.Name != "ValidateOpts" {
				continue
			}
			st, ok := ts.Type.(*ast.StructType)
			if !ok {
				fields = append(fields, `("?", "not-a-struct")`)
				continue
			}
			for _, fl := range st.Fields.List {
				kind := moPrint(fset, fl.Type)
				if _, isFunc := fl.Type.(*ast.FuncType); isFunc {
					kind = "func"
				}
				if len(fl.Names) == 0 {
					fields = append(fields, fmt.Sprintf("(%s, %s)", coqString("?embedded"), coqString(kind)))
				}
				for _, n := range fl.Names {
					fields = append(fields, fmt.Sprintf("(%s, %s)", coqString(n.Name), coqString(kind)))
				}
			}
		}
	}

	// ---- shape of ValidateOpts.merge
	recv, param := "?", "?"
	var guards, literal, post, rest []string
	for _, d := range fileGo.Decls {
		fd, ok := d.(*ast.FuncDecl)
		if !ok || fd.Name.Name != "merge" || fd.Recv == nil || fd.Body == nil {
			continue
		}
		if !strings.Contains(mergeTypeString(fd.Recv.List[0].Type), "ValidateOpts") {
			continue
		}
		if len(fd.Recv.List[0].Names) > 0 {
			recv = fd.Recv.List[0].Names[0].Name
		}
		if len(fd.Type.Params.List) == 1 && len(fd.Type.Params.List[0].Names) == 1 {
			param = fd.Type.Params.List[0].Names[0].Name
		}
		outVar := ""
		for _, st := range fd.Body.List {
			switch s := st.(type) {
			case *ast.IfStmt:
				if g, ok := moNilGuard(s); ok && outVar == "" {
					guards = append(guards, g)
					continue
				}
				if p, ok := moPostAssign(s, outVar); ok {
					post = append(post, p)
					continue
				}
				rest = append(rest, coqString(moPrint(fset, s)))
			case *ast.AssignStmt:
				if outVar == "" && len(s.Lhs) == 1 && len(s.Rhs) == 1 && s.Tok == token.DEFINE {
					if id, ok := s.Lhs[0].(*ast.Ident); ok {
						if lits, ok := moMergeLiteral(s.Rhs[0]); ok {
							outVar = id.Name
							literal = lits
							continue
						}
					}
				}
				rest = append(rest, coqString(moPrint(fset, s)))
			case *ast.ReturnStmt:
				if len(s.Results) == 1 && exprKey(s.Results[0]) == outVar && outVar != "" {
					continue
				}
				rest = append(rest, coqString(moPrint(fset, s)))
			default:
				rest = append(rest, coqString(moPrint(fset, s)))
			}
		}
	}

	// ---- option flow of merge.go
	flowFuncs := map[string]bool{"MergeFilesWith": true, "add": true, "convertToFiles": true,
		"pickOutFile": true, "findOutBatch": true, "batchValidation": true}
	var flow []string
	for _, d := range mergeGo.Decls {
		fd, ok := d.(*ast.FuncDecl)
		if !ok || fd.Body == nil || !flowFuncs[fd.Name.Name] {
			continue
		}
		w := &moWalker{fset: fset, fn: fd.Name.Name}
		w.block(fd.Body, "")
		flow = append(flow, w.out...)
	}

	// ---- pinned source of the trace-number code
	var pins []string
	pin := func(name, text string) {
		pins = append(pins, fmt.Sprintf("(%s, %s)", coqString(name), coqString(text)))
	}
	found := map[string]bool{}
	for _, d := range batchGo.Decls {
		fd, ok := d.(*ast.FuncDecl)
		if !ok || fd.Body == nil || fd.Recv == nil || mergeTypeString(fd.Recv.List[0].Type) != "*Batch" {
			continue
		}
		switch fd.Name.Name {
		case "build":
			ast.Inspect(fd.Body, func(n ast.Node) bool {
				is, ok := n.(*ast.IfStmt)
				if !ok {
					return true
				}
				// the innermost statement deciding about SetTraceNumber that is not itself a test of the options
				if strings.Contains(moPrint(fset, is.Body), "SetTraceNumber") && strings.Contains(moPrint(fset, is.Cond), "ODFI") {
					pin("Batch.build", moPrint(fset, is))
					found["build"] = true
					return false
				}
				return true
			})
			// the two operands of that comparison
			ast.Inspect(fd.Body, func(n ast.Node) bool {
				as, ok := n.(*ast.AssignStmt)
				if !ok || len(as.Lhs) != 2 {
					return true
				}
				if id, ok := as.Lhs[0].(*ast.Ident); ok && (id.Name == "currentTraceNumberODFI" || id.Name == "batchHeaderODFI") {
					pin("Batch.build:"+id.Name, moPrint(fset, as))
				}
				return true
			})
		case "isSequenceAscending", "isTraceNumberODFI":
			pin("Batch."+fd.Name.Name, moPrint(fset, fd.Body))
			found[fd.Name.Name] = true
		case "verify":
			// the guards around the two trace rules
			ast.Inspect(fd.Body, func(n ast.Node) bool {
				is, ok := n.(*ast.IfStmt)
				if !ok {
					return true
				}
				body := moPrint(fset, is.Body)
				if strings.Contains(body, "isSequenceAscending") || strings.Contains(body, "isTraceNumberODFI") {
					if c := moPrint(fset, is.Cond); strings.Contains(c, "validateOpts") {
						pin("Batch.verify", c+" => "+strings.Join(moCalls(is.Body), ","))
						return false
					}
				}
				return true
			})
		}
	}
	for _, d := range entryGo.Decls {
		fd, ok := d.(*ast.FuncDecl)
		if !ok || fd.Body == nil || fd.Recv == nil || fd.Name.Name != "SetTraceNumber" {
			continue
		}
		if len(fd.Body.List) > 0 {
			pin("EntryDetail.SetTraceNumber", moPrint(fset, fd.Body.List[0]))
			found["SetTraceNumber"] = true
		}
		for _, st := range fd.Body.List {
			if as, ok := st.(*ast.AssignStmt); ok && strings.Contains(moPrint(fset, as.Lhs[0]), "TraceNumber") && strings.HasPrefix(moPrint(fset, as.Lhs[0]), "ed.") {
				pin("EntryDetail.SetTraceNumber:assign", moPrint(fset, as))
			}
		}
	}
	for _, k := range []string{"build", "isSequenceAscending", "isTraceNumberODFI", "SetTraceNumber"} {
		if !found[k] {
			pin("?missing", k)
		}
	}

	var b strings.Builder
	b.WriteString("(* GENERATED by /verif/translator from file.go, merge.go, batch.go and entryDetail.go; do not edit *)\n")
	b.WriteString("From Coq Require Import String List.\nImport ListNotations.\nFrom ACH Require Import MergeOptsTable.\nOpen Scope string_scope.\n\n")
	b.WriteString("Definition gen_vo_fields : list (string * string) :=\n  " + coqList(fields) + ".\n\n")
	b.WriteString("Definition gen_vo_merge_recv : string := " + coqString(recv) + ".\n")
	b.WriteString("Definition gen_vo_merge_param : string := " + coqString(param) + ".\n")
	b.WriteString("Definition gen_vo_merge_guards : list (string * string) :=\n  " + coqList(guards) + ".\n\n")
	b.WriteString("Definition gen_vo_merge_literal : list (string * mop) :=\n  " + coqList(literal) + ".\n\n")
	b.WriteString("Definition gen_vo_merge_post : list (string * string) :=\n  " + coqList(post) + ".\n\n")
	b.WriteString("Definition gen_vo_merge_rest : list string :=\n  " + coqList(rest) + ".\n\n")
	b.WriteString("Definition gen_opt_flow : list flow_site :=\n  " + coqListLines(flow) + ".\n\n")
	b.WriteString("Definition gen_trace_pins : list (string * string) :=\n  " + coqListLines(pins) + ".\n")
	return b.String(), nil
}

func coqListLines(items []string) string {
	if len(items) == 0 {
		return "[]"
	}
	return "[ " + strings.Join(items, "\n  ; ") + " ]"
}

// moPrint renders a node with go/printer (comments are not attached to the node and therefore
// dropped) and collapses all whitespace runs to one blank.
func moPrint(fset *token.FileSet, n ast.Node) string {
	var buf bytes.Buffer
	if err := printer.Fprint(&buf, fset, n); err != nil {
		return "?print-error"
	}
	return strings.Join(strings.Fields(buf.String()), " ")
}

// moNilGuard recognises `if X == nil { return Y }`.
func moNilGuard(s *ast.IfStmt) (string, bool) {
	if s.Init != nil || s.Else != nil || len(s.Body.List) != 1 {
		return "", false
	}
	be, ok := s.Cond.(*ast.BinaryExpr)
	if !ok || be.Op != token.EQL || exprKey(be.Y) != "nil" {
		return "", false
	}
	x, ok := be.X.(*ast.Ident)
	if !ok {
		return "", false
	}
	rs, ok := s.Body.List[0].(*ast.ReturnStmt)
	if !ok || len(rs.Results) != 1 {
		return "", false
	}
	y, ok := rs.Results[0].(*ast.Ident)
	if !ok {
		return "", false
	}
	return fmt.Sprintf("(%s, %s)", coqString(x.Name), coqString(y.Name)), true
}

// moPostAssign recognises `if B.F != nil { out.F = B.F }`.
func moPostAssign(s *ast.IfStmt, outVar string) (string, bool) {
	if outVar == "" || s.Init != nil || s.Else != nil || len(s.Body.List) != 1 {
		return "", false
	}
	be, ok := s.Cond.(*ast.BinaryExpr)
	if !ok || be.Op != token.NEQ || exprKey(be.Y) != "nil" {
		return "", false
	}
	sel, ok := be.X.(*ast.SelectorExpr)
	if !ok {
		return "", false
	}
	base, ok := sel.X.(*ast.Ident)
	if !ok {
		return "", false
	}
	as, ok := s.Body.List[0].(*ast.AssignStmt)
	if !ok || as.Tok != token.ASSIGN || len(as.Lhs) != 1 || len(as.Rhs) != 1 {
		return "", false
	}
	if exprKey(as.Lhs[0]) != outVar+"."+sel.Sel.Name || exprKey(as.Rhs[0]) != base.Name+"."+sel.Sel.Name {
		return "", false
	}
	return fmt.Sprintf("(%s, %s)", coqString(sel.Sel.Name), coqString(base.Name)), true
}

// moMergeLiteral renders `&ValidateOpts{F: a.F || b.F, ...}`.
func moMergeLiteral(e ast.Expr) ([]string, bool) {
	u, ok := e.(*ast.UnaryExpr)
	if !ok || u.Op != token.AND {
		return nil, false
	}
	cl, ok := u.X.(*ast.CompositeLit)
	if !ok || exprKey(cl.Type) != "ValidateOpts" {
		return nil, false
	}
	var out []string
	for _, el := range cl.Elts {
		kv, ok := el.(*ast.KeyValueExpr)
		if !ok {
			out = append(out, `("?positional", MUnknown)`)
			continue
		}
		k := exprKey(kv.Key)
		op := "MUnknown"
		if be, ok := kv.Value.(*ast.BinaryExpr); ok {
			l, okl := be.X.(*ast.SelectorExpr)
			r, okr := be.Y.(*ast.SelectorExpr)
			if okl && okr && l.Sel.Name == k && r.Sel.Name == k && exprKey(l.X) != "" && exprKey(r.X) != "" {
				switch be.Op {
				case token.LOR:
					op = fmt.Sprintf("(MOr %s %s)", coqString(exprKey(l.X)), coqString(exprKey(r.X)))
				case token.LAND:
					op = fmt.Sprintf("(MAnd %s %s)", coqString(exprKey(l.X)), coqString(exprKey(r.X)))
				}
			}
		}
		out = append(out, fmt.Sprintf("(%s, %s)", coqString(k), op))
	}
	return out, true
}

func moCalls(b *ast.BlockStmt) []string {
	var out []string
	ast.Inspect(b, func(n ast.Node) bool {
		if c, ok := n.(*ast.CallExpr); ok {
			if k := exprKey(c.Fun); k != "" {
				out = append(out, k)
			}
		}
		return true
	})
	return out
}

// ---- option flow sites

var moKeywords = []string{"validateOpts", "GetValidation", "SetValidation", ".merge(", "batchValidation("}

func moTouches(s string) bool {
	for _, k := range moKeywords {
		if strings.Contains(s, k) {
			return true
		}
	}
	return false
}

type moWalker struct {
	fset *token.FileSet
	fn   string
	out  []string
}

func (w *moWalker) site(path, kind, text string) {
	w.out = append(w.out, fmt.Sprintf("mkflow %s %s %s %s", coqString(w.fn), coqString(path), coqString(kind), coqString(text)))
}

func join(path, seg string) string {
	if path == "" {
		return seg
	}
	return path + "/" + seg
}

// block walks a statement list; a statement that follows a label L in the same list gets "@L".
func (w *moWalker) block(b *ast.BlockStmt, path string) {
	label := ""
	for _, st := range b.List {
		if ls, ok := st.(*ast.LabeledStmt); ok {
			label = ls.Label.Name
			st = ls.Stmt
		}
		p := path
		if label != "" {
			p = path + "@" + label
		}
		w.stmt(st, p)
	}
}

func (w *moWalker) stmt(st ast.Stmt, path string) {
	switch s := st.(type) {
	case *ast.BlockStmt:
		w.block(s, path)
	case *ast.ForStmt:
		w.block(s.Body, join(path, "for"))
	case *ast.RangeStmt:
		w.block(s.Body, join(path, "for"))
	case *ast.IfStmt:
		w.ifStmt(s, path, "if")
	case *ast.AssignStmt, *ast.ExprStmt, *ast.ReturnStmt, *ast.DeclStmt, *ast.GoStmt, *ast.DeferStmt, *ast.IncDecStmt:
		w.simple(st, path)
	case *ast.BranchStmt, *ast.EmptyStmt:
	default:
		if t := moPrint(w.fset, st); moTouches(t) {
			w.site(path, "unknown-statement", t)
		}
	}
}

func (w *moWalker) ifStmt(s *ast.IfStmt, path, seg string) {
	cond := moPrint(w.fset, s.Cond)
	if s.Init != nil {
		cond = moPrint(w.fset, s.Init) + "; " + cond
	}
	if moTouches(cond) {
		w.site(join(path, seg), "cond", cond)
	}
	w.block(s.Body, join(path, seg))
	switch e := s.Else.(type) {
	case *ast.IfStmt:
		w.ifStmt(e, path, "else-if")
	case *ast.BlockStmt:
		w.block(e, join(path, "else"))
	}
}

// simple records an assignment / call statement that touches options; composite literals inside
// it are reported per key so that `validateOpts: x` of a literal is one site.
func (w *moWalker) simple(st ast.Stmt, path string) {
	text := moPrint(w.fset, st)
	if !moTouches(text) {
		return
	}
	reported := false
	ast.Inspect(st, func(n ast.Node) bool {
		cl, ok := n.(*ast.CompositeLit)
		if !ok {
			return true
		}
		for _, el := range cl.Elts {
			if kv, ok := el.(*ast.KeyValueExpr); ok {
				if t := moPrint(w.fset, kv); moTouches(t) {
					w.site(path, "literal "+moPrint(w.fset, cl.Type), t)
					reported = true
				}
			}
		}
		return true
	})
	if !reported {
		w.site(path, "stmt", text)
	}
}

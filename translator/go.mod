module veriftranslator

go 1.23.0

package main

// Helpers shared by the reversal and segment emitters: integer constants of
// package ach, and `switch x.TransactionCode { case A, B: … }` arms.

import (
	"fmt"
	"go/ast"
	"go/parser"
	"go/token"
	"os"
	"path/filepath"
	"strconv"
	"strings"
)

type tcPkg struct {
	fset   *token.FileSet
	files  map[string]*ast.File
	consts map[string]int64
}

// tcLoad parses every non-test .go file of the repository root (package ach).
func tcLoad(repo string) (*tcPkg, error) {
	p := &tcPkg{fset: token.NewFileSet(), files: map[string]*ast.File{}, consts: map[string]int64{}}
	ents, err := os.ReadDir(repo)
	if err != nil {
		return nil, err
	}
	for _, e := range ents {
		n := e.Name()
		if e.IsDir() || !strings.HasSuffix(n, ".go") || strings.HasSuffix(n, "_test.go") || strings.HasPrefix(n, "verif_export") {
			continue
		}
		f, err := parser.ParseFile(p.fset, filepath.Join(repo, n), nil, 0)
		if err != nil {
			return nil, err
		}
		if f.Name.Name != "ach" {
			continue
		}
		p.files[n] = f
		for _, d := range f.Decls {
			gd, ok := d.(*ast.GenDecl)
			if !ok || gd.Tok != token.CONST {
				continue
			}
			for _, s := range gd.Specs {
				vs := s.(*ast.ValueSpec)
				for i, name := range vs.Names {
					if i >= len(vs.Values) {
						continue
					}
					if lit, ok := vs.Values[i].(*ast.BasicLit); ok && lit.Kind == token.INT {
						if v, err := strconv.ParseInt(lit.Value, 0, 64); err == nil {
							p.consts[name.Name] = v
						}
					}
				}
			}
		}
	}
	return p, nil
}

func (p *tcPkg) fn(file, recv, name string) *ast.FuncDecl {
	f := p.files[file]
	if f == nil {
		return nil
	}
	for _, d := range f.Decls {
		fd, ok := d.(*ast.FuncDecl)
		if !ok || fd.Name.Name != name || fd.Body == nil {
			continue
		}
		r := ""
		if fd.Recv != nil && len(fd.Recv.List) == 1 {
			t := fd.Recv.List[0].Type
			if st, ok := t.(*ast.StarExpr); ok {
				t = st.X
			}
			if id, ok := t.(*ast.Ident); ok {
				r = id.Name
			}
		}
		if r == recv {
			return fd
		}
	}
	return nil
}

// value resolves a case expression to an integer: a literal or a package constant.
func (p *tcPkg) value(e ast.Expr) (int64, bool) {
	switch x := e.(type) {
	case *ast.BasicLit:
		if x.Kind == token.INT {
			v, err := strconv.ParseInt(x.Value, 0, 64)
			return v, err == nil
		}
	case *ast.Ident:
		v, ok := p.consts[x.Name]
		return v, ok
	case *ast.ParenExpr:
		return p.value(x.X)
	}
	return 0, false
}

func (p *tcPkg) src(n ast.Node) string {
	pos := p.fset.Position(n.Pos())
	return fmt.Sprintf("%s:%d", filepath.Base(pos.Filename), pos.Line)
}

// isTxCode: the expression selects a field named TransactionCode.
func isTxCode(e ast.Expr) bool {
	if pe, ok := e.(*ast.ParenExpr); ok {
		return isTxCode(pe.X)
	}
	sel, ok := e.(*ast.SelectorExpr)
	return ok && sel.Sel.Name == "TransactionCode"
}

// txSwitches returns every switch over a TransactionCode inside node, in source order.
func txSwitches(node ast.Node) []*ast.SwitchStmt {
	var out []*ast.SwitchStmt
	ast.Inspect(node, func(n ast.Node) bool {
		if sw, ok := n.(*ast.SwitchStmt); ok && sw.Tag != nil && isTxCode(sw.Tag) {
			out = append(out, sw)
		}
		return true
	})
	return out
}

// zlist renders a list of Z literals; unresolved entries become (-1) and ok=false.
func (p *tcPkg) zlist(exprs []ast.Expr) (string, bool) {
	ok := true
	var items []string
	for _, e := range exprs {
		v, r := p.value(e)
		if !r {
			ok = false
			items = append(items, "(-1)")
			continue
		}
		items = append(items, zlit(v))
	}
	return coqList(items), ok
}

func zlit(v int64) string {
	if v < 0 {
		return fmt.Sprintf("(%d)", v)
	}
	return strconv.FormatInt(v, 10)
}

// selName returns "a.b" for a selector of identifiers, "a" for an identifier.
func selName(e ast.Expr) string {
	switch x := e.(type) {
	case *ast.Ident:
		return x.Name
	case *ast.SelectorExpr:
		if b := selName(x.X); b != "" {
			return b + "." + x.Sel.Name
		}
	case *ast.IndexExpr:
		if b := selName(x.X); b != "" {
			return b + "[]"
		}
	case *ast.ParenExpr:
		return selName(x.X)
	}
	return ""
}

// accumTarget classifies `credit = credit + entry.Amount` / `credit += entry.Amount`
// (and the debit twin); anything else is "".
func accumTarget(s ast.Stmt) string {
	as, ok := s.(*ast.AssignStmt)
	if !ok || len(as.Lhs) != 1 || len(as.Rhs) != 1 {
		return ""
	}
	lhs := selName(as.Lhs[0])
	if lhs != "credit" && lhs != "debit" {
		return ""
	}
	isAmount := func(e ast.Expr) bool {
		sel, ok := e.(*ast.SelectorExpr)
		return ok && sel.Sel.Name == "Amount"
	}
	switch as.Tok {
	case token.ADD_ASSIGN:
		if isAmount(as.Rhs[0]) {
			return lhs
		}
	case token.ASSIGN:
		if be, ok := as.Rhs[0].(*ast.BinaryExpr); ok && be.Op == token.ADD {
			if selName(be.X) == lhs && isAmount(be.Y) {
				return lhs
			}
			if selName(be.Y) == lhs && isAmount(be.X) {
				return lhs
			}
		}
	}
	return ""
}

// amountArms translates the switch of a calculateBatchAmounts function into
// `mkseg [codes] target unknown` items.
func (p *tcPkg) amountArms(fd *ast.FuncDecl) []string {
	if fd == nil {
		return []string{`mkseg [] TNone true`}
	}
	sws := txSwitches(fd)
	if len(sws) != 1 {
		return []string{`mkseg [] TNone true`}
	}
	var arms []string
	for _, st := range sws[0].Body.List {
		cc := st.(*ast.CaseClause)
		codes, ok := p.zlist(cc.List)
		tgt := "TNone"
		if cc.List == nil { // default:
			ok = false
		}
		if len(cc.Body) == 1 {
			switch accumTarget(cc.Body[0]) {
			case "credit":
				tgt = "TCredit"
			case "debit":
				tgt = "TDebit"
			default:
				ok = false
			}
		} else if len(cc.Body) != 0 {
			ok = false
		}
		arms = append(arms, fmt.Sprintf("mkseg %s %s %s", codes, tgt, coqBool(!ok)))
	}
	return arms
}

// orChainCodes parses `x.TransactionCode == A || x.TransactionCode == B || …`.
func (p *tcPkg) orChainCodes(e ast.Expr) ([]ast.Expr, bool) {
	switch x := e.(type) {
	case *ast.ParenExpr:
		return p.orChainCodes(x.X)
	case *ast.BinaryExpr:
		if x.Op == token.LOR {
			l, ok1 := p.orChainCodes(x.X)
			r, ok2 := p.orChainCodes(x.Y)
			return append(l, r...), ok1 && ok2
		}
		if x.Op == token.EQL {
			if isTxCode(x.X) {
				return []ast.Expr{x.Y}, true
			}
			if isTxCode(x.Y) {
				return []ast.Expr{x.X}, true
			}
		}
	}
	return nil, false
}

// advAmountArms translates calculateADVBatchAmounts (a loop of `if a || b … { credit = credit + entry.Amount }`).
func (p *tcPkg) advAmountArms(fd *ast.FuncDecl) []string {
	if fd == nil {
		return []string{`mkseg [] TNone true`}
	}
	var arms []string
	var loop *ast.RangeStmt
	for _, s := range fd.Body.List {
		if r, ok := s.(*ast.RangeStmt); ok {
			if loop != nil {
				return []string{`mkseg [] TNone true`}
			}
			loop = r
		}
	}
	if loop == nil {
		return []string{`mkseg [] TNone true`}
	}
	for _, s := range loop.Body.List {
		is, ok := s.(*ast.IfStmt)
		if !ok || is.Else != nil || is.Init != nil {
			arms = append(arms, `mkseg [] TNone true`)
			continue
		}
		exprs, okc := p.orChainCodes(is.Cond)
		codes, okv := p.zlist(exprs)
		tgt := "TNone"
		okb := len(is.Body.List) == 1
		if okb {
			switch accumTarget(is.Body.List[0]) {
			case "credit":
				tgt = "TCredit"
			case "debit":
				tgt = "TDebit"
			default:
				okb = false
			}
		}
		arms = append(arms, fmt.Sprintf("mkseg %s %s %s", codes, tgt, coqBool(!(okc && okv && okb))))
	}
	return arms
}

// standardCodes: the case list of StandardTransactionCode whose body is `return nil`.
func (p *tcPkg) standardCodes() (string, bool) {
	fd := p.fn("validators.go", "", "StandardTransactionCode")
	if fd == nil {
		return "[]", false
	}
	var sws []*ast.SwitchStmt
	ast.Inspect(fd, func(n ast.Node) bool {
		if sw, ok := n.(*ast.SwitchStmt); ok {
			sws = append(sws, sw)
		}
		return true
	})
	if len(sws) != 1 || len(sws[0].Body.List) != 1 {
		return "[]", false
	}
	cc := sws[0].Body.List[0].(*ast.CaseClause)
	if cc.List == nil || len(cc.Body) != 1 {
		return "[]", false
	}
	rs, ok := cc.Body[0].(*ast.ReturnStmt)
	if !ok || len(rs.Results) != 1 {
		return "[]", false
	}
	if id, ok := rs.Results[0].(*ast.Ident); !ok || id.Name != "nil" {
		return "[]", false
	}
	return p.zlist(cc.List)
}

func defList(name, typ string, items []string) string {
	var b strings.Builder
	fmt.Fprintf(&b, "Definition %s : %s :=\n  [ %s\n  ].\n\n", name, typ, strings.Join(items, "\n  ; "))
	return b.String()
}

// prenoteCodes: the case list of validator.isPrenote whose body is `return true`.
func (p *tcPkg) prenoteCodes() (string, bool) {
	fd := p.fn("validators.go", "validator", "isPrenote")
	if fd == nil {
		return "[]", false
	}
	var sws []*ast.SwitchStmt
	ast.Inspect(fd, func(n ast.Node) bool {
		if sw, ok := n.(*ast.SwitchStmt); ok {
			sws = append(sws, sw)
		}
		return true
	})
	if len(sws) != 1 || len(sws[0].Body.List) != 1 {
		return "[]", false
	}
	cc := sws[0].Body.List[0].(*ast.CaseClause)
	if cc.List == nil || len(cc.Body) != 1 {
		return "[]", false
	}
	rs, ok := cc.Body[0].(*ast.ReturnStmt)
	if !ok || len(rs.Results) != 1 {
		return "[]", false
	}
	if id, ok := rs.Results[0].(*ast.Ident); !ok || id.Name != "true" {
		return "[]", false
	}
	return p.zlist(cc.List)
}

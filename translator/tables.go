package main

// Emitter "Tables" (C03/C04): the code tables and the call structure of the control
// arithmetic checks, regenerated from the source:
//
//   - the credit / debit case lists of Batch.calculateBatchAmounts,
//     IATBatch.calculateBatchAmounts and Batch.calculateADVBatchAmounts, with the
//     constant names resolved through the package's const declarations,
//   - the accepted codes of StandardTransactionCode, the ADV codes refused by
//     ValidTranCodeForServiceClassCode, the service classes of isServiceClass,
//   - the digit count passed to leastSignificantDigits by the three calculateEntryHash
//     functions and the text of leastSignificantDigits / roundUp10 / aba8 bodies,
//   - for Batch.verify, IATBatch.verify, File.ValidateWith and every Batch<SEC>.Validate:
//     the ordered list of failing checks (a call whose error is returned, or a condition
//     whose body returns an error) each with the enclosing conditions that can skip it.
//
// Anything not recognised is reported in tables_problems, which the Coq checker
// requires to be empty.

import (
	"bytes"
	"fmt"
	"go/ast"
	"go/parser"
	"go/printer"
	"go/token"
	"os"
	"path/filepath"
	"sort"
	"strconv"
	"strings"
)

func init() { register("Tables", emitTables) }

type tabCtx struct {
	fset     *token.FileSet
	files    map[string]*ast.File
	consts   map[string]ast.Expr
	problems []string
}

func (c *tabCtx) problem(format string, a ...any) {
	c.problems = append(c.problems, fmt.Sprintf(format, a...))
}

func (c *tabCtx) text(n ast.Node) string {
	var b bytes.Buffer
	if err := printer.Fprint(&b, c.fset, n); err != nil {
		return "?"
	}
	return strings.Join(strings.Fields(b.String()), " ")
}

// evalInt resolves an integer constant expression (literal, named constant, parenthesis).
func (c *tabCtx) evalInt(e ast.Expr, depth int) (int64, bool) {
	if depth > 8 {
		return 0, false
	}
	switch x := e.(type) {
	case *ast.BasicLit:
		if x.Kind != token.INT {
			return 0, false
		}
		v, err := strconv.ParseInt(strings.ReplaceAll(x.Value, "_", ""), 0, 64)
		return v, err == nil
	case *ast.ParenExpr:
		return c.evalInt(x.X, depth+1)
	case *ast.Ident:
		if d, ok := c.consts[x.Name]; ok {
			return c.evalInt(d, depth+1)
		}
	}
	return 0, false
}

func (c *tabCtx) findFunc(recv, name string) *ast.FuncDecl {
	var names []string
	for n := range c.files {
		names = append(names, n)
	}
	sort.Strings(names)
	for _, n := range names {
		for _, d := range c.files[n].Decls {
			fd, ok := d.(*ast.FuncDecl)
			if !ok || fd.Name.Name != name || fd.Body == nil {
				continue
			}
			r := ""
			if fd.Recv != nil && len(fd.Recv.List) == 1 {
				t := fd.Recv.List[0].Type
				if s, ok := t.(*ast.StarExpr); ok {
					t = s.X
				}
				if id, ok := t.(*ast.Ident); ok {
					r = id.Name
				}
			}
			if r == recv {
				return fd
			}
		}
	}
	return nil
}

func (c *tabCtx) intList(exprs []ast.Expr, where string) []string {
	var out []string
	for _, e := range exprs {
		v, ok := c.evalInt(e, 0)
		if !ok {
			c.problem("%s: cannot resolve %s", where, c.text(e))
			continue
		}
		out = append(out, strconv.FormatInt(v, 10))
	}
	return out
}

// assignedTotal returns "credit"/"debit" when body is `X = X + entry.Amount`.
func (c *tabCtx) assignedTotal(body []ast.Stmt) string {
	if len(body) != 1 {
		return ""
	}
	as, ok := body[0].(*ast.AssignStmt)
	if !ok || len(as.Lhs) != 1 || len(as.Rhs) != 1 {
		return ""
	}
	id, ok := as.Lhs[0].(*ast.Ident)
	if !ok {
		return ""
	}
	want1 := id.Name + " = " + id.Name + " + entry.Amount"
	want2 := id.Name + " += entry.Amount"
	if t := c.text(as); t != want1 && t != want2 {
		return ""
	}
	return id.Name
}

// switchAmounts handles `for _, entry := range X { switch entry.TransactionCode { case ...: credit = credit + entry.Amount ... } }`.
func (c *tabCtx) switchAmounts(fd *ast.FuncDecl, where string) (credit, debit []string) {
	credit, debit = []string{"-1"}, []string{"-1"}
	if fd == nil {
		c.problem("%s: function not found", where)
		return
	}
	var sw *ast.SwitchStmt
	loops := 0
	for _, st := range fd.Body.List {
		if rs, ok := st.(*ast.RangeStmt); ok {
			loops++
			if len(rs.Body.List) == 1 {
				sw, _ = rs.Body.List[0].(*ast.SwitchStmt)
			}
		} else if _, ok := st.(*ast.ReturnStmt); !ok {
			c.problem("%s: unexpected statement %s", where, c.text(st))
		}
	}
	if loops != 1 || sw == nil || c.text(sw.Tag) != "entry.TransactionCode" {
		c.problem("%s: unexpected shape", where)
		return
	}
	seen := map[string]bool{}
	for _, cl := range sw.Body.List {
		cc := cl.(*ast.CaseClause)
		which := c.assignedTotal(cc.Body)
		switch {
		case cc.List == nil && len(cc.Body) == 0: // empty default
		case which == "credit" && !seen["credit"]:
			credit = c.intList(cc.List, where)
			seen["credit"] = true
		case which == "debit" && !seen["debit"]:
			debit = c.intList(cc.List, where)
			seen["debit"] = true
		default:
			c.problem("%s: unexpected case clause %s", where, c.text(cc))
		}
	}
	if !seen["credit"] || !seen["debit"] {
		c.problem("%s: credit or debit clause missing", where)
	}
	return
}

func (c *tabCtx) orChain(e ast.Expr, where string) []ast.Expr {
	switch x := e.(type) {
	case *ast.ParenExpr:
		return c.orChain(x.X, where)
	case *ast.BinaryExpr:
		if x.Op == token.LOR {
			return append(c.orChain(x.X, where), c.orChain(x.Y, where)...)
		}
		if x.Op == token.EQL && c.text(x.X) == "entry.TransactionCode" {
			return []ast.Expr{x.Y}
		}
	}
	c.problem("%s: unexpected condition %s", where, c.text(e))
	return nil
}

// advAmounts handles the two independent ifs of calculateADVBatchAmounts.
func (c *tabCtx) advAmounts(fd *ast.FuncDecl, where string) (credit, debit []string) {
	credit, debit = []string{"-1"}, []string{"-1"}
	if fd == nil {
		c.problem("%s: function not found", where)
		return
	}
	seen := map[string]bool{}
	for _, st := range fd.Body.List {
		rs, ok := st.(*ast.RangeStmt)
		if !ok {
			if _, ok := st.(*ast.ReturnStmt); !ok {
				c.problem("%s: unexpected statement %s", where, c.text(st))
			}
			continue
		}
		for _, s := range rs.Body.List {
			is, ok := s.(*ast.IfStmt)
			if !ok || is.Else != nil || is.Init != nil {
				c.problem("%s: unexpected statement %s", where, c.text(s))
				continue
			}
			which := c.assignedTotal(is.Body.List)
			if (which != "credit" && which != "debit") || seen[which] {
				c.problem("%s: unexpected if body %s", where, c.text(is.Body))
				continue
			}
			seen[which] = true
			l := c.intList(c.orChain(is.Cond, where), where)
			if which == "credit" {
				credit = l
			} else {
				debit = l
			}
		}
	}
	if !seen["credit"] || !seen["debit"] {
		c.problem("%s: credit or debit if missing", where)
	}
	return
}

// caseListReturningNil: `switch tag { case A, B, ...: return nil } return err`.
func (c *tabCtx) firstSwitchCases(fd *ast.FuncDecl, where, tag string) []string {
	if fd == nil {
		c.problem("%s: function not found", where)
		return []string{"-1"}
	}
	for _, st := range fd.Body.List {
		sw, ok := st.(*ast.SwitchStmt)
		if !ok {
			continue
		}
		if c.text(sw.Tag) != tag || len(sw.Body.List) != 1 {
			c.problem("%s: unexpected switch %s", where, c.text(sw.Tag))
			return []string{"-1"}
		}
		cc := sw.Body.List[0].(*ast.CaseClause)
		return c.intList(cc.List, where)
	}
	c.problem("%s: no switch", where)
	return []string{"-1"}
}

type chkEntry struct {
	what   string
	guards []string
}

func returnsError(body *ast.BlockStmt) bool {
	for _, s := range body.List {
		if r, ok := s.(*ast.ReturnStmt); ok && len(r.Results) > 0 {
			last := r.Results[len(r.Results)-1]
			if id, ok := last.(*ast.Ident); ok && id.Name == "nil" {
				continue
			}
			return true
		}
	}
	return false
}

// checks walks a validation function and lists its failing checks in source order.
func (c *tabCtx) checks(stmts []ast.Stmt, guards []string, out *[]chkEntry) {
	cp := func(extra ...string) []string {
		g := append([]string{}, guards...)
		return append(g, extra...)
	}
	for _, st := range stmts {
		switch x := st.(type) {
		case *ast.IfStmt:
			if x.Init != nil {
				if as, ok := x.Init.(*ast.AssignStmt); ok && len(as.Rhs) == 1 {
					if call, ok := as.Rhs[0].(*ast.CallExpr); ok && returnsError(x.Body) {
						*out = append(*out, chkEntry{"call " + c.text(call), cp()})
						if x.Else != nil {
							c.elseBranch(x.Else, cp("else"), out)
						}
						continue
					}
				}
				c.problem("unrecognised if-init %s", c.text(x.Init))
			}
			cond := c.text(x.Cond)
			if returnsError(x.Body) {
				*out = append(*out, chkEntry{"cond " + cond, cp()})
				// nested checks in front of the return are listed too
				c.checks(x.Body.List, cp(cond), out)
			} else {
				c.checks(x.Body.List, cp(cond), out)
			}
			if x.Else != nil {
				c.elseBranch(x.Else, cp("!("+cond+")"), out)
			}
		case *ast.RangeStmt:
			c.checks(x.Body.List, cp("range "+c.text(x.X)), out)
		case *ast.ForStmt:
			c.checks(x.Body.List, cp("for"), out)
		case *ast.BlockStmt:
			c.checks(x.List, guards, out)
		case *ast.SwitchStmt:
			for _, cl := range x.Body.List {
				cc := cl.(*ast.CaseClause)
				var labels []string
				for _, e := range cc.List {
					labels = append(labels, c.text(e))
				}
				g := "switch " + c.text(x.Tag) + " case " + strings.Join(labels, ",")
				if returnsErrorStmts(cc.Body) {
					*out = append(*out, chkEntry{"cond " + g, cp()})
				}
				c.checks(cc.Body, cp(g), out)
			}
		case *ast.ReturnStmt:
			if len(x.Results) == 1 {
				if call, ok := x.Results[0].(*ast.CallExpr); ok {
					fn := c.text(call.Fun)
					if !strings.HasSuffix(fn, ".Error") && !strings.HasPrefix(fn, "New") && fn != "fieldError" && !strings.HasPrefix(fn, "errors.") && !strings.HasPrefix(fn, "fmt.") {
						*out = append(*out, chkEntry{"call " + c.text(call), cp()})
					}
				}
			}
		}
	}
}

func returnsErrorStmts(body []ast.Stmt) bool {
	return returnsError(&ast.BlockStmt{List: body})
}

func (c *tabCtx) elseBranch(e ast.Stmt, guards []string, out *[]chkEntry) {
	switch x := e.(type) {
	case *ast.BlockStmt:
		c.checks(x.List, guards, out)
	case *ast.IfStmt:
		c.checks([]ast.Stmt{x}, guards, out)
	}
}

func (c *tabCtx) checkList(recv, name string) string {
	fd := c.findFunc(recv, name)
	if fd == nil {
		c.problem("%s.%s: function not found", recv, name)
		return "[]"
	}
	var es []chkEntry
	c.checks(fd.Body.List, nil, &es)
	var items []string
	for _, e := range es {
		var gs []string
		for _, g := range e.guards {
			gs = append(gs, coqString(g))
		}
		items = append(items, "("+coqString(e.what)+", "+coqList(gs)+")")
	}
	if len(items) == 0 {
		return "[]"
	}
	return "[ " + strings.Join(items, "\n    ; ") + " ]"
}

func (c *tabCtx) bodyText(recv, name string) string {
	fd := c.findFunc(recv, name)
	if fd == nil {
		c.problem("%s.%s: function not found", recv, name)
		return "?"
	}
	return c.text(fd.Body)
}

// lsdDigits: the literal passed to leastSignificantDigits inside recv.calculateEntryHash.
func (c *tabCtx) lsdDigits(recv string) string {
	fd := c.findFunc(recv, "calculateEntryHash")
	if fd == nil {
		c.problem("%s.calculateEntryHash: function not found", recv)
		return "(-1)"
	}
	res := "(-1)"
	n := 0
	ast.Inspect(fd.Body, func(nd ast.Node) bool {
		call, ok := nd.(*ast.CallExpr)
		if !ok {
			return true
		}
		if sel, ok := call.Fun.(*ast.SelectorExpr); ok && sel.Sel.Name == "leastSignificantDigits" && len(call.Args) == 2 {
			n++
			if v, ok := c.evalInt(call.Args[1], 0); ok {
				res = strconv.FormatInt(v, 10)
			}
		}
		return true
	})
	if n != 1 {
		c.problem("%s.calculateEntryHash: %d leastSignificantDigits calls", recv, n)
		return "(-1)"
	}
	// the function must end in `return x.leastSignificantDigits(hash, N)`
	last := fd.Body.List[len(fd.Body.List)-1]
	if r, ok := last.(*ast.ReturnStmt); !ok || !strings.Contains(c.text(r), "leastSignificantDigits(hash,") {
		c.problem("%s.calculateEntryHash: does not return the truncated hash", recv)
		return "(-1)"
	}
	return res
}

func emitTables(repo string) (string, error) {
	c := &tabCtx{fset: token.NewFileSet(), files: map[string]*ast.File{}, consts: map[string]ast.Expr{}}
	ents, err := os.ReadDir(repo)
	if err != nil {
		return "", err
	}
	for _, e := range ents {
		n := e.Name()
		if e.IsDir() || !strings.HasSuffix(n, ".go") || strings.HasSuffix(n, "_test.go") || strings.HasPrefix(n, "verif_export") {
			continue
		}
		f, err := parser.ParseFile(c.fset, filepath.Join(repo, n), nil, 0)
		if err != nil {
			return "", err
		}
		c.files[n] = f
		for _, d := range f.Decls {
			gd, ok := d.(*ast.GenDecl)
			if !ok || gd.Tok != token.CONST {
				continue
			}
			for _, sp := range gd.Specs {
				vs := sp.(*ast.ValueSpec)
				for i, id := range vs.Names {
					if i < len(vs.Values) {
						c.consts[id.Name] = vs.Values[i]
					}
				}
			}
		}
	}

	stdC, stdD := c.switchAmounts(c.findFunc("Batch", "calculateBatchAmounts"), "Batch.calculateBatchAmounts")
	iatC, iatD := c.switchAmounts(c.findFunc("IATBatch", "calculateBatchAmounts"), "IATBatch.calculateBatchAmounts")
	advC, advD := c.advAmounts(c.findFunc("Batch", "calculateADVBatchAmounts"), "Batch.calculateADVBatchAmounts")
	codes := c.firstSwitchCases(c.findFunc("", "StandardTransactionCode"), "StandardTransactionCode", "code")
	advcodes := c.firstSwitchCases(c.findFunc("Batch", "ValidTranCodeForServiceClassCode"), "ValidTranCodeForServiceClassCode", "entry.TransactionCode")
	classes := c.firstSwitchCases(c.findFunc("validator", "isServiceClass"), "isServiceClass", "code")
	named := func(n string) string {
		e, ok := c.consts[n]
		if !ok {
			c.problem("constant %s not found", n)
			return "(-1)"
		}
		v, ok := c.evalInt(e, 0)
		if !ok {
			c.problem("constant %s not an integer literal", n)
			return "(-1)"
		}
		return strconv.FormatInt(v, 10)
	}
	d1, d2, d3 := c.lsdDigits("Batch"), c.lsdDigits("IATBatch"), c.lsdDigits("File")
	if d1 != d2 || d1 != d3 {
		c.problem("hash digit counts differ: %s %s %s", d1, d2, d3)
	}

	// every Batch<SEC>.Validate
	var secs []string
	var secNames []string
	for n, f := range c.files {
		_ = f
		if strings.HasPrefix(n, "batch") {
			secNames = append(secNames, n)
		}
	}
	sort.Strings(secNames)
	for _, n := range secNames {
		for _, d := range c.files[n].Decls {
			fd, ok := d.(*ast.FuncDecl)
			if !ok || fd.Name.Name != "Validate" || fd.Recv == nil || fd.Body == nil {
				continue
			}
			t := fd.Recv.List[0].Type
			if s, ok := t.(*ast.StarExpr); ok {
				t = s.X
			}
			id, ok := t.(*ast.Ident)
			if !ok || !strings.HasPrefix(id.Name, "Batch") || id.Name == "Batch" || id.Name == "BatchHeader" || id.Name == "BatchControl" {
				continue
			}
			secs = append(secs, "("+coqString(id.Name)+",\n    "+c.checkList(id.Name, "Validate")+")")
		}
	}

	zl := func(l []string) string {
		var o []string
		for _, x := range l {
			if strings.HasPrefix(x, "-") {
				x = "(" + x + ")"
			}
			o = append(o, x)
		}
		return coqList(o)
	}
	var b strings.Builder
	b.WriteString("(* GENERATED by /verif/translator (tables.go) from batch.go, iatBatch.go, file.go, validators.go, converters.go, batch<SEC>.go; do not edit *)\n")
	b.WriteString("From Coq Require Import String List ZArith.\nImport ListNotations.\nFrom ACH Require Import Arith.\nOpen Scope Z_scope.\n\n")
	fmt.Fprintf(&b, "Definition gen_tables : tables := mktables\n  %s\n  %s\n  %s\n  %s\n  %s\n  %s\n  %s\n  %s\n  %s\n  %s %s %s %s\n  %s %s %s %s.\n\n",
		zl(stdC), zl(stdD), zl(iatC), zl(iatD), zl(advC), zl(advD), zl(codes), zl(advcodes), zl(classes),
		named("MixedDebitsAndCredits"), named("CreditsOnly"), named("DebitsOnly"), named("AutomatedAccountingAdvices"),
		d1, named("NachaEntryAmountLimit"), named("NachaBatchDebitCreditLimit"), named("NachaFileDebitCreditLimit"))
	b.WriteString("Open Scope string_scope.\n\n")
	fmt.Fprintf(&b, "Definition src_least_significant_digits : string := %s.\n", coqString(c.bodyText("converters", "leastSignificantDigits")))
	fmt.Fprintf(&b, "Definition src_round_up_10 : string := %s.\n", coqString(c.bodyText("", "roundUp10")))
	fmt.Fprintf(&b, "Definition src_credit_or_debit : string := %s.\n\n", coqString(c.bodyText("EntryDetail", "CreditOrDebit")))
	fmt.Fprintf(&b, "Definition checks_batch_verify : list (string * list string) :=\n    %s.\n\n", c.checkList("Batch", "verify"))
	fmt.Fprintf(&b, "Definition checks_iat_verify : list (string * list string) :=\n    %s.\n\n", c.checkList("IATBatch", "verify"))
	fmt.Fprintf(&b, "Definition checks_iat_validate : list (string * list string) :=\n    %s.\n\n", c.checkList("IATBatch", "Validate"))
	fmt.Fprintf(&b, "Definition checks_file_validate : list (string * list string) :=\n    %s.\n\n", c.checkList("File", "ValidateWith"))
	fmt.Fprintf(&b, "Definition checks_entry_validate : list (string * list string) :=\n    %s.\n\n", c.checkList("EntryDetail", "Validate"))
	fmt.Fprintf(&b, "Definition checks_iat_entry_validate : list (string * list string) :=\n    %s.\n\n", c.checkList("IATEntryDetail", "Validate"))
	fmt.Fprintf(&b, "Definition checks_adv_entry_validate : list (string * list string) :=\n    %s.\n\n", c.checkList("ADVEntryDetail", "Validate"))
	fmt.Fprintf(&b, "Definition checks_field_inclusion : list (string * list string) :=\n    %s.\n\n", c.checkList("Batch", "isFieldInclusion"))
	fmt.Fprintf(&b, "Definition checks_iat_field_inclusion : list (string * list string) :=\n    %s.\n\n", c.checkList("IATBatch", "isFieldInclusion"))
	fmt.Fprintf(&b, "Definition checks_sec_validate : list (string * list (string * list string)) :=\n  [ %s ].\n\n", strings.Join(secs, "\n  ; "))
	var ps []string
	for _, p := range c.problems {
		ps = append(ps, coqString(p))
	}
	fmt.Fprintf(&b, "Definition tables_problems : list string := %s.\n", coqList(ps))
	return b.String(), nil
}

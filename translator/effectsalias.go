package main

// EffectsAlias.v — the aliasing-write table of the read-only entry points including the
// server's validate operation, and the construction facts of NewBatch / Reader.Read /
// File.Create (property C14, phase 5).  Produced by ../translator-ssa in its "alias" mode
// (translator-ssa/alias.go: packages github.com/moov-io/ach and .../server); this emitter runs
// that program and caches its output by a hash of the analysed sources, like effects.go.
// If the program cannot be built or fails, the emitter returns an error, so EffectsAlias.v
// defines no table and every dependent obligation breaks (fail closed).

import (
	"crypto/sha256"
	"encoding/hex"
	"fmt"
	"os"
	"os/exec"
	"path/filepath"
	"sort"
	"strings"
)

func init() { register("EffectsAlias", emitEffectsAlias) }

func emitEffectsAlias(repo string) (string, error) {
	exe, err := os.Executable()
	if err != nil {
		return "", err
	}
	bin := filepath.Dir(exe)
	build := filepath.Dir(bin)
	ssaDir := filepath.Join(filepath.Dir(build), "translator-ssa")
	if v := os.Getenv("VERIF_TRANSLATOR_SSA"); v != "" {
		ssaDir = v
	}
	tool := filepath.Join(bin, "translate-ssa-alias")

	h := sha256.New()
	var files []string
	for _, pat := range []string{filepath.Join(ssaDir, "*.go"), filepath.Join(ssaDir, "go.mod"), filepath.Join(repo, "*.go"),
		filepath.Join(repo, "server", "*.go"), filepath.Join(repo, "go.mod")} {
		m, _ := filepath.Glob(pat)
		files = append(files, m...)
	}
	sort.Strings(files)
	n := 0
	for _, p := range files {
		if strings.HasSuffix(p, "_test.go") {
			continue
		}
		b, err := os.ReadFile(p)
		if err != nil {
			return "", err
		}
		rel, _ := filepath.Rel(repo, p)
		fmt.Fprintf(h, "%s %d\n", rel, len(b))
		h.Write(b)
		n++
	}
	if n < 10 {
		return "", fmt.Errorf("only %d source files found under %s", n, repo)
	}
	key := hex.EncodeToString(h.Sum(nil))[:24]
	cacheDir := filepath.Join(build, "cache")
	if err := os.MkdirAll(cacheDir, 0o755); err != nil {
		return "", err
	}
	cached := filepath.Join(cacheDir, "effectsalias-"+key+".v")
	if b, err := os.ReadFile(cached); err == nil && len(b) > 0 {
		return string(b), nil
	}

	env := append(os.Environ(), "GOFLAGS=-mod=mod", "GOPROXY=off", "GOSUMDB=off", "GOTOOLCHAIN=local")
	cmd := exec.Command("go", "build", "-o", tool, ".")
	cmd.Dir = ssaDir
	cmd.Env = env
	if out, err := cmd.CombinedOutput(); err != nil {
		return "", fmt.Errorf("building translator-ssa: %v: %s", err, tail(string(out), 400))
	}
	tmp := cached + ".tmp"
	cmd = exec.Command(tool, "-mode", "alias", "-repo", repo, "-out", tmp)
	cmd.Env = env
	if out, err := cmd.CombinedOutput(); err != nil {
		return "", fmt.Errorf("translate-ssa -mode alias: %v: %s", err, tail(string(out), 400))
	}
	b, err := os.ReadFile(tmp)
	if err != nil {
		return "", err
	}
	if err := os.Rename(tmp, cached); err != nil {
		return "", err
	}
	if old, _ := filepath.Glob(filepath.Join(cacheDir, "effectsalias-*.v")); len(old) > 40 {
		for _, p := range old {
			if p != cached {
				os.Remove(p)
			}
		}
	}
	return string(b), nil
}

// Command translate regenerates the Coq tables under coq/Gen from the
// moov-io/ach source tree.  It only parses source text (go/ast); it never
// aborts on a construct it does not recognise: the corresponding table entry
// is emitted as an Unknown value, which makes the Coq-side boolean checker
// evaluate to false.
package main

import (
	"flag"
	"fmt"
	"os"
	"path/filepath"
	"sort"
	"strings"
)

type emitter struct {
	name string
	fn   func(repo string) (string, error)
}

// emitters register themselves from init() functions (one file per table).
var emitters []emitter

func register(name string, fn func(repo string) (string, error)) {
	emitters = append(emitters, emitter{name, fn})
}

func main() {
	repo := flag.String("repo", "/repo", "path of the moov-io/ach working tree")
	out := flag.String("out", "", "output directory for the generated .v files")
	only := flag.String("only", "", "comma separated emitter names (default: all)")
	flag.Parse()
	if *out == "" {
		fmt.Fprintln(os.Stderr, "translate: -out is required")
		os.Exit(2)
	}
	if err := os.MkdirAll(*out, 0o755); err != nil {
		fmt.Fprintln(os.Stderr, err)
		os.Exit(2)
	}
	want := map[string]bool{}
	for _, n := range strings.Split(*only, ",") {
		if n != "" {
			want[n] = true
		}
	}
	sort.SliceStable(emitters, func(i, j int) bool { return emitters[i].name < emitters[j].name })
	rc := 0
	for _, e := range emitters {
		if len(want) > 0 && !want[e.name] {
			continue
		}
		src, err := e.fn(*repo)
		if err != nil {
			// fail closed: an emitter that cannot read its source produces a file that
			// does not define its table, so every dependent proof breaks.
			fmt.Fprintf(os.Stderr, "translate: %s: %v\n", e.name, err)
			src = fmt.Sprintf("(* translate: %s failed: %s *)\n", e.name, coqComment(err.Error()))
			rc = 1
		}
		p := filepath.Join(*out, e.name+".v")
		if err := os.WriteFile(p, []byte(src), 0o644); err != nil {
			fmt.Fprintln(os.Stderr, err)
			os.Exit(2)
		}
	}
	os.Exit(rc)
}

func coqComment(s string) string {
	s = strings.ReplaceAll(s, "(*", "( *")
	return strings.ReplaceAll(s, "*)", "* )")
}

// coqString renders s as a Coq string literal (Strings.String), ASCII only.
func coqString(s string) string {
	var b strings.Builder
	b.WriteByte('"')
	for _, r := range s {
		switch {
		case r == '"':
			b.WriteString(`""`)
		case r < 32 || r > 126:
			b.WriteByte('?')
		default:
			b.WriteRune(r)
		}
	}
	b.WriteByte('"')
	return b.String()
}

func coqList(items []string) string {
	if len(items) == 0 {
		return "[]"
	}
	return "[" + strings.Join(items, "; ") + "]"
}

func coqBool(b bool) string {
	if b {
		return "true"
	}
	return "false"
}

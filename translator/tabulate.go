package main

import (
	"bytes"
	"fmt"
	"go/ast"
	"go/parser"
	"go/printer"
	"go/token"
	"path/filepath"
	"regexp"
	"strconv"
	"strings"
)

func init() { register("TabulateTable", emitTabulateTable) }

// emitTabulateTable reads the tabulation code of IAT batches, ADV batches and files
// (iatBatch.go: build, calculateBatchAmounts, calculateEntryHash; batch.go: build,
// calculateADVBatchAmounts, calculateEntryHash; file.go: Create, createFileADV) and emits
// the data the Coq model of C05 (coq/Model/BuildIAT.v, BuildADV.v, FileCreateAll.v) relies on
// as a [ttable]: the code lists of the two amount functions, and the integer constants of the
// statements the model transcribes (initial sequence numbers, the ADV limit, the hash digits,
// `BatchNumber <= N`, the record overhead per batch, the blocking factor).  The source of each
// function is printed, white space collapsed, and searched for the statement shapes listed
// below; a shape that does not occur the expected number of times sets tt_unknown (the Coq
// checker is then false) — the emitter never aborts on source it does not understand.
func emitTabulateTable(repo string) (string, error) {
	t := &tabT{fset: token.NewFileSet()}
	consts, err := c05IntConsts(t.fset, repo)
	if err != nil {
		return "", err
	}
	t.consts = consts
	for _, name := range []string{"iatBatch.go", "batch.go", "file.go"} {
		f, err := parser.ParseFile(t.fset, filepath.Join(repo, name), nil, 0)
		if err != nil {
			return "", err
		}
		t.files = append(t.files, f)
	}

	// ---- code lists
	iatCredit, iatDebit := t.switchLists("IATBatch", "calculateBatchAmounts", "iatBatch.Entries")
	advCredit, advDebit := t.ifLists("Batch", "calculateADVBatchAmounts", "batch.ADVEntries")

	// ---- IATBatch.build
	ib := t.funcSrc("IATBatch", "build")
	iatSeq := t.one(ib, "IATBatch.build", `seq := (\d+) `)
	a17 := t.one(ib, "IATBatch.build", `addenda17Seq := (\d+) `)
	a18 := t.one(ib, "IATBatch.build", `addenda18Seq := (\d+) `)
	for _, frag := range []string{
		"if err := iatBatch.Header.Validate(); err != nil { return err }",
		"if len(iatBatch.Entries) <= 0 { return",
		"for i, entry := range iatBatch.Entries {",
		"if err := iatBatch.addendaFieldInclusion(entry); err != nil { return err }",
		"currentTraceNumberODFI, err := strconv.Atoi(entry.TraceNumberField()[:8]) if err != nil { return err }",
		"batchHeaderODFI, err := strconv.Atoi(iatBatch.Header.ODFIIdentificationField()[:8]) if err != nil { return err }",
		"if currentTraceNumberODFI != batchHeaderODFI { if opts := iatBatch.validateOpts; opts == nil { iatBatch.Entries[i].SetTraceNumber(iatBatch.Header.ODFIIdentification, seq) } else {",
		"if !opts.BypassOriginValidation && !opts.CustomTraceNumbers { iatBatch.Entries[i].SetTraceNumber(iatBatch.Header.ODFIIdentification, seq) } } }",
		"entryDetailSequenceNumber := iatBatch.parseNumField(iatBatch.Entries[i].TraceNumberField()[8:])",
		"if entry.Addenda10 != nil { entry.Addenda10.EntryDetailSequenceNumber = entryDetailSequenceNumber }",
		"if entry.Addenda11 != nil { entry.Addenda11.EntryDetailSequenceNumber = entryDetailSequenceNumber }",
		"if entry.Addenda12 != nil { entry.Addenda12.EntryDetailSequenceNumber = entryDetailSequenceNumber }",
		"if entry.Addenda13 != nil { entry.Addenda13.EntryDetailSequenceNumber = entryDetailSequenceNumber }",
		"if entry.Addenda14 != nil { entry.Addenda14.EntryDetailSequenceNumber = entryDetailSequenceNumber }",
		"if entry.Addenda15 != nil { entry.Addenda15.EntryDetailSequenceNumber = entryDetailSequenceNumber }",
		"if entry.Addenda16 != nil { entry.Addenda16.EntryDetailSequenceNumber = entryDetailSequenceNumber }",
		" seq++ ",
		"for _, addenda17 := range entry.Addenda17 { addenda17.SequenceNumber = addenda17Seq addenda17.EntryDetailSequenceNumber = entryDetailSequenceNumber addenda17Seq++ }",
		"for _, addenda18 := range entry.Addenda18 { addenda18.SequenceNumber = addenda18Seq addenda18.EntryDetailSequenceNumber = entryDetailSequenceNumber addenda18Seq++ }",
		"bc.ServiceClassCode = iatBatch.Header.ServiceClassCode",
		"bc.BatchNumber = iatBatch.Header.BatchNumber",
		"bc.EntryHash = iatBatch.calculateEntryHash()",
		"bc.TotalCreditEntryDollarAmount, bc.TotalDebitEntryDollarAmount = iatBatch.calculateBatchAmounts()",
		"entryCount, _ := iatBatch.isBatchEntryCount() bc.EntryAddendaCount = entryCount",
	} {
		t.has(ib, "IATBatch.build", frag, 1)
	}
	ic := t.funcSrc("IATBatch", "isBatchEntryCount")
	for _, frag := range []string{
		"for _, entry := range iatBatch.Entries { entryCount += 1 if entry.Addenda10 != nil { entryCount += 1 }",
		"if entry.Addenda16 != nil { entryCount += 1 } entryCount += len(entry.Addenda17) + len(entry.Addenda18) if entry.Addenda98 != nil { entryCount = entryCount + 1 } if entry.Addenda99 != nil { entryCount = entryCount + 1 } }",
	} {
		t.has(ic, "IATBatch.isBatchEntryCount", frag, 1)
	}
	t.has(ic, "IATBatch.isBatchEntryCount", "entryCount += 1 }", 7)
	ih := t.funcSrc("IATBatch", "calculateEntryHash")
	t.has(ih, "IATBatch.calculateEntryHash", "for _, entry := range iatBatch.Entries { entryRDFI, _ := strconv.Atoi(aba8(entry.RDFIIdentification)) hash += entryRDFI }", 1)
	iatDigits := t.one(ih, "IATBatch.calculateEntryHash", `return iatBatch\.leastSignificantDigits\(hash, (\d+)\)`)

	// ---- Batch.build (ADV branch) and the hash
	bb := t.funcSrc("Batch", "build")
	stdSeq := t.one(bb, "Batch.build", `seq := (\d+) `)
	advMax := t.one(bb, "Batch.build", `if seq > (\d+) \{ return`)
	for _, frag := range []string{
		"if len(batch.Entries) <= 0 && len(batch.ADVEntries) <= 0 { return",
		"} else { for i, entry := range batch.ADVEntries { entryCount++ if entry.Addenda99 != nil { entryCount++ } batch.ADVEntries[i].SequenceNumber = seq seq++ if seq >",
		"bcADV.ServiceClassCode = batch.Header.ServiceClassCode",
		"bcADV.BatchNumber = batch.Header.BatchNumber",
		"bcADV.EntryAddendaCount = entryCount",
		"bcADV.EntryHash = batch.calculateEntryHash()",
		"bcADV.TotalCreditEntryDollarAmount, bcADV.TotalDebitEntryDollarAmount = batch.calculateADVBatchAmounts()",
		"batch.ADVControl = bcADV } return batch.upsertOffsets() }",
	} {
		t.has(bb, "Batch.build", frag, 1)
	}
	bh := t.funcSrc("Batch", "calculateEntryHash")
	t.has(bh, "Batch.calculateEntryHash", "for _, entry := range batch.ADVEntries { entryRDFI, _ := strconv.Atoi(aba8(entry.RDFIIdentification)) hash += entryRDFI }", 1)
	stdDigits := t.one(bh, "Batch.calculateEntryHash", `return batch\.leastSignificantDigits\(hash, (\d+)\)`)
	up := t.funcSrc("Batch", "upsertOffsets")
	t.has(up, "Batch.upsertOffsets", "if b == nil || b.offset == nil { return nil } if b.IsADV() { return errors.New(", 1)

	// ---- File.Create / createFileADV
	fc := t.funcSrc("File", "Create")
	for _, frag := range []string{
		"if !opts.SkipAll { if !opts.AllowMissingFileHeader { if err := f.Header.Validate(); err != nil { return err } }",
		"if !opts.AllowZeroBatches && (len(f.Batches) <= 0 && len(f.IATBatches) <= 0) { return ErrFileNoBatches } }",
		"if !f.IsADV() {",
		"for i, batch := range f.Batches {",
		"for i, iatBatch := range f.IATBatches {",
		"f.Batches[i].GetHeader().BatchNumber = batchSeq f.Batches[i].GetControl().BatchNumber = batchSeq } batchSeq++",
		"f.IATBatches[i].GetHeader().BatchNumber = batchSeq f.IATBatches[i].GetControl().BatchNumber = batchSeq } batchSeq++",
		"fileEntryAddendaCount = fileEntryAddendaCount + batch.GetControl().EntryAddendaCount",
		"fileEntryAddendaCount = fileEntryAddendaCount + iatBatch.GetControl().EntryAddendaCount",
		"fileEntryHashSum = fileEntryHashSum + batch.GetControl().EntryHash",
		"fileEntryHashSum = fileEntryHashSum + iatBatch.GetControl().EntryHash",
		"totalDebitAmount = totalDebitAmount + batch.GetControl().TotalDebitEntryDollarAmount",
		"totalCreditAmount = totalCreditAmount + batch.GetControl().TotalCreditEntryDollarAmount",
		"totalDebitAmount = totalDebitAmount + iatBatch.GetControl().TotalDebitEntryDollarAmount",
		"totalCreditAmount = totalCreditAmount + iatBatch.GetControl().TotalCreditEntryDollarAmount",
		"fc.EntryAddendaCount = fileEntryAddendaCount",
		"fc.TotalDebitEntryDollarAmountInFile = totalDebitAmount fc.TotalCreditEntryDollarAmountInFile = totalCreditAmount f.Control = fc } else { if err := f.createFileADV(); err != nil { return err } } return nil }",
	} {
		t.has(fc, "File.Create", frag, 1)
	}
	create := t.fileConsts(fc, "File.Create", []string{
		`f\.Batches\[i\]\.GetHeader\(\)\.BatchNumber <= (\d+) \{`,
		`f\.IATBatches\[i\]\.GetHeader\(\)\.BatchNumber <= (\d+) \{`,
	}, []string{
		`totalRecordsInFile = totalRecordsInFile \+ (\d+) \+ batch\.GetControl\(\)\.EntryAddendaCount`,
		`totalRecordsInFile = totalRecordsInFile \+ (\d+) \+ iatBatch\.GetControl\(\)\.EntryAddendaCount`,
	})
	fa := t.funcSrc("File", "createFileADV")
	for _, frag := range []string{
		"for i, batch := range f.Batches { if batch.GetHeader().StandardEntryClassCode != ADV { return ErrFileADVOnly }",
		"f.Batches[i].GetHeader().BatchNumber = batchSeq f.Batches[i].GetADVControl().BatchNumber = batchSeq } batchSeq++",
		"fileEntryAddendaCount = fileEntryAddendaCount + batch.GetADVControl().EntryAddendaCount",
		"fileEntryHashSum = fileEntryHashSum + batch.GetADVControl().EntryHash",
		"totalDebitAmount = totalDebitAmount + batch.GetADVControl().TotalDebitEntryDollarAmount",
		"totalCreditAmount = totalCreditAmount + batch.GetADVControl().TotalCreditEntryDollarAmount",
		"fc.EntryAddendaCount = fileEntryAddendaCount",
		"fc.TotalDebitEntryDollarAmountInFile = totalDebitAmount fc.TotalCreditEntryDollarAmountInFile = totalCreditAmount f.ADVControl = fc return nil }",
	} {
		t.has(fa, "File.createFileADV", frag, 1)
	}
	createADV := t.fileConsts(fa, "File.createFileADV", []string{
		`f\.Batches\[i\]\.GetHeader\(\)\.BatchNumber <= (\d+) \{`,
	}, []string{
		`totalRecordsInFile = totalRecordsInFile \+ (\d+) \+ batch\.GetADVControl\(\)\.EntryAddendaCount`,
	})
	guard := strings.HasPrefix(fa, " { if len(f.IATBatches) > 0 { return ErrFileADVOnly } totalRecordsInFile := ")
	if !guard {
		t.has(fa, "File.createFileADV", "f.IATBatches", 0)
	}
	isadv := t.funcSrc("File", "IsADV")
	t.has(isadv, "File.IsADV", "if f.Batches[i].GetHeader().StandardEntryClassCode == ADV { return true } } return false }", 1)

	var b strings.Builder
	b.WriteString("(* GENERATED by /verif/translator from iatBatch.go, batch.go, file.go (tabulation of IAT / ADV batches and files); do not edit *)\n")
	b.WriteString("From ACH Require Import BuildIAT.\nOpen Scope Z_scope.\n\n")
	for _, n := range t.notes {
		b.WriteString("(* unrecognised: " + coqComment(n) + " *)\n")
	}
	fmt.Fprintf(&b, "Definition tabulate_table : ttable :=\n  mkttable\n    %s\n    %s\n    %s\n    %s\n    %s %s\n    %s %s %s\n    %s %s\n    %s\n    %s\n    %s\n    %s.\n",
		c05ZList(iatCredit), c05ZList(iatDebit), c05ZList(advCredit), c05ZList(advDebit),
		c05Z(iatDigits), c05Z(stdDigits), c05Z(iatSeq), c05Z(a17), c05Z(a18), c05Z(stdSeq), c05Z(advMax),
		create, createADV, coqBool(guard), coqBool(len(t.notes) > 0))
	return b.String(), nil
}

type tabT struct {
	fset   *token.FileSet
	consts map[string]int
	files  []*ast.File
	notes  []string
}

func (t *tabT) note(format string, a ...any) { t.notes = append(t.notes, fmt.Sprintf(format, a...)) }

func (t *tabT) src(n ast.Node) string {
	var b bytes.Buffer
	printer.Fprint(&b, t.fset, n)
	return strings.Join(strings.Fields(b.String()), " ")
}

func (t *tabT) funcDecl(recv, name string) *ast.FuncDecl {
	for _, f := range t.files {
		for _, d := range f.Decls {
			fd, ok := d.(*ast.FuncDecl)
			if !ok || fd.Body == nil || fd.Recv == nil || fd.Name.Name != name || len(fd.Recv.List) != 1 {
				continue
			}
			rt := fd.Recv.List[0].Type
			if st, ok := rt.(*ast.StarExpr); ok {
				rt = st.X
			}
			if id, ok := rt.(*ast.Ident); ok && id.Name == recv {
				return fd
			}
		}
	}
	return nil
}


// funcSrc: the body of the method without comments, white space collapsed, with one blank at
// either end ("" and a note when the method does not exist).
func (t *tabT) funcSrc(recv, name string) string {
	fd := t.funcDecl(recv, name)
	if fd == nil {
		t.note("%s.%s not found", recv, name)
		return ""
	}
	// go/parser was run without ParseComments, so the printed body carries none
	return " " + t.src(fd.Body) + " "
}

// has: the fragment occurs exactly n times.
func (t *tabT) has(src, where, frag string, n int) {
	if c := strings.Count(src, frag); c != n {
		t.note("%s: %d occurrences (expected %d) of `%s`", where, c, n, frag)
	}
}

// one: the pattern occurs exactly once; its first group is an integer.
func (t *tabT) one(src, where, pat string) int {
	m := regexp.MustCompile(pat).FindAllStringSubmatch(src, -1)
	if len(m) != 1 {
		t.note("%s: %d matches (expected 1) of /%s/", where, len(m), pat)
		return -1
	}
	v, err := strconv.Atoi(m[0][1])
	if err != nil {
		t.note("%s: /%s/ captured %s", where, pat, m[0][1])
		return -1
	}
	return v
}

// all: every match of the pattern, first group as integer.
func (t *tabT) all(src, pat string) []int {
	var out []int
	for _, m := range regexp.MustCompile(pat).FindAllStringSubmatch(src, -1) {
		if v, err := strconv.Atoi(m[1]); err == nil {
			out = append(out, v)
		} else {
			out = append(out, -1)
		}
	}
	return out
}

// fileConsts renders the [fconsts] of File.Create / createFileADV.
func (t *tabT) fileConsts(src, where string, thresh, overhead []string) string {
	recInit := t.one(src, where, `totalRecordsInFile := (\d+) `)
	seqInit := t.one(src, where, `batchSeq := (\d+) `)
	sub := t.one(src, where, `fc\.BatchCount = batchSeq - (\d+) `)
	var th, ov []int
	for _, p := range thresh {
		th = append(th, t.one(src, where, p))
	}
	if n := len(t.all(src, `BatchNumber <= (\d+)`)); n != len(thresh) {
		t.note("%s: %d comparisons `BatchNumber <= N` (expected %d)", where, n, len(thresh))
	}
	for _, p := range overhead {
		ov = append(ov, t.one(src, where, p))
	}
	if n := strings.Count(src, "totalRecordsInFile = "); n != len(overhead) {
		t.note("%s: %d assignments to totalRecordsInFile (expected %d)", where, n, len(overhead))
	}
	block := []int{
		t.one(src, where, `if \(totalRecordsInFile % (\d+)\) != 0 \{`),
		t.one(src, where, `\{ fc\.BlockCount = totalRecordsInFile/(\d+) \+ 1 \} else \{`),
		t.one(src, where, `else \{ fc\.BlockCount = totalRecordsInFile / (\d+) \}`),
	}
	hash := "None"
	trunc := t.all(src, `fc\.EntryHash = fc\.converters\.leastSignificantDigits\(fileEntryHashSum, (\d+)\)`)
	plain := strings.Count(src, "fc.EntryHash = fileEntryHashSum ")
	switch {
	case len(trunc) == 1 && plain == 0:
		hash = "(Some " + c05Z(trunc[0]) + ")"
	case len(trunc) == 0 && plain == 1:
	default:
		t.note("%s: assignment to fc.EntryHash not recognised", where)
	}
	if n := strings.Count(src, "fc.EntryHash = "); n != 1 {
		t.note("%s: %d assignments to fc.EntryHash", where, n)
	}
	return fmt.Sprintf("(mkfconsts %s %s %s %s %s %s %s)", c05Z(recInit), c05Z(seqInit), c05ZList(th), c05ZList(ov), c05ZList(block), hash, c05Z(sub))
}

// switchLists: for _, entry := range <over> { switch entry.TransactionCode { case …: credit = credit + entry.Amount  case …: debit = … } }
func (t *tabT) switchLists(recv, name, over string) (credit, debit []int) {
	fd := t.funcDecl(recv, name)
	where := recv + "." + name
	if fd == nil {
		t.note("%s not found", where)
		return
	}
	if len(fd.Body.List) != 2 {
		t.note("%s: %d statements (expected range loop + return)", where, len(fd.Body.List))
	}
	var sw *ast.SwitchStmt
	for _, s := range fd.Body.List {
		switch x := s.(type) {
		case *ast.RangeStmt:
			if t.src(x.X) != over || t.src(x.Value) != "entry" || len(x.Body.List) != 1 {
				t.note("%s: range %s with %d statements", where, t.src(x.X), len(x.Body.List))
			}
			for _, q := range x.Body.List {
				if y, ok := q.(*ast.SwitchStmt); ok {
					sw = y
				}
			}
		case *ast.ReturnStmt:
			if t.src(x) != "return credit, debit" {
				t.note("%s: %s", where, t.src(x))
			}
		default:
			t.note("%s: statement %s", where, t.src(s))
		}
	}
	if sw == nil || sw.Init != nil || sw.Tag == nil || t.src(sw.Tag) != "entry.TransactionCode" {
		t.note("%s: no switch over entry.TransactionCode", where)
		return
	}
	for _, c := range sw.Body.List {
		cc := c.(*ast.CaseClause)
		var codes []int
		for _, e := range cc.List {
			v, ok := t.constOf(e)
			if !ok {
				t.note("%s: case label %s", where, t.src(e))
				continue
			}
			codes = append(codes, v)
		}
		body := ""
		for _, s := range cc.Body {
			body += t.src(s) + ";"
		}
		switch body {
		case "credit = credit + entry.Amount;", "credit += entry.Amount;":
			credit = append(credit, codes...)
		case "debit = debit + entry.Amount;", "debit += entry.Amount;":
			debit = append(debit, codes...)
		default:
			t.note("%s: case body %s", where, body)
		}
	}
	return
}

// ifLists: for _, entry := range <over> { if code == A || … { credit = credit + entry.Amount }  if code == B || … { debit = … } }
func (t *tabT) ifLists(recv, name, over string) (credit, debit []int) {
	fd := t.funcDecl(recv, name)
	where := recv + "." + name
	if fd == nil {
		t.note("%s not found", where)
		return
	}
	if len(fd.Body.List) != 2 {
		t.note("%s: %d statements (expected range loop + return)", where, len(fd.Body.List))
	}
	seenC, seenD := 0, 0
	for _, s := range fd.Body.List {
		switch x := s.(type) {
		case *ast.RangeStmt:
			if t.src(x.X) != over || t.src(x.Value) != "entry" {
				t.note("%s: range %s", where, t.src(x.X))
			}
			for _, q := range x.Body.List {
				ifs, ok := q.(*ast.IfStmt)
				if !ok || ifs.Init != nil || ifs.Else != nil {
					t.note("%s: loop statement %s", where, t.src(q))
					continue
				}
				codes := t.orCodes(where, ifs.Cond)
				body := ""
				for _, s := range ifs.Body.List {
					body += t.src(s) + ";"
				}
				switch body {
				case "credit = credit + entry.Amount;", "credit += entry.Amount;":
					credit = append(credit, codes...)
					seenC++
				case "debit = debit + entry.Amount;", "debit += entry.Amount;":
					debit = append(debit, codes...)
					seenD++
				default:
					t.note("%s: if body %s", where, body)
				}
			}
		case *ast.ReturnStmt:
			if t.src(x) != "return credit, debit" {
				t.note("%s: %s", where, t.src(x))
			}
		default:
			t.note("%s: statement %s", where, t.src(s))
		}
	}
	if seenC != 1 || seenD != 1 {
		t.note("%s: %d credit ifs, %d debit ifs", where, seenC, seenD)
	}
	return
}

func (t *tabT) orCodes(where string, e ast.Expr) []int {
	switch x := e.(type) {
	case *ast.ParenExpr:
		return t.orCodes(where, x.X)
	case *ast.BinaryExpr:
		if x.Op == token.LOR {
			return append(t.orCodes(where, x.X), t.orCodes(where, x.Y)...)
		}
		if x.Op == token.EQL && t.src(x.X) == "entry.TransactionCode" {
			if v, ok := t.constOf(x.Y); ok {
				return []int{v}
			}
		}
	}
	t.note("%s: condition %s", where, t.src(e))
	return nil
}

func (t *tabT) constOf(e ast.Expr) (int, bool) {
	switch x := e.(type) {
	case *ast.Ident:
		v, ok := t.consts[x.Name]
		return v, ok
	case *ast.BasicLit:
		if x.Kind == token.INT {
			v, err := strconv.Atoi(x.Value)
			return v, err == nil
		}
	}
	return 0, false
}

package main

import (
	"fmt"
	"go/ast"
	"go/parser"
	"go/token"
	"path/filepath"
	"strings"
)

func init() { register("RevOptsGen", emitRevOptsGen) }

// emitRevOptsGen pins the source the option model of File.Reversal (coq/Model/ReversalOpts.v) was
// written against, as (name, printed source) pairs compared with the expected text by
// coq/Model/RevOptsTable.v:
//
//   - "Reversal:calls": every call of File.Reversal in source order (selector or function name):
//     a Create / build / SetValidation on a batch that appears or disappears changes the list;
//   - "Reversal:rebuild": the statement holding the `.(*Batch)` type assertion — the only place a
//     batch is rebuilt (trace numbers re-sequenced under the batch's options, control re-tabulated);
//   - "Reversal:return": the last statement (File.Create under the file's options);
//   - "Batch.Validate", "Batch.Create": bodies of the methods of the bare Batch — returning an
//     error unconditionally is what makes the rebuild branch dead for every file that validates;
//   - "File.Create:prelude": the statements of File.Create before the `if !f.IsADV()`: which checks run
//     under which option;
//   - "File.Create:renumber": the `if ...BatchNumber <= 1 {...}` statement of the loop over f.Batches;
//   - "File.ValidateWith:options": every `opts.X` / `f.validateOpts.X` selector File.ValidateWith,
//     isEntryAddendaCount and FileHeader.ValidateWith read, in source order;
//   - "Batch.verify:options", "EntryDetail.Validate:options", "ValidTranCodeForServiceClassCode:options":
//     likewise for the batch / record level of the validator model under options (ArithOpts.v).
func emitRevOptsGen(repo string) (string, error) {
	fset := token.NewFileSet()
	parse := func(name string) (*ast.File, error) {
		return parser.ParseFile(fset, filepath.Join(repo, name), nil, 0)
	}
	files := map[string]*ast.File{}
	for _, n := range []string{"reversal.go", "batch.go", "file.go", "fileHeader.go", "entryDetail.go"} {
		f, err := parse(n)
		if err != nil {
			return "", err
		}
		files[n] = f
	}
	fn := func(file, recv, name string) *ast.FuncDecl {
		for _, d := range files[file].Decls {
			fd, ok := d.(*ast.FuncDecl)
			if !ok || fd.Body == nil || fd.Name.Name != name {
				continue
			}
			r := ""
			if fd.Recv != nil && len(fd.Recv.List) == 1 {
				r = mergeTypeString(fd.Recv.List[0].Type)
			}
			if r == recv {
				return fd
			}
		}
		return nil
	}
	var pins []string
	pin := func(name, text string) {
		pins = append(pins, fmt.Sprintf("(%s, %s)", coqString(name), coqString(text)))
	}
	missing := func(name string) { pin(name, "?missing") }

	// option selectors read by a function: X.<Field> where X prints as one of the given bases
	optReads := func(fd *ast.FuncDecl, bases ...string) string {
		var out []string
		ast.Inspect(fd.Body, func(n ast.Node) bool {
			if sel, ok := n.(*ast.SelectorExpr); ok {
				base := moPrint(fset, sel.X)
				for _, b := range bases {
					if base == b {
						out = append(out, sel.Sel.Name)
					}
				}
			}
			return true
		})
		return strings.Join(out, ",")
	}

	if fd := fn("reversal.go", "*File", "Reversal"); fd != nil {
		var calls []string
		var rebuild []string
		ast.Inspect(fd.Body, func(n ast.Node) bool {
			switch x := n.(type) {
			case *ast.CallExpr:
				switch f := x.Fun.(type) {
				case *ast.SelectorExpr:
					calls = append(calls, f.Sel.Name)
				case *ast.Ident:
					calls = append(calls, f.Name)
				default:
					calls = append(calls, "?")
				}
			case *ast.IfStmt:
				has := false
				if x.Init != nil {
					ast.Inspect(x.Init, func(m ast.Node) bool {
						if _, ok := m.(*ast.TypeAssertExpr); ok {
							has = true
						}
						return true
					})
				}
				if has {
					rebuild = append(rebuild, moPrint(fset, x))
				}
			case *ast.TypeSwitchStmt:
				rebuild = append(rebuild, moPrint(fset, x))
			}
			return true
		})
		pin("Reversal:calls", strings.Join(calls, ","))
		pin("Reversal:rebuild", strings.Join(rebuild, " ;; "))
		if n := len(fd.Body.List); n > 0 {
			pin("Reversal:return", moPrint(fset, fd.Body.List[n-1]))
		}
		pin("Reversal:options", optReads(fd, "f.validateOpts", "opts"))
	} else {
		missing("Reversal:calls")
	}
	for _, m := range []string{"Validate", "Create"} {
		if fd := fn("batch.go", "*Batch", m); fd != nil {
			pin("Batch."+m, moPrint(fset, fd.Body))
		} else {
			missing("Batch." + m)
		}
	}
	if fd := fn("file.go", "*File", "Create"); fd != nil {
		var pre []string
		for _, st := range fd.Body.List {
			if ifs, ok := st.(*ast.IfStmt); ok && strings.Contains(moPrint(fset, ifs.Cond), "IsADV") {
				// the renumbering statement of the loop over f.Batches
				ast.Inspect(ifs.Body, func(n ast.Node) bool {
					if rs, ok := n.(*ast.RangeStmt); ok && moPrint(fset, rs.X) == "f.Batches" {
						for _, s := range rs.Body.List {
							if i2, ok := s.(*ast.IfStmt); ok {
								pin("File.Create:renumber", moPrint(fset, i2))
							}
						}
						return false
					}
					return true
				})
				break
			}
			pre = append(pre, moPrint(fset, st))
		}
		pin("File.Create:prelude", strings.Join(pre, " ;; "))
	} else {
		missing("File.Create:prelude")
	}
	if fd := fn("file.go", "*File", "ValidateWith"); fd != nil {
		pin("File.ValidateWith:options", optReads(fd, "opts", "f.validateOpts"))
	} else {
		missing("File.ValidateWith:options")
	}
	if fd := fn("file.go", "*File", "isEntryAddendaCount"); fd != nil {
		pin("File.isEntryAddendaCount:options", optReads(fd, "opts", "f.validateOpts"))
	} else {
		missing("File.isEntryAddendaCount:options")
	}
	if fd := fn("fileHeader.go", "*FileHeader", "ValidateWith"); fd != nil {
		pin("FileHeader.ValidateWith:options", optReads(fd, "opts", "fh.validateOpts"))
	} else {
		missing("FileHeader.ValidateWith:options")
	}
	for _, m := range []string{"verify", "isBatchEntryCount", "isSequenceAscending", "isTraceNumberODFI", "ValidTranCodeForServiceClassCode"} {
		if fd := fn("batch.go", "*Batch", m); fd != nil {
			pin("Batch."+m+":options", optReads(fd, "batch.validateOpts", "entry.validateOpts", "opts"))
		} else {
			missing("Batch." + m + ":options")
		}
	}
	if fd := fn("entryDetail.go", "*EntryDetail", "Validate"); fd != nil {
		pin("EntryDetail.Validate:options", optReads(fd, "ed.validateOpts", "opts"))
	} else {
		missing("EntryDetail.Validate:options")
	}

	var b strings.Builder
	b.WriteString("(* GENERATED by /verif/translator from reversal.go, batch.go, file.go, fileHeader.go, entryDetail.go; do not edit *)\n")
	b.WriteString("From Coq Require Import String List.\nImport ListNotations.\nOpen Scope string_scope.\n\n")
	b.WriteString("Definition gen_rev_pins : list (string * string) :=\n  " + coqListLines(pins) + ".\n")
	return b.String(), nil
}


val negb : bool -> bool

type nat =
| O
| S of nat

val fst : ('a1 * 'a2) -> 'a1

val snd : ('a1 * 'a2) -> 'a2

val length : 'a1 list -> nat

val app : 'a1 list -> 'a1 list -> 'a1 list

module Nat :
 sig
  val eqb : nat -> nat -> bool

  val leb : nat -> nat -> bool

  val ltb : nat -> nat -> bool

  val max : nat -> nat -> nat

  val eq_dec : nat -> nat -> bool
 end

val in_dec : ('a1 -> 'a1 -> bool) -> 'a1 -> 'a1 list -> bool

val nth : nat -> 'a1 list -> 'a1 -> 'a1

val remove : ('a1 -> 'a1 -> bool) -> 'a1 -> 'a1 list -> 'a1 list

val fold_left : ('a1 -> 'a2 -> 'a1) -> 'a2 list -> 'a1 -> 'a1

val firstn : nat -> 'a1 list -> 'a1 list

val skipn : nat -> 'a1 list -> 'a1 list

val seq : nat -> nat -> nat list

type positive =
| XI of positive
| XO of positive
| XH

type n =
| N0
| Npos of positive

type buf = n list

type reg = nat

type bid = nat

type tid = nat

val upd : (nat -> 'a1) -> nat -> 'a1 -> nat -> 'a1

val inb : nat -> nat list -> bool

val rm : nat -> nat list -> nat list

type ('loc, 'glob) prog =
| PDone
| PGet of reg * ('loc, 'glob) prog
| PWrite of reg * ('loc -> buf -> buf) * ('loc, 'glob) prog
| PRead of reg * ('loc -> buf -> 'loc) * ('loc, 'glob) prog
| PReset of reg * ('loc, 'glob) prog
| PPut of reg * ('loc, 'glob) prog
| PLocal of ('loc -> 'loc) * ('loc, 'glob) prog
| PGRead of ('loc -> 'glob -> 'loc) * ('loc, 'glob) prog
| PGWrite of ('loc -> 'glob -> 'glob) * ('loc, 'glob) prog
| PIf of ('loc -> bool) * ('loc, 'glob) prog * ('loc, 'glob) prog

type ('loc, 'glob) sst = { spc : ('loc, 'glob) prog; sloc : 'loc;
                           sbufs : (reg -> buf); sglob : 'glob }

val solo_step : ('a1, 'a2) sst -> ('a1, 'a2) sst

val solo_run : nat -> ('a1, 'a2) sst -> ('a1, 'a2) sst

val depth : ('a1, 'a2) prog -> nat

val sinit : ('a1, 'a2) prog -> 'a1 -> 'a2 -> ('a1, 'a2) sst

val solo_final : ('a1, 'a2) prog -> 'a1 -> 'a2 -> ('a1, 'a2) sst

type ('loc, 'glob) tst = { pc : ('loc, 'glob) prog; loc : 'loc;
                           regs : (reg -> bid option) }

type ('loc, 'glob) gst = { heap : (bid -> buf); next : bid; pool : bid list;
                           glob : 'glob; th : (tid -> ('loc, 'glob) tst) }

val set_th : ('a1, 'a2) gst -> tid -> ('a1, 'a2) tst -> ('a1, 'a2) gst

val gstep : ('a1, 'a2) gst -> tid -> nat option -> ('a1, 'a2) gst

type sched = (tid * nat option) list

val run : sched -> ('a1, 'a2) gst -> ('a1, 'a2) gst

val ginit :
  (tid -> ('a1, 'a2) prog) -> (tid -> 'a1) -> 'a2 -> nat -> ('a1, 'a2) gst

val disc : reg list -> reg list -> ('a1, 'a2) prog -> bool

val disciplined : ('a1, 'a2) prog -> bool


val negb : bool -> bool

type nat =
| O
| S of nat

val length : 'a1 list -> nat

val app : 'a1 list -> 'a1 list -> 'a1 list

type comparison =
| Eq
| Lt
| Gt

val add : nat -> nat -> nat

val mul : nat -> nat -> nat

val eqb : bool -> bool -> bool

module Nat :
 sig
  val eqb : nat -> nat -> bool
 end

val nth_error : 'a1 list -> nat -> 'a1 option

val last : 'a1 list -> 'a1 -> 'a1

val rev : 'a1 list -> 'a1 list

val map : ('a1 -> 'a2) -> 'a1 list -> 'a2 list

val flat_map : ('a1 -> 'a2 list) -> 'a1 list -> 'a2 list

val existsb : ('a1 -> bool) -> 'a1 list -> bool

val forallb : ('a1 -> bool) -> 'a1 list -> bool

val filter : ('a1 -> bool) -> 'a1 list -> 'a1 list

val seq : nat -> nat -> nat list

val repeat : 'a1 -> nat -> 'a1 list

type positive =
| XI of positive
| XO of positive
| XH

type n =
| N0
| Npos of positive

module Pos :
 sig
  val succ : positive -> positive

  val add : positive -> positive -> positive

  val add_carry : positive -> positive -> positive

  val compare_cont : comparison -> positive -> positive -> comparison

  val compare : positive -> positive -> comparison

  val eqb : positive -> positive -> bool
 end

module N :
 sig
  val add : n -> n -> n

  val compare : n -> n -> comparison

  val eqb : n -> n -> bool

  val leb : n -> n -> bool
 end

type ascii =
| Ascii of bool * bool * bool * bool * bool * bool * bool * bool

val eqb0 : ascii -> ascii -> bool

type string =
| EmptyString
| String of ascii * string

val eqb1 : string -> string -> bool

type bytes = n list

val bytes_eqb : bytes -> bytes -> bool

type node =
| File of bytes
| Dir of bytes * node list

type path = bytes list

val walk_node : bool -> path -> node -> path list

val walk : bool -> path -> node list -> path list

val walk_node_unfixed : bool -> path -> node -> path list * bool

val walk_unfixed : bool -> path -> node list -> path list

type acceptance =
| Accept
| AsJson
| Skip

val dot : n

val slash : n

val base : bytes -> bytes

val ext : bytes -> bytes

val lower_byte : n -> n

val lower : bytes -> bytes

val lookup : bytes -> (bytes * acceptance) list -> acceptance -> acceptance

val accept_with :
  (bytes * acceptance) list -> acceptance -> bytes -> acceptance

val spec_table : (bytes * acceptance) list

val spec_accept : bytes -> acceptance

type outcome =
| PSkip
| PErr
| POk of n

type wst =
| WIdle
| WGot of n
| WParsing of n
| WHolding of n
| WExitOk
| WExitErr

type mst =
| MRun
| MAdding of n
| MExitOk
| MExitErr

type st = { queue : n list; walker_done : bool; ws : wst list; mg : mst;
            merged : n list; paths_done : bool; parse_done : bool }

type label =
| LHand of nat
| LStart of nat
| LParse of nat
| LDeliver of nat
| LAdd
| LWalkerDone
| LWalkerCancel
| LPathsCancel
| LWorkerExit of nat
| LWorkerCancel of nat
| LParseCancel
| LMergerExit

val set_nth : nat -> 'a1 -> 'a1 list -> 'a1 list

val w_exited : wst -> bool

val w_err : wst -> bool

val m_err : mst -> bool

val m_exited : mst -> bool

val gcancel : st -> bool

val set_w : nat -> wst -> st -> st

val after_parse : (n -> outcome) -> n -> wst

val fire : bool -> (n -> outcome) -> (n -> bool) -> label -> st -> st option

val run :
  bool -> (n -> outcome) -> (n -> bool) -> label list -> st -> st option

val terminal : st -> bool

type event =
| EStart of n
| EDone of n

val obs : label -> st -> event option

val trace_of :
  bool -> (n -> outcome) -> (n -> bool) -> label list -> st -> event list

val init : nat -> n list -> st

type result =
| RErr
| ROk of n list

val result_of : st -> result

val wweight : wst -> nat

val mweight : mst -> nat

val wsum : wst list -> nat

val b2n : bool -> nat

val measure : st -> nat

val per_worker : nat -> (nat -> label) -> label list

val find_w : (wst -> bool) -> wst list -> nat -> nat option

val is_idle : wst -> bool

val is_got : n -> wst -> bool

val is_parsing : n -> wst -> bool

val assoc : (n * outcome) list -> n -> outcome

val event_eqb : event -> event -> bool

val trace_eqb : event list -> event list -> bool

val count_N : n -> n list -> nat

val same_multiset : n list -> n list -> bool

val first_enabled :
  bool -> (n -> outcome) -> (n -> bool) -> label list -> st -> (label * st)
  option

val safe_labels : nat -> label list

val saturate :
  bool -> (n -> outcome) -> (n -> bool) -> nat -> st -> label list -> label
  list * st

val start_path :
  bool -> (n -> outcome) -> (n -> bool) -> nat -> n -> st -> label list ->
  (label list * st) option

val build :
  bool -> (n -> outcome) -> (n -> bool) -> event list -> st -> label list ->
  (label list * st) option

val result_matches : result -> n list option -> bool

val accept :
  bool -> (n -> outcome) -> (n -> bool) -> nat -> n list -> event list -> n
  list option -> bool

val accept_trace :
  bool -> nat -> (n * outcome) list -> n list -> event list -> n list option
  -> bool

type send_site = { s_func : string; s_chan : string; s_guarded : bool;
                   s_done : string }

val has_chan : string -> send_site list -> bool

val shape_sel : send_site list -> bool -> bool

val loop_complete : string list -> bool

val acceptor_table : (bytes * acceptance) list

val acceptor_default : acceptance

val mergedir_sends : send_site list

val mergedir_group_ctx : bool

val walkdir_early_returns : string list

val mergedir_sel : bool

val default_accept : bytes -> acceptance

val walk_as_coded : bool -> path -> node list -> path list

val accepted_as_coded : bool -> node list -> path list


val negb : bool -> bool

type nat =
| O
| S of nat

val fst : ('a1 * 'a2) -> 'a1

val snd : ('a1 * 'a2) -> 'a2

val length : 'a1 list -> nat

val app : 'a1 list -> 'a1 list -> 'a1 list

type comparison =
| Eq
| Lt
| Gt

val compOpp : comparison -> comparison

val add : nat -> nat -> nat

val sub : nat -> nat -> nat

val eqb : bool -> bool -> bool

module Nat :
 sig
  val eqb : nat -> nat -> bool

  val leb : nat -> nat -> bool

  val ltb : nat -> nat -> bool
 end

type positive =
| XI of positive
| XO of positive
| XH

type n =
| N0
| Npos of positive

type z =
| Z0
| Zpos of positive
| Zneg of positive

module Pos :
 sig
  type mask =
  | IsNul
  | IsPos of positive
  | IsNeg
 end

module Coq_Pos :
 sig
  val succ : positive -> positive

  val add : positive -> positive -> positive

  val add_carry : positive -> positive -> positive

  val pred_double : positive -> positive

  type mask = Pos.mask =
  | IsNul
  | IsPos of positive
  | IsNeg

  val succ_double_mask : mask -> mask

  val double_mask : mask -> mask

  val double_pred_mask : positive -> mask

  val sub_mask : positive -> positive -> mask

  val sub_mask_carry : positive -> positive -> mask

  val mul : positive -> positive -> positive

  val size : positive -> positive

  val compare_cont : comparison -> positive -> positive -> comparison

  val compare : positive -> positive -> comparison

  val eqb : positive -> positive -> bool

  val iter_op : ('a1 -> 'a1 -> 'a1) -> positive -> 'a1 -> 'a1

  val to_nat : positive -> nat
 end

module N :
 sig
  val succ_double : n -> n

  val double : n -> n

  val add : n -> n -> n

  val sub : n -> n -> n

  val mul : n -> n -> n

  val compare : n -> n -> comparison

  val eqb : n -> n -> bool

  val leb : n -> n -> bool

  val ltb : n -> n -> bool

  val log2 : n -> n

  val pos_div_eucl : positive -> n -> n * n

  val div_eucl : n -> n -> n * n

  val div : n -> n -> n

  val modulo : n -> n -> n

  val to_nat : n -> nat
 end

val rev : 'a1 list -> 'a1 list

val concat : 'a1 list list -> 'a1 list

val map : ('a1 -> 'a2) -> 'a1 list -> 'a2 list

val flat_map : ('a1 -> 'a2 list) -> 'a1 list -> 'a2 list

val forallb : ('a1 -> bool) -> 'a1 list -> bool

val firstn : nat -> 'a1 list -> 'a1 list

val skipn : nat -> 'a1 list -> 'a1 list

val repeat : 'a1 -> nat -> 'a1 list

module Z :
 sig
  val double : z -> z

  val succ_double : z -> z

  val pred_double : z -> z

  val pos_sub : positive -> positive -> z

  val add : z -> z -> z

  val opp : z -> z

  val mul : z -> z -> z

  val compare : z -> z -> comparison

  val leb : z -> z -> bool

  val eqb : z -> z -> bool

  val of_N : n -> z
 end

type ascii =
| Ascii of bool * bool * bool * bool * bool * bool * bool * bool

val eqb0 : ascii -> ascii -> bool

type string =
| EmptyString
| String of ascii * string

val eqb1 : string -> string -> bool

type bytes = n list

val sp : n

val zero : n

val bytes_eqb : bytes -> bytes -> bool

val rune_error : n

val cont : n -> bool

val seq_size : n -> nat

val second_ok : n -> n -> bool

val chunks : bytes -> (n * bytes) list

val runes : bytes -> n list

val rune_count : bytes -> nat

val encode_rune : n -> bytes

val encode : n list -> bytes

type seg =
| SLit of bytes
| SAlpha of string * nat
| SNum of string * nat
| SStr of string * nat
| SRaw of string
| SItoa of string
| SCustom of string * string
| SUnknown of string

type cut = { c_lo : nat; c_hi : nat; c_field : string; c_conv : string list;
             c_const : bytes option }

val mkcut : nat -> nat -> string -> string list -> cut

val mkconst : string -> bytes -> cut

type indexing =
| IRune
| IByte

type layout = { l_name : string; l_ix : indexing; l_segs : seg list;
                l_cuts : cut list }

type value =
| VS of bytes
| VI of z

type recval = (string * value) list

val lookup : recval -> string -> value option

val gets : recval -> string -> bytes

val geti : recval -> string -> z

val spaces : nat -> bytes

val zeros : nat -> bytes

val is_space : n -> bool

val drop_space : (n * bytes) list -> (n * bytes) list

val trim : bytes -> bytes

val rune_prefix : nat -> bytes -> bytes

val alphaField : bytes -> nat -> bytes

val stringField : bytes -> nat -> bytes

val digits_fuel : nat -> n -> bytes -> bytes

val digits : n -> bytes

val itoa : z -> bytes

val numericField : z -> nat -> bytes

val is_digit : n -> bool

val digits_val : bytes -> z -> z

val max_int64 : z

val min_int64 : z

val atoi : bytes -> z

val atoi_opt : bytes -> z option

val parseNumField : bytes -> z

val aUTOENROLL : bytes

val eNR : bytes

val render_custom : string -> recval -> bytes option

val render_seg : recval -> seg -> bytes

val render : layout -> recval -> bytes

val units : indexing -> bytes -> bytes list

val sub0 : bytes list -> nat -> nat -> bytes

val two : n -> n -> n

val valid_date : bytes -> bool

val valid_time : bytes -> bool

val validateSettlementDate : bytes -> bytes

val ten_zeros : bytes

val trimRoutingNumberLeadingZero : bytes -> bytes

val conv_str : string -> bytes -> bytes option

val conv_chain : string list -> bytes -> bytes option

val conv_value : string list -> bytes -> value option

val parse_cut : bytes list -> cut -> (string * value) list

val parse : layout -> bytes -> recval

val overlay : recval -> recval -> recval

val l_ADVBatchControl : layout

val l_ADVEntryDetail : layout

val l_ADVFileControl : layout

val l_Addenda02 : layout

val l_Addenda05 : layout

val l_Addenda10 : layout

val l_Addenda11 : layout

val l_Addenda12 : layout

val l_Addenda13 : layout

val l_Addenda14 : layout

val l_Addenda15 : layout

val l_Addenda16 : layout

val l_Addenda17 : layout

val l_Addenda18 : layout

val l_Addenda98 : layout

val l_Addenda98Refused : layout

val l_Addenda99 : layout

val l_Addenda99Contested : layout

val l_Addenda99Dishonored : layout

val l_BatchControl : layout

val l_BatchHeader : layout

val l_EntryDetail : layout

val l_FileControl : layout

val l_FileHeader : layout

val l_IATBatchHeader : layout

val l_IATEntryDetail : layout

val all_layouts : layout list

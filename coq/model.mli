
val negb : bool -> bool

type nat =
| O
| S of nat

val fst : ('a1 * 'a2) -> 'a1

val snd : ('a1 * 'a2) -> 'a2

val length : 'a1 list -> nat

val app : 'a1 list -> 'a1 list -> 'a1 list

type comparison =
| Eq
| Lt
| Gt

val compOpp : comparison -> comparison

val map : ('a1 -> 'a2) -> 'a1 list -> 'a2 list

val fold_left : ('a1 -> 'a2 -> 'a1) -> 'a2 list -> 'a1 -> 'a1

val fold_right : ('a2 -> 'a1 -> 'a1) -> 'a1 -> 'a2 list -> 'a1

type positive =
| XI of positive
| XO of positive
| XH

type n =
| N0
| Npos of positive

type z =
| Z0
| Zpos of positive
| Zneg of positive

module Pos :
 sig
  type mask =
  | IsNul
  | IsPos of positive
  | IsNeg
 end

module Coq_Pos :
 sig
  val succ : positive -> positive

  val add : positive -> positive -> positive

  val add_carry : positive -> positive -> positive

  val pred_double : positive -> positive

  type mask = Pos.mask =
  | IsNul
  | IsPos of positive
  | IsNeg

  val succ_double_mask : mask -> mask

  val double_mask : mask -> mask

  val double_pred_mask : positive -> mask

  val sub_mask : positive -> positive -> mask

  val sub_mask_carry : positive -> positive -> mask

  val compare_cont : comparison -> positive -> positive -> comparison

  val compare : positive -> positive -> comparison

  val eqb : positive -> positive -> bool
 end

module N :
 sig
  val sub : n -> n -> n

  val compare : n -> n -> comparison

  val eqb : n -> n -> bool

  val leb : n -> n -> bool
 end

module Z :
 sig
  val double : z -> z

  val succ_double : z -> z

  val pred_double : z -> z

  val pos_sub : positive -> positive -> z

  val add : z -> z -> z

  val compare : z -> z -> comparison

  val leb : z -> z -> bool

  val ltb : z -> z -> bool

  val eqb : z -> z -> bool
 end

type bytes = n list

val bytes_eqb : bytes -> bytes -> bool

val bcmp : bytes -> bytes -> comparison

val is_eq : comparison -> bool

type entry = { e_trace : bytes; e_amount : z; e_addenda : z; e_id : n }

type header = { h_scc : z; h_name : bytes; h_cid : bytes; h_sec : bytes;
                h_desc : bytes; h_eed : bytes; h_odfi : bytes; h_rest : 
                n }

val upper : n -> n

val fold_eq : bytes -> bytes -> bool

val header_equal : header -> header -> bool

type ibatch = { ib_header : header; ib_entries : entry list }

type ifile = { if_origin : bytes; if_dest : bytes; if_hid : n;
               if_batches : ibatch list }

type tmap = (bytes * entry) list

val tm_contains : bytes -> tmap -> bool

val tm_set : bytes -> entry -> tmap -> tmap

type obatch = { ob_header : header; ob_entries : tmap }

type ofile = { of_origin : bytes; of_dest : bytes; of_hid : n;
               of_batches : obatch list }

val place : header -> entry -> obatch list -> obatch list

val add_batch : obatch list -> ibatch -> obatch list

val add_to : ofile -> ifile -> ofile

val new_ofile : ifile -> ofile

val same_route : ofile -> ifile -> bool

val add_file : ofile list -> ifile -> ofile list

val build_state : ifile list -> ofile list

type rbatch = { rb_number : z; rb_header : header; rb_entries : entry list }

type rfile = { rf_origin : bytes; rf_dest : bytes; rf_hid : n;
               rf_batches : rbatch list }

type conds = { maxLines : z; maxDollar : z }

val nacha_limit : z

val effective_dollar : conds -> z

type cstate = { c_out : rfile list; c_file : rbatch list;
                c_bent : entry list; c_L : z; c_D : z; c_bn : z }

val renumber : z -> rbatch list -> rbatch list

val create_file : ofile -> rbatch list -> rfile

val close_batch : header -> cstate -> rbatch list

val close_file : ofile -> rbatch list -> rfile list -> rfile list

val exceeds : conds -> z -> z -> z -> entry -> bool

val step_entry : conds -> z -> ofile -> header -> cstate -> entry -> cstate

val step_batch : conds -> z -> ofile -> cstate -> obatch -> cstate

val step_file : conds -> z -> (rfile list * z) -> ofile -> rfile list * z

val convert : conds -> ofile list -> rfile list

val merge_files : ifile list -> conds -> rfile list

val entry_lines : entry -> z

val zsum : z list -> z

val batch_lines : rbatch -> z

val batch_amount : rbatch -> z

val batches_lines : rbatch list -> z

val batches_amount : rbatch list -> z

val file_lines : rfile -> z

val file_amount : rfile -> z

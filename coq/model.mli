
type __ = Obj.t

val negb : bool -> bool

type nat =
| O
| S of nat

val fst : ('a1 * 'a2) -> 'a1

val snd : ('a1 * 'a2) -> 'a2

val app : 'a1 list -> 'a1 list -> 'a1 list

module Nat :
 sig
  val eqb : nat -> nat -> bool
 end

val nth_error : 'a1 list -> nat -> 'a1 option

val map : ('a1 -> 'a2) -> 'a1 list -> 'a2 list

val flat_map : ('a1 -> 'a2 list) -> 'a1 list -> 'a2 list

val existsb : ('a1 -> bool) -> 'a1 list -> bool

val forallb : ('a1 -> bool) -> 'a1 list -> bool

val combine : 'a1 list -> 'a2 list -> ('a1 * 'a2) list

type ascii =
| Ascii of bool * bool * bool * bool * bool * bool * bool * bool

type string =
| EmptyString
| String of ascii * string

type flag =
| BypassOriginValidation
| BypassDestinationValidation
| CustomTraceNumbers
| AllowZeroBatches
| AllowMissingFileHeader
| AllowMissingFileControl
| BypassCompanyIdentificationMatch
| CustomReturnCodes
| UnequalServiceClassCode
| AllowUnorderedBatchNumbers
| AllowInvalidCheckDigit
| UnequalAddendaCounts
| AllowInvalidAmounts
| AllowZeroEntryAmount
| AllowSpecialCharacters

val all_flags : flag list

val flag_idx : flag -> nat

val flag_eqb : flag -> flag -> bool

type opts = flag -> bool

val opts_of : flag list -> opts

type clause = flag list

val skip : opts -> clause -> bool

type site = { s_func : string; s_flag : flag; s_occ : nat }

type 'x vt =
| Pass
| Chk of ('x -> bool)
| Skip of ('x -> bool) * site * 'x vt
| And of 'x vt * 'x vt
| Each of ('x -> __ list) * __ vt
| On of ('x -> __) * __ vt
| Ite of ('x -> bool) * 'x vt * 'x vt

val seq : 'a1 vt list -> 'a1 vt

val always : 'a1 -> bool

val clauses : 'a1 vt -> clause -> clause list

val predict_l : clause list -> bool list -> flag list -> bool

type rkind =
| KBatchHeader
| KBatchControl
| KADVBatchControl
| KIATBatchHeader
| KFileControl
| KADVFileControl
| KADVEntry
| KIATEntry
| KA02
| KA05
| KA98
| KA98R
| KA99
| KA99D
| KA99C
| KA10
| KA11
| KA12
| KA13
| KA14
| KA15
| KA16
| KA17
| KA18

val leaf_site : rkind -> site option

val all_kinds : rkind list

val entry_addenda_kinds : rkind list

val iat_addenda_kinds : rkind list

type rectype =
| RFileHeader
| RBatchHeader
| REntry
| RAddenda
| RBatchControl
| RFileControl
| RPadding
| RUnknown

type sig0 = { r_live : (__ -> bool); r_plain : (rkind -> __ -> bool);
              r_guarded : (rkind -> __ -> bool); fh_live : (__ -> bool);
              fh_incl : (__ -> bool); fh_basic : (__ -> bool);
              fh_origin : (__ -> bool); fh_dest : (__ -> bool);
              fh_special : (__ -> bool); e_live : (__ -> bool);
              e_basic : (__ -> bool); e_special : (__ -> bool);
              e_checkdigit : (__ -> bool);
              e_addenda : (rkind -> __ -> __ list); b_live : (__ -> bool);
              b_isADV : (__ -> bool); b_isCTX : (__ -> bool);
              b_header : (__ -> __); b_control : (__ -> __);
              b_advcontrol : (__ -> __); b_entries : (__ -> __ list);
              b_adventries : (__ -> __ list);
              adv_addenda99 : (__ -> __ list); b_has_entries : (__ -> bool);
              b_scc_eq : (__ -> bool); b_cid_eq : (__ -> bool);
              b_odfi_eq : (__ -> bool); b_num_eq : (__ -> bool);
              b_adv_scc_eq : (__ -> bool); b_adv_odfi_eq : (__ -> bool);
              b_adv_num_eq : (__ -> bool); b_count_eq : (__ -> bool);
              b_adv_count_eq : (__ -> bool); b_ascending : (__ -> bool);
              b_amount : (__ -> bool); b_hash : (__ -> bool);
              b_dne : (__ -> bool); b_trace_odfi : (__ -> bool);
              b_addenda_seq : (__ -> bool); b_category : (__ -> bool);
              b_sec_checks : (__ -> bool);
              be_ctx_count : ((__ * __) -> bool);
              be_noc : ((__ * __) -> bool); be_return : ((__ * __) -> bool);
              be_prenote : ((__ * __) -> bool);
              be_amount_zero : ((__ * __) -> bool);
              be_zero_remittance : ((__ * __) -> bool);
              ib_live : (__ -> bool); ib_header : (__ -> __);
              ib_control : (__ -> __); ib_entries : (__ -> __ list);
              ie_addenda : (rkind -> __ -> __ list); ie_incl : (__ -> bool);
              ib_has_entries : (__ -> bool); ib_scc_eq : (__ -> bool);
              ib_odfi_eq : (__ -> bool); ib_num_eq : (__ -> bool);
              ib_cid_special : (__ -> bool); ib_count_eq : (__ -> bool);
              ib_ascending : (__ -> bool); ib_amount : (__ -> bool);
              ib_hash : (__ -> bool); ib_trace_odfi : (__ -> bool);
              ib_addenda_seq : (__ -> bool); ib_category : (__ -> bool);
              ib_rules : (__ -> bool); f_live : (__ -> bool);
              f_isADV : (__ -> bool); f_header : (__ -> __);
              f_batches : (__ -> __ list); f_control : (__ -> __);
              f_advcontrol : (__ -> __); f_batchcount : (__ -> bool);
              f_adv_batchcount : (__ -> bool); f_eac : (__ -> bool);
              f_adv_eac : (__ -> bool); f_amount : (__ -> bool);
              f_adv_amount : (__ -> bool); f_ascending : (__ -> bool);
              f_hash : (__ -> bool); f_adv_hash : (__ -> bool);
              f_has_batches : (__ -> bool); rectype_of : (__ -> rectype);
              s_file : (__ -> __); s_header_unset : (__ -> bool);
              s_control_unset : (__ -> bool);
              s_advcontrol_unset : (__ -> bool); s_has_cur : (__ -> bool);
              s_cur_empty : (__ -> bool); s_cur_isADV : (__ -> bool);
              s_has_iat : (__ -> bool); s_flush_cur : (__ -> __);
              l_is_iat_header : (__ -> bool); parse_fh : (__ -> __ -> __);
              s_set_header : (__ -> __ -> __); parse_bh : (__ -> __ -> __);
              s_new_batch : (__ -> __ -> __ option);
              parse_iat_bh : (__ -> __ -> __); s_new_iat : (__ -> __ -> __);
              parse_entry : (__ -> __ -> __); s_add_entry : (__ -> __ -> __);
              parse_adventry : (__ -> __ -> __);
              s_add_adventry : (__ -> __ -> __);
              parse_iatentry : (__ -> __ -> __);
              s_add_iatentry : (__ -> __ -> __);
              parse_addenda : (__ -> __ -> ((rkind * __) * __) option);
              parse_bc : (__ -> __ -> __); s_cur_control : (__ -> __);
              s_cur_batch : (__ -> __); s_close_batch : (__ -> __);
              s_iat_control : (__ -> __); s_iat_batch : (__ -> __);
              s_close_iat : (__ -> __); parse_fc : (__ -> __ -> __) }

type rec0 = __

type fH = __

type entry = __

type batch = __

type iATBatch = __

type file = __

type st = __

val t_leaf : sig0 -> rkind -> rec0 vt

val t_FileHeader : sig0 -> (fH -> bool) -> fH vt

val t_Entry : sig0 -> entry vt

val t_entry_with_addenda : sig0 -> entry vt

val t_Batch_isFieldInclusion : sig0 -> batch vt

val t_Batch_isBatchEntryCount : sig0 -> batch vt

val t_Batch_isSequenceAscending : sig0 -> batch vt

val t_Batch_isTraceNumberODFI : sig0 -> batch vt

val t_Batch_verify : sig0 -> batch vt

val be_live : sig0 -> (batch * entry) -> bool

val t_ValidAmountForCodes : sig0 -> (batch * entry) vt

val pairs : sig0 -> batch -> (batch * entry) list

val t_Batch_Validate : sig0 -> batch vt

val t_iat_entry : sig0 -> rec0 vt

val t_IATBatch_verify : sig0 -> iATBatch vt

val t_IATBatch_Validate : sig0 -> iATBatch vt

val t_File_ValidateWith : sig0 -> file vt

val s_final : sig0 -> st -> st

val sf_live : sig0 -> st -> bool

val t_final : sig0 -> st vt

val model_clauses_of : sig0 -> clause list

val base_sig : bool -> rectype -> bool -> sig0

val unit_sig : sig0

val model_family : clause list

val model_family_idx : nat list list

val flag_of_idx : nat -> flag option

val flags_of_idx : nat list -> flag list

val model_predict : bool list -> nat list -> bool


type nat =
| O
| S of nat

val snd : ('a1 * 'a2) -> 'a2

val length : 'a1 list -> nat

val app : 'a1 list -> 'a1 list -> 'a1 list

val sub : nat -> nat -> nat

module Nat :
 sig
  val sub : nat -> nat -> nat

  val eqb : nat -> nat -> bool

  val divmod : nat -> nat -> nat -> nat -> nat * nat

  val modulo : nat -> nat -> nat
 end

val hd : 'a1 -> 'a1 list -> 'a1

val rev : 'a1 list -> 'a1 list

val flat_map : ('a1 -> 'a2 list) -> 'a1 list -> 'a2 list

val fold_left : ('a1 -> 'a2 -> 'a1) -> 'a2 list -> 'a1 -> 'a1

val repeat : 'a1 -> nat -> 'a1 list

type positive =
| XI of positive
| XO of positive
| XH

type n =
| N0
| Npos of positive

module Pos :
 sig
  val eqb : positive -> positive -> bool
 end

module N :
 sig
  val eqb : n -> n -> bool
 end

type bytes = n list

val nine : n

val bytes_eqb : bytes -> bytes -> bool

type entryS = { e_rec : bytes; e_addenda : bytes list }

type batchS = { b_hdr : bytes; b_entries : entryS list; b_ctl : bytes }

type fileS = { f_hdr : bytes; f_batches : batchS list; f_ctl : bytes }

val entry_lines : entryS -> bytes list

val batch_lines : batchS -> bytes list

val record_lines : fileS -> bytes list

val nines : bytes

val pad_count : nat -> nat

val physical_lines : fileS -> bytes list

val rtype : bytes -> n

val t1 : n

val t5 : n

val t6 : n

val t7 : n

val t8 : n

val t9 : n

type gstate =
| GStart
| GFile
| GBatch
| GEntry
| GDone
| GBad

val is_filler : bytes -> bool

val gstep : gstate -> bytes -> gstate

val grammar_ok : bytes list -> bool

val starts99 : bytes -> bool

type rstate = { r_hdr : bytes option; r_done : batchS list;
                r_cur : (bytes * entryS list) option; r_ctl : bytes option }

val add_addenda : entryS list -> bytes -> entryS list option

val rstep : rstate option -> bytes -> rstate option

val read_struct : bytes list -> fileS option


type nat =
| O
| S of nat

val length : 'a1 list -> nat

val map : ('a1 -> 'a2) -> 'a1 list -> 'a2 list

val fold_left : ('a1 -> 'a2 -> 'a1) -> 'a2 list -> 'a1 -> 'a1

val existsb : ('a1 -> bool) -> 'a1 list -> bool

type positive =
| XI of positive
| XO of positive
| XH

type n =
| N0
| Npos of positive

type z =
| Z0
| Zpos of positive
| Zneg of positive

module Pos :
 sig
  val succ : positive -> positive

  val add : positive -> positive -> positive

  val add_carry : positive -> positive -> positive

  val pred_double : positive -> positive

  val eqb : positive -> positive -> bool
 end

module Z :
 sig
  val double : z -> z

  val succ_double : z -> z

  val pred_double : z -> z

  val pos_sub : positive -> positive -> z

  val add : z -> z -> z

  val eqb : z -> z -> bool
 end

type bytes = n list

type target =
| TCredit
| TDebit
| TNone

type seg_arm = { sa_codes : z list; sa_target : target; sa_unknown : bool }

val memz : z -> z list -> bool

type entry = { e_code : z; e_amount : z; e_id : n; e_trace : n }

type rflag =
| FCredits
| FDebits
| FNoFlag
| FBothFlags

type rev_arm = { ra_codes : z list; ra_delta : z; ra_flag : rflag;
                 ra_unknown : bool }

type fcond =
| CCredits
| CDebits
| CBoth
| CUnknown

type rev_fixup = { fx_cond : fcond; fx_hdr : z; fx_ctl : z; fx_unknown : bool }

val rev_lookup : rev_arm list -> z -> rev_arm option

val rev_code : rev_arm list -> z -> z

val flag_credits : rflag -> bool

val flag_debits : rflag -> bool

val arm_flags : rev_arm list -> z -> bool * bool

val fix_fires : bool -> bool -> fcond -> bool

val apply_fixups : rev_fixup list -> bool -> bool -> (z * z) option

type rtables = { rt_arms : rev_arm list; rt_fix : rev_fixup list;
                 rt_desc : bytes; rt_amt : seg_arm list; rt_std : z list;
                 rt_pre : z list }

type rbatch = { rb_scc_h : z; rb_scc_c : z; rb_desc : bytes; rb_date : 
                bytes; rb_debit : z; rb_credit : z; rb_entries : entry list }

type rfile = { rf_date : bytes; rf_time : bytes; rf_batches : rbatch list;
               rf_debit : z; rf_credit : z }

val rev_entry : rev_arm list -> entry -> entry

val entry_flags : rev_arm list -> entry list -> bool * bool

val reversal_batch : rtables -> bytes -> rbatch -> rbatch

val sum_debit : rbatch list -> z

val sum_credit : rbatch list -> z

type rres =
| ROk of rfile
| RErrNoBatches

val reversal_file : rtables -> bytes -> bytes -> rfile -> rres

val reversal_arms : rev_arm list

val reversal_fixups : rev_fixup list

val reversal_description : n list

val rev_amount_arms : seg_arm list

val rev_standard_codes : z list

val rev_prenote_codes : z list

val rT : rtables

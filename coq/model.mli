
val implb : bool -> bool -> bool

val negb : bool -> bool

type nat =
| O
| S of nat

type ('a, 'b) sum =
| Inl of 'a
| Inr of 'b

val length : 'a1 list -> nat

val app : 'a1 list -> 'a1 list -> 'a1 list

type comparison =
| Eq
| Lt
| Gt

val compOpp : comparison -> comparison

type positive =
| XI of positive
| XO of positive
| XH

type n =
| N0
| Npos of positive

type z =
| Z0
| Zpos of positive
| Zneg of positive

module Pos :
 sig
  val succ : positive -> positive

  val add : positive -> positive -> positive

  val add_carry : positive -> positive -> positive

  val pred_double : positive -> positive

  val mul : positive -> positive -> positive

  val compare_cont : comparison -> positive -> positive -> comparison

  val compare : positive -> positive -> comparison

  val eqb : positive -> positive -> bool

  val of_succ_nat : nat -> positive
 end

module N :
 sig
  val add : n -> n -> n
 end

module Z :
 sig
  val double : z -> z

  val succ_double : z -> z

  val pred_double : z -> z

  val pos_sub : positive -> positive -> z

  val add : z -> z -> z

  val opp : z -> z

  val sub : z -> z -> z

  val mul : z -> z -> z

  val compare : z -> z -> comparison

  val leb : z -> z -> bool

  val ltb : z -> z -> bool

  val eqb : z -> z -> bool

  val of_nat : nat -> z

  val pos_div_eucl : positive -> z -> z * z

  val div_eucl : z -> z -> z * z

  val modulo : z -> z -> z
 end

val map : ('a1 -> 'a2) -> 'a1 list -> 'a2 list

val flat_map : ('a1 -> 'a2 list) -> 'a1 list -> 'a2 list

val existsb : ('a1 -> bool) -> 'a1 list -> bool

val forallb : ('a1 -> bool) -> 'a1 list -> bool

val filter : ('a1 -> bool) -> 'a1 list -> 'a1 list

type target =
| TCredit
| TDebit
| TNone

val target_eqb : target -> target -> bool

type seg_arm = { sa_codes : z list; sa_target : target; sa_unknown : bool }

type scc_kind =
| SSplit of z * z
| SReuseCredit
| SReuseDebit
| SUnknown

type scc_arm = { sc_code : z; sc_kind : scc_kind }

val memz : z -> z list -> bool

val classify : seg_arm list -> z -> target

val digit_dir : z -> target

val entry_code : z list -> z -> bool

type entry = { e_code : z; e_amount : z; e_id : n; e_trace : n }

val goes : seg_arm list -> target -> entry -> bool

val sum_dir : seg_arm list -> target -> entry list -> z

val all_dir : target -> entry list -> bool

type stables = { st_seg_std : seg_arm list; st_seg_iat : seg_arm list;
                 st_seg_adv : seg_arm list; st_amt_std : seg_arm list;
                 st_amt_iat : seg_arm list; st_amt_adv : seg_arm list;
                 st_scc_std : scc_arm list; st_scc_iat : scc_arm list;
                 st_codes : z list }

val scc_lookup : scc_arm list -> z -> scc_kind option

type sbatch = { sb_adv : bool; sb_scc : z; sb_num : z; sb_ident : n;
                sb_credit : z; sb_debit : z; sb_entries : entry list }

type sfile = { sf_origin : n; sf_dest : n; sf_batches : sbatch list;
               sf_iat : sbatch list; sf_credit : z; sf_debit : z }

val empty_file : sfile

val dir_of : bool -> target

val fresh : seg_arm list -> bool -> z -> n -> entry list -> sbatch list

val retrace : n -> entry list -> entry list

val part : stables -> bool -> sbatch -> sbatch list

val ipart : stables -> bool -> sbatch -> sbatch list

val renumber : z -> sbatch list -> sbatch list

val tot_credit : sbatch list -> z

val tot_debit : sbatch list -> z

val is_adv_file : sbatch list -> bool

type verr =
| VBatch
| VTotals
| VAscending

type serr =
| EInput of verr
| EAdvOnly
| EOutput of verr

val create : n -> n -> sbatch list -> sbatch list -> sfile option

val dir_wf : stables -> sbatch -> bool

val ctl_wf : seg_arm list -> sbatch -> bool

val batch_ok : stables -> sbatch -> bool

val ascending : z -> z list -> bool

val validate : stables -> sfile -> verr option

type sres =
| SOk of sfile * sfile
| SErr of serr

val finish :
  stables -> n -> n -> sbatch list -> sbatch list -> (sfile, serr) sum

val segment : stables -> sfile -> sres

val seg_std_arms : seg_arm list

val seg_iat_arms : seg_arm list

val seg_adv_arms : seg_arm list

val amount_std_arms : seg_arm list

val amount_iat_arms : seg_arm list

val amount_adv_arms : seg_arm list

val seg_standard_codes : z list

val seg_scc_std : scc_arm list

val seg_scc_iat : scc_arm list

val sT : stables


val negb : bool -> bool

type nat =
| O
| S of nat

val fst : ('a1 * 'a2) -> 'a1

val snd : ('a1 * 'a2) -> 'a2

val length : 'a1 list -> nat

val app : 'a1 list -> 'a1 list -> 'a1 list

type comparison =
| Eq
| Lt
| Gt

val add : nat -> nat -> nat

val rev : 'a1 list -> 'a1 list

val concat : 'a1 list list -> 'a1 list

val map : ('a1 -> 'a2) -> 'a1 list -> 'a2 list

val firstn : nat -> 'a1 list -> 'a1 list

val skipn : nat -> 'a1 list -> 'a1 list

val repeat : 'a1 -> nat -> 'a1 list

type positive =
| XI of positive
| XO of positive
| XH

type n =
| N0
| Npos of positive

module Pos :
 sig
  type mask =
  | IsNul
  | IsPos of positive
  | IsNeg
 end

module Coq_Pos :
 sig
  val succ : positive -> positive

  val add : positive -> positive -> positive

  val add_carry : positive -> positive -> positive

  val pred_double : positive -> positive

  type mask = Pos.mask =
  | IsNul
  | IsPos of positive
  | IsNeg

  val succ_double_mask : mask -> mask

  val double_mask : mask -> mask

  val double_pred_mask : positive -> mask

  val sub_mask : positive -> positive -> mask

  val sub_mask_carry : positive -> positive -> mask

  val compare_cont : comparison -> positive -> positive -> comparison

  val compare : positive -> positive -> comparison

  val eqb : positive -> positive -> bool

  val iter_op : ('a1 -> 'a1 -> 'a1) -> positive -> 'a1 -> 'a1

  val to_nat : positive -> nat

  val of_succ_nat : nat -> positive
 end

module N :
 sig
  val succ_double : n -> n

  val double : n -> n

  val add : n -> n -> n

  val sub : n -> n -> n

  val compare : n -> n -> comparison

  val eqb : n -> n -> bool

  val leb : n -> n -> bool

  val ltb : n -> n -> bool

  val pos_div_eucl : positive -> n -> n * n

  val div_eucl : n -> n -> n * n

  val modulo : n -> n -> n

  val to_nat : n -> nat

  val of_nat : nat -> n
 end

type bytes = n list

val nine : n

val blen : bytes -> n

type werr =
| EInj
| EShort
| EFuel

type skind =
| Hard
| Short
| ShortNil
| FullErr

type fault = { f_k : n; f_kind : skind; f_transient : bool }

type sink = { s_fault : fault option; s_got : bytes; s_calls : n;
              s_tripped : bool }

val new_sink : fault option -> sink

val sink_write : sink -> bytes -> (sink * n) * werr option

val cap : n

type bw = { b_pend : bytes list; b_n : n; b_err : werr option; b_sink : sink }

val new_bw : sink -> bw

val buf_bytes : bw -> bytes

val avail : bw -> n

val push : bw -> bytes -> bw

val set_err : bw -> werr -> bw

val bw_flush : bw -> bw * werr option

val ws_loop : nat -> bw -> bytes -> bw * bytes

val bw_write : bw -> bytes -> bw * werr option

type handler =
| Propagate
| Ignore
| ReturnNil
| Absent
| Unknown

type wpolicy = { p_wl_line : handler; p_wl_le : handler;
                 p_wl_flush : handler; p_thresh : n; p_api_flush : handler;
                 p_hdr : handler; p_body : handler; p_ctl : handler;
                 p_pad_line : handler; p_pad_le : handler; p_final : 
                 handler }

type act =
| Cont
| Ret of werr option

val on_err : handler -> werr option -> act

val api_flush : wpolicy -> bw -> bw * werr option

type rtag =
| THdr
| TBody
| TCtl

val tag_handler : wpolicy -> rtag -> handler

val nonempty : bytes -> bool

val write_line :
  wpolicy -> bytes -> (bw * n) -> bytes -> (bw * n) * werr option

val write_recs :
  wpolicy -> bytes -> (bw * n) -> (rtag * bytes) list -> (bw * n) * act

val nines : bytes

val pad_count : n -> nat

val pad_loop : wpolicy -> bytes -> nat -> bw -> bw * act

val final_flush : wpolicy -> bw -> bw * werr option

val write_file :
  wpolicy -> bytes -> (rtag * bytes) list -> bw -> bw * werr option

type wresult = { wr_write : werr option; wr_flush : werr option;
                 wr_sink : sink }

val writer_run :
  wpolicy -> bytes -> (rtag * bytes) list -> fault option -> wresult

val rec_bytes : bytes -> (rtag * bytes) list -> bytes

val rec_count : (rtag * bytes) list -> n

val full_output : bytes -> (rtag * bytes) list -> bytes

type rerr =
| RInj
| RUnexpectedEOF

type term =
| TEOF
| TErr of rerr

type source = { src_chunks : bytes list; src_term : term }

val read_full : n -> bytes list -> bytes -> (bytes * bytes list) * bool

val preview_size : n

type rpolicy = { r_ctor : handler; r_scan : handler }

type rresult =
| RCtorErr
| RScanErr of rerr
| RParsed of bytes

val reader_run : rpolicy -> source -> rresult

val chop : nat -> nat -> bytes -> bytes list

val chunked : nat -> bytes -> bytes list

val failing_source : bytes -> nat -> nat -> rerr -> source

val healthy_source : bytes -> nat -> source

val current_wpolicy : wpolicy

val current_rpolicy : rpolicy

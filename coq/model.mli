
val negb : bool -> bool

type nat =
| O
| S of nat

val fst : ('a1 * 'a2) -> 'a1

val snd : ('a1 * 'a2) -> 'a2

val length : 'a1 list -> nat

val app : 'a1 list -> 'a1 list -> 'a1 list

type comparison =
| Eq
| Lt
| Gt

val compOpp : comparison -> comparison

val add : nat -> nat -> nat

val sub : nat -> nat -> nat

module Nat :
 sig
  val sub : nat -> nat -> nat

  val eqb : nat -> nat -> bool

  val leb : nat -> nat -> bool

  val ltb : nat -> nat -> bool

  val divmod : nat -> nat -> nat -> nat -> nat * nat

  val modulo : nat -> nat -> nat
 end

val nth_error : 'a1 list -> nat -> 'a1 option

val removelast : 'a1 list -> 'a1 list

val rev : 'a1 list -> 'a1 list

val concat : 'a1 list list -> 'a1 list

val map : ('a1 -> 'a2) -> 'a1 list -> 'a2 list

val flat_map : ('a1 -> 'a2 list) -> 'a1 list -> 'a2 list

val forallb : ('a1 -> bool) -> 'a1 list -> bool

val firstn : nat -> 'a1 list -> 'a1 list

val skipn : nat -> 'a1 list -> 'a1 list

val repeat : 'a1 -> nat -> 'a1 list

type positive =
| XI of positive
| XO of positive
| XH

type n =
| N0
| Npos of positive

type z =
| Z0
| Zpos of positive
| Zneg of positive

module Pos :
 sig
  type mask =
  | IsNul
  | IsPos of positive
  | IsNeg
 end

module Coq_Pos :
 sig
  val succ : positive -> positive

  val add : positive -> positive -> positive

  val add_carry : positive -> positive -> positive

  val pred_double : positive -> positive

  type mask = Pos.mask =
  | IsNul
  | IsPos of positive
  | IsNeg

  val succ_double_mask : mask -> mask

  val double_mask : mask -> mask

  val double_pred_mask : positive -> mask

  val sub_mask : positive -> positive -> mask

  val sub_mask_carry : positive -> positive -> mask

  val mul : positive -> positive -> positive

  val size : positive -> positive

  val compare_cont : comparison -> positive -> positive -> comparison

  val compare : positive -> positive -> comparison

  val eqb : positive -> positive -> bool

  val iter_op : ('a1 -> 'a1 -> 'a1) -> positive -> 'a1 -> 'a1

  val to_nat : positive -> nat
 end

module N :
 sig
  val succ_double : n -> n

  val double : n -> n

  val add : n -> n -> n

  val sub : n -> n -> n

  val mul : n -> n -> n

  val compare : n -> n -> comparison

  val eqb : n -> n -> bool

  val leb : n -> n -> bool

  val ltb : n -> n -> bool

  val log2 : n -> n

  val pos_div_eucl : positive -> n -> n * n

  val div_eucl : n -> n -> n * n

  val div : n -> n -> n

  val modulo : n -> n -> n

  val to_nat : n -> nat
 end

module Z :
 sig
  val double : z -> z

  val succ_double : z -> z

  val pred_double : z -> z

  val pos_sub : positive -> positive -> z

  val add : z -> z -> z

  val opp : z -> z

  val mul : z -> z -> z

  val compare : z -> z -> comparison

  val leb : z -> z -> bool

  val of_N : n -> z
 end

type bytes = n list

val sp : n

val zero : n

val bytes_eqb : bytes -> bytes -> bool

val rune_error : n

val cont : n -> bool

val seq_size : n -> nat

val second_ok : n -> n -> bool

val chunks : bytes -> (n * bytes) list

val runes : bytes -> n list

val rune_count : bytes -> nat

val encode_rune : n -> bytes

val encode : n list -> bytes

val spaces : nat -> bytes

val zeros : nat -> bytes

val is_space : n -> bool

val drop_space : (n * bytes) list -> (n * bytes) list

val trim : bytes -> bytes

val rune_prefix : nat -> bytes -> bytes

val alphaField : bytes -> nat -> bytes

val stringField : bytes -> nat -> bytes

val digits_fuel : nat -> n -> bytes -> bytes

val digits : n -> bytes

val itoa : z -> bytes

val numericField : z -> nat -> bytes

val is_digit : n -> bool

val digits_val : bytes -> z -> z

val max_int64 : z

val min_int64 : z

val atoi : bytes -> z

val parseNumField : bytes -> z

type 'a res =
| Ok of 'a
| Err
| Panic

val bind : 'a1 res -> ('a1 -> 'a2 res) -> 'a2 res

val go_slice : 'a1 list -> nat option -> nat option -> 'a1 list res

val go_index : 'a1 list -> nat -> 'a1 res

val sl : 'a1 list -> nat -> nat -> 'a1 list res

val b_sp : bytes

val is_empty : bytes -> bool

val process_control : bytes -> bytes res

val item_research : bytes -> bytes res

val pop_check_serial : bytes -> bytes res

val pop_terminal_city : bytes -> bytes res

val pop_terminal_state : bytes -> bytes res

val shr_card_exp : bytes -> bytes res

val shr_doc_ref : bytes -> bytes res

val catx_addenda_records : bytes -> bytes res

val catx_receiving : bytes -> bytes res

val catx_reserved : bytes -> bytes res

val set_catx_addenda_records : z -> bytes -> bytes res

val set_catx_receiving : bytes -> bytes -> bytes res

val set_rdfi : bytes -> (bytes * bytes) res

val iat_payment_amount : bytes -> z res

val iat_addenda_information : bytes -> bytes res

val a99_return_trace : bytes -> bytes res

val a99_settlement_date : bytes -> bytes res

val a99_reason_code : bytes -> bytes res

val a99_extra : bytes -> bytes res

val aba8 : bytes -> bytes res

val first : nat -> bytes -> bytes res

val trc_entry_check : bytes -> unit res

val shr_entry_check : bytes -> (bytes * bytes) res

val record_length : nat

val ends_with_space : bytes -> bool

val trim_suffix_space : bytes -> bytes

val trim_long : bytes -> bytes res

val right_pad : bytes -> bytes res

type rec_kind =
| KFileHeader
| KBatchHeaderIAT
| KBatchHeader
| KEntryDetail
| KAddenda of bytes * bytes
| KBatchControl
| KFileControl
| KPadding
| KUnknown

val iat_code : bytes

val iatcor_code : bytes

val parse_line : bytes -> rec_kind res

val fixed_width :
  (n * bytes) list -> nat -> bytes -> (bytes * rec_kind) list ->
  (bytes * rec_kind) list res

val read_line : bool -> bytes -> (bytes * rec_kind) list res

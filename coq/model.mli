
type nat =
| O
| S of nat

val option_map : ('a1 -> 'a2) -> 'a1 option -> 'a2 option

val fst : ('a1 * 'a2) -> 'a1

val app : 'a1 list -> 'a1 list -> 'a1 list

val map : ('a1 -> 'a2) -> 'a1 list -> 'a2 list

val fold_left : ('a1 -> 'a2 -> 'a1) -> 'a2 list -> 'a1 -> 'a1

val existsb : ('a1 -> bool) -> 'a1 list -> bool

type positive =
| XI of positive
| XO of positive
| XH

type n =
| N0
| Npos of positive

module Pos :
 sig
  val eqb : positive -> positive -> bool
 end

module N :
 sig
  val eqb : n -> n -> bool
 end

type ('st, 'loc) mstep =
| MRead of ('st -> 'loc -> 'loc)
| MWrite of ('st -> 'loc -> 'st * 'loc)

val apply_m : ('a1, 'a2) mstep -> 'a1 -> 'a2 -> 'a1 * 'a2

type ('st, 'arg, 'res, 'loc) body = { b_init : ('arg -> 'loc);
                                      b_steps : ('st, 'loc) mstep list;
                                      b_fin : ('loc -> 'res) }

val run_steps : ('a1, 'a2) mstep list -> 'a1 -> 'a2 -> 'a1 * 'a2

val spec :
  ('a5 -> ('a1, 'a2, 'a3, 'a4) body) -> 'a5 -> 'a2 -> 'a1 -> 'a1 * 'a3

type fid = n

type bid = n

type file = { f_tok : n; f_old : bool; f_batches : bid list }

type st = (fid * file) list

val lookup : fid -> st -> file option

val remove : fid -> st -> st

val set : fid -> file -> st -> st

val keys : st -> fid list

val batches_of : fid -> st -> bid list

val memb : bid -> bid list -> bool

val last_index : bid -> bid list -> nat option

val remove_nth : nat -> bid list -> bid list

type err =
| ENotFound
| EExists
| EOther

type res =
| RNone
| ROk
| RErr of err
| RFile of n
| RFiles of n option list
| RBatch of bid
| RBatches of bid list

type arg = { a_fid : fid; a_bid : bid; a_tok : n; a_old : bool }

type loc = { l_arg : arg; l_keys : fid list; l_idx : nat option; l_res : 
             res; l_done : bool }

type op =
| StoreFile
| FindFile
| FindAllFiles
| DeleteFile
| StoreBatch
| FindBatch
| FindAllBatches
| DeleteBatch
| Sweep

val ret : loc -> res -> loc

val with_keys : loc -> fid list -> loc

val with_idx : loc -> nat -> loc

val rd : (st -> loc -> loc) -> (st, loc) mstep

val wr : (st -> loc -> st * loc) -> (st, loc) mstep

val add_batch : file -> bid -> file

val set_batches : file -> bid list -> file

val need_file : (st, loc) mstep

val sweep_keys : fid list -> st -> st

val steps_of : op -> (st, loc) mstep list

val repo_body : op -> (st, arg, res, loc) body

val repo_spec : op -> arg -> st -> st * res

val run_seq : (op * arg) list -> st -> st * res list

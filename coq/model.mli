
val negb : bool -> bool

type nat =
| O
| S of nat

val option_map : ('a1 -> 'a2) -> 'a1 option -> 'a2 option

val snd : ('a1 * 'a2) -> 'a2

val length : 'a1 list -> nat

val app : 'a1 list -> 'a1 list -> 'a1 list

type comparison =
| Eq
| Lt
| Gt

val compOpp : comparison -> comparison

module Nat :
 sig
  val eqb : nat -> nat -> bool

  val leb : nat -> nat -> bool

  val ltb : nat -> nat -> bool
 end

val nth : nat -> 'a1 list -> 'a1 -> 'a1

val concat : 'a1 list list -> 'a1 list

val map : ('a1 -> 'a2) -> 'a1 list -> 'a2 list

val fold_left : ('a1 -> 'a2 -> 'a1) -> 'a2 list -> 'a1 -> 'a1

val existsb : ('a1 -> bool) -> 'a1 list -> bool

val forallb : ('a1 -> bool) -> 'a1 list -> bool

val filter : ('a1 -> bool) -> 'a1 list -> 'a1 list

type positive =
| XI of positive
| XO of positive
| XH

type n =
| N0
| Npos of positive

type z =
| Z0
| Zpos of positive
| Zneg of positive

module Pos :
 sig
  val succ : positive -> positive

  val add : positive -> positive -> positive

  val add_carry : positive -> positive -> positive

  val pred_double : positive -> positive

  val compare_cont : comparison -> positive -> positive -> comparison

  val compare : positive -> positive -> comparison

  val eqb : positive -> positive -> bool
 end

module N :
 sig
  val compare : n -> n -> comparison

  val eqb : n -> n -> bool

  val ltb : n -> n -> bool
 end

module Z :
 sig
  val double : z -> z

  val succ_double : z -> z

  val pred_double : z -> z

  val pos_sub : positive -> positive -> z

  val add : z -> z -> z

  val compare : z -> z -> comparison

  val ltb : z -> z -> bool
 end

type bytes = n list

val bytes_eqb : bytes -> bytes -> bool

type entry = { e_trace : bytes; e_core : bytes; e_amount : z; e_debit : 
               bool; e_addenda : n; e_cat : n }

type kind =
| KStd
| KIAT

val kind_eqb : kind -> kind -> bool

type batch = { b_kind : kind; b_sig : bytes; b_num : z;
               b_entries : entry list; b_adv : entry list }

val lex_ltb : bytes -> bytes -> bool

val insert_by : ('a1 -> 'a1 -> bool) -> 'a1 -> 'a1 list -> 'a1 list

val sort_by : ('a1 -> 'a1 -> bool) -> 'a1 list -> 'a1 list

val has_trace : bytes -> batch -> bool

val can_merge : batch -> batch -> bool

val consume : batch -> batch -> batch

val copy : batch -> batch

type groups = (bytes * batch list) list

val merge_into : batch -> batch list -> batch list option

val place : batch -> batch list -> batch list

val step : batch -> groups -> groups

val run : batch list -> groups

val all_batches : groups -> batch list

val trace_ltb : entry -> entry -> bool

val num_ltb : batch -> batch -> bool

val count_ltb : batch -> batch -> bool

val sort_entries : batch -> batch

val is_std : batch -> bool

val is_iat : batch -> bool

val renumber : z -> batch list -> batch list

val finalize : batch list -> batch list

val cat_noc : n

val category_ok : batch -> bool

val checked : batch list -> batch list option

val flatten_stable : batch list -> batch list

val sorted_countb : batch list -> bool

val nodupb : nat list -> bool

val perm_hintb : nat -> nat list -> bool

val dummy_batch : batch

val apply_hint : batch list -> nat list -> batch list

val flatten_hint : batch list -> nat list -> batch list option

val flatten_stable_checked : batch list -> batch list option

val flatten_hint_checked : batch list -> nat list -> batch list option option

(* C16, phase 4 — the per-site policies of this source tree, stored evaluated
   (definitions only, so the extracted model builds even when an obligation about
   the table breaks, and the extraction does not drag the string-keyed table along). *)
From Coq Require Import String List NArith.
From ACH Require Import Bytes BufIO WriterIOTable WriterIO BufIOSeq WriterSiteTable WriterIOSeq.

Definition current_spolicy : spolicy :=
  Eval vm_compute in spolicy_of writer_sites writer_threshold writer_flush_shortcut.
Definition current_rpolicy3 : rpolicy3 :=
  Eval vm_compute in rpolicy3_of reader_facts read_maxlines.

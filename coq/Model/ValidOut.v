(* Phase 2 (C05/C09/C11/C12/C13 "the result passes validation"): the pieces that
   connect the transformation models to the ONE validator model of C03 (Arith.v).
   Definitions only.

   * [tabulate]: what Batch.Create leaves, written over Arith's batch skeleton — the
     control record re-tabulated from the entries with Arith's own recomputation
     functions (count, hash, totals), class / ODFI / number copied from the header.
     ValidOffsetsFacts proves that the abstraction of Offsets.build (the model of
     Batch.build of C05) IS such a batch, so the transformations whose models do not
     contain Create (merge, flatten, fresh segment batches) use [tabulate] for it.
   * [create_file]: File.Create over Arith's file skeleton (numbers <= 1 replaced by the
     running sequence over Batches then IATBatches, file control summed from the batch
     controls, hash truncated to the table's number of digits).
   * [trace15] / [odfi8]: the strings EntryDetail.SetTraceNumber and the ODFI field hold
     for the integers of the Offsets model (zero padded decimal, NumFacts.dec). *)
From ACH Require Export Arith.
From ACH Require Import NumFacts.
Open Scope Z_scope.

(* ---- Batch.Create over the skeleton ---------------------------------------- *)

Definition tab_ctl (T : tables) (k : kind) (cls : Z) (odfi : bytes) (num : Z) (es : list entry) : bctl :=
  mkbctl cls (calc_count es) (calc_hash T es) (calc_debit T k es) (calc_credit T k es) odfi num.

Definition tabulate (T : tables) (k : kind) (cls : Z) (odfi : bytes) (num : Z) (es : list entry) : batch :=
  mkbatch k cls odfi num es (tab_ctl T k cls odfi num es).

(* the control of [b] is what Create would write *)
Definition tabulated (T : tables) (b : batch) : Prop :=
  bt_ctl b = tab_ctl T (bt_kind b) (bt_class b) (bt_odfi b) (bt_number b) (bt_entries b).

(* ---- File.Create over the skeleton ------------------------------------------ *)

Definition set_number (b : batch) (n : Z) : batch :=
  let c := bt_ctl b in
  mkbatch (bt_kind b) (bt_class b) (bt_odfi b) n (bt_entries b)
          (mkbctl (bc_class c) (bc_count c) (bc_hash c) (bc_debit c) (bc_credit c) (bc_odfi c) n).

(* "create ascending batch numbers unless batch number has been provided" *)
Fixpoint renumber (seq : Z) (bs : list batch) : list batch :=
  match bs with
  | [] => []
  | b :: r => (if bt_number b <=? 1 then set_number b seq else b) :: renumber (seq + 1) r
  end.

Definition tab_fctl (T : tables) (bs : list batch) : fctl :=
  mkfctl (Z.of_nat (length bs))
         (sumz (fun b => bc_count (bt_ctl b)) bs)
         (least_sig (sumz (fun b => bc_hash (bt_ctl b)) bs) (t_hash_digits T))
         (sumz (fun b => bc_debit (bt_ctl b)) bs)
         (sumz (fun b => bc_credit (bt_ctl b)) bs).

(* non-ADV branch of File.Create *)
Definition create_file (T : tables) (bs iat : list batch) : file :=
  let bs' := renumber 1 bs in
  let iat' := renumber (1 + Z.of_nat (length bs)) iat in
  mkfile bs' iat' (tab_fctl T (bs' ++ iat')).

(* the conditions of FileControl.Validate that are not arithmetic identities: the
   totals fit their fields and, when money moves, the truncated hash is not 0 *)
Definition fctl_fits (T : tables) (c : fctl) : Prop :=
  fc_debit c <= t_file_limit T /\ fc_credit c <= t_file_limit T /\
  (fc_credit c <> 0 \/ fc_debit c <> 0 -> fc_count c <> 0 /\ fc_hash c <> 0).

(* ---- strings of the integers kept by the Offsets model ---------------------- *)

Definition trace15 (t : Z) : bytes := dec 15 (Z.to_N t).
Definition odfi8 (o : Z) : bytes := dec 8 (Z.to_N o).

(* ---- what a batch header must satisfy for BatchControl.Validate -------------- *)

Definition class_okb (T : tables) (cls : Z) : bool := negb (cls =? 0) && memz cls (t_classes T).

(* ---- per-entry conditions that no transformation touches --------------------- *)

(* EntryDetail.Validate and the code half of ValidTranCodeForServiceClassCode *)
Definition entry_static (T : tables) (e : entry) : bool :=
  match validate_entry T KStd e with ROk => true | _ => false end
  && negb (memz (en_code e) (t_advcodes T)).

(* the class half: direction of the code against the header's service class *)
Definition class_dir_ok (T : tables) (cls : Z) (e : entry) : bool :=
  if cls =? t_advclass T then false
  else if cls =? t_mixed T then true
  else if cls =? t_credits T then credit_or_debit (en_code e) =? 1
  else if cls =? t_debits T then credit_or_debit (en_code e) =? 2
  else true.

(* ---- an entry with its transaction code replaced (File.Reversal) ----------------- *)

Definition recode (f : Z -> Z) (e : entry) : entry :=
  mkentry (f (en_code e)) (en_amount e) (en_rdfi e) (en_check e) (en_trace e) (en_addenda e).

(* ---- what validity of a standard batch says about one entry under its header ------------- *)

Definition entry_in (T : tables) (cls : Z) (odfi : bytes) (x : entry) : Prop :=
  class_okb T cls = true /\ bytes_eqb odfi (repeat zero 9) = false /\
  entry_static T x = true /\ class_dir_ok T cls x = true /\
  bytes_leb (en_trace x) [48%N] = false /\ trace_prefix KStd x = stringField odfi 8.

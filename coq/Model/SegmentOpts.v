(* C11, phase 4 — what File.SegmentFile does with the ValidateOpts stored on the
   file and on its batches: the option values of the batches that Segment.part /
   Segment.ipart hand to the credit and the debit file, and of the two files.
   Executable definitions only (proofs: SegmentOptsFacts.v).

   Literally from the source (pinned by the regenerated table Gen/OptSites.v,
   checked in Oblig/C11OptsObl.v):
   - SegmentFile: creditFile.SetValidation(f.validateOpts), debitFile likewise,
     when f.validateOpts is not nil (a fresh file holds nil: the value is the
     input's either way);
   - a fresh batch split off a mixed standard batch or an ADV batch:
       setSegmentBatchValidation(split, f, from) =
       split.SetValidation(f.validateOpts.merge(batchValidation(from)))      (9ad8a729)
   - a fresh batch split off a mixed IAT batch:
       SetValidation(f.validateOpts.merge(iatb.validateOpts))                (9ad8a729)
   - a credits-only / debits-only batch is handed over as it is, with the options
     stored on it.
   [unfixed]: the code before 9ad8a729 — a fresh batch holds no options.
   The option value and ValidateOpts.merge are those of the merge model. *)
From Coq Require Import ZArith NArith List Bool.
Import ListNotations.
From ACH Require Import TxCodes RevTable SegTable Segment.
From ACH Require MergeOpts.

Notation vopts := MergeOpts.vopts.
Notation omerge := MergeOpts.omerge.

Record sbatcho := mksbo { so_batch : sbatch; so_opts : vopts }.

Record sfileo := mksfo {
  sfo_opts : vopts;                 (* File.GetValidation() *)
  sfo_batches : list sbatcho;       (* f.Batches *)
  sfo_iat : list sbatcho }.         (* f.IATBatches *)

Section Fixed.
  (* true: the code in force; false: before 9ad8a729 *)
  Variable fixed : bool.

  Definition fresh_opts (fo : vopts) (b : sbatcho) : vopts :=
    if fixed then omerge fo (so_opts b) else None.

  (* the options of the batches [part T cr (so_batch b)] returns, in the same order:
     a fresh batch (the list is [part]'s own, so an empty half yields nothing) or the
     batch itself *)
  Definition part_opts (T : stables) (cr : bool) (fo : vopts) (b : sbatcho) : list vopts :=
    let sb := so_batch b in
    if sb_adv sb then map (fun _ => fresh_opts fo b) (part T cr sb)
    else
      match scc_lookup (st_scc_std T) (sb_scc sb) with
      | Some (SSplit _ _) => map (fun _ => fresh_opts fo b) (part T cr sb)
      | _ => map (fun _ => so_opts b) (part T cr sb)
      end.

  Definition ipart_opts (T : stables) (cr : bool) (fo : vopts) (b : sbatcho) : list vopts :=
    match scc_lookup (st_scc_iat T) (sb_scc (so_batch b)) with
    | Some (SSplit _ _) => map (fun _ => fresh_opts fo b) (ipart T cr (so_batch b))
    | _ => map (fun _ => so_opts b) (ipart T cr (so_batch b))
    end.

  (* one output file: its own option value, the option values of its standard / ADV
     batches and of its IAT batches *)
  Definition side_opts (T : stables) (cr : bool) (f : sfileo) : vopts * list vopts * list vopts :=
    (sfo_opts f,
     flat_map (part_opts T cr (sfo_opts f)) (sfo_batches f),
     flat_map (ipart_opts T cr (sfo_opts f)) (sfo_iat f)).
End Fixed.

(* what the correspondence compares: credit side, debit side *)
Definition segment_opts_view (T : stables) (f : sfileo) :=
  (side_opts true T true f, side_opts true T false f).

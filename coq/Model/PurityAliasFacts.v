(* C14, phase 5 — proofs about the extended purity model. *)
From Coq Require Import String List Bool NArith Arith Lia.
Import ListNotations.
From ACH Require Import Bytes EffectTable Purity PurityFacts AliasTable PurityAlias.

(* ---------------------------------------------------------------- steps *)

Lemma xstep_opts s o : x_opts (xstep s o) = x_opts s.
Proof. destruct o; reflexivity. Qed.

Lemma xstep_bats_cases s o : x_bats (xstep s o) = x_bats s \/ x_bats (xstep s o) = install (x_bats s).
Proof.
  destruct o as [o|v]; cbn [xstep x_bats]; [apply step_cases|apply validate_step_cases].
Qed.

Lemma xstep_fixed s o : install (x_bats s) = x_bats s -> xstep s o = s.
Proof.
  intros H. destruct s as [b o']. cbn [x_bats] in H.
  assert (E : x_bats (xstep (mkx b o') o) = b).
  { destruct (xstep_bats_cases (mkx b o') o) as [E|E]; cbn [x_bats] in E; rewrite E; [reflexivity|exact H]. }
  destruct o as [o|v]; cbn [xstep x_bats x_opts] in *; now rewrite E.
Qed.

Lemma xhistory_fixed ops s : install (x_bats s) = x_bats s -> fold_left xstep ops s = s.
Proof.
  induction ops as [|o ops IH]; intros H; [reflexivity|].
  cbn [fold_left]. rewrite (xstep_fixed s o H). now apply IH.
Qed.

(* purity over the extended operation set, server validate requests included *)
Lemma xhistory_prefix ops s : prefix_inv (x_bats s) = true ->
  xobserve (fold_left xstep ops s) = xobserve s.
Proof. intros H. rewrite xhistory_fixed; [reflexivity|]. now apply install_fix_iff. Qed.

(* for every file: the options are never touched, the batches end as they were or normalised *)
Lemma xhistory_general ops : forall s,
  x_opts (fold_left xstep ops s) = x_opts s /\
  (x_bats (fold_left xstep ops s) = x_bats s \/ x_bats (fold_left xstep ops s) = install (x_bats s)).
Proof.
  induction ops as [|o ops IH]; intros s; [split; [reflexivity|now left]|].
  cbn [fold_left]. destruct (IH (xstep s o)) as [Ho Hb]. rewrite Ho, xstep_opts. split; [reflexivity|].
  destruct (xstep_bats_cases s o) as [E|E]; rewrite E in Hb; [exact Hb|].
  destruct Hb as [Hb|Hb]; rewrite Hb; [now right|]. right. apply install_idem.
Qed.

Lemma xpure_iff s :
  (forall ops, xobserve (fold_left xstep ops s) = xobserve s) <-> prefix_inv (x_bats s) = true.
Proof.
  split.
  - intros H. apply install_fix_iff. specialize (H [XServerValidate (mkv false true true true)]).
    cbn [fold_left xstep] in H. unfold xobserve in H. cbn [x_bats x_opts] in H.
    injection H as H. apply observe_inj in H. exact H.
  - intros H ops. now apply xhistory_prefix.
Qed.

(* ---------------------------------------------------------------- the store *)

Lemma store_validate_fixed id v st : store_ok st = true -> store_validate id v st = st.
Proof.
  induction st as [|[k f] r IH]; intros H; [reflexivity|].
  cbn [store_ok forallb snd] in H. apply andb_prop in H as [Hf Hr].
  cbn [store_validate]. destruct (bytes_eqb id k).
  - rewrite xstep_fixed; [reflexivity|]. now apply install_fix_iff.
  - now rewrite (IH Hr).
Qed.

Lemma serve_history_fixed rqs st : store_ok st = true -> fold_left serve rqs st = st.
Proof.
  induction rqs as [|rq rqs IH]; intros H; [reflexivity|].
  cbn [fold_left]. unfold serve at 2. rewrite (store_validate_fixed _ _ st H). now apply IH.
Qed.

Lemma serve_history_observe rqs st : store_ok st = true ->
  store_observe (fold_left serve rqs st) = store_observe st.
Proof. intros H. now rewrite serve_history_fixed. Qed.

(* without the condition: ids and options of every stored file are still untouched *)
Lemma store_validate_keys_opts id v st :
  map (fun kf => (fst kf, x_opts (snd kf))) (store_validate id v st) = map (fun kf => (fst kf, x_opts (snd kf))) st.
Proof.
  induction st as [|[k f] r IH]; [reflexivity|].
  cbn [store_validate]. destruct (bytes_eqb id k); cbn [map fst snd]; [now rewrite xstep_opts|now rewrite IH].
Qed.

Lemma serve_history_keys_opts rqs : forall st,
  map (fun kf => (fst kf, x_opts (snd kf))) (fold_left serve rqs st) = map (fun kf => (fst kf, x_opts (snd kf))) st.
Proof.
  induction rqs as [|rq rqs IH]; intros st; [reflexivity|].
  cbn [fold_left]. rewrite IH. apply store_validate_keys_opts.
Qed.

(* ---------------------------------------------------------------- traces of alias-table instances *)

Lemma asem_noop c i s : inv (x_bats s) = true -> asem c i s = s.
Proof.
  intros H. destruct s as [b o]. destruct c as [c'| |]; cbn [asem x_bats x_opts] in *; try reflexivity.
  now rewrite (sem_noop c' i b H).
Qed.

Lemma atrace_pure tr s : inv (x_bats s) = true -> arun tr s = s.
Proof.
  unfold arun. induction tr as [|[c i] tr IH]; intros H; [reflexivity|].
  cbn [fold_left fst snd]. rewrite (asem_noop c i s H). now apply IH.
Qed.

(* no class of the table touches the options, whatever the file *)
Lemma asem_opts c i s : x_opts (asem c i s) = x_opts s.
Proof. destruct c; reflexivity. Qed.

Lemma arun_opts tr : forall s, x_opts (arun tr s) = x_opts s.
Proof.
  unfold arun. induction tr as [|[c i] tr IH]; intros s; [reflexivity|].
  cbn [fold_left fst snd]. rewrite IH. apply asem_opts.
Qed.

Lemma arun_lift tr : forall s, arun (lift_trace tr) s = mkx (run tr (x_bats s)) (x_opts s).
Proof.
  unfold arun, run, lift_trace. induction tr as [|[c i] tr IH]; intros s; [destruct s; reflexivity|].
  cbn [map fold_left fst snd]. rewrite IH. reflexivity.
Qed.

Definition ainstall_class (ci : aclass * nat) : Prop :=
  fst ci = AFile CInstallHeader \/ fst ci = AFile CInstallControl \/ fst ci = ALock.

Lemma lift_classes tr : Forall install_class tr -> Forall ainstall_class (lift_trace tr).
Proof.
  unfold lift_trace. induction 1 as [|[c i] tr [H|H] _ IH]; cbn [map]; constructor; try exact IH;
    cbn [fst] in H; subst c; [now left|right; now left].
Qed.

Lemma xstep_refines s o : xstep s o = arun (xop_trace s o) s /\ Forall ainstall_class (xop_trace s o).
Proof.
  destruct o as [o|v]; cbn [xstep xop_trace].
  - destruct (step_refines (x_bats s) o) as [E F]. rewrite arun_lift, <- E. split; [reflexivity|now apply lift_classes].
  - destruct (step_refines (x_bats s) (OValidateWith v)) as [E F]. cbn [step] in E.
    unfold arun. cbn [fold_left fst snd asem]. fold (arun (lift_trace (op_trace (x_bats s) (OValidateWith v))) s).
    rewrite arun_lift, <- E. split; [reflexivity|].
    constructor; [right; now right|]. constructor; [right; now right|]. now apply lift_classes.
Qed.

(* ---------------------------------------------------------------- construction *)

Section ConstructionFacts.
  Variable cases : list (string * string).
  Variable ctors : list (string * list string).
  Hypothesis table_ok : ctor_table_ok cases ctors = true.

  (* NewBatch, read off the table, is new_batch of Purity.v wherever it returns a batch *)
  Lemma new_batch_tab_sound sec b : new_batch_tab cases ctors sec = Some b -> b = new_batch sec.
  Proof.
    unfold new_batch_tab. destruct (new_batch_case cases ctors sec) as [|ctl|] eqn:E; try discriminate.
    intros H. injection H as <-. unfold new_batch. f_equal.
    exact (new_batch_case_sound cases ctors table_ok sec ctl E).
  Qed.

  Lemma built_tab_built secs : built_tab cases ctors secs = built (filter (accepted cases ctors) secs).
  Proof.
    unfold built_tab, built. induction secs as [|s t IH]; [reflexivity|].
    cbn [flat_map filter]. unfold accepted at 1. destruct (new_batch_tab cases ctors s) as [b|] eqn:E.
    - cbn [app map]. rewrite IH. f_equal. now apply new_batch_tab_sound.
    - exact IH.
  Qed.

  Lemma no_adv_filter p secs : no_adv secs = true -> no_adv (filter p secs) = true.
  Proof.
    unfold no_adv. induction secs as [|s t IH]; intros H; [reflexivity|].
    cbn [forallb filter] in *. apply andb_prop in H as [Hs Ht].
    destruct (p s); cbn [forallb]; [now rewrite Hs, (IH Ht)|now apply IH].
  Qed.

  Lemma inv_built_tab secs : no_adv secs = true -> inv (built_tab cases ctors secs) = true.
  Proof. intros H. rewrite built_tab_built. apply inv_built. now apply no_adv_filter. Qed.

  (* a return that may carry a nil error ran IsADV — for every return class the checker accepts *)
  Lemma run_return_installed c f f' : ret_class_ok c = true -> run_return c f = Some (f', false) -> f' = install f.
  Proof.
    unfold ret_class_ok, run_return. intros H.
    destruct (String.eqb c "AfterIsADV"); [intros E; now injection E as <-|].
    destruct (String.eqb c "ErrNonNil"); [discriminate|].
    destruct (String.eqb c "RecoverBlockUnreachable"); [discriminate|]. discriminate.
  Qed.

  (* every return the checker accepts leaves the batches as they were or installed *)
  Lemma run_return_cases c f f' e : ret_class_ok c = true -> run_return c f = Some (f', e) -> f' = f \/ f' = install f.
  Proof.
    unfold ret_class_ok, run_return. intros H.
    destruct (String.eqb c "AfterIsADV"); [intros E; injection E as <- _; now right|].
    destruct (String.eqb c "ErrNonNil"); [intros E; injection E as <- _; now left|].
    destruct (String.eqb c "RecoverBlockUnreachable"); discriminate.
  Qed.
End ConstructionFacts.

Lemma returns_ok_class rs fn : returns_ok rs fn = true ->
  exists cs, sfind fn rs = Some cs /\ (forall c, In c cs -> ret_class_ok c = true) /\ In "AfterIsADV"%string cs.
Proof.
  unfold returns_ok. destruct (sfind fn rs) as [cs|]; [|discriminate].
  intros H. apply andb_prop in H as [H1 H2]. exists cs. split; [reflexivity|]. split.
  - now apply forallb_forall.
  - apply existsb_exists in H2 as (x & Hx & E). apply String.eqb_eq in E. now subst.
Qed.

(* ---------------------------------------------------------------- mixed histories on the store *)

Lemma store_apply_validate id v st : store_apply id (XServerValidate v) st = store_validate id v st.
Proof.
  induction st as [|[k f] r IH]; [reflexivity|]. cbn [store_apply store_validate]. now rewrite IH.
Qed.

Lemma store_apply_fixed id o st : store_ok st = true -> store_apply id o st = st.
Proof.
  induction st as [|[k f] r IH]; intros H; [reflexivity|].
  cbn [store_ok forallb snd] in H. apply andb_prop in H as [Hf Hr].
  cbn [store_apply]. destruct (bytes_eqb id k).
  - rewrite xstep_fixed; [reflexivity|]. now apply install_fix_iff.
  - now rewrite (IH Hr).
Qed.

Lemma serve_x_history_fixed rqs st : store_ok st = true -> fold_left serve_x rqs st = st.
Proof.
  induction rqs as [|rq rqs IH]; intros H; [reflexivity|].
  cbn [fold_left]. assert (E : serve_x st rq = st) by (destruct rq; apply store_apply_fixed; exact H).
  rewrite E. now apply IH.
Qed.

Lemma serve_x_history_observe rqs st : store_ok st = true ->
  store_observe (fold_left serve_x rqs st) = store_observe st.
Proof. intros H. now rewrite serve_x_history_fixed. Qed.

Lemma run_srqs_last rqs : forall st d, last (run_srqs st rqs) d = match rqs with [] => d | _ => fold_left serve_x rqs st end.
Proof.
  induction rqs as [|rq rqs IH]; intros st d; [reflexivity|].
  cbn [run_srqs fold_left]. destruct rqs as [|rq2 rqs]; [reflexivity|].
  specialize (IH (serve_x st rq) d). cbn [run_srqs] in *. exact IH.
Qed.

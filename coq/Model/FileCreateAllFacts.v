(* Facts about the File.Create / createFileADV model and the histories over all batch kinds
   (coq/Model/FileCreateAll.v). *)
From Coq Require Import Lia ZifyBool ZifyNat.
From ACH Require Import Offsets OffsetsFacts BuildIAT BuildIATFacts BuildADV BuildADVFacts FileCreateAll.
Open Scope Z_scope.

(* ------------------------------------------------------------------ renumbering keeps everything but the numbers *)

Lemma zsum_renumber_s (g : sbatch -> Z) : (forall s n, g (sset_num s n) = g s) ->
  forall bs q, zsum g (renumber_s q bs) = zsum g bs.
Proof.
  intros Hg. induction bs as [|s bs IH]; intros q; cbn [renumber_s zsum]; [reflexivity|].
  rewrite IH. destruct (sb_num s <=? 1); [now rewrite Hg|reflexivity].
Qed.

Lemma zsum_renumber_i (g : ibatch -> Z) : (forall b n, g (iset_num b n) = g b) ->
  forall bs q, zsum g (renumber_i q bs) = zsum g bs.
Proof.
  intros Hg. induction bs as [|b bs IH]; intros q; cbn [renumber_i zsum]; [reflexivity|].
  rewrite IH. destruct (ib_num b <=? 1); [now rewrite Hg|reflexivity].
Qed.

Lemma renumber_s_length bs : forall q, length (renumber_s q bs) = length bs.
Proof. induction bs as [|s bs IH]; intros q; cbn [renumber_s length]; [reflexivity|now rewrite IH]. Qed.

Lemma renumber_i_length bs : forall q, length (renumber_i q bs) = length bs.
Proof. induction bs as [|s bs IH]; intros q; cbn [renumber_i length]; [reflexivity|now rewrite IH]. Qed.

Lemma sset_num_fields s n :
  c_count (sb_ctl (sset_num s n)) = c_count (sb_ctl s) /\ c_hash (sb_ctl (sset_num s n)) = c_hash (sb_ctl s) /\
  c_credit (sb_ctl (sset_num s n)) = c_credit (sb_ctl s) /\ c_debit (sb_ctl (sset_num s n)) = c_debit (sb_ctl s) /\
  sb_is_adv (sset_num s n) = sb_is_adv s.
Proof. destruct s; cbn; repeat split. Qed.

Lemma iset_num_fields b n :
  c_count (ib_ctl (iset_num b n)) = c_count (ib_ctl b) /\ c_hash (ib_ctl (iset_num b n)) = c_hash (ib_ctl b) /\
  c_credit (ib_ctl (iset_num b n)) = c_credit (ib_ctl b) /\ c_debit (ib_ctl (iset_num b n)) = c_debit (ib_ctl b) /\
  ib_entries (iset_num b n) = ib_entries b.
Proof. cbn. repeat split. Qed.

Lemma zlen_renumber_s bs q : zlen (renumber_s q bs) = zlen bs.
Proof. unfold zlen. now rewrite renumber_s_length. Qed.

Lemma zlen_renumber_i bs q : zlen (renumber_i q bs) = zlen bs.
Proof. unfold zlen. now rewrite renumber_i_length. Qed.

Lemma records_renumber ss ibs q q' : records (renumber_s q ss) (renumber_i q' ibs) = records ss ibs.
Proof.
  unfold records. rewrite zsum_renumber_s, zsum_renumber_i; [reflexivity| |].
  - intros b n. now destruct (iset_num_fields b n) as (-> & _).
  - intros s n. now destruct (sset_num_fields s n) as (-> & _).
Qed.

Lemma file_control_renumber T ss ibs q q' :
  file_control_all T (renumber_s q ss) (renumber_i q' ibs) = file_control_all T ss ibs.
Proof.
  unfold file_control_all. rewrite records_renumber, zlen_renumber_s, zlen_renumber_i.
  rewrite !zsum_renumber_s, !zsum_renumber_i; [reflexivity| | | | | | | |];
    intros x n; try (destruct (iset_num_fields x n) as (H1 & H2 & H3 & H4 & _); congruence);
    destruct (sset_num_fields x n) as (H1 & H2 & H3 & H4 & _); congruence.
Qed.

Lemma adv_control_renumber T ss q : adv_file_control T (renumber_s q ss) = adv_file_control T ss.
Proof.
  unfold adv_file_control. pose proof (records_renumber ss [] q 1) as Hr. cbn [renumber_i] in Hr.
  rewrite Hr, zlen_renumber_s.
  rewrite !zsum_renumber_s; [reflexivity| | | |];
    intros x n; destruct (sset_num_fields x n) as (H1 & H2 & H3 & H4 & _); congruence.
Qed.

Lemma is_adv_renumber bs : forall q, existsb sb_is_adv (renumber_s q bs) = existsb sb_is_adv bs.
Proof.
  induction bs as [|s bs IH]; intros q; cbn [renumber_s existsb]; [reflexivity|].
  rewrite IH. destruct (sb_num s <=? 1); [|reflexivity]. now destruct (sset_num_fields s q) as (_ & _ & _ & _ & ->).
Qed.

(* ------------------------------------------------------------------ batch numbers *)

(* what File.Create does to the list of header batch numbers, standard batches first, IAT batches after them *)
Fixpoint renum_list (q : Z) (l : list Z) : list Z :=
  match l with [] => [] | n :: r => (if n <=? 1 then q else n) :: renum_list (q + 1) r end.

Definition all_nums (f : afile) : list Z := map sb_num (af_std f) ++ map ib_num (af_iat f).
(* the control records' numbers *)
Definition all_ctl_nums (f : afile) : list Z := map (fun s => c_num (sb_ctl s)) (af_std f) ++ map (fun b => c_num (ib_ctl b)) (af_iat f).

Lemma sb_num_set s n : sb_num (sset_num s n) = n /\ c_num (sb_ctl (sset_num s n)) = n.
Proof. destruct s; cbn; split; reflexivity. Qed.

Lemma nums_renumber_s bs : forall q, map sb_num (renumber_s q bs) = renum_list q (map sb_num bs).
Proof.
  induction bs as [|s bs IH]; intros q; cbn [renumber_s map renum_list]; [reflexivity|].
  rewrite IH. destruct (sb_num s <=? 1); [|reflexivity]. now destruct (sb_num_set s q) as [-> _].
Qed.

Lemma nums_renumber_i bs : forall q, map ib_num (renumber_i q bs) = renum_list q (map ib_num bs).
Proof.
  induction bs as [|s bs IH]; intros q; cbn [renumber_i map renum_list]; [reflexivity|].
  rewrite IH. destruct (ib_num s <=? 1); reflexivity.
Qed.

Lemma renum_list_app a : forall q b, renum_list q (a ++ b) = renum_list q a ++ renum_list (q + zlen a) b.
Proof.
  induction a as [|n a IH]; intros q b; cbn [app renum_list].
  - unfold zlen. cbn [length]. now replace (q + Z.of_nat 0) with q by lia.
  - rewrite IH, zlen_cons. now replace (q + 1 + zlen a) with (q + (1 + zlen a)) by lia.
Qed.

Lemma renum_list_nth l : forall q i n, nth_error l i = Some n ->
  nth_error (renum_list q l) i = Some (if n <=? 1 then q + Z.of_nat i else n).
Proof.
  induction l as [|m l IH]; intros q i n Hn; [now destruct i|].
  destruct i as [|i]; cbn [nth_error renum_list] in *.
  - inversion Hn; subst. now replace (q + Z.of_nat 0) with q by lia.
  - rewrite (IH (q + 1) i n Hn). now replace (q + 1 + Z.of_nat i) with (q + Z.of_nat (S i)) by lia.
Qed.

Lemma renum_list_absent l : forall q, forallb (fun n => n <=? 1) l = true ->
  renum_list q l = map (fun i => q + Z.of_nat i) (seq 0 (length l)).
Proof.
  induction l as [|n l IH]; intros q H; cbn [renum_list length seq map]; [reflexivity|].
  cbn [forallb] in H. apply andb_prop in H as [Hn Hl]. rewrite Hn, (IH _ Hl).
  f_equal; [lia|]. rewrite <- seq_shift, map_map. apply map_ext. intros i. lia.
Qed.

Lemma renum_list_provided l : forall q, forallb (fun n => 1 <? n) l = true -> renum_list q l = l.
Proof.
  induction l as [|n l IH]; intros q H; cbn [renum_list]; [reflexivity|].
  cbn [forallb] in H. apply andb_prop in H as [Hn Hl]. rewrite (IH _ Hl).
  destruct (n <=? 1) eqn:E; [lia|reflexivity].
Qed.

Lemma renum_list_idem l : forall q, 1 <= q -> renum_list q (renum_list q l) = renum_list q l.
Proof.
  induction l as [|n l IH]; intros q Hq; cbn [renum_list]; [reflexivity|].
  rewrite IH by lia. f_equal. destruct (n <=? 1) eqn:E; [|now rewrite E]. now destruct (q <=? 1).
Qed.

Lemma asc_seq_from n : forall q lo, lo < q -> asc lo (map (fun i => q + Z.of_nat i) (seq 0 n)).
Proof.
  induction n as [|n IH]; intros q lo H; cbn [seq map asc]; [exact I|].
  split; [lia|]. rewrite <- seq_shift, map_map.
  replace (map (fun x => q + Z.of_nat (S x)) (seq 0 n)) with (map (fun i => (q + 1) + Z.of_nat i) (seq 0 n))
    by (apply map_ext; intros i; lia).
  apply IH. lia.
Qed.

(* ------------------------------------------------------------------ File.Create, non-ADV branch *)

Definition created_std (T : ttable) (f : afile) : afile :=
  af_with f (renumber_s 1 (af_std f)) (renumber_i (1 + zlen (af_std f)) (af_iat f))
          (file_control_all T (af_std f) (af_iat f)) (af_actl f).

Lemma file_create_std_inv T f f' : file_is_adv f = false -> file_create_all T f = (true, f') -> f' = created_std T f.
Proof.
  unfold file_create_all, created_std. intros Ha.
  destruct (negb (fo_skip_all (af_opts f)) && negb (fo_allow_missing_hdr (af_opts f)) && negb (af_hdr_ok f)); [discriminate|].
  destruct (negb (fo_skip_all (af_opts f)) && negb (fo_allow_zero (af_opts f)) && _ && _); [discriminate|].
  rewrite Ha. cbn [negb]. intros H. inversion H. now rewrite file_control_renumber.
Qed.

Lemma blocks_ceil recs : 0 <= recs -> blocks recs = (recs + 9) / 10.
Proof.
  intros H. unfold blocks. rewrite Z.rem_mod_nonneg, Z.quot_div_nonneg by lia.
  destruct (recs mod 10 =? 0) eqn:E; Z.div_mod_to_equations; lia.
Qed.

Lemma ceil_bounds recs : 0 <= recs -> 10 * ((recs + 9) / 10 - 1) < recs <= 10 * ((recs + 9) / 10).
Proof. intros H. Z.div_mod_to_equations. lia. Qed.

(* the sum of truncated batch hashes, truncated, is the truncated sum of all routing numbers *)
Lemma mod_zsum_rem {A} (g : A -> Z) l : (forall x, In x l -> 0 <= g x) ->
  (zsum (fun x => Z.rem (g x) P10) l) mod P10 = (zsum g l) mod P10.
Proof.
  induction l as [|x l IH]; intros H; cbn [zsum]; [reflexivity|].
  rewrite rem_mod_nonneg by (apply H; now left).
  rewrite Z.add_mod, IH, Z.mod_mod, <- Z.add_mod by (try (intros y Hy; apply H; now right); unfold P10; lia).
  reflexivity.
Qed.

Lemma zsum_rem_nonneg {A} (g : A -> Z) l : (forall x, In x l -> 0 <= g x) -> 0 <= zsum (fun x => Z.rem (g x) P10) l.
Proof.
  intros H. apply zsum_nonneg. intros x Hx. rewrite rem_mod_nonneg by now apply H.
  apply Z.mod_pos_bound. unfold P10. lia.
Qed.

Lemma cut10 v : cut (Some 10) v = Z.rem v P10.
Proof. reflexivity. Qed.

(* per batch: what the control record should say, recomputed from the entries *)
Definition s_count (s : sbatch) : Z :=
  match s with SStd b => count (b_entries b) | SAdv a => acount (ab_entries a) end.
Definition s_rdfi (s : sbatch) : Z :=
  match s with SStd b => sumf e_rdfi (b_entries b) | SAdv a => zsum ae_rdfi (ab_entries a) end.
Definition s_credit (O : otable) (T : ttable) (s : sbatch) : Z :=
  match s with SStd b => credits O (b_entries b) | SAdv a => acredits T (ab_entries a) end.
Definition s_debit (O : otable) (T : ttable) (s : sbatch) : Z :=
  match s with SStd b => debits O (b_entries b) | SAdv a => adebits T (ab_entries a) end.
Definition sctl_ok (O : otable) (T : ttable) (s : sbatch) : Prop :=
  match s with SStd b => ctl_ok O b | SAdv a => actl_ok T a end.
Definition s_entries (s : sbatch) : list entry + list aentry :=
  match s with SStd b => inl (b_entries b) | SAdv a => inr (ab_entries a) end.

Lemma sctl_ok_fields O T s : sctl_ok O T s ->
  c_count (sb_ctl s) = s_count s /\ c_hash (sb_ctl s) = Z.rem (s_rdfi s) P10 /\
  c_credit (sb_ctl s) = s_credit O T s /\ c_debit (sb_ctl s) = s_debit O T s /\ c_num (sb_ctl s) = sb_num s.
Proof.
  destruct s as [b|a]; cbn [sctl_ok sb_ctl s_count s_rdfi s_credit s_debit sb_num].
  - intros (H1 & H2 & H3 & H4 & H5 & H6). repeat split; assumption.
  - intros (H1 & H2 & H3 & H4 & H5 & H6). repeat split; assumption.
Qed.

Lemma ictl_ok_fields T b : ictl_ok T b ->
  c_count (ib_ctl b) = icount (ib_entries b) /\ c_hash (ib_ctl b) = Z.rem (zsum ie_rdfi (ib_entries b)) P10 /\
  c_credit (ib_ctl b) = icredits T (ib_entries b) /\ c_debit (ib_ctl b) = idebits T (ib_entries b) /\ c_num (ib_ctl b) = ib_num b.
Proof. intros (H1 & H2 & H3 & H4 & H5 & H6). repeat split; assumption. Qed.

Lemma zsum_ext_Forall {A} (P : A -> Prop) (g h : A -> Z) l : Forall P l -> (forall x, P x -> g x = h x) -> zsum g l = zsum h l.
Proof.
  intros HF Hx. apply zsum_ext. intros x Hi. apply Hx. rewrite Forall_forall in HF. now apply HF.
Qed.

Lemma s_entries_renumber bs : forall q, map s_entries (renumber_s q bs) = map s_entries bs.
Proof.
  induction bs as [|s bs IH]; intros q; cbn [renumber_s map]; [reflexivity|].
  rewrite IH. f_equal. destruct (sb_num s <=? 1); [|reflexivity]. now destruct s.
Qed.

Lemma i_entries_renumber bs : forall q, map ib_entries (renumber_i q bs) = map ib_entries bs.
Proof.
  induction bs as [|s bs IH]; intros q; cbn [renumber_i map]; [reflexivity|].
  rewrite IH. f_equal. now destruct (ib_num s <=? 1).
Qed.

(* physical records of the file: file header + file control + per batch (header + control + its
   entry and addenda records), over BOTH batch lists *)
Definition phys_records (ss : list sbatch) (ibs : list ibatch) : Z :=
  2 + zsum (fun s => 2 + s_count s) ss + zsum (fun b => 2 + icount (ib_entries b)) ibs.

Lemma icount_one_pos e : 1 <= icount_one e.
Proof.
  unfold icount_one. pose proof (zlen_nonneg (filter is_some (ie_mand e))). pose proof (zlen_nonneg (ie_a17 e)).
  pose proof (zlen_nonneg (ie_a18 e)). unfold b2z. destruct (ie_a98 e), (ie_a99 e); lia.
Qed.

Lemma icount_nonneg es : 0 <= icount es.
Proof. unfold icount. apply zsum_nonneg. intros e _. pose proof (icount_one_pos e). lia. Qed.

Lemma acount_nonneg es : 0 <= acount es.
Proof. unfold acount. apply zsum_nonneg. intros e _. unfold b2z. destruct (ae_a99 e); lia. Qed.

Theorem file_create_all_counts O T f f' : ttable_good T -> file_is_adv f = false ->
  file_create_all T f = (true, f') ->
  Forall (sctl_ok O T) (af_std f) -> Forall (ictl_ok T) (af_iat f) ->
  (forall s, In s (af_std f) -> 0 <= s_count s) ->
  let recs := phys_records (af_std f) (af_iat f) in
  let c := af_ctl f' in
  fc_batches c = zlen (af_std f) + zlen (af_iat f) /\
  fc_count c = zsum s_count (af_std f) + zsum (fun b => icount (ib_entries b)) (af_iat f) /\
  fc_blocks c = (recs + 9) / 10 /\ 10 * (fc_blocks c - 1) < recs <= 10 * fc_blocks c /\
  fc_hash c = Z.rem (zsum (fun s => Z.rem (s_rdfi s) P10) (af_std f)
                     + zsum (fun b => Z.rem (zsum ie_rdfi (ib_entries b)) P10) (af_iat f)) P10 /\
  fc_debit c = zsum (s_debit O T) (af_std f) + zsum (fun b => idebits T (ib_entries b)) (af_iat f) /\
  fc_credit c = zsum (s_credit O T) (af_std f) + zsum (fun b => icredits T (ib_entries b)) (af_iat f) /\
  map s_entries (af_std f') = map s_entries (af_std f) /\ map ib_entries (af_iat f') = map ib_entries (af_iat f) /\
  af_actl f' = af_actl f.
Proof.
  intros G Ha H Hs Hi Hn. apply (file_create_std_inv T f f' Ha) in H. subst f'. cbv zeta.
  unfold created_std. cbn [af_with af_ctl af_std af_iat af_actl file_control_all fc_batches fc_count fc_blocks fc_hash fc_debit fc_credit].
  rewrite (tg_hash T G), cut10.
  assert (Hrec : records (af_std f) (af_iat f) = phys_records (af_std f) (af_iat f)).
  { unfold records, phys_records. f_equal; [f_equal|].
    - apply (zsum_ext_Forall _ _ _ _ Hs). intros s Hok. now destruct (sctl_ok_fields O T s Hok) as (-> & _).
    - apply (zsum_ext_Forall _ _ _ _ Hi). intros b Hok. now destruct (ictl_ok_fields T b Hok) as (-> & _). }
  assert (Hpos : 0 <= phys_records (af_std f) (af_iat f)).
  { unfold phys_records.
    assert (0 <= zsum (fun s => 2 + s_count s) (af_std f)) by (apply zsum_nonneg; intros s Hin; specialize (Hn s Hin); lia).
    assert (0 <= zsum (fun b => 2 + icount (ib_entries b)) (af_iat f)) by (apply zsum_nonneg; intros b _; pose proof (icount_nonneg (ib_entries b)); lia).
    lia. }
  rewrite Hrec, (blocks_ceil _ Hpos).
  repeat split.
  - f_equal; [apply (zsum_ext_Forall _ _ _ _ Hs)|apply (zsum_ext_Forall _ _ _ _ Hi)].
    + intros s Hok. now destruct (sctl_ok_fields O T s Hok) as (-> & _).
    + intros b Hok. now destruct (ictl_ok_fields T b Hok) as (-> & _).
  - apply (ceil_bounds _ Hpos).
  - apply (ceil_bounds _ Hpos).
  - f_equal. f_equal; [apply (zsum_ext_Forall _ _ _ _ Hs)|apply (zsum_ext_Forall _ _ _ _ Hi)].
    + intros s Hok. now destruct (sctl_ok_fields O T s Hok) as (_ & -> & _).
    + intros b Hok. now destruct (ictl_ok_fields T b Hok) as (_ & -> & _).
  - f_equal; [apply (zsum_ext_Forall _ _ _ _ Hs)|apply (zsum_ext_Forall _ _ _ _ Hi)].
    + intros s Hok. now destruct (sctl_ok_fields O T s Hok) as (_ & _ & _ & -> & _).
    + intros b Hok. now destruct (ictl_ok_fields T b Hok) as (_ & _ & _ & -> & _).
  - f_equal; [apply (zsum_ext_Forall _ _ _ _ Hs)|apply (zsum_ext_Forall _ _ _ _ Hi)].
    + intros s Hok. now destruct (sctl_ok_fields O T s Hok) as (_ & _ & -> & _).
    + intros b Hok. now destruct (ictl_ok_fields T b Hok) as (_ & _ & -> & _).
  - apply s_entries_renumber.
  - apply i_entries_renumber.
Qed.

(* with routing numbers that are not negative the file hash is the sum of ALL routing numbers of the
   file cut to ten digits: cutting every batch hash first loses nothing *)
Theorem file_hash_total (ss : list sbatch) (ibs : list ibatch) :
  (forall s, In s ss -> 0 <= s_rdfi s) -> (forall b, In b ibs -> 0 <= zsum ie_rdfi (ib_entries b)) ->
  Z.rem (zsum (fun s => Z.rem (s_rdfi s) P10) ss + zsum (fun b => Z.rem (zsum ie_rdfi (ib_entries b)) P10) ibs) P10
  = (zsum s_rdfi ss + zsum (fun b => zsum ie_rdfi (ib_entries b)) ibs) mod P10.
Proof.
  intros Hs Hi.
  pose proof (zsum_rem_nonneg s_rdfi ss Hs) as P1.
  pose proof (zsum_rem_nonneg (fun b => zsum ie_rdfi (ib_entries b)) ibs Hi) as P2.
  rewrite rem_mod_nonneg by lia.
  rewrite Z.add_mod, (mod_zsum_rem s_rdfi ss Hs), (mod_zsum_rem (fun b => zsum ie_rdfi (ib_entries b)) ibs Hi), <- Z.add_mod
    by (unfold P10; lia).
  reflexivity.
Qed.

(* ------------------------------------------------------------------ batch numbers after File.Create *)

Theorem file_create_numbers T f f' : file_is_adv f = false -> file_create_all T f = (true, f') ->
  all_nums f' = renum_list 1 (all_nums f).
Proof.
  intros Ha H. apply (file_create_std_inv T f f' Ha) in H. subst f'.
  unfold all_nums, created_std. cbn [af_with af_std af_iat].
  rewrite nums_renumber_s, nums_renumber_i, renum_list_app. unfold zlen. now rewrite map_length.
Qed.

(* where File.Create writes a number it writes it into header and control alike; a number it keeps
   is in the control when the batch was tabulated by build *)
Lemma ctl_nums_renumber_s O T bs : Forall (sctl_ok O T) bs -> forall q,
  map (fun s => c_num (sb_ctl s)) (renumber_s q bs) = map sb_num (renumber_s q bs).
Proof.
  intros HF. induction HF as [|s bs Hs HF IH]; intros q; cbn [renumber_s map]; [reflexivity|].
  rewrite IH. f_equal. destruct (sb_num s <=? 1).
  - destruct (sb_num_set s q) as [-> ->]. reflexivity.
  - now destruct (sctl_ok_fields O T s Hs) as (_ & _ & _ & _ & ->).
Qed.

Lemma ctl_nums_renumber_i T bs : Forall (ictl_ok T) bs -> forall q,
  map (fun b => c_num (ib_ctl b)) (renumber_i q bs) = map ib_num (renumber_i q bs).
Proof.
  intros HF. induction HF as [|s bs Hs HF IH]; intros q; cbn [renumber_i map]; [reflexivity|].
  rewrite IH. f_equal. destruct (ib_num s <=? 1); [reflexivity|].
  now destruct (ictl_ok_fields T s Hs) as (_ & _ & _ & _ & ->).
Qed.

Theorem file_create_ctl_numbers O T f f' : file_is_adv f = false -> file_create_all T f = (true, f') ->
  Forall (sctl_ok O T) (af_std f) -> Forall (ictl_ok T) (af_iat f) -> all_ctl_nums f' = all_nums f'.
Proof.
  intros Ha H Hs Hi. apply (file_create_std_inv T f f' Ha) in H. subst f'.
  unfold all_nums, all_ctl_nums, created_std. cbn [af_with af_std af_iat].
  now rewrite (ctl_nums_renumber_s O T _ Hs), (ctl_nums_renumber_i T _ Hi).
Qed.

(* no number provided: 1, 2, 3, … over the standard batches and on through the IAT batches *)
Theorem file_numbers_absent T f f' : file_is_adv f = false -> file_create_all T f = (true, f') ->
  forallb (fun n => n <=? 1) (all_nums f) = true ->
  all_nums f' = map (fun i => 1 + Z.of_nat i) (seq 0 (length (all_nums f))) /\ asc 0 (all_nums f').
Proof.
  intros Ha H Hn. rewrite (file_create_numbers T f f' Ha H), (renum_list_absent _ 1 Hn).
  split; [reflexivity|]. apply asc_seq_from. lia.
Qed.

(* every number provided: kept as they are, ascending exactly when the caller's were *)
Theorem file_numbers_provided T f f' : file_is_adv f = false -> file_create_all T f = (true, f') ->
  forallb (fun n => 1 <? n) (all_nums f) = true -> all_nums f' = all_nums f.
Proof.
  intros Ha H Hn. rewrite (file_create_numbers T f f' Ha H). now apply renum_list_provided.
Qed.

(* in general: position i gets 1 + i where the number was absent, and keeps its number otherwise *)
Theorem file_numbers_nth T f f' i n : file_is_adv f = false -> file_create_all T f = (true, f') ->
  nth_error (all_nums f) i = Some n ->
  nth_error (all_nums f') i = Some (if n <=? 1 then 1 + Z.of_nat i else n).
Proof. intros Ha H Hn. rewrite (file_create_numbers T f f' Ha H). now apply renum_list_nth. Qed.

(* ------------------------------------------------------------------ createFileADV *)

Lemma adv_file_loop_ok bs : forall q ss, adv_file_loop q bs = (true, ss) ->
  forallb sb_is_adv bs = true /\ ss = renumber_s q bs.
Proof.
  induction bs as [|s bs IH]; intros q ss H; cbn [adv_file_loop] in H.
  - inversion H. split; reflexivity.
  - destruct s as [b|a]; [discriminate|].
    destruct (adv_file_loop (q + 1) bs) as [ok r] eqn:E. inversion H; subst.
    destruct (IH _ _ E) as [Hf ->]. cbn [forallb sb_is_adv renumber_s sb_num sset_num]. split; [exact Hf|].
    destruct (ab_num a <=? 1); reflexivity.
Qed.

Lemma adv_file_loop_all bs : forall q, forallb sb_is_adv bs = true -> adv_file_loop q bs = (true, renumber_s q bs).
Proof.
  induction bs as [|s bs IH]; intros q H; cbn [adv_file_loop renumber_s]; [reflexivity|].
  cbn [forallb] in H. apply andb_prop in H as [Hs Hb]. destruct s as [b|a]; [discriminate|].
  rewrite (IH _ Hb). cbn [sb_num sset_num]. destruct (ab_num a <=? 1); reflexivity.
Qed.

Definition created_adv (T : ttable) (f : afile) : afile :=
  af_with f (renumber_s 1 (af_std f)) [] (af_ctl f) (adv_file_control T (af_std f)).

Lemma file_create_adv_inv T f f' : tt_adv_iat_guard T = true -> file_is_adv f = true -> file_create_all T f = (true, f') ->
  forallb sb_is_adv (af_std f) = true /\ af_iat f = [] /\ f' = created_adv T f.
Proof.
  unfold file_create_all, created_adv. intros Hg Ha.
  destruct (negb (fo_skip_all (af_opts f)) && negb (fo_allow_missing_hdr (af_opts f)) && negb (af_hdr_ok f)); [discriminate|].
  destruct (negb (fo_skip_all (af_opts f)) && negb (fo_allow_zero (af_opts f)) && _ && _); [discriminate|].
  rewrite Ha, Hg. cbn [negb andb].
  destruct (af_iat f) as [|b r] eqn:Ei; [|discriminate].
  destruct (adv_file_loop 1 (af_std f)) as [ok ss] eqn:El. destruct ok; [|discriminate].
  intros H. inversion H. destruct (adv_file_loop_ok _ _ _ El) as [Hall ->].
  now rewrite adv_control_renumber.
Qed.

Theorem file_create_adv_counts O T f f' : ttable_good T -> file_is_adv f = true ->
  file_create_all T f = (true, f') -> Forall (sctl_ok O T) (af_std f) ->
  let recs := phys_records (af_std f) [] in
  let c := af_actl f' in
  forallb sb_is_adv (af_std f) = true /\ af_iat f = [] /\
  fc_batches c = zlen (af_std f) /\
  fc_count c = zsum s_count (af_std f) /\
  fc_blocks c = (recs + 9) / 10 /\ 10 * (fc_blocks c - 1) < recs <= 10 * fc_blocks c /\
  fc_hash c = Z.rem (zsum (fun s => Z.rem (s_rdfi s) P10) (af_std f)) P10 /\
  fc_debit c = zsum (s_debit O T) (af_std f) /\ fc_credit c = zsum (s_credit O T) (af_std f) /\
  map s_entries (af_std f') = map s_entries (af_std f) /\ map sb_num (af_std f') = renum_list 1 (map sb_num (af_std f)) /\
  af_ctl f' = af_ctl f.
Proof.
  intros G Ha H Hs. destruct (file_create_adv_inv T f f' (tg_guard T G) Ha H) as (Hall & Hi & ->). cbv zeta.
  unfold created_adv. cbn [af_with af_actl af_ctl af_std adv_file_control fc_batches fc_count fc_blocks fc_hash fc_debit fc_credit].
  rewrite (tg_ahash T G), cut10.
  assert (Hn : forall s, In s (af_std f) -> 0 <= s_count s).
  { intros s Hin. rewrite forallb_forall in Hall. specialize (Hall s Hin). destruct s as [b|a]; [discriminate|]. apply acount_nonneg. }
  assert (Hrec : records (af_std f) [] = phys_records (af_std f) []).
  { unfold records, phys_records. f_equal. f_equal.
    apply (zsum_ext_Forall _ _ _ _ Hs). intros s Hok. now destruct (sctl_ok_fields O T s Hok) as (-> & _). }
  assert (Hpos : 0 <= phys_records (af_std f) []).
  { unfold phys_records. cbn [zsum].
    assert (0 <= zsum (fun s => 2 + s_count s) (af_std f)) by (apply zsum_nonneg; intros s Hin; specialize (Hn s Hin); lia). lia. }
  rewrite Hrec, (blocks_ceil _ Hpos).
  repeat split; try assumption.
  - apply (zsum_ext_Forall _ _ _ _ Hs). intros s Hok. now destruct (sctl_ok_fields O T s Hok) as (-> & _).
  - apply (ceil_bounds _ Hpos).
  - apply (ceil_bounds _ Hpos).
  - f_equal. apply (zsum_ext_Forall _ _ _ _ Hs). intros s Hok. now destruct (sctl_ok_fields O T s Hok) as (_ & -> & _).
  - apply (zsum_ext_Forall _ _ _ _ Hs). intros s Hok. now destruct (sctl_ok_fields O T s Hok) as (_ & _ & _ & -> & _).
  - apply (zsum_ext_Forall _ _ _ _ Hs). intros s Hok. now destruct (sctl_ok_fields O T s Hok) as (_ & _ & -> & _).
  - apply s_entries_renumber.
  - apply nums_renumber_s.
Qed.

(* ------------------------------------------------------------------ idempotence *)

Lemma renumber_s_idem bs : forall q, 1 <= q -> renumber_s q (renumber_s q bs) = renumber_s q bs.
Proof.
  induction bs as [|s bs IH]; intros q Hq; cbn [renumber_s]; [reflexivity|].
  rewrite IH by lia. f_equal.
  destruct (sb_num s <=? 1) eqn:E; [|now rewrite E].
  destruct (sb_num_set s q) as [-> _]. destruct (q <=? 1); [|reflexivity]. now destruct s.
Qed.

Lemma renumber_i_idem bs : forall q, 1 <= q -> renumber_i q (renumber_i q bs) = renumber_i q bs.
Proof.
  induction bs as [|s bs IH]; intros q Hq; cbn [renumber_i]; [reflexivity|].
  rewrite IH by lia. f_equal.
  destruct (ib_num s <=? 1) eqn:E; [|now rewrite E].
  cbn [iset_num ib_num]. destruct (q <=? 1); reflexivity.
Qed.

Lemma nil_renumber_s bs q : match renumber_s q bs with [] => true | _ :: _ => false end = match bs with [] => true | _ :: _ => false end.
Proof. now destruct bs. Qed.

Lemma nil_renumber_i bs q : match renumber_i q bs with [] => true | _ :: _ => false end = match bs with [] => true | _ :: _ => false end.
Proof. now destruct bs. Qed.

Theorem file_create_all_idem T f f' : tt_adv_iat_guard T = true -> file_create_all T f = (true, f') -> file_create_all T f' = (true, f').
Proof.
  intros Hg H. destruct (file_is_adv f) eqn:Ha.
  - destruct (file_create_adv_inv T f f' Hg Ha H) as (Hall & Hi & ->).
    revert H. unfold file_create_all, created_adv. cbn [af_with af_opts af_hdr_ok af_std af_iat af_ctl af_actl].
    unfold file_is_adv in *. cbn [af_std af_with]. rewrite is_adv_renumber, Ha, Hi, Hg, nil_renumber_s.
    destruct (negb (fo_skip_all (af_opts f)) && negb (fo_allow_missing_hdr (af_opts f)) && negb (af_hdr_ok f)); [discriminate|].
    destruct (negb (fo_skip_all (af_opts f)) && negb (fo_allow_zero (af_opts f)) && _ && _); [discriminate|].
    cbn [negb andb]. intros _.
    assert (Hall2 : forallb sb_is_adv (renumber_s 1 (af_std f)) = true).
    { clear -Hall. generalize 1. induction (af_std f) as [|s bs IH]; intros q; cbn [renumber_s forallb]; [reflexivity|].
      cbn [forallb] in Hall. apply andb_prop in Hall as [Hs Hb]. rewrite (IH Hb), andb_true_r.
      destruct (sb_num s <=? 1); [|exact Hs]. now destruct (sset_num_fields s q) as (_ & _ & _ & _ & ->). }
    rewrite (adv_file_loop_all _ 1 Hall2), renumber_s_idem by lia. now rewrite adv_control_renumber.
  - pose proof (file_create_std_inv T f f' Ha H) as ->.
    revert H. unfold file_create_all, created_std. cbn [af_with af_opts af_hdr_ok af_std af_iat af_ctl af_actl].
    unfold file_is_adv in *. cbn [af_std af_with]. rewrite is_adv_renumber, Ha, nil_renumber_s, nil_renumber_i.
    destruct (negb (fo_skip_all (af_opts f)) && negb (fo_allow_missing_hdr (af_opts f)) && negb (af_hdr_ok f)); [discriminate|].
    destruct (negb (fo_skip_all (af_opts f)) && negb (fo_allow_zero (af_opts f)) && _ && _); [discriminate|].
    cbn [negb]. intros _.
    rewrite zlen_renumber_s, renumber_s_idem, renumber_i_idem by (pose proof (zlen_nonneg (af_std f)); lia).
    now rewrite !file_control_renumber.
Qed.

(* ------------------------------------------------------------------ histories *)

Lemma astep_total O T o f : table_good O -> exists ok f', astep O T o f = Ret ok f'.
Proof.
  intros G. destruct o; cbn [astep]; try (eexists; eexists; reflexivity).
  - destruct (nth_error (af_std f) i) as [[b|a]|]; [| |eauto].
    + destruct (build_total O b G) as (H1 & H2). destruct (build O b); [eauto|congruence|congruence].
    + destruct (adv_build T a). eauto.
  - destruct (nth_error (af_iat f) i) as [b|]; [|eauto]. destruct (iat_build T b). eauto.
Qed.

Lemma arun_snoc O T a o f : arun O T (a ++ [o]) f =
  match arun O T a f with Ret _ f' => astep O T o f' | Panic => Panic | Hang => Hang end.
Proof. unfold arun. rewrite fold_left_app. cbn [fold_left]. destruct (fold_left _ a (Ret true f)); reflexivity. Qed.

Theorem arun_total O T ops : table_good O -> forall f, exists ok f', arun O T ops f = Ret ok f'.
Proof.
  intros G. induction ops as [|o ops IH] using rev_ind; intros f.
  - cbn. eauto.
  - rewrite arun_snoc. destruct (IH f) as (ok & f' & ->). apply astep_total, G.
Qed.

Theorem ahistory_file_stable O T ops f f' : tt_adv_iat_guard T = true ->
  arun O T (ops ++ [ACreateFile]) f = Ret true f' -> arun O T (ops ++ [ACreateFile; ACreateFile]) f = Ret true f'.
Proof.
  intros Hg H. replace (ops ++ [ACreateFile; ACreateFile]) with ((ops ++ [ACreateFile]) ++ [ACreateFile])
    by (rewrite <- app_assoc; reflexivity).
  rewrite arun_snoc, H. cbn [astep]. rewrite arun_snoc in H.
  destruct (arun O T ops f) as [ok a| |]; try discriminate. cbn [astep] in H.
  unfold pair_res in *. destruct (file_create_all T a) as [ok1 a1] eqn:E. cbn [fst snd] in H.
  inversion H; subst. now rewrite (file_create_all_idem T a f' Hg E).
Qed.

(* after any history: a batch that build has just tabulated has a control equal to the recomputation *)
Theorem ahistory_built O T ops f f' : table_good O ->
  (forall i, arun O T (ops ++ [IBuild i]) f = Ret true f' -> forall b, nth_error (af_iat f') i = Some b -> ictl_ok T b) /\
  (forall i, arun O T (ops ++ [ABuild i]) f = Ret true f' -> forall a, nth_error (af_std f') i = Some (SAdv a) -> actl_ok T a).
Proof.
  intros G. split; intros i H x Hx; rewrite arun_snoc in H;
    destruct (arun O T ops f) as [ok0 g| |]; try discriminate; cbn [astep] in H.
  - destruct (nth_error (af_iat g) i) as [b|] eqn:En.
    + destruct (iat_build T b) as [ok b'] eqn:Eb. inversion H; subst.
      unfold af_iat_with in Hx. cbn [af_with af_iat] in Hx.
      rewrite (nth_error_upd _ _ _ _ En) in Hx. inversion Hx; subst. eapply iat_build_control; eassumption.
    + inversion H; subst. congruence.
  - destruct (nth_error (af_std g) i) as [[b|a]|] eqn:En.
    + destruct (build O b) as [ok b'| |]; try discriminate. inversion H; subst.
      unfold af_std_with in Hx. cbn [af_with af_std] in Hx.
      rewrite (nth_error_upd _ _ _ _ En) in Hx. discriminate.
    + destruct (adv_build T a) as [ok a'] eqn:Eb. inversion H; subst.
      unfold af_std_with in Hx. cbn [af_with af_std] in Hx.
      rewrite (nth_error_upd _ _ _ _ En) in Hx. inversion Hx; subst. eapply adv_build_control; eassumption.
    + inversion H; subst. congruence.
Qed.

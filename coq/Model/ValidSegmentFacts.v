(* Phase 2, C11: the batches SegmentFile puts into the credit and the debit file, and the two
   files after File.Create, are accepted by the validator model of C03 when the input's
   standard batches are.  A fresh half of a mixed batch: entries are a sub-list (trace order,
   prefix and per-entry validity inherited), class 220 / 225 matches the direction the segment
   switch selected (segment lists = arithmetic lists = Arith's lists = units digit), control
   totals = the sums Arith recomputes.  A single-direction batch is handed over unchanged. *)
From Coq Require Import ZArith NArith List Bool Lia Sorting.Sorted.
From ACH Require Import ValidOut ValidOutFacts.
From ACH Require Import Bytes TxCodes RevTable SegTable Segment SegmentFacts.
From ACH Require Export ValidSegment.
Open Scope Z_scope.

Module AT := ACH.Model.ArithTable.
Module AF := ACH.Model.ArithFacts.

Lemma spec_credit_cod c : 10 <= c <= 99 -> spec_is_credit AR.KStd c = true -> AR.credit_or_debit c = 1.
Proof.
  intros Hc H. unfold spec_is_credit in H. unfold AR.credit_or_debit.
  replace ((c <? 10) || (99 <? c)) with false by (symmetry; apply orb_false_intro; apply Z.ltb_ge; lia).
  now rewrite H.
Qed.

Lemma spec_debit_cod c : 10 <= c <= 99 -> spec_is_debit AR.KStd c = true -> AR.credit_or_debit c = 2.
Proof.
  intros Hc H. unfold spec_is_debit in H. unfold AR.credit_or_debit.
  replace ((c <? 10) || (99 <? c)) with false by (symmetry; apply orb_false_intro; apply Z.ltb_ge; lia).
  apply Z.leb_le in H. replace ((1 <=? c mod 10) && (c mod 10 <=? 4)) with false by (symmetry; apply andb_false_intro2; apply Z.leb_gt; lia).
  replace (5 <=? c mod 10) with true by (symmetry; apply Z.leb_le; lia). reflexivity.
Qed.

(* a sub-list of a mapped ascending list *)
Lemma ascending_map_filter {X} (g : X -> AR.entry) (p : X -> bool) es : forall last,
  AR.ascending last (map g es) = true -> AR.ascending last (map g (filter p es)) = true.
Proof.
  induction es as [|e es IH]; intros last H; [reflexivity|].
  cbn [map AR.ascending] in H. destruct (AR.bytes_leb (AR.en_trace (g e)) last) eqn:E; [discriminate|].
  cbn [filter]. destruct (p e).
  - cbn [map AR.ascending]. rewrite E. now apply IH.
  - apply IH. eapply ascending_weaken; [exact E|exact H].
Qed.

Section Seg.
Variables (A : AR.tables) (T : stables).
Hypothesis HA : AT.tables_ok A = true.
Hypothesis HT : seg_tables_ok T = true.
Hypothesis HS : seg_tables_agree A T = true.
Variables (ep : N -> N -> spay) (sp : N -> bytes).

Local Notation amt := (st_amt_std T).
Local Notation se := (s_entry ep).
Local Notation sb := (s_batch A ep sp).

Lemma seg_agree_sound c :
  target_eqb (classify amt c) TCredit = AR.adds_credit A AR.KStd c /\
  target_eqb (classify amt c) TDebit = AR.adds_debit A AR.KStd c.
Proof.
  unfold seg_tables_agree in HS. apply andb_prop in HS as [H _]. apply andb_prop in H as [_ H].
  rewrite forallb_forall in H.
  destruct (in_dec Z.eq_dec c (all_codes amt ++ AR.t_std_credit A ++ AR.t_std_debit A)) as [Hin|Hout].
  - specialize (H c Hin). apply andb_prop in H as [H1 H2]. apply Bool.eqb_prop in H1, H2. now split.
  - assert (H1 : ~ In c (all_codes amt)) by (intros X; apply Hout, in_or_app; now left).
    assert (H2 : ~ In c (AR.t_std_credit A)) by (intros X; apply Hout, in_or_app; right; apply in_or_app; now left).
    assert (H3 : ~ In c (AR.t_std_debit A)) by (intros X; apply Hout, in_or_app; right; apply in_or_app; now right).
    rewrite (classify_notin _ _ H1). cbn [target_eqb].
    unfold AR.adds_credit, AR.adds_debit. cbn [AR.credit_list AR.debit_list].
    assert (M2 : AR.memz c (AR.t_std_credit A) = false).
    { destruct (AR.memz c (AR.t_std_credit A)) eqn:E; [|reflexivity]. apply AT.memz_In in E. contradiction. }
    assert (M3 : AR.memz c (AR.t_std_debit A) = false).
    { destruct (AR.memz c (AR.t_std_debit A)) eqn:E; [|reflexivity]. apply AT.memz_In in E. contradiction. }
    rewrite M2, M3. split; reflexivity.
Qed.

Lemma codes_two_digits c : AR.memz c (AR.t_codes A) = true -> 10 <= c <= 99.
Proof.
  intros H. unfold seg_tables_agree in HS. apply andb_prop in HS as [_ H10]. rewrite forallb_forall in H10.
  pose proof H as Hin. apply AT.memz_In in Hin. specialize (H10 c Hin).
  destruct (AT.lists_parts A HA) as (_ & _ & _ & _ & _ & _ & L & _).
  unfold AT.in100 in L. rewrite forallb_forall in L. specialize (L c Hin). lia.
Qed.

(* the control totals of the Segment model are the sums Arith recomputes *)
Lemma sums_agree es :
  sum_dir amt TCredit es = AR.calc_credit A AR.KStd (map se es) /\
  sum_dir amt TDebit es = AR.calc_debit A AR.KStd (map se es).
Proof.
  unfold AR.calc_credit, AR.calc_debit. induction es as [|e es [IH1 IH2]]; [split; reflexivity|].
  cbn [sum_dir map AR.sum_where]. rewrite IH1, IH2. unfold goes. destruct (seg_agree_sound (e_code e)) as [-> ->].
  cbn [s_entry AR.en_code AR.en_amount]. split; reflexivity.
Qed.

(* an entry the segment switch sent to the credit (debit) file is allowed under class 220 (225) *)
Lemma goes_class_dir t e : AR.memz (e_code e) (AR.t_codes A) = true -> goes amt t e = true -> t <> TNone ->
  class_dir_ok A (match t with TCredit => 220 | _ => 225 end) (se e) = true.
Proof.
  intros Hc Hg Ht. destruct (AT.constants_sound A HA) as (_ & _ & _ & _ & Kmix & Kcr & Kdb & Kadv).
  pose proof (codes_two_digits _ Hc) as H2.
  unfold goes in Hg. destruct (seg_agree_sound (e_code e)) as [S1 S2].
  destruct (AT.direction_sound A HA AR.KStd (e_code e) ltac:(discriminate)) as [D1 D2].
  unfold class_dir_ok. rewrite Kadv, Kmix, Kcr, Kdb. cbn [s_entry AR.en_code].
  destruct t; [| |congruence]; cbn.
  - rewrite Hg in S1. rewrite <- S1 in D1. symmetry in D1. apply andb_prop in D1 as [_ D1].
    rewrite (spec_credit_cod _ H2 D1). reflexivity.
  - rewrite Hg in S2. rewrite <- S2 in D2. symmetry in D2. apply andb_prop in D2 as [_ D2].
    rewrite (spec_debit_cod _ H2 D2). reflexivity.
Qed.

(* a fresh half of a valid mixed batch validates *)
Lemma fresh_valid b (cr : bool) y :
  AR.validate_batch A (sb b) = AR.ROk -> sb_scc b = 200 ->
  In y (fresh amt false (if cr then 220 else 225) (sb_num b) (sb_ident b) (filter (goes amt (dir_of cr)) (sb_entries b))) ->
  AR.validate_batch A (sb y) = AR.ROk.
Proof.
  intros Hv Hscc Hy. set (t := dir_of cr) in *. set (es := filter (goes amt t) (sb_entries b)) in *.
  unfold fresh in Hy. destruct es as [|e0 es0] eqn:Ees; [destruct Hy|]. rewrite <- Ees in Hy. destruct Hy as [<-|[]].
  assert (Hne : es <> []) by (rewrite Ees; discriminate).
  pose proof (valid_entries_in A (sb b) eq_refl Hv) as Hin.
  destruct (AF.verify_facts A _ (AF.validate_batch_verify A _ Hv)) as [_ _ Fc _ _ _ _ Fasc Fd Fcr _ _].
  cbn [s_batch s_batch_k AR.bt_kind AR.bt_class AR.bt_odfi AR.bt_entries AR.bt_ctl AR.bc_debit AR.bc_credit] in *.
  specialize (Fasc ltac:(discriminate)).
  destruct (AT.constants_sound A HA) as (_ & _ & Klim & _ & Kmix & Kcr & Kdb & Kadv).
  destruct (sums_agree es) as [Sc Sd]. destruct (sums_agree (sb_entries b)) as [Bc Bd].
  (* the totals of the half: one of them is the batch's, the other 0 *)
  assert (Hall : forallb (goes amt t) es = true) by (unfold es; apply filter_all).
  assert (Hsame : sum_dir amt t es = sum_dir amt t (sb_entries b)) by (unfold es; apply sum_filter_same).
  assert (Hcls : class_okb A (if cr then 220 else 225) = true).
  { apply class_okb_spec. split; [destruct cr; lia|].
    destruct (AT.tables_ok_parts A HA) as (_ & _ & _ & _ & _ & Hk). unfold AT.constants_ok in Hk.
    apply andb_prop in Hk as [_ Hss]. unfold AT.same_set in Hss. apply andb_prop in Hss as [_ Hss].
    rewrite forallb_forall in Hss. apply Hss. destruct cr; cbn [In]; auto. }
  (* the half is a tabulated batch *)
  assert (Etab : sb (mksb false (if cr then 220 else 225) (sb_num b) (sb_ident b) (sum_dir amt TCredit es) (sum_dir amt TDebit es) es)
                 = tabulate A AR.KStd (if cr then 220 else 225) (sp (sb_ident b)) (sb_num b) (map se es)).
  { unfold s_batch, s_batch_k, tabulate, tab_ctl. cbn [sb_scc sb_num sb_ident sb_credit sb_debit sb_entries]. now rewrite Sc, Sd. }
  rewrite Etab. apply entries_in_valid.
  - intros E. apply map_eq_nil in E. contradiction.
  - apply Forall_forall. intros x Hx. apply in_map_iff in Hx as (e & <- & He).
    assert (Heb : In e (sb_entries b)) by (unfold es in He; now apply filter_In in He).
    rewrite Forall_forall in Hin. destruct (Hin (se e) (in_map _ _ _ Heb)) as (_ & K2 & K3 & _ & K5 & K6).
    unfold entry_in. repeat split; try assumption.
    apply entry_static_spec in K3 as [K3 _]. apply AF.validate_entry_facts in K3 as (Kc & _).
    rewrite forallb_forall in Hall. specialize (Hall e He).
    pose proof (goes_class_dir t e Kc Hall) as G. unfold t, dir_of in *. destruct cr; apply G; discriminate.
  - assert (Hs : AR.ascending [48%N] (map se es) = true) by (unfold es; apply ascending_map_filter; exact Fasc).
    apply AF.ascending_sorted in Hs. now inversion Hs.
  - rewrite <- Sd. unfold t, dir_of in *. destruct cr.
    + rewrite (sum_all_other amt TCredit TDebit es ltac:(congruence) Hall). rewrite Klim. lia.
    + rewrite Hsame, Bd, Fd. unfold AR.validate_bctl in Fc. cbn [AR.bc_debit AR.bc_credit] in Fc. ok_split. lia.
  - rewrite <- Sc. unfold t, dir_of in *. destruct cr.
    + rewrite Hsame, Bc, Fcr. unfold AR.validate_bctl in Fc. cbn [AR.bc_debit AR.bc_credit] in Fc. ok_split. lia.
    + rewrite (sum_all_other amt TDebit TCredit es ltac:(congruence) Hall). rewrite Klim. lia.
Qed.

(* SegmentFile, batch level: what a valid standard batch contributes to either file validates *)
Theorem part_arith_valid b cr y :
  sb_adv b = false -> AR.validate_batch A (sb b) = AR.ROk -> In y (part T cr b) ->
  AR.validate_batch A (sb y) = AR.ROk /\ sb_adv y = false.
Proof.
  intros Hadv Hv Hy. unfold part in Hy. rewrite Hadv in Hy.
  destruct (HT_parts T HT) as (_ & _ & _ & Hscc & _). destruct (scc_ok_sound _ Hscc) as (L200 & L220 & L225).
  (* the class of a valid batch is one of the three the switch knows *)
  destruct (AF.verify_facts A _ (AF.validate_batch_verify A _ Hv)) as [_ _ Fc _ _ _ _ _ _ _ _ _].
  destruct (scc_lookup (st_scc_std T) (sb_scc b)) as [[c d| | |]|] eqn:El; try (destruct Hy; fail).
  - (* split *)
    assert (Es : sb_scc b = 200 /\ c = 220 /\ d = 225).
    { destruct (Z.eq_dec (sb_scc b) 200) as [E|NE]; [rewrite E, L200 in El; injection El as <- <-; auto|].
      destruct (Z.eq_dec (sb_scc b) 220) as [E|NE2]; [rewrite E, L220 in El; discriminate|].
      destruct (Z.eq_dec (sb_scc b) 225) as [E|NE3]; [rewrite E, L225 in El; discriminate|].
      (* no other class passes BatchControl.Validate except 280, which ValidTranCode... refuses *)
      exfalso. unfold AR.validate_batch in Hv. cbn [s_batch s_batch_k AR.bt_kind] in Hv. apply andr_ok in Hv as [Hver Htc].
      unfold AR.validate_bctl in Fc. cbn [s_batch s_batch_k AR.bt_ctl AR.bc_class] in Fc. ok_split.
      destruct (AT.constants_sound A HA) as (_ & _ & _ & _ & Kmix & Kcr & Kdb & Kadv).
      destruct (AT.tables_ok_parts A HA) as (_ & _ & _ & _ & _ & Hk). unfold AT.constants_ok in Hk.
      apply andb_prop in Hk as [_ Hss]. unfold AT.same_set in Hss. apply andb_prop in Hss as [Hss _].
      rewrite forallb_forall in Hss.
      match goal with H : AR.memz (sb_scc b) _ = true |- _ => apply AT.memz_In in H; specialize (Hss _ H) end.
      apply AT.memz_In in Hss. cbn [In] in Hss. destruct Hss as [E|[E|[E|[E|[]]]]]; try (symmetry in E; contradiction).
      (* 280 *)
      apply first_fail_ok in Htc. cbn [s_batch s_batch_k AR.bt_entries] in Htc.
      destruct (AF.verify_facts A _ Hver) as [Fne _ _ _ _ _ _ _ _ _ _ _]. cbn [s_batch s_batch_k AR.bt_entries] in Fne.
      destruct (map se (sb_entries b)) as [|x xs] eqn:Em; [congruence|]. inversion Htc as [|? ? Hx _]; subst.
      apply tran_code_split in Hx as [_ Hx]. unfold class_dir_ok in Hx. cbn [s_batch s_batch_k AR.bt_class] in Hx.
      rewrite <- E, Kadv, Z.eqb_refl in Hx. discriminate. }
    destruct Es as (E200 & -> & ->).
    rewrite (filter_goes_ext (st_seg_std T) amt _ _ (agree T HT KStd)) in Hy.
    split; [now apply (fresh_valid b cr y Hv E200)|].
    apply fresh_In in Hy as (_ & _ & Hy & _). exact Hy.
  - destruct cr; [|destruct Hy]. destruct Hy as [<-|[]]. now split.
  - destruct cr; [destruct Hy|]. destruct Hy as [<-|[]]. now split.
Qed.

(* ---- file level ---------------------------------------------------------------------------- *)

Local Notation si := (s_ibatch A ep sp).

Lemma s_batch_renumber k bs : forall s,
  map (s_batch_k A ep sp k) (renumber s bs) = VO.renumber s (map (s_batch_k A ep sp k) bs).
Proof.
  induction bs as [|b bs IH]; intros s; cbn [renumber map VO.renumber]; [reflexivity|]. rewrite IH. f_equal.
  change (AR.bt_number (s_batch_k A ep sp k b)) with (sb_num b). destruct (sb_num b <=? 1); reflexivity.
Qed.

Lemma s_sum_debit k bs : AR.sumz (fun x => AR.bc_debit (AR.bt_ctl x)) (map (s_batch_k A ep sp k) bs) = tot_debit bs.
Proof. induction bs as [|b bs IH]; cbn [map AR.sumz tot_debit]; [reflexivity|]. now rewrite IH. Qed.

Lemma s_sum_credit k bs : AR.sumz (fun x => AR.bc_credit (AR.bt_ctl x)) (map (s_batch_k A ep sp k) bs) = tot_credit bs.
Proof. induction bs as [|b bs IH]; cbn [map AR.sumz tot_credit]; [reflexivity|]. now rewrite IH. Qed.

Lemma s_numbers bs : forall last, ascending last (map sb_num bs) = true -> AR.numbers_ascending last (map sb bs) = true.
Proof.
  induction bs as [|b bs IH]; intros last H; cbn [map AR.numbers_ascending ascending] in *; [reflexivity|].
  apply andb_prop in H as [H1 H2]. change (AR.bt_number (sb b)) with (sb_num b).
  replace (sb_num b <=? last) with false by (symmetry; apply Z.leb_gt; lia). now apply IH.
Qed.

Lemma s_file_std g : forallb (fun b => negb (sb_adv b)) (sf_batches g) = true -> AR.is_adv_file (s_file A ep sp g) = false.
Proof.
  intros _. unfold AR.is_adv_file, s_file. cbn [AR.fl_batches]. induction (sf_batches g) as [|b l IH]; cbn [map existsb]; [reflexivity|exact IH].
Qed.

Lemma finish_inv o d bs is g : finish T o d bs is = inl g ->
  (bs = [] /\ is = [] /\ g = empty_file) \/ (create o d bs is = Some g /\ validate T g = None).
Proof.
  unfold finish. destruct bs as [|b bs]; [destruct is as [|i is]|].
  - intros H. injection H as <-. now left.
  - destruct (create o d [] (i :: is)) as [x|]; [|discriminate]. destruct (validate T x) eqn:E; [discriminate|].
    intros H. injection H as <-. right. now split.
  - destruct (create o d (b :: bs) is) as [x|]; [|discriminate]. destruct (validate T x) eqn:E; [discriminate|].
    intros H. injection H as <-. right. now split.
Qed.

(* one output file of SegmentFile *)
Lemma finished_arith_valid o d bs is g :
  Forall (fun y => AR.validate_batch A (sb y) = AR.ROk /\ sb_adv y = false) bs ->
  finish T o d bs is = inl g -> (sf_batches g <> [] \/ sf_iat g <> []) ->
  fctl_fits A (AR.fl_ctl (s_file A ep sp g)) ->
  AR.validate_file A (s_file A ep sp g) = AR.ROk.
Proof.
  intros Hbs Hf Hne Hfit. destruct (finish_inv o d bs is g Hf) as [(-> & -> & ->)|(Hc & Hval)].
  { cbn in Hne. destruct Hne as [H|H]; congruence. }
  assert (Hnoadv : is_adv_file bs = false).
  { apply no_adv_not_adv_file. apply forallb_forall. intros y Hy. rewrite Forall_forall in Hbs. destruct (Hbs y Hy) as [_ E]. now rewrite E. }
  unfold create in Hc. rewrite Hnoadv in Hc. cbv zeta in Hc.
  remember (renumber 1 bs) as bs' eqn:Ebs. remember (renumber (1 + Z.of_nat (length bs)) is) as is' eqn:Eis.
  injection Hc as <-.
  assert (Hadv' : forallb (fun b => negb (sb_adv b)) bs' = true).
  { apply forallb_forall. intros y Hy. rewrite Ebs in Hy. apply renumber_In in Hy as (y0 & Hy0 & Hs).
    rewrite Forall_forall in Hbs. destruct (Hbs y0 Hy0) as [_ E]. destruct Hs as (_ & _ & Ha & _). rewrite Ha, E. reflexivity. }
  assert (Hnoadv' : is_adv_file bs' = false) by now apply no_adv_not_adv_file.
  unfold validate in Hval. cbn [sf_batches sf_iat sf_credit sf_debit] in Hval. rewrite Hnoadv' in Hval.
  destruct (negb (forallb (batch_ok T) bs')); [discriminate|].
  destruct (negb _) in Hval; [discriminate|].
  destruct (negb (ascending 0 (map sb_num bs'))) eqn:Easc; [discriminate|]. apply negb_false_iff in Easc.
  cbn [sf_batches sf_iat] in Hne.
  apply validate_file_facts; [now apply s_file_std|].
  unfold s_file in *. cbn [sf_batches sf_iat sf_credit sf_debit AR.fl_ctl] in *.
  constructor; unfold AR.all_batches;
    cbn [AR.fl_batches AR.fl_iat AR.fl_ctl AR.fc_batches AR.fc_count AR.fc_hash AR.fc_debit AR.fc_credit].
  - reflexivity.
  - rewrite Ebs. unfold s_batch. rewrite s_batch_renumber. apply renumber_valid.
    apply Forall_forall. intros x Hx. apply in_map_iff in Hx as (y & <- & Hy). rewrite Forall_forall in Hbs.
    destruct (Hbs y Hy) as [Hv _]. split; [reflexivity|exact Hv].
  - apply fits_validate_fctl; [exact Hfit|].
    cbn [AR.fc_batches]. intros _. rewrite !map_length. destruct Hne as [H|H].
    + destruct bs'; [congruence|cbn [length]; lia].
    + destruct is'; [congruence|cbn [length]; lia].
  - reflexivity.
  - rewrite sumz_app. unfold s_batch, s_ibatch. rewrite !s_sum_debit. reflexivity.
  - rewrite sumz_app. unfold s_batch, s_ibatch. rewrite !s_sum_credit. reflexivity.
  - now apply s_numbers.
  - reflexivity.
Qed.

(* SegmentFile: both returned files pass File.Validate *)
Theorem segment_file_arith_valid f cf df :
  Forall (fun b => sb_adv b = false /\ AR.validate_batch A (sb b) = AR.ROk) (sf_batches f) ->
  segment T f = SOk cf df ->
  forall g, g = cf \/ g = df -> (sf_batches g <> [] \/ sf_iat g <> []) ->
  fctl_fits A (AR.fl_ctl (s_file A ep sp g)) ->
  AR.validate_file A (s_file A ep sp g) = AR.ROk.
Proof.
  intros Hin Hs g Hg Hne Hfit. unfold segment in Hs.
  destruct (validate T f); [discriminate|].
  assert (Hparts : forall cr, Forall (fun y => AR.validate_batch A (sb y) = AR.ROk /\ sb_adv y = false) (flat_map (part T cr) (sf_batches f))).
  { intros cr. apply Forall_forall. intros y Hy. apply in_flat_map in Hy as (b & Hb & Hy).
    rewrite Forall_forall in Hin. destruct (Hin b Hb) as [Ha Hv]. now apply (part_arith_valid b cr y). }
  destruct (finish T (sf_origin f) (sf_dest f) (flat_map (part T true) (sf_batches f)) (flat_map (ipart T true) (sf_iat f))) as [c|] eqn:Ec; [|discriminate].
  destruct (finish T (sf_origin f) (sf_dest f) (flat_map (part T false) (sf_batches f)) (flat_map (ipart T false) (sf_iat f))) as [dd|] eqn:Ed; [|discriminate].
  injection Hs as <- <-. destruct Hg as [->| ->].
  - exact (finished_arith_valid _ _ _ _ _ (Hparts true) Ec Hne Hfit).
  - exact (finished_arith_valid _ _ _ _ _ (Hparts false) Ed Hne Hfit).
Qed.

End Seg.

(* C06 (phase 2) — nil-safety ("shape") model of the public operations of package ach.

   A SHAPE records which optional sub-records of a File are present (every pointer
   the Go code may find nil is an [option] / [bool] here; every list may be empty and
   may hold absent elements where Go allows nil) together with the few data values
   the control flow around optional dereferences depends on: the SEC code and service
   class code of a batch header, the dynamic Go type of the Batcher, the category and
   transaction code of an entry.

   Every other data-dependent test of the source (record validation, control
   arithmetic, ValidateOpts flags, I/O errors) is a bit drawn from an ORACLE (a list
   of booleans, [true] when exhausted): [check] returns an error on [false], [flip]
   hands the bit to the model.  A theorem "for all oracles" therefore covers every
   outcome of those tests; the all-[true] oracle is the path of a valid file under
   default options.

   The state monad [M S A] threads the shape (Go mutates in place: File.IsADV installs
   missing headers/controls, Batch.build replaces the control, upsertOffsets edits the
   entry list, Reversal installs a control) and keeps the state when an error is
   returned, as Go does.  [PANIC] is a nil dereference or an index out of range.

   Definitions only; proofs in TotalOpsFacts.v.  Function by function transcription of
   batch.go, batcher types, iatBatch.go, file.go, writer.go, reversal.go,
   file_flattener.go, merge.go (names in comments). *)
From Coq Require Import List Bool Arith.
Import ListNotations.
Open Scope nat_scope.
Open Scope bool_scope.

(* ------------------------------------------------------------------ *)
(* The monad *)

Inductive outcome (S A : Type) : Type :=
| OK (a : A) (s : S) (o : list bool)
| ERR (s : S) (o : list bool)      (* the Go function returned a non-nil error; the state stays mutated *)
| PANIC.
Arguments OK {S A} a s o.
Arguments ERR {S A} s o.
Arguments PANIC {S A}.

Definition M (S A : Type) := S -> list bool -> outcome S A.

Definition ret {S A} (a : A) : M S A := fun s o => OK a s o.
Definition bind {S A B} (m : M S A) (k : A -> M S B) : M S B :=
  fun s o => match m s o with OK a s' o' => k a s' o' | ERR s' o' => ERR s' o' | PANIC => PANIC end.

Declare Scope ops_scope.
Delimit Scope ops_scope with ops.
Notation "x <- m ;; k" := (bind m (fun x => k)) (at level 61, m at next level, right associativity) : ops_scope.
Notation "m ;; k" := (bind m (fun _ => k)) (at level 61, right associativity) : ops_scope.
Open Scope ops_scope.

Definition get {S} : M S S := fun s o => OK s s o.
Definition put {S} (s' : S) : M S unit := fun _ o => OK tt s' o.
Definition modify {S} (f : S -> S) : M S unit := fun s o => OK tt (f s) o.
Definition fail {S A} : M S A := fun s o => ERR s o.
Definition crash {S A} : M S A := fun _ _ => PANIC.

(* one bit of the oracle *)
Definition flip {S} : M S bool :=
  fun s o => match o with [] => OK true s [] | b :: o' => OK b s o' end.
(* a data-dependent test of the source whose failure is an error return *)
Definition check {S} : M S unit := b <- flip ;; if b then ret tt else fail.
(* dereference of an optional sub-record held as a presence bit *)
Definition need {S} (present : bool) : M S unit := if present then ret tt else crash.
Definition when {S} (c : bool) (m : M S unit) : M S unit := if c then m else ret tt.

(* an error of the callee does not stop the caller (`_ = batch.Create()`) *)
Definition try {S} (m : M S unit) : M S unit :=
  fun s o => match m s o with ERR s' o' => OK tt s' o' | r => r end.

(* run [m] on a part of the state *)
Definition zoom {S T A} (g : S -> T) (u : T -> S -> S) (m : M T A) : M S A :=
  fun s o => match m (g s) o with
             | OK a t o' => OK a (u t s) o'
             | ERR t o' => ERR (u t s) o'
             | PANIC => PANIC
             end.

(* run [m] on a fresh local value; an error of [m] is an error of the caller *)
Definition local {S T A} (t0 : T) (m : M T A) : M S (A * T) :=
  fun s o => match m t0 o with
             | OK a t o' => OK (a, t) s o'
             | ERR _ o' => ERR s o'
             | PANIC => PANIC
             end.
(* … or is dropped by the caller; the local value stays as the callee left it *)
Definition local_try {S T} (t0 : T) (m : M T unit) : M S (bool * T) :=
  fun s o => match m t0 o with
             | OK _ t o' => OK (true, t) s o'
             | ERR t o' => OK (false, t) s o'
             | PANIC => PANIC
             end.

(* `for _, x := range l { f x }` without write-back *)
Fixpoint forM_ {S E} (l : list E) (f : E -> M S unit) : M S unit :=
  match l with [] => ret tt | x :: t => f x ;; forM_ t f end.

(* `for i := range l { m on l[i] }` with write-back of every element *)
Fixpoint traverse {E} (m : M E unit) (l : list E) (o : list bool) : outcome (list E) unit :=
  match l with
  | [] => OK tt [] o
  | x :: t =>
      match m x o with
      | OK _ x' o' =>
          match traverse m t o' with
          | OK _ t' o'' => OK tt (x' :: t') o''
          | ERR t' o'' => ERR (x' :: t') o''
          | PANIC => PANIC
          end
      | ERR x' o' => ERR (x' :: t) o'
      | PANIC => PANIC
      end
  end.

(* a list element that Go holds as a pointer / interface: nil dereference when absent *)
Definition on_some {T A} (m : M T A) : M (option T) A :=
  fun x o => match x with
             | None => PANIC
             | Some t => match m t o with
                         | OK a t' o' => OK a (Some t') o'
                         | ERR t' o' => ERR (Some t') o'
                         | PANIC => PANIC
                         end
             end.

(* ------------------------------------------------------------------ *)
(* Shapes *)

Inductive sec := ACK | ADV | ARC | ATX | BOC | CCD | CIE | COR | CTX | DNE | ENR | IAT
               | MTE | POP | POS | PPD | RCK | SHR | TEL | TRC | TRX | WEB | XCK | SecUnknown.
(* dynamic Go type of a Batcher: *ach.Batch, or *ach.Batch<SEC> *)
Inductive kind := KBase | KSec (s : sec).
Inductive scc := Mixed | Credits | Debits | Advices | SccOther.   (* 200 220 225 280 other *)
Inductive cat := CFwd | CNOC | CRet | CDis | CCon | COther.

Definition sec_index (s : sec) : nat :=
  match s with
  | ACK => 0 | ADV => 1 | ARC => 2 | ATX => 3 | BOC => 4 | CCD => 5 | CIE => 6 | COR => 7 | CTX => 8
  | DNE => 9 | ENR => 10 | IAT => 11 | MTE => 12 | POP => 13 | POS => 14 | PPD => 15 | RCK => 16
  | SHR => 17 | TEL => 18 | TRC => 19 | TRX => 20 | WEB => 21 | XCK => 22 | SecUnknown => 23
  end.
Definition sec_eqb (a b : sec) : bool := sec_index a =? sec_index b.
Definition scc_eqb (a b : scc) : bool :=
  match a, b with
  | Mixed, Mixed | Credits, Credits | Debits, Debits | Advices, Advices | SccOther, SccOther => true
  | _, _ => false
  end.
Definition cat_eqb (a b : cat) : bool :=
  match a, b with
  | CFwd, CFwd | CNOC, CNOC | CRet, CRet | CDis, CDis | CCon, CCon | COther, COther => true
  | _, _ => false
  end.

(* ach.NewBatch accepts the code *)
Definition sec_valid (s : sec) : bool := match s with IAT | SecUnknown => false | _ => true end.

(* EntryDetail: category, transaction code, presence of the addenda pointers; Addenda05 is a
   slice of pointers *)
Record entry := mkentry {
  e_cat : cat; e_code : nat;
  e_a02 : bool; e_a98 : bool; e_a98r : bool; e_a99 : bool; e_a99d : bool; e_a99c : bool;
  e_a05 : list bool }.
Record adv_entry := mkadv { ae_cat : cat; ae_code : nat; ae_a99 : bool }.
Record header := mkheader { h_sec : sec; h_scc : scc }.
Record batch := mkbatch {
  b_kind : kind;
  b_header : option header;
  b_control : bool; b_adv : bool; b_offset : bool;
  b_entries : list (option entry);
  b_adventries : list (option adv_entry) }.

(* IATBatchHeader: service class code; [ih_cor]: IATIndicator = "IATCOR" and SEC = "COR" *)
Record iat_header := mkih { ih_scc : scc; ih_cor : bool }.
Record iat_entry := mkie {
  ie_cat : cat; ie_code : nat;
  ie_a10 : bool; ie_a11 : bool; ie_a12 : bool; ie_a13 : bool; ie_a14 : bool; ie_a15 : bool; ie_a16 : bool;
  ie_a98 : bool; ie_a99 : bool;
  ie_a17 : list bool; ie_a18 : list bool }.
Record iat_batch := mkib { ib_header : option iat_header; ib_control : bool; ib_entries : list (option iat_entry) }.

(* File: Header, Control, ADVControl are values; Batches []Batcher; IATBatches []IATBatch (values) *)
Record file := mkfile { f_batches : list (option batch); f_iat : list iat_batch }.

Definition set_header (h : option header) (b : batch) : batch :=
  mkbatch (b_kind b) h (b_control b) (b_adv b) (b_offset b) (b_entries b) (b_adventries b).
Definition set_control (c : bool) (b : batch) : batch :=
  mkbatch (b_kind b) (b_header b) c (b_adv b) (b_offset b) (b_entries b) (b_adventries b).
Definition set_adv (c : bool) (b : batch) : batch :=
  mkbatch (b_kind b) (b_header b) (b_control b) c (b_offset b) (b_entries b) (b_adventries b).
Definition set_entries (es : list (option entry)) (b : batch) : batch :=
  mkbatch (b_kind b) (b_header b) (b_control b) (b_adv b) (b_offset b) es (b_adventries b).
Definition set_adventries (es : list (option adv_entry)) (b : batch) : batch :=
  mkbatch (b_kind b) (b_header b) (b_control b) (b_adv b) (b_offset b) (b_entries b) es.
Definition set_offset (c : bool) (b : batch) : batch :=
  mkbatch (b_kind b) (b_header b) (b_control b) (b_adv b) c (b_entries b) (b_adventries b).
Definition set_kind (k : kind) (b : batch) : batch :=
  mkbatch k (b_header b) (b_control b) (b_adv b) (b_offset b) (b_entries b) (b_adventries b).
Definition set_batches (bs : list (option batch)) (f : file) : file := mkfile bs (f_iat f).
Definition set_iat (bs : list iat_batch) (f : file) : file := mkfile (f_batches f) bs.
Definition set_ib_control (c : bool) (b : iat_batch) : iat_batch := mkib (ib_header b) c (ib_entries b).
Definition set_ib_entries (es : list (option iat_entry)) (b : iat_batch) : iat_batch := mkib (ib_header b) (ib_control b) es.
Definition set_code (c : nat) (e : entry) : entry :=
  mkentry (e_cat e) c (e_a02 e) (e_a98 e) (e_a98r e) (e_a99 e) (e_a99d e) (e_a99c e) (e_a05 e).

(* transaction codes: the credit and debit lists shared by calculateBatchAmounts, segmentFileBatchAddEntry
   and Reversal (each is checked against Gen/Tables by C11/C13; here they only steer which constructed
   batch receives an entry) *)
Definition credit_codes : list nat := [22; 21; 23; 24; 32; 31; 33; 34; 42; 41; 43; 44; 52; 51; 53; 54].
Definition debit_codes : list nat := [27; 26; 28; 29; 37; 36; 38; 39; 47; 46; 48; 49; 55; 56].
Definition mem (n : nat) (l : list nat) : bool := existsb (Nat.eqb n) l.
Definition is_credit (c : nat) : bool := mem c credit_codes.
Definition is_debit (c : nat) : bool := mem c debit_codes.
(* ADV: CreditForDebitsOriginated 81, CreditForCreditsReceived 83, CreditForCreditsRejected 85, CreditSummary 87;
   DebitForCreditsOriginated 82, DebitForDebitsReceived 84, DebitForDebitsRejectedBatches 86, DebitSummary 88 *)
Definition adv_is_credit (c : nat) : bool := mem c [81; 83; 85; 87].
Definition adv_is_debit (c : nat) : bool := mem c [82; 84; 86; 88].

Definition has05 (e : entry) : bool := match e_a05 e with [] => false | _ => true end.  (* entry.Addenda05 != nil *)

(* ------------------------------------------------------------------ *)
(* batch.go — state: one batch *)

Definition header_of : M batch header :=
  b <- get ;; match b_header b with Some h => ret h | None => crash end.
Definition need_control : M batch unit := b <- get ;; need (b_control b).
Definition need_advcontrol : M batch unit := b <- get ;; need (b_adv b).

(* Batch.Error: builds a BatchError from b.Header.BatchNumber / StandardEntryClassCode *)
Definition berr {A} : M batch A := _ <- header_of ;; fail.

(* Batch.IsADV: batch.GetHeader().StandardEntryClassCode == ADV *)
Definition is_adv : M batch bool := h <- header_of ;; ret (sec_eqb (h_sec h) ADV).

(* `for _, entry := range batch.Entries { … entry.X … }`: the first field access dereferences the element *)
Definition for_entries (body : entry -> M batch unit) : M batch unit :=
  b <- get ;; forM_ (b_entries b) (fun oe => match oe with Some e => body e | None => crash end).
Definition for_adv_entries (body : adv_entry -> M batch unit) : M batch unit :=
  b <- get ;; forM_ (b_adventries b) (fun oe => match oe with Some e => body e | None => crash end).

(* isFieldInclusion *)
Definition is_field_inclusion : M batch unit :=
  _ <- header_of ;; check ;;                                   (* batch.Header.Validate() *)
  adv <- is_adv ;;
  if negb adv then
    for_entries (fun e =>
      check ;;                                                 (* entry.Validate() *)
      when (e_a02 e) check ;;
      forM_ (e_a05 e) (fun p => need p ;; check) ;;            (* addenda05.Validate(): receiver dereferenced *)
      when (e_a98 e) check ;; when (e_a98r e) check ;; when (e_a99 e) check ;;
      when (e_a99d e) check ;; when (e_a99c e) check) ;;
    need_control ;; check                                      (* batch.Control.Validate() *)
  else
    for_adv_entries (fun a => check ;; when (ae_a99 a) check) ;;
    need_advcontrol ;; check.                                  (* batch.ADVControl.Validate() *)

(* isBatchEntryCount (entry.addendaCount tests every pointer it reads) *)
Definition is_batch_entry_count : M batch unit :=
  adv <- is_adv ;;
  if negb adv then
    for_entries (fun _ => ret tt) ;; need_control ;;
    eq <- flip ;; if eq then ret tt else (u <- flip ;; if u then berr else ret tt)
  else
    for_adv_entries (fun _ => ret tt) ;; need_advcontrol ;;
    eq <- flip ;; if eq then ret tt else (u <- flip ;; if u then berr else ret tt).

Definition is_sequence_ascending : M batch unit :=
  adv <- is_adv ;;
  when (negb adv) (for_entries (fun _ => c <- flip ;; if c then (a <- flip ;; if a then ret tt else berr) else ret tt)).

Definition is_batch_amount : M batch unit :=
  adv <- is_adv ;;
  if negb adv then
    for_entries (fun _ => ret tt) ;;                           (* calculateBatchAmounts *)
    need_control ;; (d <- flip ;; if d then ret tt else berr) ;;
    need_control ;; (c <- flip ;; if c then ret tt else berr)
  else
    for_adv_entries (fun _ => ret tt) ;;
    need_advcontrol ;; (d <- flip ;; if d then ret tt else berr) ;;
    need_advcontrol ;; (c <- flip ;; if c then ret tt else berr).

Definition calculate_entry_hash : M batch unit :=
  adv <- is_adv ;;
  if negb adv then for_entries (fun _ => ret tt) else for_adv_entries (fun _ => ret tt).

Definition is_entry_hash : M batch unit :=
  calculate_entry_hash ;;
  adv <- is_adv ;;
  if negb adv then need_control ;; (c <- flip ;; if c then ret tt else berr)
  else need_advcontrol ;; (c <- flip ;; if c then ret tt else berr).

Definition is_originator_dne : M batch unit :=
  h <- header_of ;;
  g <- flip ;;                                                  (* true: OriginatorStatusCode == 2 *)
  when (negb g && sec_eqb (h_sec h) DNE)
    (for_entries (fun _ => c <- flip ;; if c then ret tt else berr)).

Definition is_trace_number_odfi : M batch unit :=
  by_ <- flip ;;                                                (* true: BypassOriginValidation not set *)
  if negb by_ then ret tt else
  _ <- header_of ;;                                             (* batch.Header.ODFIIdentificationField() *)
  for_entries (fun _ => c <- flip ;; if c then ret tt else berr).

Definition is_addenda_sequence : M batch unit :=
  for_entries (fun e =>
    when (e_a02 e) (c <- flip ;; if c then ret tt else berr) ;;
    when (has05 e)
      ((c <- flip ;; if c then ret tt else berr) ;;
       forM_ (e_a05 e) (fun p => need p ;; (c <- flip ;; if c then ret tt else berr) ;;
                                           (c <- flip ;; if c then ret tt else berr))) ;;
    when (e_a98 e) (c <- flip ;; if c then ret tt else berr) ;;
    when (e_a98r e) (c <- flip ;; if c then ret tt else berr) ;;
    when (e_a99 e) (c <- flip ;; if c then ret tt else berr) ;;
    when (e_a99d e) (c <- flip ;; if c then ret tt else berr) ;;
    when (e_a99c e) (c <- flip ;; if c then ret tt else berr)).

(* isCategory: batch.GetEntries()[0].Category, then every entry but NOC must have that category *)
Definition is_category : M batch unit :=
  adv <- is_adv ;;
  b <- get ;;
  if negb adv then
    match b_entries b with
    | [] => crash                                              (* index out of range *)
    | None :: _ => crash
    | Some e0 :: _ =>
        when (1 <? length (b_entries b))
          (for_entries (fun e => if cat_eqb (e_cat e) CNOC then ret tt
                                 else if cat_eqb (e_cat e) (e_cat e0) then ret tt else berr))
    end
  else
    match b_adventries b with
    | [] => crash
    | None :: _ => crash
    | Some e0 :: _ =>
        when (1 <? length (b_adventries b))
          (for_adv_entries (fun e => if cat_eqb (ae_cat e) (ae_cat e0) then ret tt else berr))
    end.

(* verify *)
Definition verify : M batch unit :=
  b <- get ;;
  (match b_entries b, b_adventries b with [], [] => berr | _, _ => ret tt end) ;;
  (fun s o => match is_field_inclusion s o with
              | ERR s' o' => (berr : M batch unit) s' o'        (* batch.Error("FieldError", err) *)
              | r => r end) ;;
  adv <- is_adv ;;
  (if negb adv then
     (u <- flip ;;                                              (* true: UnequalServiceClassCode not set *)
      when u (_ <- header_of ;; need_control ;; (c <- flip ;; if c then ret tt else berr))) ;;
     _ <- header_of ;; need_control ;; (c <- flip ;; if c then ret tt else berr) ;;   (* CompanyIdentification *)
     _ <- header_of ;; need_control ;; (c <- flip ;; if c then ret tt else berr) ;;   (* ODFIIdentification *)
     _ <- header_of ;; need_control ;; (c <- flip ;; if c then ret tt else berr)      (* BatchNumber *)
   else
     (u <- flip ;;
      when u (_ <- header_of ;; need_advcontrol ;; (c <- flip ;; if c then ret tt else berr))) ;;
     _ <- header_of ;; need_advcontrol ;; (c <- flip ;; if c then ret tt else berr) ;;
     _ <- header_of ;; need_advcontrol ;; (c <- flip ;; if c then ret tt else berr)) ;;
  is_batch_entry_count ;;
  (t <- flip ;; when t is_sequence_ascending) ;;                (* true: CustomTraceNumbers not set *)
  is_batch_amount ;;
  is_entry_hash ;;
  is_originator_dne ;;
  (t <- flip ;; when t (is_trace_number_odfi ;; is_addenda_sequence)) ;;
  is_category.

(* addendaFieldInclusion{,Forward,NOC,Return} *)
Definition sec_group (s : sec) : nat :=
  match s with
  | MTE | POS | SHR => 1
  | ACK | ATX | CCD | CIE | CTX | DNE | ENR | WEB | PPD | TRX => 2
  | ARC | BOC | COR | POP | RCK | TEL | TRC | XCK => 3
  | _ => 0
  end.

Definition inclusion_forward (e : entry) : M batch unit :=
  h <- header_of ;;
  (match sec_group (h_sec h) with
   | 1 => if negb (e_a02 e) then berr else if has05 e then berr else ret tt
   | 2 => if e_a02 e then berr else ret tt
   | 3 => if e_a02 e then berr else if has05 e then berr else ret tt
   | _ => ret tt
   end) ;;
  when (negb (sec_eqb (h_sec h) COR)) (if e_a98 e || e_a98r e then berr else ret tt) ;;
  if e_a99 e then berr else ret tt.

Definition inclusion_noc (e : entry) : M batch unit :=
  if e_a02 e then berr else
  if has05 e then berr else
  h <- header_of ;;
  when (negb (sec_eqb (h_sec h) COR)) (if e_a98 e || e_a98r e then berr else ret tt) ;;
  if e_a99 e then berr else ret tt.

Definition inclusion_return (e : entry) : M batch unit :=
  if e_a02 e then berr else
  when (has05 e) (h <- header_of ;; if sec_eqb (h_sec h) CTX then ret tt else berr) ;;
  if e_a98 e || e_a98r e then berr else
  if negb (e_a99 e) && negb (e_a99d e) && negb (e_a99c e)
  then (c <- flip ;; if c then ret tt else berr)                (* IndividualName == "OFFSET" *)
  else ret tt.

Definition addenda_inclusion (e : entry) : M batch unit :=
  match e_cat e with
  | CFwd => inclusion_forward e
  | CNOC => inclusion_noc e
  | CRet | CDis | CCon => inclusion_return e
  | COther => ret tt
  end.

(* ValidAmountForCodes *)
Definition valid_amount (e : entry) : M batch unit :=
  c <- flip ;;                                                  (* true: AllowInvalidAmounts not set *)
  if negb c then ret tt else
  if e_a98 e || e_a98r e then check else
  if e_a99 e || e_a99c e || e_a99d e then ret tt else
  np <- flip ;;                                                 (* true: not a prenote *)
  if negb np then check else
  nz <- flip ;;                                                 (* true: Amount != 0 *)
  if nz then ret tt else
  na <- flip ;;                                                 (* true: AllowZeroEntryAmount not set *)
  if negb na then ret tt else
  _ <- header_of ;; check.                                      (* switch batch.Header.StandardEntryClassCode *)

(* ValidTranCodeForServiceClassCode *)
Definition valid_trancode (e : entry) : M batch unit :=
  (c <- flip ;; if c then ret tt else berr) ;;                  (* ADV transaction codes *)
  c <- flip ;;                                                  (* true: no CheckTransactionCode override *)
  if negb c then ret tt else
  _ <- header_of ;; (c <- flip ;; if c then ret tt else berr).

(* service class codes a batch type rejects before it looks at its entries *)
Definition scc_allowed (s : sec) (c : scc) : bool :=
  match s with
  | ARC | BOC | POP | RCK | TRC | TRX | XCK => negb (scc_eqb c Credits)
  | CIE => negb (scc_eqb c Debits)
  | SHR => match c with Mixed | Credits | Debits => true | _ => false end
  | _ => true
  end.

(* Batch<SEC>.Validate for the standard types (everything but ADV) *)
Definition validate_std (s : sec) : M batch unit :=
  verify ;;
  when (sec_eqb s COR)                                          (* isAddenda98 *)
    (for_entries (fun e => if negb (e_a98 e) && negb (e_a98r e) then berr else ret tt)) ;;
  h <- header_of ;;
  (if sec_eqb (h_sec h) s then ret tt else berr) ;;
  when (sec_eqb s COR)
    (need_control ;; (c <- flip ;; if c then ret tt else berr) ;;
     need_control ;; (c <- flip ;; if c then ret tt else berr)) ;;
  (if scc_allowed s (h_scc h) then ret tt else berr) ;;
  (c <- flip ;; if c then ret tt else berr) ;;                  (* CompanyEntryDescription (ENR, RCK) *)
  for_entries (fun e =>
    (c <- flip ;; if c then ret tt else berr) ;;                (* type specific checks on the entry *)
    valid_amount e ;;
    valid_trancode e ;;
    addenda_inclusion e ;;
    when (match s with MTE | POS | SHR => cat_eqb (e_cat e) CFwd | _ => false end)
      (need (e_a02 e) ;; (c <- flip ;; if c then ret tt else berr)) ;;   (* entry.Addenda02.TerminalState *)
    (c <- flip ;; if c then ret tt else berr)).

(* BatchADV.Validate *)
Definition validate_adv : M batch unit :=
  h <- header_of ;;
  (if sec_eqb (h_sec h) ADV then ret tt else berr) ;;
  (if scc_eqb (h_scc h) Advices then ret tt else berr) ;;
  (c <- flip ;; if c then ret tt else berr) ;;                  (* OriginatorStatusCode *)
  verify ;;
  for_adv_entries (fun a =>
    when (cat_eqb (ae_cat a) CFwd)
      ((c <- flip ;; if c then ret tt else berr) ;; if ae_a99 a then berr else ret tt)).

(* Batcher.Validate by dynamic type; Batch.Validate returns an error *)
Definition batch_validate : M batch unit :=
  b <- get ;;
  match b_kind b with
  | KBase => fail
  | KSec ADV => validate_adv
  | KSec s => validate_std s
  end.

(* upsertOffsets; the offset entries it appends are NewEntryDetail values with the category of Entries[0] *)
Definition offset_entry (c : cat) (code : nat) : option entry := Some (mkentry c code false false false false false false []).

Fixpoint remove_offsets (l : list (option entry)) : M batch (list (option entry)) :=
  match l with
  | [] => ret []
  | None :: _ => crash                                          (* b.Entries[i].IndividualName *)
  | Some e :: t =>
      keep <- flip ;;                                           (* true: not an OFFSET entry *)
      if keep then (r <- remove_offsets t ;; ret (Some e :: r))
      else need_control ;; remove_offsets t                     (* b.Control.… -= …; entry removed *)
  end.

Definition upsert_offsets : M batch unit :=
  b <- get ;;
  if negb (b_offset b) then ret tt else
  adv <- is_adv ;;
  if adv then fail else
  check ;;                                                      (* CheckRoutingNumber(b.offset.RoutingNumber) *)
  es <- remove_offsets (b_entries b) ;;
  modify (set_entries es) ;;
  check ;;                                                      (* b.offset.AccountType.validate() *)
  (* createOffsetEntryDetail: batch.Entries[0].Category under len > 0; lastTraceNumber: entries[len-1].TraceNumber *)
  c0 <- (match es with [] => ret CFwd | None :: _ => crash | Some e :: _ => ret (e_cat e) end) ;;
  (match last es (Some (mkentry CFwd 0 false false false false false false [])) with None => crash | Some _ => ret tt end) ;;
  need_control ;;                                               (* debitED.Amount = b.Control.TotalCreditEntryDollarAmount *)
  hasD <- flip ;;                                               (* true: no debit offset needed (amount 0) *)
  need_control ;;
  hasC <- flip ;;
  when (negb hasD) (modify (fun b => set_entries (b_entries b ++ [offset_entry c0 27]) b) ;; need_control) ;;
  when (negb hasC) (modify (fun b => set_entries (b_entries b ++ [offset_entry c0 22]) b) ;; need_control) ;;
  h <- header_of ;;                                             (* b.Header.ServiceClassCode = MixedDebitsAndCredits *)
  modify (set_header (Some (mkheader (h_sec h) Mixed))) ;;
  need_control ;;
  calculate_entry_hash.

(* build *)
Definition build : M batch unit :=
  _ <- header_of ;; check ;;                                    (* batch.Header.Validate() *)
  b <- get ;;
  (match b_entries b, b_adventries b with [], [] => berr | _, _ => ret tt end) ;;
  adv <- is_adv ;;
  (if negb adv then
     for_entries (fun e =>
       check ;;                                                 (* Atoi(entry.TraceNumberField()[:8]) *)
       _ <- header_of ;; check ;;                               (* batch.Header.ODFIIdentificationField() *)
       (d <- flip ;; when (negb d) (_ <- header_of ;; ret tt)) ;;   (* entry.SetTraceNumber(batch.Header.ODFIIdentification, …) *)
       forM_ (e_a05 e) (fun p => need p)) ;;                    (* a.SequenceNumber = addendaSeq *)
     _ <- header_of ;;                                          (* bc.… = batch.Header.… *)
     calculate_entry_hash ;;
     for_entries (fun _ => ret tt) ;;                           (* calculateBatchAmounts *)
     modify (set_control true)
   else
     for_adv_entries (fun _ => c <- flip ;; if c then ret tt else berr) ;;   (* seq > 9999 *)
     _ <- header_of ;;
     calculate_entry_hash ;;
     for_adv_entries (fun _ => ret tt) ;;
     modify (set_adv true)) ;;
  upsert_offsets.

(* Batcher.Create by dynamic type *)
Definition batch_create : M batch unit :=
  b <- get ;;
  match b_kind b with
  | KBase => fail
  | _ => build ;; batch_validate
  end.

(* Batch.Category: reads entry.Category of the entries until a Return / NOC is found *)
Definition batch_category : M batch unit :=
  b <- get ;;
  (fix go (l : list (option entry)) : M batch unit :=
     match l with
     | [] => for_adv_entries (fun _ => ret tt)
     | None :: _ => crash
     | Some e :: t => match e_cat e with CRet | CNOC => ret tt | _ => go t end
     end) (b_entries b).

(* ------------------------------------------------------------------ *)
(* iatBatch.go — state: one IAT batch *)

Definition ih_of : M iat_batch iat_header :=
  b <- get ;; match ib_header b with Some h => ret h | None => crash end.
Definition need_ibcontrol : M iat_batch unit := b <- get ;; need (ib_control b).
Definition iberr {A} : M iat_batch A := _ <- ih_of ;; fail.     (* IATBatch.Error reads iatBatch.Header.… *)
Definition for_iat_entries (body : iat_entry -> M iat_batch unit) : M iat_batch unit :=
  b <- get ;; forM_ (ib_entries b) (fun oe => match oe with Some e => body e | None => crash end).

Definition ie_mandatory (e : iat_entry) : bool :=
  ie_a10 e && ie_a11 e && ie_a12 e && ie_a13 e && ie_a14 e && ie_a15 e && ie_a16 e.

(* addendaFieldInclusion: fieldError, not iatBatch.Error *)
Definition iat_addenda_inclusion (e : iat_entry) : M iat_batch unit :=
  if ie_a98 e then ret tt else if ie_mandatory e then ret tt else fail.

Definition iat_is_field_inclusion : M iat_batch unit :=
  _ <- ih_of ;; check ;;                                        (* iatBatch.Header.Validate() *)
  for_iat_entries (fun e =>
    check ;;                                                    (* entry.Validate() *)
    iat_addenda_inclusion e ;;
    check ;;                                                    (* Addenda10..16.Validate(): nil receivers accepted *)
    forM_ (ie_a17 e) (fun p => need p ;; check) ;;
    forM_ (ie_a18 e) (fun p => need p ;; check) ;;
    when (cat_eqb (ie_cat e) CNOC) (if ie_a98 e then check else fail) ;;
    when (cat_eqb (ie_cat e) CRet) (if ie_a99 e then check else fail)) ;;
  need_ibcontrol ;; check.

Definition iat_is_batch_entry_count : M iat_batch unit :=
  for_iat_entries (fun _ => ret tt) ;;
  need_ibcontrol ;;
  eq <- flip ;; if eq then ret tt else (u <- flip ;; if u then iberr else ret tt).

Definition iat_is_addenda_sequence : M iat_batch unit :=
  b <- get ;;
  (fix go (l : list (option iat_entry)) : M iat_batch unit :=
     match l with
     | [] => ret tt
     | None :: _ => crash
     | Some e :: t =>
         (c <- flip ;; if c then ret tt else iberr) ;;          (* AddendaRecordIndicator != 1 *)
         if ie_a98 e then ret tt else                           (* isCorrection: return nil *)
         need (ie_a10 e) ;; (c <- flip ;; if c then ret tt else iberr) ;;
         need (ie_a11 e) ;; (c <- flip ;; if c then ret tt else iberr) ;;
         need (ie_a12 e) ;; (c <- flip ;; if c then ret tt else iberr) ;;
         need (ie_a13 e) ;; (c <- flip ;; if c then ret tt else iberr) ;;
         need (ie_a14 e) ;; (c <- flip ;; if c then ret tt else iberr) ;;
         need (ie_a15 e) ;; (c <- flip ;; if c then ret tt else iberr) ;;
         need (ie_a16 e) ;; (c <- flip ;; if c then ret tt else iberr) ;;
         forM_ (ie_a17 e) (fun p => need p ;; (c <- flip ;; if c then ret tt else iberr)) ;;
         forM_ (ie_a18 e) (fun p => need p ;; (c <- flip ;; if c then ret tt else iberr)) ;;
         go t
     end) (ib_entries b).

Definition iat_is_category : M iat_batch unit :=
  b <- get ;;
  match ib_entries b with
  | [] => crash
  | None :: _ => crash
  | Some e0 :: t =>
      forM_ t (fun oe => match oe with
                         | None => crash
                         | Some e => if cat_eqb (ie_cat e) CNOC then ret tt
                                     else if cat_eqb (ie_cat e) (ie_cat e0) then ret tt else iberr
                         end)
  end.

Definition iat_verify : M iat_batch unit :=
  b <- get ;;
  (match ib_entries b with [] => iberr | _ => ret tt end) ;;
  (fun s o => match iat_is_field_inclusion s o with
              | ERR s' o' => (iberr : M iat_batch unit) s' o'
              | r => r end) ;;
  (u <- flip ;; when u (_ <- ih_of ;; need_ibcontrol ;; (c <- flip ;; if c then ret tt else iberr))) ;;
  _ <- ih_of ;; need_ibcontrol ;; (c <- flip ;; if c then ret tt else iberr) ;;
  _ <- ih_of ;; need_ibcontrol ;; (c <- flip ;; if c then ret tt else iberr) ;;
  (u <- flip ;; when u (need_ibcontrol ;; check)) ;;             (* Control.isAlphanumeric(Control.CompanyIdentification) *)
  iat_is_batch_entry_count ;;
  (t <- flip ;; when t (for_iat_entries (fun _ => c <- flip ;; if c then ret tt else iberr))) ;;  (* isSequenceAscending *)
  (for_iat_entries (fun _ => ret tt) ;;                          (* isBatchAmount *)
   need_ibcontrol ;; (c <- flip ;; if c then ret tt else iberr) ;;
   need_ibcontrol ;; (c <- flip ;; if c then ret tt else iberr)) ;;
  (for_iat_entries (fun _ => ret tt) ;; need_ibcontrol ;; (c <- flip ;; if c then ret tt else iberr)) ;;   (* isEntryHash *)
  (t <- flip ;;
   when t ((by_ <- flip ;;                                       (* isTraceNumberODFI *)
            when by_ (for_iat_entries (fun _ => _ <- ih_of ;; (c <- flip ;; if c then ret tt else iberr)))) ;;
           iat_is_addenda_sequence)) ;;
  iat_is_category.

Definition iat_validate : M iat_batch unit :=
  iat_verify ;;
  for_iat_entries (fun e =>
    (c <- flip ;; if c then ret tt else iberr) ;;                (* len(Addenda17) > 2, len(Addenda18) > 5 *)
    h <- ih_of ;;
    (if scc_eqb (ih_scc h) Advices then iberr else ret tt) ;;
    when (ie_a98 e || cat_eqb (ie_cat e) CNOC)
      (h <- ih_of ;; (if ih_cor h then ret tt else iberr) ;; (c <- flip ;; if c then ret tt else iberr))).

Definition iat_build : M iat_batch unit :=
  _ <- ih_of ;; check ;;
  b <- get ;;
  (match ib_entries b with [] => iberr | _ => ret tt end) ;;
  for_iat_entries (fun e =>
    iat_addenda_inclusion e ;;
    check ;;
    _ <- ih_of ;; check ;;
    (d <- flip ;; when (negb d) (_ <- ih_of ;; ret tt)) ;;
    forM_ (ie_a17 e) (fun p => need p) ;;
    forM_ (ie_a18 e) (fun p => need p)) ;;
  (* originalControl := GetControl(); nil tested; new control installed *)
  modify (set_ib_control true) ;;
  _ <- ih_of ;;
  for_iat_entries (fun _ => ret tt) ;;                           (* calculateEntryHash, calculateBatchAmounts *)
  for_iat_entries (fun _ => ret tt) ;; need_ibcontrol.           (* isBatchEntryCount: error ignored *)

Definition iat_create : M iat_batch unit := iat_build ;; iat_validate.

(* ------------------------------------------------------------------ *)
(* file.go — state: the file *)

(* NewBatchHeader(): SEC "", service class 0 *)
Definition blank_header : header := mkheader SecUnknown SccOther.

(* File.IsADV: installs a header / control where GetHeader() / GetControl() is nil, up to the first ADV batch *)
Fixpoint is_adv_loop (l : list (option batch)) (o : list bool) : outcome (list (option batch)) bool :=
  match l with
  | [] => OK false [] o
  | None :: _ => PANIC                                          (* f.Batches[i].GetHeader() on a nil Batcher *)
  | Some b :: t =>
      let h := match b_header b with Some h => h | None => blank_header end in
      let b1 := set_control true (set_header (Some h) b) in
      if sec_eqb (h_sec h) ADV then OK true (Some b1 :: t) o
      else match is_adv_loop t o with
           | OK r t' o' => OK r (Some b1 :: t') o'
           | ERR t' o' => ERR (Some b1 :: t') o'
           | PANIC => PANIC
           end
  end.
Definition file_is_adv : M file bool := zoom f_batches set_batches is_adv_loop.

(* `for _, b := range f.Batches { m on b }` *)
Definition each_batch (m : M batch unit) : M file unit := zoom f_batches set_batches (traverse (on_some m)).
Definition each_iat (m : M iat_batch unit) : M file unit := zoom f_iat set_iat (traverse m).

Definition is_entry_addenda_count (adv : bool) : M file unit :=
  (if negb adv then each_batch need_control ;; each_iat need_ibcontrol
   else each_batch need_advcontrol) ;;
  eq <- flip ;; if eq then ret tt else (u <- flip ;; if u then fail else ret tt).

Definition is_file_amount (adv : bool) : M file unit :=
  (if negb adv then each_batch (need_control ;; need_control) ;; each_iat (need_ibcontrol ;; need_ibcontrol)
   else each_batch (need_advcontrol ;; need_advcontrol)) ;;
  check ;; check.

Definition file_entry_hash (adv : bool) : M file unit :=
  (if negb adv then each_batch need_control ;; each_iat need_ibcontrol
   else each_batch need_advcontrol) ;;
  check.

Definition file_sequence_ascending : M file unit :=
  each_batch (_ <- header_of ;; c <- flip ;; if c then (a <- flip ;; if a then ret tt else fail) else ret tt).

(* ValidateWith (Validate = ValidateWith(f.validateOpts)) *)
Definition file_validate : M file unit :=
  run <- flip ;;                                                (* true: SkipAll not set *)
  if negb run then ret tt else
  (h <- flip ;; when h check) ;;                                (* Header.ValidateWith unless AllowMissingFileHeader *)
  adv <- file_is_adv ;;
  if negb adv then
    check ;;                                                    (* Control.BatchCount *)
    each_batch batch_validate ;;
    (c <- flip ;; when c check) ;;                              (* Control.Validate unless AllowMissingFileControl *)
    is_entry_addenda_count false ;;
    is_file_amount false ;;
    (s <- flip ;; when s file_sequence_ascending) ;;
    file_entry_hash false
  else
    each_batch (h <- header_of ;; if sec_eqb (h_sec h) ADV then ret tt else fail) ;;
    check ;;
    (c <- flip ;; when c check) ;;
    is_entry_addenda_count true ;;
    is_file_amount true ;;
    file_entry_hash true.

Definition create_file_adv : M file unit :=
  each_batch (h <- header_of ;;
              (if sec_eqb (h_sec h) ADV then ret tt else fail) ;;
              _ <- header_of ;;                                 (* f.Batches[i].GetHeader().BatchNumber <= 1 *)
              (r <- flip ;; when (negb r) (_ <- header_of ;; need_advcontrol)) ;;
              need_advcontrol ;; need_advcontrol ;; need_advcontrol ;; need_advcontrol ;; need_advcontrol).

(* Create *)
Definition file_create : M file unit :=
  run <- flip ;;
  when run
    ((h <- flip ;; when h check) ;;
     z <- flip ;;                                               (* true: AllowZeroBatches not set *)
     f <- get ;;
     when z (match f_batches f, f_iat f with [], [] => fail | _, _ => ret tt end)) ;;
  adv <- file_is_adv ;;
  if negb adv then
    each_batch (_ <- header_of ;;
                (r <- flip ;; when (negb r) (_ <- header_of ;; need_control)) ;;
                need_control ;; need_control ;; need_control ;; need_control ;; need_control) ;;
    each_iat (_ <- ih_of ;;
              (r <- flip ;; when (negb r) (_ <- ih_of ;; need_ibcontrol)) ;;
              need_ibcontrol ;; need_ibcontrol ;; need_ibcontrol ;; need_ibcontrol ;; need_ibcontrol)
  else create_file_adv.

(* writer.go: Writer.Write; every writeLine may return the error of the io.Writer.
   writeLine(x) calls x.String(): the String methods of headers, controls and entries read their
   receiver, those of the addenda records return "" for a nil receiver. *)
Definition write_batch (adv : bool) : M file unit :=
  each_batch (
    _ <- header_of ;; check ;;                                  (* writeLine(batch.GetHeader()) *)
    (if negb adv then for_entries (fun _ => check ;; check)
     else for_adv_entries (fun _ => check ;; check)) ;;
    h <- header_of ;;                                           (* batch.GetHeader().StandardEntryClassCode != ADV *)
    (if negb (sec_eqb (h_sec h) ADV) then need_control else need_advcontrol) ;; check).

Definition write_iat : M file unit :=
  each_iat (_ <- ih_of ;; check ;; for_iat_entries (fun _ => check ;; check) ;; need_ibcontrol ;; check).

Definition file_write (bypass : bool) : M file unit :=
  when (negb bypass) file_validate ;;
  check ;;                                                      (* writeLine(&file.Header) *)
  adv <- file_is_adv ;;
  write_batch adv ;;
  write_iat ;;
  check ;; check.

(* MarshalJSON: json.Marshal of the struct; encoding/json writes null for nil pointers and nil
   interfaces (contract of the library) *)
Definition file_marshal : M file unit := check.

(* reversal.go *)
Definition reverse_code (c : nat) : nat :=
  if Nat.eqb c 52 then 55 else if is_credit c then c + 5
  else if Nat.eqb c 55 then 52 else if is_debit c then c - 5 else c.

Fixpoint reverse_entries (l : list (option entry)) : M batch (list (option entry) * (bool * bool)) :=
  match l with
  | [] => ret ([], (false, false))
  | None :: _ => crash                                          (* entries[j].TransactionCode *)
  | Some e :: t =>
      r <- reverse_entries t ;;
      let '(t', (hc, hd)) := r in
      let c := e_code e in
      ret (Some (set_code (reverse_code c) e) :: t', (hc || is_debit c, hd || is_credit c))
  end.

Definition reversal_batch : M batch unit :=
  h <- header_of ;;                                             (* bh.CompanyEntryDescription = "REVERSAL" *)
  b <- get ;;
  r <- reverse_entries (b_entries b) ;;
  let '(es, (has_credits, has_debits)) := r in
  modify (set_entries es) ;;
  modify (set_control true) ;;                                  (* bc == nil → NewBatchControl(); SetControl(bc) *)
  let scc' := if has_credits && has_debits then Mixed else if has_debits then Debits
              else if has_credits then Credits else h_scc h in
  modify (set_header (Some (mkheader (h_sec h) scc'))) ;;
  b' <- get ;;
  match b_kind b' with KBase => build | _ => ret tt end.        (* type assertion to *Batch → bb.build() *)

Definition file_reversal : M file unit := each_batch reversal_batch ;; file_create.

(* Batch.Create on every non-nil batch of the file (what a caller tabulating a file does); an error
   of one batch does not stop the caller *)
Definition each_present_batch (m : M batch unit) : M file unit :=
  zoom f_batches set_batches
    (traverse (fun x o => match x with None => OK tt None o | Some _ => on_some m x o end)).
Definition batches_create : M file unit := each_present_batch (try batch_create) ;; each_iat (try iat_create).
Definition batches_validate : M file unit := each_present_batch (try batch_validate) ;; each_iat (try iat_validate).

(* ------------------------------------------------------------------ *)
(* NewBatch / AddBatch and the operations that build new files *)

(* NewBatch(bh): nil for IAT and unknown codes; NewBatchADV installs the ADV control, the others the BatchControl *)
Definition new_batch (h : header) : option batch :=
  if sec_valid (h_sec h) then
    Some (mkbatch (KSec (h_sec h)) (Some h) (negb (sec_eqb (h_sec h) ADV)) (sec_eqb (h_sec h) ADV) false [] [])
  else None.

Definition new_file : file := mkfile [] [].

(* File.AddBatch: nil test, then batch.Category() *)
Definition add_batch (ob : option batch) : M file unit :=
  match ob with
  | None => ret tt
  | Some b =>
      r <- local b batch_category ;;
      modify (fun f => set_batches (f_batches f ++ [Some (snd r)]) f)
  end.

(* NewIATBatch(bh): header (a fresh one when nil) and control installed *)
Definition new_iat_batch (h : iat_header) : iat_batch := mkib (Some h) true [].

(* File.SegmentFile *)
Definition segment_std_batch (b : batch) (h : header) (cf df : file) : M file (file * file) :=
  (* creditBatch, _ = NewBatch(cbh); debitBatch, _ = NewBatch(dbh) *)
  let cb0 := new_batch (mkheader (h_sec h) Credits) in
  let db0 := new_batch (mkheader (h_sec h) Debits) in
  r <- (fix go (l : list (option entry)) (cb db : option batch) : M file (option batch * option batch) :=
          match l with
          | [] => ret (cb, db)
          | None :: _ => crash                                  (* entry.TransactionCode *)
          | Some e :: t =>
              if is_credit (e_code e) then
                match cb with None => fail | Some c => go t (Some (set_entries (b_entries c ++ [Some e]) c)) db end
              else if is_debit (e_code e) then
                match db with None => fail | Some d => go t cb (Some (set_entries (b_entries d ++ [Some e]) d)) end
              else go t cb db
          end) (b_entries b) cb0 db0 ;;
  let '(cb, db) := r in
  cf' <- (match cb with
          | Some c => match b_entries c with
                      | [] => ret cf
                      | _ => r <- local_try c batch_create ;; r2 <- local cf (add_batch (Some (snd r))) ;; ret (snd r2)
                      end
          | None => ret cf
          end) ;;
  df' <- (match db with
          | Some d => match b_entries d with
                      | [] => ret df
                      | _ => r <- local_try d batch_create ;; r2 <- local df (add_batch (Some (snd r))) ;; ret (snd r2)
                      end
          | None => ret df
          end) ;;
  ret (cf', df').

Definition segment_adv_batch (b : batch) (h : header) (cf df : file) : M file (file * file) :=
  let cb0 := new_batch (mkheader (h_sec h) Advices) in
  let db0 := new_batch (mkheader (h_sec h) Advices) in
  r <- (fix go (l : list (option adv_entry)) (cb db : option batch) : M file (option batch * option batch) :=
          match l with
          | [] => ret (cb, db)
          | None :: _ => crash
          | Some e :: t =>
              if adv_is_credit (ae_code e) then
                match cb with None => fail | Some c => go t (Some (set_adventries (b_adventries c ++ [Some e]) c)) db end
              else if adv_is_debit (ae_code e) then
                match db with None => fail | Some d => go t cb (Some (set_adventries (b_adventries d ++ [Some e]) d)) end
              else go t cb db
          end) (b_adventries b) cb0 db0 ;;
  let '(cb, db) := r in
  cf' <- (match cb with
          | Some c => match b_adventries c with
                      | [] => ret cf
                      | _ => r <- local_try c batch_create ;; r2 <- local cf (add_batch (Some (snd r))) ;; ret (snd r2)
                      end
          | None => ret cf
          end) ;;
  df' <- (match db with
          | Some d => match b_adventries d with
                      | [] => ret df
                      | _ => r <- local_try d batch_create ;; r2 <- local df (add_batch (Some (snd r))) ;; ret (snd r2)
                      end
          | None => ret df
          end) ;;
  ret (cf', df').

Fixpoint segment_batches (l : list (option batch)) (cf df : file) : M file (file * file) :=
  match l with
  | [] => ret (cf, df)
  | None :: _ => crash                                          (* batch.GetHeader() *)
  | Some b :: t =>
      match b_header b with
      | None => crash                                           (* bh.StandardEntryClassCode *)
      | Some h =>
          r <- (if sec_eqb (h_sec h) ADV then
                  match h_scc h with
                  | Advices => segment_adv_batch b h cf df
                  | _ => ret (cf, df)
                  end
                else
                  match h_scc h with
                  | Mixed => segment_std_batch b h cf df
                  | Credits => r <- local cf (add_batch (Some b)) ;; ret (snd r, df)
                  | Debits => r <- local df (add_batch (Some b)) ;; ret (cf, snd r)
                  | _ => ret (cf, df)
                  end) ;;
          segment_batches t (fst r) (snd r)
      end
  end.

Definition add_iat (b : iat_batch) (f : file) : file := set_iat (f_iat f ++ [b]) f.

Fixpoint segment_iat (l : list iat_batch) (cf df : file) : M file (file * file) :=
  match l with
  | [] => ret (cf, df)
  | b :: t =>
      match ib_header b with
      | None => crash                                           (* IATBh.ServiceClassCode *)
      | Some h =>
          r <- (match ih_scc h with
                | Mixed =>
                    let cb0 := new_iat_batch (mkih Credits (ih_cor h)) in
                    let db0 := new_iat_batch (mkih Debits (ih_cor h)) in
                    r <- (fix go (l : list (option iat_entry)) (cb db : iat_batch) : M file (iat_batch * iat_batch) :=
                            match l with
                            | [] => ret (cb, db)
                            | None :: _ => crash                (* IATEntry.TraceNumber = "" *)
                            | Some e :: t =>
                                if is_credit (ie_code e) then go t (set_ib_entries (ib_entries cb ++ [Some e]) cb) db
                                else if is_debit (ie_code e) then go t cb (set_ib_entries (ib_entries db ++ [Some e]) db)
                                else go t cb db
                            end) (ib_entries b) cb0 db0 ;;
                    let '(cb, db) := r in
                    cf' <- (match ib_entries cb with
                            | [] => ret cf
                            | _ => r <- local_try cb iat_create ;; ret (add_iat (snd r) cf)
                            end) ;;
                    df' <- (match ib_entries db with
                            | [] => ret df
                            | _ => r <- local_try db iat_create ;; ret (add_iat (snd r) df)
                            end) ;;
                    ret (cf', df')
                | Credits => ret (add_iat b cf, df)
                | Debits => ret (cf, add_iat b df)
                | _ => ret (cf, df)
                end) ;;
          segment_iat t (fst r) (snd r)
      end
  end.

Definition nonempty_file (f : file) : bool :=
  match f_batches f, f_iat f with [], [] => false | _, _ => true end.

Definition file_segment : M file (file * file) :=
  file_validate ;;
  f <- get ;;
  r <- segment_batches (f_batches f) new_file new_file ;;
  r <- segment_iat (f_iat f) (fst r) (snd r) ;;
  c <- (if nonempty_file (fst r) then x <- local (fst r) (file_create ;; file_validate) ;; ret (snd x) else ret (fst r)) ;;
  d <- (if nonempty_file (snd r) then x <- local (snd r) (file_create ;; file_validate) ;; ret (snd x) else ret (snd r)) ;;
  ret (c, d).

(* file_flattener.go: Flatten.  A "mergeable" is a batch or an IAT batch; sort.Slice calls the
   comparison (GetEntryCount: len(b.batcher.GetEntries())) only for slices of two or more elements. *)
Definition same_header (a b : batch) : bool :=
  match b_header a, b_header b with
  | Some x, Some y => sec_eqb (h_sec x) (h_sec y) && scc_eqb (h_scc x) (h_scc y)
  | _, _ => false
  end.

(* Consume into the first flattened batch with the same header the oracle allows (header signatures and
   trace numbers are data), else Copy() *)
Fixpoint consume_into (b : batch) (outs : list batch) : M file (option (list batch)) :=
  match outs with
  | [] => ret None
  | x :: t =>
      if same_header b x then
        m <- flip ;;                                            (* true: signatures differ or trace numbers collide *)
        if m then (r <- consume_into b t ;; ret (option_map (cons x) r))
        else ret (Some (set_adventries (b_adventries x ++ b_adventries b)
                          (set_entries (b_entries x ++ filter (fun e => match e with Some _ => true | None => false end) (b_entries b)) x) :: t))
      else (r <- consume_into b t ;; ret (option_map (cons x) r))
  end.

Fixpoint flatten_batches (l : list (option batch)) (outs : list batch) : M file (list batch) :=
  match l with
  | [] => ret outs
  | None :: _ => crash                                          (* b.batcher.GetHeader() *)
  | Some b :: t =>
      match b_header b with
      | None => crash                                           (* BatchHeader.String() *)
      | Some h =>
          nomatch <- flip ;;                                    (* true: no flattened batch has this header signature *)
          r <- (if nomatch || negb (existsb (same_header b) outs) then ret None
                else
                  (* canMerge → GetTraceNumbers: entry.TraceNumber of every entry *)
                  forM_ (b_entries b) (fun oe => match oe with None => crash | Some _ => ret tt end) ;;
                  consume_into b outs) ;;
          (* AddADVEntry(advEntries[i]) reads entry.Category *)
          forM_ (b_adventries b) (fun oe => match oe with None => crash | Some _ => ret tt end) ;;
          match r with
          | Some outs' => flatten_batches t outs'
          | None =>
              (* Copy(): NewBatch(&header) — error dropped — then Consume dereferences the new Batcher *)
              match new_batch h with
              | None => crash
              | Some nb =>
                  let nb' := set_adventries (b_adventries b)
                               (set_entries (filter (fun e => match e with Some _ => true | None => false end) (b_entries b)) nb) in
                  flatten_batches t (outs ++ [nb'])
              end
          end
      end
  end.

Fixpoint flatten_iat (l : list iat_batch) (outs : list iat_batch) : M file (list iat_batch) :=
  match l with
  | [] => ret outs
  | b :: t =>
      match ib_header b with
      | None => crash                                           (* b.iatBatch.Header.String() *)
      | Some h =>
          (* Consume: m.iatBatch.AddEntry(entry) reads entry.Category *)
          forM_ (ib_entries b) (fun oe => match oe with None => crash | Some _ => ret tt end) ;;
          flatten_iat t (outs ++ [mkib (Some h) true (ib_entries b)])
      end
  end.

Definition file_flatten : M file file :=
  f <- get ;;
  (* sort.Slice(originalBatches, GetEntryCount) *)
  when (1 <? length (f_batches f) + length (f_iat f))
    (forM_ (f_batches f) (fun ob => match ob with None => crash | Some _ => ret tt end)) ;;
  outs <- flatten_batches (f_batches f) [] ;;
  iouts <- flatten_iat (f_iat f) [] ;;
  (* AddToFile: Create() of every flattened batch; on error the batch is not added *)
  nf <- (fix go (l : list batch) (nf : file) : M file file :=
           match l with
           | [] => ret nf
           | b :: t =>
               r <- local_try b batch_create ;;
               if fst r then (r2 <- local nf (add_batch (Some (snd r))) ;; go t (snd r2)) else go t nf
           end) outs new_file ;;
  nf <- (fix go (l : list iat_batch) (nf : file) : M file file :=
           match l with
           | [] => ret nf
           | b :: t =>
               r <- local_try b iat_create ;;
               if fst r then go t (add_iat (snd r) nf) else go t nf
           end) iouts nf ;;
  r <- local nf (file_create ;; file_validate) ;;
  check ;; check ;; check ;;                                    (* sanity checks on the (value) file controls *)
  ret (snd r).

(* merge.go: MergeFiles(files).  State: the list of incoming files (nil elements allowed). *)
Fixpoint merge_add (l : list (option batch)) (outs : list batch) : M (list (option file)) (list batch) :=
  match l with
  | [] => ret outs
  | None :: _ => crash                                          (* incoming.Batches[j].GetHeader() *)
  | Some b :: t =>
      match b_header b with
      | None => fail                                            (* "batch[%d] has nil BatchHeader" *)
      | Some h =>
          forM_ (b_entries b) (fun oe => match oe with None => crash | Some _ => ret tt end) ;;   (* entries[m].TraceNumber *)
          match b_entries b with
          | [] => merge_add t outs
          | es => merge_add t (outs ++ [mkbatch (KSec (h_sec h)) (Some h) true false false es []])
          end
      end
  end.

Fixpoint merge_files_add (l : list (option file)) (outs : list batch) : M (list (option file)) (list batch) :=
  match l with
  | [] => ret outs
  | None :: _ => crash                                          (* incoming.Header *)
  | Some f :: t => outs' <- merge_add (f_batches f) outs ;; merge_files_add t outs'
  end.

Definition merge_files : M (list (option file)) (option file) :=
  fs <- get ;;
  match fs with
  | [] => ret None
  | None :: _ => crash                                          (* incoming[0].Header *)
  | Some _ :: _ =>
      outs <- merge_files_add fs [] ;;
      (* convertToFiles: NewBatch per merged batch (error returned), AddEntry, Create, AddBatch, file.Create *)
      nf <- (fix go (l : list batch) (nf : file) : M (list (option file)) file :=
               match l with
               | [] => ret nf
               | b :: t =>
                   match b_header b with
                   | None => crash
                   | Some h =>
                       match new_batch h with
                       | None => fail
                       | Some nb =>
                           r <- local (set_entries (b_entries b) nb) batch_create ;;
                           r2 <- local nf (add_batch (Some (snd r))) ;;
                           go t (snd r2)
                       end
                   end
               end) outs new_file ;;
      match f_batches nf with
      | [] => ret None
      | _ => r <- local nf file_create ;; ret (Some (snd r))
      end
  end.

(* ------------------------------------------------------------------ *)
(* The operations of the statement *)

Inductive op := OValidate | OCreate | OWrite | OWriteBypass | OMarshal | OSegment | OFlatten | OMerge
              | OReversal | OBatchCreate | OBatchValidate.

(* one operation on the file; operations that return new files leave the input as they mutated it *)
Definition run_op (x : op) : M file unit :=
  match x with
  | OValidate => file_validate
  | OCreate => file_create
  | OWrite => file_write false
  | OWriteBypass => file_write true
  | OMarshal => file_marshal
  | OSegment => _ <- file_segment ;; ret tt
  | OFlatten => _ <- file_flatten ;; ret tt
  | OMerge => f <- get ;; _ <- local [Some f] merge_files ;; ret tt
  | OReversal => file_reversal
  | OBatchCreate => batches_create
  | OBatchValidate => batches_validate
  end.

(* a call sequence: every operation continues on the file as the previous one left it, whether it
   returned an error or not *)
Fixpoint run_ops (xs : list op) : M file unit :=
  match xs with [] => ret tt | x :: t => try (run_op x) ;; run_ops t end.

(* … and on the file an operation returned *)
Definition run_op_result (x : op) : M file unit :=
  match x with
  | OSegment => r <- file_segment ;; put (fst r)
  | OFlatten => r <- file_flatten ;; put r
  | OMerge => f <- get ;; r <- local [Some f] merge_files ;; (match fst r with Some g => put g | None => ret tt end)
  | _ => run_op x
  end.
Fixpoint run_ops_result (xs : list op) : M file unit :=
  match xs with [] => ret tt | x :: t => try (run_op_result x) ;; run_ops_result t end.

Definition panics {S A} (r : outcome S A) : bool := match r with PANIC => true | _ => false end.

(* C06 (phase 2) — nil-safety ("shape") model of the public operations of package ach.

   A SHAPE records which optional sub-records of a File are present (every pointer
   the Go code may find nil is an [option] / [bool] here; every list may be empty and
   may hold absent elements where Go allows nil) together with the few data values
   the control flow around optional dereferences depends on: the SEC code and service
   class code of a batch header, the dynamic Go type of the Batcher, the category and
   transaction code of an entry.

   Every other data-dependent test of the source (record validation, control
   arithmetic, ValidateOpts flags, I/O errors) is a bit drawn from an ORACLE (a list
   of booleans, [true] when exhausted): [check] returns an error on [false], [flip]
   hands the bit to the model.  A theorem "for all oracles" therefore covers every
   outcome of those tests; the all-[true] oracle is the path of a valid file under
   default options.

   The state monad [M S A] threads the shape (Go mutates in place: File.IsADV installs
   missing headers/controls, Batch.build replaces the control, upsertOffsets edits the
   entry list, Reversal installs a control) and keeps the state when an error is
   returned, as Go does.  [PANIC] is a nil dereference or an index out of range.

   Definitions only; proofs in TotalOpsFacts.v.  Function by function transcription of
   batch.go, batcher types, iatBatch.go, file.go, writer.go, reversal.go,
   file_flattener.go, merge.go (names in comments). *)
From Coq Require Import List Bool Arith.
Import ListNotations.
Open Scope nat_scope.
Open Scope bool_scope.

(* ------------------------------------------------------------------ *)
(* The monad *)

Inductive outcome (S A : Type) : Type :=
| OK (a : A) (s : S) (o : list bool)
| ERR (s : S) (o : list bool)      (* the Go function returned a non-nil error; the state stays mutated *)
| PANIC.
Arguments OK {S A} a s o.
Arguments ERR {S A} s o.
Arguments PANIC {S A}.

Definition M (S A : Type) := S -> list bool -> outcome S A.

Definition ret {S A} (a : A) : M S A := fun s o => OK a s o.
Definition bind {S A B} (m : M S A) (k : A -> M S B) : M S B :=
  fun s o => match m s o with OK a s' o' => k a s' o' | ERR s' o' => ERR s' o' | PANIC => PANIC end.

Declare Scope ops_scope.
Delimit Scope ops_scope with ops.
Notation "x <- m ;; k" := (bind m (fun x => k)) (at level 61, m at next level, right associativity) : ops_scope.
Notation "m ;; k" := (bind m (fun _ => k)) (at level 61, right associativity) : ops_scope.
Open Scope ops_scope.

Definition get {S} : M S S := fun s o => OK s s o.
Definition put {S} (s' : S) : M S unit := fun _ o => OK tt s' o.
Definition modify {S} (f : S -> S) : M S unit := fun s o => OK tt (f s) o.
Definition fail {S A} : M S A := fun s o => ERR s o.
Definition crash {S A} : M S A := fun _ _ => PANIC.

(* one bit of the oracle *)
Definition flip {S} : M S bool :=
  fun s o => match o with [] => OK true s [] | b :: o' => OK b s o' end.
(* a data-dependent test of the source whose failure is an error return *)
Definition check {S} : M S unit := b <- flip ;; if b then ret tt else fail.
(* a data-dependent branch for which the shape suggests the usual answer [g]: the oracle bit says whether
   the data agree with it (all oracles still cover both branches) *)
Definition guess {S} (g : bool) : M S bool := b <- flip ;; ret (if b then g else negb g).
(* dereference of an optional sub-record held as a presence bit *)
Definition need {S} (present : bool) : M S unit := if present then ret tt else crash.
Definition when {S} (c : bool) (m : M S unit) : M S unit := if c then m else ret tt.

(* an error of the callee does not stop the caller (`_ = batch.Create()`) *)
Definition try {S} (m : M S unit) : M S unit :=
  fun s o => match m s o with ERR s' o' => OK tt s' o' | r => r end.

(* run [m] on a part of the state *)
Definition zoom {S T A} (g : S -> T) (u : T -> S -> S) (m : M T A) : M S A :=
  fun s o => match m (g s) o with
             | OK a t o' => OK a (u t s) o'
             | ERR t o' => ERR (u t s) o'
             | PANIC => PANIC
             end.

(* run [m] on a fresh local value; an error of [m] is an error of the caller *)
Definition local {S T A} (t0 : T) (m : M T A) : M S (A * T) :=
  fun s o => match m t0 o with
             | OK a t o' => OK (a, t) s o'
             | ERR _ o' => ERR s o'
             | PANIC => PANIC
             end.
(* … or is dropped by the caller; the local value stays as the callee left it *)
Definition local_try {S T} (t0 : T) (m : M T unit) : M S (bool * T) :=
  fun s o => match m t0 o with
             | OK _ t o' => OK (true, t) s o'
             | ERR t o' => OK (false, t) s o'
             | PANIC => PANIC
             end.

(* read-only code is written over the unit state and takes the shape as an argument ([R A]); [ro]
   runs it inside a state monad: the state cannot change (Validate, String and the writer never modify
   the file: property C14) *)
Definition R (A : Type) := M unit A.
Definition ro {S A} (m : R A) : M S A :=
  fun s o => match m tt o with OK a _ o' => OK a s o' | ERR _ o' => ERR s o' | PANIC => PANIC end.

(* `for _, x := range l { f x }` without write-back *)
Fixpoint forM_ {S E} (l : list E) (f : E -> M S unit) : M S unit :=
  match l with [] => ret tt | x :: t => f x ;; forM_ t f end.

(* `for i := range l { m on l[i] }` with write-back of every element *)
Fixpoint traverse {E} (m : M E unit) (l : list E) (o : list bool) : outcome (list E) unit :=
  match l with
  | [] => OK tt [] o
  | x :: t =>
      match m x o with
      | OK _ x' o' =>
          match traverse m t o' with
          | OK _ t' o'' => OK tt (x' :: t') o''
          | ERR t' o'' => ERR (x' :: t') o''
          | PANIC => PANIC
          end
      | ERR x' o' => ERR (x' :: t) o'
      | PANIC => PANIC
      end
  end.

(* a list element that Go holds as a pointer / interface: nil dereference when absent *)
Definition on_some {T A} (m : M T A) : M (option T) A :=
  fun x o => match x with
             | None => PANIC
             | Some t => match m t o with
                         | OK a t' o' => OK a (Some t') o'
                         | ERR t' o' => ERR (Some t') o'
                         | PANIC => PANIC
                         end
             end.

(* ------------------------------------------------------------------ *)
(* Shapes *)

Inductive sec := ACK | ADV | ARC | ATX | BOC | CCD | CIE | COR | CTX | DNE | ENR | IAT
               | MTE | POP | POS | PPD | RCK | SHR | TEL | TRC | TRX | WEB | XCK | SecUnknown.
(* dynamic Go type of a Batcher: *ach.Batch, or *ach.Batch<SEC> *)
Inductive kind := KBase | KSec (s : sec).
Inductive scc := Mixed | Credits | Debits | Advices | SccOther.   (* 200 220 225 280 other *)
Inductive cat := CFwd | CNOC | CRet | CDis | CCon | COther.

Definition sec_index (s : sec) : nat :=
  match s with
  | ACK => 0 | ADV => 1 | ARC => 2 | ATX => 3 | BOC => 4 | CCD => 5 | CIE => 6 | COR => 7 | CTX => 8
  | DNE => 9 | ENR => 10 | IAT => 11 | MTE => 12 | POP => 13 | POS => 14 | PPD => 15 | RCK => 16
  | SHR => 17 | TEL => 18 | TRC => 19 | TRX => 20 | WEB => 21 | XCK => 22 | SecUnknown => 23
  end.
Definition sec_eqb (a b : sec) : bool := sec_index a =? sec_index b.
Definition scc_eqb (a b : scc) : bool :=
  match a, b with
  | Mixed, Mixed | Credits, Credits | Debits, Debits | Advices, Advices | SccOther, SccOther => true
  | _, _ => false
  end.
Definition cat_eqb (a b : cat) : bool :=
  match a, b with
  | CFwd, CFwd | CNOC, CNOC | CRet, CRet | CDis, CDis | CCon, CCon | COther, COther => true
  | _, _ => false
  end.

(* ach.NewBatch accepts the code *)
Definition sec_valid (s : sec) : bool := match s with IAT | SecUnknown => false | _ => true end.

(* EntryDetail: category, transaction code, presence of the addenda pointers; Addenda05 is a
   slice of pointers *)
Record entry := mkentry {
  e_cat : cat; e_code : nat;
  e_a02 : bool; e_a98 : bool; e_a98r : bool; e_a99 : bool; e_a99d : bool; e_a99c : bool;
  e_a05 : list bool;
  e_off : bool }.                 (* IndividualName is "OFFSET" (any case): the entries upsertOffsets removes and re-creates *)
Record adv_entry := mkadv { ae_cat : cat; ae_code : nat; ae_a99 : bool }.
Record header := mkheader { h_sec : sec; h_scc : scc }.
Record batch := mkbatch {
  b_kind : kind;
  b_header : option header;
  b_control : bool; b_adv : bool; b_offset : bool;
  b_entries : list (option entry);
  b_adventries : list (option adv_entry) }.

(* IATBatchHeader: service class code; [ih_cor]: IATIndicator = "IATCOR" and SEC = "COR" *)
Record iat_header := mkih { ih_scc : scc; ih_cor : bool }.
Record iat_entry := mkie {
  ie_cat : cat; ie_code : nat;
  ie_a10 : bool; ie_a11 : bool; ie_a12 : bool; ie_a13 : bool; ie_a14 : bool; ie_a15 : bool; ie_a16 : bool;
  ie_a98 : bool; ie_a99 : bool;
  ie_a17 : list bool; ie_a18 : list bool }.
Record iat_batch := mkib { ib_header : option iat_header; ib_control : bool; ib_entries : list (option iat_entry) }.

(* File: Header, Control, ADVControl are values; Batches []Batcher; IATBatches []IATBatch (values) *)
Record file := mkfile { f_batches : list (option batch); f_iat : list iat_batch }.

Definition set_header (h : option header) (b : batch) : batch :=
  mkbatch (b_kind b) h (b_control b) (b_adv b) (b_offset b) (b_entries b) (b_adventries b).
Definition set_control (c : bool) (b : batch) : batch :=
  mkbatch (b_kind b) (b_header b) c (b_adv b) (b_offset b) (b_entries b) (b_adventries b).
Definition set_adv (c : bool) (b : batch) : batch :=
  mkbatch (b_kind b) (b_header b) (b_control b) c (b_offset b) (b_entries b) (b_adventries b).
Definition set_entries (es : list (option entry)) (b : batch) : batch :=
  mkbatch (b_kind b) (b_header b) (b_control b) (b_adv b) (b_offset b) es (b_adventries b).
Definition set_adventries (es : list (option adv_entry)) (b : batch) : batch :=
  mkbatch (b_kind b) (b_header b) (b_control b) (b_adv b) (b_offset b) (b_entries b) es.
Definition set_offset (c : bool) (b : batch) : batch :=
  mkbatch (b_kind b) (b_header b) (b_control b) (b_adv b) c (b_entries b) (b_adventries b).
Definition set_kind (k : kind) (b : batch) : batch :=
  mkbatch k (b_header b) (b_control b) (b_adv b) (b_offset b) (b_entries b) (b_adventries b).
Definition set_batches (bs : list (option batch)) (f : file) : file := mkfile bs (f_iat f).
Definition set_iat (bs : list iat_batch) (f : file) : file := mkfile (f_batches f) bs.
Definition set_ib_control (c : bool) (b : iat_batch) : iat_batch := mkib (ib_header b) c (ib_entries b).
Definition set_ib_entries (es : list (option iat_entry)) (b : iat_batch) : iat_batch := mkib (ib_header b) (ib_control b) es.
Definition set_code (c : nat) (e : entry) : entry :=
  mkentry (e_cat e) c (e_a02 e) (e_a98 e) (e_a98r e) (e_a99 e) (e_a99d e) (e_a99c e) (e_a05 e) (e_off e).

(* transaction codes: the credit and debit lists shared by calculateBatchAmounts, segmentFileBatchAddEntry
   and Reversal (each is checked against Gen/Tables by C11/C13; here they only steer which constructed
   batch receives an entry) *)
Definition credit_codes : list nat := [22; 21; 23; 24; 32; 31; 33; 34; 42; 41; 43; 44; 52; 51; 53; 54].
Definition debit_codes : list nat := [27; 26; 28; 29; 37; 36; 38; 39; 47; 46; 48; 49; 55; 56].
Definition mem (n : nat) (l : list nat) : bool := existsb (Nat.eqb n) l.
Definition is_credit (c : nat) : bool := mem c credit_codes.
Definition is_debit (c : nat) : bool := mem c debit_codes.
(* ADV: CreditForDebitsOriginated 81, CreditForCreditsReceived 83, CreditForCreditsRejected 85, CreditSummary 87;
   DebitForCreditsOriginated 82, DebitForDebitsReceived 84, DebitForDebitsRejectedBatches 86, DebitSummary 88 *)
Definition adv_is_credit (c : nat) : bool := mem c [81; 83; 85; 87].
Definition adv_is_debit (c : nat) : bool := mem c [82; 84; 86; 88].

Definition has05 (e : entry) : bool := match e_a05 e with [] => false | _ => true end.  (* entry.Addenda05 != nil *)

(* ------------------------------------------------------------------ *)
(* batch.go — the read-only functions take the batch as an argument *)

Definition header_of (b : batch) : R header :=
  match b_header b with Some h => ret h | None => crash end.
Definition need_control (b : batch) : R unit := need (b_control b).
Definition need_advcontrol (b : batch) : R unit := need (b_adv b).

(* Batch.Error: builds a BatchError from b.Header.BatchNumber / StandardEntryClassCode *)
Definition berr {A} (b : batch) : R A := _ <- header_of b ;; fail.

(* Batch.IsADV: batch.GetHeader().StandardEntryClassCode == ADV *)
Definition is_adv (b : batch) : R bool := h <- header_of b ;; ret (sec_eqb (h_sec h) ADV).

(* `for _, entry := range batch.Entries { … entry.X … }`: the first field access dereferences the element *)
Definition for_entries (b : batch) (body : entry -> R unit) : R unit :=
  forM_ (b_entries b) (fun oe => match oe with Some e => body e | None => crash end).
Definition for_adv_entries (b : batch) (body : adv_entry -> R unit) : R unit :=
  forM_ (b_adventries b) (fun oe => match oe with Some e => body e | None => crash end).

(* isFieldInclusion *)
Definition is_field_inclusion (b : batch) : R unit :=
  _ <- header_of b ;; check ;;                                   (* batch.Header.Validate() *)
  adv <- is_adv b ;;
  if negb adv then
    for_entries b (fun e =>
      check ;;                                                 (* entry.Validate() *)
      when (e_a02 e) check ;;
      forM_ (e_a05 e) (fun p => need p ;; check) ;;            (* addenda05.Validate(): receiver dereferenced *)
      when (e_a98 e) check ;; when (e_a98r e) check ;; when (e_a99 e) check ;;
      when (e_a99d e) check ;; when (e_a99c e) check) ;;
    need_control b ;; check                                      (* batch.Control.Validate() *)
  else
    for_adv_entries b (fun a => check ;; when (ae_a99 a) check) ;;
    need_advcontrol b ;; check.                                  (* batch.ADVControl.Validate() *)

(* isBatchEntryCount (entry.addendaCount tests every pointer it reads) *)
Definition is_batch_entry_count (b : batch) : R unit :=
  adv <- is_adv b ;;
  if negb adv then
    for_entries b (fun _ => ret tt) ;; need_control b ;;
    eq <- flip ;; if eq then ret tt else (u <- flip ;; if u then berr b else ret tt)
  else
    for_adv_entries b (fun _ => ret tt) ;; need_advcontrol b ;;
    eq <- flip ;; if eq then ret tt else (u <- flip ;; if u then berr b else ret tt).

Definition is_sequence_ascending (b : batch) : R unit :=
  adv <- is_adv b ;;
  when (negb adv) (for_entries b (fun _ => c <- flip ;; if c then (a <- flip ;; if a then ret tt else berr b) else ret tt)).

Definition is_batch_amount (b : batch) : R unit :=
  adv <- is_adv b ;;
  if negb adv then
    for_entries b (fun _ => ret tt) ;;                           (* calculateBatchAmounts *)
    need_control b ;; (d <- flip ;; if d then ret tt else berr b) ;;
    need_control b ;; (c <- flip ;; if c then ret tt else berr b)
  else
    for_adv_entries b (fun _ => ret tt) ;;
    need_advcontrol b ;; (d <- flip ;; if d then ret tt else berr b) ;;
    need_advcontrol b ;; (c <- flip ;; if c then ret tt else berr b).

Definition calculate_entry_hash (b : batch) : R unit :=
  adv <- is_adv b ;;
  if negb adv then for_entries b (fun _ => ret tt) else for_adv_entries b (fun _ => ret tt).

Definition is_entry_hash (b : batch) : R unit :=
  calculate_entry_hash b ;;
  adv <- is_adv b ;;
  if negb adv then need_control b ;; (c <- flip ;; if c then ret tt else berr b)
  else need_advcontrol b ;; (c <- flip ;; if c then ret tt else berr b).

Definition is_originator_dne (b : batch) : R unit :=
  h <- header_of b ;;
  g <- flip ;;                                                  (* true: OriginatorStatusCode == 2 *)
  when (negb g && sec_eqb (h_sec h) DNE)
    (for_entries b (fun _ => c <- flip ;; if c then ret tt else berr b)).

Definition is_trace_number_odfi (b : batch) : R unit :=
  by_ <- flip ;;                                                (* true: BypassOriginValidation not set *)
  if negb by_ then ret tt else
  _ <- header_of b ;;                                             (* batch.Header.ODFIIdentificationField() *)
  for_entries b (fun _ => c <- flip ;; if c then ret tt else berr b).

Definition is_addenda_sequence (b : batch) : R unit :=
  for_entries b (fun e =>
    when (e_a02 e) (c <- flip ;; if c then ret tt else berr b) ;;
    when (has05 e)
      ((c <- flip ;; if c then ret tt else berr b) ;;
       forM_ (e_a05 e) (fun p => need p ;; (c <- flip ;; if c then ret tt else berr b) ;;
                                           (c <- flip ;; if c then ret tt else berr b))) ;;
    when (e_a98 e) (c <- flip ;; if c then ret tt else berr b) ;;
    when (e_a98r e) (c <- flip ;; if c then ret tt else berr b) ;;
    when (e_a99 e) (c <- flip ;; if c then ret tt else berr b) ;;
    when (e_a99d e) (c <- flip ;; if c then ret tt else berr b) ;;
    when (e_a99c e) (c <- flip ;; if c then ret tt else berr b)).

(* isCategory: batch.GetEntries()[0].Category (an empty list is an error since fix 7f797c26; before it
   the index panicked for a batch that only holds entries of the other kind), then every entry but NOC
   must have that category *)
Definition is_category (b : batch) : R unit :=
  adv <- is_adv b ;;
  if negb adv then
    match b_entries b with
    | [] => berr b
    | None :: _ => crash
    | Some e0 :: _ =>
        when (1 <? length (b_entries b))
          (for_entries b (fun e => if cat_eqb (e_cat e) CNOC then ret tt
                                 else if cat_eqb (e_cat e) (e_cat e0) then ret tt else berr b))
    end
  else
    match b_adventries b with
    | [] => berr b
    | None :: _ => crash
    | Some e0 :: _ =>
        when (1 <? length (b_adventries b))
          (for_adv_entries b (fun e => if cat_eqb (ae_cat e) (ae_cat e0) then ret tt else berr b))
    end.

(* verify *)
Definition verify (b : batch) : R unit :=
  (match b_entries b, b_adventries b with [], [] => berr b | _, _ => ret tt end) ;;
  (fun s o => match is_field_inclusion b s o with
              | ERR s' o' => (berr b : R unit) s' o'            (* batch.Error("FieldError", err) *)
              | r => r end) ;;
  adv <- is_adv b ;;
  (if negb adv then
     (u <- flip ;;                                              (* true: UnequalServiceClassCode not set *)
      when u (_ <- header_of b ;; need_control b ;; (c <- flip ;; if c then ret tt else berr b))) ;;
     _ <- header_of b ;; need_control b ;; (c <- flip ;; if c then ret tt else berr b) ;;   (* CompanyIdentification *)
     _ <- header_of b ;; need_control b ;; (c <- flip ;; if c then ret tt else berr b) ;;   (* ODFIIdentification *)
     _ <- header_of b ;; need_control b ;; (c <- flip ;; if c then ret tt else berr b)      (* BatchNumber *)
   else
     (u <- flip ;;
      when u (_ <- header_of b ;; need_advcontrol b ;; (c <- flip ;; if c then ret tt else berr b))) ;;
     _ <- header_of b ;; need_advcontrol b ;; (c <- flip ;; if c then ret tt else berr b) ;;
     _ <- header_of b ;; need_advcontrol b ;; (c <- flip ;; if c then ret tt else berr b)) ;;
  is_batch_entry_count b ;;
  (t <- flip ;; when t (is_sequence_ascending b)) ;;                (* true: CustomTraceNumbers not set *)
  is_batch_amount b ;;
  is_entry_hash b ;;
  is_originator_dne b ;;
  (t <- flip ;; when t (is_trace_number_odfi b ;; is_addenda_sequence b)) ;;
  is_category b.

(* addendaFieldInclusion{,Forward,NOC,Return} *)
Definition sec_group (s : sec) : nat :=
  match s with
  | MTE | POS | SHR => 1
  | ACK | ATX | CCD | CIE | CTX | DNE | ENR | WEB | PPD | TRX => 2
  | ARC | BOC | COR | POP | RCK | TEL | TRC | XCK => 3
  | _ => 0
  end.

Definition inclusion_forward (b : batch) (e : entry) : R unit :=
  h <- header_of b ;;
  (match sec_group (h_sec h) with
   | 1 => if negb (e_a02 e) then berr b else if has05 e then berr b else ret tt
   | 2 => if e_a02 e then berr b else ret tt
   | 3 => if e_a02 e then berr b else if has05 e then berr b else ret tt
   | _ => ret tt
   end) ;;
  when (negb (sec_eqb (h_sec h) COR)) (if e_a98 e || e_a98r e then berr b else ret tt) ;;
  if e_a99 e then berr b else ret tt.

Definition inclusion_noc (b : batch) (e : entry) : R unit :=
  if e_a02 e then berr b else
  if has05 e then berr b else
  h <- header_of b ;;
  when (negb (sec_eqb (h_sec h) COR)) (if e_a98 e || e_a98r e then berr b else ret tt) ;;
  if e_a99 e then berr b else ret tt.

Definition inclusion_return (b : batch) (e : entry) : R unit :=
  if e_a02 e then berr b else
  when (has05 e) (h <- header_of b ;; if sec_eqb (h_sec h) CTX then ret tt else berr b) ;;
  if e_a98 e || e_a98r e then berr b else
  if negb (e_a99 e) && negb (e_a99d e) && negb (e_a99c e)
  then (c <- guess (e_off e) ;; if c then ret tt else berr b)     (* IndividualName == "OFFSET" *)
  else ret tt.

Definition addenda_inclusion (b : batch) (e : entry) : R unit :=
  match e_cat e with
  | CFwd => inclusion_forward b e
  | CNOC => inclusion_noc b e
  | CRet | CDis | CCon => inclusion_return b e
  | COther => ret tt
  end.

(* ValidAmountForCodes *)
Definition valid_amount (b : batch) (e : entry) : R unit :=
  c <- flip ;;                                                  (* true: AllowInvalidAmounts not set *)
  if negb c then ret tt else
  if e_a98 e || e_a98r e then check else
  if e_a99 e || e_a99c e || e_a99d e then ret tt else
  np <- flip ;;                                                 (* true: not a prenote *)
  if negb np then check else
  nz <- flip ;;                                                 (* true: Amount != 0 *)
  if nz then ret tt else
  na <- flip ;;                                                 (* true: AllowZeroEntryAmount not set *)
  if negb na then ret tt else
  _ <- header_of b ;; check.                                      (* switch batch.Header.StandardEntryClassCode *)

(* ValidTranCodeForServiceClassCode *)
Definition valid_trancode (b : batch) (e : entry) : R unit :=
  (c <- flip ;; if c then ret tt else berr b) ;;                  (* ADV transaction codes *)
  c <- flip ;;                                                  (* true: no CheckTransactionCode override *)
  if negb c then ret tt else
  _ <- header_of b ;; (c <- flip ;; if c then ret tt else berr b).

(* service class codes a batch type rejects before it looks at its entries *)
Definition scc_allowed (s : sec) (c : scc) : bool :=
  match s with
  | ARC | BOC | POP | RCK | TRC | TRX | XCK => negb (scc_eqb c Credits)
  | CIE => negb (scc_eqb c Debits)
  | SHR => match c with Mixed | Credits | Debits => true | _ => false end
  | _ => true
  end.

(* Batch<SEC>.Validate for the standard types (everything but ADV) *)
Definition validate_std (s : sec) (b : batch) : R unit :=
  verify b ;;
  when (sec_eqb s COR)                                          (* isAddenda98 *)
    (for_entries b (fun e => if negb (e_a98 e) && negb (e_a98r e) then berr b else ret tt)) ;;
  h <- header_of b ;;
  (if sec_eqb (h_sec h) s then ret tt else berr b) ;;
  when (sec_eqb s COR)
    (need_control b ;; (c <- flip ;; if c then ret tt else berr b) ;;
     need_control b ;; (c <- flip ;; if c then ret tt else berr b)) ;;
  (if scc_allowed s (h_scc h) then ret tt else berr b) ;;
  (c <- flip ;; if c then ret tt else berr b) ;;                  (* CompanyEntryDescription (ENR, RCK) *)
  for_entries b (fun e =>
    (c <- flip ;; if c then ret tt else berr b) ;;                (* type specific checks on the entry *)
    valid_amount b e ;;
    valid_trancode b e ;;
    addenda_inclusion b e ;;
    when (match s with MTE | POS | SHR => cat_eqb (e_cat e) CFwd | _ => false end)
      (need (e_a02 e) ;; (c <- flip ;; if c then ret tt else berr b)) ;;   (* entry.Addenda02.TerminalState *)
    (c <- flip ;; if c then ret tt else berr b)).

(* BatchADV.Validate *)
Definition validate_adv (b : batch) : R unit :=
  h <- header_of b ;;
  (if sec_eqb (h_sec h) ADV then ret tt else berr b) ;;
  (if scc_eqb (h_scc h) Advices then ret tt else berr b) ;;
  (c <- flip ;; if c then ret tt else berr b) ;;                  (* OriginatorStatusCode *)
  verify b ;;
  for_adv_entries b (fun a =>
    when (cat_eqb (ae_cat a) CFwd)
      ((c <- flip ;; if c then ret tt else berr b) ;; if ae_a99 a then berr b else ret tt)).

(* Batcher.Validate by dynamic type; Batch.Validate returns an error *)
Definition batch_validate (b : batch) : R unit :=
  match b_kind b with
  | KBase => fail
  | KSec ADV => validate_adv b
  | KSec s => validate_std s b
  end.

(* ------------------------------------------------------------------ *)
(* batch.go — the functions that modify the batch; state: the batch *)

(* upsertOffsets; the offset entries it appends are NewEntryDetail values with the category of Entries[0] *)
Definition offset_entry (c : cat) (code : nat) : option entry := Some (mkentry c code false false false false false false [] true).

(* entries that usually carry an amount: not a notification of change, not a prenote (x3, x8) or a
   zero-dollar remittance code (x4, x9); only used to pick the usual answer of [guess] *)
Definition moves_money (e : entry) : bool :=
  negb (cat_eqb (e_cat e) CNOC) && negb (mem (e_code e mod 10) [3; 4; 8; 9]).

Fixpoint remove_offsets (b : batch) (l : list (option entry)) : R (list (option entry)) :=
  match l with
  | [] => ret []
  | None :: _ => crash                                          (* b.Entries[i].IndividualName *)
  | Some e :: t =>
      keep <- guess (negb (e_off e)) ;;                         (* strings.EqualFold(IndividualName, "OFFSET") *)
      if keep then (r <- remove_offsets b t ;; ret (Some e :: r))
      else need_control b ;; remove_offsets b t                 (* b.Control.… -= …; entry removed *)
  end.

Definition upsert_offsets : M batch unit :=
  b <- get ;;
  if negb (b_offset b) then ret tt else
  adv <- ro (is_adv b) ;;
  if adv then fail else
  check ;;                                                      (* CheckRoutingNumber(b.offset.RoutingNumber) *)
  es <- ro (remove_offsets b (b_entries b)) ;;
  put (set_entries es b) ;;
  check ;;                                                      (* b.offset.AccountType.validate() *)
  (* createOffsetEntryDetail: batch.Entries[0].Category under len > 0; lastTraceNumber: entries[len-1].TraceNumber *)
  c0 <- (match es with [] => ret CFwd | None :: _ => crash | Some e :: _ => ret (e_cat e) end) ;;
  (match last es (Some (mkentry CFwd 0 false false false false false false [] false)) with None => crash | Some _ => ret tt end) ;;
  need (b_control b) ;;                                         (* debitED.Amount = b.Control.TotalCreditEntryDollarAmount *)
  (* debitED.Amount = total credits, creditED.Amount = total debits; zero ⇒ no entry *)
  hasD <- guess (negb (existsb (fun oe => match oe with Some e => is_credit (e_code e) && moves_money e | None => false end) es)) ;;
  hasC <- guess (negb (existsb (fun oe => match oe with Some e => is_debit (e_code e) && moves_money e | None => false end) es)) ;;
  chk <- flip ;;                                                (* true: offset.AccountType checking, false: savings *)
  let es1 := if hasD then es else es ++ [offset_entry c0 (if chk then 27 else 37)] in
  let es2 := if hasC then es1 else es1 ++ [offset_entry c0 (if chk then 22 else 32)] in
  h <- ro (header_of b) ;;                                      (* b.Header.ServiceClassCode = MixedDebitsAndCredits *)
  let b' := set_header (Some (mkheader (h_sec h) Mixed)) (set_entries es2 b) in
  put b' ;;
  ro (calculate_entry_hash b').

(* build *)
Definition build : M batch unit :=
  b <- get ;;
  ro (_ <- header_of b ;; check) ;;                             (* batch.Header.Validate() *)
  ro (match b_entries b, b_adventries b with [], [] => berr b | _, _ => ret tt end) ;;
  adv <- ro (is_adv b) ;;
  (if negb adv then
     ro (for_entries b (fun e =>
       check ;;                                                 (* Atoi(entry.TraceNumberField()[:8]) *)
       _ <- header_of b ;; check ;;                             (* batch.Header.ODFIIdentificationField() *)
       (d <- flip ;; when (negb d) (_ <- header_of b ;; ret tt)) ;;   (* entry.SetTraceNumber(batch.Header.ODFIIdentification, …) *)
       forM_ (e_a05 e) (fun p => need p))) ;;                   (* a.SequenceNumber = addendaSeq *)
     ro (_ <- header_of b ;; calculate_entry_hash b ;; for_entries b (fun _ => ret tt)) ;;
     put (set_control true b)
   else
     ro (for_adv_entries b (fun _ => c <- flip ;; if c then ret tt else berr b)) ;;   (* seq > 9999 *)
     ro (_ <- header_of b ;; calculate_entry_hash b ;; for_adv_entries b (fun _ => ret tt)) ;;
     put (set_adv true b)) ;;
  upsert_offsets.

(* Batcher.Create by dynamic type *)
Definition batch_create : M batch unit :=
  b <- get ;;
  match b_kind b with
  | KBase => fail
  | _ => build ;; b' <- get ;; ro (batch_validate b')
  end.

(* Batch.Category: reads entry.Category of the entries until a Return / NOC is found *)
Definition batch_category (b : batch) : R unit :=
  (fix go (l : list (option entry)) : R unit :=
     match l with
     | [] => for_adv_entries b (fun _ => ret tt)
     | None :: _ => crash
     | Some e :: t => match e_cat e with CRet | CNOC => ret tt | _ => go t end
     end) (b_entries b).

(* ------------------------------------------------------------------ *)
(* iatBatch.go *)

Definition ih_of (b : iat_batch) : R iat_header :=
  match ib_header b with Some h => ret h | None => crash end.
Definition need_ibcontrol (b : iat_batch) : R unit := need (ib_control b).
Definition iberr {A} (b : iat_batch) : R A := _ <- ih_of b ;; fail.     (* IATBatch.Error reads iatBatch.Header.… *)
Definition for_iat_entries (b : iat_batch) (body : iat_entry -> R unit) : R unit :=
  forM_ (ib_entries b) (fun oe => match oe with Some e => body e | None => crash end).

Definition ie_mandatory (e : iat_entry) : bool :=
  ie_a10 e && ie_a11 e && ie_a12 e && ie_a13 e && ie_a14 e && ie_a15 e && ie_a16 e.

(* addendaFieldInclusion: fieldError, not iatBatch.Error *)
Definition iat_addenda_inclusion (e : iat_entry) : R unit :=
  if ie_a98 e then ret tt else if ie_mandatory e then ret tt else fail.

Definition iat_is_field_inclusion (b : iat_batch) : R unit :=
  _ <- ih_of b ;; check ;;                                      (* iatBatch.Header.Validate() *)
  for_iat_entries b (fun e =>
    check ;;                                                    (* entry.Validate() *)
    iat_addenda_inclusion e ;;
    check ;;                                                    (* Addenda10..16.Validate(): nil receivers accepted *)
    forM_ (ie_a17 e) (fun p => need p ;; check) ;;
    forM_ (ie_a18 e) (fun p => need p ;; check) ;;
    when (cat_eqb (ie_cat e) CNOC) (if ie_a98 e then check else fail) ;;
    when (cat_eqb (ie_cat e) CRet) (if ie_a99 e then check else fail)) ;;
  need_ibcontrol b ;; check.

Definition iat_is_batch_entry_count (b : iat_batch) : R unit :=
  for_iat_entries b (fun _ => ret tt) ;;
  need_ibcontrol b ;;
  eq <- flip ;; if eq then ret tt else (u <- flip ;; if u then iberr b else ret tt).

Fixpoint iat_addenda_sequence_loop (b : iat_batch) (l : list (option iat_entry)) : R unit :=
  match l with
  | [] => ret tt
  | None :: _ => crash
  | Some e :: t =>
      (c <- flip ;; if c then ret tt else iberr b) ;;           (* AddendaRecordIndicator != 1 *)
      if ie_a98 e then ret tt else                              (* isCorrection: return nil *)
      need (ie_a10 e) ;; (c <- flip ;; if c then ret tt else iberr b) ;;
      need (ie_a11 e) ;; (c <- flip ;; if c then ret tt else iberr b) ;;
      need (ie_a12 e) ;; (c <- flip ;; if c then ret tt else iberr b) ;;
      need (ie_a13 e) ;; (c <- flip ;; if c then ret tt else iberr b) ;;
      need (ie_a14 e) ;; (c <- flip ;; if c then ret tt else iberr b) ;;
      need (ie_a15 e) ;; (c <- flip ;; if c then ret tt else iberr b) ;;
      need (ie_a16 e) ;; (c <- flip ;; if c then ret tt else iberr b) ;;
      forM_ (ie_a17 e) (fun p => need p ;; (c <- flip ;; if c then ret tt else iberr b)) ;;
      forM_ (ie_a18 e) (fun p => need p ;; (c <- flip ;; if c then ret tt else iberr b)) ;;
      iat_addenda_sequence_loop b t
  end.
Definition iat_is_addenda_sequence (b : iat_batch) : R unit := iat_addenda_sequence_loop b (ib_entries b).

Definition iat_is_category (b : iat_batch) : R unit :=
  match ib_entries b with
  | [] => crash
  | None :: _ => crash
  | Some e0 :: t =>
      forM_ t (fun oe => match oe with
                         | None => crash
                         | Some e => if cat_eqb (ie_cat e) CNOC then ret tt
                                     else if cat_eqb (ie_cat e) (ie_cat e0) then ret tt else iberr b
                         end)
  end.

Definition iat_verify (b : iat_batch) : R unit :=
  (match ib_entries b with [] => iberr b | _ => ret tt end) ;;
  (fun s o => match iat_is_field_inclusion b s o with
              | ERR s' o' => (iberr b : R unit) s' o'
              | r => r end) ;;
  (u <- flip ;; when u (_ <- ih_of b ;; need_ibcontrol b ;; (c <- flip ;; if c then ret tt else iberr b))) ;;
  _ <- ih_of b ;; need_ibcontrol b ;; (c <- flip ;; if c then ret tt else iberr b) ;;
  _ <- ih_of b ;; need_ibcontrol b ;; (c <- flip ;; if c then ret tt else iberr b) ;;
  (u <- flip ;; when u (need_ibcontrol b ;; check)) ;;           (* Control.isAlphanumeric(Control.CompanyIdentification) *)
  iat_is_batch_entry_count b ;;
  (t <- flip ;; when t (for_iat_entries b (fun _ => c <- flip ;; if c then ret tt else iberr b))) ;;  (* isSequenceAscending *)
  (for_iat_entries b (fun _ => ret tt) ;;                        (* isBatchAmount *)
   need_ibcontrol b ;; (c <- flip ;; if c then ret tt else iberr b) ;;
   need_ibcontrol b ;; (c <- flip ;; if c then ret tt else iberr b)) ;;
  (for_iat_entries b (fun _ => ret tt) ;; need_ibcontrol b ;; (c <- flip ;; if c then ret tt else iberr b)) ;;   (* isEntryHash *)
  (t <- flip ;;
   when t ((by_ <- flip ;;                                       (* isTraceNumberODFI *)
            when by_ (for_iat_entries b (fun _ => _ <- ih_of b ;; (c <- flip ;; if c then ret tt else iberr b)))) ;;
           iat_is_addenda_sequence b)) ;;
  iat_is_category b.

Definition iat_validate (b : iat_batch) : R unit :=
  iat_verify b ;;
  for_iat_entries b (fun e =>
    (c <- flip ;; if c then ret tt else iberr b) ;;              (* len(Addenda17) > 2, len(Addenda18) > 5 *)
    h <- ih_of b ;;
    (if scc_eqb (ih_scc h) Advices then iberr b else ret tt) ;;
    when (ie_a98 e || cat_eqb (ie_cat e) CNOC)
      (h <- ih_of b ;; (if ih_cor h then ret tt else iberr b) ;; (c <- flip ;; if c then ret tt else iberr b))).

Definition iat_build : M iat_batch unit :=
  b <- get ;;
  ro (_ <- ih_of b ;; check) ;;
  ro (match ib_entries b with [] => iberr b | _ => ret tt end) ;;
  ro (for_iat_entries b (fun e =>
    iat_addenda_inclusion e ;;
    check ;;
    _ <- ih_of b ;; check ;;
    (d <- flip ;; when (negb d) (_ <- ih_of b ;; ret tt)) ;;
    forM_ (ie_a17 e) (fun p => need p) ;;
    forM_ (ie_a18 e) (fun p => need p))) ;;
  (* originalControl := GetControl(); nil tested; new control installed *)
  put (set_ib_control true b) ;;
  ro (_ <- ih_of b ;;
      for_iat_entries b (fun _ => ret tt) ;;                     (* calculateEntryHash, calculateBatchAmounts *)
      for_iat_entries b (fun _ => ret tt)).                      (* isBatchEntryCount: error ignored *)

Definition iat_create : M iat_batch unit := iat_build ;; b <- get ;; ro (iat_validate b).

(* ------------------------------------------------------------------ *)
(* file.go *)

(* NewBatchHeader(): SEC "", service class 0 *)
Definition blank_header : header := mkheader SecUnknown SccOther.

(* File.IsADV: installs a header / control where GetHeader() / GetControl() is nil, up to the first ADV batch *)
Fixpoint is_adv_loop (l : list (option batch)) (o : list bool) : outcome (list (option batch)) bool :=
  match l with
  | [] => OK false [] o
  | None :: _ => PANIC                                          (* f.Batches[i].GetHeader() on a nil Batcher *)
  | Some b :: t =>
      let h := match b_header b with Some h => h | None => blank_header end in
      let b1 := set_control true (set_header (Some h) b) in
      if sec_eqb (h_sec h) ADV then OK true (Some b1 :: t) o
      else match is_adv_loop t o with
           | OK r t' o' => OK r (Some b1 :: t') o'
           | ERR t' o' => ERR (Some b1 :: t') o'
           | PANIC => PANIC
           end
  end.
Definition file_is_adv : M file bool := zoom f_batches set_batches is_adv_loop.

(* `for _, b := range f.Batches { … }`, read-only and with write-back *)
Definition for_batches (f : file) (m : batch -> R unit) : R unit :=
  forM_ (f_batches f) (fun ob => match ob with Some b => m b | None => crash end).
Definition for_iat (f : file) (m : iat_batch -> R unit) : R unit := forM_ (f_iat f) m.
Definition each_batch (m : M batch unit) : M file unit := zoom f_batches set_batches (traverse (on_some m)).
Definition each_iat (m : M iat_batch unit) : M file unit := zoom f_iat set_iat (traverse m).

Definition is_entry_addenda_count (adv : bool) (f : file) : R unit :=
  (if negb adv then for_batches f need_control ;; for_iat f need_ibcontrol
   else for_batches f need_advcontrol) ;;
  eq <- flip ;; if eq then ret tt else (u <- flip ;; if u then fail else ret tt).

Definition is_file_amount (adv : bool) (f : file) : R unit :=
  (if negb adv then for_batches f (fun b => need_control b ;; need_control b) ;;
                    for_iat f (fun b => need_ibcontrol b ;; need_ibcontrol b)
   else for_batches f (fun b => need_advcontrol b ;; need_advcontrol b)) ;;
  check ;; check.

Definition file_entry_hash (adv : bool) (f : file) : R unit :=
  (if negb adv then for_batches f need_control ;; for_iat f need_ibcontrol
   else for_batches f need_advcontrol) ;;
  check.

Definition file_sequence_ascending (f : file) : R unit :=
  for_batches f (fun b => _ <- header_of b ;; c <- flip ;; if c then (a <- flip ;; if a then ret tt else fail) else ret tt).

(* ValidateWith (Validate = ValidateWith(f.validateOpts)); File.IsADV is the only part that writes *)
Definition file_validate : M file unit :=
  run <- flip ;;                                                (* true: SkipAll not set *)
  if negb run then ret tt else
  (h <- flip ;; when h check) ;;                                (* Header.ValidateWith unless AllowMissingFileHeader *)
  adv <- file_is_adv ;;
  f <- get ;;
  if negb adv then
    ro (check ;;                                                (* Control.BatchCount *)
        for_batches f batch_validate ;;
        (c <- flip ;; when c check) ;;                          (* Control.Validate unless AllowMissingFileControl *)
        is_entry_addenda_count false f ;;
        is_file_amount false f ;;
        (s <- flip ;; when s (file_sequence_ascending f)) ;;
        file_entry_hash false f)
  else
    ro (for_batches f (fun b => h <- header_of b ;; if sec_eqb (h_sec h) ADV then ret tt else fail) ;;
        check ;;
        (c <- flip ;; when c check) ;;
        is_entry_addenda_count true f ;;
        is_file_amount true f ;;
        file_entry_hash true f).

(* createFileADV / Create write batch numbers and the file control: data only *)
Definition create_file_adv (f : file) : R unit :=
  for_batches f (fun b =>
    h <- header_of b ;;
    (if sec_eqb (h_sec h) ADV then ret tt else fail) ;;
    _ <- header_of b ;;                                         (* f.Batches[i].GetHeader().BatchNumber <= 1 *)
    (r <- flip ;; when (negb r) (_ <- header_of b ;; need_advcontrol b)) ;;
    need_advcontrol b ;; need_advcontrol b ;; need_advcontrol b ;; need_advcontrol b ;; need_advcontrol b).

Definition file_create : M file unit :=
  run <- flip ;;
  f0 <- get ;;
  when run
    ((h <- flip ;; when h check) ;;
     z <- flip ;;                                               (* true: AllowZeroBatches not set *)
     when z (match f_batches f0, f_iat f0 with [], [] => fail | _, _ => ret tt end)) ;;
  adv <- file_is_adv ;;
  f <- get ;;
  if negb adv then
    ro (for_batches f (fun b =>
          _ <- header_of b ;;
          (r <- flip ;; when (negb r) (_ <- header_of b ;; need_control b)) ;;
          need_control b ;; need_control b ;; need_control b ;; need_control b ;; need_control b) ;;
        for_iat f (fun b =>
          _ <- ih_of b ;;
          (r <- flip ;; when (negb r) (_ <- ih_of b ;; need_ibcontrol b)) ;;
          need_ibcontrol b ;; need_ibcontrol b ;; need_ibcontrol b ;; need_ibcontrol b ;; need_ibcontrol b))
  else ro (create_file_adv f).

(* writer.go: Writer.Write; every writeLine may return the error of the io.Writer.
   writeLine(x) calls x.String(): the String methods of headers, controls and entries read their
   receiver, those of the addenda records return "" for a nil receiver. *)
Definition write_batch (adv : bool) (f : file) : R unit :=
  for_batches f (fun b =>
    _ <- header_of b ;; check ;;                                (* writeLine(batch.GetHeader()) *)
    (if negb adv then for_entries b (fun _ => check ;; check)
     else for_adv_entries b (fun _ => check ;; check)) ;;
    h <- header_of b ;;                                         (* batch.GetHeader().StandardEntryClassCode != ADV *)
    (if negb (sec_eqb (h_sec h) ADV) then need_control b else need_advcontrol b) ;; check).

Definition write_iat (f : file) : R unit :=
  for_iat f (fun b => _ <- ih_of b ;; check ;; for_iat_entries b (fun _ => check ;; check) ;; need_ibcontrol b ;; check).

Definition file_write (bypass : bool) : M file unit :=
  when (negb bypass) file_validate ;;
  check ;;                                                      (* writeLine(&file.Header) *)
  adv <- file_is_adv ;;
  f <- get ;;
  ro (write_batch adv f ;; write_iat f ;; check ;; check).

(* MarshalJSON: json.Marshal of the struct; encoding/json writes null for nil pointers and nil
   interfaces (contract of the library) *)
Definition file_marshal : M file unit := check.

(* reversal.go *)
Definition reverse_code (c : nat) : nat :=
  if Nat.eqb c 52 then 55 else if is_credit c then c + 5
  else if Nat.eqb c 55 then 52 else if is_debit c then c - 5 else c.

Fixpoint reverse_entries (l : list (option entry)) : R (list (option entry) * (bool * bool)) :=
  match l with
  | [] => ret ([], (false, false))
  | None :: _ => crash                                          (* entries[j].TransactionCode *)
  | Some e :: t =>
      r <- reverse_entries t ;;
      let '(t', (hc, hd)) := r in
      let c := e_code e in
      ret (Some (set_code (reverse_code c) e) :: t', (hc || is_debit c, hd || is_credit c))
  end.

Definition reversal_batch : M batch unit :=
  b <- get ;;
  h <- ro (header_of b) ;;                                      (* bh.CompanyEntryDescription = "REVERSAL" *)
  r <- ro (reverse_entries (b_entries b)) ;;
  let '(es, (has_credits, has_debits)) := r in
  (* bc == nil → NewBatchControl(); SetHeader(bh); SetControl(bc) *)
  let scc' := if has_credits && has_debits then Mixed else if has_debits then Debits
              else if has_credits then Credits else h_scc h in
  put (set_header (Some (mkheader (h_sec h) scc')) (set_control true (set_entries es b))) ;;
  match b_kind b with KBase => build | _ => ret tt end.         (* type assertion to *Batch → bb.build() *)

Definition file_reversal : M file unit := each_batch reversal_batch ;; file_create.

(* Batch.Create on every non-nil batch of the file (what a caller tabulating a file does); an error
   of one batch does not stop the caller *)
Definition each_present_batch (m : M batch unit) : M file unit :=
  zoom f_batches set_batches
    (traverse (fun x o => match x with None => OK tt None o | Some _ => on_some m x o end)).
Definition batches_create : M file unit := each_present_batch (try batch_create) ;; each_iat (try iat_create).
Definition batches_validate : M file unit :=
  f <- get ;;
  ro (forM_ (f_batches f) (fun ob => match ob with None => ret tt | Some b => try (batch_validate b) end) ;;
      for_iat f (fun b => try (iat_validate b))).

(* ------------------------------------------------------------------ *)
(* NewBatch / AddBatch and the operations that build new files *)

(* NewBatch(bh): nil for IAT and unknown codes; NewBatchADV installs the ADV control, the others the BatchControl *)
Definition new_batch (h : header) : option batch :=
  if sec_valid (h_sec h) then
    Some (mkbatch (KSec (h_sec h)) (Some h) (negb (sec_eqb (h_sec h) ADV)) (sec_eqb (h_sec h) ADV) false [] [])
  else None.

(* mergeableBatcher.Copy: NewBatch(&header), or ConvertBatchType(Batch{Header, Control: NewBatchControl()}) — the plain
   Batch whose Create and Validate return an error — when NewBatch rejects the SEC code *)
Definition copy_batch (h : header) : batch :=
  match new_batch h with
  | Some nb => nb
  | None => mkbatch KBase (Some h) true false false [] []
  end.

Definition new_file : file := mkfile [] [].

(* File.AddBatch: nil test, then batch.Category() *)
Definition add_batch (ob : option batch) (f : file) : R file :=
  match ob with
  | None => ret f
  | Some b => batch_category b ;; ret (set_batches (f_batches f ++ [Some b]) f)
  end.

(* NewIATBatch(bh): header (a fresh one when nil) and control installed *)
Definition new_iat_batch (h : iat_header) : iat_batch := mkib (Some h) true [].
Definition add_iat (b : iat_batch) (f : file) : file := set_iat (f_iat f ++ [b]) f.

(* `_ = creditBatch.Create(); creditFile.AddBatch(creditBatch)` when the new batch received entries *)
Definition create_and_add (nonempty : bool) (ob : option batch) (f : file) : R file :=
  match ob with
  | Some c => if nonempty then (r <- local_try c batch_create ;; add_batch (Some (snd r)) f) else ret f
  | None => ret f
  end.

Fixpoint split_entries (l : list (option entry)) (cb db : option batch) : R (option batch * option batch) :=
  match l with
  | [] => ret (cb, db)
  | None :: _ => crash                                          (* entry.TransactionCode *)
  | Some e :: t =>
      if is_credit (e_code e) then
        match cb with None => fail | Some c => split_entries t (Some (set_entries (b_entries c ++ [Some e]) c)) db end
      else if is_debit (e_code e) then
        match db with None => fail | Some d => split_entries t cb (Some (set_entries (b_entries d ++ [Some e]) d)) end
      else split_entries t cb db
  end.

Fixpoint split_adv_entries (l : list (option adv_entry)) (cb db : option batch) : R (option batch * option batch) :=
  match l with
  | [] => ret (cb, db)
  | None :: _ => crash
  | Some e :: t =>
      if adv_is_credit (ae_code e) then
        match cb with None => fail | Some c => split_adv_entries t (Some (set_adventries (b_adventries c ++ [Some e]) c)) db end
      else if adv_is_debit (ae_code e) then
        match db with None => fail | Some d => split_adv_entries t cb (Some (set_adventries (b_adventries d ++ [Some e]) d)) end
      else split_adv_entries t cb db
  end.

Definition nonempty {A} (l : list A) : bool := match l with [] => false | _ => true end.

(* File.segmentFileBatches, one batch *)
Definition segment_batch (b : batch) (cf df : file) : R (file * file) :=
  h <- header_of b ;;                                           (* bh := batch.GetHeader(); bh.StandardEntryClassCode *)
  if sec_eqb (h_sec h) ADV then
    match h_scc h with
    | Advices =>
        r <- split_adv_entries (b_adventries b) (new_batch (mkheader (h_sec h) Advices)) (new_batch (mkheader (h_sec h) Advices)) ;;
        cf' <- create_and_add (match fst r with Some c => nonempty (b_adventries c) | None => false end) (fst r) cf ;;
        df' <- create_and_add (match snd r with Some d => nonempty (b_adventries d) | None => false end) (snd r) df ;;
        ret (cf', df')
    | _ => ret (cf, df)
    end
  else
    match h_scc h with
    | Mixed =>
        r <- split_entries (b_entries b) (new_batch (mkheader (h_sec h) Credits)) (new_batch (mkheader (h_sec h) Debits)) ;;
        cf' <- create_and_add (match fst r with Some c => nonempty (b_entries c) | None => false end) (fst r) cf ;;
        df' <- create_and_add (match snd r with Some d => nonempty (b_entries d) | None => false end) (snd r) df ;;
        ret (cf', df')
    | Credits => cf' <- add_batch (Some b) cf ;; ret (cf', df)
    | Debits => df' <- add_batch (Some b) df ;; ret (cf, df')
    | _ => ret (cf, df)
    end.

Fixpoint segment_batches (l : list (option batch)) (cf df : file) : R (file * file) :=
  match l with
  | [] => ret (cf, df)
  | None :: _ => crash                                          (* batch.GetHeader() *)
  | Some b :: t => r <- segment_batch b cf df ;; segment_batches t (fst r) (snd r)
  end.

Fixpoint split_iat_entries (l : list (option iat_entry)) (cb db : iat_batch) : R (iat_batch * iat_batch) :=
  match l with
  | [] => ret (cb, db)
  | None :: _ => crash                                          (* IATEntry.TraceNumber = "" *)
  | Some e :: t =>
      if is_credit (ie_code e) then split_iat_entries t (set_ib_entries (ib_entries cb ++ [Some e]) cb) db
      else if is_debit (ie_code e) then split_iat_entries t cb (set_ib_entries (ib_entries db ++ [Some e]) db)
      else split_iat_entries t cb db
  end.

Definition iat_create_and_add (b : iat_batch) (f : file) : R file :=
  if nonempty (ib_entries b) then (r <- local_try b iat_create ;; ret (add_iat (snd r) f)) else ret f.

Fixpoint segment_iat (l : list iat_batch) (cf df : file) : R (file * file) :=
  match l with
  | [] => ret (cf, df)
  | b :: t =>
      h <- ih_of b ;;                                           (* IATBh.ServiceClassCode *)
      r <- (match ih_scc h with
            | Mixed =>
                (* createSegmentFileIATBatchHeader copies the SEC code and (since 27bda8a6) the IATIndicator *)
                r <- split_iat_entries (ib_entries b) (new_iat_batch (mkih Credits (ih_cor h))) (new_iat_batch (mkih Debits (ih_cor h))) ;;
                cf' <- iat_create_and_add (fst r) cf ;;
                df' <- iat_create_and_add (snd r) df ;;
                ret (cf', df')
            | Credits => ret (add_iat b cf, df)
            | Debits => ret (cf, add_iat b df)
            | _ => ret (cf, df)
            end) ;;
      segment_iat t (fst r) (snd r)
  end.

Definition nonempty_file (f : file) : bool := nonempty (f_batches f) || nonempty (f_iat f).

(* Create and Validate of a file the operation built *)
Definition finish_file (f : file) : R file :=
  if nonempty_file f then (x <- local f (file_create ;; file_validate) ;; ret (snd x)) else ret f.

(* File.SegmentFile *)
Definition file_segment : M file (file * file) :=
  file_validate ;;
  f <- get ;;
  ro (r <- segment_batches (f_batches f) new_file new_file ;;
      r <- segment_iat (f_iat f) (fst r) (snd r) ;;
      c <- finish_file (fst r) ;;
      d <- finish_file (snd r) ;;
      ret (c, d)).

(* file_flattener.go: Flatten.  A "mergeable" is a batch or an IAT batch; sort.Slice calls the
   comparison (GetEntryCount: len(b.batcher.GetEntries())) only for slices of two or more elements. *)
Definition same_header (a b : batch) : bool :=
  match b_header a, b_header b with
  | Some x, Some y => sec_eqb (h_sec x) (h_sec y) && scc_eqb (h_scc x) (h_scc y)
  | _, _ => false
  end.

Definition present_entries (l : list (option entry)) : list (option entry) :=
  filter (fun e => match e with Some _ => true | None => false end) l.

(* Consume into the first flattened batch with the same header the oracle allows (header signatures and
   trace numbers are data), else Copy().  AddEntry drops nil entries. *)
Fixpoint consume_into (b : batch) (outs : list batch) : R (option (list batch)) :=
  match outs with
  | [] => ret None
  | x :: t =>
      if same_header b x then
        m <- flip ;;                                            (* true: trace numbers collide *)
        if m then (r <- consume_into b t ;; ret (option_map (cons x) r))
        else ret (Some (set_adventries (b_adventries x ++ b_adventries b)
                          (set_entries (b_entries x ++ present_entries (b_entries b)) x) :: t))
      else (r <- consume_into b t ;; ret (option_map (cons x) r))
  end.

Definition all_some {A} (l : list (option A)) : R unit :=
  forM_ l (fun oe => match oe with None => crash | Some _ => ret tt end).

Fixpoint flatten_batches (l : list (option batch)) (outs : list batch) : R (list batch) :=
  match l with
  | [] => ret outs
  | None :: _ => crash                                          (* b.batcher.GetHeader() *)
  | Some b :: t =>
      h <- header_of b ;;                                       (* BatchHeader.String() reads its receiver *)
      nomatch <- flip ;;                                        (* true: no flattened batch has this header signature *)
      r <- (if nomatch || negb (existsb (same_header b) outs) then ret None
            else
              (* canMerge → GetTraceNumbers: entry.TraceNumber of every entry *)
              all_some (b_entries b) ;; consume_into b outs) ;;
      match r with
      | Some outs' =>
          all_some (b_adventries b) ;;                          (* AddADVEntry(advEntries[i]) reads entry.Category *)
          flatten_batches t outs'
      | None =>
          (* Copy(): NewBatch(&header); for a SEC code NewBatch rejects a plain Batch (header and control installed,
             Create fails) takes its place; then Consume *)
          let nb := copy_batch h in
          all_some (b_adventries b) ;;
          flatten_batches t (outs ++ [set_adventries (b_adventries b) (set_entries (present_entries (b_entries b)) nb)])
      end
  end.

Fixpoint flatten_iat (l : list iat_batch) (outs : list iat_batch) : R (list iat_batch) :=
  match l with
  | [] => ret outs
  | b :: t =>
      h <- ih_of b ;;                                           (* b.iatBatch.Header.String() *)
      all_some (ib_entries b) ;;                                (* Consume: AddEntry(entry) reads entry.Category *)
      flatten_iat t (outs ++ [mkib (Some h) true (ib_entries b)])
  end.

(* AddToFile: Create() of every flattened batch; on error the batch is not added *)
Fixpoint add_flattened (l : list batch) (nf : file) : R file :=
  match l with
  | [] => ret nf
  | b :: t =>
      r <- local_try b batch_create ;;
      if fst r then (nf' <- add_batch (Some (snd r)) nf ;; add_flattened t nf') else add_flattened t nf
  end.
Fixpoint add_flattened_iat (l : list iat_batch) (nf : file) : R file :=
  match l with
  | [] => ret nf
  | b :: t =>
      r <- local_try b iat_create ;;
      if fst r then add_flattened_iat t (add_iat (snd r) nf) else add_flattened_iat t nf
  end.

Definition file_flatten (f : file) : R file :=
  (* sort.Slice(originalBatches, GetEntryCount) *)
  when (1 <? length (f_batches f) + length (f_iat f)) (all_some (f_batches f)) ;;
  outs <- flatten_batches (f_batches f) [] ;;
  iouts <- flatten_iat (f_iat f) [] ;;
  nf <- add_flattened outs new_file ;;
  nf <- add_flattened_iat iouts nf ;;
  r <- local nf (file_create ;; file_validate) ;;
  check ;; check ;; check ;;                                    (* sanity checks on the (value) file controls *)
  ret (snd r).

(* merge.go: MergeFiles(files); nil elements allowed in the argument *)
Fixpoint merge_add (l : list (option batch)) (outs : list batch) : R (list batch) :=
  match l with
  | [] => ret outs
  | None :: _ => crash                                          (* incoming.Batches[j].GetHeader() *)
  | Some b :: t =>
      match b_header b with
      | None => fail                                            (* "batch[%d] has nil BatchHeader" *)
      | Some h =>
          all_some (b_entries b) ;;                             (* entries[m].TraceNumber *)
          match b_entries b with
          | [] => merge_add t outs
          | es => merge_add t (outs ++ [mkbatch (KSec (h_sec h)) (Some h) true false false es []])
          end
      end
  end.

Fixpoint merge_files_add (l : list (option file)) (outs : list batch) : R (list batch) :=
  match l with
  | [] => ret outs
  | None :: _ => crash                                          (* incoming.Header *)
  | Some f :: t => outs' <- merge_add (f_batches f) outs ;; merge_files_add t outs'
  end.

(* convertToFiles: NewBatch per merged batch (error returned), AddEntry, Create, AddBatch, file.Create *)
Fixpoint merge_convert (l : list batch) (nf : file) : R file :=
  match l with
  | [] => ret nf
  | b :: t =>
      h <- header_of b ;;
      match new_batch h with
      | None => fail
      | Some nb =>
          r <- local (set_entries (b_entries b) nb) batch_create ;;
          nf' <- add_batch (Some (snd r)) nf ;;
          merge_convert t nf'
      end
  end.

Definition merge_files (fs : list (option file)) : R (option file) :=
  match fs with
  | [] => ret None
  | None :: _ => crash                                          (* incoming[0].Header *)
  | Some _ :: _ =>
      outs <- merge_files_add fs [] ;;
      nf <- merge_convert outs new_file ;;
      match f_batches nf with
      | [] => ret None
      | _ => r <- local nf file_create ;; ret (Some (snd r))
      end
  end.

(* ------------------------------------------------------------------ *)
(* The operations of the statement *)

Inductive op := OValidate | OCreate | OWrite | OWriteBypass | OMarshal | OSegment | OFlatten | OMerge
              | OReversal | OBatchCreate | OBatchValidate.

(* one operation on the file; operations that return new files leave the input as they mutated it *)
Definition run_op (x : op) : M file unit :=
  match x with
  | OValidate => file_validate
  | OCreate => file_create
  | OWrite => file_write false
  | OWriteBypass => file_write true
  | OMarshal => file_marshal
  | OSegment => _ <- file_segment ;; ret tt
  | OFlatten => f <- get ;; _ <- ro (file_flatten f) ;; ret tt
  | OMerge => f <- get ;; _ <- ro (merge_files [Some f]) ;; ret tt
  | OReversal => file_reversal
  | OBatchCreate => batches_create
  | OBatchValidate => batches_validate
  end.

(* a call sequence: every operation continues on the file as the previous one left it, whether it
   returned an error or not *)
Fixpoint run_ops (xs : list op) : M file unit :=
  match xs with [] => ret tt | x :: t => try (run_op x) ;; run_ops t end.

(* … or on the file the operation returned (SegmentFile: the credit file) *)
Definition run_op_result (x : op) : M file unit :=
  match x with
  | OSegment => r <- file_segment ;; put (fst r)
  | OFlatten => f <- get ;; r <- ro (file_flatten f) ;; put r
  | OMerge => f <- get ;; r <- ro (merge_files [Some f]) ;; (match r with Some g => put g | None => ret tt end)
  | _ => run_op x
  end.
Fixpoint run_ops_result (xs : list op) : M file unit :=
  match xs with [] => ret tt | x :: t => try (run_op_result x) ;; run_ops_result t end.

Definition panics {S A} (r : outcome S A) : bool := match r with PANIC => true | _ => false end.

(* ------------------------------------------------------------------ *)
(* Well-formed shapes: what the constructors (NewBatch, NewBatch<SEC>, NewIATBatch, AddEntry), the reader
   and FileFromJSON establish.  A batch has its header, the control that matches its SEC code (ADV batches
   carry the ADVBatchControl, the others the BatchControl — the other one may be nil), no nil entry and no
   nil Addenda05; an IAT batch has header and control, no nil entry, no nil Addenda17/18 (the mandatory
   addenda 10-16 may be missing: validation reports them).  A file holds no nil Batcher. *)
Definition all_true (l : list bool) : bool := forallb (fun x => x) l.
Definition present {A} (x : option A) : bool := match x with Some _ => true | None => false end.
Definition wf_entry (e : entry) : bool := all_true (e_a05 e).
Definition wf_entries (l : list (option entry)) : bool :=
  forallb (fun oe => match oe with Some e => wf_entry e | None => false end) l.
(* [strict]: the header also carries a SEC code ach.NewBatch accepts (FlattenBatches drops the error of
   NewBatch: known finding panic:ach.mergeableBatcher.Consume) *)
Definition wf_batch_s (strict : bool) (b : batch) : bool :=
  match b_header b with
  | None => false
  | Some h => (if sec_eqb (h_sec h) ADV then b_adv b else b_control b)
              && wf_entries (b_entries b) && forallb present (b_adventries b)
              && (negb strict || sec_valid (h_sec h))
  end.
Definition wf_batch := wf_batch_s false.
Definition wf_iat_entry (e : iat_entry) : bool := all_true (ie_a17 e) && all_true (ie_a18 e).
Definition wf_iat (b : iat_batch) : bool :=
  present (ib_header b) && ib_control b
  && forallb (fun oe => match oe with Some e => wf_iat_entry e | None => false end) (ib_entries b).
Definition wf_file_s (strict : bool) (f : file) : bool :=
  forallb (fun ob => match ob with Some b => wf_batch_s strict b | None => false end) (f_batches f)
  && forallb wf_iat (f_iat f).
Definition wf_file := wf_file_s false.
(* … and every SEC code is one NewBatch accepts *)
Definition wf_file_strict := wf_file_s true.

(* every header carries a SEC code NewBatch accepts *)
Definition secs_valid (f : file) : bool :=
  forallb (fun ob => match ob with
                     | Some b => match b_header b with Some h => sec_valid (h_sec h) | None => true end
                     | None => true
                     end) (f_batches f).

(* which conjunct of [wf_file] a shape violates first: the class of the known finding *)
Inductive shape_class := ShWf | ShNilBatcher | ShNilHeader | ShNilControl | ShNilEntry | ShNilAddenda
                       | ShNilIATHeader | ShNilIATControl | ShNilIATEntry | ShNilIATAddenda.

Definition batch_class (b : batch) : shape_class :=
  match b_header b with
  | None => ShNilHeader
  | Some h =>
      if negb (if sec_eqb (h_sec h) ADV then b_adv b else b_control b) then ShNilControl
      else if negb (forallb present (b_entries b) && forallb present (b_adventries b)) then ShNilEntry
      else if negb (wf_entries (b_entries b)) then ShNilAddenda
      else ShWf
  end.
Definition iat_class (b : iat_batch) : shape_class :=
  if negb (present (ib_header b)) then ShNilIATHeader
  else if negb (ib_control b) then ShNilIATControl
  else if negb (forallb present (ib_entries b)) then ShNilIATEntry
  else if negb (wf_iat b) then ShNilIATAddenda
  else ShWf.
Definition first_class (l : list shape_class) : shape_class :=
  fold_right (fun c acc => match c with ShWf => acc | _ => c end) ShWf l.
Definition file_class (f : file) : shape_class :=
  first_class (map (fun ob => match ob with None => ShNilBatcher | Some b => batch_class b end) (f_batches f)
               ++ map iat_class (f_iat f)).

(* Proofs about the SegmentFile model: for every file (induction over batches and
   entries), given the reflection obligation seg_tables_ok on the regenerated tables. *)
From Coq Require Import ZArith NArith List Bool Lia Permutation.
Import ListNotations.
From ACH Require Import TxCodes RevTable SegTable Segment.
Open Scope Z_scope.

(* ---------------------------------------------------------------- entry lists *)

Section Lists.
  Variable arms : list seg_arm.

  Lemma goes_cases e : classify arms (e_code e) <> TNone ->
    (goes arms TCredit e = true /\ goes arms TDebit e = false) \/
    (goes arms TCredit e = false /\ goes arms TDebit e = true).
  Proof. unfold goes. destruct (classify arms (e_code e)); cbn; intros H; auto; congruence. Qed.

  Lemma filter_perm es : (forall e, In e es -> classify arms (e_code e) <> TNone) ->
    Permutation (map e_id (filter (goes arms TCredit) es) ++ map e_id (filter (goes arms TDebit) es)) (map e_id es).
  Proof.
    induction es as [|e r IH]; intros H; [constructor|].
    assert (Hr : forall x, In x r -> classify arms (e_code x) <> TNone) by (intros x Hx; apply H; now right).
    specialize (IH Hr). cbn [filter map].
    destruct (goes_cases e (H e (or_introl eq_refl))) as [[-> ->]|[-> ->]]; cbn [map app].
    - now constructor.
    - apply Permutation_sym, Permutation_cons_app, Permutation_sym, IH.
  Qed.

  Lemma sum_filter_same t es : sum_dir arms t (filter (goes arms t) es) = sum_dir arms t es.
  Proof.
    induction es as [|e r IH]; [reflexivity|]. cbn [filter sum_dir].
    destruct (goes arms t e) eqn:E; cbn [sum_dir]; rewrite ?E, IH; lia.
  Qed.

  Lemma goes_excl t u e : t <> u -> goes arms t e = true -> goes arms u e = false.
  Proof. unfold goes. destruct (classify arms (e_code e)), t, u; cbn; congruence. Qed.

  Lemma sum_all_other t u es : t <> u -> forallb (goes arms t) es = true -> sum_dir arms u es = 0.
  Proof.
    intros Htu. induction es as [|e r IH]; intros H; [reflexivity|].
    cbn [forallb] in H. apply andb_prop in H as [He Hr]. cbn [sum_dir].
    rewrite (goes_excl t u e Htu He), (IH Hr). reflexivity.
  Qed.

  Lemma filter_all t es : forallb (goes arms t) (filter (goes arms t) es) = true.
  Proof. apply forallb_forall. intros e He. now apply filter_In in He as [_ He]. Qed.

  Lemma retrace_ids n es : map e_id (retrace n es) = map e_id es.
  Proof. revert n. induction es as [|e r IH]; intros n; [reflexivity|]. cbn [retrace map e_id]. now rewrite IH. Qed.

  Lemma retrace_sum t n es : sum_dir arms t (retrace n es) = sum_dir arms t es.
  Proof. revert n. induction es as [|e r IH]; intros n; [reflexivity|]. cbn [retrace sum_dir]. now rewrite IH. Qed.

  Lemma retrace_all t n es : forallb (goes arms t) (retrace n es) = forallb (goes arms t) es.
  Proof. revert n. induction es as [|e r IH]; intros n; [reflexivity|]. cbn [retrace forallb]. now rewrite IH. Qed.
End Lists.

Lemma goes_ext a1 a2 t e : (forall c, classify a1 c = classify a2 c) -> goes a1 t e = goes a2 t e.
Proof. intros H. unfold goes. now rewrite H. Qed.

Lemma filter_goes_ext a1 a2 t es : (forall c, classify a1 c = classify a2 c) ->
  filter (goes a1 t) es = filter (goes a2 t) es.
Proof. intros H. apply filter_ext. intros e. now apply goes_ext. Qed.

(* ---------------------------------------------------------------- batch lists *)

Lemma ids_of_app a b : ids_of (a ++ b) = ids_of a ++ ids_of b.
Proof. unfold ids_of. apply flat_map_app. Qed.

Lemma tot_credit_app a b : tot_credit (a ++ b) = tot_credit a + tot_credit b.
Proof. induction a as [|x a IH]; cbn [app tot_credit]; [lia|rewrite IH; lia]. Qed.
Lemma tot_debit_app a b : tot_debit (a ++ b) = tot_debit a + tot_debit b.
Proof. induction a as [|x a IH]; cbn [app tot_debit]; [lia|rewrite IH; lia]. Qed.

Lemma fresh_ids amt adv scc num id es : ids_of (fresh amt adv scc num id es) = map e_id es.
Proof. destruct es; [reflexivity|]. unfold fresh, ids_of. cbn [flat_map sb_entries]. apply app_nil_r. Qed.
Lemma fresh_credit amt adv scc num id es : tot_credit (fresh amt adv scc num id es) = sum_dir amt TCredit es.
Proof. destruct es; [reflexivity|]. unfold fresh. cbn [tot_credit sb_credit]. lia. Qed.
Lemma fresh_debit amt adv scc num id es : tot_debit (fresh amt adv scc num id es) = sum_dir amt TDebit es.
Proof. destruct es; [reflexivity|]. unfold fresh. cbn [tot_debit sb_debit]. lia. Qed.
Lemma fresh_In amt adv scc num id es x : In x (fresh amt adv scc num id es) ->
  sb_entries x = es /\ sb_ident x = id /\ sb_adv x = adv /\ sb_scc x = scc
  /\ sb_credit x = sum_dir amt TCredit es /\ sb_debit x = sum_dir amt TDebit es /\ es <> [].
Proof. destruct es; [intros []|]. unfold fresh. intros [<-|[]]. cbn. repeat split; congruence. Qed.

Lemma renumber_ids s bs : ids_of (renumber s bs) = ids_of bs.
Proof.
  revert s. induction bs as [|b r IH]; intros s; [reflexivity|].
  cbn [renumber]. unfold ids_of in *. cbn [flat_map]. rewrite IH. now destruct (sb_num b <=? 1).
Qed.
Lemma renumber_credit s bs : tot_credit (renumber s bs) = tot_credit bs.
Proof.
  revert s. induction bs as [|b r IH]; intros s; [reflexivity|].
  cbn [renumber tot_credit]. rewrite IH. now destruct (sb_num b <=? 1).
Qed.
Lemma renumber_debit s bs : tot_debit (renumber s bs) = tot_debit bs.
Proof.
  revert s. induction bs as [|b r IH]; intros s; [reflexivity|].
  cbn [renumber tot_debit]. rewrite IH. now destruct (sb_num b <=? 1).
Qed.
(* a renumbered batch differs from its source in the number only *)
Lemma renumber_In s bs x : In x (renumber s bs) ->
  exists b, In b bs /\ sb_entries x = sb_entries b /\ sb_ident x = sb_ident b /\ sb_adv x = sb_adv b
            /\ sb_scc x = sb_scc b /\ sb_credit x = sb_credit b /\ sb_debit x = sb_debit b.
Proof.
  revert s. induction bs as [|b r IH]; intros s; [intros []|].
  cbn [renumber]. intros [<-|Hin].
  - exists b. split; [now left|]. destruct (sb_num b <=? 1); cbn; repeat split.
  - destruct (IH _ Hin) as (b' & Hb & Hrest). exists b'. split; [now right|exact Hrest].
Qed.

Lemma perm_interleave {A} (a1 r1 a2 r2 : list A) :
  Permutation ((a1 ++ r1) ++ (a2 ++ r2)) ((a1 ++ a2) ++ (r1 ++ r2)).
Proof.
  rewrite <- !app_assoc. apply Permutation_app_head. apply Permutation_app_swap_app.
Qed.

Lemma perm_flat_map {B} (fc fd : B -> list sbatch) (gid : B -> list N) bs :
  (forall b, In b bs -> Permutation (ids_of (fc b) ++ ids_of (fd b)) (gid b)) ->
  Permutation (ids_of (flat_map fc bs) ++ ids_of (flat_map fd bs)) (flat_map gid bs).
Proof.
  induction bs as [|b r IH]; intros H; [constructor|].
  cbn [flat_map]. rewrite !ids_of_app.
  eapply Permutation_trans; [apply perm_interleave|].
  apply Permutation_app; [apply H; now left|apply IH; intros x Hx; apply H; now right].
Qed.

Lemma tot_flat_map {B} (f : B -> list sbatch) (g : B -> Z) (tot : list sbatch -> Z) bs :
  tot [] = 0 -> (forall a b, tot (a ++ b) = tot a + tot b) ->
  (forall b, In b bs -> tot (f b) = g b) ->
  tot (flat_map f bs) = fold_right (fun b acc => g b + acc) 0 bs.
Proof.
  intros H0 Happ H. induction bs as [|b r IH]; [exact H0|].
  cbn [flat_map fold_right]. rewrite Happ, (H b (or_introl eq_refl)), IH; [reflexivity|].
  intros x Hx. apply H. now right.
Qed.

Lemma tot_credit_fold bs : tot_credit bs = fold_right (fun b acc => sb_credit b + acc) 0 bs.
Proof. induction bs as [|b r IH]; [reflexivity|]. cbn [tot_credit fold_right]. now rewrite IH. Qed.
Lemma tot_debit_fold bs : tot_debit bs = fold_right (fun b acc => sb_debit b + acc) 0 bs.
Proof. induction bs as [|b r IH]; [reflexivity|]. cbn [tot_debit fold_right]. now rewrite IH. Qed.
Lemma fold_zero {B} (bs : list B) : fold_right (fun _ acc => 0 + acc) 0 bs = 0.
Proof. induction bs as [|b r IH]; [reflexivity|]. cbn [fold_right]. now rewrite IH. Qed.

(* ---------------------------------------------------------------- one batch *)

Lemma memz_three c a b d : memz c [a; b; d] = true -> c = a \/ c = b \/ c = d.
Proof.
  intros H. apply memz_In in H. destruct H as [H|[H|[H|[]]]]; auto.
Qed.

Lemma amount_lists_dir amt std c : amount_ok amt std = true -> entry_code std c = true ->
  classify amt c = digit_dir c.
Proof.
  intros Hok Hc. unfold amount_ok in Hok. apply andb_prop in Hok as [_ Hall].
  rewrite forallb_forall in Hall.
  assert (Hin : In c std).
  { unfold entry_code in Hc. apply andb_prop in Hc as [Hc _]. apply andb_prop in Hc as [Hc _]. now apply memz_In. }
  specialize (Hall c Hin). rewrite Hc in Hall. cbn [implb] in Hall. now apply target_eqb_eq.
Qed.

Section WithTables.
  Variable T : stables.
  Hypothesis HT : seg_tables_ok T = true.

  Lemma HT_parts :
    lists_agree (st_seg_std T) (st_amt_std T) = true /\ lists_agree (st_seg_iat T) (st_amt_iat T) = true
    /\ lists_agree (st_seg_adv T) (st_amt_adv T) = true /\ scc_ok (st_scc_std T) = true /\ scc_ok (st_scc_iat T) = true
    /\ amount_ok (st_amt_std T) (st_codes T) = true /\ amount_ok (st_amt_iat T) (st_codes T) = true
    /\ adv_codes_ok (st_amt_adv T) (st_codes T) = true
    /\ entry_codes_directed (st_amt_std T) (st_codes T) = true /\ entry_codes_directed (st_amt_iat T) (st_codes T) = true.
  Proof.
    unfold seg_tables_ok in HT.
    apply andb_prop in HT as [H H10]. apply andb_prop in H as [H H9]. apply andb_prop in H as [H H8].
    apply andb_prop in H as [H H7]. apply andb_prop in H as [H H6]. apply andb_prop in H as [H H5].
    apply andb_prop in H as [H H4]. apply andb_prop in H as [H H3]. apply andb_prop in H as [H1 H2].
    repeat split; assumption.
  Qed.

  Lemma agree k c : classify (seg_of T k) c = classify (amt_of T k) c.
  Proof.
    destruct HT_parts as (H1 & H2 & H3 & _).
    destruct k; cbn [seg_of amt_of]; now apply lists_agree_sound.
  Qed.

  Record bwf (k : bkind) (b : sbatch) : Prop := {
    w_dirs : forall e, In e (sb_entries b) -> classify (amt_of T k) (e_code e) <> TNone;
    w_credit : sb_credit b = sum_dir (amt_of T k) TCredit (sb_entries b);
    w_debit : sb_debit b = sum_dir (amt_of T k) TDebit (sb_entries b);
    w_adv : sb_adv b = match k with KAdv => true | _ => false end;
    w_class : match k with
              | KAdv => sb_scc b = 280
              | _ => sb_scc b = 200
                     \/ (sb_scc b = 220 /\ forallb (goes (amt_of T k) TCredit) (sb_entries b) = true)
                     \/ (sb_scc b = 225 /\ forallb (goes (amt_of T k) TDebit) (sb_entries b) = true)
              end }.

  Lemma ctl_wf_elim amt b : ctl_wf amt b = true ->
    sb_credit b = sum_dir amt TCredit (sb_entries b) /\ sb_debit b = sum_dir amt TDebit (sb_entries b).
  Proof.
    unfold ctl_wf. intros H. apply andb_prop in H as [H Hd]. apply andb_prop in H as [_ Hc].
    apply Z.eqb_eq in Hc, Hd. now split.
  Qed.

  (* a standard / IAT batch whose class is consistent with the digit rule, w.r.t. lists that follow the digit rule *)
  Lemma dir_wf_elim amt b :
    amount_ok amt (st_codes T) = true -> entry_codes_directed amt (st_codes T) = true -> dir_wf T b = true ->
    (forall e, In e (sb_entries b) -> classify amt (e_code e) <> TNone) /\
    (sb_scc b = 200 \/ (sb_scc b = 220 /\ forallb (goes amt TCredit) (sb_entries b) = true)
     \/ (sb_scc b = 225 /\ forallb (goes amt TDebit) (sb_entries b) = true)).
  Proof.
    intros Hamt Hdirected H. unfold dir_wf in H.
    apply andb_prop in H as [H H225]. apply andb_prop in H as [H H220]. apply andb_prop in H as [Hscc Hcodes].
    rewrite forallb_forall in Hcodes.
    assert (Hcls : forall e, In e (sb_entries b) -> classify amt (e_code e) = digit_dir (e_code e)).
    { intros e He. apply (amount_lists_dir amt (st_codes T)); [exact Hamt|now apply Hcodes]. }
    assert (Hall : forall t, all_dir t (sb_entries b) = true -> forallb (goes amt t) (sb_entries b) = true).
    { intros t Ht. unfold all_dir in Ht. rewrite forallb_forall in Ht. apply forallb_forall. intros e He.
      unfold goes. rewrite (Hcls e He). now apply Ht. }
    split.
    - intros e He. specialize (Hcodes e He).
      unfold entry_codes_directed in Hdirected. rewrite forallb_forall in Hdirected.
      assert (Hin : In (e_code e) (st_codes T)).
      { unfold entry_code in Hcodes. apply andb_prop in Hcodes as [Hc _]. apply andb_prop in Hc as [Hc _]. now apply memz_In. }
      specialize (Hdirected _ Hin). rewrite Hcodes in Hdirected. cbn [implb] in Hdirected.
      intros E. rewrite E in Hdirected. discriminate.
    - destruct (memz_three _ _ _ _ Hscc) as [E|[E|E]]; [now left| |].
      + right; left. split; [exact E|]. rewrite E in H220. cbn in H220. now apply Hall.
      + right; right. split; [exact E|]. rewrite E in H225. cbn in H225. now apply Hall.
  Qed.

  Lemma batch_ok_bwf b : batch_ok T b = true -> bwf KStd b.
  Proof.
    destruct HT_parts as (_ & _ & _ & _ & _ & Ha & _ & _ & Hd & _).
    unfold batch_ok. intros H. apply andb_prop in H as [H Hdir]. apply andb_prop in H as [Hadv Hctl].
    destruct (ctl_wf_elim _ _ Hctl) as [Hc Hdb].
    destruct (dir_wf_elim (st_amt_std T) b Ha Hd Hdir) as [H1 H2].
    constructor; cbn [amt_of]; auto. now destruct (sb_adv b).
  Qed.

  Lemma iat_wf_bwf b : iat_wf T b = true -> bwf KIat b.
  Proof.
    destruct HT_parts as (_ & _ & _ & _ & _ & _ & Ha & _ & _ & Hd).
    unfold iat_wf. intros H. apply andb_prop in H as [H Hdir]. apply andb_prop in H as [Hadv Hctl].
    destruct (ctl_wf_elim _ _ Hctl) as [Hc Hdb].
    destruct (dir_wf_elim (st_amt_iat T) b Ha Hd Hdir) as [H1 H2].
    constructor; cbn [amt_of]; auto. now destruct (sb_adv b).
  Qed.

  Lemma adv_wf_bwf b : adv_wf T b = true -> bwf KAdv b.
  Proof.
    unfold adv_wf. intros H. apply andb_prop in H as [H Hcodes]. apply andb_prop in H as [H Hscc].
    apply andb_prop in H as [Hadv Hctl]. destruct (ctl_wf_elim _ _ Hctl) as [Hc Hdb].
    apply Z.eqb_eq in Hscc. rewrite forallb_forall in Hcodes.
    constructor; cbn [amt_of]; auto.
    intros e He E. specialize (Hcodes e He). rewrite E in Hcodes. discriminate.
  Qed.

  Record part_spec (amt : list seg_arm) (b : sbatch) (pc pd : list sbatch) : Prop := {
    ps_perm : Permutation (ids_of pc ++ ids_of pd) (map e_id (sb_entries b));
    ps_cc : tot_credit pc = sb_credit b;
    ps_cd : tot_debit pc = 0;
    ps_dc : tot_credit pd = 0;
    ps_dd : tot_debit pd = sb_debit b;
    ps_cdir : forall x, In x pc -> forallb (goes amt TCredit) (sb_entries x) = true;
    ps_ddir : forall x, In x pd -> forallb (goes amt TDebit) (sb_entries x) = true;
    ps_same : forall x, In x (pc ++ pd) -> sb_ident x = sb_ident b /\ sb_adv x = sb_adv b }.

  Definition tr_ok (amt : list seg_arm) (tr : list entry -> list entry) : Prop :=
    (forall es, map e_id (tr es) = map e_id es)
    /\ (forall t es, sum_dir amt t (tr es) = sum_dir amt t es)
    /\ (forall t es, forallb (goes amt t) (tr es) = forallb (goes amt t) es).

  Lemma tr_ok_id amt : tr_ok amt (fun es => es).
  Proof. repeat split. Qed.
  Lemma tr_ok_retrace amt n : tr_ok amt (retrace n).
  Proof.
    repeat split; intros.
    - apply retrace_ids.
    - apply retrace_sum.
    - apply retrace_all.
  Qed.

  Lemma split_spec seg amt tr adv c d nc nd b :
    (forall x, classify seg x = classify amt x) -> tr_ok amt tr ->
    (forall e, In e (sb_entries b) -> classify amt (e_code e) <> TNone) ->
    sb_credit b = sum_dir amt TCredit (sb_entries b) -> sb_debit b = sum_dir amt TDebit (sb_entries b) ->
    sb_adv b = adv ->
    part_spec amt b
      (fresh amt adv c nc (sb_ident b) (tr (filter (goes seg TCredit) (sb_entries b))))
      (fresh amt adv d nd (sb_ident b) (tr (filter (goes seg TDebit) (sb_entries b)))).
  Proof.
    intros Hag (Tid & Tsum & Tall) Hdirs Hc Hd Hadv.
    rewrite !(filter_goes_ext seg amt _ _ Hag).
    constructor.
    - rewrite !fresh_ids, !Tid. now apply filter_perm.
    - rewrite fresh_credit, Tsum, sum_filter_same. now symmetry.
    - rewrite fresh_debit, Tsum. apply (sum_all_other amt TCredit TDebit); [congruence|apply filter_all].
    - rewrite fresh_credit, Tsum. apply (sum_all_other amt TDebit TCredit); [congruence|apply filter_all].
    - rewrite fresh_debit, Tsum, sum_filter_same. now symmetry.
    - intros x Hx. apply fresh_In in Hx as (-> & _). rewrite Tall. apply filter_all.
    - intros x Hx. apply fresh_In in Hx as (-> & _). rewrite Tall. apply filter_all.
    - intros x Hx. apply in_app_or in Hx as [Hx|Hx]; apply fresh_In in Hx as (_ & -> & -> & _); now split.
  Qed.

  Lemma reuse_credit_spec amt b :
    sb_credit b = sum_dir amt TCredit (sb_entries b) -> sb_debit b = sum_dir amt TDebit (sb_entries b) ->
    forallb (goes amt TCredit) (sb_entries b) = true -> part_spec amt b [b] [].
  Proof.
    intros Hc Hd Hall. constructor.
    - unfold ids_of. cbn [flat_map]. rewrite !app_nil_r. apply Permutation_refl.
    - cbn [tot_credit]. lia.
    - cbn [tot_debit]. rewrite Hd, (sum_all_other amt TCredit TDebit); [lia|congruence|exact Hall].
    - reflexivity.
    - cbn [tot_debit]. rewrite Hd, (sum_all_other amt TCredit TDebit); [lia|congruence|exact Hall].
    - intros x [<-|[]]. exact Hall.
    - intros x [].
    - cbn [app]. intros x [<-|[]]. now split.
  Qed.

  Lemma reuse_debit_spec amt b :
    sb_credit b = sum_dir amt TCredit (sb_entries b) -> sb_debit b = sum_dir amt TDebit (sb_entries b) ->
    forallb (goes amt TDebit) (sb_entries b) = true -> part_spec amt b [] [b].
  Proof.
    intros Hc Hd Hall. constructor.
    - unfold ids_of. cbn [flat_map app]. rewrite !app_nil_r. apply Permutation_refl.
    - cbn [tot_credit]. rewrite Hc, (sum_all_other amt TDebit TCredit); [lia|congruence|exact Hall].
    - reflexivity.
    - cbn [tot_credit]. rewrite Hc, (sum_all_other amt TDebit TCredit); [lia|congruence|exact Hall].
    - cbn [tot_debit]. lia.
    - intros x [].
    - intros x [<-|[]]. exact Hall.
    - cbn [app]. intros x [<-|[]]. now split.
  Qed.

  Theorem part_ok b : bwf (kind_of b) b ->
    part_spec (amt_of T (kind_of b)) b (part T true b) (part T false b).
  Proof.
    intros [Hdirs Hc Hd Hadv Hcls]. unfold part, kind_of in *.
    destruct (sb_adv b) eqn:Eadv.
    - rewrite Hcls. cbn [Z.eqb Pos.eqb]. cbn [amt_of] in *.
      apply (split_spec (st_seg_adv T) (st_amt_adv T) (fun es => es) true 280 280 (sb_num b) (sb_num b) b);
        [exact (agree KAdv)|apply tr_ok_id|exact Hdirs|exact Hc|exact Hd|exact Eadv].
    - destruct HT_parts as (_ & _ & _ & Hscc & _). destruct (scc_ok_sound _ Hscc) as (L200 & L220 & L225).
      cbn [amt_of] in *. destruct Hcls as [E|[[E Hall]|[E Hall]]]; rewrite E.
      + rewrite L200.
        apply (split_spec (st_seg_std T) (st_amt_std T) (fun es => es) false 220 225 (sb_num b) (sb_num b) b);
          [exact (agree KStd)|apply tr_ok_id|exact Hdirs|exact Hc|exact Hd|exact Eadv].
      + rewrite L220. now apply reuse_credit_spec.
      + rewrite L225. now apply reuse_debit_spec.
  Qed.

  Theorem ipart_ok b : bwf KIat b -> part_spec (st_amt_iat T) b (ipart T true b) (ipart T false b).
  Proof.
    intros [Hdirs Hc Hd Hadv Hcls]. unfold ipart. cbn [amt_of] in *.
    destruct HT_parts as (_ & _ & _ & _ & Hscc & _). destruct (scc_ok_sound _ Hscc) as (L200 & L220 & L225).
    destruct Hcls as [E|[[E Hall]|[E Hall]]]; rewrite E.
    - rewrite L200.
      apply (split_spec (st_seg_iat T) (st_amt_iat T) (retrace 1) false 220 225 1 1 b);
        [exact (agree KIat)|apply tr_ok_retrace|exact Hdirs|exact Hc|exact Hd|exact Hadv].
    - rewrite L220. now apply reuse_credit_spec.
    - rewrite L225. now apply reuse_debit_spec.
  Qed.
End WithTables.

(* ---------------------------------------------------------------- the whole file *)

Definition same_batch (x y : sbatch) : Prop :=
  sb_entries x = sb_entries y /\ sb_ident x = sb_ident y /\ sb_adv x = sb_adv y
  /\ sb_scc x = sb_scc y /\ sb_credit x = sb_credit y /\ sb_debit x = sb_debit y.

Definition uniform (bs is : list sbatch) : Prop :=
  (forallb sb_adv bs = true /\ is = []) \/ forallb (fun b => negb (sb_adv b)) bs = true.

Lemma no_adv_not_adv_file bs : forallb (fun b => negb (sb_adv b)) bs = true -> is_adv_file bs = false.
Proof.
  unfold is_adv_file. induction bs as [|b r IH]; [reflexivity|].
  cbn [forallb existsb]. intros H. apply andb_prop in H as [Hb Hr]. rewrite (IH Hr).
  now destruct (sb_adv b).
Qed.

Lemma create_uniform o d bs is : uniform bs is ->
  exists g m, create o d bs is = Some g /\ sf_origin g = o /\ sf_dest g = d
    /\ sf_batches g = renumber 1 bs /\ sf_iat g = renumber m is
    /\ sf_credit g = tot_credit bs + tot_credit is /\ sf_debit g = tot_debit bs + tot_debit is.
Proof.
  intros Hu. unfold create. destruct (is_adv_file bs) eqn:E.
  - destruct Hu as [[Hall ->]|Hnone].
    + rewrite Hall. eexists _, 0. split; [reflexivity|]. cbn [sf_origin sf_dest sf_batches sf_iat sf_credit sf_debit renumber tot_credit tot_debit].
      rewrite renumber_credit, renumber_debit. repeat split; lia.
    + rewrite (no_adv_not_adv_file _ Hnone) in E. discriminate.
  - eexists _, _. split; [reflexivity|]. cbn [sf_origin sf_dest sf_batches sf_iat sf_credit sf_debit].
    rewrite !renumber_credit, !renumber_debit. repeat split.
Qed.

Section FileLevel.
  Variable T : stables.
  Hypothesis HT : seg_tables_ok T = true.

  Record finished (o d : N) (bs is : list sbatch) (cf : sfile) : Prop := {
    fi_ids : file_ids cf = ids_of bs ++ ids_of is;
    fi_credit : sf_credit cf = tot_credit bs + tot_credit is;
    fi_debit : sf_debit cf = tot_debit bs + tot_debit is;
    fi_batches : forall x, In x (sf_batches cf) -> exists y, In y bs /\ same_batch x y;
    fi_iat : forall x, In x (sf_iat cf) -> exists y, In y is /\ same_batch x y;
    fi_valid : cf = empty_file \/ (validate T cf = None /\ sf_origin cf = o /\ sf_dest cf = d) }.

  Lemma finish_created o d bs is cf : uniform bs is ->
    match create o d bs is with
    | None => inr EAdvOnly
    | Some g => match validate T g with None => inl g | Some v => inr (EOutput v) end
    end = inl cf -> finished o d bs is cf.
  Proof.
    intros Hu H. destruct (create_uniform o d bs is Hu) as (g & m & Hc & Ho & Hd & Hb & Hi & Hcr & Hde).
    rewrite Hc in H. destruct (validate T g) eqn:Ev; [discriminate|]. injection H as <-.
    constructor; auto.
    - unfold file_ids. now rewrite Hb, Hi, !renumber_ids.
    - rewrite Hb. intros x Hx. destruct (renumber_In _ _ _ Hx) as (y & Hy & Hs). exists y. split; [exact Hy|exact Hs].
    - rewrite Hi. intros x Hx. destruct (renumber_In _ _ _ Hx) as (y & Hy & Hs). exists y. split; [exact Hy|exact Hs].
  Qed.

  Lemma finish_inl o d bs is cf : uniform bs is -> finish T o d bs is = inl cf -> finished o d bs is cf.
  Proof.
    intros Hu H. unfold finish in H. destruct bs as [|b r].
    - destruct is as [|i ri].
      + injection H as <-. constructor; try reflexivity; try (intros x []). now left.
      + now apply finish_created.
    - now apply finish_created.
  Qed.

  Lemma walk_totals (f : sbatch -> list sbatch) (g : sbatch -> list sbatch) amt bs :
    (forall b, In b bs -> part_spec (amt b) b (f b) (g b)) ->
    Permutation (ids_of (flat_map f bs) ++ ids_of (flat_map g bs)) (ids_of bs)
    /\ tot_credit (flat_map f bs) = tot_credit bs /\ tot_debit (flat_map f bs) = 0
    /\ tot_credit (flat_map g bs) = 0 /\ tot_debit (flat_map g bs) = tot_debit bs.
  Proof.
    intros H. repeat split.
    - apply (perm_flat_map f g (fun b => map e_id (sb_entries b))). intros b Hb. apply (ps_perm _ _ _ _ (H b Hb)).
    - rewrite (tot_flat_map f sb_credit tot_credit bs eq_refl tot_credit_app); [symmetry; apply tot_credit_fold|].
      intros b Hb. apply (ps_cc _ _ _ _ (H b Hb)).
    - rewrite (tot_flat_map f (fun _ => 0) tot_debit bs eq_refl tot_debit_app); [apply fold_zero|].
      intros b Hb. apply (ps_cd _ _ _ _ (H b Hb)).
    - rewrite (tot_flat_map g (fun _ => 0) tot_credit bs eq_refl tot_credit_app); [apply fold_zero|].
      intros b Hb. apply (ps_dc _ _ _ _ (H b Hb)).
    - rewrite (tot_flat_map g sb_debit tot_debit bs eq_refl tot_debit_app); [symmetry; apply tot_debit_fold|].
      intros b Hb. apply (ps_dd _ _ _ _ (H b Hb)).
  Qed.

  (* what File.Validate (as modelled) plus the generator-side conditions give about the input *)
  Lemma input_cases f : validate T f = None -> input_wf T f = true ->
    (forall b, In b (sf_batches f) -> bwf T (kind_of b) b)
    /\ (forall b, In b (sf_iat f) -> bwf T KIat b)
    /\ sf_credit f = tot_credit (sf_batches f) + tot_credit (sf_iat f)
    /\ sf_debit f = tot_debit (sf_batches f) + tot_debit (sf_iat f)
    /\ uniform (sf_batches f) (sf_iat f).
  Proof.
    intros Hv Hw. unfold input_wf in Hw. apply andb_prop in Hw as [Hiat Hadv].
    assert (HI : forall b, In b (sf_iat f) -> bwf T KIat b).
    { intros b Hb. rewrite forallb_forall in Hiat. now apply iat_wf_bwf, Hiat. }
    unfold validate in Hv. destruct (is_adv_file (sf_batches f)) eqn:E.
    - apply andb_prop in Hadv as [Hall Hnil]. destruct (sf_iat f) eqn:Ei; [|discriminate].
      destruct ((sf_credit f =? tot_credit (sf_batches f)) && (sf_debit f =? tot_debit (sf_batches f))) eqn:Et; [|discriminate].
      apply andb_prop in Et as [Ec Ed]. apply Z.eqb_eq in Ec, Ed.
      assert (Hadvs : forall b, In b (sf_batches f) -> sb_adv b = true).
      { intros b Hb. rewrite forallb_forall in Hall. specialize (Hall b Hb). unfold adv_wf in Hall.
        apply andb_prop in Hall as [Hall _]. apply andb_prop in Hall as [Hall _]. now apply andb_prop in Hall as [Hall _]. }
      split; [|split; [|split; [|split]]].
      + intros b Hb. unfold kind_of. rewrite (Hadvs b Hb). rewrite forallb_forall in Hall. now apply adv_wf_bwf, Hall.
      + intros b [].
      + cbn [tot_credit]. lia.
      + cbn [tot_debit]. lia.
      + left. split; [|reflexivity]. apply forallb_forall. exact Hadvs.
    - destruct (forallb (batch_ok T) (sf_batches f)) eqn:Eb; [|discriminate]. cbn [negb] in Hv.
      destruct ((sf_credit f =? tot_credit (sf_batches f) + tot_credit (sf_iat f))
                && (sf_debit f =? tot_debit (sf_batches f) + tot_debit (sf_iat f))) eqn:Et; [|discriminate].
      apply andb_prop in Et as [Ec Ed]. apply Z.eqb_eq in Ec, Ed.
      rewrite forallb_forall in Eb.
      assert (Hnadv : forall b, In b (sf_batches f) -> sb_adv b = false).
      { intros b Hb. specialize (Eb b Hb). unfold batch_ok in Eb. apply andb_prop in Eb as [Eb _].
        apply andb_prop in Eb as [Eb _]. now destruct (sb_adv b). }
      split; [|split; [|split; [|split]]]; auto.
      + intros b Hb. unfold kind_of. rewrite (Hnadv b Hb). now apply batch_ok_bwf, Eb.
      + right. apply forallb_forall. intros b Hb. now rewrite (Hnadv b Hb).
  Qed.

  Record partition (f cf df : sfile) : Prop := {
    pt_credits : file_dir T TCredit cf = true;
    pt_debits : file_dir T TDebit df = true;
    pt_perm : Permutation (file_ids cf ++ file_ids df) (file_ids f);
    pt_credit_total : sf_credit cf + sf_credit df = sf_credit f;
    pt_debit_total : sf_debit cf + sf_debit df = sf_debit f;
    pt_no_debit_in_cf : sf_debit cf = 0;
    pt_no_credit_in_df : sf_credit df = 0;
    pt_cf_valid : cf = empty_file \/ (validate T cf = None /\ sf_origin cf = sf_origin f /\ sf_dest cf = sf_dest f);
    pt_df_valid : df = empty_file \/ (validate T df = None /\ sf_origin df = sf_origin f /\ sf_dest df = sf_dest f);
    pt_idents : forall x, In x (sf_batches cf ++ sf_iat cf ++ sf_batches df ++ sf_iat df) ->
                exists b, In b (sf_batches f ++ sf_iat f) /\ sb_ident x = sb_ident b }.

  Lemma out_uniform bs is (fb fi : sbatch -> list sbatch) :
    uniform bs is ->
    (forall b x, In b bs -> In x (fb b) -> sb_adv x = sb_adv b) ->
    uniform (flat_map fb bs) (flat_map fi is).
  Proof.
    intros [[Hall ->]|Hnone] Hsame.
    - left. split; [|reflexivity]. apply forallb_forall. intros x Hx. apply in_flat_map in Hx as (b & Hb & Hx).
      rewrite (Hsame b x Hb Hx). rewrite forallb_forall in Hall. now apply Hall.
    - right. apply forallb_forall. intros x Hx. apply in_flat_map in Hx as (b & Hb & Hx).
      rewrite (Hsame b x Hb Hx). rewrite forallb_forall in Hnone. now apply Hnone.
  Qed.

  Theorem segment_partition f cf df :
    input_wf T f = true -> segment T f = SOk cf df -> partition f cf df.
  Proof.
    intros Hw Hs. unfold segment in Hs.
    destruct (validate T f) eqn:Ev; [discriminate|].
    destruct (input_cases f Ev Hw) as (HB & HI & Hcr & Hde & Hu).
    set (bs := sf_batches f) in *. set (is := sf_iat f) in *.
    destruct (finish T (sf_origin f) (sf_dest f) (flat_map (part T true) bs) (flat_map (ipart T true) is)) as [cf'|] eqn:Ec; [|discriminate].
    destruct (finish T (sf_origin f) (sf_dest f) (flat_map (part T false) bs) (flat_map (ipart T false) is)) as [df'|] eqn:Ed; [|discriminate].
    injection Hs as -> ->.
    assert (PB : forall b, In b bs -> part_spec (amt_of T (kind_of b)) b (part T true b) (part T false b))
      by (intros b Hb; apply part_ok; [exact HT|now apply HB]).
    assert (PI : forall b, In b is -> part_spec (st_amt_iat T) b (ipart T true b) (ipart T false b))
      by (intros b Hb; apply ipart_ok; [exact HT|now apply HI]).
    assert (SameB : forall cr b x, In b bs -> In x (part T cr b) -> sb_ident x = sb_ident b /\ sb_adv x = sb_adv b).
    { intros cr b x Hb Hx. apply (ps_same _ _ _ _ (PB b Hb)). apply in_or_app. destruct cr; auto. }
    assert (SameI : forall cr b x, In b is -> In x (ipart T cr b) -> sb_ident x = sb_ident b /\ sb_adv x = sb_adv b).
    { intros cr b x Hb Hx. apply (ps_same _ _ _ _ (PI b Hb)). apply in_or_app. destruct cr; auto. }
    assert (Uc : uniform (flat_map (part T true) bs) (flat_map (ipart T true) is))
      by (apply out_uniform; [exact Hu|intros b x Hb Hx; apply (SameB true b x Hb Hx)]).
    assert (Ud : uniform (flat_map (part T false) bs) (flat_map (ipart T false) is))
      by (apply out_uniform; [exact Hu|intros b x Hb Hx; apply (SameB false b x Hb Hx)]).
    destruct (finish_inl _ _ _ _ _ Uc Ec) as [Cids Ccr Cde Cb Ci Cv].
    destruct (finish_inl _ _ _ _ _ Ud Ed) as [Dids Dcr Dde Db Di Dv].
    destruct (walk_totals (part T true) (part T false) (fun b => amt_of T (kind_of b)) bs PB) as (Pb & B1 & B2 & B3 & B4).
    destruct (walk_totals (ipart T true) (ipart T false) (fun _ => st_amt_iat T) is PI) as (Pi & I1 & I2 & I3 & I4).
    constructor.
    - (* credit file holds credits only *)
      unfold file_dir, batches_dir. apply andb_true_intro. split; apply forallb_forall; intros x Hx.
      + destruct (Cb x Hx) as (y & Hy & (He & _ & Ha & _)). apply in_flat_map in Hy as (b & Hb & Hy).
        destruct (SameB true b y Hb Hy) as [_ Hadv].
        assert (Ek : kind_of x = kind_of b) by (unfold kind_of; now rewrite Ha, Hadv).
        rewrite Ek, He. apply (ps_cdir _ _ _ _ (PB b Hb) y Hy).
      + destruct (Ci x Hx) as (y & Hy & (He & _)). apply in_flat_map in Hy as (b & Hb & Hy).
        rewrite He. apply (ps_cdir _ _ _ _ (PI b Hb) y Hy).
    - unfold file_dir, batches_dir. apply andb_true_intro. split; apply forallb_forall; intros x Hx.
      + destruct (Db x Hx) as (y & Hy & (He & _ & Ha & _)). apply in_flat_map in Hy as (b & Hb & Hy).
        destruct (SameB false b y Hb Hy) as [_ Hadv].
        assert (Ek : kind_of x = kind_of b) by (unfold kind_of; now rewrite Ha, Hadv).
        rewrite Ek, He. apply (ps_ddir _ _ _ _ (PB b Hb) y Hy).
      + destruct (Di x Hx) as (y & Hy & (He & _)). apply in_flat_map in Hy as (b & Hb & Hy).
        rewrite He. apply (ps_ddir _ _ _ _ (PI b Hb) y Hy).
    - rewrite Cids, Dids. unfold file_ids. fold bs is.
      eapply Permutation_trans; [apply perm_interleave|]. now apply Permutation_app.
    - lia.
    - lia.
    - lia.
    - lia.
    - exact Cv.
    - exact Dv.
    - intros x Hx. fold bs is.
      assert (Hsrc : (exists y cr b, In b bs /\ In y (part T cr b) /\ sb_ident x = sb_ident y)
                     \/ (exists y cr b, In b is /\ In y (ipart T cr b) /\ sb_ident x = sb_ident y)).
      { apply in_app_or in Hx as [Hx|Hx]; [|apply in_app_or in Hx as [Hx|Hx]; [|apply in_app_or in Hx as [Hx|Hx]]].
        - destruct (Cb x Hx) as (y & Hy & (_ & Hid & _)). apply in_flat_map in Hy as (b & Hb & Hy). left. now exists y, true, b.
        - destruct (Ci x Hx) as (y & Hy & (_ & Hid & _)). apply in_flat_map in Hy as (b & Hb & Hy). right. now exists y, true, b.
        - destruct (Db x Hx) as (y & Hy & (_ & Hid & _)). apply in_flat_map in Hy as (b & Hb & Hy). left. now exists y, false, b.
        - destruct (Di x Hx) as (y & Hy & (_ & Hid & _)). apply in_flat_map in Hy as (b & Hb & Hy). right. now exists y, false, b. }
      destruct Hsrc as [(y & cr & b & Hb & Hy & Hid)|(y & cr & b & Hb & Hy & Hid)].
      + exists b. split; [apply in_or_app; now left|]. rewrite Hid. apply (SameB cr b y Hb Hy).
      + exists b. split; [apply in_or_app; now right|]. rewrite Hid. apply (SameI cr b y Hb Hy).
  Qed.
End FileLevel.

(* Phase 2, C05: Batch.build (with offsets) and File.Create produce what the validator
   model of C03 accepts.  [o_batch_valid]: an Offsets batch whose control equals the
   recomputation (C05_create_valid), with admissible entries and trace numbers, is
   accepted by Arith.validate_batch — each check of Batch.verify discharged from one fact.
   [build_arith_valid]: build establishes these facts for its result; [fresh_build_arith_valid]:
   for a batch without pre-set trace numbers nothing about the result is assumed. *)
From Coq Require Import Lia ZifyBool ZifyNat ZifyN Sorting.Sorted.
From ACH Require Import ValidOut ValidOutFacts NumFacts.
From ACH Require Import Offsets OffsetsFacts.
From ACH Require Export ValidOffsets.
Open Scope Z_scope.

(* ---- payload transport ---------------------------------------------------------- *)

Lemma d_retrace_fst odfi des : forall s, map fst (d_retrace odfi s des) = retrace odfi s (map fst des).
Proof. induction des as [|d des IH]; intros s; cbn [d_retrace retrace map fst]; [reflexivity|]. now rewrite IH. Qed.

Lemma d_retrace_snd odfi des : forall s, map snd (d_retrace odfi s des) = map snd des.
Proof. induction des as [|d des IH]; intros s; cbn [d_retrace map snd]; [reflexivity|]. now rewrite IH. Qed.

Lemma map_fst_filter des : map fst (filter d_nonoff des) = filter nonoff (map fst des).
Proof.
  induction des as [|d des IH]; cbn [filter map]; [reflexivity|]. unfold d_nonoff at 1.
  destruct (nonoff (fst d)); cbn [map]; now rewrite IH.
Qed.

Lemma map_fst_pair {A B} (l : list A) (p : B) : map fst (map (fun e => (e, p)) l) = l.
Proof. rewrite map_map. cbn [fst]. apply map_id. Qed.

(* the first components of [d_build] are the entries build leaves *)
Lemma d_build_fst T b b' des poff : table_good T ->
  (b_off b <> None -> wf_entries T (b_entries b) = true) ->
  build T b = Ret true b' -> map fst des = b_entries b ->
  map fst (d_build T b des poff) = b_entries b'.
Proof.
  intros G Hwf H Hdes. destruct (build_ok_inv T b b' G H) as (Hh & He & Hoff). unfold d_build. cbv zeta.
  destruct (b_off b) as [o|] eqn:Eo.
  - destruct Hoff as (Hr & Hk).
    rewrite (build_offset T b o G Hh He Eo Hr Hk (Hwf ltac:(discriminate))) in H. injection H as <-.
    rewrite offset_result_entries, map_app. unfold dentry. rewrite map_fst_pair, map_fst_filter, d_retrace_fst, Hdes. reflexivity.
  - subst b'. cbn [with_es_ctl b_entries]. now rewrite d_retrace_fst, Hdes.
Qed.

(* what build never changes of an entry: everything but the trace number, and its payload *)
Definition same_static (d d' : dentry) : Prop :=
  snd d' = snd d /\ e_code (fst d') = e_code (fst d) /\ e_amount (fst d') = e_amount (fst d) /\
  e_addenda (fst d') = e_addenda (fst d) /\ e_rdfi (fst d') = e_rdfi (fst d) /\ e_off (fst d') = e_off (fst d).

Lemma d_retrace_In odfi des : forall s d', In d' (d_retrace odfi s des) -> exists d, In d des /\ same_static d d'.
Proof.
  induction des as [|d des IH]; intros s d' Hin; cbn [d_retrace] in Hin; [destruct Hin|].
  destruct Hin as [<-|Hin].
  - exists d. split; [now left|]. unfold same_static. cbn [fst snd].
    destruct (trace_odfi (e_trace (fst d)) =? odfi); cbn [set_trace e_code e_amount e_addenda e_rdfi e_off]; repeat split; reflexivity.
  - destruct (IH _ _ Hin) as (d0 & Hd0 & Hs). exists d0. split; [now right|exact Hs].
Qed.

(* payload preservation: every pair of the result is an input pair (trace possibly
   assigned) or an offset entry with the payload of the offset account *)
Lemma d_build_In T b des poff d' : In d' (d_build T b des poff) ->
  (exists d, In d des /\ same_static d d') \/
  (exists o, b_off b = Some o /\ snd d' = poff /\
     In (fst d') (new_offsets T o (last_trace (map fst (filter d_nonoff (d_retrace (b_odfi b) 1 des))))
                              (credits T (map fst (filter d_nonoff (d_retrace (b_odfi b) 1 des))))
                              (debits T (map fst (filter d_nonoff (d_retrace (b_odfi b) 1 des)))))).
Proof.
  unfold d_build. cbv zeta. destruct (b_off b) as [o|] eqn:Eo; intros Hin.
  - apply in_app_or in Hin as [Hin|Hin].
    + left. apply filter_In in Hin as [Hin _]. now apply d_retrace_In in Hin.
    + right. exists o. apply in_map_iff in Hin as (e & <- & He). cbn [fst snd]. auto.
  - left. now apply d_retrace_In in Hin.
Qed.

Lemma same_static_entry A d d' : same_static d d' -> entry_static A (o_entry d') = entry_static A (o_entry d).
Proof.
  intros (Hp & Hc & Ha & _). apply entry_static_ext; unfold o_entry; cbn [AR.en_code AR.en_amount AR.en_rdfi AR.en_check]; congruence.
Qed.

Lemma same_static_dir A cls d d' : same_static d d' -> class_dir_ok A cls (o_entry d') = class_dir_ok A cls (o_entry d).
Proof. intros (_ & Hc & _). unfold class_dir_ok, o_entry. cbn [AR.en_code]. now rewrite Hc. Qed.

Lemma same_static_pay d d' : same_static d d' -> pay_ok d' = pay_ok d.
Proof. intros (Hp & _ & _ & _ & Hr & _). unfold pay_ok. now rewrite Hp, Hr. Qed.

(* ---- the two tables agree --------------------------------------------------------- *)

Lemma memz_mem c l : AR.memz c l = mem c l.
Proof. reflexivity. Qed.

Lemma lists_agree_mem a b c : lists_agree a b = true -> mem c a = mem c b.
Proof.
  unfold lists_agree. intros H. apply andb_prop in H as [H1 H2]. rewrite forallb_forall in H1, H2.
  destruct (mem c a) eqn:Ea, (mem c b) eqn:Eb; try reflexivity.
  - apply mem_In in Ea. specialize (H1 c Ea). congruence.
  - apply mem_In in Eb. specialize (H2 c Eb). congruence.
Qed.

Record agree (A : AR.tables) (T : otable) : Prop := {
  ag_credit : forall c, AR.adds_credit A AR.KStd c = mem c (t_credit T);
  ag_debit : forall c, AR.adds_debit A AR.KStd c = negb (mem c (t_credit T)) && mem c (t_debit T);
  ag_hash : AR.t_hash_digits A = 10;
  ag_mixed : AR.t_mixed A = mixed;
  ag_adv : AR.t_advclass A <> mixed;
  ag_class : class_okb A mixed = true;
  ag_codes : forall k, k <> BadKind -> off_code_ok A (deb_code T k) = true /\ off_code_ok A (cre_code T k) = true }.

Lemma tables_agree_sound A T : tables_agree A T = true -> agree A T.
Proof.
  unfold tables_agree. intros H.
  apply andb_prop in H as [H K9]. apply andb_prop in H as [H K8]. apply andb_prop in H as [H K7].
  apply andb_prop in H as [H K6]. apply andb_prop in H as [H K5]. apply andb_prop in H as [H K4].
  apply andb_prop in H as [H K3]. apply andb_prop in H as [H K2]. apply andb_prop in H as [K0 K1].
  constructor.
  - intros c. unfold AR.adds_credit. cbn [AR.credit_list]. rewrite memz_mem. now apply lists_agree_mem.
  - intros c. unfold AR.adds_debit. cbn [AR.credit_list AR.debit_list]. rewrite !memz_mem.
    f_equal; [f_equal|]; now apply lists_agree_mem.
  - now apply Z.eqb_eq.
  - now apply Z.eqb_eq.
  - now apply Z.eqb_neq, negb_true_iff.
  - assumption.
  - intros [| |] Hk; [split; assumption|split; assumption|congruence].
Qed.

Section Agree.
Variables (A : AR.tables) (T : otable).
Hypothesis HA : agree A T.

Lemma o_credit des : AR.calc_credit A AR.KStd (map o_entry des) = credits T (map fst des).
Proof.
  unfold AR.calc_credit, credits. induction des as [|d des IH]; cbn [map AR.sum_where sumf]; [reflexivity|].
  rewrite IH. f_equal. unfold o_entry at 1 2. cbn [AR.en_code AR.en_amount]. rewrite (ag_credit A T HA). reflexivity.
Qed.

Lemma o_debit des : AR.calc_debit A AR.KStd (map o_entry des) = debits T (map fst des).
Proof.
  unfold AR.calc_debit, debits. induction des as [|d des IH]; cbn [map AR.sum_where sumf]; [reflexivity|].
  rewrite IH. f_equal. unfold o_entry at 1 2. cbn [AR.en_code AR.en_amount]. rewrite (ag_debit A T HA).
  unfold db_amt. destruct (mem (e_code (fst d)) (t_credit T)); cbn [negb andb]; [reflexivity|].
  destruct (mem (e_code (fst d)) (t_debit T)); reflexivity.
Qed.

Lemma o_count des : AR.calc_count (map o_entry des) = count (map fst des).
Proof.
  unfold count. induction des as [|d des IH]; cbn [map AR.calc_count sumf]; [reflexivity|].
  rewrite IH. unfold o_entry at 1. cbn [AR.en_addenda]. lia.
Qed.

Lemma o_hash_sum des : forallb pay_ok des = true -> AR.hash_sum (map o_entry des) = sumf e_rdfi (map fst des).
Proof.
  induction des as [|d des IH]; intros H; cbn [map AR.hash_sum sumf]; [reflexivity|].
  cbn [forallb] in H. apply andb_prop in H as [Hd H]. rewrite (IH H). unfold pay_ok in Hd. apply Z.eqb_eq in Hd.
  unfold o_entry at 1. cbn [AR.en_rdfi]. now rewrite Hd.
Qed.

Lemma o_hash des : forallb pay_ok des = true -> AR.calc_hash A (map o_entry des) = hash (map fst des).
Proof.
  intros H. unfold AR.calc_hash, AR.least_sig, hash. rewrite (o_hash_sum des H), (ag_hash A T HA). reflexivity.
Qed.

(* control = recomputation (C05_create_valid) is "tabulated" over the skeleton *)
Lemma o_batch_tabulated b des : ctl_ok T b -> map fst des = b_entries b -> forallb pay_ok des = true ->
  tabulated A (o_batch b des).
Proof.
  intros (H1 & H2 & H3 & H4 & H5 & H6) Hdes Hpay.
  unfold tabulated, o_batch, o_ctl, tab_ctl. cbn [AR.bt_ctl AR.bt_kind AR.bt_class AR.bt_odfi AR.bt_number AR.bt_entries].
  rewrite o_count, o_hash, o_debit, o_credit by assumption. rewrite Hdes. congruence.
Qed.

(* ---- trace numbers ------------------------------------------------------------------ *)

(* a trace number of at most 15 digits whose first eight are the ODFI *)
Definition trace_in (odfi : Z) (e : entry) : Prop := 0 <= e_trace e < P15 /\ has_prefix odfi e = true.

Lemma trace_in_prefix odfi d : trace_in odfi (fst d) ->
  AR.trace_prefix AR.KStd (o_entry d) = stringField (odfi8 odfi) 8.
Proof.
  intros ((H0 & H1) & Hp). unfold o_entry. rewrite trace_prefix_trace15 by exact H0. rewrite stringField_odfi8.
  unfold has_prefix, trace_odfi in Hp. apply Z.ltb_lt in H1. rewrite H1 in Hp. apply Z.eqb_eq in Hp.
  change P7z with P7. now rewrite Hp.
Qed.

Lemma asc_sorted15 ts : forall lo, 0 <= lo -> asc lo ts -> Forall (fun t => t < P15) ts ->
  Sorted bytes_lt (trace15 lo :: map trace15 ts).
Proof.
  induction ts as [|t ts IH]; intros lo Hlo Ha Hb; cbn [map].
  - constructor; constructor.
  - cbn [asc] in Ha. destruct Ha as [Hlt Ha]. inversion Hb as [|x l Ht Hr]; subst.
    constructor; [apply IH; [lia|exact Ha|exact Hr]|]. constructor. apply trace15_lt; [exact Hlo|exact Hlt|exact Ht].
Qed.

Lemma o_ascending des : asc 0 (map e_trace (map fst des)) -> Forall (fun e => e_trace e < P15) (map fst des) ->
  AR.ascending (AR.ascending_init AR.KStd) (map o_entry des) = true.
Proof.
  intros Ha Hb. apply ascending_from_sorted.
  - apply Forall_forall. intros x Hx. apply in_map_iff in Hx as (d & <- & _). unfold o_entry. cbn [AR.en_trace AR.ascending_init].
    apply trace15_above_zero.
  - assert (E : map AR.en_trace (map o_entry des) = map trace15 (map e_trace (map fst des))).
    { rewrite !map_map. apply map_ext. reflexivity. }
    rewrite E. assert (Hb' : Forall (fun t => t < P15) (map e_trace (map fst des))).
    { apply Forall_forall. intros t Ht. apply in_map_iff in Ht as (e & <- & He). rewrite Forall_forall in Hb. now apply Hb. }
    pose proof (asc_sorted15 _ 0 ltac:(lia) Ha Hb') as S. now inversion S.
Qed.

(* ---- an Offsets batch with a recomputed control and admissible entries is Arith-valid --- *)

Theorem o_batch_valid b des :
  ctl_ok T b -> map fst des = b_entries b -> forallb pay_ok des = true ->
  class_okb A (b_svc b) = true -> b_entries b <> [] ->
  Forall (fun d => entry_static A (o_entry d) = true) des ->
  Forall (fun d => class_dir_ok A (b_svc b) (o_entry d) = true) des ->
  asc 0 (map e_trace (b_entries b)) -> Forall (trace_in (b_odfi b)) (b_entries b) ->
  debits T (b_entries b) <= AR.t_batch_limit A -> credits T (b_entries b) <= AR.t_batch_limit A ->
  AR.validate_batch A (o_batch b des) = AR.ROk.
Proof.
  intros Hctl Hdes Hpay Hcls Hne Hst Hdir Hasc Htr Hd Hc.
  apply tabulated_std_valid; cbn [o_batch AR.bt_kind AR.bt_class AR.bt_odfi AR.bt_entries].
  - reflexivity.
  - now apply o_batch_tabulated.
  - exact Hcls.
  - apply odfi8_not_zeros9.
  - intros E. apply map_eq_nil in E. subst des. cbn [map] in Hdes. congruence.
  - apply Forall_forall. intros x Hx. apply in_map_iff in Hx as (d & <- & Hd'). rewrite Forall_forall in Hst. now apply Hst.
  - apply Forall_forall. intros x Hx. apply in_map_iff in Hx as (d & <- & Hd'). rewrite Forall_forall in Hdir. now apply Hdir.
  - apply o_ascending; rewrite Hdes; [exact Hasc|].
    eapply Forall_impl; [|exact Htr]. intros e ((_ & H) & _). exact H.
  - apply Forall_forall. intros x Hx. apply in_map_iff in Hx as (d & <- & Hd'). apply trace_in_prefix.
    rewrite Forall_forall in Htr. apply Htr. rewrite <- Hdes. now apply in_map.
  - rewrite o_debit, Hdes. exact Hd.
  - rewrite o_credit, Hdes. exact Hc.
Qed.

End Agree.

(* ---- build establishes the facts ---------------------------------------------------- *)

Lemma build_fields T b b' : table_good T -> (b_off b <> None -> wf_entries T (b_entries b) = true) ->
  build T b = Ret true b' ->
  b_odfi b' = b_odfi b /\ b_svc b' = match b_off b with None => b_svc b | Some _ => mixed end.
Proof.
  intros G Hwf H. destruct (build_ok_inv T b b' G H) as (Hh & He & Hoff).
  destruct (b_off b) as [o|] eqn:Eo.
  - destruct Hoff as (Hr & Hk).
    rewrite (build_offset T b o G Hh He Eo Hr Hk (Hwf ltac:(discriminate))) in H. injection H as <-.
    destruct (offset_result_fields T o b) as (_ & F2 & _). destruct (offset_result_props T o b G Hk) as (_ & _ & _ & _ & P5 & _).
    now split.
  - subst b'. now split.
Qed.

Lemma new_offsets_In T o last C D e : In e (new_offsets T o last C D) ->
  e_off e = true /\ e_addenda e = 0 /\ e_rdfi e = o_rdfi o /\
  ((e_code e = deb_code T (o_kind o) /\ e_amount e = C /\ C <> 0) \/
   (e_code e = cre_code T (o_kind o) /\ e_amount e = D /\ D <> 0)).
Proof.
  unfold new_offsets. intros H. apply in_app_or in H as [H|H].
  - destruct (C =? 0) eqn:E; [destruct H|]. apply Z.eqb_neq in E. destruct H as [<-|[]].
    cbn [e_off e_addenda e_rdfi e_code e_amount]. repeat split; auto.
  - destruct (D =? 0) eqn:E; [destruct H|]. apply Z.eqb_neq in E. destruct H as [<-|[]].
    cbn [e_off e_addenda e_rdfi e_code e_amount]. repeat split; auto.
Qed.

Lemma credits_nonneg T es : Forall (fun e => 0 <= e_amount e) es -> 0 <= credits T es.
Proof.
  unfold credits. induction 1 as [|e es He _ IH]; cbn [sumf]; [lia|]. unfold cr_amt at 1.
  destruct (mem (e_code e) (t_credit T)); lia.
Qed.

Lemma debits_nonneg T es : Forall (fun e => 0 <= e_amount e) es -> 0 <= debits T es.
Proof.
  unfold debits. induction 1 as [|e es He _ IH]; cbn [sumf]; [lia|]. unfold db_amt at 1.
  destruct (mem (e_code e) (t_credit T)); [lia|]. destruct (mem (e_code e) (t_debit T)); lia.
Qed.

Section Build.
Variables (A : AR.tables) (T : otable).
Hypothesis HG : table_good T.
Hypothesis HA : agree A T.

Lemma static_amount d : entry_static A (o_entry d) = true -> 0 <= e_amount (fst d) <= AR.t_amount_limit A.
Proof.
  intros H. apply entry_static_spec in H as [H _]. apply validate_entry_facts in H as (_ & _ & Ha).
  exact (Ha eq_refl).
Qed.

(* an offset entry: accepted code, the offset account's routing number / check digit, amount in range *)
Lemma offset_entry_static o poff e : poff_ok o poff = true -> off_code_ok A (e_code e) = true ->
  0 <= e_amount e <= AR.t_amount_limit A -> entry_static A (o_entry (e, poff)) = true.
Proof.
  intros Hp Hc Ha. unfold poff_ok in Hp. apply andb_prop in Hp as [Hp Hcd]. apply andb_prop in Hp as [_ Hne].
  unfold off_code_ok in Hc. apply andb_prop in Hc as [Hc Hnadv]. apply andb_prop in Hc as [Hc0 Hcm].
  apply entry_static_spec. unfold o_entry. cbn [fst snd AR.en_code]. split; [|now apply negb_true_iff].
  unfold AR.validate_entry. cbn [AR.en_code AR.en_rdfi AR.en_amount].
  repeat (rewrite andr_ok; split); apply chk_intro; try assumption.
  - apply Z.leb_le. lia.
  - apply Z.leb_le. lia.
Qed.

Theorem build_arith_valid b b' des poff :
  build T b = Ret true b' -> map fst des = b_entries b ->
  (b_off b <> None -> wf_entries T (b_entries b) = true) ->
  class_okb A (b_svc b) = true ->
  forallb pay_ok des = true ->
  Forall (fun d => entry_static A (o_entry d) = true) des ->
  Forall (fun d => class_dir_ok A (b_svc b) (o_entry d) = true) des ->
  (forall o, b_off b = Some o -> poff_ok o poff = true) ->
  b_entries b' <> [] ->
  asc 0 (map e_trace (b_entries b')) -> Forall (trace_in (b_odfi b)) (b_entries b') ->
  Forall (fun e => e_amount e <= AR.t_amount_limit A) (b_entries b') ->
  debits T (b_entries b') <= AR.t_batch_limit A -> credits T (b_entries b') <= AR.t_batch_limit A ->
  AR.validate_batch A (o_batch b' (d_build T b des poff)) = AR.ROk.
Proof.
  intros H Hdes Hwf Hcls Hpay Hst Hdir Hpoff Hne Hasc Htr Hamt Hd Hc.
  destruct (build_fields T b b' HG Hwf H) as (Fo & Fs).
  pose proof (d_build_fst T b b' des poff HG Hwf H Hdes) as Hfst.
  rewrite Forall_forall in Hst, Hdir. rewrite forallb_forall in Hpay.
  (* amounts of everything that comes from the input are non-negative *)
  assert (Hnn : forall des0, (forall d', In d' des0 -> exists d, In d des /\ same_static d d') ->
                 Forall (fun e => 0 <= e_amount e) (map fst des0)).
  { intros des0 H0. apply Forall_forall. intros e He. apply in_map_iff in He as (d' & <- & Hd').
    destruct (H0 d' Hd') as (d & Hin & (_ & _ & Ea & _)). rewrite Ea. apply static_amount. now apply Hst. }
  apply (o_batch_valid A T HA); try assumption.
  - now apply (build_ctl_ok T b).
  - apply forallb_forall. intros d' Hd'. destruct (d_build_In T b des poff d' Hd') as [(d & Hin & Hs)|(o & Eo & Hp & Hin)].
    + rewrite (same_static_pay d d' Hs). now apply Hpay.
    + apply new_offsets_In in Hin as (_ & _ & Er & _). specialize (Hpoff o Eo). unfold poff_ok in Hpoff.
      apply andb_prop in Hpoff as [Hpoff _]. apply andb_prop in Hpoff as [Hpoff _].
      unfold pay_ok. now rewrite Hp, Er.
  - rewrite Fs. destruct (b_off b); [apply (ag_class A T HA)|exact Hcls].
  - apply Forall_forall. intros d' Hd'. destruct (d_build_In T b des poff d' Hd') as [(d & Hin & Hs)|(o & Eo & Hp & Hin)].
    + rewrite (same_static_entry A d d' Hs). now apply Hst.
    + destruct d' as [e p]. cbn [fst snd] in *. subst p.
      assert (Hk : o_kind o <> BadKind).
      { destruct (build_ok_inv T b b' HG H) as (_ & _ & Hoff). rewrite Eo in Hoff. apply Hoff. }
      destruct (ag_codes A T HA (o_kind o) Hk) as (Kd & Kc).
      assert (Hup : e_amount e <= AR.t_amount_limit A).
      { rewrite Forall_forall in Hamt. apply Hamt. rewrite <- Hfst. now apply (in_map fst) in Hd'. }
      set (bd := filter d_nonoff (d_retrace (b_odfi b) 1 des)) in *.
      assert (Hbd : Forall (fun e0 => 0 <= e_amount e0) (map fst bd)).
      { apply Hnn. intros d0 Hd0. unfold bd in Hd0. apply filter_In in Hd0 as [Hd0 _]. now apply d_retrace_In in Hd0. }
      apply new_offsets_In in Hin as (_ & _ & _ & [(Ec & Ea & _)|(Ec & Ea & _)]).
      * apply (offset_entry_static o); [now apply Hpoff|now rewrite Ec|]. split; [|exact Hup].
        rewrite Ea. now apply credits_nonneg.
      * apply (offset_entry_static o); [now apply Hpoff|now rewrite Ec|]. split; [|exact Hup].
        rewrite Ea. now apply debits_nonneg.
  - apply Forall_forall. intros d' Hd'. rewrite Fs.
    destruct (b_off b) as [o|] eqn:Eo.
    + unfold class_dir_ok. rewrite (ag_mixed A T HA), Z.eqb_refl.
      replace (mixed =? AR.t_advclass A) with false; [reflexivity|]. symmetry. apply Z.eqb_neq. intros E. now apply (ag_adv A T HA).
    + destruct (d_build_In T b des poff d' Hd') as [(d & Hin & Hs)|(o & Eo' & _)]; [|congruence].
      rewrite (same_static_dir A (b_svc b) d d' Hs). now apply Hdir.
  - now rewrite Fo.
Qed.

(* ---- a batch without pre-set trace numbers -------------------------------------------- *)

Lemma retrace_range odfi es : forall s, all_absent odfi es = true -> 0 <= s -> s + Z.of_nat (length es) <= P7 ->
  Forall (fun e => odfi * P7 + s <= e_trace e < odfi * P7 + s + Z.of_nat (length es)) (retrace odfi s es).
Proof.
  induction es as [|e es IH]; intros s Ha Hs Hl; cbn [retrace]; [constructor|].
  cbn [all_absent forallb] in Ha. apply andb_prop in Ha as [He Ha]. unfold has_prefix in He.
  destruct (trace_odfi (e_trace e) =? odfi); [discriminate|]. cbn [length] in *.
  constructor.
  - cbn [set_trace e_trace]. rewrite Z.mod_small by lia. lia.
  - eapply Forall_impl; [|apply (IH (s + 1) Ha); lia]. cbn beta. intros x Hx. lia.
Qed.

Lemma last_trace_In es : es <> [] -> exists e, In e es /\ last_trace es = e_trace e.
Proof.
  intros Hne. unfold last_trace. destruct (rev es) as [|e r] eqn:E.
  - apply (f_equal (@rev _)) in E. rewrite rev_involutive in E. cbn in E. congruence.
  - exists e. split; [|reflexivity]. apply in_rev. rewrite E. now left.
Qed.

Lemma range_trace_in odfi e : odfi_ok odfi -> odfi * P7 <= e_trace e < odfi * P7 + P7 -> trace_in odfi e.
Proof.
  unfold odfi_ok, trace_in, has_prefix, trace_odfi, P7, P15. intros Ho Hr.
  assert (Hlt : e_trace e <? 1000000000000000 = true) by (apply Z.ltb_lt; lia).
  rewrite Hlt. split; [lia|]. apply Z.eqb_eq. symmetry. apply Z.div_unique with (r := e_trace e - odfi * 10000000); lia.
Qed.

Lemma fresh_build_traces b b' : odfi_ok (b_odfi b) ->
  (b_off b <> None -> wf_entries T (b_entries b) = true /\ existsb nonoff (b_entries b) = true) ->
  all_absent (b_odfi b) (b_entries b) = true -> Z.of_nat (length (b_entries b)) + 2 < P7 ->
  build T b = Ret true b' ->
  b_entries b' <> [] /\ Forall (trace_in (b_odfi b)) (b_entries b').
Proof.
  intros Ho Hwf Ha Hlen H. destruct (build_ok_inv T b b' HG H) as (Hh & He & Hoff).
  pose proof (retrace_range (b_odfi b) (b_entries b) 1 Ha ltac:(lia) ltac:(lia)) as Hr.
  set (n := Z.of_nat (length (b_entries b))) in *.
  destruct (b_off b) as [o|] eqn:Eo.
  - destruct Hoff as (Hrt & Hk). destruct (Hwf ltac:(discriminate)) as (Hw & Hex).
    rewrite (build_offset T b o HG Hh He Eo Hrt Hk Hw) in H. injection H as <-.
    rewrite offset_result_entries.
    assert (Hb : body b <> []) by (unfold body; now apply retrace_nonoff_nonempty).
    assert (Hbr : Forall (fun e => b_odfi b * P7 + 1 <= e_trace e < b_odfi b * P7 + 1 + n) (body b)).
    { unfold body. apply Forall_forall. intros e Hin. apply filter_In in Hin as [Hin _]. rewrite Forall_forall in Hr. now apply Hr. }
    split; [intros E; apply app_eq_nil in E as [E _]; congruence|].
    apply Forall_app. split.
    + eapply Forall_impl; [|exact Hbr]. cbn beta. intros e Hx. apply range_trace_in; [exact Ho|lia].
    + destruct (last_trace_In (body b) Hb) as (el & Hel & El). rewrite Forall_forall in Hbr. specialize (Hbr el Hel).
      apply Forall_forall. intros e Hin. apply range_trace_in; [exact Ho|].
      unfold new_offsets in Hin. rewrite El in Hin.
      apply in_app_or in Hin as [Hin|Hin].
      * destruct (credits T (body b) =? 0); [destruct Hin|]. destruct Hin as [<-|[]]. cbn [e_trace]. lia.
      * destruct (debits T (body b) =? 0); [destruct Hin|]. destruct Hin as [<-|[]]. cbn [e_trace].
        destruct (credits T (body b) =? 0); lia.
  - subst b'. cbn [with_es_ctl b_entries]. split.
    + intros E. apply (f_equal (@length _)) in E. rewrite retrace_length in E. destruct (b_entries b); [congruence|discriminate].
    + eapply Forall_impl; [|exact Hr]. cbn beta. intros e Hx. apply range_trace_in; [exact Ho|lia].
Qed.

(* Create of a freshly assembled batch (no trace number pre-set), with or without offset:
   nothing about the result is assumed except that the totals fit their fields *)
Theorem fresh_build_arith_valid b b' des poff :
  build T b = Ret true b' -> map fst des = b_entries b ->
  (b_off b <> None -> wf_entries T (b_entries b) = true /\ existsb nonoff (b_entries b) = true) ->
  odfi_ok (b_odfi b) -> all_absent (b_odfi b) (b_entries b) = true -> Z.of_nat (length (b_entries b)) + 2 < P7 ->
  class_okb A (b_svc b) = true ->
  forallb pay_ok des = true ->
  Forall (fun d => entry_static A (o_entry d) = true) des ->
  Forall (fun d => class_dir_ok A (b_svc b) (o_entry d) = true) des ->
  (forall o, b_off b = Some o -> poff_ok o poff = true) ->
  Forall (fun e => e_amount e <= AR.t_amount_limit A) (b_entries b') ->
  debits T (b_entries b') <= AR.t_batch_limit A -> credits T (b_entries b') <= AR.t_batch_limit A ->
  AR.validate_batch A (o_batch b' (d_build T b des poff)) = AR.ROk.
Proof.
  intros H Hdes Hwf Ho Habs Hlen Hcls Hpay Hst Hdir Hpoff Hamt Hd Hc.
  destruct (fresh_build_traces b b' Ho Hwf Habs Hlen H) as (Hne & Htr).
  assert (Hwf' : b_off b <> None -> wf_entries T (b_entries b) = true) by (intros E; now apply Hwf).
  apply build_arith_valid; try assumption.
  apply (build_ascending T b b' HG); try assumption; [unfold odfi_ok in Ho; lia|lia].
Qed.

End Build.

(* ---- File.Create ------------------------------------------------------------------------ *)

Lemma o_batches_renumber bs : forall dess s, o_batches (renumber s bs) dess = VO.renumber s (o_batches bs dess).
Proof.
  unfold o_batches. induction bs as [|b bs IH]; intros dess s; cbn [renumber combine map VO.renumber]; [reflexivity|].
  destruct dess as [|des dess]; cbn [combine map VO.renumber]; [reflexivity|]. rewrite IH. f_equal.
  cbn [fst snd]. change (AR.bt_number (o_batch b des)) with (b_num b). destruct (b_num b <=? 1); reflexivity.
Qed.

Lemma o_batches_length bs dess : length dess = length bs -> length (o_batches bs dess) = length bs.
Proof. intros H. unfold o_batches. rewrite map_length, combine_length, H. apply Nat.min_id. Qed.

Lemma o_batches_sum (g : control -> Z) (g' : AR.bctl -> Z) bs : forall dess, length dess = length bs ->
  (forall b, g' (o_ctl b) = g (b_ctl b)) ->
  AR.sumz (fun x => g' (AR.bt_ctl x)) (o_batches bs dess) = sumb (fun b => g (b_ctl b)) bs.
Proof.
  intros dess Hl Hg. revert dess Hl. unfold o_batches.
  induction bs as [|b bs IH]; intros [|des dess] Hl; cbn [length] in Hl; try discriminate; [reflexivity|].
  cbn [combine map AR.sumz sumb fst snd]. rewrite IH by lia. unfold o_batch at 1. cbn [AR.bt_ctl]. now rewrite Hg.
Qed.

Section FileCreate.
Variables (A : AR.tables) (T : otable).
Hypothesis HA : agree A T.

Lemma o_file_create f f' dess : file_create f = Ret true f' -> length dess = length (f_batches f) ->
  o_file f' dess = VO.create_file A (o_batches (f_batches f) dess) [] /\ f_batches f <> [].
Proof.
  unfold file_create. destruct (f_hdr_ok f); cbn [negb]; [|discriminate].
  destruct (f_batches f) as [|b0 bs0] eqn:E; [discriminate|]. rewrite <- E. intros H Hl. injection H as <-.
  split; [|rewrite E; discriminate].
  unfold o_file, VO.create_file. cbn [f_batches f_ctl VO.renumber]. rewrite app_nil_r.
  rewrite <- o_batches_renumber. f_equal.
  set (bs' := renumber 1 (f_batches f)).
  assert (Hl' : length dess = length bs') by (unfold bs'; now rewrite renumber_length).
  unfold o_fctl, file_control, VO.tab_fctl. cbn [fc_batches fc_count fc_hash fc_debit fc_credit].
  rewrite (o_batches_length bs' dess Hl').
  rewrite (o_batches_sum c_count AR.bc_count bs' dess Hl' ltac:(reflexivity)).
  rewrite (o_batches_sum c_hash AR.bc_hash bs' dess Hl' ltac:(reflexivity)).
  rewrite (o_batches_sum c_debit AR.bc_debit bs' dess Hl' ltac:(reflexivity)).
  rewrite (o_batches_sum c_credit AR.bc_credit bs' dess Hl' ltac:(reflexivity)).
  unfold AR.least_sig. rewrite (ag_hash A T HA). reflexivity.
Qed.

(* File.Create over batches that validate, batch numbers absent: File.Validate accepts *)
Theorem file_create_arith_valid f f' dess :
  file_create f = Ret true f' -> length dess = length (f_batches f) ->
  Forall (fun x => AR.validate_batch A x = AR.ROk) (o_batches (f_batches f) dess) ->
  forallb (fun b => b_num b <=? 1) (f_batches f) = true ->
  fctl_fits A (o_fctl (f_ctl f')) ->
  AR.validate_file A (o_file f' dess) = AR.ROk.
Proof.
  intros H Hl Hv Hn Hfit. destruct (o_file_create f f' dess H Hl) as (E & Hne).
  assert (Ef : o_fctl (f_ctl f') = AR.fl_ctl (VO.create_file A (o_batches (f_batches f) dess) [])) by (now rewrite <- E).
  rewrite E. apply create_file_valid.
  - rewrite app_nil_r. intros En. apply (f_equal (@length _)) in En. rewrite o_batches_length in En by exact Hl.
    destruct (f_batches f); [congruence|discriminate].
  - apply Forall_forall. intros x Hx. split; [|rewrite Forall_forall in Hv; now apply Hv].
    unfold o_batches in Hx. apply in_map_iff in Hx as (p & <- & _). reflexivity.
  - change 0 with (1 - 1). apply renumber_absent_ascending; [lia|].
    apply Forall_forall. intros x Hx. unfold o_batches in Hx. apply in_map_iff in Hx as (p & <- & Hp).
    destruct p as [b des]. apply in_combine_l in Hp. rewrite forallb_forall in Hn. specialize (Hn _ Hp).
    cbn [fst snd o_batch AR.bt_number]. lia.
  - now rewrite <- Ef.
Qed.

End FileCreate.

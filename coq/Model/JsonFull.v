(* C07 (phase 4) — the file-level round trip with everything the writer reads inside the tree
   (executable definitions only; proofs are in JsonFullFacts.v).

   tree_full v     the tree of a File value with the three excused fields the writer DOES read:
                   the header's own copy of the validation options (FileHeader.validateOpts, read by
                   ImmediateOriginField / ImmediateDestinationField), Batch.ADVControl and File.ADVControl
                   (the control lines of an ADV file).  [tree_of_file v] (JsonFileCurrent.v) is the tree
                   without them: what survives json.Marshal + json.Unmarshal.
   lines_o/write_o Writer.Write with the file header line rendered under the header's own options
   ready_adv       the boolean conditions under which the post-processing leaves an ADV file's text alone
   valid/tabulated/json_safe/in_domain
                   the hypotheses of C07_roundtrip (Props/C07Full.v), grouped
   achcli_passed   the options value cmd/achcli hands to ach.FileFromJSONWith *)
From Coq Require Import String Ascii List Bool ZArith NArith.
Import ListNotations.
From ACH Require Import Bytes JsonCodec JsonSurvive JsonPostTable Layout FileStruct JsonFile JsonFileCurrent.
From ACH Require Import JsonTags JsonPost Offsets OffsetTable Layouts RecValid RecRules JsonDefaultsTable.
Local Open Scope string_scope.
Local Open Scope list_scope.

(* ------------------------------------------------------------ A. fields of a typed value by Go name *)

Fixpoint field_val (fs : list (fmeta * ty)) (vs : list val) (f : string) : option (ty * val) :=
  match fs, vs with
  | (m, ft) :: fs', x :: vs' => if String.eqb (f_name m) f then Some (ft, x) else field_val fs' vs' f
  | _, _ => None
  end.

Definition fld (tv : ty * val) (f : string) : option (ty * val) :=
  match tv with
  | (TStruct _ fs, VRec vs) => field_val fs vs f
  | (TPtr (TStruct _ fs), VRec vs) => field_val fs vs f
  | _ => None
  end.

(* the struct values a value stands for (nil elements of a slice are skipped, as [nodes] does) *)
Definition elems (tv : ty * val) : list (ty * val) :=
  match tv with
  | (TSlice t', VArr xs) => flat_map (fun x => match x with VRec _ => [(t', x)] | _ => [] end) xs
  | (_, VRec _) => [tv]
  | _ => []
  end.

Definition nodes_at (tv : option (ty * val)) : list rtree :=
  match tv with Some (t, v) => nodes hidp_cur t v | None => [] end.

(* ------------------------------------------------------------ B. the tree with the excused fields the writer reads *)

Definition hdr_opts (v : val) : list rtree :=
  nodes_at (match fld (T_File, v) "Header" with Some h => fld h "validateOpts" | None => None end).

Definition file_adv_control (v : val) : list rtree := nodes_at (fld (T_File, v) "ADVControl").

Definition batch_adv_controls (v : val) : list (list rtree) :=
  match fld (T_File, v) "Batches" with
  | Some bs => map (fun b => nodes_at (fld b "ADVControl")) (elems bs)
  | None => []
  end.

Fixpoint zip_adv (bs : list rtree) (cs : list (list rtree)) : list rtree :=
  match bs, cs with
  | b :: bs', c :: cs' => set_kid b "ADVControl" c :: zip_adv bs' cs'
  | _, _ => bs
  end.

Definition with_full (d : rtree) (ho : list rtree) (cs : list (list rtree)) (fc : list rtree) : rtree :=
  let d1 := map_kid d "Header" (fun h => set_kid h "validateOpts" ho) in
  set_kid (set_kid d1 "Batches" (zip_adv (kid d "Batches") cs)) "ADVControl" fc.

Definition tree_full (v : val) : rtree :=
  with_full (tree_of_file v) (hdr_opts v) (batch_adv_controls v) (file_adv_control v).

(* the same tree obtained generically: the view that hides everything [hid_fields] hides except the three fields *)
Definition full_fields : list (string * string) :=
  [ ("FileHeader", "validateOpts"); ("Batch", "ADVControl"); ("File", "ADVControl") ].
Definition hid_full : list (string * string) := filter (fun p => negb (inb p full_fields)) hid_fields.
Definition tree_full_view (v : val) : rtree := view (sel_of hid_full) T_File v.

(* ------------------------------------------------------------ C. Writer.Write, the header line under the header's own options *)

(* FileHeader.ImmediateOriginField / ImmediateDestinationField: a 10-character value is written verbatim when the
   header's options carry the bypass flag *)
Definition fh_field_o (bypass : bool) (v : bytes) : bytes :=
  match v with
  | [] => spaces 10
  | _ => let t := trim v in if bypass && (length t =? 10)%nat then t else sp :: stringField t 9
  end.

Definition render_seg_o (o : list rtree) (r : recval) (s : seg) : bytes :=
  match s with
  | SCustom n _ =>
      if String.eqb n "FileHeader.ImmediateDestinationField"
      then fh_field_o (flag o "BypassDestinationValidation") (gets r "ImmediateDestination")
      else if String.eqb n "FileHeader.ImmediateOriginField"
      then fh_field_o (flag o "BypassOriginValidation") (gets r "ImmediateOrigin")
      else render_seg r s
  | _ => render_seg r s
  end.

Definition render_o (o : list rtree) (L : layout) (r : recval) : bytes := concat (map (render_seg_o o r) (l_segs L)).

Section WriteO.
  Variable layouts : list layout.

  Definition header_line_o (h : rtree) : list bytes :=
    match layout_named layouts (rname h) with
    | Some L => [render_o (kid h "validateOpts") L (rscal h)]
    | None => []
    end.

  (* everything after the file header line, as [lines] writes it *)
  Definition body_lines (f : rtree) : list bytes :=
    let adv := file_is_adv f in
    flat_map (batch_lines layouts adv) (kid f "Batches")
    ++ flat_map (iat_batch_lines layouts) (kid f "IATBatches")
    ++ (if negb adv then kid_lines layouts f "Control" else kid_lines layouts f "ADVControl").

  Definition lines_o (f : rtree) : list bytes := flat_map header_line_o (kid f "Header") ++ body_lines f.

  Definition write_o (le : bytes) (f : rtree) : bytes :=
    let ls := lines_o f in
    concat (map (fun l => l ++ le) (ls ++ repeat nines (pad_count (length ls)))).
End WriteO.

Definition lines_full (f : rtree) : list bytes := lines_o all_layouts f.
Definition write_full (f : rtree) : bytes := write_o all_layouts LF f.

(* what the theorem says survives besides the text *)
Definition file_opts (f : rtree) : list rtree := kid f "validateOpts".
Definition header_opts (f : rtree) : list (list rtree) := map (fun h => kid h "validateOpts") (kid f "Header").
Definition offsets_of (f : rtree) : list (list rtree) := map (fun b => kid b "offset") (kid f "Batches").

(* ------------------------------------------------------------ D. ADV files *)

Fixpoint forallb2 {A B} (p : A -> B -> bool) (xs : list A) (ys : list B) : bool :=
  match xs, ys with
  | [], [] => true
  | x :: xs', y :: ys' => p x y && forallb2 p xs' ys'
  | _, _ => false
  end.

Fixpoint trees_eqb (a b : list rtree) : bool :=
  match a, b with
  | [], [] => true
  | x :: a', y :: b' => rtree_eqb x y && trees_eqb a' b'
  | _, _ => false
  end.

Section Adv.
  Variable E : penv.

  (* build on the decoded ADV batch (which has no ADV control: the field does not survive for every batch) gives
     the original's ADV control [c] and changes nothing else *)
  Definition adv_batch_built (o : list rtree) (b : rtree) (c : list rtree) : bool :=
    match build_batch E o (decor o b) with
    | Good b' => rtree_eqb b' (set_kid (decor o b) "ADVControl" c)
    | Bad _ => false
    end.

  Fixpoint numbered_adv (seq : Z) (bs : list rtree) (cs : list (list rtree)) : bool :=
    match bs, cs with
    | b :: r, c :: cr =>
        ((1 <? iget (header_of b) "BatchNumber")%Z
         || (forallb (has_int "BatchNumber" seq) (kid b "Header") && forallb (has_int "BatchNumber" seq) c))
        && numbered_adv (seq + 1)%Z r cr
    | _, _ => true
    end.

  Definition csum (f : string) (cs : list (list rtree)) : Z :=
    fold_left (fun a c => (a + iget (match c with x :: _ => x | [] => empty_node end) f)%Z) cs 0%Z.

  (* the ADV file control holds what createFileADV computes from the ADV batch controls *)
  Definition fc_matches_adv (cs : list (list rtree)) (fc : list rtree) : bool :=
    let cnt := csum "EntryAddendaCount" cs in
    let n := Z.of_nat (length cs) in
    match fc with
    | [c] =>
        String.eqb (rname c) (rname (pe_new_adv_file_control E))
        && has_int "BatchCount" n c
        && has_int "BlockCount" (block_count (2 + 2 * n + cnt)) c
        && has_int "EntryAddendaCount" cnt c
        && has_int "EntryHash" (Z.rem (csum "EntryHash" cs) P10) c
        && has_int "TotalDebitEntryDollarAmountInFile" (csum "TotalDebitEntryDollarAmount" cs) c
        && has_int "TotalCreditEntryDollarAmountInFile" (csum "TotalCreditEntryDollarAmount" cs) c
    | _ => false
    end.

  (* [d]: the tree that survives JSON; [cs], [fc]: the ADV controls of the original (per batch, of the file) *)
  Definition ready_adv (passed : list rtree) (d : rtree) (cs : list (list rtree)) (fc : list rtree) : bool :=
    let o := final_opts (pe_merge_fields E) passed (kid d "validateOpts") in
    let bs := kid d "Batches" in
    match kid d "Header" with [_] => true | _ => false end
    && match bs with [] => false | _ => true end
    && match kid d "IATBatches" with [] => true | _ => false end
    && forallb has_header bs
    && forallb (fun b => sec_is (header_of b) "ADV") bs
    && forallb (batch_prepared E) bs
    && forallb2 (adv_batch_built o) bs cs
    && dates_short d
    && numbered_adv 1 bs cs
    && fc_matches_adv cs fc
    && create_gate E o d.
End Adv.

(* ------------------------------------------------------------ E. the hypotheses of the round-trip theorem, on a File value *)

Definition fhv_t := list rtree -> rtree -> bool.

(* the checks of FileHeader.ValidateWith that do not depend on the options: len(FileIDModifier) != 1 and the three
   constants (the regenerated rules of the shapes `len(F) != n` / `F != "literal"`; Gen/JsonDefaults.v lists them as
   unconditional top-level checks) *)
Definition hdr_core_rules : rules := core_rules V_FileHeader.

Section Hyps.
  Variable fhv bhv : fhv_t.
  Variable fv : rtree -> bool.
  Let E := env_cur fhv bhv fv.

  (* in the domain of the property: the options were stored with File.SetValidation (the header holds the file's set);
     the unexported priorityCode is the literal every assignment in the package gives it; the five timestamp fields
     are in their NACHA forms (what the reader and FileFromJSON produce) *)
  Definition in_domain (v : val) : bool :=
    let d := tree_of_file v in
    trees_eqb (hdr_opts v) (kid d "validateOpts")
    && forallb (has_str "priorityCode" (bstr "01")) (kid d "Header")
    && dates_short d.

  (* valid, as far as the round trip needs it: the file header passes the option-independent rules of FileHeader.Validate,
     every batch has a header, every addenda record carries the type code of the field it is stored in (what
     Addenda….Validate checks), ADV entries without Addenda99 are Forward entries, Create's preconditions *)
  Definition valid (v : val) : bool :=
    let d := tree_of_file v in
    let o := kid d "validateOpts" in
    forallb (fun h => rec_validb hdr_core_rules (rscal h)) (kid d "Header")
    && match kid d "Header" with [_] => true | _ => false end
    && forallb has_header (kid d "Batches") && forallb has_header (kid d "IATBatches")
    && forallb (fun b => forallb (addenda_typed (codes_for json_post_table "EntryDetail")) (kid b "Entries")
                         && forallb (adv_cat_std E) (kid b "ADVEntries")) (kid d "Batches")
    && forallb (iat_prepared E) (kid d "IATBatches")
    && create_gate E o d.

  (* tabulated: Batch.build / IATBatch.build under the file's options and File.Create leave the file alone *)
  Definition tabulated (v : val) : bool :=
    let d := tree_of_file v in
    let o := kid d "validateOpts" in
    let bs := kid d "Batches" in
    if is_adv_file d then
      match bs with [] => false | _ => true end
      && match kid d "IATBatches" with [] => true | _ => false end
      && forallb (fun b => sec_is (header_of b) "ADV") bs
      && forallb2 (adv_batch_built E o) bs (batch_adv_controls v)
      && numbered_adv 1 bs (batch_adv_controls v)
      && fc_matches_adv E (batch_adv_controls v) (file_adv_control v)
    else
      forallb (batch_built E o) bs && forallb (iat_built E o) (kid d "IATBatches")
      && forallb has_control bs
      && numbered "Control" 1 bs && numbered "Control" (1 + Z.of_nat (length bs)) (kid d "IATBatches")
      && fc_matches E d.

  (* the known findings: no Addenda98 carries iatCorrectedData (json:unexported:Addenda98.iatCorrectedData); the
     CTX/ATX name heuristic of setBatchesFromJSON does not fire (json:catx:zero-addenda-records,
     json:catx:offset-entry-repacked) *)
  Definition a98_clean (v : val) : bool :=
    match fld (T_File, v) "Batches", fld (T_File, v) "IATBatches" with
    | Some (tb, bs), Some (ti, ibs) =>
        safe_sel (sel_of keep_fields) tb (start tb) bs && safe_sel (sel_of keep_fields) ti (start ti) ibs
    | _, _ => false
    end.

  Definition catx_clean (v : val) : bool :=
    forallb (fun b => if existsb (sec_is (header_of b)) (pt_catx json_post_table)
                      then forallb catx_stable (kid b "Entries") else true)
            (kid (tree_of_file v) "Batches").

  Definition json_safe (v : val) : bool := a98_clean v && catx_clean v.
End Hyps.

(* ------------------------------------------------------------ F. achcli *)

(* the tree of &ValidateOpts{SkipAll: true} *)
Definition skip_all_opts : rtree :=
  RT "ValidateOpts" (map (fun f => (f, VI (if String.eqb f "SkipAll" then 1 else 0)%Z)) opts_bool_fields) [].

(* cmd/achcli readValidationOpts: -skip-validation gives a fresh set with SkipAll only; -validate FILE the set read
   from FILE ([vfile] = [o]); neither ([vfile] = []): nil, so FileFromJSONWith keeps the options stored in the document *)
Definition achcli_passed (skip : bool) (vfile : list rtree) : list rtree :=
  if skip then [skip_all_opts] else vfile.

(* achcli -reformat on a JSON document *)
Definition achcli_reformat (fhv bhv : fhv_t) (fv : rtree -> bool) (skip : bool) (vfile : list rtree) (j : json) : pres :=
  from_json fhv bhv fv (achcli_passed skip vfile) j.

(* ------------------------------------------------------------ G. runs for the correspondence *)

Definition full_env (hv : bool) : penv := env_cur (fun _ _ => hv) (fun _ _ => true) (fun _ => true).

(* the hypotheses of C07_roundtrip evaluated on a file value (validators: the verdict of FileHeader.Validate is
   supplied; batch headers valid; File.Validate accepts) *)
Definition roundtrip_hyps (hv : bool) (v : val) : bool :=
  typed T_File v
  && in_domain v
  && valid (fun _ _ => hv) (fun _ _ => true) (fun _ => true) v
  && tabulated (fun _ _ => hv) (fun _ _ => true) (fun _ => true) v
  && json_safe v.

Definition is_adv_value (v : val) : bool := is_adv_file (tree_of_file v).

(* what the theorem predicts comes back: (text, file options, header options, offsets) *)
Definition observe (f : rtree) : bytes * list rtree * list (list rtree) * list (list rtree) :=
  (write_full f, file_opts f, header_opts f, offsets_of f).

Definition roundtrip_run (hv : bool) (skip : bool) (vfile : list rtree) (v : val) : option rtree :=
  match achcli_reformat (fun _ _ => hv) (fun _ _ => true) (fun _ => true) skip vfile (to_json v) with
  | POk f | PInvalid f => Some f
  | PErr _ => None
  end.

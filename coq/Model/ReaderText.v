(* C06 (phase 5) — from bytes to shapes: how the byte-level model of phase 1 (Totality.v: readLine,
   parseLine, the dispatch on the first byte, the IAT header detection, the addenda code slices) and the
   shape model of the reader's state machine (ReaderShape.v) fit together.

   Totality.read_lines hands every physical line to readLine and returns, per line, the records given to
   parseLine with their DISPATCH (rec_kind).  A shape-level line [refines] a dispatched record when it is
   of that record type; everything else a shape-level line carries (SEC code, service class, transaction
   code, AddendaRecordIndicator, addenda type, the answers of the validators) is data the dispatch does not
   fix, and the shape theorems hold for every value of it.  Definitions only. *)
From Coq Require Import List Bool.
Import ListNotations.
From ACH Require Totality.
From ACH Require Import TotalOps ReaderShape.

Definition refines (k : Totality.rec_kind) (l : line) : bool :=
  match k, l with
  | Totality.KFileHeader, LFileHeader => true
  | Totality.KBatchHeader, LBatchHeader _ _ => true           (* parseBH → parseBatchHeader *)
  | Totality.KBatchHeaderIAT, LIATHeader _ => true            (* parseBH → parseIATBatchHeader *)
  | Totality.KEntryDetail, LEntry _ _ _ _ _ _ _ => true
  | Totality.KAddenda _ _, LAddenda _ => true                 (* the tag is a function of the two code slices *)
  | Totality.KBatchControl, LBatchControl => true
  | Totality.KFileControl, LFileControl => true
  | Totality.KPadding, LPadding => true
  | Totality.KUnknown, LUnknown => true
  | _, _ => false
  end.

(* the records parseLine receives, in order; a physical line readLine rejects contributes none (its error
   is recorded and the next line is read) *)
Definition dispatched (recs : list (list (Bytes.bytes * Totality.rec_kind))) : list Totality.rec_kind :=
  map snd (concat recs).

Fixpoint refines_all (ks : list Totality.rec_kind) (ls : list rline) : bool :=
  match ks, ls with
  | [], [] => true
  | k :: ks', x :: ls' => refines k (fst x) && refines_all ks' ls'
  | _, _ => false
  end.

(* C04, phase 7: the list surgery phase 6 left open.

   One character (behind column 0) of one record line of a structured file replaced by a digit:
   the lines are still a typed structured file of well-formed 94-character lines, and the two readers
   of the development still agree on it (bridge_okb) — for a batch header under the condition that
   the replaced character lies behind the columns the batch kind is decided on.

     uline_set_digit        the line: still a [uline], same record type
     iat_line_set_digit     the typed reader's IAT detection (characters 50..53 / 4..20) does not see a
                            column >= 53
     in_set_nth_inv, Forall_flat_map_set_nth   lists with one element replaced
     map_line_keeps         the file: file_typed / utf8_records / bridge_okb are kept by [map_line]
                            for ANY line function that keeps the three line-level facts
     tamper_keeps           ... instantiated with [set_digit]                                        *)
From Coq Require Import String List NArith ZArith Bool Lia.
From ACH Require Import Arith ReaderSkel ReaderSkelFacts.
From ACH Require Import TamperText TamperTextFacts TamperTextLift TruncBytes TruncUtf8 TruncUtf8Facts.
From ACH Require Import Utf8Enc Utf8Prefix FramingBytes ArithFacts FieldsFacts LayoutFacts.
Import ListNotations.
Local Open Scope nat_scope.
Local Open Scope list_scope.

(* ------------------------------------------------------------------ *)
(* one line                                                              *)

Lemma digit_cases d : is_digit d = true ->
  (d = 48 \/ d = 49 \/ d = 50 \/ d = 51 \/ d = 52 \/ d = 53 \/ d = 54 \/ d = 55 \/ d = 56 \/ d = 57)%N.
Proof. intros H. pose proof (proj2 (is_digit_range d H)) as R. lia. Qed.

Lemma digit_not_space d : is_digit d = true -> space_rune d = false.
Proof.
  intros H. destruct (digit_cases d H) as [->|[->|[->|[->|[->|[->|[->|[->|[->| ->]]]]]]]]]; reflexivity.
Qed.

Lemma digit_not_nl d : is_digit d = true -> (negb (d =? 10) && negb (d =? 13))%N = true.
Proof.
  intros H. destruct (digit_cases d H) as [->|[->|[->|[->|[->|[->|[->|[->|[->| ->]]]]]]]]]; reflexivity.
Qed.

Lemma no_nl_bytes_app a b : no_nl_bytes (a ++ b) = no_nl_bytes a && no_nl_bytes b.
Proof. unfold no_nl_bytes. apply forallb_app. Qed.

Lemma hd_firstn1 (x : bytes) : hd 0%N x = hd 0%N (firstn 1 x).
Proof. destruct x; reflexivity. Qed.

(* the characters the scanner yields for a well-formed line are the units Parse indexes *)
Lemma chars_units l : wf_utf8 l = true -> chars l = units IRune l.
Proof.
  intros Hw. destruct (wf_decompose l Hw) as (rs & Hv & E & Hr).
  rewrite (chars_wf l Hw), Hr, E. symmetry. now apply units_encode.
Qed.

Lemma csub_column l lo hi : wf_utf8 l = true -> csub l lo hi = column l lo hi.
Proof. intros Hw. unfold csub, column. now rewrite (chars_units l Hw). Qed.

(* a record line with one character behind column 0 replaced by a digit *)
Lemma uline_set_digit l col d : uline l -> 1 <= col -> is_digit d = true ->
  uline (set_digit l col d) /\ rtype (set_digit l col d) = rtype l.
Proof.
  intros (Hw & H94 & Hnl & Hb) Hc Hd.
  destruct (wf_decompose l Hw) as (rs & Hv & E & Hr). subst l.
  rewrite rune_count_encode in H94. pose proof (is_digit_lt128 d Hd) as Hd'.
  destruct (Nat.lt_ge_cases col (length rs)) as [Hlt|Hge].
  2:{ assert (Eid : set_digit (encode rs) col d = encode rs).
      { rewrite (set_digit_encode rs col d Hv Hd'). unfold set_nth.
        destruct (Nat.ltb_spec col (length rs)); [lia|reflexivity]. }
      rewrite Eid. split; [|reflexivity]. repeat split; try assumption. now rewrite rune_count_encode. }
  split.
  - destruct (set_digit_wf rs col d Hv Hd) as [W R]. split; [exact W|]. split; [now rewrite R|].
    rewrite (set_digit_encode rs col d Hv Hd').
    destruct (set_nth_prefix rs col d Hlt) as (y & E1 & E2). rewrite E2.
    rewrite E1 in Hnl, Hb.
    split.
    + rewrite encode_app, encode_cons, !no_nl_bytes_app in Hnl |- *.
      apply andb_prop in Hnl as [N1 N2]. apply andb_prop in N2 as [_ N3].
      rewrite N1, N3, (encode_rune_ascii d Hd'). unfold no_nl_bytes at 1. cbn [forallb].
      now rewrite (digit_not_nl d Hd).
    + assert (Hv' : valid (firstn col rs ++ d :: skipn (S col) rs) = true).
      { rewrite <- E2. apply valid_set_nth; [now apply validb_ascii|exact Hv]. }
      unfold blank_line. rewrite (runes_encode_valid _ Hv'), forallb_app. cbn [forallb].
      rewrite (digit_not_space d Hd). cbn [andb]. apply andb_false_r.
  - unfold rtype. rewrite (hd_firstn1 (set_digit _ _ _)), (hd_firstn1 (encode rs)).
    f_equal. apply (bytes_prefix_set_digit rs col d 0 1 Hv Hd' Hlt). lia.
Qed.

(* parseBH's IAT detection reads characters 50..53 and 4..20 *)
Lemma iat_line_set_digit l col d : uline l -> 53 <= col -> is_digit d = true ->
  iat_line (set_digit l col d) = iat_line l.
Proof.
  intros Hu Hc Hd. pose proof Hu as (Hw & _).
  destruct (uline_set_digit l col d Hu ltac:(lia) Hd) as [(Hw' & _) _].
  destruct (wf_decompose l Hw) as (rs & Hv & E & _).
  unfold iat_line, iat_detect. cbn [existsb detect1].
  rewrite !(csub_column _ _ _ Hw'), !(csub_column _ _ _ Hw). rewrite E.
  rewrite !(column_set_digit_out rs col d _ _ Hv Hd) by lia. reflexivity.
Qed.

(* ------------------------------------------------------------------ *)
(* lists with one element replaced                                       *)

Lemma in_set_nth_inv {A} (l : list A) n x y : In y (set_nth n x l) -> y = x \/ In y l.
Proof.
  intros Hy. apply In_nth_error in Hy as [i Hi]. rewrite nth_error_set_nth in Hi.
  destruct ((i =? n) && (n <? length l)); [injection Hi as <-; now left|].
  right. eapply nth_error_In; eauto.
Qed.

Lemma Forall_flat_map_set_nth {A B} (P : B -> Prop) (f : A -> list B) n x l :
  Forall P (f x) -> Forall P (flat_map f l) -> Forall P (flat_map f (set_nth n x l)).
Proof.
  intros Hx Hl. apply Forall_forall. intros b Hb. apply in_flat_map in Hb as (a & Ha & Hba).
  destruct (in_set_nth_inv l n x a Ha) as [->|Hin].
  - rewrite Forall_forall in Hx. now apply Hx.
  - rewrite Forall_forall in Hl. apply Hl. apply in_flat_map. now exists a.
Qed.

Lemma forallb_nth_error {A} (p : A -> bool) l n x : forallb p l = true -> nth_error l n = Some x -> p x = true.
Proof. intros H Hn. rewrite forallb_forall in H. apply H. eapply nth_error_In; eauto. Qed.

Lemma Forall_flat_map_nth {A B} (P : B -> Prop) (f : A -> list B) l n x :
  Forall P (flat_map f l) -> nth_error l n = Some x -> Forall P (f x).
Proof.
  intros H Hn. apply Forall_forall. intros b Hb. rewrite Forall_forall in H. apply H.
  apply in_flat_map. exists x. split; [eapply nth_error_In; eauto|exact Hb].
Qed.

(* ------------------------------------------------------------------ *)
(* the file                                                              *)

Section Surgery.
Variable T : list layout.

Definition batch_bridge (b : batchS) : bool := hdr_agreeb b && addenda_keptb T b.

(* one batch replaced by a batch with the same three facts *)
Lemma replace_batch_keeps s bi b b' : nth_error (f_batches s) bi = Some b ->
  (batch_typed b = true -> batch_typed b' = true) ->
  (Forall uline (batch_lines b) -> Forall uline (batch_lines b')) ->
  (batch_bridge b = true -> batch_bridge b' = true) ->
  file_typed s = true -> utf8_records s -> bridge_okb T s = true ->
  let s' := mkFile (f_hdr s) (set_nth bi b' (f_batches s)) (f_ctl s) in
  file_typed s' = true /\ utf8_records s' /\ bridge_okb T s' = true.
Proof.
  intros Hb Kt Ku Kb Ht Hu Hbr s'. split; [|split].
  - unfold file_typed in *. cbn [s' f_hdr f_batches f_ctl].
    apply andb_prop in Ht as [Ht H9]. apply andb_prop in Ht as [H1 Hbs].
    rewrite H1, H9, andb_true_r. cbn [andb].
    apply forallb_set_nth; [|exact Hbs]. apply Kt. exact (forallb_nth_error _ _ _ _ Hbs Hb).
  - unfold utf8_records, record_lines in *. cbn [s' f_hdr f_batches f_ctl].
    inversion Hu as [|? ? Hh Hrest]; subst. apply Forall_app in Hrest as [Hbs Hc].
    constructor; [exact Hh|]. apply Forall_app. split; [|exact Hc].
    apply Forall_flat_map_set_nth; [|exact Hbs]. apply Ku. exact (Forall_flat_map_nth _ _ _ _ _ Hbs Hb).
  - unfold bridge_okb in *. cbn [s' f_batches].
    apply forallb_set_nth; [|exact Hbr]. apply Kb. exact (forallb_nth_error _ _ _ _ Hbr Hb).
Qed.

(* [map_line] with a line function that keeps, on the line of the site: the 94 well-formed
   characters, the record type and — on a batch header — the batch kind as both readers decide it *)
Theorem map_line_keeps s site g l : site_line s site = Some l ->
  uline (g l) -> rtype (g l) = rtype l ->
  (forall bi, site = SBatchHdr bi -> kind_of_hdr (g l) = kind_of_hdr l /\ iat_line (g l) = iat_line l) ->
  file_typed s = true -> utf8_records s -> bridge_okb T s = true ->
  file_typed (map_line s site g) = true /\ utf8_records (map_line s site g) /\ bridge_okb T (map_line s site g) = true.
Proof.
  intros Hsl Hul Hrt Hk Ht Hu Hbr. destruct site as [bi ei|bi|bi|]; cbn [site_line] in Hsl; unfold map_line.
  - (* an entry detail line *)
    destruct (nth_error (f_batches s) bi) as [b|] eqn:Hb; [|discriminate].
    destruct (nth_error (b_entries b) ei) as [e|] eqn:He; [|discriminate].
    cbn [option_map] in Hsl. injection Hsl as Hsl.
    rewrite (upd_nth_some _ _ _ _ Hb), (upd_nth_some _ _ _ _ He), Hsl.
    set (e' := mkEntry (g l) (e_addenda e)).
    apply (replace_batch_keeps s bi b _ Hb); try assumption.
    + unfold batch_typed. cbn [b_hdr b_entries b_ctl]. intros H.
      apply andb_prop in H as [H H8]. apply andb_prop in H as [H5 Hes]. rewrite H5, H8, andb_true_r. cbn [andb].
      apply forallb_set_nth; [|exact Hes].
      pose proof (forallb_nth_error _ _ _ _ Hes He) as Hte. unfold entry_typed in *. cbn [e' e_rec e_addenda].
      now rewrite Hrt, <- Hsl.
    + unfold batch_lines. cbn [b_hdr b_entries b_ctl]. intros H.
      inversion H as [|? ? Hh Hrest]; subst. apply Forall_app in Hrest as [Hes Hc].
      constructor; [exact Hh|]. apply Forall_app. split; [|exact Hc].
      apply Forall_flat_map_set_nth; [|exact Hes].
      pose proof (Forall_flat_map_nth _ _ _ _ _ Hes He) as Hle. unfold entry_lines in *. cbn [e' e_rec e_addenda].
      inversion Hle; subst. now constructor.
    + unfold batch_bridge, hdr_agreeb, addenda_keptb, TamperText.is_iat. cbn [b_hdr b_entries b_ctl]. intros H.
      apply andb_prop in H as [Ha Hkp]. rewrite Ha. cbn [andb].
      apply forallb_set_nth; [|exact Hkp]. cbn [e' e_addenda]. exact (forallb_nth_error _ _ _ _ Hkp He).
  - (* a batch control line *)
    destruct (nth_error (f_batches s) bi) as [b|] eqn:Hb; [|discriminate].
    cbn [option_map] in Hsl. injection Hsl as Hsl.
    rewrite (upd_nth_some _ _ _ _ Hb), Hsl.
    apply (replace_batch_keeps s bi b _ Hb); try assumption.
    + unfold batch_typed. cbn [b_hdr b_entries b_ctl]. now rewrite Hrt, <- Hsl.
    + unfold batch_lines. cbn [b_hdr b_entries b_ctl]. intros H.
      inversion H as [|? ? Hh Hrest]; subst. apply Forall_app in Hrest as [Hes Hc].
      constructor; [exact Hh|]. apply Forall_app. split; [exact Hes|]. constructor; [exact Hul|constructor].
    + unfold batch_bridge, hdr_agreeb, addenda_keptb, TamperText.is_iat. cbn [b_hdr b_entries b_ctl]. exact (fun H => H).
  - (* a batch header line *)
    destruct (nth_error (f_batches s) bi) as [b|] eqn:Hb; [|discriminate].
    cbn [option_map] in Hsl. injection Hsl as Hsl.
    destruct (Hk bi eq_refl) as [Hkh Hil].
    rewrite (upd_nth_some _ _ _ _ Hb), Hsl.
    apply (replace_batch_keeps s bi b _ Hb); try assumption.
    + unfold batch_typed. cbn [b_hdr b_entries b_ctl]. now rewrite Hrt, <- Hsl.
    + unfold batch_lines. cbn [b_hdr b_entries b_ctl]. intros H.
      inversion H as [|? ? Hh Hrest]; subst. now constructor.
    + unfold batch_bridge, hdr_agreeb, addenda_keptb, TamperText.is_iat. cbn [b_hdr b_entries b_ctl].
      now rewrite Hkh, Hil, <- Hsl.
  - (* the file control line *)
    injection Hsl as Hsl. rewrite Hsl. split; [|split].
    + unfold file_typed in *. cbn [with_ctl f_hdr f_batches f_ctl]. rewrite Hrt, <- Hsl. exact Ht.
    + unfold utf8_records, record_lines in *. cbn [with_ctl f_hdr f_batches f_ctl].
      inversion Hu as [|? ? Hh Hrest]; subst. apply Forall_app in Hrest as [Hbs Hc].
      constructor; [exact Hh|]. apply Forall_app. split; [exact Hbs|]. constructor; [exact Hul|constructor].
    + exact Hbr.
Qed.

(* the line of a site of a file of well-formed lines is one *)
Lemma site_line_uline s site l : utf8_records s -> site_line s site = Some l -> uline l.
Proof.
  intros Hu Hsl. unfold utf8_records, record_lines in Hu. rewrite Forall_forall in Hu. apply Hu.
  destruct site as [bi ei|bi|bi|]; cbn [site_line] in Hsl.
  - destruct (nth_error (f_batches s) bi) as [b|] eqn:Hb; [|discriminate].
    destruct (nth_error (b_entries b) ei) as [e|] eqn:He; [|discriminate].
    cbn [option_map] in Hsl. injection Hsl as <-.
    right. apply in_or_app. left. apply in_flat_map. exists b. split; [eapply nth_error_In; eauto|].
    unfold batch_lines. right. apply in_or_app. left. apply in_flat_map. exists e.
    split; [eapply nth_error_In; eauto|now left].
  - destruct (nth_error (f_batches s) bi) as [b|] eqn:Hb; [|discriminate].
    cbn [option_map] in Hsl. injection Hsl as <-.
    right. apply in_or_app. left. apply in_flat_map. exists b. split; [eapply nth_error_In; eauto|].
    unfold batch_lines. right. apply in_or_app. right. now left.
  - destruct (nth_error (f_batches s) bi) as [b|] eqn:Hb; [|discriminate].
    cbn [option_map] in Hsl. injection Hsl as <-.
    right. apply in_or_app. left. apply in_flat_map. exists b. split; [eapply nth_error_In; eauto|now left].
  - injection Hsl as <-. right. apply in_or_app. right. now left.
Qed.

(* the missing lemma of phase 6, with the batch kind of a tampered header as a hypothesis (it is
   kind_of_hdr_tampered for a protected column, see Oblig/C04ValidTextFullObl.v) *)
Theorem tamper_keeps s site col d l : site_line s site = Some l ->
  1 <= col -> is_digit d = true ->
  (forall bi, site = SBatchHdr bi -> 53 <= col /\ kind_of_hdr (set_digit l col d) = kind_of_hdr l) ->
  file_typed s = true -> utf8_records s -> bridge_okb T s = true ->
  file_typed (tamper s site col d) = true /\ utf8_records (tamper s site col d) /\ bridge_okb T (tamper s site col d) = true.
Proof.
  intros Hsl Hc Hd Hh Ht Hu Hbr. pose proof (site_line_uline s site l Hu Hsl) as Hul.
  destruct (uline_set_digit l col d Hul Hc Hd) as [Hul' Hrt].
  unfold tamper. apply (map_line_keeps s site _ l Hsl Hul' Hrt); try assumption.
  intros bi Hbi. destruct (Hh bi Hbi) as [H53 Hkk]. split; [exact Hkk|now apply iat_line_set_digit].
Qed.

End Surgery.

(* ------------------------------------------------------------------ *)
(* the batch kind on byte slices does not see a character column >= 53   *)

Section HdrKind.
Hypothesis Hok : layout_ok L_BatchHeader = true.
Hypothesis Hix : l_ix L_BatchHeader = IRune.
Variable csec : cut.
Hypothesis Hsec : find_key (l_cuts L_BatchHeader) "StandardEntryClassCode" = Some csec.
Hypothesis Hhi : c_hi csec <= 53.

Lemma parse_encode_gen L rs : l_ix L = IRune -> length rs = 94 ->
  parse L (encode rs) = flat_map (parse_cut (units IRune (encode rs))) (l_cuts L).
Proof. intros HL Hl. unfold parse. now rewrite rune_count_encode, Hl, Nat.eqb_refl, HL. Qed.

Lemma lookup_parse_assigned_gen L rs g : layout_ok L = true -> l_ix L = IRune -> length rs = 94 ->
  lookup (parse L (encode rs)) g = assigned (units IRune (encode rs)) (l_cuts L) g.
Proof.
  intros HLok HL Hl. rewrite (parse_encode_gen L rs HL Hl). destruct (layout_ok_facts L HLok) as [cs F].
  now destruct (lookup_parse (units IRune (encode rs)) (l_cuts L) g (ok_cut_keys _ _ F)) as [-> _].
Qed.

(* a field whose cut does not contain the replaced column parses to the same value *)
Lemma field_set_digit_out L rs col d g c' : layout_ok L = true -> l_ix L = IRune ->
  valid rs = true -> length rs = 94 -> is_digit d = true ->
  find_key (l_cuts L) g = Some c' -> (col < c_lo c' \/ c_hi c' <= col) ->
  lookup (parse L (set_digit (encode rs) col d)) g = lookup (parse L (encode rs)) g.
Proof.
  intros HLok HL Hv Hl Hd Hg Hout. pose proof (is_digit_lt128 d Hd) as Hd'.
  pose proof (column_set_digit_out rs col d (c_lo c') (c_hi c') Hv Hd Hout) as Hcol. unfold column in Hcol.
  rewrite (set_digit_encode rs col d Hv Hd') in *.
  rewrite (lookup_parse_assigned_gen L _ g HLok HL) by now rewrite length_set_nth.
  rewrite (lookup_parse_assigned_gen L rs g HLok HL Hl). unfold assigned. rewrite Hg. unfold parse_cut.
  destruct (c_const c'); [reflexivity|]. destruct (String.eqb (c_field c') ""); [reflexivity|].
  now rewrite Hcol.
Qed.

Lemma kind_of_hdr_set_digit l col d : uline l -> 53 <= col -> is_digit d = true ->
  kind_of_hdr (set_digit l col d) = kind_of_hdr l.
Proof.
  intros (Hw & H94 & _) Hc Hd. destruct (wf_decompose l Hw) as (rs & Hv & E & _). subst l.
  rewrite rune_count_encode in H94. pose proof (is_digit_lt128 d Hd) as Hd'.
  destruct (Nat.lt_ge_cases col (length rs)) as [Hlt|Hge].
  2:{ rewrite (set_digit_encode rs col d Hv Hd'). unfold set_nth.
      destruct (Nat.ltb_spec col (length rs)); [lia|reflexivity]. }
  unfold kind_of_hdr.
  rewrite (bytes_prefix_set_digit rs col d 50 3 Hv Hd' Hlt) by lia.
  rewrite (bytes_prefix_set_digit rs col d 4 16 Hv Hd' Hlt) by lia.
  now rewrite (gets_lookup _ _ _ (field_set_digit_out L_BatchHeader rs col d _ csec Hok Hix Hv H94 Hd Hsec ltac:(right; lia))).
Qed.

(* the lemma phase 6 named as missing, as stated there *)
Theorem tamper_keeps_general T s site col d l : site_line s site = Some l ->
  1 <= col -> is_digit d = true ->
  (forall bi, site = SBatchHdr bi -> 53 <= col) ->
  file_typed s = true -> utf8_records s -> bridge_okb T s = true ->
  file_typed (tamper s site col d) = true /\ utf8_records (tamper s site col d) /\ bridge_okb T (tamper s site col d) = true.
Proof.
  intros Hsl Hc Hd Hh Ht Hu Hbr. apply (tamper_keeps T s site col d l Hsl Hc Hd); try assumption.
  intros bi Hbi. pose proof (Hh bi Hbi) as H53. split; [exact H53|].
  apply kind_of_hdr_set_digit; [exact (site_line_uline s site l Hu Hsl)|exact H53|exact Hd].
Qed.

End HdrKind.

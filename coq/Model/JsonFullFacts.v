(* C07 (phase 4) — facts about the full file-level model (JsonFull.v):
   A. the option-aware header line; lines_o against lines;
   B. [post_ready_struct]: post-processing of a ready (non-ADV) tree, with the kids of the result;
   C. [post_ready_adv]: the same for an ADV tree;
   D. the text / options / offsets of the result against the full tree of the original. *)
From Coq Require Import String Ascii List Bool ZArith NArith Lia.
Import ListNotations.
From ACH Require Import Bytes JsonCodec JsonCodecFacts JsonSurvive JsonPostTable Layout LayoutOk LayoutFacts CustomFacts FileStruct.
From ACH Require Import JsonFile JsonFileFacts JsonFileCurrent JsonFull.
Local Open Scope string_scope.
Local Open Scope list_scope.

(* ------------------------------------------------------------ A. the header line *)

Lemma fh_field_o_default v : fh_field_o false v = match v with [] => spaces 10 | _ => sp :: stringField (trim v) 9 end.
Proof. destruct v; reflexivity. Qed.

Lemma render_seg_o_default o r s :
  flag o "BypassDestinationValidation" = false -> flag o "BypassOriginValidation" = false ->
  render_seg_o o r s = render_seg r s.
Proof.
  intros Hd Ho. destruct s as [bs|f w|f w|f w|f|f|n h|src]; try reflexivity.
  unfold render_seg_o. rewrite Hd, Ho.
  destruct (String.eqb n "FileHeader.ImmediateDestinationField") eqn:E1.
  - apply String.eqb_eq in E1. subst n. rewrite fh_field_o_default.
    cbn [render_seg]. unfold render_custom. cbn [String.eqb Ascii.eqb Bool.eqb].
    destruct (gets r _); reflexivity.
  - destruct (String.eqb n "FileHeader.ImmediateOriginField") eqn:E2; [|reflexivity].
    apply String.eqb_eq in E2. subst n. rewrite fh_field_o_default.
    cbn [render_seg]. unfold render_custom. cbn [String.eqb Ascii.eqb Bool.eqb].
    destruct (gets r _); reflexivity.
Qed.

(* without the two bypass flags the header line is the one the layout interpreter renders *)
Lemma render_o_default o L r :
  flag o "BypassDestinationValidation" = false -> flag o "BypassOriginValidation" = false ->
  render_o o L r = render L r.
Proof.
  intros Hd Ho. unfold render_o, render. f_equal. apply map_ext. intros s. now apply render_seg_o_default.
Qed.

Section LinesO.
  Variable layouts : list layout.

  Lemma lines_split f : lines layouts f = kid_lines layouts f "Header" ++ body_lines layouts f.
  Proof. reflexivity. Qed.

  Lemma header_line_o_set_kid h o : header_line_o layouts (set_kid h "validateOpts" o) =
    match layout_named layouts (rname h) with Some L => [render_o o L (rscal h)] | None => [] end.
  Proof. unfold header_line_o. cbn [rname set_kid rscal]. rewrite kid_set_kid_eq. reflexivity. Qed.

  (* batches: an ADV control attached to a batch whose header is not ADV is not written *)
  Lemma hdr_is_adv_set_adv b c : hdr_is_adv (set_kid b "ADVControl" c) = hdr_is_adv b.
  Proof. unfold hdr_is_adv. rewrite kid_set_kid_ne by (vm_compute; reflexivity). reflexivity. Qed.

  Lemma batch_lines_set_adv_plain b c :
    hdr_is_adv b = false -> batch_lines layouts false (set_kid b "ADVControl" c) = batch_lines layouts false b.
  Proof.
    intros H. unfold batch_lines, kid_lines. rewrite hdr_is_adv_set_adv, H. cbn [negb].
    rewrite !kid_set_kid_ne by (vm_compute; reflexivity). reflexivity.
  Qed.

  Lemma existsb_zip_adv bs : forall cs, existsb hdr_is_adv (zip_adv bs cs) = existsb hdr_is_adv bs.
  Proof.
    induction bs as [|b bs IH]; intros [|c cs]; try reflexivity.
    cbn [zip_adv existsb]. rewrite hdr_is_adv_set_adv, IH. reflexivity.
  Qed.

  Lemma lines_zip_adv_plain bs : forall cs,
    existsb hdr_is_adv bs = false ->
    flat_map (batch_lines layouts false) (zip_adv bs cs) = flat_map (batch_lines layouts false) bs.
  Proof.
    induction bs as [|b bs IH]; intros [|c cs] H; try reflexivity.
    cbn [existsb] in H. apply orb_false_iff in H as [H1 H2].
    cbn [zip_adv flat_map]. rewrite batch_lines_set_adv_plain by exact H1. rewrite IH by exact H2. reflexivity.
  Qed.

  Lemma map_offset_zip_adv bs : forall cs,
    map (fun b => kid b "offset") (zip_adv bs cs) = map (fun b => kid b "offset") bs.
  Proof.
    induction bs as [|b bs IH]; intros [|c cs]; try reflexivity.
    cbn [zip_adv map]. rewrite kid_set_kid_ne by (vm_compute; reflexivity). rewrite IH. reflexivity.
  Qed.

  (* the kids of the full tree *)
  Lemma kid_with_full_header d ho cs fc :
    kid (with_full d ho cs fc) "Header" = map (fun h => set_kid h "validateOpts" ho) (kid d "Header").
  Proof. unfold with_full. kids. reflexivity. Qed.
  Lemma kid_with_full_batches d ho cs fc : kid (with_full d ho cs fc) "Batches" = zip_adv (kid d "Batches") cs.
  Proof. unfold with_full. kids. reflexivity. Qed.
  Lemma kid_with_full_iat d ho cs fc : kid (with_full d ho cs fc) "IATBatches" = kid d "IATBatches".
  Proof. unfold with_full. kids. reflexivity. Qed.
  Lemma kid_with_full_control d ho cs fc : kid (with_full d ho cs fc) "Control" = kid d "Control".
  Proof. unfold with_full. kids. reflexivity. Qed.
  Lemma kid_with_full_advcontrol d ho cs fc : kid (with_full d ho cs fc) "ADVControl" = fc.
  Proof. unfold with_full. kids. reflexivity. Qed.
  Lemma kid_with_full_opts d ho cs fc : kid (with_full d ho cs fc) "validateOpts" = kid d "validateOpts".
  Proof. unfold with_full. kids. reflexivity. Qed.

  Lemma file_is_adv_with_full d ho cs fc : file_is_adv (with_full d ho cs fc) = file_is_adv d.
  Proof. unfold file_is_adv. rewrite kid_with_full_batches. apply existsb_zip_adv. Qed.

  (* a file that is not ADV: the ADV controls attached to the full tree are not written *)
  Lemma body_lines_with_full_plain d ho cs fc :
    file_is_adv d = false -> body_lines layouts (with_full d ho cs fc) = body_lines layouts d.
  Proof.
    intros H. unfold body_lines. rewrite file_is_adv_with_full, H. cbn [negb].
    rewrite kid_with_full_batches, kid_with_full_iat. unfold kid_lines. rewrite kid_with_full_control.
    rewrite lines_zip_adv_plain by exact H. reflexivity.
  Qed.
End LinesO.

(* cancel one header line on both sides *)
Lemma app_single_inv {A} (x y : A) (l1 l2 : list A) : [x] ++ l1 = [y] ++ l2 -> l1 = l2.
Proof. cbn. intros H. now injection H. Qed.

(* ------------------------------------------------------------ B. the post-processing of a ready tree, with the result's kids *)

Section Struct.
  Variable layouts : list layout.
  Variable E : penv.

  Theorem post_ready_struct passed d :
    fc_layout_ok layouts E = true ->
    ready E passed d = true ->
    let o := final_opts (pe_merge_fields E) passed (kid d "validateOpts") in
    exists f5 h,
      post E passed d = (if pe_file_valid E f5 then POk f5 else PInvalid f5)
      /\ kid d "Header" = [h]
      /\ kid f5 "Header" = [set_kid h "validateOpts" o]
      /\ kid f5 "Batches" = map (out_batch E o) (kid d "Batches")
      /\ kid f5 "IATBatches" = map (decor_iat o) (kid d "IATBatches")
      /\ kid f5 "validateOpts" = o
      /\ body_lines layouts f5 = body_lines layouts d
      /\ file_is_adv d = false.
  Proof.
    intros Hfc Hr o.
    pose proof (post_ready layouts E passed d Hfc Hr) as (g & Hg1 & Hg2 & Hg3).
    unfold ready in Hr. cbv zeta in Hr. fold o in Hr.
    repeat (apply andb_prop in Hr as [Hr ?]).
    rename H into Hgate, H0 into Hfcm, H1 into Hnum2, H2 into Hnum1, H3 into Hdates, H4 into Hctl,
           H5 into Hib, H6 into Hbb, H7 into Hip, H8 into Hbp, H9 into Hih, H10 into Hbh, H11 into Hhdr.
    apply negb_true_iff in Hr. rename Hr into Hnadv.
    destruct (kid d "Header") as [|h [|? ?]] eqn:EH; try discriminate. clear Hhdr.
    set (bs := kid d "Batches") in *. set (ibs := kid d "IATBatches") in *.
    set (bs' := map (out_batch E o) bs). set (ibs' := map (decor_iat o) ibs).
    revert Hg1 Hg2 Hg3. unfold post. cbv zeta. fold o.
    set (f1 := map_kid (set_kid d "validateOpts" o) "Header" (fun h0 => set_kid h0 "validateOpts" o)).
    assert (K1b : kid f1 "Batches" = bs) by (unfold f1; kids; reflexivity).
    assert (K1i : kid f1 "IATBatches" = ibs) by (unfold f1; kids; reflexivity).
    assert (K1h : kid f1 "Header" = [set_kid h "validateOpts" o]).
    { unfold f1. kids. rewrite EH. reflexivity. }
    assert (K1o : kid f1 "validateOpts" = o) by (unfold f1; kids; reflexivity).
    rewrite K1b, K1i. rewrite (filter_all _ bs Hbh), (filter_all _ ibs Hih).
    rewrite (map_out_good (post_batch E o) (out_batch E o)).
    2:{ intros b Hb. rewrite forallb_forall in Hbp, Hbb. apply post_batch_ready; auto. }
    rewrite (map_out_good (post_iat E o) (decor_iat o)).
    2:{ intros b Hb. rewrite forallb_forall in Hip, Hib. apply post_iat_ready; auto. }
    fold bs' ibs'.
    set (f2 := set_kid (set_kid f1 "Batches" bs') "IATBatches" ibs').
    unfold dates_short in Hdates. apply andb_prop in Hdates as [Hdates Hd3]. apply andb_prop in Hdates as [Hd1 Hd2].
    rewrite EH in Hd1. cbn [forallb] in Hd1. rewrite andb_true_r in Hd1.
    unfold fields_short in Hd1. cbn [forallb] in Hd1. apply andb_prop in Hd1 as [Hd1a Hd1b]. apply andb_prop in Hd1b as [Hd1b _].
    set (f3a := overwrite_dates f2).
    assert (K3h : kid f3a "Header" = [set_kid h "validateOpts" o]).
    { unfold f3a, overwrite_dates, f2. kids. rewrite K1h. cbn [map].
      rewrite norm_date_short by exact Hd1a. rewrite norm_time_short by exact Hd1b. reflexivity. }
    assert (K3b : kid f3a "Batches" = bs').
    { unfold f3a, overwrite_dates, f2. kids.
      apply map_id_in. intros b' Hb'. unfold bs' in Hb'. apply in_map_iff in Hb' as [b [<- Hb]].
      apply map_kid_id. intros h0 Hh0. rewrite (kid_out_batch E o b) in Hh0 by str_neq.
      rewrite forallb_forall in Hd2. specialize (Hd2 b Hb). rewrite forallb_forall in Hd2. specialize (Hd2 h0 Hh0).
      unfold fields_short in Hd2. cbn [forallb] in Hd2. apply andb_prop in Hd2 as [Ha Hb2]. apply andb_prop in Hb2 as [Hb2 _].
      rewrite norm_descriptive_short by exact Ha. apply norm_date_short. exact Hb2. }
    assert (K3i : kid f3a "IATBatches" = ibs').
    { unfold f3a, overwrite_dates, f2. kids.
      apply map_id_in. intros b' Hb'. unfold ibs' in Hb'. apply in_map_iff in Hb' as [b [<- Hb]].
      apply map_kid_id. intros h0 Hh0. rewrite (kid_decor_iat o b) in Hh0 by str_neq.
      rewrite forallb_forall in Hd3. specialize (Hd3 b Hb). rewrite forallb_forall in Hd3. specialize (Hd3 h0 Hh0).
      unfold fields_short in Hd3. cbn [forallb] in Hd3. apply andb_prop in Hd3 as [Ha _].
      apply norm_date_short. exact Ha. }
    assert (K3o : kid f3a "validateOpts" = o).
    { unfold f3a, overwrite_dates, f2. kids. exact K1o. }
    rewrite K3b.
    assert (Hfill : isadv_fill E bs' = bs').
    { apply isadv_fill_id. unfold bs'. rewrite forallb_forall. intros b' Hb'. apply in_map_iff in Hb' as [b [<- Hb]].
      unfold has_control. rewrite (kid_out_batch E o b) by str_neq.
      rewrite forallb_forall in Hctl. exact (Hctl b Hb). }
    rewrite Hfill.
    set (f3 := set_kid f3a "Batches" bs').
    assert (Hadv3 : is_adv_file f3 = false).
    { unfold is_adv_file, f3. kids.
      unfold bs'. rewrite existsb_map. transitivity (is_adv_file d); [|exact Hnadv]. unfold is_adv_file. fold bs.
      apply existsb_ext'. intros b. rewrite header_of_out_batch. reflexivity. }
    rewrite Hadv3. cbn [negb].
    assert (K3b' : kid f3 "Batches" = bs') by (unfold f3; kids; reflexivity).
    rewrite K3b'.
    set (n := Z.of_nat (length bs')).
    set (f4 := set_kid (map_kid f3 "Control" (fun c => iset c "BatchCount" n)) "ADVControl" [pe_zero_adv_file_control E]).
    assert (K4h : kid f4 "Header" = [set_kid h "validateOpts" o]).
    { unfold f4, f3. kids. exact K3h. }
    assert (K4b : kid f4 "Batches" = bs').
    { unfold f4. kids. exact K3b'. }
    assert (K4i : kid f4 "IATBatches" = ibs').
    { unfold f4, f3. kids. exact K3i. }
    assert (K4o : kid f4 "validateOpts" = o).
    { unfold f4, f3. kids. exact K3o. }
    assert (Hadv4 : is_adv_file f4 = false).
    { unfold is_adv_file. rewrite K4b. unfold is_adv_file in Hadv3. rewrite K3b' in Hadv3. exact Hadv3. }
    assert (Hcreate : create E o f4 = (create_plain E f4, true)).
    { unfold create. unfold header_of at 1. rewrite K4h, K4b, K4i, Hadv4.
      unfold create_gate in Hgate. apply andb_prop in Hgate as [G1 G2]. apply negb_true_iff in G1, G2.
      unfold header_of in G1. rewrite EH in G1. rewrite G1.
      assert (G2' : (negb (flag o "SkipAll") && negb (flag o "AllowZeroBatches")
                     && match bs', ibs' with [], [] => true | _, _ => false end) = false).
      { fold bs ibs in G2. unfold bs', ibs'. destruct bs, ibs; exact G2. }
      rewrite G2'. reflexivity. }
    rewrite Hcreate.
    set (f5 := create_plain E f4).
    intros Hg1 Hg2 Hg3.
    assert (Eg : g = f5).
    { cbn [negb] in Hg1. destruct (pe_file_valid E f5); cbn [pres_tree] in Hg1; now injection Hg1. }
    subst g.
    assert (Hnb : renumber "Control" 1 bs' = bs').
    { apply renumber_id; [str_neq|]. unfold bs'. rewrite numbered_map; [exact Hnum1| | |].
      - intros b. apply header_of_out_batch.
      - intros b. apply kid_out_batch. str_neq.
      - intros b. apply kid_out_batch. str_neq. }
    assert (Hlen : length bs' = length bs) by (unfold bs'; apply map_length).
    assert (Hni : renumber "Control" (1 + Z.of_nat (length bs')) ibs' = ibs').
    { apply renumber_id; [str_neq|]. rewrite Hlen. unfold ibs'. rewrite numbered_map; [exact Hnum2| | |].
      - intros b. apply header_of_decor_iat.
      - intros b. apply kid_decor_iat. str_neq.
      - intros b. apply kid_decor_iat. str_neq. }
    assert (K5h : kid f5 "Header" = [set_kid h "validateOpts" o]).
    { unfold f5, create_plain. cbv zeta. kids. exact K4h. }
    assert (K5b : kid f5 "Batches" = bs').
    { unfold f5, create_plain. cbv zeta. kids. rewrite K4b. exact Hnb. }
    assert (K5i : kid f5 "IATBatches" = ibs').
    { unfold f5, create_plain. cbv zeta. kids. rewrite K4b, K4i, Hnb. exact Hni. }
    assert (K5o : kid f5 "validateOpts" = o).
    { unfold f5, create_plain. cbv zeta. kids. exact K4o. }
    exists f5, h. split; [cbn [negb]; reflexivity|]. split; [reflexivity|].
    split; [exact K5h|]. split; [exact K5b|]. split; [exact K5i|]. split; [exact K5o|].
    assert (Ad : file_is_adv d = false).
    { unfold file_is_adv. fold bs. transitivity (is_adv_file d); [|exact Hnadv]. unfold is_adv_file. fold bs.
      apply existsb_ext'. intros b. apply hdr_is_adv_spec. }
    split; [|exact Ad].
    (* both sides write exactly one header line (or none, if the layouts lack the header): cancel it *)
    rewrite !lines_split in Hg3. unfold kid_lines in Hg3. rewrite K5h, EH in Hg3. cbn [flat_map] in Hg3.
    rewrite !app_nil_r in Hg3. rewrite node_line_set_kid in Hg3.
    unfold node_line in Hg3. destruct (layout_named layouts (rname h)) as [L|].
    - exact (app_single_inv _ _ _ _ Hg3).
    - exact Hg3.
  Qed.
End Struct.

(* ------------------------------------------------------------ C. ADV files *)

Lemma forallb2_length {A B} (p : A -> B -> bool) xs : forall ys, forallb2 p xs ys = true -> length ys = length xs.
Proof.
  induction xs as [|x xs IH]; intros [|y ys] H; try discriminate; [reflexivity|].
  cbn [forallb2] in H. apply andb_prop in H as [_ H]. cbn [length]. f_equal. now apply IH.
Qed.

Section AdvFacts.
  Variable layouts : list layout.
  Variable E : penv.

  Definition out_batch_adv (o : list rtree) (b : rtree) (c : list rtree) : rtree :=
    sset (set_kid (decor o b) "ADVControl" c) "@type" (type_name E (header_of b)).

  Lemma post_batch_adv_ready o b c :
    batch_prepared E b = true -> adv_batch_built E o b c = true -> post_batch E o b = Good (out_batch_adv o b c).
  Proof.
    intros Hp Hb. unfold batch_prepared in Hp. apply andb_prop in Hp as [Hpe Hpa].
    unfold post_batch. cbv zeta.
    change (set_kid (sset b "id" (sget (header_of b) "ID")) "validateOpts" o) with (decor o b).
    rewrite (map_kid_id (decor o b) "Entries").
    2:{ intros e He. rewrite kid_decor in He by str_neq.
        rewrite forallb_forall in Hpe. specialize (Hpe e He). apply andb_prop in Hpe as [H1 H2].
        rewrite set_type_codes_id by exact H1.
        destruct (existsb (sec_is (header_of b)) (pt_catx (pe_table E))); [|reflexivity].
        apply catx_pack_id. exact H2. }
    rewrite (map_kid_id (decor o b) "ADVEntries").
    2:{ intros e He. rewrite kid_decor in He by str_neq.
        rewrite forallb_forall in Hpa. apply set_adv_category_id. exact (Hpa e He). }
    unfold adv_batch_built in Hb. destruct (build_batch E o (decor o b)) as [b'|st]; [|discriminate].
    apply rtree_eqb_eq in Hb. subst b'. reflexivity.
  Qed.

  Fixpoint zip_out (o : list rtree) (bs : list rtree) (cs : list (list rtree)) : list rtree :=
    match bs, cs with
    | b :: bs', c :: cs' => out_batch_adv o b c :: zip_out o bs' cs'
    | _, _ => []
    end.

  Lemma map_out_zip o bs : forall cs,
    forallb (batch_prepared E) bs = true -> forallb2 (adv_batch_built E o) bs cs = true ->
    map_out (post_batch E o) bs = Good (zip_out o bs cs).
  Proof.
    induction bs as [|b bs IH]; intros [|c cs] Hp Hb; try discriminate; [reflexivity|].
    cbn [forallb] in Hp. apply andb_prop in Hp as [Hp1 Hp2].
    cbn [forallb2] in Hb. apply andb_prop in Hb as [Hb1 Hb2].
    cbn [map_out zip_out]. rewrite (post_batch_adv_ready o b c Hp1 Hb1). cbn [bind].
    rewrite (IH cs Hp2 Hb2). reflexivity.
  Qed.

  Lemma kid_out_adv o b c k :
    String.eqb k "ADVControl" = false -> String.eqb k "validateOpts" = false -> kid (out_batch_adv o b c) k = kid b k.
  Proof. intros H1 H2. unfold out_batch_adv. rewrite kid_sset. rewrite kid_set_kid, H1. now apply kid_decor. Qed.

  Lemma kid_out_adv_ctl o b c : kid (out_batch_adv o b c) "ADVControl" = c.
  Proof. unfold out_batch_adv. rewrite kid_sset. apply kid_set_kid_eq. Qed.

  Lemma header_of_out_adv o b c : header_of (out_batch_adv o b c) = header_of b.
  Proof. unfold header_of. rewrite kid_out_adv by str_neq. reflexivity. Qed.

  Lemma hdr_is_adv_out_adv o b c : hdr_is_adv (out_batch_adv o b c) = hdr_is_adv b.
  Proof. unfold hdr_is_adv. rewrite kid_out_adv by str_neq. reflexivity. Qed.

  (* File.IsADV gives the first batch a control if it has none *)
  Definition fill1 (b : rtree) : rtree :=
    match kid b "Control" with [] => set_kid b "Control" [pe_new_batch_control E] | _ => b end.
  Definition fillhd (l : list rtree) : list rtree := match l with x :: r => fill1 x :: r | [] => [] end.

  Lemma kid_fill1 b k : String.eqb k "Control" = false -> kid (fill1 b) k = kid b k.
  Proof. intros H. unfold fill1. destruct (kid b "Control"); [|reflexivity]. now apply kid_set_kid_ne. Qed.

  Lemma header_of_fill1 b : header_of (fill1 b) = header_of b.
  Proof. unfold header_of. rewrite kid_fill1 by str_neq. reflexivity. Qed.

  Lemma hdr_is_adv_fill1 b : hdr_is_adv (fill1 b) = hdr_is_adv b.
  Proof. unfold hdr_is_adv. rewrite kid_fill1 by str_neq. reflexivity. Qed.

  Lemma isadv_fill_adv b r : sec_is (header_of b) "ADV" = true -> isadv_fill E (b :: r) = fill1 b :: r.
  Proof. intros H. cbn [isadv_fill]. rewrite H. reflexivity. Qed.

  Lemma isadv_fill_fillhd l :
    match l with b :: _ => sec_is (header_of b) "ADV" = true | [] => True end -> isadv_fill E l = fillhd l.
  Proof. destruct l as [|b r]; [reflexivity|]. apply isadv_fill_adv. Qed.

  Definition adv_headed (b : rtree) : bool := sec_is (header_of b) "ADV".

  (* ---- the list of built batches *)
  Lemma adv_headed_zip_out o bs : forall cs, length cs = length bs ->
    forallb adv_headed (zip_out o bs cs) = forallb adv_headed bs.
  Proof.
    induction bs as [|b bs IH]; intros [|c cs] Hl; try discriminate; [reflexivity|].
    cbn [zip_out forallb]. unfold adv_headed at 1. rewrite header_of_out_adv. fold (adv_headed b).
    rewrite IH by (cbn in Hl; lia). reflexivity.
  Qed.

  Lemma numbered_zip_out o bs : forall cs seq,
    numbered_adv seq bs cs = true -> length cs = length bs ->
    numbered "ADVControl" seq (zip_out o bs cs) = true.
  Proof.
    induction bs as [|b bs IH]; intros [|c cs] seq H Hl; try discriminate; [reflexivity|].
    cbn [numbered_adv] in H. apply andb_prop in H as [H1 H2].
    cbn [zip_out numbered]. rewrite header_of_out_adv, kid_out_adv_ctl. rewrite kid_out_adv by str_neq.
    rewrite H1. cbn [andb]. apply IH; [exact H2 | cbn in Hl; lia].
  Qed.

  Lemma ctl_of_out_adv o b c : ctl_of "ADVControl" (out_batch_adv o b c) = match c with x :: _ => x | [] => empty_node end.
  Proof. unfold ctl_of. rewrite kid_out_adv_ctl. reflexivity. Qed.

  Lemma bsum_zip_out o f bs : forall cs, length cs = length bs -> bsum "ADVControl" f (zip_out o bs cs) = csum f cs.
  Proof.
    unfold bsum, csum. generalize 0%Z.
    induction bs as [|b bs IH]; intros a0 [|c cs] Hl; try discriminate; [reflexivity|].
    cbn [zip_out fold_left]. rewrite ctl_of_out_adv. apply IH. cbn in Hl; lia.
  Qed.

  Lemma length_zip_out o bs : forall cs, length cs = length bs -> length (zip_out o bs cs) = length bs.
  Proof.
    induction bs as [|b bs IH]; intros [|c cs] Hl; try discriminate; [reflexivity|].
    cbn [zip_out length]. f_equal. apply IH. cbn in Hl; lia.
  Qed.

  Lemma batch_lines_out_adv adv o b c :
    batch_lines layouts adv (out_batch_adv o b c) = batch_lines layouts adv (set_kid b "ADVControl" c).
  Proof.
    unfold batch_lines, kid_lines. rewrite hdr_is_adv_out_adv, hdr_is_adv_set_adv.
    rewrite kid_out_adv_ctl, kid_set_kid_eq.
    rewrite !(kid_out_adv o b c) by str_neq. rewrite !(kid_set_kid_ne b "ADVControl" c) by str_neq. reflexivity.
  Qed.

  Lemma lines_zip_out adv o bs : forall cs, length cs = length bs ->
    flat_map (batch_lines layouts adv) (zip_out o bs cs) = flat_map (batch_lines layouts adv) (zip_adv bs cs).
  Proof.
    induction bs as [|b bs IH]; intros [|c cs] Hl; try discriminate; [reflexivity|].
    cbn [zip_out zip_adv flat_map]. rewrite batch_lines_out_adv. rewrite IH by (cbn in Hl; lia). reflexivity.
  Qed.

  (* ---- the first batch after File.IsADV *)
  Lemma adv_headed_fillhd l : forallb adv_headed (fillhd l) = forallb adv_headed l.
  Proof. destruct l as [|x r]; [reflexivity|]. cbn [fillhd forallb]. unfold adv_headed at 1. rewrite header_of_fill1. reflexivity. Qed.

  Lemma numbered_fillhd seq l : numbered "ADVControl" seq (fillhd l) = numbered "ADVControl" seq l.
  Proof.
    destruct l as [|x r]; [reflexivity|]. cbn [fillhd numbered]. rewrite header_of_fill1.
    rewrite !(kid_fill1 x) by str_neq. reflexivity.
  Qed.

  Lemma bsum_fillhd f l : bsum "ADVControl" f (fillhd l) = bsum "ADVControl" f l.
  Proof.
    destruct l as [|x r]; [reflexivity|]. unfold bsum. cbn [fillhd fold_left].
    assert (Hc : ctl_of "ADVControl" (fill1 x) = ctl_of "ADVControl" x).
    { unfold ctl_of. rewrite kid_fill1 by str_neq. reflexivity. }
    rewrite Hc. reflexivity.
  Qed.

  Lemma length_fillhd l : length (fillhd l) = length l.
  Proof. destruct l; reflexivity. Qed.

  Lemma batch_lines_fill1 x : hdr_is_adv x = true -> batch_lines layouts true (fill1 x) = batch_lines layouts true x.
  Proof.
    intros H. unfold batch_lines, kid_lines. rewrite hdr_is_adv_fill1, H. cbn [negb].
    rewrite !(kid_fill1 x) by str_neq. reflexivity.
  Qed.

  Lemma lines_fillhd l :
    forallb adv_headed l = true -> flat_map (batch_lines layouts true) (fillhd l) = flat_map (batch_lines layouts true) l.
  Proof.
    destruct l as [|x r]; [reflexivity|]. cbn [forallb fillhd flat_map]. intros H. apply andb_prop in H as [H _].
    rewrite batch_lines_fill1; [reflexivity|]. rewrite hdr_is_adv_spec. exact H.
  Qed.

  Lemma existsb_adv l : forallb adv_headed l = true -> l <> [] -> existsb (fun b => sec_is (header_of b) "ADV") l = true.
  Proof. destruct l as [|x r]; [congruence|]. cbn. intros H _. apply andb_prop in H as [H _]. unfold adv_headed in H. now rewrite H. Qed.

  (* ---- createFileADV on batches that are ADV and numbered *)
  Lemma renumber_adv_id l : forall seq,
    forallb adv_headed l = true -> numbered "ADVControl" seq l = true -> renumber_adv seq l = (l, true).
  Proof.
    induction l as [|b r IH]; intros seq Ha Hn; [reflexivity|].
    cbn [forallb] in Ha. apply andb_prop in Ha as [Ha1 Ha2].
    cbn [numbered] in Hn. apply andb_prop in Hn as [Hn1 Hn2].
    cbn [renumber_adv]. unfold adv_headed in Ha1. rewrite Ha1. cbn [negb].
    rewrite (IH (seq + 1)%Z Ha2 Hn2). rewrite renumber1_id; [reflexivity | str_neq | exact Hn1].
  Qed.

  (* the ADV file control line is made of the six computed fields only *)
  Definition afc_layout_ok : bool :=
    match layout_named layouts (rname (pe_new_adv_file_control E)) with
    | Some L => forallb (fun f => str_in f fc_fields) (layout_reads L)
    | None => true
    end.

  Theorem post_ready_adv passed d cs fc :
    afc_layout_ok = true ->
    ready_adv E passed d cs fc = true ->
    let o := final_opts (pe_merge_fields E) passed (kid d "validateOpts") in
    exists f5 h,
      post E passed d = (if pe_file_valid E f5 then POk f5 else PInvalid f5)
      /\ kid d "Header" = [h]
      /\ kid f5 "Header" = [set_kid h "validateOpts" o]
      /\ kid f5 "validateOpts" = o
      /\ map (fun b => kid b "offset") (kid f5 "Batches") = map (fun b => kid b "offset") (kid d "Batches")
      /\ body_lines layouts f5 = body_lines layouts (with_full d [] cs fc).
  Proof.
    intros Hfc Hr o. unfold ready_adv in Hr. cbv zeta in Hr. fold o in Hr.
    repeat (apply andb_prop in Hr as [Hr ?]).
    rename H into Hgate, H0 into Hfcm, H1 into Hnum, H2 into Hdates, H3 into Hbb, H4 into Hbp, H5 into Hadv,
           H6 into Hbh, H7 into Hiat, H8 into Hne.
    destruct (kid d "Header") as [|h [|? ?]] eqn:EH; try discriminate. clear Hr.
    destruct (kid d "IATBatches") as [|? ?] eqn:EI; [|discriminate]. clear Hiat.
    set (bs := kid d "Batches") in *.
    assert (Hne' : bs <> []) by (destruct bs; [discriminate | congruence]). clear Hne.
    pose proof (forallb2_length _ _ _ Hbb) as Hlen.
    set (B := zip_out o bs cs).
    unfold post. cbv zeta. fold o.
    set (f1 := map_kid (set_kid d "validateOpts" o) "Header" (fun h0 => set_kid h0 "validateOpts" o)).
    assert (K1b : kid f1 "Batches" = bs) by (unfold f1; kids; reflexivity).
    assert (K1i : kid f1 "IATBatches" = []) by (unfold f1; kids; exact EI).
    assert (K1h : kid f1 "Header" = [set_kid h "validateOpts" o]).
    { unfold f1. kids. rewrite EH. reflexivity. }
    assert (K1o : kid f1 "validateOpts" = o) by (unfold f1; kids; reflexivity).
    rewrite K1b, K1i. rewrite (filter_all _ bs Hbh). cbn [filter map_out].
    rewrite (map_out_zip o bs cs Hbp Hbb). fold B.
    set (f2 := set_kid (set_kid f1 "Batches" B) "IATBatches" []).
    unfold dates_short in Hdates. apply andb_prop in Hdates as [Hdates Hd3]. apply andb_prop in Hdates as [Hd1 Hd2].
    rewrite EH in Hd1. cbn [forallb] in Hd1. rewrite andb_true_r in Hd1.
    unfold fields_short in Hd1. cbn [forallb] in Hd1. apply andb_prop in Hd1 as [Hd1a Hd1b]. apply andb_prop in Hd1b as [Hd1b _].
    set (f3a := overwrite_dates f2).
    assert (K3h : kid f3a "Header" = [set_kid h "validateOpts" o]).
    { unfold f3a, overwrite_dates, f2. kids. rewrite K1h. cbn [map].
      rewrite norm_date_short by exact Hd1a. rewrite norm_time_short by exact Hd1b. reflexivity. }
    assert (InB : forall b', In b' B -> exists b c, In b bs /\ b' = out_batch_adv o b c).
    { unfold B. clear. generalize cs. induction bs as [|b l IH]; intros [|c cs'] b' Hin; try contradiction.
      cbn [zip_out] in Hin. destruct Hin as [<-|Hin].
      - exists b, c. split; [now left | reflexivity].
      - destruct (IH cs' b' Hin) as (b0 & c0 & H1 & H2). exists b0, c0. split; [now right | exact H2]. }
    assert (K3b : kid f3a "Batches" = B).
    { unfold f3a, overwrite_dates, f2. kids.
      apply map_id_in. intros b' Hb'. destruct (InB b' Hb') as (b & c & Hb & ->).
      apply map_kid_id. intros h0 Hh0. rewrite (kid_out_adv o b c) in Hh0 by str_neq.
      rewrite forallb_forall in Hd2. specialize (Hd2 b Hb). rewrite forallb_forall in Hd2. specialize (Hd2 h0 Hh0).
      unfold fields_short in Hd2. cbn [forallb] in Hd2. apply andb_prop in Hd2 as [Ha Hb2]. apply andb_prop in Hb2 as [Hb2 _].
      rewrite norm_descriptive_short by exact Ha. apply norm_date_short. exact Hb2. }
    assert (K3i : kid f3a "IATBatches" = []).
    { unfold f3a, overwrite_dates, f2. kids. reflexivity. }
    assert (K3o : kid f3a "validateOpts" = o).
    { unfold f3a, overwrite_dates, f2. kids. exact K1o. }
    rewrite K3b.
    assert (HB : forallb adv_headed B = true).
    { unfold B. rewrite adv_headed_zip_out by exact Hlen. exact Hadv. }
    assert (HBne : B <> []).
    { unfold B. destruct bs as [|b0 r0]; [congruence|]. destruct cs as [|c0 cr]; [discriminate|]. cbn. discriminate. }
    assert (Hfill : isadv_fill E B = fillhd B).
    { apply isadv_fill_fillhd. destruct B as [|x r]; [exact I|]. cbn [forallb] in HB. apply andb_prop in HB as [HB _]. exact HB. }
    rewrite Hfill. set (B' := fillhd B).
    assert (HB' : forallb adv_headed B' = true) by (unfold B'; rewrite adv_headed_fillhd; exact HB).
    assert (HB'ne : B' <> []) by (unfold B'; destruct B; [congruence | discriminate]).
    set (f3 := set_kid f3a "Batches" B').
    assert (K3b' : kid f3 "Batches" = B') by (unfold f3; kids; reflexivity).
    assert (Hadv3 : is_adv_file f3 = true).
    { unfold is_adv_file. rewrite K3b'. now apply existsb_adv. }
    rewrite Hadv3. cbn [negb]. rewrite K3b'.
    set (n := Z.of_nat (length B')).
    set (f4 := set_kid (set_kid f3 "Control" [pe_new_file_control E]) "ADVControl"
                       (map (fun c => iset c "BatchCount" n) (match kid d "ADVControl" with [] => [pe_new_adv_file_control E] | l => l end))).
    assert (K4h : kid f4 "Header" = [set_kid h "validateOpts" o]).
    { unfold f4, f3. kids. exact K3h. }
    assert (K4b : kid f4 "Batches" = B').
    { unfold f4. kids. exact K3b'. }
    assert (K4i : kid f4 "IATBatches" = []).
    { unfold f4, f3. kids. exact K3i. }
    assert (K4o : kid f4 "validateOpts" = o).
    { unfold f4, f3. kids. exact K3o. }
    assert (Hadv4 : is_adv_file f4 = true).
    { unfold is_adv_file. rewrite K4b. now apply existsb_adv. }
    assert (HnumB' : numbered "ADVControl" 1 B' = true).
    { unfold B'. rewrite numbered_fillhd. unfold B. apply numbered_zip_out; assumption. }
    assert (Hcreate : create E o f4 = create_adv E f4).
    { unfold create. unfold header_of at 1. rewrite K4h, K4b, K4i, Hadv4.
      unfold create_gate in Hgate. apply andb_prop in Hgate as [G1 G2]. apply negb_true_iff in G1, G2.
      unfold header_of in G1. rewrite EH in G1. rewrite G1.
      destruct B' as [|x r]; [congruence|]. rewrite andb_false_r. reflexivity. }
    rewrite Hcreate. unfold create_adv. rewrite K4b. rewrite (renumber_adv_id B' 1%Z HB' HnumB'). cbn [negb].
    set (cnt := bsum "ADVControl" "EntryAddendaCount" B').
    match goal with |- context [ set_kid (set_kid f4 "Batches" B') "ADVControl" [?c] ] => set (c7 := c) end.
    set (f5 := set_kid (set_kid f4 "Batches" B') "ADVControl" [c7]).
    exists f5, h. split; [reflexivity|]. split; [reflexivity|].
    assert (K5h : kid f5 "Header" = [set_kid h "validateOpts" o]) by (unfold f5; kids; exact K4h).
    assert (K5b : kid f5 "Batches" = B') by (unfold f5; kids; reflexivity).
    assert (K5i : kid f5 "IATBatches" = []) by (unfold f5; kids; exact K4i).
    assert (K5o : kid f5 "validateOpts" = o) by (unfold f5; kids; exact K4o).
    assert (K5c : kid f5 "ADVControl" = [c7]) by (unfold f5; kids; reflexivity).
    split; [exact K5h|]. split; [exact K5o|].
    split.
    { rewrite K5b. fold bs. unfold B'. destruct B as [|x r] eqn:EB; [congruence|]. cbn [fillhd map].
      rewrite kid_fill1 by str_neq. change (map (fun b => kid b "offset") (x :: r) = map (fun b => kid b "offset") bs).
      rewrite <- EB. unfold B. clear - Hlen. revert cs Hlen. induction bs as [|b l IH]; intros [|c cs] Hl; try discriminate; [reflexivity|].
      cbn [zip_out map]. rewrite kid_out_adv by str_neq. f_equal. apply IH. cbn in Hl; lia. }
    (* the lines *)
    unfold body_lines.
    assert (A5 : file_is_adv f5 = true).
    { unfold file_is_adv. rewrite K5b. rewrite (existsb_ext' _ (fun b => sec_is (header_of b) "ADV")) by (intros b; apply hdr_is_adv_spec).
      now apply existsb_adv. }
    assert (Ad : file_is_adv (with_full d [] cs fc) = true).
    { rewrite file_is_adv_with_full. unfold file_is_adv. fold bs.
      rewrite (existsb_ext' _ (fun b => sec_is (header_of b) "ADV")) by (intros b; apply hdr_is_adv_spec).
      apply existsb_adv; assumption. }
    rewrite A5, Ad. cbn [negb].
    rewrite K5b, K5i, kid_with_full_batches, kid_with_full_iat, EI. fold bs. cbn [flat_map app].
    unfold B'. rewrite lines_fillhd by exact HB. unfold B. rewrite lines_zip_out by exact Hlen.
    f_equal.
    (* the ADV file control line *)
    unfold kid_lines. rewrite K5c, kid_with_full_advcontrol.
    unfold fc_matches_adv in Hfcm. cbv zeta in Hfcm.
    destruct fc as [|c0 [|? ?]]; try discriminate.
    repeat (apply andb_prop in Hfcm as [Hfcm ?]).
    rename Hfcm into Cname, H into C6, H0 into C5, H1 into C4, H2 into C3, H3 into C2, H4 into C1.
    apply String.eqb_eq in Cname.
    assert (Sums : forall fld, bsum "ADVControl" fld B' = csum fld cs).
    { intros fld. unfold B'. rewrite bsum_fillhd. unfold B. apply bsum_zip_out. exact Hlen. }
    assert (Lens : Z.of_nat (length B') = Z.of_nat (length cs)).
    { unfold B'. rewrite length_fillhd. unfold B. rewrite length_zip_out by exact Hlen. rewrite Hlen. reflexivity. }
    cbn [flat_map]. rewrite !app_nil_r.
    unfold node_line. unfold c7. cbn [rname iset sset]. rewrite Cname.
    unfold afc_layout_ok in Hfc.
    destruct (layout_named layouts (rname (pe_new_adv_file_control E))) as [L|]; [|reflexivity].
    f_equal. apply render_reads. intros g Hg.
    rewrite forallb_forall in Hfc. specialize (Hfc g Hg). unfold str_in, fc_fields in Hfc.
    cbn [existsb] in Hfc. rewrite orb_false_r in Hfc.
    cbn [rscal iset sset]. rewrite !lookup_rset. unfold cnt. rewrite !Sums, Lens.
    repeat (apply orb_prop in Hfc as [Hfc|Hfc]); apply String.eqb_eq in Hfc; subst g;
      cbn [String.eqb Ascii.eqb Bool.eqb]; symmetry; apply lookup_has_int; assumption.
  Qed.
End AdvFacts.

(* ------------------------------------------------------------ D. text, options and offsets of the result against the full tree *)

Lemma trees_eqb_eq a : forall b, trees_eqb a b = true -> a = b.
Proof.
  induction a as [|x a IH]; intros [|y b] H; try discriminate; [reflexivity|].
  cbn [trees_eqb] in H. apply andb_prop in H as [H1 H2]. rewrite (rtree_eqb_eq x y H1), (IH b H2). reflexivity.
Qed.

Section Final.
  Variable layouts : list layout.
  Variable E : penv.

  Lemma body_lines_with_full_ho d ho ho' cs fc :
    body_lines layouts (with_full d ho cs fc) = body_lines layouts (with_full d ho' cs fc).
  Proof.
    unfold body_lines. rewrite !file_is_adv_with_full. unfold kid_lines.
    rewrite !kid_with_full_batches, !kid_with_full_iat, !kid_with_full_control, !kid_with_full_advcontrol. reflexivity.
  Qed.

  Lemma offsets_with_full d ho cs fc : offsets_of (with_full d ho cs fc) = offsets_of d.
  Proof. unfold offsets_of. rewrite kid_with_full_batches. apply map_offset_zip_adv. Qed.

  (* what the theorems conclude about the file [f] that comes back, given the tree [d] that survives JSON and the
     header options / ADV controls of the original *)
  Definition comes_back (f d : rtree) (o ho : list rtree) (cs : list (list rtree)) (fc : list rtree) : Prop :=
    lines_o layouts f = lines_o layouts (with_full d ho cs fc)
    /\ file_opts f = o /\ header_opts f = [o] /\ offsets_of f = offsets_of d.

  Theorem full_plain passed d ho cs fc :
    fc_layout_ok layouts E = true ->
    ready E passed d = true ->
    ho = final_opts (pe_merge_fields E) passed (kid d "validateOpts") ->
    exists f, post E passed d = (if pe_file_valid E f then POk f else PInvalid f)
              /\ comes_back f d (final_opts (pe_merge_fields E) passed (kid d "validateOpts")) ho cs fc.
  Proof.
    intros Hfc Hr Hho.
    destruct (post_ready_struct layouts E passed d Hfc Hr) as (f & h & Hp & EH & Kh & Kb & Ki & Ko & Hbody & Hadv).
    exists f. split; [exact Hp|]. unfold comes_back.
    split.
    { unfold lines_o. rewrite Kh, kid_with_full_header, EH. cbn [map]. rewrite <- Hho.
      f_equal. rewrite Hbody. symmetry. now apply body_lines_with_full_plain. }
    split; [exact Ko|]. split.
    { unfold header_opts. rewrite Kh. cbn [map]. rewrite kid_set_kid_eq. reflexivity. }
    unfold offsets_of. rewrite Kb, map_map. apply map_ext. intros b. apply kid_out_batch. vm_compute; reflexivity.
  Qed.

  Theorem full_adv passed d ho cs fc :
    afc_layout_ok layouts E = true ->
    ready_adv E passed d cs fc = true ->
    ho = final_opts (pe_merge_fields E) passed (kid d "validateOpts") ->
    exists f, post E passed d = (if pe_file_valid E f then POk f else PInvalid f)
              /\ comes_back f d (final_opts (pe_merge_fields E) passed (kid d "validateOpts")) ho cs fc.
  Proof.
    intros Hfc Hr Hho.
    destruct (post_ready_adv layouts E passed d cs fc Hfc Hr) as (f & h & Hp & EH & Kh & Ko & Koff & Hbody).
    exists f. split; [exact Hp|]. unfold comes_back.
    split.
    { unfold lines_o. rewrite Kh, kid_with_full_header, EH. cbn [map]. rewrite <- Hho.
      f_equal. rewrite Hbody. apply body_lines_with_full_ho. }
    split; [exact Ko|]. split.
    { unfold header_opts. rewrite Kh. cbn [map]. rewrite kid_set_kid_eq. reflexivity. }
    exact Koff.
  Qed.
End Final.

(* ------------------------------------------------------------ E. from the grouped hypotheses to [ready] / [ready_adv] *)

Lemma forallb_and {A} (p q : A -> bool) l : forallb p l = true -> forallb q l = true -> forallb (fun x => p x && q x) l = true.
Proof.
  intros Hp Hq. rewrite forallb_forall in *. intros x Hx. rewrite (Hp x Hx), (Hq x Hx). reflexivity.
Qed.

Lemma forallb_impl {A} (p q : A -> bool) l : (forall x, In x l -> p x = true -> q x = true) -> forallb p l = true -> forallb q l = true.
Proof. intros H Hp. rewrite forallb_forall in *. intros x Hx. apply H; auto. Qed.

Section Hyps.
  Variable fhv bhv : fhv_t.
  Variable fv : rtree -> bool.
  Let E := env_cur fhv bhv fv.

  Lemma prepared_of_valid v :
    valid fhv bhv fv v = true -> catx_clean v = true ->
    forallb (batch_prepared E) (kid (tree_of_file v) "Batches") = true.
  Proof.
    intros Hv Hc. unfold valid in Hv. cbv zeta in Hv.
    repeat (apply andb_prop in Hv as [Hv ?]). rename H1 into Hb.
    unfold catx_clean in Hc. rewrite forallb_forall in *. intros b Hin.
    specialize (Hb b Hin). specialize (Hc b Hin). apply andb_prop in Hb as [Hb1 Hb2].
    unfold batch_prepared. apply andb_true_intro; split; [|exact Hb2].
    change (pe_table E) with JsonPost.json_post_table.
    destruct (existsb (sec_is (header_of b)) (pt_catx JsonPost.json_post_table)).
    - apply forallb_and; [exact Hb1 | exact Hc].
    - rewrite forallb_forall in *. intros e He. rewrite (Hb1 e He). reflexivity.
  Qed.

  Lemma hyps_ready_plain v :
    is_adv_file (tree_of_file v) = false ->
    in_domain v = true -> valid fhv bhv fv v = true -> tabulated fhv bhv fv v = true -> catx_clean v = true ->
    ready E [] (tree_of_file v) = true.
  Proof.
    intros Hadv Hd Hv Ht Hc. pose proof (prepared_of_valid v Hv Hc) as Hprep. unfold E in *.
    unfold in_domain in Hd. cbv zeta in Hd. apply andb_prop in Hd as [Hd Hdates]. 
    unfold valid in Hv. cbv zeta in Hv. repeat (apply andb_prop in Hv as [Hv ?]).
    rename H into Hgate, H0 into Hiatp, H1 into Hbatch, H2 into Hih, H3 into Hbh, H4 into Hh1.
    unfold tabulated in Ht. cbv zeta in Ht. rewrite Hadv in Ht. repeat (apply andb_prop in Ht as [Ht ?]).
    rename Ht into Tb, H into Tfc, H0 into Tn2, H1 into Tn1, H2 into Tc, H3 into Ti.
    unfold ready. cbv zeta.
    cbn [final_opts merge_rt].
    rewrite Hadv. cbn [negb andb].
    rewrite Hh1, Hbh, Hih, Hprep, Hiatp, Tb, Ti, Tc, Hdates, Tn1, Tn2, Tfc, Hgate. reflexivity.
  Qed.

  Lemma hyps_ready_adv v :
    is_adv_file (tree_of_file v) = true ->
    in_domain v = true -> valid fhv bhv fv v = true -> tabulated fhv bhv fv v = true -> catx_clean v = true ->
    ready_adv E [] (tree_of_file v) (batch_adv_controls v) (file_adv_control v) = true.
  Proof.
    intros Hadv Hd Hv Ht Hc. pose proof (prepared_of_valid v Hv Hc) as Hprep. unfold E in *.
    unfold in_domain in Hd. cbv zeta in Hd. apply andb_prop in Hd as [Hd Hdates].
    unfold valid in Hv. cbv zeta in Hv. repeat (apply andb_prop in Hv as [Hv ?]).
    rename H into Hgate, H0 into Hiatp, H1 into Hbatch, H2 into Hih, H3 into Hbh, H4 into Hh1.
    unfold tabulated in Ht. cbv zeta in Ht. rewrite Hadv in Ht. repeat (apply andb_prop in Ht as [Ht ?]).
    rename Ht into Tne, H into Tfc, H0 into Tn, H1 into Tb, H2 into Ta, H3 into Ti.
    unfold ready_adv. cbv zeta.
    cbn [final_opts merge_rt].
    rewrite Hh1, Tne, Ti, Hbh, Ta, Hprep, Tb, Hdates, Tn, Tfc, Hgate. reflexivity.
  Qed.
End Hyps.

(* C17, phase 4 — the object flow of the server's derive / store / delete paths as the translator
   (translator/sharing.go) regenerates it from server/files.go, server/service.go,
   server/repository.go, file_flattener.go and file.go, and the list the pointer-graph model
   (Proto/ServerShare.v) was written against.

   A fact  SF fn kind what  says where a value comes from that function fn stores
   ("store", "mapset"), unbinds ("mapdel"), returns ("ret<i>"), passes on ("pass:<callee>/<i>"),
   assigns to a field ("set:<field>"), or on which object it runs a library call ("calls").
   Origins are terms over the function's own parameters, receiver and call results:
   param:x | recv | call:<callee>#i | range:<o> | elem:<o> | field:<o>.<f> | deref:<o> | addr:<o> |
   new:<T>{..} | lit:.. — a copy in between (address of a local, dereference into a local, a
   call to a copying function) changes the term and with it the table.

   What the model takes from the table:

   * flattenBatchesEndpoint / segmentFileIDEndpoint / segmentFileEndpoint store the RESULT of the
     service call (a new object), service.BalanceFile stores THE OBJECT GetFile RETURNED after
     giving it a new ID (s_balance: the same file pointer under a second ID), createFileEndpoint
     stores the decoded request file; repositoryInMemory.StoreFile binds the pointer it is given,
     FindFile returns the map element itself, DeleteFile is one delete(r.files, id) outside any loop
     (SDelete unbinds one ID and touches no object).
   * service.BuildFile / GetFileContents / FlattenBatches / SegmentFile / BalanceFile run
     File.Create ON the object GetFile returned (s_create on the stored file pointer), BalanceFile
     runs WithOffset / Create on the elements of its Batches (bal_loop on its own batch cells).
   * Flatten wraps the elements of originalFile.Batches / the addresses of the elements of
     originalFile.IATBatches; Copy builds the new batch on the address of a COPY of the header
     (addr:deref: — its own header cell; since fix 7eb521a1 the value returned is NewBatch's or, when
     NewBatch rejects the SEC code, ConvertBatchType's of a new Batch over the same header copy — the
     table records the last assignment) and Consume passes the consumed batch's entries
     themselves (elem: of GetEntries() / range: over .Entries) to AddEntry: flat_group makes a
     new batch cell over the receiver's entry cells; AddToFile runs Create on that new batch.
   * segmentFileBatches passes the loop variable over f.Batches itself to AddBatch (KWholeC/KWholeD:
     the same batch cell) or new batches made from a new header to which segmentFileBatchAddEntry
     adds the entry it is given (the loop variable over batch.GetEntries()): split_cell over
     picks of the receiver's entry cells; segmentFileIATBatches likewise, after assigning
     TraceNumber = "" through the loop variable (reset_traces). *)
From Coq Require Import String List Bool.
Import ListNotations.
Open Scope string_scope.

Inductive sfact := SF (fn kind what : string).

Definition sfact_eqb (a b : sfact) : bool :=
  match a, b with
  | SF f k w, SF f' k' w' => String.eqb f f' && String.eqb k k' && String.eqb w w'
  end.

Lemma sfact_eqb_eq a b : sfact_eqb a b = true -> a = b.
Proof.
  destruct a, b; simpl; intro H. repeat (apply andb_true_iff in H; destruct H as [H ?]).
  repeat match goal with X : String.eqb _ _ = true |- _ => apply String.eqb_eq in X end. now subst.
Qed.

Fixpoint facts_eqb (a b : list sfact) : bool :=
  match a, b with
  | [], [] => true
  | x :: r, y :: t => sfact_eqb x y && facts_eqb r t
  | _, _ => false
  end.

Lemma facts_eqb_eq : forall a b, facts_eqb a b = true -> a = b.
Proof.
  induction a as [|x r IH]; destruct b as [|y t]; simpl; intro H; try discriminate; [reflexivity|].
  apply andb_true_iff in H. destruct H as [A B]. apply sfact_eqb_eq in A. apply IH in B. now subst.
Qed.

(* the object flow the model was written against (sorted as the translator sorts) *)
Definition expected_share_facts : list sfact :=
  [ SF "File.AddBatch" "set:Batches" "recv <- call:append#0"
  ; SF "File.AddIATBatch" "set:IATBatches" "recv <- call:append#0"
  ; SF "File.FlattenBatches" "calls" "Flatten on "
  ; SF "File.FlattenBatches" "ret0" "call:Flatten#0"
  ; SF "File.SegmentFile" "calls" "Create on call:NewFile#0"
  ; SF "File.SegmentFile" "calls" "addFileHeaderData on recv"
  ; SF "File.SegmentFile" "calls" "segmentFileBatches on recv"
  ; SF "File.SegmentFile" "calls" "segmentFileIATBatches on recv"
  ; SF "File.SegmentFile" "ret0" "call:NewFile#0"
  ; SF "File.SegmentFile" "ret1" "call:NewFile#0"
  ; SF "File.segmentFileBatches" "calls" "Create on call:NewBatch#0"
  ; SF "File.segmentFileBatches" "pass:AddBatch/0" "call:NewBatch#0"
  ; SF "File.segmentFileBatches" "pass:AddBatch/0" "range:field:recv.Batches"
  ; SF "File.segmentFileBatches" "pass:NewBatch/0" "call:createSegmentFileBatchHeader#0"
  ; SF "File.segmentFileBatches" "pass:segmentFileBatchAddADVEntry/0" "call:NewBatch#0"
  ; SF "File.segmentFileBatches" "pass:segmentFileBatchAddADVEntry/1" "call:NewBatch#0"
  ; SF "File.segmentFileBatches" "pass:segmentFileBatchAddADVEntry/2" "range:call:range:field:recv.Batches.GetADVEntries#0"
  ; SF "File.segmentFileBatches" "pass:segmentFileBatchAddEntry/0" "call:NewBatch#0"
  ; SF "File.segmentFileBatches" "pass:segmentFileBatchAddEntry/1" "call:NewBatch#0"
  ; SF "File.segmentFileBatches" "pass:segmentFileBatchAddEntry/2" "range:call:range:field:recv.Batches.GetEntries#0"
  ; SF "File.segmentFileIATBatches" "calls" "Create on call:NewIATBatch#0"
  ; SF "File.segmentFileIATBatches" "pass:AddEntry/0" "range:call:range:field:recv.IATBatches.GetEntries#0"
  ; SF "File.segmentFileIATBatches" "pass:AddIATBatch/0" "call:NewIATBatch#0"
  ; SF "File.segmentFileIATBatches" "pass:AddIATBatch/0" "range:field:recv.IATBatches"
  ; SF "File.segmentFileIATBatches" "pass:NewIATBatch/0" "call:createSegmentFileIATBatchHeader#0"
  ; SF "File.segmentFileIATBatches" "set:TraceNumber" "range:call:range:field:recv.IATBatches.GetEntries#0 <- lit:"""""
  ; SF "Flatten" "calls" "Copy on elem:call:append#0"
  ; SF "Flatten" "calls" "Create on call:param:originalFile.addFileHeaderData#0"
  ; SF "Flatten" "calls" "addFileHeaderData on param:originalFile"
  ; SF "Flatten" "pass:AddToFile/0" "call:param:originalFile.addFileHeaderData#0"
  ; SF "Flatten" "pass:Consume/0" "elem:call:append#0"
  ; SF "Flatten" "pass:append/1" "new:mergeableBatcher{elem:field:param:originalFile.Batches,nil}"
  ; SF "Flatten" "pass:append/1" "new:mergeableIATBatch{addr:elem:field:param:originalFile.IATBatches,nil}"
  ; SF "Flatten" "ret0" "call:param:originalFile.addFileHeaderData#0"
  ; SF "balanceFileEndpoint" "calls" "BalanceFile on param:s"
  ; SF "buildFileEndpoint" "calls" "BuildFile on param:s"
  ; SF "createFileEndpoint" "calls" "StoreFile on param:r"
  ; SF "createFileEndpoint" "set:ID" "field:assert:param:request.File <- call:base.ID#0"
  ; SF "createFileEndpoint" "store" "field:assert:param:request.File"
  ; SF "deleteFileEndpoint" "calls" "DeleteFile on param:s"
  ; SF "flattenBatchesEndpoint" "calls" "FlattenBatches on param:s"
  ; SF "flattenBatchesEndpoint" "calls" "StoreFile on param:r"
  ; SF "flattenBatchesEndpoint" "store" "call:param:s.FlattenBatches#0"
  ; SF "getFileEndpoint" "calls" "GetFile on param:s"
  ; SF "mergeableBatcher.AddToFile" "calls" "Create on field:recv.batcher"
  ; SF "mergeableBatcher.AddToFile" "pass:AddBatch/0" "field:recv.batcher"
  ; SF "mergeableBatcher.AddToFile" "set:BatchNumber" "call:field:recv.batcher.GetHeader#0 <- lit:0"
  ; SF "mergeableBatcher.Consume" "pass:AddADVEntry/0" "elem:call:assert:call:param:mergeableToConsume.GetBatch#0.GetADVEntries#0"
  ; SF "mergeableBatcher.Consume" "pass:AddEntry/0" "elem:call:assert:call:param:mergeableToConsume.GetBatch#0.GetEntries#0"
  ; SF "mergeableBatcher.Consume" "set:BatchNumber" "call:field:recv.batcher.GetHeader#0 <- field:call:assert:call:param:mergeableToConsume.GetBatch#0.GetHeader#0.BatchNumber"
  ; SF "mergeableBatcher.Copy" "pass:Consume/0" "recv"
  ; SF "mergeableBatcher.Copy" "pass:NewBatch/0" "addr:deref:call:field:recv.batcher.GetHeader#0"
  ; SF "mergeableBatcher.Copy" "ret0" "new:mergeableBatcher{call:ConvertBatchType#0,nil}"
  ; SF "mergeableBatcher.GetBatch" "ret0" "field:recv.batcher"
  ; SF "mergeableIATBatch.AddToFile" "calls" "Create on field:recv.iatBatch"
  ; SF "mergeableIATBatch.AddToFile" "pass:AddIATBatch/0" "deref:field:recv.iatBatch"
  ; SF "mergeableIATBatch.AddToFile" "set:BatchNumber" "field:field:recv.iatBatch.Header <- lit:0"
  ; SF "mergeableIATBatch.Consume" "pass:AddEntry/0" "range:field:assert:call:param:mergeableToConsume.GetBatch#0.Entries"
  ; SF "mergeableIATBatch.Consume" "set:BatchNumber" "field:field:recv.iatBatch.Header <- field:field:assert:call:param:mergeableToConsume.GetBatch#0.Header.BatchNumber"
  ; SF "mergeableIATBatch.Copy" "pass:Consume/0" "recv"
  ; SF "mergeableIATBatch.Copy" "pass:NewIATBatch/0" "addr:deref:field:field:recv.iatBatch.Header"
  ; SF "mergeableIATBatch.Copy" "ret0" "new:mergeableIATBatch{addr:call:NewIATBatch#0,nil}"
  ; SF "mergeableIATBatch.GetBatch" "ret0" "deref:field:recv.iatBatch"
  ; SF "repositoryInMemory.DeleteBatch" "set:Batches" "elem:field:recv.files <- call:append#0"
  ; SF "repositoryInMemory.DeleteFile" "mapdel" "once field:recv.files"
  ; SF "repositoryInMemory.FindFile" "ret0" "elem:field:recv.files"
  ; SF "repositoryInMemory.StoreBatch" "pass:AddBatch/0" "param:batch"
  ; SF "repositoryInMemory.StoreFile" "mapset" "param:f"
  ; SF "segmentFileBatchAddADVEntry" "pass:AddADVEntry/0" "param:entry"
  ; SF "segmentFileBatchAddEntry" "pass:AddEntry/0" "param:entry"
  ; SF "segmentFileEndpoint" "calls" "SegmentFile on param:s"
  ; SF "segmentFileEndpoint" "calls" "StoreFile on param:r"
  ; SF "segmentFileEndpoint" "pass:SegmentFile/0" "field:assert:param:request.File"
  ; SF "segmentFileEndpoint" "pass:SegmentFile/1" "field:assert:param:request.opts"
  ; SF "segmentFileEndpoint" "store" "call:param:s.SegmentFile#0"
  ; SF "segmentFileEndpoint" "store" "call:param:s.SegmentFile#1"
  ; SF "segmentFileIDEndpoint" "calls" "SegmentFileID on param:s"
  ; SF "segmentFileIDEndpoint" "calls" "StoreFile on param:r"
  ; SF "segmentFileIDEndpoint" "store" "call:param:s.SegmentFileID#0"
  ; SF "segmentFileIDEndpoint" "store" "call:param:s.SegmentFileID#1"
  ; SF "service.BalanceFile" "calls" "Create on call:recv.GetFile#0"
  ; SF "service.BalanceFile" "calls" "Create on elem:field:call:recv.GetFile#0.Batches"
  ; SF "service.BalanceFile" "calls" "GetFile on recv"
  ; SF "service.BalanceFile" "calls" "StoreFile on field:recv.store"
  ; SF "service.BalanceFile" "calls" "WithOffset on elem:field:call:recv.GetFile#0.Batches"
  ; SF "service.BalanceFile" "ret0" "call:recv.GetFile#0"
  ; SF "service.BalanceFile" "set:ID" "call:recv.GetFile#0 <- call:base.ID#0"
  ; SF "service.BalanceFile" "store" "call:recv.GetFile#0"
  ; SF "service.BuildFile" "calls" "Create on call:recv.GetFile#0"
  ; SF "service.BuildFile" "calls" "GetFile on recv"
  ; SF "service.BuildFile" "ret0" "call:recv.GetFile#0"
  ; SF "service.DeleteFile" "calls" "DeleteFile on field:recv.store"
  ; SF "service.FlattenBatches" "calls" "Create on call:recv.GetFile#0"
  ; SF "service.FlattenBatches" "calls" "FlattenBatches on call:recv.GetFile#0"
  ; SF "service.FlattenBatches" "calls" "GetFile on recv"
  ; SF "service.FlattenBatches" "ret0" "call:call:recv.GetFile#0.FlattenBatches#0"
  ; SF "service.GetFile" "calls" "FindFile on field:recv.store"
  ; SF "service.GetFile" "ret0" "call:field:recv.store.FindFile#0"
  ; SF "service.GetFileContents" "calls" "Create on call:recv.GetFile#0"
  ; SF "service.GetFileContents" "calls" "GetFile on recv"
  ; SF "service.SegmentFile" "calls" "Create on param:file"
  ; SF "service.SegmentFile" "calls" "SegmentFile on param:file"
  ; SF "service.SegmentFile" "pass:SegmentFile/0" "param:opts"
  ; SF "service.SegmentFile" "ret0" "call:param:file.SegmentFile#0"
  ; SF "service.SegmentFile" "ret1" "call:param:file.SegmentFile#1"
  ; SF "service.SegmentFileID" "calls" "GetFile on recv"
  ; SF "service.SegmentFileID" "calls" "SegmentFile on recv"
  ; SF "service.SegmentFileID" "pass:SegmentFile/0" "call:recv.GetFile#0"
  ; SF "service.SegmentFileID" "pass:SegmentFile/1" "param:opts"
  ; SF "service.SegmentFileID" "ret0" "call:recv.SegmentFile#0" ].

Definition share_check (t : list sfact) : bool := facts_eqb t expected_share_facts.

Lemma share_check_sound t : share_check t = true -> t = expected_share_facts.
Proof. apply facts_eqb_eq. Qed.

(* Phase 2, C12: every consolidated batch that FlattenBatches hands to Create, and the new
   file after File.Create, are accepted by the validator model of C03 when the input batches
   are.  Uses what C12 proves: conservation of (signature, entry) pairs (hence of every
   predicate on them), strictly ascending trace numbers and non-emptiness of every result
   batch, batch numbers 1..n. *)
From Coq Require Import Lia Permutation Sorted.
From ACH Require Import ValidOut ValidOutFacts.
From ACH Require Import Bytes Flatten FlattenFacts.
From ACH Require Export ValidFlatten.
Open Scope Z_scope.

Module AF := ACH.Model.ArithFacts.

(* Flatten's strict string order is the validator's *)
Lemma lex_ltb_leb a : forall b, lex_ltb a b = negb (AR.bytes_leb b a).
Proof.
  induction a as [|x a IH]; intros [|y b]; cbn [lex_ltb AR.bytes_leb]; try reflexivity.
  rewrite IH. destruct (x <? y)%N eqn:E1.
  - apply N.ltb_lt in E1. replace (y <? x)%N with false by (symmetry; apply N.ltb_ge; lia). reflexivity.
  - apply N.ltb_ge in E1. destruct (y <? x)%N eqn:E2.
    + apply N.ltb_lt in E2. replace (x =? y)%N with false by (symmetry; apply N.eqb_neq; lia). reflexivity.
    + apply N.ltb_ge in E2. replace (x =? y)%N with true by (symmetry; apply N.eqb_eq; lia). reflexivity.
Qed.

Lemma trace_lt_bytes_lt a b : trace_lt a b -> bytes_lt (e_trace a) (e_trace b).
Proof. unfold trace_lt, trace_ltb, bytes_lt. rewrite lex_ltb_leb. now intros H%negb_true_iff. Qed.

Section Flat.
Variables (A : AR.tables) (hp : bytes -> hpay) (fp : bytes -> fpay).

Local Notation fe := (f_entry fp).
Local Notation fb := (f_batch A hp fp).
Local Notation pok := (pair_ok A hp fp).

(* a valid input batch: every (signature, entry) pair is admissible *)
Lemma valid_pairs b : AR.validate_batch A (fb b) = AR.ROk -> Forall pok (ids_of b).
Proof.
  intros Hv. destruct (valid_std_entries A (fb b) eq_refl Hv) as [Hst Hdir].
  destruct (AF.verify_facts A _ (AF.validate_batch_verify A _ Hv)) as [_ _ Fc _ _ _ _ Fasc _ _ _ Ft].
  cbn [f_batch VO.tabulate AR.bt_kind AR.bt_class AR.bt_odfi AR.bt_entries AR.bt_ctl] in *.
  specialize (Fasc ltac:(discriminate)). apply ascending_above in Fasc.
  unfold AR.trace_odfi_ok in Ft. cbn [AR.bt_odfi AR.bt_entries] in Ft. rewrite forallb_forall in Ft.
  unfold AR.validate_bctl in Fc. cbn [VO.tab_ctl AR.bc_class AR.bc_odfi] in Fc. ok_split.
  rewrite Forall_forall in Hst, Hdir, Fasc.
  apply Forall_forall. intros [s e] Hin. unfold ids_of in Hin. apply in_map_iff in Hin as (e0 & E & He). injection E as <- <-.
  assert (Hfe : In (fe e0) (map fe (b_entries b))) by now apply in_map.
  unfold pair_ok. cbn [fst snd]. repeat split.
  - apply class_okb_spec. split; [|assumption].
    match goal with H : negb (_ =? 0) = true |- _ => now apply negb_true_iff, Z.eqb_neq in H end.
  - match goal with H : negb (bytes_eqb _ _) = true |- _ => now apply negb_true_iff in H end.
  - now apply Hst.
  - now apply Hdir.
  - exact (Fasc _ Hfe).
  - symmetry. apply bytes_eqb_eq. now apply Ft.
Qed.

Lemma valid_pairs_all inp : Forall (fun b => AR.validate_batch A (fb b) = AR.ROk) inp -> Forall pok (ids inp).
Proof.
  induction 1 as [|b l Hb _ IH]; unfold ids; cbn [flat_map]; [constructor|].
  apply Forall_app. split; [now apply valid_pairs|exact IH].
Qed.

(* a batch all of whose pairs are admissible, non-empty and strictly sorted by trace number,
   once tabulated by Create, is accepted *)
Lemma pairs_valid b :
  Forall pok (ids_of b) -> b_entries b <> [] -> StronglySorted trace_lt (b_entries b) ->
  AR.calc_debit A AR.KStd (map fe (b_entries b)) <= AR.t_batch_limit A ->
  AR.calc_credit A AR.KStd (map fe (b_entries b)) <= AR.t_batch_limit A ->
  AR.validate_batch A (fb b) = AR.ROk.
Proof.
  intros Hp Hne Hs Hd Hc. unfold ids_of in Hp. rewrite Forall_forall in Hp.
  assert (Hpe : forall e, In e (b_entries b) -> pok (b_sig b, e)) by (intros e He; apply Hp; now apply in_map).
  destruct (b_entries b) as [|e0 es0] eqn:E; [congruence|]. rewrite <- E in *.
  destruct (Hpe e0 ltac:(rewrite E; now left)) as (K1 & K2 & _).
  unfold f_batch. apply tabulate_valid; try assumption.
  - intros En. apply map_eq_nil in En. congruence.
  - apply Forall_forall. intros x Hx. apply in_map_iff in Hx as (e & <- & He). now destruct (Hpe e He) as (_ & _ & K & _).
  - apply Forall_forall. intros x Hx. apply in_map_iff in Hx as (e & <- & He). now destruct (Hpe e He) as (_ & _ & _ & K & _).
  - apply ascending_from_sorted.
    + apply Forall_forall. intros x Hx. apply in_map_iff in Hx as (e & <- & He). destruct (Hpe e He) as (_ & _ & _ & _ & K & _). exact K.
    + rewrite map_map. cbn [f_entry AR.en_trace]. apply (Sorted_map trace_lt); [apply trace_lt_bytes_lt|].
      now apply StronglySorted_Sorted.
  - apply Forall_forall. intros x Hx. apply in_map_iff in Hx as (e & <- & He). now destruct (Hpe e He) as (_ & _ & _ & _ & _ & K).
Qed.

Lemma ids_of_in b l : In b l -> forall p, In p (ids_of b) -> In p (ids l).
Proof. intros Hb p Hp. unfold ids. apply in_flat_map. now exists b. Qed.

(* FlattenBatches: every consolidated batch validates after Create *)
Theorem flatten_batch_arith_valid inp out :
  kinds_consistent inp -> Forall traces_nodup inp -> Forall (fun b => b_entries b <> [] /\ b_adv b = []) inp ->
  flatten_spec inp out ->
  Forall (fun b => AR.validate_batch A (fb b) = AR.ROk) inp ->
  forall b, In b out ->
  AR.calc_debit A AR.KStd (map fe (b_entries b)) <= AR.t_batch_limit A ->
  AR.calc_credit A AR.KStd (map fe (b_entries b)) <= AR.t_batch_limit A ->
  AR.validate_batch A (fb b) = AR.ROk.
Proof.
  intros Hk Hn Hne Hs Hv b Hb Hd Hc.
  assert (Hne' : Forall nonempty inp) by (eapply Forall_impl; [|exact Hne]; intros x [H _]; now left).
  destruct (flatten_wellformed inp out Hn Hne' Hs) as (Hw & _).
  pose proof (flatten_pairs inp out pok Hk Hs (valid_pairs_all inp Hv)) as Hp.
  destruct (flatten_conservation inp out Hk Hs) as (_ & Padv).
  assert (Hadv : adv_ids inp = []).
  { unfold adv_ids. clear -Hne. induction Hne as [|x l [_ Hx] _ IH]; cbn [flat_map]; [reflexivity|].
    rewrite IH. unfold adv_ids_of. now rewrite Hx. }
  rewrite Hadv in Padv. apply Permutation_sym, Permutation_nil in Padv.
  assert (Hbadv : b_adv b = []).
  { destruct (b_adv b) as [|a r] eqn:E; [reflexivity|]. exfalso.
    assert (Hin : In (b_sig b, a) (adv_ids out)).
    { unfold adv_ids. apply in_flat_map. exists b. split; [exact Hb|]. unfold adv_ids_of. rewrite E. now left. }
    now rewrite Padv in Hin. }
  rewrite Forall_forall in Hw. destruct (Hw b Hb) as (Hsorted & Hnon).
  apply pairs_valid; try assumption.
  - apply Forall_forall. intros p Hpin. rewrite Forall_forall in Hp. apply Hp. now apply (ids_of_in b out Hb).
  - destruct Hnon as [H|H]; [exact H|congruence].
Qed.

(* ... and the new file after File.Create *)
Theorem flatten_file_arith_valid inp out :
  kinds_consistent inp -> Forall traces_nodup inp -> Forall (fun b => b_entries b <> [] /\ b_adv b = []) inp ->
  flatten_spec inp out -> out <> [] ->
  Forall (fun b => AR.validate_batch A (fb b) = AR.ROk) inp ->
  Forall (fun b => AR.calc_debit A AR.KStd (map fe (b_entries b)) <= AR.t_batch_limit A /\
                   AR.calc_credit A AR.KStd (map fe (b_entries b)) <= AR.t_batch_limit A) out ->
  fctl_fits A (AR.fl_ctl (f_file A hp fp out)) ->
  AR.validate_file A (f_file A hp fp out) = AR.ROk.
Proof.
  intros Hk Hn Hne Hs Hout Hv Hlim Hfit.
  assert (Hne' : Forall nonempty inp) by (eapply Forall_impl; [|exact Hne]; intros x [H _]; now left).
  destruct (flatten_wellformed inp out Hn Hne' Hs) as (_ & Hnum).
  unfold f_file. apply create_file_valid.
  - rewrite app_nil_r. intros E. apply map_eq_nil in E. congruence.
  - apply Forall_forall. intros x Hx. apply in_map_iff in Hx as (b & <- & Hb). split; [reflexivity|].
    rewrite Forall_forall in Hlim. destruct (Hlim b Hb) as [Hd Hc].
    now apply (flatten_batch_arith_valid inp out).
  - change 0 with (1 - 1). apply renumber_seq_ascending. intros i x Hx.
    rewrite nth_error_map in Hx. destruct (nth_error out i) as [b|] eqn:E; [|discriminate]. injection Hx as <-.
    cbn [f_batch VO.tabulate AR.bt_number]. now apply Hnum.
  - exact Hfit.
Qed.

End Flat.

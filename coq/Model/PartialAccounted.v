(* C06 — the partial operations of the source that the table does not discharge by
   itself (PartialTable.site_auto_safe), each with the reason it is accepted.

   why = "model:<lemma>"      safety is a theorem of TotalityFacts.v about the Gallina model of that code
         "UNGUARDED:<lemma>"  the site panics on short values; the lemma gives the exact condition; known finding
         "reviewed: …"        guard seen by hand, outside what the translator resolves
         "loop index: …"      index/slice bound is the loop variable of a loop over the same value
         "value: …" "map: …" "nil-safe: …" "loop-bound: …" "sort-less: …" "last: …"
                              the class the type-aware table Gen/OpSites.v gives the site (checked by
                              C06OpsObl.accounted_refined): no dereference / no bounds failure by the semantics of Go
         "ops-model: <def>"   the shape model (TotalOps.v, TotalJson.v) performs this dereference in <def>; its safety on
                              well-formed shapes is C06_ops_total_partial / C06_json_total_partial /
                              C06_handlers_total_partial, and the coverage list OpsCovered.ops_cover is checked against
                              Gen/OpSites.v (C06OpsObl.ops_sites_covered, ops_cover_exact)
         "reader-model: <k>"  the shape model of ach.Reader (ReaderShape.v) performs this dereference / index as site kind <k>;
                              safe in every reachable state of the reader (C06_reader_site_safe from the named invariant
                              clauses, C06_reader_inv); the coverage list ReaderSiteTable.reader_cover is checked against
                              Gen/OpSites.v (C06ReaderObl.reader_sites_covered, reader_cover_exact, reader_accounted)
         "search-only: …"     NOT proved: change detector only (a new site of this kind in the source makes
                              the obligation false); absence of panics there rests on the oracle.
   A slice, index or optional dereference that appears in the source and is neither discharged by its
   guards nor listed here makes C06Obl.sites_ok false.  Extend the list only after reviewing the site. *)
From Coq Require Import String List.
Import ListNotations.
From ACH Require Import PartialTable.
Open Scope string_scope.

Definition accounted : list acct := [
  mkacct "ach.File.ValidateWith" "b.GetHeader().StandardEntryClassCode" "ops-model: file_validate (TotalOps/TotalJson) dereferences this pointer; no panic on well-formed shapes (C06_ops_total_partial / C06_json_total_partial / C06_handlers_total_partial), panic reproduced on the others (correspondence c06ops)";
  mkacct "ach.Addenda98.Validate" "changeCodeDict[addenda98.ChangeCode]" "map: the operand is a map (map[string]*ChangeCode); a map lookup never panics (Gen/OpSites)";
  mkacct "ach.Addenda98.ChangeCodeField" "changeCodeDict[addenda98.ChangeCode]" "map: the operand is a map (map[string]*ChangeCode); a map lookup never panics (Gen/OpSites)";
  mkacct "ach.LookupChangeCode" "changeCodeDict[strings.ToUpper(code)]" "map: the operand is a map (map[string]*ChangeCode); a map lookup never panics (Gen/OpSites)";
  mkacct "ach.makeChangeCodeDict" "dict[codes[i].Code]" "map: the operand is a map (map[string]*ChangeCode); a map lookup never panics (Gen/OpSites)";
  mkacct "ach.Addenda98.ParseCorrectedData" "data[:9]" "reviewed: inside `if n := len(data); n > 9` (the alias n is re-declared elsewhere in the function, so the translator leaves the guard opaque)";
  mkacct "ach.Addenda98.ParseCorrectedData" "data[9:]" "reviewed: reached only after the n > 9 branch (the else branch returns)";
  mkacct "ach.first" "data[:size]" "model:first_total - rune count >= size implies byte length >= size";
  mkacct "ach.Addenda98Refused.Validate" "changeCodeDict[addenda98Refused.RefusedChangeCode]" "map: the operand is a map (map[string]*ChangeCode); a map lookup never panics (Gen/OpSites)";
  mkacct "ach.Addenda98Refused.Validate" "changeCodeDict[addenda98Refused.ChangeCode]" "map: the operand is a map (map[string]*ChangeCode); a map lookup never panics (Gen/OpSites)";
  mkacct "ach.Addenda98Refused.RefusedChangeCodeField" "changeCodeDict[addenda98Refused.RefusedChangeCode]" "map: the operand is a map (map[string]*ChangeCode); a map lookup never panics (Gen/OpSites)";
  mkacct "ach.Addenda98Refused.ChangeCodeField" "changeCodeDict[addenda98Refused.ChangeCode]" "map: the operand is a map (map[string]*ChangeCode); a map lookup never panics (Gen/OpSites)";
  mkacct "ach.Addenda99.Validate" "returnCodeDict[Addenda99.ReturnCode]" "map: the operand is a map (map[string]*ReturnCode); a map lookup never panics (Gen/OpSites)";
  mkacct "ach.Addenda99.IATPaymentAmountField" "Addenda99.AddendaInformation[0:10]" "UNGUARDED:iat_payment_amount_iff - known finding panic:ach.(*Addenda99).IATPaymentAmountField (no library operation calls it)";
  mkacct "ach.Addenda99.IATAddendaInformationField" "Addenda99.AddendaInformation[9:44]" "UNGUARDED:iat_addenda_information_iff - known finding panic:ach.(*Addenda99).IATAddendaInformationField (no library operation calls it)";
  mkacct "ach.Addenda99.AddendaInformationReturnTraceNumber" "Addenda99.AddendaInformation[3:18]" "UNGUARDED:a99_return_trace_iff - known finding panic:ach.(*Addenda99).AddendaInformationReturnTraceNumber (no library operation calls it)";
  mkacct "ach.Addenda99.AddendaInformationReturnSettlementDate" "Addenda99.AddendaInformation[18:21]" "UNGUARDED:a99_settlement_date_iff - known finding panic:ach.(*Addenda99).AddendaInformationReturnSettlementDate (no library operation calls it)";
  mkacct "ach.Addenda99.AddendaInformationReturnReasonCode" "Addenda99.AddendaInformation[21:23]" "UNGUARDED:a99_reason_code_iff - known finding panic:ach.(*Addenda99).AddendaInformationReturnReasonCode (no library operation calls it)";
  mkacct "ach.Addenda99.AddendaInformationExtra" "Addenda99.AddendaInformation[23:]" "UNGUARDED:a99_extra_iff - known finding panic:ach.(*Addenda99).AddendaInformationExtra (no library operation calls it)";
  mkacct "ach.Addenda99.ReturnCodeField" "returnCodeDict[Addenda99.ReturnCode]" "map: the operand is a map (map[string]*ReturnCode); a map lookup never panics (Gen/OpSites)";
  mkacct "ach.LookupReturnCode" "returnCodeDict[strings.ToUpper(code)]" "map: the operand is a map (map[string]*ReturnCode); a map lookup never panics (Gen/OpSites)";
  mkacct "ach.makeReturnCodeDict" "dict[codes[i].Code]" "map: the operand is a map (map[string]*ReturnCode); a map lookup never panics (Gen/OpSites)";
  mkacct "ach.ADVEntryDetail.SetRDFI" "s[:8]" "model:set_rdfi_total - s := stringField(rdfi, 9) has at least 9 bytes";
  mkacct "ach.ADVEntryDetail.SetRDFI" "s[8:9]" "model:set_rdfi_total - s := stringField(rdfi, 9) has at least 9 bytes";
  mkacct "ach.Batch.verify" "batch.Control.ServiceClassCode" "ops-model: verify (TotalOps/TotalJson) dereferences this pointer; no panic on well-formed shapes (C06_ops_total_partial / C06_json_total_partial / C06_handlers_total_partial), panic reproduced on the others (correspondence c06ops)";
  mkacct "ach.Batch.verify" "batch.Control.CompanyIdentification" "ops-model: verify (TotalOps/TotalJson) dereferences this pointer; no panic on well-formed shapes (C06_ops_total_partial / C06_json_total_partial / C06_handlers_total_partial), panic reproduced on the others (correspondence c06ops)";
  mkacct "ach.Batch.verify" "batch.Control.ODFIIdentification" "ops-model: verify (TotalOps/TotalJson) dereferences this pointer; no panic on well-formed shapes (C06_ops_total_partial / C06_json_total_partial / C06_handlers_total_partial), panic reproduced on the others (correspondence c06ops)";
  mkacct "ach.Batch.verify" "batch.Control.BatchNumber" "ops-model: verify (TotalOps/TotalJson) dereferences this pointer; no panic on well-formed shapes (C06_ops_total_partial / C06_json_total_partial / C06_handlers_total_partial), panic reproduced on the others (correspondence c06ops)";
  mkacct "ach.Batch.verify" "batch.ADVControl.ServiceClassCode" "ops-model: verify (TotalOps/TotalJson) dereferences this pointer; no panic on well-formed shapes (C06_ops_total_partial / C06_json_total_partial / C06_handlers_total_partial), panic reproduced on the others (correspondence c06ops)";
  mkacct "ach.Batch.verify" "batch.ADVControl.ODFIIdentification" "ops-model: verify (TotalOps/TotalJson) dereferences this pointer; no panic on well-formed shapes (C06_ops_total_partial / C06_json_total_partial / C06_handlers_total_partial), panic reproduced on the others (correspondence c06ops)";
  mkacct "ach.Batch.verify" "batch.ADVControl.BatchNumber" "ops-model: verify (TotalOps/TotalJson) dereferences this pointer; no panic on well-formed shapes (C06_ops_total_partial / C06_json_total_partial / C06_handlers_total_partial), panic reproduced on the others (correspondence c06ops)";
  mkacct "ach.Batch.isFieldInclusion" "batch.Control.Validate" "ops-model: is_field_inclusion (TotalOps/TotalJson) dereferences this pointer; no panic on well-formed shapes (C06_ops_total_partial / C06_json_total_partial / C06_handlers_total_partial), panic reproduced on the others (correspondence c06ops)";
  mkacct "ach.Batch.isFieldInclusion" "batch.ADVControl.Validate" "ops-model: is_field_inclusion (TotalOps/TotalJson) dereferences this pointer; no panic on well-formed shapes (C06_ops_total_partial / C06_json_total_partial / C06_handlers_total_partial), panic reproduced on the others (correspondence c06ops)";
  mkacct "ach.Batch.isBatchEntryCount" "batch.Control.EntryAddendaCount" "ops-model: is_batch_entry_count (TotalOps/TotalJson) dereferences this pointer; no panic on well-formed shapes (C06_ops_total_partial / C06_json_total_partial / C06_handlers_total_partial), panic reproduced on the others (correspondence c06ops)";
  mkacct "ach.Batch.isBatchEntryCount" "batch.ADVControl.EntryAddendaCount" "ops-model: is_batch_entry_count (TotalOps/TotalJson) dereferences this pointer; no panic on well-formed shapes (C06_ops_total_partial / C06_json_total_partial / C06_handlers_total_partial), panic reproduced on the others (correspondence c06ops)";
  mkacct "ach.Batch.isBatchAmount" "batch.Control.TotalDebitEntryDollarAmount" "ops-model: is_batch_amount (TotalOps/TotalJson) dereferences this pointer; no panic on well-formed shapes (C06_ops_total_partial / C06_json_total_partial / C06_handlers_total_partial), panic reproduced on the others (correspondence c06ops)";
  mkacct "ach.Batch.isBatchAmount" "batch.Control.TotalCreditEntryDollarAmount" "ops-model: is_batch_amount (TotalOps/TotalJson) dereferences this pointer; no panic on well-formed shapes (C06_ops_total_partial / C06_json_total_partial / C06_handlers_total_partial), panic reproduced on the others (correspondence c06ops)";
  mkacct "ach.Batch.isBatchAmount" "batch.ADVControl.TotalDebitEntryDollarAmount" "ops-model: is_batch_amount (TotalOps/TotalJson) dereferences this pointer; no panic on well-formed shapes (C06_ops_total_partial / C06_json_total_partial / C06_handlers_total_partial), panic reproduced on the others (correspondence c06ops)";
  mkacct "ach.Batch.isBatchAmount" "batch.ADVControl.TotalCreditEntryDollarAmount" "ops-model: is_batch_amount (TotalOps/TotalJson) dereferences this pointer; no panic on well-formed shapes (C06_ops_total_partial / C06_json_total_partial / C06_handlers_total_partial), panic reproduced on the others (correspondence c06ops)";
  mkacct "ach.Batch.isEntryHash" "batch.Control.EntryHash" "ops-model: is_entry_hash (TotalOps/TotalJson) dereferences this pointer; no panic on well-formed shapes (C06_ops_total_partial / C06_json_total_partial / C06_handlers_total_partial), panic reproduced on the others (correspondence c06ops)";
  mkacct "ach.Batch.isEntryHash" "batch.ADVControl.EntryHash" "ops-model: is_entry_hash (TotalOps/TotalJson) dereferences this pointer; no panic on well-formed shapes (C06_ops_total_partial / C06_json_total_partial / C06_handlers_total_partial), panic reproduced on the others (correspondence c06ops)";
  mkacct "ach.Batch.isCategory" "batch.GetEntries()[0]" "reviewed: inside the else of `if len(batch.Entries) == 0 { return … }` (fix 7f797c26; verify() only rejects a batch that has neither entries nor ADV entries)";
  mkacct "ach.Batch.isCategory" "batch.Entries[i]" "loop-bound: index variable of the enclosing for loop over the same value, not assigned before the site (Gen/OpSites)";
  mkacct "ach.Batch.isCategory" "batch.GetADVEntries()[0]" "reviewed: after `if len(batch.ADVEntries) == 0 { return … }` (fix 7f797c26)";
  mkacct "ach.Batch.isCategory" "batch.ADVEntries[i]" "loop-bound: index variable of the enclosing for loop over the same value, not assigned before the site (Gen/OpSites)";
  mkacct "ach.Batch.IsADV" "batch.GetHeader().StandardEntryClassCode" "ops-model: is_adv (TotalOps/TotalJson) dereferences this pointer; no panic on well-formed shapes (C06_ops_total_partial / C06_json_total_partial / C06_handlers_total_partial), panic reproduced on the others (correspondence c06ops)";
  mkacct "ach.Batch.upsertOffsets" "b.Entries[i]" "loop-bound: index variable of the enclosing for loop over the same value, not assigned before the site (Gen/OpSites)";
  mkacct "ach.Batch.upsertOffsets" "b.Control.TotalCreditEntryDollarAmount" "ops-model: upsert_offsets (TotalOps/TotalJson) dereferences this pointer; no panic on well-formed shapes (C06_ops_total_partial / C06_json_total_partial / C06_handlers_total_partial), panic reproduced on the others (correspondence c06ops)";
  mkacct "ach.Batch.upsertOffsets" "b.Control.TotalDebitEntryDollarAmount" "ops-model: upsert_offsets (TotalOps/TotalJson) dereferences this pointer; no panic on well-formed shapes (C06_ops_total_partial / C06_json_total_partial / C06_handlers_total_partial), panic reproduced on the others (correspondence c06ops)";
  mkacct "ach.Batch.upsertOffsets" "b.Control.EntryAddendaCount" "ops-model: upsert_offsets (TotalOps/TotalJson) dereferences this pointer; no panic on well-formed shapes (C06_ops_total_partial / C06_json_total_partial / C06_handlers_total_partial), panic reproduced on the others (correspondence c06ops)";
  mkacct "ach.Batch.upsertOffsets" "b.Entries[:i]" "loop index: i < len(b.Entries) in the for condition";
  mkacct "ach.Batch.upsertOffsets" "b.Entries[i+1:]" "loop index: i < len(b.Entries) in the for condition, so i+1 <= len(b.Entries)";
  mkacct "ach.Batch.upsertOffsets" "b.Control.ServiceClassCode" "ops-model: upsert_offsets (TotalOps/TotalJson) dereferences this pointer; no panic on well-formed shapes (C06_ops_total_partial / C06_json_total_partial / C06_handlers_total_partial), panic reproduced on the others (correspondence c06ops)";
  mkacct "ach.Batch.upsertOffsets" "b.Control.EntryHash" "ops-model: upsert_offsets (TotalOps/TotalJson) dereferences this pointer; no panic on well-formed shapes (C06_ops_total_partial / C06_json_total_partial / C06_handlers_total_partial), panic reproduced on the others (correspondence c06ops)";
  mkacct "ach.createOffsetEntryDetail" "batch.offset.RoutingNumber" "ops-model: upsert_offsets (TotalOps/TotalJson) dereferences this pointer; no panic on well-formed shapes (C06_ops_total_partial / C06_json_total_partial / C06_handlers_total_partial), panic reproduced on the others (correspondence c06ops)";
  mkacct "ach.createOffsetEntryDetail" "batch.offset.RoutingNumber[:8]" "reviewed: only caller upsertOffsets returns early unless CheckRoutingNumber (rune count = 9) accepts the value";
  mkacct "ach.createOffsetEntryDetail" "batch.offset.RoutingNumber[8:9]" "reviewed: as above";
  mkacct "ach.createOffsetEntryDetail" "batch.offset.AccountNumber" "ops-model: upsert_offsets (TotalOps/TotalJson) dereferences this pointer; no panic on well-formed shapes (C06_ops_total_partial / C06_json_total_partial / C06_handlers_total_partial), panic reproduced on the others (correspondence c06ops)";
  mkacct "ach.createOffsetEntryDetail" "batch.offset.Description" "ops-model: upsert_offsets (TotalOps/TotalJson) dereferences this pointer; no panic on well-formed shapes (C06_ops_total_partial / C06_json_total_partial / C06_handlers_total_partial), panic reproduced on the others (correspondence c06ops)";
  mkacct "ach.lastTraceNumber" "entries[len(entries)-1]" "last: x[len(x)-1] under a dominating test that x is not empty (Gen/OpSites)";
  mkacct "ach.BatchCOR.Validate" "batch.Control.TotalCreditEntryDollarAmount" "ops-model: validate_std (TotalOps/TotalJson) dereferences this pointer; no panic on well-formed shapes (C06_ops_total_partial / C06_json_total_partial / C06_handlers_total_partial), panic reproduced on the others (correspondence c06ops)";
  mkacct "ach.BatchCOR.Validate" "batch.Control.TotalDebitEntryDollarAmount" "ops-model: validate_std (TotalOps/TotalJson) dereferences this pointer; no panic on well-formed shapes (C06_ops_total_partial / C06_json_total_partial / C06_handlers_total_partial), panic reproduced on the others (correspondence c06ops)";
  mkacct "ach.ENRPaymentInformation.String" "nameParts[len(nameParts)-1:]" "reviewed: under len(nameParts) > 1";
  mkacct "ach.ENRPaymentInformation.String" "nameParts[:len(nameParts)-1]" "reviewed: under len(nameParts) > 1";
  mkacct "ach.BatchMTE.Validate" "entry.Addenda02.TerminalState" "ops-model: validate_std (TotalOps/TotalJson) dereferences this pointer; no panic on well-formed shapes (C06_ops_total_partial / C06_json_total_partial / C06_handlers_total_partial), panic reproduced on the others (correspondence c06ops)";
  mkacct "ach.BatchPOS.Validate" "entry.Addenda02.TerminalState" "ops-model: validate_std (TotalOps/TotalJson) dereferences this pointer; no panic on well-formed shapes (C06_ops_total_partial / C06_json_total_partial / C06_handlers_total_partial), panic reproduced on the others (correspondence c06ops)";
  mkacct "ach.BatchSHR.Validate" "entry.Addenda02.TerminalState" "ops-model: validate_std (TotalOps/TotalJson) dereferences this pointer; no panic on well-formed shapes (C06_ops_total_partial / C06_json_total_partial / C06_handlers_total_partial), panic reproduced on the others (correspondence c06ops)";
  mkacct "ach.populateMap" "out[i]" "map: the operand is a map (map[int]string); a map lookup never panics (Gen/OpSites)";
  mkacct "ach.converters.alphaField" "[]rune(s)[:max]" "reviewed: under ln > max where ln is the rune count";
  mkacct "ach.converters.alphaField" "spaceZeros[m]" "map: the operand is a map (map[int]string); a map lookup never panics (Gen/OpSites)";
  mkacct "ach.converters.numericField" "s[l-max:]" "reviewed: under l > max where l = len(s)";
  mkacct "ach.converters.numericField" "stringZeros[m]" "map: the operand is a map (map[int]string); a map lookup never panics (Gen/OpSites)";
  mkacct "ach.converters.stringField" "[]rune(s)[:max]" "reviewed: under ln > max where ln is the rune count";
  mkacct "ach.converters.stringField" "stringZeros[m]" "map: the operand is a map (map[int]string); a map lookup never panics (Gen/OpSites)";
  mkacct "ach.EntryDetail.SetRDFI" "s[:8]" "model:set_rdfi_total - s := stringField(rdfi, 9) has at least 9 bytes";
  mkacct "ach.EntryDetail.SetRDFI" "s[8:9]" "model:set_rdfi_total - s := stringField(rdfi, 9) has at least 9 bytes";
  mkacct "ach.EntryDetail.POPCheckSerialNumberField" "ed.IdentificationNumber[0:9]" "UNGUARDED:pop_check_serial_iff - known finding panic:ach.(*EntryDetail).POPCheckSerialNumberField (no library operation calls it)";
  mkacct "ach.EntryDetail.POPTerminalCityField" "ed.IdentificationNumber[9:13]" "UNGUARDED:pop_terminal_city_iff - known finding panic:ach.(*EntryDetail).POPTerminalCityField (no library operation calls it)";
  mkacct "ach.EntryDetail.POPTerminalStateField" "ed.IdentificationNumber[13:15]" "UNGUARDED:pop_terminal_state_iff - known finding panic:ach.(*EntryDetail).POPTerminalStateField (no library operation calls it)";
  mkacct "ach.EntryDetail.SHRDocumentReferenceNumberField" "ed.IdentificationNumber[4:15]" "UNGUARDED:shr_doc_ref_iff - known finding panic:ach.(*EntryDetail).SHRDocumentReferenceNumberField (no library operation calls it)";
  mkacct "ach.EntryDetail.CATXReservedField" "ed.IndividualName[20:22]" "UNGUARDED:catx_reserved_iff - known finding panic:ach.(*EntryDetail).CATXReservedField (no library operation calls it)";
  mkacct "ach.EntryDetail.CreditOrDebit" "tc[1:2]" "reviewed: tc = strconv.Itoa(code) with 10 <= code <= 99 has two digits";
  mkacct "ach.FileFromJSONWith" "out.Control.BatchCount" "value: the operand is a struct value (FileControl), selecting a field of it dereferences nothing (Gen/OpSites)";
  mkacct "ach.FileFromJSONWith" "out.ADVControl.BatchCount" "value: the operand is a struct value (ADVFileControl), selecting a field of it dereferences nothing (Gen/OpSites)";
  mkacct "ach.File.setBatchesFromJSON" "f.Batches[:i]" "loop index: i ranges over the sliced value (remove element i)";
  mkacct "ach.File.setBatchesFromJSON" "f.Batches[i+1:]" "loop index: i ranges over the sliced value (remove element i)";
  mkacct "ach.File.setBatchesFromJSON" "batch.GetHeader().StandardEntryClassCode" "ops-model: json_batches (TotalOps/TotalJson) dereferences this pointer; no panic on well-formed shapes (C06_ops_total_partial / C06_json_total_partial / C06_handlers_total_partial), panic reproduced on the others (correspondence c06ops)";
  mkacct "ach.File.Create" "f.Batches[i].GetHeader().BatchNumber" "ops-model: file_create (TotalOps/TotalJson) dereferences this pointer; no panic on well-formed shapes (C06_ops_total_partial / C06_json_total_partial / C06_handlers_total_partial), panic reproduced on the others (correspondence c06ops)";
  mkacct "ach.File.Create" "f.Batches[i].GetControl().BatchNumber" "ops-model: file_create (TotalOps/TotalJson) dereferences this pointer; no panic on well-formed shapes (C06_ops_total_partial / C06_json_total_partial / C06_handlers_total_partial), panic reproduced on the others (correspondence c06ops)";
  mkacct "ach.File.Create" "batch.GetControl().EntryAddendaCount" "ops-model: file_create (TotalOps/TotalJson) dereferences this pointer; no panic on well-formed shapes (C06_ops_total_partial / C06_json_total_partial / C06_handlers_total_partial), panic reproduced on the others (correspondence c06ops)";
  mkacct "ach.File.Create" "batch.GetControl().EntryHash" "ops-model: file_create (TotalOps/TotalJson) dereferences this pointer; no panic on well-formed shapes (C06_ops_total_partial / C06_json_total_partial / C06_handlers_total_partial), panic reproduced on the others (correspondence c06ops)";
  mkacct "ach.File.Create" "batch.GetControl().TotalDebitEntryDollarAmount" "ops-model: file_create (TotalOps/TotalJson) dereferences this pointer; no panic on well-formed shapes (C06_ops_total_partial / C06_json_total_partial / C06_handlers_total_partial), panic reproduced on the others (correspondence c06ops)";
  mkacct "ach.File.Create" "batch.GetControl().TotalCreditEntryDollarAmount" "ops-model: file_create (TotalOps/TotalJson) dereferences this pointer; no panic on well-formed shapes (C06_ops_total_partial / C06_json_total_partial / C06_handlers_total_partial), panic reproduced on the others (correspondence c06ops)";
  mkacct "ach.File.Create" "f.IATBatches[i].GetHeader().BatchNumber" "ops-model: file_create (TotalOps/TotalJson) dereferences this pointer; no panic on well-formed shapes (C06_ops_total_partial / C06_json_total_partial / C06_handlers_total_partial), panic reproduced on the others (correspondence c06ops)";
  mkacct "ach.File.Create" "f.IATBatches[i].GetControl().BatchNumber" "ops-model: file_create (TotalOps/TotalJson) dereferences this pointer; no panic on well-formed shapes (C06_ops_total_partial / C06_json_total_partial / C06_handlers_total_partial), panic reproduced on the others (correspondence c06ops)";
  mkacct "ach.File.Create" "iatBatch.GetControl().EntryAddendaCount" "ops-model: file_create (TotalOps/TotalJson) dereferences this pointer; no panic on well-formed shapes (C06_ops_total_partial / C06_json_total_partial / C06_handlers_total_partial), panic reproduced on the others (correspondence c06ops)";
  mkacct "ach.File.Create" "iatBatch.GetControl().EntryHash" "ops-model: file_create (TotalOps/TotalJson) dereferences this pointer; no panic on well-formed shapes (C06_ops_total_partial / C06_json_total_partial / C06_handlers_total_partial), panic reproduced on the others (correspondence c06ops)";
  mkacct "ach.File.Create" "iatBatch.GetControl().TotalDebitEntryDollarAmount" "ops-model: file_create (TotalOps/TotalJson) dereferences this pointer; no panic on well-formed shapes (C06_ops_total_partial / C06_json_total_partial / C06_handlers_total_partial), panic reproduced on the others (correspondence c06ops)";
  mkacct "ach.File.Create" "iatBatch.GetControl().TotalCreditEntryDollarAmount" "ops-model: file_create (TotalOps/TotalJson) dereferences this pointer; no panic on well-formed shapes (C06_ops_total_partial / C06_json_total_partial / C06_handlers_total_partial), panic reproduced on the others (correspondence c06ops)";
  mkacct "ach.File.RemoveBatch" "f.NotificationOfChange[i]" "loop-bound: index variable of the enclosing for loop over the same value, not assigned before the site (Gen/OpSites)";
  mkacct "ach.File.RemoveBatch" "f.NotificationOfChange[:i]" "loop index: i ranges over the sliced value (remove element i)";
  mkacct "ach.File.RemoveBatch" "f.NotificationOfChange[i+1:]" "loop index: i ranges over the sliced value (remove element i)";
  mkacct "ach.File.RemoveBatch" "f.ReturnEntries[i]" "loop-bound: index variable of the enclosing for loop over the same value, not assigned before the site (Gen/OpSites)";
  mkacct "ach.File.RemoveBatch" "f.ReturnEntries[:i]" "loop index: i ranges over the sliced value (remove element i)";
  mkacct "ach.File.RemoveBatch" "f.ReturnEntries[i+1:]" "loop index: i ranges over the sliced value (remove element i)";
  mkacct "ach.File.RemoveBatch" "f.Batches[i]" "loop-bound: index variable of the enclosing for loop over the same value, not assigned before the site (Gen/OpSites)";
  mkacct "ach.File.RemoveBatch" "f.Batches[:i]" "loop index: i ranges over the sliced value (remove element i)";
  mkacct "ach.File.RemoveBatch" "f.Batches[i+1:]" "loop index: i ranges over the sliced value (remove element i)";
  mkacct "ach.File.ValidateWith" "f.Control.BatchCount" "value: the operand is a struct value (FileControl), selecting a field of it dereferences nothing (Gen/OpSites)";
  mkacct "ach.File.ValidateWith" "f.Control.Validate" "value: the operand is a struct value (FileControl), selecting a field of it dereferences nothing (Gen/OpSites)";
  mkacct "ach.File.ValidateWith" "f.ADVControl.BatchCount" "value: the operand is a struct value (ADVFileControl), selecting a field of it dereferences nothing (Gen/OpSites)";
  mkacct "ach.File.ValidateWith" "f.ADVControl.Validate" "value: the operand is a struct value (ADVFileControl), selecting a field of it dereferences nothing (Gen/OpSites)";
  mkacct "ach.File.isEntryAddendaCount" "batch.GetControl().EntryAddendaCount" "ops-model: is_entry_addenda_count (TotalOps/TotalJson) dereferences this pointer; no panic on well-formed shapes (C06_ops_total_partial / C06_json_total_partial / C06_handlers_total_partial), panic reproduced on the others (correspondence c06ops)";
  mkacct "ach.File.isEntryAddendaCount" "iatBatch.GetControl().EntryAddendaCount" "ops-model: is_entry_addenda_count (TotalOps/TotalJson) dereferences this pointer; no panic on well-formed shapes (C06_ops_total_partial / C06_json_total_partial / C06_handlers_total_partial), panic reproduced on the others (correspondence c06ops)";
  mkacct "ach.File.isEntryAddendaCount" "f.Control.EntryAddendaCount" "value: the operand is a struct value (FileControl), selecting a field of it dereferences nothing (Gen/OpSites)";
  mkacct "ach.File.isEntryAddendaCount" "batch.GetADVControl().EntryAddendaCount" "ops-model: is_entry_addenda_count (TotalOps/TotalJson) dereferences this pointer; no panic on well-formed shapes (C06_ops_total_partial / C06_json_total_partial / C06_handlers_total_partial), panic reproduced on the others (correspondence c06ops)";
  mkacct "ach.File.isEntryAddendaCount" "f.ADVControl.EntryAddendaCount" "value: the operand is a struct value (ADVFileControl), selecting a field of it dereferences nothing (Gen/OpSites)";
  mkacct "ach.File.isFileAmount" "batch.GetControl().TotalDebitEntryDollarAmount" "ops-model: is_file_amount (TotalOps/TotalJson) dereferences this pointer; no panic on well-formed shapes (C06_ops_total_partial / C06_json_total_partial / C06_handlers_total_partial), panic reproduced on the others (correspondence c06ops)";
  mkacct "ach.File.isFileAmount" "batch.GetControl().TotalCreditEntryDollarAmount" "ops-model: is_file_amount (TotalOps/TotalJson) dereferences this pointer; no panic on well-formed shapes (C06_ops_total_partial / C06_json_total_partial / C06_handlers_total_partial), panic reproduced on the others (correspondence c06ops)";
  mkacct "ach.File.isFileAmount" "iatBatch.GetControl().TotalDebitEntryDollarAmount" "ops-model: is_file_amount (TotalOps/TotalJson) dereferences this pointer; no panic on well-formed shapes (C06_ops_total_partial / C06_json_total_partial / C06_handlers_total_partial), panic reproduced on the others (correspondence c06ops)";
  mkacct "ach.File.isFileAmount" "iatBatch.GetControl().TotalCreditEntryDollarAmount" "ops-model: is_file_amount (TotalOps/TotalJson) dereferences this pointer; no panic on well-formed shapes (C06_ops_total_partial / C06_json_total_partial / C06_handlers_total_partial), panic reproduced on the others (correspondence c06ops)";
  mkacct "ach.File.isFileAmount" "f.Control.TotalDebitEntryDollarAmountInFile" "value: the operand is a struct value (FileControl), selecting a field of it dereferences nothing (Gen/OpSites)";
  mkacct "ach.File.isFileAmount" "f.Control.TotalCreditEntryDollarAmountInFile" "value: the operand is a struct value (FileControl), selecting a field of it dereferences nothing (Gen/OpSites)";
  mkacct "ach.File.isFileAmount" "batch.GetADVControl().TotalDebitEntryDollarAmount" "ops-model: is_file_amount (TotalOps/TotalJson) dereferences this pointer; no panic on well-formed shapes (C06_ops_total_partial / C06_json_total_partial / C06_handlers_total_partial), panic reproduced on the others (correspondence c06ops)";
  mkacct "ach.File.isFileAmount" "batch.GetADVControl().TotalCreditEntryDollarAmount" "ops-model: is_file_amount (TotalOps/TotalJson) dereferences this pointer; no panic on well-formed shapes (C06_ops_total_partial / C06_json_total_partial / C06_handlers_total_partial), panic reproduced on the others (correspondence c06ops)";
  mkacct "ach.File.isFileAmount" "f.ADVControl.TotalDebitEntryDollarAmountInFile" "value: the operand is a struct value (ADVFileControl), selecting a field of it dereferences nothing (Gen/OpSites)";
  mkacct "ach.File.isFileAmount" "f.ADVControl.TotalCreditEntryDollarAmountInFile" "value: the operand is a struct value (ADVFileControl), selecting a field of it dereferences nothing (Gen/OpSites)";
  mkacct "ach.File.isEntryHash" "f.Control.EntryHash" "value: the operand is a struct value (FileControl), selecting a field of it dereferences nothing (Gen/OpSites)";
  mkacct "ach.File.isEntryHash" "f.ADVControl.EntryHash" "value: the operand is a struct value (ADVFileControl), selecting a field of it dereferences nothing (Gen/OpSites)";
  mkacct "ach.File.calculateEntryHash" "batch.GetControl().EntryHash" "ops-model: file_entry_hash (TotalOps/TotalJson) dereferences this pointer; no panic on well-formed shapes (C06_ops_total_partial / C06_json_total_partial / C06_handlers_total_partial), panic reproduced on the others (correspondence c06ops)";
  mkacct "ach.File.calculateEntryHash" "iatBatch.GetControl().EntryHash" "ops-model: file_entry_hash (TotalOps/TotalJson) dereferences this pointer; no panic on well-formed shapes (C06_ops_total_partial / C06_json_total_partial / C06_handlers_total_partial), panic reproduced on the others (correspondence c06ops)";
  mkacct "ach.File.calculateEntryHash" "batch.GetADVControl().EntryHash" "ops-model: file_entry_hash (TotalOps/TotalJson) dereferences this pointer; no panic on well-formed shapes (C06_ops_total_partial / C06_json_total_partial / C06_handlers_total_partial), panic reproduced on the others (correspondence c06ops)";
  mkacct "ach.File.calculateEntryHash" "f.Control.leastSignificantDigits" "value: the operand is a struct value (FileControl), selecting a field of it dereferences nothing (Gen/OpSites)";
  mkacct "ach.File.IsADV" "f.Batches[i].GetHeader().StandardEntryClassCode" "ops-model: file_is_adv (TotalOps/TotalJson) dereferences this pointer; no panic on well-formed shapes (C06_ops_total_partial / C06_json_total_partial / C06_handlers_total_partial), panic reproduced on the others (correspondence c06ops)";
  mkacct "ach.File.createFileADV" "batch.GetHeader().StandardEntryClassCode" "ops-model: create_file_adv (TotalOps/TotalJson) dereferences this pointer; no panic on well-formed shapes (C06_ops_total_partial / C06_json_total_partial / C06_handlers_total_partial), panic reproduced on the others (correspondence c06ops)";
  mkacct "ach.File.createFileADV" "f.Batches[i].GetHeader().BatchNumber" "ops-model: create_file_adv (TotalOps/TotalJson) dereferences this pointer; no panic on well-formed shapes (C06_ops_total_partial / C06_json_total_partial / C06_handlers_total_partial), panic reproduced on the others (correspondence c06ops)";
  mkacct "ach.File.createFileADV" "f.Batches[i].GetADVControl().BatchNumber" "ops-model: create_file_adv (TotalOps/TotalJson) dereferences this pointer; no panic on well-formed shapes (C06_ops_total_partial / C06_json_total_partial / C06_handlers_total_partial), panic reproduced on the others (correspondence c06ops)";
  mkacct "ach.File.createFileADV" "batch.GetADVControl().EntryAddendaCount" "ops-model: create_file_adv (TotalOps/TotalJson) dereferences this pointer; no panic on well-formed shapes (C06_ops_total_partial / C06_json_total_partial / C06_handlers_total_partial), panic reproduced on the others (correspondence c06ops)";
  mkacct "ach.File.createFileADV" "batch.GetADVControl().EntryHash" "ops-model: create_file_adv (TotalOps/TotalJson) dereferences this pointer; no panic on well-formed shapes (C06_ops_total_partial / C06_json_total_partial / C06_handlers_total_partial), panic reproduced on the others (correspondence c06ops)";
  mkacct "ach.File.createFileADV" "batch.GetADVControl().TotalDebitEntryDollarAmount" "ops-model: create_file_adv (TotalOps/TotalJson) dereferences this pointer; no panic on well-formed shapes (C06_ops_total_partial / C06_json_total_partial / C06_handlers_total_partial), panic reproduced on the others (correspondence c06ops)";
  mkacct "ach.File.createFileADV" "batch.GetADVControl().TotalCreditEntryDollarAmount" "ops-model: create_file_adv (TotalOps/TotalJson) dereferences this pointer; no panic on well-formed shapes (C06_ops_total_partial / C06_json_total_partial / C06_handlers_total_partial), panic reproduced on the others (correspondence c06ops)";
  mkacct "ach.File.isSequenceAscending" "batch.GetHeader().BatchNumber" "ops-model: file_sequence_ascending (TotalOps/TotalJson) dereferences this pointer; no panic on well-formed shapes (C06_ops_total_partial / C06_json_total_partial / C06_handlers_total_partial), panic reproduced on the others (correspondence c06ops)";
  mkacct "ach.convertToFiles" "batch.GetHeader().SetValidation" "nil-safe: method call on a possibly nil pointer whose method starts with `if recv == nil { return }` (Gen/OpSites.nil_safe_methods); the receiver is the header NewBatch installed two statements above";
  mkacct "ach.Flatten" "originalBatches[i]" "sort-less: index parameters of the less function of sort.Slice over the same value (contract of package sort); the other occurrence is the key of `for i := range` over the same value";
  mkacct "ach.Flatten" "originalBatches[j]" "sort-less: index parameters of the less function of sort.Slice over the same value (contract of package sort)";
  mkacct "ach.Flatten" "newBatchesByHeader[batch.GetHeaderSignature()]" "map: the operand is a map (map[string][]mergeable); a map lookup never panics (Gen/OpSites)";
  mkacct "ach.Flatten" "allBatches[i]" "sort-less: index parameters of the less function of sort.Slice over the same value (contract of package sort); the other occurrence is the key of `for i := range` over the same value";
  mkacct "ach.Flatten" "allBatches[j]" "sort-less: index parameters of the less function of sort.Slice over the same value (contract of package sort)";
  mkacct "ach.Flatten" "originalFile.Control.EntryAddendaCount" "value: the operand is a struct value (FileControl), selecting a field of it dereferences nothing (Gen/OpSites)";
  mkacct "ach.Flatten" "newFile.Control.EntryAddendaCount" "value: the operand is a struct value (FileControl), selecting a field of it dereferences nothing (Gen/OpSites)";
  mkacct "ach.Flatten" "originalFile.Control.TotalDebitEntryDollarAmountInFile" "value: the operand is a struct value (FileControl), selecting a field of it dereferences nothing (Gen/OpSites)";
  mkacct "ach.Flatten" "newFile.Control.TotalDebitEntryDollarAmountInFile" "value: the operand is a struct value (FileControl), selecting a field of it dereferences nothing (Gen/OpSites)";
  mkacct "ach.Flatten" "originalFile.Control.TotalCreditEntryDollarAmountInFile" "value: the operand is a struct value (FileControl), selecting a field of it dereferences nothing (Gen/OpSites)";
  mkacct "ach.Flatten" "newFile.Control.TotalCreditEntryDollarAmountInFile" "value: the operand is a struct value (FileControl), selecting a field of it dereferences nothing (Gen/OpSites)";
  mkacct "ach.canMerge" "traceNumbers[traceNumber]" "map: the operand is a map (map[string]bool); a map lookup never panics (Gen/OpSites)";
  mkacct "ach.mergeableBatcher.GetHeaderSignature" "b.batcher.GetHeader().String" "ops-model: flatten_batches (TotalOps/TotalJson) dereferences this pointer; no panic on well-formed shapes (C06_ops_total_partial / C06_json_total_partial / C06_handlers_total_partial), panic reproduced on the others (correspondence c06ops)";
  mkacct "ach.mergeableBatcher.GetBatchNumber" "b.batcher.GetHeader().BatchNumber" "ops-model: add_flattened (TotalOps/TotalJson) dereferences this pointer; no panic on well-formed shapes (C06_ops_total_partial / C06_json_total_partial / C06_handlers_total_partial), panic reproduced on the others (correspondence c06ops)";
  mkacct "ach.mergeableBatcher.GetTraceNumbers" "b.traceNumbers[entry.TraceNumber]" "map: the operand is a map (map[string]bool); a map lookup never panics (Gen/OpSites)";
  mkacct "ach.mergeableBatcher.Consume" "batcherToConsume.GetHeader().BatchNumber" "ops-model: flatten_batches (TotalOps/TotalJson) dereferences this pointer; no panic on well-formed shapes (C06_ops_total_partial / C06_json_total_partial / C06_handlers_total_partial), panic reproduced on the others (correspondence c06ops)";
  mkacct "ach.mergeableBatcher.Consume" "m.batcher.GetHeader().BatchNumber" "ops-model: flatten_batches (TotalOps/TotalJson) dereferences this pointer; no panic on well-formed shapes (C06_ops_total_partial / C06_json_total_partial / C06_handlers_total_partial), panic reproduced on the others (correspondence c06ops)";
  mkacct "ach.mergeableBatcher.AddToFile" "m.batcher.GetEntries()[i]" "sort-less: index parameters of the less function of sort.Slice over the same value (contract of package sort)";
  mkacct "ach.mergeableBatcher.AddToFile" "m.batcher.GetEntries()[j]" "sort-less: index parameters of the less function of sort.Slice over the same value (contract of package sort)";
  mkacct "ach.mergeableBatcher.AddToFile" "m.batcher.GetHeader().BatchNumber" "ops-model: add_flattened (TotalOps/TotalJson) dereferences this pointer; no panic on well-formed shapes (C06_ops_total_partial / C06_json_total_partial / C06_handlers_total_partial), panic reproduced on the others (correspondence c06ops)";
  mkacct "ach.mergeableIATBatch.GetTraceNumbers" "b.traceNumbers[entry.TraceNumber]" "map: the operand is a map (map[string]bool); a map lookup never panics (Gen/OpSites)";
  mkacct "ach.mergeableIATBatch.AddToFile" "m.iatBatch.Entries[i]" "sort-less: index parameters of the less function of sort.Slice over the same value (contract of package sort)";
  mkacct "ach.mergeableIATBatch.AddToFile" "m.iatBatch.Entries[j]" "sort-less: index parameters of the less function of sort.Slice over the same value (contract of package sort)";
  mkacct "ach.IATBatch.verify" "iatBatch.Control.ServiceClassCode" "ops-model: iat_verify (TotalOps/TotalJson) dereferences this pointer; no panic on well-formed shapes (C06_ops_total_partial / C06_json_total_partial / C06_handlers_total_partial), panic reproduced on the others (correspondence c06ops)";
  mkacct "ach.IATBatch.verify" "iatBatch.Control.ODFIIdentification" "ops-model: iat_verify (TotalOps/TotalJson) dereferences this pointer; no panic on well-formed shapes (C06_ops_total_partial / C06_json_total_partial / C06_handlers_total_partial), panic reproduced on the others (correspondence c06ops)";
  mkacct "ach.IATBatch.verify" "iatBatch.Control.BatchNumber" "ops-model: iat_verify (TotalOps/TotalJson) dereferences this pointer; no panic on well-formed shapes (C06_ops_total_partial / C06_json_total_partial / C06_handlers_total_partial), panic reproduced on the others (correspondence c06ops)";
  mkacct "ach.IATBatch.verify" "iatBatch.Control.isAlphanumeric" "ops-model: iat_verify (TotalOps/TotalJson) dereferences this pointer; no panic on well-formed shapes (C06_ops_total_partial / C06_json_total_partial / C06_handlers_total_partial), panic reproduced on the others (correspondence c06ops)";
  mkacct "ach.IATBatch.verify" "iatBatch.Control.CompanyIdentification" "ops-model: iat_verify (TotalOps/TotalJson) dereferences this pointer; no panic on well-formed shapes (C06_ops_total_partial / C06_json_total_partial / C06_handlers_total_partial), panic reproduced on the others (correspondence c06ops)";
  mkacct "ach.IATBatch.isFieldInclusion" "entry.Addenda10.Validate" "nil-safe: method call on a possibly nil pointer whose method starts with `if recv == nil { return }` (Gen/OpSites.nil_safe_methods)";
  mkacct "ach.IATBatch.isFieldInclusion" "entry.Addenda11.Validate" "nil-safe: method call on a possibly nil pointer whose method starts with `if recv == nil { return }` (Gen/OpSites.nil_safe_methods)";
  mkacct "ach.IATBatch.isFieldInclusion" "entry.Addenda12.Validate" "nil-safe: method call on a possibly nil pointer whose method starts with `if recv == nil { return }` (Gen/OpSites.nil_safe_methods)";
  mkacct "ach.IATBatch.isFieldInclusion" "entry.Addenda13.Validate" "nil-safe: method call on a possibly nil pointer whose method starts with `if recv == nil { return }` (Gen/OpSites.nil_safe_methods)";
  mkacct "ach.IATBatch.isFieldInclusion" "entry.Addenda14.Validate" "nil-safe: method call on a possibly nil pointer whose method starts with `if recv == nil { return }` (Gen/OpSites.nil_safe_methods)";
  mkacct "ach.IATBatch.isFieldInclusion" "entry.Addenda15.Validate" "nil-safe: method call on a possibly nil pointer whose method starts with `if recv == nil { return }` (Gen/OpSites.nil_safe_methods)";
  mkacct "ach.IATBatch.isFieldInclusion" "entry.Addenda16.Validate" "nil-safe: method call on a possibly nil pointer whose method starts with `if recv == nil { return }` (Gen/OpSites.nil_safe_methods)";
  mkacct "ach.IATBatch.isFieldInclusion" "iatBatch.Control.Validate" "ops-model: iat_is_field_inclusion (TotalOps/TotalJson) dereferences this pointer; no panic on well-formed shapes (C06_ops_total_partial / C06_json_total_partial / C06_handlers_total_partial), panic reproduced on the others (correspondence c06ops)";
  mkacct "ach.IATBatch.isBatchEntryCount" "iatBatch.Control.EntryAddendaCount" "ops-model: iat_is_batch_entry_count (TotalOps/TotalJson) dereferences this pointer; no panic on well-formed shapes (C06_ops_total_partial / C06_json_total_partial / C06_handlers_total_partial), panic reproduced on the others (correspondence c06ops)";
  mkacct "ach.IATBatch.isBatchAmount" "iatBatch.Control.TotalDebitEntryDollarAmount" "ops-model: iat_verify (TotalOps/TotalJson) dereferences this pointer; no panic on well-formed shapes (C06_ops_total_partial / C06_json_total_partial / C06_handlers_total_partial), panic reproduced on the others (correspondence c06ops)";
  mkacct "ach.IATBatch.isBatchAmount" "iatBatch.Control.TotalCreditEntryDollarAmount" "ops-model: iat_verify (TotalOps/TotalJson) dereferences this pointer; no panic on well-formed shapes (C06_ops_total_partial / C06_json_total_partial / C06_handlers_total_partial), panic reproduced on the others (correspondence c06ops)";
  mkacct "ach.IATBatch.isEntryHash" "iatBatch.Control.EntryHash" "ops-model: iat_verify (TotalOps/TotalJson) dereferences this pointer; no panic on well-formed shapes (C06_ops_total_partial / C06_json_total_partial / C06_handlers_total_partial), panic reproduced on the others (correspondence c06ops)";
  mkacct "ach.IATBatch.isAddendaSequence" "entry.Addenda10.EntryDetailSequenceNumberField" "ops-model: iat_addenda_sequence_loop (TotalOps/TotalJson) dereferences this pointer; no panic on well-formed shapes (C06_ops_total_partial / C06_json_total_partial / C06_handlers_total_partial), panic reproduced on the others (correspondence c06ops)";
  mkacct "ach.IATBatch.isAddendaSequence" "entry.Addenda11.EntryDetailSequenceNumberField" "ops-model: iat_addenda_sequence_loop (TotalOps/TotalJson) dereferences this pointer; no panic on well-formed shapes (C06_ops_total_partial / C06_json_total_partial / C06_handlers_total_partial), panic reproduced on the others (correspondence c06ops)";
  mkacct "ach.IATBatch.isAddendaSequence" "entry.Addenda12.EntryDetailSequenceNumberField" "ops-model: iat_addenda_sequence_loop (TotalOps/TotalJson) dereferences this pointer; no panic on well-formed shapes (C06_ops_total_partial / C06_json_total_partial / C06_handlers_total_partial), panic reproduced on the others (correspondence c06ops)";
  mkacct "ach.IATBatch.isAddendaSequence" "entry.Addenda13.EntryDetailSequenceNumberField" "ops-model: iat_addenda_sequence_loop (TotalOps/TotalJson) dereferences this pointer; no panic on well-formed shapes (C06_ops_total_partial / C06_json_total_partial / C06_handlers_total_partial), panic reproduced on the others (correspondence c06ops)";
  mkacct "ach.IATBatch.isAddendaSequence" "entry.Addenda14.EntryDetailSequenceNumberField" "ops-model: iat_addenda_sequence_loop (TotalOps/TotalJson) dereferences this pointer; no panic on well-formed shapes (C06_ops_total_partial / C06_json_total_partial / C06_handlers_total_partial), panic reproduced on the others (correspondence c06ops)";
  mkacct "ach.IATBatch.isAddendaSequence" "entry.Addenda15.EntryDetailSequenceNumberField" "ops-model: iat_addenda_sequence_loop (TotalOps/TotalJson) dereferences this pointer; no panic on well-formed shapes (C06_ops_total_partial / C06_json_total_partial / C06_handlers_total_partial), panic reproduced on the others (correspondence c06ops)";
  mkacct "ach.IATBatch.isAddendaSequence" "entry.Addenda16.EntryDetailSequenceNumberField" "ops-model: iat_addenda_sequence_loop (TotalOps/TotalJson) dereferences this pointer; no panic on well-formed shapes (C06_ops_total_partial / C06_json_total_partial / C06_handlers_total_partial), panic reproduced on the others (correspondence c06ops)";
  mkacct "ach.IATBatch.isCategory" "iatBatch.GetEntries()[0]" "reviewed: verify() rejects a batch without entries before isCategory";
  mkacct "ach.IATBatch.isCategory" "iatBatch.Entries[i]" "loop-bound: index variable of the enclosing for loop over the same value, not assigned before the site (Gen/OpSites)";
  mkacct "ach.IATBatch.Validate" "iatBatch.GetHeader().IATIndicator" "ops-model: iat_validate (TotalOps/TotalJson) dereferences this pointer; no panic on well-formed shapes (C06_ops_total_partial / C06_json_total_partial / C06_handlers_total_partial), panic reproduced on the others (correspondence c06ops)";
  mkacct "ach.IATBatch.Validate" "iatBatch.GetHeader().StandardEntryClassCode" "ops-model: iat_validate (TotalOps/TotalJson) dereferences this pointer; no panic on well-formed shapes (C06_ops_total_partial / C06_json_total_partial / C06_handlers_total_partial), panic reproduced on the others (correspondence c06ops)";
  mkacct "ach.IATEntryDetail.SetRDFI" "s[:8]" "model:set_rdfi_total - s := stringField(rdfi, 9) has at least 9 bytes";
  mkacct "ach.IATEntryDetail.SetRDFI" "s[8:9]" "model:set_rdfi_total - s := stringField(rdfi, 9) has at least 9 bytes";
  mkacct "ach.Iterator.NextEntry" "entries[len(entries)-1]" "last: x[len(x)-1] under a dominating test that x is not empty (Gen/OpSites)";
  mkacct "ach.ReadFiles" "out[i]" "search-only: index variable bounded by a loop condition or an earlier check, not resolved by the translator";
  mkacct "ach.trimSpacesFromLongLine" "s[:lineLength]" "model:trim_long_ok - called only when the rune count exceeds 94";
  mkacct "ach.Reader.parseLine" "r.line[:1]" "model:parse_line_total - every line given to parseLine has at least 53 bytes (read_line_other_total, read_line_first_total)";
  mkacct "ach.Reader.parseLine" "r.line[:2]" "model:parse_line_total - every line given to parseLine has at least 53 bytes (read_line_other_total, read_line_first_total)";
  mkacct "ach.Reader.parseEDAddenda" "r.currentBatch.GetHeader().CompanyName" "reader-model: SCurHeader of the reader shape model (ReaderShape.v) performs this dereference; safe in every reachable state by the invariant clauses ClCurHeader (C06_reader_site_safe, C06_reader_inv)";
  mkacct "ach.Reader.parseEntryDetail" "r.currentBatch.GetHeader().StandardEntryClassCode" "reader-model: SCurHeader of the reader shape model (ReaderShape.v) performs this dereference; safe in every reachable state by the invariant clauses ClCurHeader (C06_reader_site_safe, C06_reader_inv)";
  mkacct "ach.Reader.parseAddenda" "r.currentBatch.GetHeader().StandardEntryClassCode" "reader-model: SCurHeader of the reader shape model (ReaderShape.v) performs this dereference; safe in every reachable state by the invariant clauses ClCurHeader (C06_reader_site_safe, C06_reader_inv)";
  mkacct "ach.Reader.parseAddenda" "r.currentBatch.GetEntries()[entryIndex]" "reader-model: SCurLastEntry of the reader shape model (ReaderShape.v) performs this dereference; safe in every reachable state by the invariant clauses ClCurEntries (C06_reader_site_safe, C06_reader_inv)";
  mkacct "ach.Reader.parseAddenda" "r.line[1:3]" "model:parse_line_total";
  mkacct "ach.Reader.parseAddenda" "r.line[3:6]" "model:parse_line_total";
  mkacct "ach.Reader.parseADVAddenda" "r.currentBatch.GetADVEntries()[entryIndex]" "reader-model: SCurLastAdvEntry of the reader shape model (ReaderShape.v) performs this dereference; safe in every reachable state by the invariant clauses ClCurEntries (C06_reader_site_safe, C06_reader_inv)";
  mkacct "ach.Reader.parseBatchControl" "r.currentBatch.GetHeader().StandardEntryClassCode" "reader-model: SCurHeader of the reader shape model (ReaderShape.v) performs this dereference; safe in every reachable state by the invariant clauses ClCurHeader (C06_reader_site_safe, C06_reader_inv)";
  mkacct "ach.Reader.parseBatchControl" "r.currentBatch.GetADVControl().Parse" "reader-model: SCurAdvControl of the reader shape model (ReaderShape.v) performs this dereference; safe in every reachable state by the invariant clauses ClCurHeader, ClCurControl (C06_reader_site_safe, C06_reader_inv)";
  mkacct "ach.Reader.parseBatchControl" "r.currentBatch.GetADVControl().LineNumber" "reader-model: SCurAdvControl of the reader shape model (ReaderShape.v) performs this dereference; safe in every reachable state by the invariant clauses ClCurHeader, ClCurControl (C06_reader_site_safe, C06_reader_inv)";
  mkacct "ach.Reader.parseBatchControl" "r.currentBatch.GetControl().SetValidation" "nil-safe: method call on a possibly nil pointer whose method starts with `if recv == nil { return }` (Gen/OpSites.nil_safe_methods)";
  mkacct "ach.Reader.parseBatchControl" "r.currentBatch.GetControl().Parse" "reader-model: SCurControl of the reader shape model (ReaderShape.v) performs this dereference; safe in every reachable state by the invariant clauses ClCurHeader, ClCurControl (C06_reader_site_safe, C06_reader_inv)";
  mkacct "ach.Reader.parseBatchControl" "r.currentBatch.GetControl().LineNumber" "reader-model: SCurControl of the reader shape model (ReaderShape.v) performs this dereference; safe in every reachable state by the invariant clauses ClCurHeader, ClCurControl (C06_reader_site_safe, C06_reader_inv)";
  mkacct "ach.Reader.parseBatchControl" "r.IATCurrentBatch.GetControl().Parse" "reader-model: SIatControl of the reader shape model (ReaderShape.v) performs this dereference; safe in every reachable state by the invariant clauses ClIatBuilt (C06_reader_site_safe, C06_reader_inv)";
  mkacct "ach.Reader.parseBatchControl" "r.IATCurrentBatch.GetControl().LineNumber" "reader-model: SIatControl of the reader shape model (ReaderShape.v) performs this dereference; safe in every reachable state by the invariant clauses ClIatBuilt (C06_reader_site_safe, C06_reader_inv)";
  mkacct "ach.Reader.parseFileControl" "r.File.Control.Parse" "value: the operand is a struct value (FileControl), selecting a field of it dereferences nothing (Gen/OpSites)";
  mkacct "ach.Reader.parseFileControl" "r.File.Control.LineNumber" "value: the operand is a struct value (FileControl), selecting a field of it dereferences nothing (Gen/OpSites)";
  mkacct "ach.Reader.parseFileControl" "r.File.ADVControl.Parse" "value: the operand is a struct value (ADVFileControl), selecting a field of it dereferences nothing (Gen/OpSites)";
  mkacct "ach.Reader.parseFileControl" "r.File.ADVControl.LineNumber" "value: the operand is a struct value (ADVFileControl), selecting a field of it dereferences nothing (Gen/OpSites)";
  mkacct "ach.Reader.parseIATAddenda" "r.IATCurrentBatch.GetEntries()[entryIndex]" "reader-model: SIatLastEntry of the reader shape model (ReaderShape.v) performs this dereference; safe in every reachable state by the invariant clauses ClIatNonempty, ClIatEntries (C06_reader_site_safe, C06_reader_inv)";
  mkacct "ach.Reader.switchIATAddenda" "r.line[1:3]" "model:parse_line_total";
  mkacct "ach.Reader.mandatoryOptionalIATAddenda" "r.line[1:3]" "model:parse_line_total";
  mkacct "ach.Reader.mandatoryOptionalIATAddenda" "r.IATCurrentBatch.Entries[entryIndex]" "reader-model: SIatLastEntry of the reader shape model (ReaderShape.v) performs this dereference; safe in every reachable state by the invariant clauses ClIatNonempty, ClIatEntries (C06_reader_site_safe, C06_reader_inv)";
  mkacct "ach.Reader.nocIATAddenda" "r.IATCurrentBatch.Entries[entryIndex]" "reader-model: SIatLastEntry of the reader shape model (ReaderShape.v) performs this dereference; safe in every reachable state by the invariant clauses ClIatNonempty, ClIatEntries (C06_reader_site_safe, C06_reader_inv)";
  mkacct "ach.Reader.returnIATAddenda" "r.IATCurrentBatch.Entries[entryIndex]" "reader-model: SIatLastEntry of the reader shape model (ReaderShape.v) performs this dereference; safe in every reachable state by the invariant clauses ClIatNonempty, ClIatEntries (C06_reader_site_safe, C06_reader_inv)";
  mkacct "ach.CheckRoutingNumber" "routingNumber[len(routingNumber)-1]" "search-only: last element after an emptiness check";
  mkacct "ach.Writer.writeBatch" "batch.GetHeader().StandardEntryClassCode" "ops-model: write_batch (TotalOps/TotalJson) dereferences this pointer; no panic on well-formed shapes (C06_ops_total_partial / C06_json_total_partial / C06_handlers_total_partial), panic reproduced on the others (correspondence c06ops)";
  mkacct "server.createFileEndpoint" "req.File.ID" "ops-model: handle (RCreateFile) (TotalOps/TotalJson) dereferences this pointer; no panic on well-formed shapes (C06_ops_total_partial / C06_json_total_partial / C06_handlers_total_partial), panic reproduced on the others (correspondence c06ops)";
  mkacct "server.createFileEndpoint" "req.File.SetValidation" "nil-safe: method call on a possibly nil pointer whose method starts with `if recv == nil { return }` (Gen/OpSites.nil_safe_methods)";
  mkacct "server.repositoryInMemory.StoreFile" "r.files[f.ID]" "map: the operand is a map (map[string]*File); a map lookup never panics (Gen/OpSites)";
  mkacct "server.repositoryInMemory.FindFile" "r.files[id]" "map: the operand is a map (map[string]*File); a map lookup never panics (Gen/OpSites)";
  mkacct "server.repositoryInMemory.StoreBatch" "r.files[fileID]" "map: the operand is a map (map[string]*File); a map lookup never panics (Gen/OpSites)";
  mkacct "server.repositoryInMemory.FindBatch" "r.files[fileID]" "map: the operand is a map (map[string]*File); a map lookup never panics (Gen/OpSites)";
  mkacct "server.repositoryInMemory.FindAllBatches" "r.files[fileID]" "map: the operand is a map (map[string]*File); a map lookup never panics (Gen/OpSites)";
  mkacct "server.repositoryInMemory.DeleteBatch" "r.files[fileID]" "map: the operand is a map (map[string]*File); a map lookup never panics (Gen/OpSites)";
  mkacct "server.repositoryInMemory.DeleteBatch" "file.Batches[i]" "loop-bound: index variable of the enclosing for loop over the same value, not assigned before the site (Gen/OpSites)";
  mkacct "server.repositoryInMemory.DeleteBatch" "file.Batches[:i]" "loop index: i ranges over the sliced value (remove element i)";
  mkacct "server.repositoryInMemory.DeleteBatch" "file.Batches[i+1:]" "loop index: i ranges over the sliced value (remove element i)";
  mkacct "server.marshalStructWithError" "out[name]" "map: the operand is a map (map[string]interface{}); a map lookup never panics (Gen/OpSites)";
  mkacct "server.service.CreateFile" "f.Control.ID" "value: the operand is a struct value (FileControl), selecting a field of it dereferences nothing (Gen/OpSites)";
  mkacct "server.service.CreateBatch" "batch.GetHeader().ID" "ops-model: create_batch (TotalOps/TotalJson) dereferences this pointer; no panic on well-formed shapes (C06_ops_total_partial / C06_json_total_partial / C06_handlers_total_partial), panic reproduced on the others (correspondence c06ops)";
  mkacct "server.service.CreateBatch" "batch.GetControl().ID" "ops-model: create_batch (TotalOps/TotalJson) dereferences this pointer; no panic on well-formed shapes (C06_ops_total_partial / C06_json_total_partial / C06_handlers_total_partial), panic reproduced on the others (correspondence c06ops)"
].

(* The slices of the source that the Gallina functions of Totality.v transcribe, with the bounds
   and guards written there.  C06Obl.model_sites_present checks that the regenerated table has
   exactly these (and no other slice/index in the same functions): a changed bound, a dropped or
   weakened guard, or an extra slice in one of these functions makes the obligation false. *)
Definition model_sites : list msite := [
  mkmsite "ach.EntryDetail.ProcessControlField" (Some 0) (Some 6) [FNot (FCmp MLen CLt 6)];
  mkmsite "ach.EntryDetail.ItemResearchNumber" (Some 6) (Some 22) [FNot (FCmp MLen CLt 22)];
  mkmsite "ach.EntryDetail.POPCheckSerialNumberField" (Some 0) (Some 9) [];
  mkmsite "ach.EntryDetail.POPTerminalCityField" (Some 9) (Some 13) [];
  mkmsite "ach.EntryDetail.POPTerminalStateField" (Some 13) (Some 15) [];
  mkmsite "ach.EntryDetail.SHRCardExpirationDateField" (Some 0) (Some 4) [FNot (FCmp MLen CLt 4)];
  mkmsite "ach.EntryDetail.SHRDocumentReferenceNumberField" (Some 4) (Some 15) [];
  mkmsite "ach.EntryDetail.CATXAddendaRecordsField" None (Some 4) [FNot (FCmp MRune CLt 5)];
  mkmsite "ach.EntryDetail.CATXReceivingCompanyField" (Some 4) None [FNot (FCmp MRune CLt 4)];
  mkmsite "ach.EntryDetail.CATXReservedField" (Some 20) (Some 22) [];
  mkmsite "ach.EntryDetail.SetCATXAddendaRecords" (Some 4) None [FCmp MRune CGt 4];
  mkmsite "ach.EntryDetail.SetCATXReceivingCompany" None (Some 4) [FCmp MRune CGt 4];
  mkmsite "ach.EntryDetail.SetRDFI" None (Some 8) [];
  mkmsite "ach.EntryDetail.SetRDFI" (Some 8) (Some 9) [];
  mkmsite "ach.Addenda99.IATPaymentAmountField" (Some 0) (Some 10) [];
  mkmsite "ach.Addenda99.IATAddendaInformationField" (Some 9) (Some 44) [];
  mkmsite "ach.Addenda99.AddendaInformationReturnTraceNumber" (Some 3) (Some 18) [];
  mkmsite "ach.Addenda99.AddendaInformationReturnSettlementDate" (Some 18) (Some 21) [];
  mkmsite "ach.Addenda99.AddendaInformationReturnReasonCode" (Some 21) (Some 23) [];
  mkmsite "ach.Addenda99.AddendaInformationExtra" (Some 23) None [];
  mkmsite "ach.aba8" (Some 0) (Some 1) [FNot (FCmp MRune CGt 10); FCmp MRune CEq 10];
  mkmsite "ach.aba8" (Some 1) (Some 9) [FNot (FCmp MRune CGt 10); FCmp MRune CEq 10];
  mkmsite "ach.aba8" None (Some 8) [FNot (FCmp MRune CGt 10); FNot (FCmp MRune CEq 10); FNot (FAnd (FCmp MRune CNe 8) (FCmp MRune CNe 9))];
  mkmsite "ach.first" None None [];
  mkmsite "ach.BatchSHR.Validate" (Some 0) (Some 2) [];
  mkmsite "ach.BatchSHR.Validate" (Some 2) (Some 4) [];
  mkmsite "ach.trimSpacesFromLongLine" None (Some 94) [];
  mkmsite "ach.Reader.parseLine" None (Some 1) [];
  mkmsite "ach.Reader.parseLine" None (Some 2) []
].

(* functions that must not contain any slice / index at all, because the model has none there:
   the validators that call the guarded accessors (a new `entry.IndividualName[0:6]` in one of
   them is exactly the regression the property is about) *)
Definition slice_free_functions : list string :=
  ["ach.BatchTRC.Validate"; "ach.BatchXCK.Validate"; "ach.BatchPOP.Validate"; "ach.BatchCTX.Validate";
   "ach.BatchATX.Validate"; "ach.BatchTRX.Validate"; "ach.rightPadShortLine"; "ach.Reader.readLine";
   "ach.Reader.parseED"; "ach.Reader.parseEDAddenda"; "server.service.SegmentFile"].

Definition slice_free_ok (t : list site) : bool :=
  forallb (fun s => negb ((is_kind s "slice" || is_kind s "index") && negb (is_class s "ranged")
                          && existsb (String.eqb (s_func s)) slice_free_functions)) t.

(* C07 (phase 2) — types of the table regenerated from the post-processing code of
   FileFromJSONWith (file.go, batch.go) by translator/jsonpost.go (Gen/JsonPost.v),
   and the boolean checker of what the hand model (Model/JsonFile.v) assumes of it. *)
From Coq Require Import String List Bool.
Import ListNotations.
Open Scope string_scope.

Record post_table := mkpt {
  pt_convert : list (string * string);     (* ConvertBatchType: value of the case constant -> Go type returned, in source order *)
  pt_convert_default : string;             (* type returned by the default branch *)
  pt_newbatch : list (string * string);    (* NewBatch: value of the case constant -> constructor called *)
  pt_typecodes : list (string * list (string * string));
                                           (* set…RecordType per entry struct: addenda field -> literal assigned to its TypeCode *)
  pt_adv_category : list (string * string);(* setADVEntryRecordType: (guarding nil field, constant assigned to Category) *)
  pt_catx : list string;                   (* SEC codes of the name-packing switch in setBatchesFromJSON *)
  pt_batch_steps : list string;            (* calls made on every decoded batch, in order *)
  pt_iat_steps : list string;              (* calls made on every decoded IAT batch, in order *)
  pt_dates : list string;                  (* datetimeformats *)
  pt_date_fields : list (string * string * string * string);
                                           (* overwriteDateTimeFields: (owner, field, trimmed prefix / written prefix, output layout) *)
  pt_stages : list string;                 (* top-level steps of FileFromJSONWith after the ID has been read *)
  pt_unknown : list string }.              (* constructs the translator did not understand *)

Definition str_in (s : string) (l : list string) : bool := existsb (String.eqb s) l.

Fixpoint assoc (k : string) (l : list (string * string)) : option string :=
  match l with
  | [] => None
  | (a, b) :: r => if String.eqb k a then Some b else assoc k r
  end.

Fixpoint nodup_keys (l : list (string * string)) : bool :=
  match l with
  | [] => true
  | (a, _) :: r => negb (existsb (fun p => String.eqb a (fst p)) r) && nodup_keys r
  end.

(* every SEC code is converted to the batch type named after it *)
Definition convert_ok (T : post_table) : bool :=
  nodup_keys (pt_convert T)
  && forallb (fun p => String.eqb (snd p) ("Batch" ++ fst p)) (pt_convert T)
  && String.eqb (pt_convert_default T) "Batch".

(* ConvertBatchType knows exactly the SEC codes NewBatch constructs a batch for (IAT has its own batch type) *)
Definition same_keys (a b : list (string * string)) : bool :=
  forallb (fun p => existsb (fun q => String.eqb (fst p) (fst q)) b) a
  && forallb (fun q => existsb (fun p => String.eqb (fst p) (fst q)) a) b.

Definition newbatch_ok (T : post_table) : bool :=
  same_keys (pt_convert T) (filter (fun p => negb (String.eqb (fst p) "IAT")) (pt_newbatch T))
  && forallb (fun p => String.eqb (snd p) ("NewBatch" ++ fst p) || String.eqb (fst p) "IAT") (pt_newbatch T).

(* an addenda record stored in field AddendaNN[suffix] gets type code NN *)
Definition code_of_field (f : string) : string := String.substring 7 2 f.
Definition typecodes_ok (T : post_table) : bool :=
  forallb (fun e => forallb (fun p => String.prefix "Addenda" (fst p) && String.eqb (snd p) (code_of_field (fst p))) (snd e))
          (pt_typecodes T).

(* the three layouts the hand model of datetimeParse implements *)
Definition known_date_layouts : list string :=
  [ "2006-01-02T15:04:05.999Z"; "2006-01-02T15:04:05Z"; "2006-01-02T15:04:05Z07:00" ].

Definition list_eqb (a b : list string) : bool :=
  Nat.eqb (length a) (length b) && forallb (fun p => String.eqb (fst p) (snd p)) (combine a b).

Definition quad_eqb (a b : string * string * string * string) : bool :=
  let '(a1, a2, a3, a4) := a in let '(b1, b2, b3, b4) := b in
  String.eqb a1 b1 && String.eqb a2 b2 && String.eqb a3 b3 && String.eqb a4 b4.

Definition known_date_fields : list (string * string * string * string) :=
  [ ("File.Header", "FileCreationDate", "", "060102");
    ("File.Header", "FileCreationTime", "", "1504");
    ("Batch.Header", "CompanyDescriptiveDate", "SD", "1504");
    ("Batch.Header", "EffectiveEntryDate", "", "060102");
    ("IATBatch.Header", "EffectiveEntryDate", "", "060102") ].

Definition date_fields_ok (T : post_table) : bool :=
  Nat.eqb (length (pt_date_fields T)) (length known_date_fields)
  && forallb (fun p => quad_eqb (fst p) (snd p)) (combine (pt_date_fields T) known_date_fields).

(* the order of the steps the model composes *)
Definition known_batch_steps : list string := [ "SetID"; "SetValidation"; "setEntryRecordType"; "catx"; "setADVEntryRecordType"; "build"; "ConvertBatchType" ].
Definition known_iat_steps : list string := [ "SetID"; "SetValidation"; "setIATEntryRecordType"; "build"; "append" ].
Definition known_stages : list string :=
  [ "SetValidation(opts)"; "SetValidation(out.validateOpts.merge(validateOpts))"; "SetValidation(opts)";
    "header"; "setBatchesFromJSON"; "overwriteDateTimeFields"; "control"; "batchCount"; "Create"; "Validate" ].

Definition post_table_ok (T : post_table) : bool :=
  match pt_unknown T with [] => true | _ => false end
  && convert_ok T && newbatch_ok T && typecodes_ok T
  && list_eqb (pt_catx T) [ "ATX"; "CTX" ]
  && list_eqb (pt_dates T) known_date_layouts
  && date_fields_ok T
  && list_eqb (pt_batch_steps T) known_batch_steps
  && list_eqb (pt_iat_steps T) known_iat_steps
  && list_eqb (pt_stages T) known_stages
  && match pt_adv_category T with [ ("Addenda99", "Forward") ] => true | _ => false end.

(* ConvertBatchType as a function of the SEC code *)
Definition convert_type (T : post_table) (sec : string) : string :=
  match assoc sec (pt_convert T) with Some t => t | None => pt_convert_default T end.

Lemma convert_type_sound T sec :
  convert_ok T = true ->
  convert_type T sec = (if existsb (fun p => String.eqb sec (fst p)) (pt_convert T) then "Batch" ++ sec else "Batch").
Proof.
  unfold convert_ok, convert_type. intros H.
  apply andb_prop in H as [H Hd]. apply andb_prop in H as [_ H]. apply String.eqb_eq in Hd.
  induction (pt_convert T) as [|[a b] l IH]; cbn; [exact Hd|].
  cbn in H. apply andb_prop in H as [Hab Hl]. cbn in Hab. apply String.eqb_eq in Hab.
  destruct (String.eqb sec a) eqn:E.
  - apply String.eqb_eq in E. subst. reflexivity.
  - cbn. apply IH. exact Hl.
Qed.

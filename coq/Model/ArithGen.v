(* C03, the general statements (phase 2): what the control fields of an accepted
   batch equal for ARBITRARY routing-number strings and ARBITRARY mixes of
   transaction codes — the exact relations the code satisfies, of which the
   `_partial` theorems of Props/C03.v are corollaries.  Definitions only (the
   executable ones are extracted for the correspondence check, Extract/C03X.v). *)
From ACH Require Export ArithSpec.
Open Scope Z_scope.

(* ---- entry hash --------------------------------------------------------- *)

(* the summand of Batch.calculateEntryHash for one entry: Atoi(aba8(RDFI)) with
   the error discarded *)
Definition aba8_num (e : entry) : Z := atoi (aba8 (en_rdfi e)).

(* what calculateEntryHash computes (Go: `%` truncates toward zero) *)
Definition gen_hash (es : list entry) : Z := Z.rem (sumz aba8_num es) (10 ^ 10).

(* closed form of the summand for a string of digits, by its length: 8 or 9
   digits count with their first eight digits; ten digits starting with 0 or 1
   with the digits 2..9; every other length counts as zero *)
Definition aba8_digits_num (r : bytes) : Z :=
  match length r with
  | 8%nat | 9%nat => digits_val (firstn 8 r) 0
  | 10%nat => match r with
              | b :: t => if (b =? 48)%N || (b =? 49)%N then digits_val (firstn 8 t) 0 else 0
              | [] => 0
              end
  | _ => 0
  end.

(* a routing number stored as 8 or 9 digits (9 = with its check digit) *)
Definition digits89 (s : bytes) : Prop :=
  (length s = 8%nat \/ length s = 9%nat) /\ forallb is_digit s = true.
Definition rdfi_89 (e : entry) : Prop := digits89 (en_rdfi e).

(* ---- totals ------------------------------------------------------------- *)

(* the ADV accounting codes (Credit/Debit For ... Originated/Received/Rejected/Summary) *)
Definition adv_code (c : Z) : bool := (81 <=? c) && (c <=? 88).

(* a code that is accepted by the entry's Validate but belongs to the other
   family: an ADV accounting code in an IAT batch, any other code in an ADV batch.
   (Standard batches refuse the ADV codes: ValidTranCodeForServiceClassCode.) *)
Definition foreign (k : kind) (c : Z) : bool :=
  match k with
  | KStd => false
  | KIAT => adv_code c
  | KADV => negb (adv_code c)
  end.

Definition gen_is_credit (k : kind) (c : Z) : bool := negb (foreign k c) && spec_is_credit k c.
Definition gen_is_debit (k : kind) (c : Z) : bool := negb (foreign k c) && spec_is_debit k c.

Definition gen_credit (k : kind) (es : list entry) : Z := sum_where (fun e => gen_is_credit k (en_code e)) es.
Definition gen_debit (k : kind) (es : list entry) : Z := sum_where (fun e => gen_is_debit k (en_code e)) es.
(* the amounts that are in neither total *)
Definition foreign_amount (k : kind) (es : list entry) : Z := sum_where (fun e => foreign k (en_code e)) es.

(* the first switch of ValidTranCodeForServiceClassCode lists exactly 81..88
   (checked on the regenerated table over the 100 two digit codes) *)
Definition advcodes_ok (T : tables) : bool :=
  forallb (fun c => Bool.eqb (memz c (t_advcodes T)) (adv_code c)) (map Z.of_nat (seq 0 100)).

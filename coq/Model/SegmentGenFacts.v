(* Phase 3, C11: proofs about the general SegmentFile statements.
   A. batch numbers: every batch SegmentFile puts into an output carries the number of the
      input batch it comes from, so for EVERY file that passes validation the numbers of both
      outputs are ascending (numbers_ok) and SegmentFile succeeds.
   B. AddBatch bookkeeping: ReturnEntries / NotificationOfChange of an output are exactly its
      batches of that category (same positions = same pointers, also after File.Create), and
      for category-uniform batches the two outputs' lists together hold the input's entries.
   C. a file accepted by the validator model Arith (through the abstraction s_file of
      ValidSegment) passes the validation gate of the Segment model. *)
From Coq Require Import ZArith NArith List Bool Lia Permutation.
Import ListNotations.
From ACH Require Import ValidOut ValidOutFacts.
From ACH Require Import Bytes TxCodes RevTable SegTable Segment SegmentFacts SegmentSuccess SegmentGen.
From ACH Require Import ValidSegment ValidSegmentFacts.
Open Scope Z_scope.

(* ================================================================ A. batch numbers *)

Lemma fresh_shape amt adv scc num id es :
  fresh amt adv scc num id es = [] \/ exists y, fresh amt adv scc num id es = [y] /\ sb_num y = num.
Proof. destruct es as [|e r]; [now left|]. right. eexists. split; [reflexivity|reflexivity]. Qed.

(* one input batch contributes at most one batch to an output, with its own number *)
Lemma part_shape T cr b : part T cr b = [] \/ exists y, part T cr b = [y] /\ sb_num y = sb_num b.
Proof.
  unfold part. destruct (sb_adv b).
  - destruct (sb_scc b =? 280); [apply fresh_shape|now left].
  - destruct (scc_lookup (st_scc_std T) (sb_scc b)) as [[c d| | |]|]; try (now left).
    + apply fresh_shape.
    + destruct cr; [right; now exists b|now left].
    + destruct cr; [now left|right; now exists b].
Qed.

Lemma ascending_weaken last n ns : last <= n -> ascending n ns = true -> ascending last ns = true.
Proof.
  intros Hl H. destruct ns as [|m r]; [reflexivity|]. cbn [ascending] in *.
  apply andb_prop in H as [H1 H2]. rewrite H2, andb_true_r. apply Z.ltb_lt. apply Z.ltb_lt in H1. lia.
Qed.

Lemma parts_ascending T cr bs : forall last,
  ascending last (map sb_num bs) = true -> ascending last (map sb_num (flat_map (part T cr) bs)) = true.
Proof.
  induction bs as [|b r IH]; intros last H; [reflexivity|].
  cbn [map ascending] in H. apply andb_prop in H as [H1 H2]. cbn [flat_map].
  destruct (part_shape T cr b) as [->|(y & -> & Hy)].
  - cbn [app]. apply IH. apply (ascending_weaken last (sb_num b)); [apply Z.ltb_lt in H1; lia|exact H2].
  - cbn [app map ascending]. rewrite Hy, H1. cbn [andb]. now apply IH.
Qed.

Lemma parts_sublist T cr bs : sublist (map sb_num (flat_map (part T cr) bs)) (map sb_num bs).
Proof.
  induction bs as [|b r IH]; [exact I|]. cbn [flat_map].
  destruct (part_shape T cr b) as [->|(y & -> & Hy)]; cbn [app map].
  - destruct (map sb_num (flat_map (part T cr) r)) as [|x l] eqn:E; [exact I|]. cbn [sublist]. right. exact IH.
  - cbn [sublist]. left. split; [exact Hy|exact IH].
Qed.

(* above 1 File.Create renumbers nothing *)
Lemma renumber_above ys : forall s n, 1 <= n -> ascending n (map sb_num ys) = true -> renumber s ys = ys.
Proof.
  induction ys as [|y r IH]; intros s n Hn H; [reflexivity|].
  cbn [map ascending] in H. apply andb_prop in H as [H1 H2]. apply Z.ltb_lt in H1.
  cbn [renumber]. replace (sb_num y <=? 1) with false by (symmetry; apply Z.leb_gt; lia).
  f_equal. apply (IH _ (sb_num y)); [lia|exact H2].
Qed.

(* ascending positive numbers are what File.Create leaves *)
Lemma renumber_ascending_nums ys : ascending 0 (map sb_num ys) = true ->
  map sb_num (renumber 1 ys) = map sb_num ys.
Proof.
  destruct ys as [|y r]; [reflexivity|]. intros H. cbn [map ascending] in H.
  apply andb_prop in H as [H1 H2]. apply Z.ltb_lt in H1. cbn [renumber map].
  rewrite (renumber_above r _ (sb_num y)); [|lia|exact H2]. f_equal.
  destruct (sb_num y <=? 1) eqn:E; [|reflexivity]. apply Z.leb_le in E. cbn [sb_num]. lia.
Qed.

Lemma validate_std_facts T f : validate T f = None -> is_adv_file (sf_batches f) = false ->
  forallb (batch_ok T) (sf_batches f) = true /\ ascending 0 (map sb_num (sf_batches f)) = true.
Proof.
  unfold validate. intros H Ha. rewrite Ha in H.
  destruct (forallb (batch_ok T) (sf_batches f)); [|discriminate]. cbn [negb] in H.
  destruct (negb _) in H; [discriminate|].
  destruct (ascending 0 (map sb_num (sf_batches f))); [now split|discriminate].
Qed.

(* the side condition of C11_succeeds_partial holds for every file that passes validation *)
Theorem numbers_ok_valid T f : validate T f = None -> numbers_ok T f = true.
Proof.
  intros Hv. unfold numbers_ok. destruct (is_adv_file (sf_batches f)) eqn:Ea; [reflexivity|]. cbn [orb].
  destruct (validate_std_facts T f Hv Ea) as [_ Hasc].
  assert (H : forall cr, ascending 0 (map sb_num (renumber 1 (flat_map (part T cr) (sf_batches f)))) = true).
  { intros cr. pose proof (parts_ascending T cr _ 0 Hasc) as P. now rewrite (renumber_ascending_nums _ P). }
  now rewrite !H.
Qed.

Section Success.
  Variable T : stables.
  Hypothesis HT : seg_tables_ok T = true.

  (* every file: validation + the generator-side conditions on what validation does not read *)
  Theorem segment_succeeds_all f :
    validate T f = None -> input_wf T f = true -> exists cf df, segment T f = SOk cf df.
  Proof. intros Hv Hw. apply (segment_succeeds T HT f Hv Hw). now apply numbers_ok_valid. Qed.

  Lemma batch_ok_not_adv b : batch_ok T b = true -> sb_adv b = false.
  Proof.
    unfold batch_ok. intros H. apply andb_prop in H as [H _]. apply andb_prop in H as [H _]. now destruct (sb_adv b).
  Qed.

  Lemma std_outputs f cr : forallb (batch_ok T) (sf_batches f) = true ->
    forall y, In y (flat_map (part T cr) (sf_batches f)) -> batch_ok T y = true.
  Proof.
    intros Hb y Hy. apply in_flat_map in Hy as (b & Hin & Hy). rewrite forallb_forall in Hb.
    exact (part_batch_ok T HT cr b y (Hb b Hin) Hy).
  Qed.

  Lemma std_uniform f cr (is : list sbatch) : forallb (batch_ok T) (sf_batches f) = true ->
    uniform (flat_map (part T cr) (sf_batches f)) is.
  Proof.
    intros Hb. right. apply forallb_forall. intros y Hy.
    now rewrite (batch_ok_not_adv y (std_outputs f cr Hb y Hy)).
  Qed.

  (* a non-ADV file: NOTHING but File.Validate is needed — the IAT batches may be anything *)
  Theorem segment_succeeds_std f :
    validate T f = None -> is_adv_file (sf_batches f) = false -> exists cf df, segment T f = SOk cf df.
  Proof.
    intros Hv Ha. destruct (validate_std_facts T f Hv Ha) as [Hb Hasc].
    assert (Hout : forall cr, exists g, finish T (sf_origin f) (sf_dest f)
                          (flat_map (part T cr) (sf_batches f)) (flat_map (ipart T cr) (sf_iat f)) = inl g).
    { intros cr. apply finish_succeeds.
      - now apply std_uniform.
      - intros y Hy. right. exact (std_outputs f cr Hb y Hy).
      - intros _. pose proof (parts_ascending T cr _ 0 Hasc) as P. now rewrite (renumber_ascending_nums _ P). }
    destruct (Hout true) as (cf & Ec). destruct (Hout false) as (df & Ed).
    exists cf, df. unfold segment. rewrite Hv, Ec, Ed. reflexivity.
  Qed.

  (* what the outputs' batch lists are *)
  Lemma finish_batches o d bs is g : uniform bs is -> finish T o d bs is = inl g -> sf_batches g = renumber 1 bs.
  Proof.
    intros Hu H. destruct (finish_inv T o d bs is g H) as [(-> & -> & ->)|(Hc & _)]; [reflexivity|].
    destruct (create_uniform o d bs is Hu) as (g' & m & Hc' & _ & _ & Hb & _). rewrite Hc in Hc'. injection Hc' as <-. exact Hb.
  Qed.

  Lemma segment_batches f cf df : input_wf T f = true -> segment T f = SOk cf df ->
    sf_batches cf = renumber 1 (flat_map (part T true) (sf_batches f)) /\
    sf_batches df = renumber 1 (flat_map (part T false) (sf_batches f)).
  Proof.
    intros Hw Hs. unfold segment in Hs. destruct (validate T f) eqn:Ev; [discriminate|].
    destruct (input_cases T HT f Ev Hw) as (HB & _ & _ & _ & Hu).
    assert (Same : forall cr b x, In b (sf_batches f) -> In x (part T cr b) -> sb_adv x = sb_adv b).
    { intros cr b x Hb Hx. pose proof (part_ok T HT b (HB b Hb)) as P.
      apply (ps_same _ _ _ _ P). apply in_or_app. destruct cr; auto. }
    destruct (finish T (sf_origin f) (sf_dest f) (flat_map (part T true) (sf_batches f)) (flat_map (ipart T true) (sf_iat f))) as [c|] eqn:Ec; [|discriminate].
    destruct (finish T (sf_origin f) (sf_dest f) (flat_map (part T false) (sf_batches f)) (flat_map (ipart T false) (sf_iat f))) as [dd|] eqn:Ed; [|discriminate].
    injection Hs as <- <-. split.
    - apply (finish_batches _ _ _ _ _ (out_uniform _ _ _ _ Hu (Same true)) Ec).
    - apply (finish_batches _ _ _ _ _ (out_uniform _ _ _ _ Hu (Same false)) Ed).
  Qed.

  (* the standard batches of both outputs carry the numbers of the batches they come from *)
  Theorem segment_numbers f cf df :
    is_adv_file (sf_batches f) = false -> segment T f = SOk cf df ->
    map sb_num (sf_batches cf) = map sb_num (flat_map (part T true) (sf_batches f)) /\
    map sb_num (sf_batches df) = map sb_num (flat_map (part T false) (sf_batches f)) /\
    sublist (map sb_num (sf_batches cf)) (map sb_num (sf_batches f)) /\
    sublist (map sb_num (sf_batches df)) (map sb_num (sf_batches f)).
  Proof.
    intros Ha Hs. pose proof Hs as Hs0. unfold segment in Hs. destruct (validate T f) eqn:Ev; [discriminate|].
    destruct (validate_std_facts T f Ev Ha) as [Hb Hasc].
    destruct (finish T (sf_origin f) (sf_dest f) (flat_map (part T true) (sf_batches f)) (flat_map (ipart T true) (sf_iat f))) as [c|] eqn:Ec; [|discriminate].
    destruct (finish T (sf_origin f) (sf_dest f) (flat_map (part T false) (sf_batches f)) (flat_map (ipart T false) (sf_iat f))) as [dd|] eqn:Ed; [|discriminate].
    injection Hs as <- <-.
    pose proof (finish_batches _ _ _ _ _ (std_uniform f true _ Hb) Ec) as Bc.
    pose proof (finish_batches _ _ _ _ _ (std_uniform f false _ Hb) Ed) as Bd.
    assert (Nc : map sb_num (sf_batches c) = map sb_num (flat_map (part T true) (sf_batches f)))
      by (rewrite Bc; apply renumber_ascending_nums, parts_ascending, Hasc).
    assert (Nd : map sb_num (sf_batches dd) = map sb_num (flat_map (part T false) (sf_batches f)))
      by (rewrite Bd; apply renumber_ascending_nums, parts_ascending, Hasc).
    repeat split; try assumption.
    - rewrite Nc. apply parts_sublist.
    - rewrite Nd. apply parts_sublist.
  Qed.
  Lemma segment_batches_std f cf df :
    is_adv_file (sf_batches f) = false -> segment T f = SOk cf df ->
    sf_batches cf = renumber 1 (flat_map (part T true) (sf_batches f)) /\
    sf_batches df = renumber 1 (flat_map (part T false) (sf_batches f)).
  Proof.
    intros Ha Hs. unfold segment in Hs. destruct (validate T f) eqn:Ev; [discriminate|].
    destruct (validate_std_facts T f Ev Ha) as [Hb _].
    destruct (finish T (sf_origin f) (sf_dest f) (flat_map (part T true) (sf_batches f)) (flat_map (ipart T true) (sf_iat f))) as [c|] eqn:Ec; [|discriminate].
    destruct (finish T (sf_origin f) (sf_dest f) (flat_map (part T false) (sf_batches f)) (flat_map (ipart T false) (sf_iat f))) as [dd|] eqn:Ed; [|discriminate].
    injection Hs as <- <-. split.
    - exact (finish_batches _ _ _ _ _ (std_uniform f true _ Hb) Ec).
    - exact (finish_batches _ _ _ _ _ (std_uniform f false _ Hb) Ed).
  Qed.
End Success.

(* ================================================================ B. AddBatch bookkeeping *)

Section Lists.
  Variable cat : N -> category.

  Local Notation is_ret := (is_ret cat).
  Local Notation is_noc := (is_noc cat).

  Lemma fold_add_batch ys : forall pre R N,
    fold_left (add_batch cat) ys (mkbl pre R N) =
    mkbl (pre ++ ys) (R ++ positions is_ret (length pre) ys) (N ++ positions is_noc (length pre) ys).
  Proof.
    induction ys as [|y r IH]; intros pre R N.
    - cbn [fold_left positions]. now rewrite !app_nil_r.
    - cbn [fold_left]. unfold add_batch at 2. cbn [bl_batches bl_ret bl_noc]. rewrite IH.
      rewrite app_length. cbn [length]. rewrite Nat.add_1_r. rewrite <- app_assoc. cbn [app positions].
      destruct (is_ret y), (is_noc y); rewrite <- ?app_assoc; reflexivity.
  Qed.

  Lemma built_batches bs : bl_batches (built cat bs) = bs.
  Proof. unfold built, bl_empty. now rewrite fold_add_batch. Qed.

  (* the batches handed to AddBatch for one output are the batch list of the Segment model *)
  Lemma walk_batches T cr bs : bl_batches (walk cat T cr bs) = flat_map (part T cr) bs.
  Proof. unfold walk, bl_empty. now rewrite fold_add_batch. Qed.

  Lemma sel_positions (p : sbatch -> bool) ys ys' : Forall2 (fun a b => p a = p b) ys ys' ->
    forall pre, sel (pre ++ ys') (positions p (length pre) ys) = filter p ys'.
  Proof.
    induction 1 as [|a b l l' Hab _ IH]; intros pre; [reflexivity|].
    assert (E : pre ++ b :: l' = (pre ++ [b]) ++ l') by (now rewrite <- app_assoc).
    assert (L : S (length pre) = length (pre ++ [b])) by (rewrite app_length; cbn [length]; lia).
    cbn [positions filter]. rewrite <- Hab. destruct (p a).
    - unfold sel. cbn [flat_map]. rewrite nth_error_app2 by lia. rewrite Nat.sub_diag. cbn [nth_error app].
      f_equal. rewrite E, L. apply IH.
    - rewrite E, L. apply IH.
  Qed.

  Lemma Forall2_same {A} (R : A -> A -> Prop) l : (forall x, R x x) -> Forall2 R l l.
  Proof. intros H. induction l; constructor; auto. Qed.

  Lemma renumber_cat (p : sbatch -> bool) ys :
    (forall a b, sb_entries a = sb_entries b -> p a = p b) ->
    forall s, Forall2 (fun a b => p a = p b) ys (renumber s ys).
  Proof.
    intros Hp. induction ys as [|y r IH]; intros s; [constructor|].
    cbn [renumber]. constructor; [|apply IH]. apply Hp. now destruct (sb_num y <=? 1).
  Qed.

  Lemma is_ret_entries a b : sb_entries a = sb_entries b -> is_ret a = is_ret b.
  Proof. unfold SegmentGen.is_ret, batch_cat. now intros ->. Qed.
  Lemma is_noc_entries a b : sb_entries a = sb_entries b -> is_noc a = is_noc b.
  Proof. unfold SegmentGen.is_noc, batch_cat. now intros ->. Qed.

  (* a file built with AddBatch: the two lists are its batches of that category, in order *)
  Theorem built_lists bs :
    sel bs (bl_ret (built cat bs)) = filter is_ret bs /\ sel bs (bl_noc (built cat bs)) = filter is_noc bs.
  Proof.
    unfold built, bl_empty. rewrite fold_add_batch. cbn [bl_ret bl_noc app length]. split.
    - apply (sel_positions is_ret bs bs (Forall2_same _ _ (fun x => eq_refl)) []).
    - apply (sel_positions is_noc bs bs (Forall2_same _ _ (fun x => eq_refl)) []).
  Qed.

  Section Seg.
    Variable T : stables.
    Hypothesis HT : seg_tables_ok T = true.

    (* the lists of either output, read through the positions AFTER File.Create, are exactly
       the output's batches whose own Category() is Return / NOC *)
    Theorem output_lists f gc gd : input_wf T f = true -> segment_gen cat T f = GOk gc gd ->
      g_returns gc = filter is_ret (sf_batches (g_file gc)) /\ g_nocs gc = filter is_noc (sf_batches (g_file gc)) /\
      g_returns gd = filter is_ret (sf_batches (g_file gd)) /\ g_nocs gd = filter is_noc (sf_batches (g_file gd)).
    Proof.
      intros Hw Hs. unfold segment_gen in Hs. destruct (segment T f) as [cf df|] eqn:Es; [|discriminate].
      injection Hs as <- <-. destruct (segment_batches T HT f cf df Hw Es) as [Bc Bd].
      unfold g_returns, g_nocs, walk, bl_empty. cbn [g_file g_ret g_noc]. rewrite !fold_add_batch. cbn [bl_ret bl_noc app length].
      rewrite Bc, Bd. repeat split.
      - apply (sel_positions is_ret _ _ (renumber_cat is_ret _ is_ret_entries 1) []).
      - apply (sel_positions is_noc _ _ (renumber_cat is_noc _ is_noc_entries 1) []).
      - apply (sel_positions is_ret _ _ (renumber_cat is_ret _ is_ret_entries 1) []).
      - apply (sel_positions is_noc _ _ (renumber_cat is_noc _ is_noc_entries 1) []).
    Qed.

    (* ---- union of the two halves' lists = the input's, for category-uniform batches *)

    Lemma first_special_uniform c es :
      (forall e, In e es -> scat (ecat cat e) = c) -> es <> [] -> first_special cat es = c.
    Proof.
      induction es as [|e r IH]; intros H Hne; [congruence|].
      pose proof (H e (or_introl eq_refl)) as He. cbn [first_special].
      destruct (ecat cat e) eqn:E; cbn [scat] in He; try exact He;
        (destruct r as [|e2 r2]; [exact He|apply IH; [intros x Hx; apply H; now right|discriminate]]).
    Qed.

    Lemma cat_uniform_spec b : cat_uniform cat b = true ->
      forall e, In e (sb_entries b) -> scat (ecat cat e) = batch_cat cat b.
    Proof.
      unfold cat_uniform. intros H e He. rewrite forallb_forall in H. specialize (H e He).
      destruct (scat (ecat cat e)), (batch_cat cat b); cbn in H; try reflexivity; discriminate.
    Qed.

    (* a half of a uniform batch answers Category() like the batch *)
    Lemma part_cat cr b y : cat_uniform cat b = true -> In y (part T cr b) -> batch_cat cat y = batch_cat cat b.
    Proof.
      intros Hu Hy. pose proof (cat_uniform_spec b Hu) as Hall.
      assert (Hsub : forall amt adv scc num id p, In y (fresh amt adv scc num id (filter p (sb_entries b))) ->
                     batch_cat cat y = batch_cat cat b).
      { intros amt adv scc num id p Hf. apply fresh_In in Hf as (He & _ & _ & _ & _ & _ & Hne).
        unfold batch_cat at 1. rewrite He. apply first_special_uniform; [|exact Hne].
        intros e Hin. apply filter_In in Hin as [Hin _]. now apply Hall. }
      unfold part in Hy. destruct (sb_adv b).
      - destruct (sb_scc b =? 280); [now apply Hsub in Hy|destruct Hy].
      - destruct (scc_lookup (st_scc_std T) (sb_scc b)) as [[c d| | |]|]; try (destruct Hy; fail).
        + now apply Hsub in Hy.
        + destruct cr; [|destruct Hy]. destruct Hy as [<-|[]]. reflexivity.
        + destruct cr; [destruct Hy|]. destruct Hy as [<-|[]]. reflexivity.
    Qed.

    Lemma filter_parts (p : sbatch -> bool) cr bs :
      (forall b y, In b bs -> In y (part T cr b) -> p y = p b) ->
      filter p (flat_map (part T cr) bs) = flat_map (fun b => if p b then part T cr b else []) bs.
    Proof.
      induction bs as [|b r IH]; intros H; [reflexivity|].
      cbn [flat_map]. rewrite filter_app, IH by (intros x y Hx Hy; apply (H x y); [now right|exact Hy]). f_equal.
      assert (Hb : forall y, In y (part T cr b) -> p y = p b) by (intros y Hy; apply (H b y); [now left|exact Hy]).
      destruct (p b) eqn:E.
      - induction (part T cr b) as [|y l IHl]; [reflexivity|]. cbn [filter].
        rewrite (Hb y (or_introl eq_refl)). f_equal. apply IHl. intros z Hz. apply Hb. now right.
      - induction (part T cr b) as [|y l IHl]; [reflexivity|]. cbn [filter].
        rewrite (Hb y (or_introl eq_refl)). apply IHl. intros z Hz. apply Hb. now right.
    Qed.

    Lemma ids_filter (p : sbatch -> bool) bs :
      ids_of (filter p bs) = flat_map (fun b => if p b then map e_id (sb_entries b) else []) bs.
    Proof.
      induction bs as [|b r IH]; [reflexivity|]. cbn [filter flat_map]. destruct (p b).
      - unfold ids_of in *. cbn [flat_map]. now rewrite IH.
      - exact IH.
    Qed.

    Lemma ids_filter_renumber (p : sbatch -> bool) ys :
      (forall a b, sb_entries a = sb_entries b -> p a = p b) ->
      forall s, ids_of (filter p (renumber s ys)) = ids_of (filter p ys).
    Proof.
      intros Hp. induction ys as [|y r IH]; intros s; [reflexivity|]. cbn [renumber filter].
      set (y' := if sb_num y <=? 1 then _ else y).
      assert (Ee : sb_entries y' = sb_entries y) by (unfold y'; now destruct (sb_num y <=? 1)).
      rewrite (Hp y' y Ee). destruct (p y).
      - unfold ids_of in *. cbn [flat_map]. now rewrite Ee, IH.
      - apply IH.
    Qed.

    Lemma union_of (p : sbatch -> bool) bs :
      (forall a b, sb_entries a = sb_entries b -> p a = p b) ->
      (forall cr b y, In b bs -> In y (part T cr b) -> p y = p b) ->
      (forall b, In b bs -> bwf T (kind_of b) b) ->
      Permutation (ids_of (filter p (renumber 1 (flat_map (part T true) bs)))
                   ++ ids_of (filter p (renumber 1 (flat_map (part T false) bs))))
                  (ids_of (filter p bs)).
    Proof.
      intros Hp Hparts HB. rewrite !(ids_filter_renumber p _ Hp).
      rewrite (filter_parts p true bs (Hparts true)), (filter_parts p false bs (Hparts false)), ids_filter.
      apply (perm_flat_map (fun b => if p b then part T true b else []) (fun b => if p b then part T false b else [])).
      intros b Hb. destruct (p b); [|constructor].
      apply (ps_perm _ _ _ _ (part_ok T HT b (HB b Hb))).
    Qed.

    (* the entries of the batches in ReturnEntries (NotificationOfChange) of the credit and the
       debit file together are the entries of the batches in the input's list *)
    Theorem lists_union f gc gd :
      input_wf T f = true -> forallb (cat_uniform cat) (sf_batches f) = true ->
      segment_gen cat T f = GOk gc gd ->
      let inp := built cat (sf_batches f) in
      Permutation (ids_of (g_returns gc) ++ ids_of (g_returns gd)) (ids_of (sel (sf_batches f) (bl_ret inp))) /\
      Permutation (ids_of (g_nocs gc) ++ ids_of (g_nocs gd)) (ids_of (sel (sf_batches f) (bl_noc inp))).
    Proof.
      intros Hw Hu Hs inp. destruct (output_lists f gc gd Hw Hs) as (R1 & N1 & R2 & N2).
      destruct (built_lists (sf_batches f)) as [BR BN]. subst inp. rewrite R1, N1, R2, N2, BR, BN.
      unfold segment_gen in Hs. destruct (segment T f) as [cf df|] eqn:Es; [|discriminate].
      injection Hs as <- <-. cbn [g_file].
      destruct (segment_batches T HT f cf df Hw Es) as [-> ->].
      assert (Ev : validate T f = None) by (unfold segment in Es; destruct (validate T f); [discriminate|reflexivity]).
      destruct (input_cases T HT f Ev Hw) as (HB & _).
      rewrite forallb_forall in Hu.
      split; apply union_of; try exact HB.
      - exact is_ret_entries.
      - intros cr b y Hb Hy. unfold SegmentGen.is_ret. now rewrite (part_cat cr b y (Hu b Hb) Hy).
      - exact is_noc_entries.
      - intros cr b y Hb Hy. unfold SegmentGen.is_noc. now rewrite (part_cat cr b y (Hu b Hb) Hy).
    Qed.
    (* ---- isCategory inside validation: success with categories *)

    Lemma cat_eqb_eq a b : cat_eqb a b = true <-> a = b.
    Proof. destruct a, b; cbn; split; intros H; try reflexivity; discriminate. Qed.

    Lemma cat_eqb_refl a : cat_eqb a a = true.
    Proof. now destruct a. Qed.

    Lemma scat_noc c : scat c = CNOC -> c = CNOC.
    Proof. destruct c; cbn; intros H; try reflexivity; discriminate. Qed.

    (* a batch isCategory accepts and whose entries agree on Category(): all labels are equal *)
    Lemma uniform_ok_all_equal b : is_category_ok cat b = true -> cat_uniform cat b = true ->
      forall e e', In e (sb_entries b) -> In e' (sb_entries b) -> ecat cat e = ecat cat e'.
    Proof.
      intros Hok Hu. pose proof (cat_uniform_spec b Hu) as Hall.
      unfold is_category_ok in Hok. destruct (sb_entries b) as [|e0 r] eqn:Ees; [intros e e' []|].
      assert (Hfirst : forall e, In e (e0 :: r) -> ecat cat e = ecat cat e0).
      { destruct r as [|e1 r1]; [intros e [<-|[]]; reflexivity|].
        intros e He. rewrite forallb_forall in Hok. specialize (Hok e He).
        apply orb_prop in Hok as [Hn|Hq]; [|now apply cat_eqb_eq].
        apply cat_eqb_eq in Hn. rewrite Hn.
        pose proof (Hall e He) as H1. pose proof (Hall e0 (or_introl eq_refl)) as H0.
        rewrite Hn in H1. cbn [scat] in H1. rewrite <- H1 in H0. symmetry. now apply scat_noc. }
      intros e e' He He'. now rewrite (Hfirst e He), (Hfirst e' He').
    Qed.

    Lemma all_equal_ok b : (forall e e', In e (sb_entries b) -> In e' (sb_entries b) -> ecat cat e = ecat cat e') ->
      is_category_ok cat b = true.
    Proof.
      intros H. unfold is_category_ok. destruct (sb_entries b) as [|e0 r] eqn:E; [reflexivity|].
      destruct r as [|e1 r1]; [reflexivity|]. apply forallb_forall. intros e He.
      rewrite (H e e0 He (or_introl eq_refl)), cat_eqb_refl. apply orb_true_r.
    Qed.

    Lemma is_category_ok_entries a b : sb_entries a = sb_entries b -> is_category_ok cat a = is_category_ok cat b.
    Proof. unfold is_category_ok. now intros ->. Qed.

    (* what one batch hands over: itself, or a fresh batch holding a sub-list of its entries *)
    Lemma part_entries cr b y : In y (part T cr b) ->
      y = b \/ exists p, sb_entries y = filter p (sb_entries b).
    Proof.
      intros Hy.
      assert (Hsub : forall amt adv scc num id p, In y (fresh amt adv scc num id (filter p (sb_entries b))) ->
                     exists q, sb_entries y = filter q (sb_entries b)).
      { intros amt adv scc num id p Hf. apply fresh_In in Hf as (He & _). now exists p. }
      unfold part in Hy. destruct (sb_adv b).
      - destruct (sb_scc b =? 280); [right; now apply Hsub in Hy|destruct Hy].
      - destruct (scc_lookup (st_scc_std T) (sb_scc b)) as [[c d| | |]|]; try (destruct Hy; fail).
        + right. now apply Hsub in Hy.
        + destruct cr; [|destruct Hy]. destruct Hy as [<-|[]]. now left.
        + destruct cr; [destruct Hy|]. destruct Hy as [<-|[]]. now left.
    Qed.

    Lemma validate_cat_facts f : validate_cat cat T f = None -> is_adv_file (sf_batches f) = false ->
      validate T f = None /\ forallb (is_category_ok cat) (sf_batches f) = true.
    Proof.
      unfold validate_cat. intros H Ha. rewrite Ha in H.
      destruct (forallb (fun b => batch_ok T b && is_category_ok cat b) (sf_batches f)) eqn:E; [|discriminate].
      split; [exact H|]. apply forallb_forall. intros b Hb. rewrite forallb_forall in E.
      specialize (E b Hb). now apply andb_prop in E as [_ E].
    Qed.

    Lemma segment_cat_ok f gc gd : segment_cat cat T f = GOk gc gd -> segment_gen cat T f = GOk gc gd.
    Proof.
      unfold segment_cat. destruct (validate_cat cat T f); [discriminate|].
      destruct (segment_gen cat T f) as [c d|]; [|discriminate].
      destruct (cats_ok cat (sf_batches (g_file c)) && cats_ok cat (sf_batches (g_file d))); [|discriminate].
      now intros H.
    Qed.

    (* SegmentFile with the category check succeeds for every valid non-ADV file whose batches
       are category-uniform *)
    Theorem segment_cat_succeeds f :
      validate_cat cat T f = None -> is_adv_file (sf_batches f) = false ->
      forallb (cat_uniform cat) (sf_batches f) = true ->
      exists gc gd, segment_cat cat T f = GOk gc gd.
    Proof.
      intros Hvc Ha Hu. destruct (validate_cat_facts f Hvc Ha) as [Hv Hok].
      destruct (segment_succeeds_std T HT f Hv Ha) as (cf & df & Hs).
      destruct (segment_batches_std T HT f cf df Ha Hs) as [Bc Bd].
      assert (Hout : forall cr, forallb (is_category_ok cat) (renumber 1 (flat_map (part T cr) (sf_batches f))) = true).
      { intros cr. apply forallb_forall. intros x Hx. destruct (renumber_In _ _ _ Hx) as (y & Hy & He & _).
        rewrite (is_category_ok_entries x y He). apply in_flat_map in Hy as (b & Hb & Hy).
        rewrite forallb_forall in Hok, Hu.
        destruct (part_entries cr b y Hy) as [->|(p & Hp)]; [now apply Hok|].
        apply all_equal_ok. intros e e' H1 H2. rewrite Hp in H1, H2.
        apply filter_In in H1 as [H1 _]. apply filter_In in H2 as [H2 _].
        exact (uniform_ok_all_equal b (Hok b Hb) (Hu b Hb) e e' H1 H2). }
      eexists _, _. unfold segment_cat. rewrite Hvc. unfold segment_gen. rewrite Hs. cbn [g_file].
      unfold cats_ok. rewrite Bc, Bd, !Hout, !orb_true_r. reflexivity.
    Qed.
  End Seg.
End Lists.

(* ================================================================ C. Arith-valid ==> the Segment gate *)

(* every code EntryDetail.Validate accepts, other than the ADV codes ValidTranCodeForServiceClassCode
   refuses, is a standard entry code of the segment tables *)
Definition seg_codes_agree (A : AR.tables) (T : stables) : bool :=
  forallb (fun c => implb (negb (AR.memz c (AR.t_advcodes A))) (entry_code (st_codes T) c)) (AR.t_codes A).

Lemma cod_digit_credit c : AR.credit_or_debit c = 1 -> digit_dir c = TCredit.
Proof.
  unfold AR.credit_or_debit, digit_dir. destruct ((c <? 10) || (99 <? c)); [discriminate|].
  destruct ((1 <=? c mod 10) && (c mod 10 <=? 4)); [reflexivity|]. destruct (5 <=? c mod 10); discriminate.
Qed.

Lemma cod_digit_debit c : AR.credit_or_debit c = 2 -> digit_dir c = TDebit.
Proof.
  unfold AR.credit_or_debit, digit_dir. destruct ((c <? 10) || (99 <? c)); [discriminate|].
  destruct ((1 <=? c mod 10) && (c mod 10 <=? 4)); [discriminate|]. destruct (5 <=? c mod 10); [reflexivity|discriminate].
Qed.

Section ArithGate.
  Variables (A : AR.tables) (T : stables).
  Hypothesis HA : AT.tables_ok A = true.
  Hypothesis HT : seg_tables_ok T = true.
  Hypothesis HS : seg_tables_agree A T = true.
  Hypothesis HC : seg_codes_agree A T = true.
  Variables (ep : N -> N -> spay) (sp : N -> bytes).

  Local Notation amt := (st_amt_std T).
  Local Notation se := (s_entry ep).
  Local Notation sb := (s_batch A ep sp).

  (* the service class of a standard batch Batcher.Validate accepts *)
  Lemma valid_class b : AR.validate_batch A (sb b) = AR.ROk -> sb_scc b = 200 \/ sb_scc b = 220 \/ sb_scc b = 225.
  Proof.
    intros Hv.
    destruct (AF.verify_facts A _ (AF.validate_batch_verify A _ Hv)) as [Fne _ Fc _ _ _ _ _ _ _ _ _].
    unfold AR.validate_batch in Hv. cbn [s_batch s_batch_k AR.bt_kind] in Hv. apply andr_ok in Hv as [Hver Htc].
    unfold AR.validate_bctl in Fc. cbn [s_batch s_batch_k AR.bt_ctl AR.bc_class] in Fc. ok_split.
    destruct (AT.constants_sound A HA) as (_ & _ & _ & _ & Kmix & Kcr & Kdb & Kadv).
    destruct (AT.tables_ok_parts A HA) as (_ & _ & _ & _ & _ & Hk). unfold AT.constants_ok in Hk.
    apply andb_prop in Hk as [_ Hss]. unfold AT.same_set in Hss. apply andb_prop in Hss as [Hss _].
    rewrite forallb_forall in Hss.
    match goal with H : AR.memz (sb_scc b) _ = true |- _ => apply AT.memz_In in H; specialize (Hss _ H) end.
    apply AT.memz_In in Hss. cbn [In] in Hss. destruct Hss as [E|[E|[E|[E|[]]]]]; try (rewrite <- E; lia).
    (* 280 is refused by ValidTranCodeForServiceClassCode *)
    exfalso. apply first_fail_ok in Htc. cbn [s_batch s_batch_k AR.bt_entries] in Htc, Fne.
    destruct (map se (sb_entries b)) as [|x xs] eqn:Em; [congruence|]. inversion Htc as [|? ? Hx _]; subst.
    apply tran_code_split in Hx as [_ Hx]. unfold class_dir_ok in Hx. cbn [s_batch s_batch_k AR.bt_class] in Hx.
    rewrite <- E, Kadv, Z.eqb_refl in Hx. discriminate.
  Qed.

  Theorem arith_batch_ok b : sb_adv b = false -> AR.validate_batch A (sb b) = AR.ROk -> batch_ok T b = true.
  Proof.
    intros Hadv Hv. pose proof (valid_class b Hv) as Hcls.
    destruct (valid_std_entries A (sb b) eq_refl Hv) as [Hst Hdir].
    destruct (AF.verify_facts A _ (AF.validate_batch_verify A _ Hv)) as [Fne _ _ _ _ _ _ _ Fd Fcr _ _].
    cbn [s_batch s_batch_k AR.bt_kind AR.bt_class AR.bt_entries AR.bt_ctl AR.bc_debit AR.bc_credit] in *.
    destruct (sums_agree A T HS ep (sb_entries b)) as [Sc Sd].
    destruct (AT.constants_sound A HA) as (_ & _ & _ & _ & Kmix & Kcr & Kdb & Kadv).
    rewrite Forall_forall in Hst, Hdir.
    assert (Hcodes : forall e, In e (sb_entries b) -> entry_code (st_codes T) (e_code e) = true).
    { intros e He. specialize (Hst (se e) (in_map _ _ _ He)). apply entry_static_spec in Hst as [K1 K2].
      apply AF.validate_entry_facts in K1 as (Kc & _). cbn [s_entry AR.en_code] in Kc, K2.
      unfold seg_codes_agree in HC. rewrite forallb_forall in HC. apply AT.memz_In in Kc.
      specialize (HC _ Kc). rewrite K2 in HC. exact HC. }
    unfold batch_ok, ctl_wf, dir_wf. rewrite Hadv. cbn [negb andb].
    assert (Hne : match sb_entries b with [] => false | _ => true end = true).
    { destruct (sb_entries b); [cbn in Fne; congruence|reflexivity]. }
    rewrite Hne, Sc, Sd, Fcr, Fd, !Z.eqb_refl. cbn [andb].
    assert (Hall : forallb (fun e => entry_code (st_codes T) (e_code e)) (sb_entries b) = true) by (now apply forallb_forall).
    rewrite Hall, andb_true_r.
    assert (D : forall cls k t, sb_scc b = cls -> (cls =? 280) = false -> (cls =? 200) = false ->
                (forall e, class_dir_ok A cls (se e) = true -> AR.credit_or_debit (e_code e) = k) ->
                (forall c, AR.credit_or_debit c = k -> digit_dir c = t) -> all_dir t (sb_entries b) = true).
    { intros cls k t E _ _ Hk Hd. unfold all_dir. apply forallb_forall. intros e He.
      specialize (Hdir (se e) (in_map _ _ _ He)). rewrite E in Hdir. rewrite (Hd _ (Hk e Hdir)). now destruct t. }
    destruct Hcls as [E|[E|E]]; rewrite E; cbn [memz existsb Z.eqb Pos.eqb orb implb andb].
    - reflexivity.
    - rewrite (D 220 1 TCredit E eq_refl eq_refl); [reflexivity| |exact cod_digit_credit].
      intros e H. unfold class_dir_ok in H. rewrite Kadv, Kmix, Kcr in H. cbn in H. now apply Z.eqb_eq.
    - rewrite (D 225 2 TDebit E eq_refl eq_refl); [reflexivity| |exact cod_digit_debit].
      intros e H. unfold class_dir_ok in H. rewrite Kadv, Kmix, Kcr, Kdb in H. cbn in H. now apply Z.eqb_eq.
  Qed.

  Lemma s_numbers_conv bs : forall last, AR.numbers_ascending last (map sb bs) = true -> ascending last (map sb_num bs) = true.
  Proof.
    induction bs as [|b bs IH]; intros last H; cbn [map AR.numbers_ascending ascending] in *; [reflexivity|].
    change (AR.bt_number (sb b)) with (sb_num b) in H. destruct (sb_num b <=? last) eqn:E; [discriminate|].
    apply Z.leb_gt in E. replace (last <? sb_num b) with true by (symmetry; apply Z.ltb_lt; lia). now apply IH.
  Qed.

  (* File.Validate of the validator model implies the validation gate of the Segment model *)
  Theorem arith_valid_gate f :
    forallb (fun b => negb (sb_adv b)) (sf_batches f) = true ->
    AR.validate_file A (s_file A ep sp f) = AR.ROk ->
    validate T f = None /\ is_adv_file (sf_batches f) = false
    /\ Forall (fun b => sb_adv b = false /\ AR.validate_batch A (sb b) = AR.ROk) (sf_batches f).
  Proof.
    intros Hn Hv. pose proof (no_adv_not_adv_file _ Hn) as Ha.
    apply (validate_file_facts A _ (s_file_std A ep sp f Hn)) in Hv as [_ Fb _ _ Fd Fc Fasc _].
    unfold s_file, AR.all_batches in *. cbn [AR.fl_batches AR.fl_iat AR.fl_ctl AR.fc_debit AR.fc_credit] in *.
    rewrite sumz_app in Fd, Fc. unfold s_batch, s_ibatch in Fd, Fc. rewrite !s_sum_debit in Fd. rewrite !s_sum_credit in Fc.
    assert (HF : Forall (fun b => sb_adv b = false /\ AR.validate_batch A (sb b) = AR.ROk) (sf_batches f)).
    { apply Forall_forall. intros b Hb. rewrite forallb_forall in Hn. specialize (Hn b Hb). split; [now destruct (sb_adv b)|].
      rewrite Forall_forall in Fb. apply Fb. now apply in_map. }
    split; [|split; [exact Ha|exact HF]].
    unfold validate. rewrite Ha.
    assert (Hok : forallb (batch_ok T) (sf_batches f) = true).
    { apply forallb_forall. intros b Hb. rewrite Forall_forall in HF. destruct (HF b Hb). now apply arith_batch_ok. }
    rewrite Hok, Fd, Fc, !Z.eqb_refl. cbn [negb andb]. now rewrite (s_numbers_conv _ 0 Fasc).
  Qed.

  (* for every non-ADV file the validator model accepts, SegmentFile returns two files whose
     standard batches keep the numbers of their sources and which the validator model accepts *)
  Theorem arith_valid_segments f :
    forallb (fun b => negb (sb_adv b)) (sf_batches f) = true ->
    AR.validate_file A (s_file A ep sp f) = AR.ROk ->
    exists cf df, segment T f = SOk cf df
      /\ sublist (map sb_num (sf_batches cf)) (map sb_num (sf_batches f))
      /\ sublist (map sb_num (sf_batches df)) (map sb_num (sf_batches f))
      /\ forall g, g = cf \/ g = df -> (sf_batches g <> [] \/ sf_iat g <> []) ->
           fctl_fits A (AR.fl_ctl (s_file A ep sp g)) -> AR.validate_file A (s_file A ep sp g) = AR.ROk.
  Proof.
    intros Hn Hv. destruct (arith_valid_gate f Hn Hv) as (Hg & Ha & HF).
    destruct (segment_succeeds_std T HT f Hg Ha) as (cf & df & Hs). exists cf, df.
    destruct (segment_numbers T HT f cf df Ha Hs) as (_ & _ & S1 & S2).
    repeat split; try assumption.
    intros g Hgc Hne Hfit. exact (segment_file_arith_valid A T HA HT HS ep sp f cf df HF Hs g Hgc Hne Hfit).
  Qed.
End ArithGate.

(* Types of the table regenerated from File.Reversal (Gen/ReversalTable.v), the
   boolean checker of the transaction-code map and its generic soundness theorem. *)
From Coq Require Import ZArith NArith List Bool Lia.
Import ListNotations.
From ACH Require Import TxCodes.
Open Scope Z_scope.

(* which of hasCredits / hasDebits a case clause sets *)
Inductive rflag := FCredits | FDebits | FNoFlag | FBothFlags.
(* one case clause: constants, delta of `TransactionCode += d` / `-= d`, flag *)
Record rev_arm := mkrev { ra_codes : list Z; ra_delta : Z; ra_flag : rflag; ra_unknown : bool }.
(* `if hasCredits { bh.ServiceClassCode = h; bc.ServiceClassCode = c }` *)
Inductive fcond := CCredits | CDebits | CBoth | CUnknown.
Record rev_fixup := mkfix { fx_cond : fcond; fx_hdr : Z; fx_ctl : Z; fx_unknown : bool }.

Definition rflag_eqb (a b : rflag) : bool :=
  match a, b with
  | FCredits, FCredits | FDebits, FDebits | FNoFlag, FNoFlag | FBothFlags, FBothFlags => true
  | _, _ => false
  end.

Fixpoint rev_lookup (arms : list rev_arm) (c : Z) : option rev_arm :=
  match arms with
  | [] => None
  | a :: r => if memz c (ra_codes a) then Some a else rev_lookup r c
  end.

(* the code after the switch: unchanged when no clause lists it *)
Definition rev_code (arms : list rev_arm) (c : Z) : Z :=
  match rev_lookup arms c with Some a => c + ra_delta a | None => c end.

Definition flag_credits (f : rflag) : bool := match f with FCredits | FBothFlags => true | _ => false end.
Definition flag_debits (f : rflag) : bool := match f with FDebits | FBothFlags => true | _ => false end.

(* (hasCredits, hasDebits) contributed by one entry *)
Definition arm_flags (arms : list rev_arm) (c : Z) : bool * bool :=
  match rev_lookup arms c with
  | Some a => (flag_credits (ra_flag a), flag_debits (ra_flag a))
  | None => (false, false)
  end.

Definition fix_fires (hc hd : bool) (c : fcond) : bool :=
  match c with CCredits => hc | CDebits => hd | CBoth => hc && hd | CUnknown => false end.

(* the sequence of `if` statements: the last one that fires decides; none: classes stay *)
Definition apply_fixups (fx : list rev_fixup) (hc hd : bool) : option (Z * Z) :=
  fold_left (fun acc x => if fix_fires hc hd (fx_cond x) then Some (fx_hdr x, fx_ctl x) else acc) fx None.

(* NACHA service class of a batch with / without credits and debits *)
Definition class_of (hc hd : bool) : Z :=
  if hc && hd then 200 else if hc then 220 else if hd then 225 else 0.

Definition opt_pair_eqb (a b : option (Z * Z)) : bool :=
  match a, b with
  | None, None => true
  | Some (x, y), Some (u, v) => (x =? u) && (y =? v)
  | _, _ => false
  end.

Definition fixups_ok (fx : list rev_fixup) : bool :=
  forallb (fun x => negb (fx_unknown x)) fx
  && opt_pair_eqb (apply_fixups fx true false) (Some (220, 220))
  && opt_pair_eqb (apply_fixups fx false true) (Some (225, 225))
  && opt_pair_eqb (apply_fixups fx true true) (Some (200, 200))
  && opt_pair_eqb (apply_fixups fx false false) None.

(* every standard entry code except loan prenote 53 and loan zero-dollar 54 *)
Definition reversible (std : list Z) (c : Z) : bool := entry_code std c && negb (memz c [53; 54]).

Definition flag_of_dir (t : target) : rflag :=
  match t with TCredit => FCredits | TDebit => FDebits | TNone => FNoFlag end.

Definition code_ok (arms : list rev_arm) (std pre : list Z) (c : Z) : bool :=
  match rev_lookup arms c with
  | None => false
  | Some a =>
      let c' := c + ra_delta a in
      negb (ra_unknown a)
      && (c' / 10 =? c / 10)
      && target_eqb (digit_dir c') (opposite (digit_dir c))
      && negb (target_eqb (digit_dir c) TNone)
      && reversible std c'
      && (rev_code arms c' =? c)
      && rflag_eqb (ra_flag a) (flag_of_dir (digit_dir c'))
      && Bool.eqb (memz c pre) (memz c' pre)
  end.

Definition rev_table_ok (arms : list rev_arm) (std pre : list Z) : bool :=
  forallb (fun a => negb (ra_unknown a)) arms
  && forallb (fun c => implb (reversible std c) (code_ok arms std pre c)) std.

(* ---- generic facts *)

Lemma memz_In c l : memz c l = true <-> In c l.
Proof.
  unfold memz. rewrite existsb_exists. split.
  - intros (x & Hx & E). apply Z.eqb_eq in E. now subst.
  - intros H. exists c. split; [exact H|apply Z.eqb_refl].
Qed.

Lemma target_eqb_eq a b : target_eqb a b = true <-> a = b.
Proof. destruct a, b; cbn; split; intros H; try reflexivity; discriminate. Qed.

Lemma rflag_eqb_eq a b : rflag_eqb a b = true <-> a = b.
Proof. destruct a, b; cbn; split; intros H; try reflexivity; discriminate. Qed.

Definition is_t (t u : target) : bool := target_eqb u t.

Record code_props (arms : list rev_arm) (std pre : list Z) (c : Z) : Prop := {
  cp_tens : rev_code arms c / 10 = c / 10;
  cp_dir : digit_dir (rev_code arms c) = opposite (digit_dir c);
  cp_dir_some : digit_dir c <> TNone;
  cp_closed : reversible std (rev_code arms c) = true;
  cp_invol : rev_code arms (rev_code arms c) = c;
  cp_flags : arm_flags arms c =
             (target_eqb (digit_dir (rev_code arms c)) TCredit, target_eqb (digit_dir (rev_code arms c)) TDebit);
  cp_prenote : memz (rev_code arms c) pre = memz c pre }.

Theorem rev_table_sound arms std pre :
  rev_table_ok arms std pre = true ->
  forall c, reversible std c = true -> code_props arms std pre c.
Proof.
  intros Hok c Hr.
  unfold rev_table_ok in Hok. apply andb_prop in Hok as [_ Hall].
  rewrite forallb_forall in Hall.
  assert (Hin : In c std).
  { unfold reversible, entry_code in Hr. apply andb_prop in Hr as [Hr _].
    apply andb_prop in Hr as [Hr _]. apply andb_prop in Hr as [Hr _]. now apply memz_In. }
  specialize (Hall c Hin). rewrite Hr in Hall. cbn [implb] in Hall.
  unfold code_ok in Hall.
  destruct (rev_lookup arms c) as [a|] eqn:El; [|discriminate].
  apply andb_prop in Hall as [Hall Hpre]. apply andb_prop in Hall as [Hall Hflag].
  apply andb_prop in Hall as [Hall Hinv]. apply andb_prop in Hall as [Hall Hclosed].
  apply andb_prop in Hall as [Hall Hsome]. apply andb_prop in Hall as [Hall Hdir].
  apply andb_prop in Hall as [_ Htens].
  assert (Erc : rev_code arms c = c + ra_delta a) by (unfold rev_code; now rewrite El).
  apply Z.eqb_eq in Htens. apply target_eqb_eq in Hdir. apply Z.eqb_eq in Hinv.
  apply rflag_eqb_eq in Hflag. apply Bool.eqb_prop in Hpre.
  constructor; rewrite ?Erc; auto.
  - intros E. rewrite E in Hsome. discriminate.
  - unfold arm_flags. rewrite El, Hflag. now destruct (digit_dir (c + ra_delta a)).
Qed.

Lemma fixups_sound fx : fixups_ok fx = true ->
  forall hc hd, hc || hd = true -> apply_fixups fx hc hd = Some (class_of hc hd, class_of hc hd).
Proof.
  intros Hok hc hd Hany. unfold fixups_ok in Hok.
  apply andb_prop in Hok as [Hok Hff]. apply andb_prop in Hok as [Hok Htt].
  apply andb_prop in Hok as [Hok Hft]. apply andb_prop in Hok as [_ Htf].
  assert (E : forall a p, opt_pair_eqb a (Some p) = true -> a = Some p).
  { intros [[x y]|] [u v]; cbn; intros Hq; [|discriminate].
    apply andb_prop in Hq as [Hx Hy]. apply Z.eqb_eq in Hx, Hy. now subst. }
  destruct hc, hd; cbn in Hany; try discriminate; cbn [class_of andb]; now apply E.
Qed.

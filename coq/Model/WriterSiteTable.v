(* C16, phase 4 — the per-site policy read off the regenerated call-site table
   (Gen/WriterIO.v lists every call through the Writer one by one; Gen/WriterIOSeq.v
   adds Writer.Flush's shortcut and Reader.Read's maxLines return), and the boolean
   checkers.  No grouping: each writeLine call of writeBatch / writeIATBatch keeps
   its own handler, addressed by its ordinal in source order; the checker pins the
   meaning of every ordinal (argument and guard of the call). *)
From Coq Require Import String List Bool NArith.
Import ListNotations.
From ACH Require Import Bytes BufIO WriterIOTable BufIOSeq.
Open Scope string_scope.

Record mlfacts := mkmlfacts {
  ml_handler : handler;       (* what the `if ... maxLines` block of the scan loop returns *)
  ml_cond : string;           (* its condition, source text *)
  ml_after_inc : bool;        (* it directly follows r.lineNum++ *)
  ml_other_nil_returns : N }. (* other `return ..., nil` statements inside the scan loop *)

Definition flush_shortcut_cond : string := "w.w.Buffered() == 0".

Definition spolicy_of (t : list wsite) (thresh : N) (shortcut : string) : spolicy :=
  mkspol (the_handler (sel "writeLine" "w.WriteString" "line" t))
         (the_handler (sel "writeLine" "w.WriteString" "w.LineEnding" t))
         (the_handler (sel_fc "writeLine" "Flush" t))
         thresh
         (the_handler (sel_fc "Flush" "w.Flush" t))
         (String.eqb shortcut flush_shortcut_cond)
         (the_handler (sel "Write" "writeLine" "&file.Header" t))
         (the_handler (sel_fc "Write" "writeBatch" t))
         (the_handler (sel_fc "Write" "writeIATBatch" t))
         (the_handler (sel "Write" "writeLine" "&file.Control" t))
         (the_handler (sel "Write" "writeLine" "&file.ADVControl" t))
         (map ws_handler (sel_fc "writeBatch" "writeLine" t))
         (map ws_handler (sel_fc "writeIATBatch" "writeLine" t))
         (the_handler (sel "Write" "w.WriteString" "paddingLine" t))
         (the_handler (sel "Write" "w.WriteString" "w.LineEnding" t))
         (final_handler t).

(* what each ordinal stands for: (argument, innermost guard) of the writeLine call.
   harness/cmd/c16/seq.go walks a file in exactly this order. *)
Definition expected_batch_sites : list (string * string) :=
  [ ("batch.GetHeader()", "")
  ; ("entry", "!isADV")
  ; ("entry.Addenda02", "!isADV")
  ; ("addenda05", "!isADV")
  ; ("entry.Addenda98", "!isADV")
  ; ("entry.Addenda98Refused", "!isADV")
  ; ("entry.Addenda99", "!isADV")
  ; ("entry.Addenda99Dishonored", "!isADV")
  ; ("entry.Addenda99Contested", "!isADV")
  ; ("entry", "else:!isADV")
  ; ("entry.Addenda99", "else:!isADV")
  ; ("batch.GetControl()", "batch.GetHeader().StandardEntryClassCode != ADV")
  ; ("batch.GetADVControl()", "else:batch.GetHeader().StandardEntryClassCode != ADV") ].

Definition expected_iat_sites : list (string * string) :=
  [ ("iatBatch.GetHeader()", ""); ("entry", ""); ("entry.Addenda10", ""); ("entry.Addenda11", "")
  ; ("entry.Addenda12", ""); ("entry.Addenda13", ""); ("entry.Addenda14", ""); ("entry.Addenda15", "")
  ; ("entry.Addenda16", ""); ("addenda17", ""); ("addenda18", ""); ("entry.Addenda98", "")
  ; ("entry.Addenda99", ""); ("iatBatch.GetControl()", "") ].

Definition site_key (s : wsite) : string * string := (ws_arg s, ws_guard s).

Fixpoint keys_eqb (a b : list (string * string)) : bool :=
  match a, b with
  | [], [] => true
  | x :: a', y :: b' => pair_eqb x y && keys_eqb a' b'
  | _, _ => false
  end.

(* the two control calls of Write sit in the two branches of `if !isADV` *)
Definition ctl_guards_ok (t : list wsite) : bool :=
  match sel "Write" "writeLine" "&file.Control" t, sel "Write" "writeLine" "&file.ADVControl" t with
  | [c], [a] => String.eqb (ws_guard c) "!isADV" && String.eqb (ws_guard a) "else:!isADV"
  | _, _ => false
  end.

Definition site_table_ok (t : list wsite) (thresh : N) (rets : list (string * string)) (ctor shortcut : string) : bool :=
  forallb accounted t
  && keys_eqb (map site_key (sel_fc "writeBatch" "writeLine" t)) expected_batch_sites
  && keys_eqb (map site_key (sel_fc "writeIATBatch" "writeLine" t)) expected_iat_sites
  && ctl_guards_ok t
  && spolicy_ok (spolicy_of t thresh shortcut)
  && String.eqb shortcut ""
  && nil_returns_ok rets
  && String.eqb ctor "bufio.NewWriter(w)".

(* reader *)
Definition maxl_cond : string := "r.lineNum > r.maxLines".

Definition rpolicy3_of (f : rfacts) (ml : mlfacts) : rpolicy3 :=
  mkrpol3 (if rf_nil_guard f then rf_ctor f else Ignore)
          (if (ml_other_nil_returns ml =? 0)%N then rf_scan f else Unknown)
          (match ml_handler ml with
           | Absent => Absent
           | h => if String.eqb (ml_cond ml) maxl_cond && ml_after_inc ml then h else Unknown
           end).

Definition reader_table3_ok (f : rfacts) (ml : mlfacts) : bool :=
  rpolicy3_ok (rpolicy3_of f ml) && handler_eqb (rf_readfile f) Propagate.

(* A small abstract syntax for the bodies of the payment-information functions
     ENRPaymentInformation.String / ParseENRPaymentInformation   (batchENR.go)
     DNEPaymentInformation.String / ParseDNEPaymentInformation   (batchDNE.go)
   as regenerated from the Go source by the translator (Gen/PayShape.v), and an
   interpreter for it.  The library functions the code calls are given their
   model from Model/PaymentInfo.v, Model/Mask.v and Codec/Fields.v (tied to the
   real library by the correspondence runs); everything else - which fields are
   read, in which order they are printed, through which format verbs, the
   control flow, slices and indices - is taken from the regenerated syntax.
   A construct the translator or the interpreter does not know evaluates to
   [None], so the obligation that the regenerated body computes the model
   function cannot be proved.  Definitions only. *)
From Coq Require Import String Ascii List Bool.
From ACH Require Import Utf8 Mask Fields PaymentInfo.
Import ListNotations.
Open Scope string_scope.

Inductive pexpr :=
| PLit (s : string)                         (* string literal (printable ASCII) *)
| PInt (n : nat)
| PVar (x : string)
| PSel (e : pexpr) (f : string)             (* e.f *)
| PCall (fn : string) (args : list pexpr)   (* pkg.Func(args), builtin(args); "append..." = append(a, b...) *)
| PMethod (recv : pexpr) (m : string) (args : list pexpr)
| PSlice (e : pexpr) (lo hi : option pexpr)
| PIndex (e i : pexpr)
| PBin (op : string) (a b : pexpr)
| PNot (e : pexpr)
| PStruct (ty : string) (kvs : list (string * pexpr))   (* T{k: v, ...} and &T{...} *)
| PUnknownE (what : string).

Inductive pstmt :=
| TDecl (x : string)                                    (* var x string *)
| TAssign (x : string) (op : string) (e : pexpr)        (* x := e, x = e, x += e *)
| TAssign2 (x y : string) (op : string) (e : pexpr)     (* x, y := f() *)
| TAssignSel (x f : string) (op : string) (e : pexpr)   (* x.f = e *)
| TIf (c : pexpr) (thn els : list pstmt)
| TReturn (es : list pexpr)
| TUnknown (what : string).

Record pfunc := mkpfunc { pf_recv : string; pf_params : list string; pf_body : list pstmt }.

Inductive pval :=
| VBy (b : bytes)                    (* string *)
| VLs (l : list bytes)               (* []string *)
| VNat (n : nat)                     (* non-negative int: len, rune count, literal *)
| VInt (z : Z)                       (* int that may be negative: TransactionCode *)
| VBo (b : bool)
| VNil
| VErr                               (* a non-nil error *)
| VRec (flds : list (string * pval)) (* struct or pointer to struct *)
| VTup (vs : list pval).             (* multiple results *)

Definition env := list (string * pval).

Fixpoint lookup_v (en : env) (x : string) : option pval :=
  match en with
  | [] => None
  | (y, v) :: r => if String.eqb x y then Some v else lookup_v r x
  end.

(* update the nearest binding of x *)
Fixpoint update_v (en : env) (x : string) (v : pval) : option env :=
  match en with
  | [] => None
  | (y, w) :: r =>
      if String.eqb x y then Some ((y, v) :: r)
      else match update_v r x v with Some r' => Some ((y, w) :: r') | None => None end
  end.

(* block scopes: a sentinel binding is pushed on entry and everything up to it
   dropped on exit (assignments to outer variables are done in place) *)
Definition scope_mark : string := "{".
Fixpoint pop_scope (en : env) : env :=
  match en with
  | [] => []
  | (y, _) :: r => if String.eqb y scope_mark then r else pop_scope r
  end.

Fixpoint bytes_of_string (s : string) : bytes :=
  match s with
  | EmptyString => []
  | String c r => N_of_ascii c :: bytes_of_string r
  end.

(* ---------- fmt.Sprintf ---------- *)

Inductive fstate := FText | FWidth | FPrec.
Inductive fpiece := FLit (b : N) | FVerb (w p : option nat) (verb : N).

Fixpoint parse_fmt (f : bytes) (st : fstate) (w p : option nat) : option (list fpiece) :=
  match f with
  | [] => match st with FText => Some [] | _ => None end
  | c :: r =>
      match st with
      | FText =>
          if (c =? 37)%N then parse_fmt r FWidth None None
          else option_map (cons (FLit c)) (parse_fmt r FText None None)
      | FWidth =>
          if is_digit c then
            match w with
            | None => if (c =? 48)%N then None    (* a leading 0 is the zero-padding flag: not modelled *)
                      else parse_fmt r FWidth (Some (N.to_nat (c - 48))) None
            | Some n => parse_fmt r FWidth (Some (10 * n + N.to_nat (c - 48))%nat) None
            end
          else if (c =? 46)%N then parse_fmt r FPrec w (Some 0%nat)
          else option_map (cons (FVerb w None c)) (parse_fmt r FText None None)
      | FPrec =>
          if is_digit c
          then parse_fmt r FPrec w (option_map (fun n => (10 * n + N.to_nat (c - 48))%nat) p)
          else option_map (cons (FVerb w p c)) (parse_fmt r FText None None)
      end
  end.

(* one operand under one verb: %v %s %d, width / precision on %s only *)
Definition fmt_arg (w p : option nat) (verb : N) (a : pval) : option bytes :=
  if (verb =? 118)%N then            (* v *)
    match w, p, a with
    | None, None, VBy b => Some b
    | None, None, VInt z => Some (itoa z)
    | None, None, VNat n => Some (itoa (Z.of_nat n))
    | _, _, _ => None
    end
  else if (verb =? 115)%N then       (* s *)
    match a with
    | VBy b =>
        match w, p with
        | None, None => Some b
        | Some w', Some p' => Some (fmt_s w' p' b)
        | Some w', None => Some (spaces (w' - rune_count b) ++ b)%list
        | None, Some p' => Some (trunc_runes p' b)
        end
    | _ => None
    end
  else if (verb =? 100)%N then       (* d *)
    match w, p, a with
    | None, None, VInt z => Some (itoa z)
    | None, None, VNat n => Some (itoa (Z.of_nat n))
    | _, _, _ => None
    end
  else None.

Fixpoint apply_fmt (ps : list fpiece) (args : list pval) : option bytes :=
  match ps with
  | [] => match args with [] => Some [] | _ => None end
  | FLit c :: r => option_map (cons c) (apply_fmt r args)
  | FVerb w p v :: r =>
      if (v =? 37)%N then
        match w, p with
        | None, None => option_map (cons 37%N) (apply_fmt r args)
        | _, _ => None
        end
      else
        match args with
        | [] => None
        | a :: args' =>
            match fmt_arg w p v a with
            | Some b =>
                match r, args' with
                | [], [] => Some b           (* the operand ends the text: no trailing ++ [] *)
                | _, _ => match apply_fmt r args' with
                          | Some rest => Some (b ++ rest)%list
                          | None => None
                          end
                end
            | None => None
            end
        end
  end.

Definition sprintf (f : bytes) (args : list pval) : option bytes :=
  match parse_fmt f FText None None with
  | Some ps => apply_fmt ps args
  | None => None
  end.

(* ---------- library functions ---------- *)

(* The interpreter is written in continuation-passing style: [k] is the rest of
   the function, [None] is a run-time panic or an unknown construct.  A test on
   symbolic data then has the whole remaining computation in its branches, so
   that symbolic evaluation yields a decision tree with closed results at the
   leaves. *)
Definition res := option (list pval).

Definition layout_010206 : bytes := [48; 49; 48; 50; 48; 54]%N.

Definition builtin (fn : string) (args : list pval) (k : pval -> res) : res :=
  if String.eqb fn "strings.EqualFold" then
    match args with
    | [VBy a; VBy [c]] => if fold_letter_ok c then k (VBo (equal_fold_letter a c)) else None
    | _ => None
    end
  else if String.eqb fn "strings.TrimSpace" then
    match args with [VBy a] => k (VBy (trim a)) | _ => None end
  else if String.eqb fn "strings.Fields" then
    match args with [VBy a] => k (VLs (fields a)) | _ => None end
  else if String.eqb fn "strings.Join" then
    match args with [VLs l; VBy sep] => k (VBy (join sep l)) | _ => None end
  else if String.eqb fn "strings.Split" then
    match args with [VBy a; VBy [42%N]] => k (VLs (split_star a)) | _ => None end
  else if String.eqb fn "strings.TrimSuffix" then
    match args with [VBy a; VBy [92%N]] => k (VBy (trim_bslash a)) | _ => None end
  else if String.eqb fn "utf8.RuneCountInString" then
    match args with [VBy a] => k (VNat (rune_count a)) | _ => None end
  else if String.eqb fn "len" then
    match args with
    | [VLs l] => k (VNat (length l))
    | [VBy b] => k (VNat (length b))
    | _ => None
    end
  else if String.eqb fn "append..." then
    match args with [VLs a; VLs b] => k (VLs (a ++ b)%list) | _ => None end
  else if String.eqb fn "fmt.Sprintf" then
    match args with
    | VBy f :: rest => match sprintf f rest with Some b => k (VBy b) | None => None end
    | _ => None
    end
  else if String.eqb fn "fmt.Errorf" then k VErr
  else if String.eqb fn "strconv.Atoi" then
    match args with
    | [VBy a] => match atoi_opt a with
                 | Some z => k (VTup [VInt z; VNil])
                 | None => k (VTup [VInt 0; VErr])
                 end
    | _ => None
    end
  else if String.eqb fn "time.Parse" then
    (* the time value is represented by what Format("010206") prints for it *)
    match args with
    | [VBy l; VBy a] =>
        if bytes_eqb l layout_010206
        then match dne_date a with
             | Some d => k (VTup [VBy d; VNil])
             | None => k (VTup [VNil; VErr])
             end
        else None
    | _ => None
    end
  else if String.eqb fn "maskName" then
    match args with [VBy a] => k (VBy (maskName a)) | _ => None end
  else if String.eqb fn "maskNumber" then
    match args with [VBy a] => k (VBy (maskNumber a)) | _ => None end
  else None.

Definition method (recv : pval) (m : string) (args : list pval) (k : pval -> res) : res :=
  if String.eqb m "Format" then
    match recv, args with
    | VBy d, [VBy l] => if bytes_eqb l layout_010206 then k (VBy d) else None
    | _, _ => None
    end
  else None.

Definition is_nil (v : pval) : option bool :=
  match v with
  | VNil => Some true
  | VErr | VRec _ => Some false
  | _ => None
  end.

Definition binop (op : string) (a b : pval) (k : pval -> res) : res :=
  match a, b with
  | VBy x, VBy y => if String.eqb op "+" then k (VBy (x ++ y)%list) else None
  | VNat x, VNat y =>
      if String.eqb op "+" then k (VNat (x + y))
      else if String.eqb op "-" then (if (y <=? x)%nat then k (VNat (x - y)) else None)
      else if String.eqb op ">" then k (VBo (y <? x)%nat)
      else if String.eqb op "<" then k (VBo (x <? y)%nat)
      else if String.eqb op ">=" then k (VBo (y <=? x)%nat)
      else if String.eqb op "<=" then k (VBo (x <=? y)%nat)
      else if String.eqb op "==" then k (VBo (x =? y)%nat)
      else if String.eqb op "!=" then k (VBo (negb (x =? y)%nat))
      else None
  | VBo x, VBo y =>
      if String.eqb op "&&" then k (VBo (x && y))
      else if String.eqb op "||" then k (VBo (x || y))
      else None
  | x, VNil =>
      match is_nil x with
      | Some n => if String.eqb op "==" then k (VBo n)
                  else if String.eqb op "!=" then k (VBo (negb n)) else None
      | None => None
      end
  | _, _ => None
  end.

(* s[lo:hi]; an index out of range is a run-time panic: None *)
Definition slice_list {A} (l : list A) (lo hi : option nat) (k : list A -> res) : res :=
  match lo, hi with
  | None, None => k l
  | Some a, None => if (a <=? length l)%nat then k (skipn a l) else None
  | None, Some b => if (b <=? length l)%nat then k (firstn b l) else None
  | Some a, Some b =>
      if ((a <=? b) && (b <=? length l))%nat then k (firstn (b - a) (skipn a l)) else None
  end.

(* ---------- expressions ---------- *)

Fixpoint eval (en : env) (e : pexpr) (k : pval -> res) {struct e} : res :=
  let evals := fix evals (es : list pexpr) (kk : list pval -> res) : res :=
    match es with
    | [] => kk []
    | x :: r => eval en x (fun v => evals r (fun vs => kk (v :: vs)))
    end in
  let eval_opt := fun (o : option pexpr) (kk : option nat -> res) =>
    match o with
    | None => kk None
    | Some x => eval en x (fun v => match v with VNat n => kk (Some n) | _ => None end)
    end in
  match e with
  | PLit s => k (VBy (bytes_of_string s))
  | PInt n => k (VNat n)
  | PVar x =>
      match lookup_v en x with
      | Some v => k v
      | None => if String.eqb x "nil" then k VNil
                else if String.eqb x "true" then k (VBo true)
                else if String.eqb x "false" then k (VBo false)
                else None
      end
  | PSel e' f =>
      eval en e' (fun v =>
        match v with
        | VRec flds => match lookup_v flds f with Some x => k x | None => None end
        | _ => None
        end)
  | PCall fn args => evals args (fun vs => builtin fn vs k)
  | PMethod r m args => eval en r (fun rv => evals args (fun vs => method rv m vs k))
  | PSlice e' lo hi =>
      eval en e' (fun v => eval_opt lo (fun lo' => eval_opt hi (fun hi' =>
        match v with
        | VBy b => slice_list b lo' hi' (fun r => k (VBy r))
        | VLs l => slice_list l lo' hi' (fun r => k (VLs r))
        | _ => None
        end)))
  | PIndex e' i =>
      eval en e' (fun v => eval en i (fun iv =>
        match v, iv with
        | VLs l, VNat n => match nth_error l n with Some x => k (VBy x) | None => None end
        | _, _ => None
        end))
  | PBin op a b => eval en a (fun x => eval en b (fun y => binop op x y k))
  | PNot e' => eval en e' (fun v => match v with VBo b => k (VBo (negb b)) | _ => None end)
  | PStruct _ kvs =>
      (fix flds (l : list (string * pexpr)) (kk : list (string * pval) -> res) : res :=
        match l with
        | [] => kk []
        | (key, x) :: r => eval en x (fun v => flds r (fun vs => kk ((key, v) :: vs)))
        end) kvs (fun fs => k (VRec fs))
  | PUnknownE _ => None
  end.

Fixpoint evals (en : env) (es : list pexpr) (kk : list pval -> res) : res :=
  match es with
  | [] => kk []
  | x :: r => eval en x (fun v => evals en r (fun vs => kk (v :: vs)))
  end.

(* ---------- statements ---------- *)

Definition bind_var (en : env) (x : string) (v : pval) : env :=
  if String.eqb x "_" then en else (x, v) :: en.

Definition assign (en : env) (x op : string) (v : pval) (k : env -> res) : res :=
  if String.eqb op ":=" then k (bind_var en x v)
  else if String.eqb op "=" then
    (if String.eqb x "_" then k en
     else match update_v en x v with Some en' => k en' | None => None end)
  else if String.eqb op "+=" then
    match lookup_v en x, v with
    | Some (VBy a), VBy b =>
        match update_v en x (VBy (a ++ b)%list) with Some en' => k en' | None => None end
    | _, _ => None
    end
  else None.

Fixpoint exec (s : pstmt) (en : env) (k : env -> res) {struct s} : res :=
  let block := fix block (ss : list pstmt) (en : env) (kk : env -> res) : res :=
    match ss with
    | [] => kk en
    | s' :: r => exec s' en (fun en' => block r en' kk)
    end in
  match s with
  | TDecl x => k ((x, VBy []) :: en)
  | TAssign x op e => eval en e (fun v => assign en x op v k)
  | TAssign2 x y op e =>
      if String.eqb op ":=" then
        eval en e (fun v =>
          match v with
          | VTup [a; b] => k (bind_var (bind_var en x a) y b)
          | _ => None
          end)
      else None
  | TAssignSel x f op e =>
      if String.eqb op "=" then
        eval en e (fun v =>
          match lookup_v en x with
          | Some (VRec flds) =>
              match update_v flds f v with
              | Some flds' => match update_v en x (VRec flds') with Some en' => k en' | None => None end
              | None => None
              end
          | _ => None
          end)
      else None
  | TIf c thn els =>
      eval en c (fun v =>
        match v with
        | VBo b =>
            if b then block thn ((scope_mark, VNil) :: en) (fun en' => k (pop_scope en'))
            else block els ((scope_mark, VNil) :: en) (fun en' => k (pop_scope en'))
        | _ => None
        end)
  | TReturn es => evals en es (fun vs => Some vs)
  | TUnknown _ => None
  end.

Fixpoint exec_block (ss : list pstmt) (en : env) (k : env -> res) : res :=
  match ss with
  | [] => k en
  | s :: r => exec s en (fun en' => exec_block r en' k)
  end.

Fixpoint zip_env (xs : list string) (vs : list pval) : env :=
  match xs, vs with
  | x :: xs', v :: vs' => (x, v) :: zip_env xs' vs'
  | _, _ => []
  end.

(* a call of the function: falling off the end of the body is not a result *)
Definition run_func (f : pfunc) (recv : pval) (args : list pval) : res :=
  exec_block (pf_body f) ((pf_recv f, recv) :: zip_env (pf_params f) args) (fun _ => None).

(* ---------- the Go structs as interpreter values ---------- *)

Definition enr_struct_fields : list string :=
  ["TransactionCode"; "RDFIIdentification"; "CheckDigit"; "DFIAccountNumber";
   "IndividualIdentification"; "IndividualName"; "EnrolleeClassificationCode"].

Definition dne_struct_fields : list string := ["DateOfDeath"; "CustomerSSN"; "Amount"].

Definition enr_rec (i : enr_info) : pval :=
  VRec [("TransactionCode", VInt (e_tx i)); ("RDFIIdentification", VBy (e_rdfi i));
        ("CheckDigit", VBy (e_check i)); ("DFIAccountNumber", VBy (e_acct i));
        ("IndividualIdentification", VBy (e_ident i)); ("IndividualName", VBy (e_name i));
        ("EnrolleeClassificationCode", VBy (e_code i))].

Definition dne_rec (i : dne_info) : pval :=
  VRec [("DateOfDeath", VBy (d_date i)); ("CustomerSSN", VBy (d_ssn i)); ("Amount", VBy (d_amount i))].

(* the *Addenda05 argument of the parse functions *)
Definition addenda_rec (pri : bytes) : pval :=
  VRec [("ID", VBy []); ("PaymentRelatedInformation", VBy pri)].

(* results of the parse functions: (info, nil) or (nil, err) *)
Definition enr_parse_result (pri : bytes) : list pval :=
  match parse_enr pri with
  | Some i => [enr_rec i; VNil]
  | None => [VNil; VErr]
  end.

Definition dne_parse_result (pri : bytes) : list pval :=
  match parse_dne pri with
  | Some i => [dne_rec i; VNil]
  | None => [VNil; VErr]
  end.

(* A small abstract syntax for the bodies of the payment-information functions
     ENRPaymentInformation.String / ParseENRPaymentInformation   (batchENR.go)
     DNEPaymentInformation.String / ParseDNEPaymentInformation   (batchDNE.go)
   as regenerated from the Go source by the translator (Gen/PayShape.v), and an
   interpreter for it.  The library functions the code calls are given their
   model from Model/PaymentInfo.v, Model/Mask.v and Codec/Fields.v (tied to the
   real library by the correspondence runs); everything else - which fields are
   read, in which order they are printed, through which format verbs, the
   control flow, slices and indices - is taken from the regenerated syntax.
   A construct the translator or the interpreter does not know evaluates to
   [None], so the obligation that the regenerated body computes the model
   function cannot be proved.  Definitions only. *)
From Coq Require Import String Ascii List Bool.
From ACH Require Import Utf8 Mask Fields PaymentInfo.
Import ListNotations.
Open Scope string_scope.

Inductive pexpr :=
| PLit (s : string)                         (* string literal (printable ASCII) *)
| PLitB (b : bytes)                         (* any other string literal, as bytes *)
| PInt (n : nat)
| PVar (x : string)
| PSel (e : pexpr) (f : string)             (* e.f *)
| PCall (fn : string) (args : list pexpr)   (* pkg.Func(args), builtin(args); "append..." = append(a, b...) *)
| PMethod (recv : pexpr) (m : string) (args : list pexpr)
| PSlice (e : pexpr) (lo hi : option pexpr)
| PIndex (e i : pexpr)
| PBin (op : string) (a b : pexpr)
| PNot (e : pexpr)
| PStruct (ty : string) (kvs : list (string * pexpr))   (* T{k: v, ...} and &T{...} *)
| PUnknownE (what : string).

Inductive pstmt :=
| TDecl (x : string)                                    (* var x string *)
| TAssign (x : string) (op : string) (e : pexpr)        (* x := e, x = e, x += e *)
| TAssign2 (x y : string) (op : string) (e : pexpr)     (* x, y := f() *)
| TAssignSel (x f : string) (op : string) (e : pexpr)   (* x.f = e *)
| TIf (c : pexpr) (thn els : list pstmt)
| TTypeSwitch (e : pexpr) (cases : list (string * list pstmt))   (* switch e.(type) { case *pkg.T: ... } *)
| TCall (fn : string) (args : list pexpr)               (* a call as a statement: fmt.Fprintf / Fprintln *)
| TReturn (es : list pexpr)
| TUnknown (what : string).

Record pfunc := mkpfunc { pf_recv : string; pf_params : list string; pf_body : list pstmt }.

Inductive pval :=
| VBy (b : bytes)                    (* string *)
| VLs (l : list bytes)               (* []string *)
| VNat (n : nat)                     (* non-negative int: len, rune count, literal *)
| VInt (z : Z)                       (* int that may be negative: TransactionCode *)
| VBo (b : bool)
| VNil
| VErr                               (* a non-nil error *)
| VRec (ty : string) (flds : list (string * pval))  (* struct or pointer to struct of type ty *)
| VTag (ty : string)                 (* a value of which only the dynamic type matters *)
| VTup (vs : list pval).             (* multiple results *)

Definition env := list (string * pval).

Fixpoint lookup_v (en : env) (x : string) : option pval :=
  match en with
  | [] => None
  | (y, v) :: r => if String.eqb x y then Some v else lookup_v r x
  end.

(* update the nearest binding of x *)
Fixpoint update_v (en : env) (x : string) (v : pval) : option env :=
  match en with
  | [] => None
  | (y, w) :: r =>
      if String.eqb x y then Some ((y, v) :: r)
      else match update_v r x v with Some r' => Some ((y, w) :: r') | None => None end
  end.

(* block scopes: a sentinel binding is pushed on entry and everything up to it
   dropped on exit (assignments to outer variables are done in place) *)
Definition scope_mark : string := "{".
Fixpoint pop_scope (en : env) : env :=
  match en with
  | [] => []
  | (y, _) :: r => if String.eqb y scope_mark then r else pop_scope r
  end.

Fixpoint bytes_of_string (s : string) : bytes :=
  match s with
  | EmptyString => []
  | String c r => N_of_ascii c :: bytes_of_string r
  end.

(* ---------- fmt.Sprintf ---------- *)

Inductive fstate := FText | FWidth | FPrec.
Inductive fpiece := FLit (b : N) | FVerb (w p : option nat) (verb : N).

Fixpoint parse_fmt (f : bytes) (st : fstate) (w p : option nat) : option (list fpiece) :=
  match f with
  | [] => match st with FText => Some [] | _ => None end
  | c :: r =>
      match st with
      | FText =>
          if (c =? 37)%N then parse_fmt r FWidth None None
          else option_map (cons (FLit c)) (parse_fmt r FText None None)
      | FWidth =>
          if is_digit c then
            match w with
            | None => if (c =? 48)%N then None    (* a leading 0 is the zero-padding flag: not modelled *)
                      else parse_fmt r FWidth (Some (N.to_nat (c - 48))) None
            | Some n => parse_fmt r FWidth (Some (10 * n + N.to_nat (c - 48))%nat) None
            end
          else if (c =? 46)%N then parse_fmt r FPrec w (Some 0%nat)
          else option_map (cons (FVerb w None c)) (parse_fmt r FText None None)
      | FPrec =>
          if is_digit c
          then parse_fmt r FPrec w (option_map (fun n => (10 * n + N.to_nat (c - 48))%nat) p)
          else option_map (cons (FVerb w p c)) (parse_fmt r FText None None)
      end
  end.

(* one operand under one verb: %v %s %d, width / precision on %s only *)
Definition fmt_arg (w p : option nat) (verb : N) (a : pval) : option bytes :=
  if (verb =? 118)%N then            (* v *)
    match w, p, a with
    | None, None, VBy b => Some b
    | None, None, VInt z => Some (itoa z)
    | None, None, VNat n => Some (itoa (Z.of_nat n))
    | _, _, _ => None
    end
  else if (verb =? 115)%N then       (* s *)
    match a with
    | VBy b =>
        match w, p with
        | None, None => Some b
        | Some w', Some p' => Some (fmt_s w' p' b)
        | Some w', None => Some (spaces (w' - rune_count b) ++ b)%list
        | None, Some p' => Some (trunc_runes p' b)
        end
    | _ => None
    end
  else if (verb =? 100)%N then       (* d *)
    match w, p, a with
    | None, None, VInt z => Some (itoa z)
    | None, None, VNat n => Some (itoa (Z.of_nat n))
    | _, _, _ => None
    end
  else None.

Fixpoint apply_fmt (ps : list fpiece) (args : list pval) : option bytes :=
  match ps with
  | [] => match args with [] => Some [] | _ => None end
  | FLit c :: r => option_map (cons c) (apply_fmt r args)
  | FVerb w p v :: r =>
      if (v =? 37)%N then
        match w, p with
        | None, None => option_map (cons 37%N) (apply_fmt r args)
        | _, _ => None
        end
      else
        match args with
        | [] => None
        | a :: args' =>
            match fmt_arg w p v a with
            | Some b =>
                match r, args' with
                | [], [] => Some b           (* the operand ends the text: no trailing ++ [] *)
                | _, _ => match apply_fmt r args' with
                          | Some rest => Some (b ++ rest)%list
                          | None => None
                          end
                end
            | None => None
            end
        end
  end.

Definition sprintf (f : bytes) (args : list pval) : option bytes :=
  match parse_fmt f FText None None with
  | Some ps => apply_fmt ps args
  | None => None
  end.

(* ---------- library functions ---------- *)

(* The interpreter is written in continuation-passing style: [k] is the rest of
   the function, [None] is a run-time panic or an unknown construct.  A test on
   symbolic data then has the whole remaining computation in its branches, so
   that symbolic evaluation yields a decision tree with closed results at the
   leaves. *)
Definition res := option (list pval).

(* calls of functions and methods that are neither library functions nor opaque
   accessors: name (or Type.Method), receiver, arguments, continuation *)
Definition ext_t := string -> pval -> list pval -> (list pval -> res) -> res.
Definition ext_none : ext_t := fun _ _ _ _ => None.

Definition results (vs : list pval) (k : pval -> res) : res :=
  match vs with
  | [v] => k v
  | _ => k (VTup vs)
  end.

Definition layout_010206 : bytes := [48; 49; 48; 50; 48; 54]%N.

Definition builtin (ext : ext_t) (fn : string) (args : list pval) (k : pval -> res) : res :=
  if String.eqb fn "strings.EqualFold" then
    match args with
    | [VBy a; VBy [c]] => if fold_letter_ok c then k (VBo (equal_fold_letter a c)) else None
    | _ => None
    end
  else if String.eqb fn "strings.TrimSpace" then
    match args with [VBy a] => k (VBy (trim a)) | _ => None end
  else if String.eqb fn "strings.Fields" then
    match args with [VBy a] => k (VLs (fields a)) | _ => None end
  else if String.eqb fn "strings.Join" then
    match args with [VLs l; VBy sep] => k (VBy (join sep l)) | _ => None end
  else if String.eqb fn "strings.Split" then
    match args with [VBy a; VBy [42%N]] => k (VLs (split_star a)) | _ => None end
  else if String.eqb fn "strings.TrimSuffix" then
    match args with [VBy a; VBy [92%N]] => k (VBy (trim_bslash a)) | _ => None end
  else if String.eqb fn "utf8.RuneCountInString" then
    match args with [VBy a] => k (VNat (rune_count a)) | _ => None end
  else if String.eqb fn "len" then
    match args with
    | [VLs l] => k (VNat (length l))
    | [VBy b] => k (VNat (length b))
    | _ => None
    end
  else if String.eqb fn "append..." then
    match args with [VLs a; VLs b] => k (VLs (a ++ b)%list) | _ => None end
  else if String.eqb fn "fmt.Sprintf" then
    match args with
    | VBy f :: rest => match sprintf f rest with Some b => k (VBy b) | None => None end
    | _ => None
    end
  else if String.eqb fn "fmt.Errorf" then k VErr
  else if String.eqb fn "strconv.Atoi" then
    match args with
    | [VBy a] => match atoi_opt a with
                 | Some z => k (VTup [VInt z; VNil])
                 | None => k (VTup [VInt 0; VErr])
                 end
    | _ => None
    end
  else if String.eqb fn "time.Parse" then
    (* the time value is represented by what Format("010206") prints for it *)
    match args with
    | [VBy l; VBy a] =>
        if bytes_eqb l layout_010206
        then match dne_date a with
             | Some d => k (VTup [VBy d; VNil])
             | None => k (VTup [VNil; VErr])
             end
        else None
    | _ => None
    end
  else if String.eqb fn "maskName" then
    match args with [VBy a] => k (VBy (maskName a)) | _ => None end
  else if String.eqb fn "maskNumber" then
    match args with [VBy a] => k (VBy (maskNumber a)) | _ => None end
  else ext fn VNil args (fun vs => results vs k).

(* methods: time.Time.Format("010206") on the represented date; the 80-column
   field accessor of Addenda05; other accessors of a record are opaque values
   stored under "Name()"; anything else is a call of a translated method *)
Definition method (ext : ext_t) (recv : pval) (m : string) (args : list pval) (k : pval -> res) : res :=
  match recv with
  | VBy d =>
      if String.eqb m "Format" then
        match args with
        | [VBy l] => if bytes_eqb l layout_010206 then k (VBy d) else None
        | _ => None
        end
      else None
  | VRec ty flds =>
      if String.eqb ty "Addenda05" && String.eqb m "PaymentRelatedInformationField" then
        match args, lookup_v flds "PaymentRelatedInformation" with
        | [], Some (VBy pri) => k (VBy (alphaField pri 80))
        | _, _ => None
        end
      else
        match lookup_v flds (m ++ "()") with
        | Some v => match args with [] => k v | _ => None end
        | None => ext (ty ++ "." ++ m) recv args (fun vs => results vs k)
        end
  | _ => None
  end.

Definition is_nil (v : pval) : option bool :=
  match v with
  | VNil => Some true
  | VErr | VRec _ _ => Some false
  | _ => None
  end.

Definition binop (op : string) (a b : pval) (k : pval -> res) : res :=
  match a, b with
  | VBy x, VBy y => if String.eqb op "+" then k (VBy (x ++ y)%list) else None
  | VNat x, VNat y =>
      if String.eqb op "+" then k (VNat (x + y))
      else if String.eqb op "-" then (if (y <=? x)%nat then k (VNat (x - y)) else None)
      else if String.eqb op ">" then k (VBo (y <? x)%nat)
      else if String.eqb op "<" then k (VBo (x <? y)%nat)
      else if String.eqb op ">=" then k (VBo (y <=? x)%nat)
      else if String.eqb op "<=" then k (VBo (x <=? y)%nat)
      else if String.eqb op "==" then k (VBo (x =? y)%nat)
      else if String.eqb op "!=" then k (VBo (negb (x =? y)%nat))
      else None
  | VBo x, VBo y =>
      if String.eqb op "&&" then k (VBo (x && y))
      else if String.eqb op "||" then k (VBo (x || y))
      else None
  | x, VNil =>
      match is_nil x with
      | Some n => if String.eqb op "==" then k (VBo n)
                  else if String.eqb op "!=" then k (VBo (negb n)) else None
      | None => None
      end
  | _, _ => None
  end.

(* s[lo:hi]; an index out of range is a run-time panic: None *)
Definition slice_list {A} (l : list A) (lo hi : option nat) (k : list A -> res) : res :=
  match lo, hi with
  | None, None => k l
  | Some a, None => if (a <=? length l)%nat then k (skipn a l) else None
  | None, Some b => if (b <=? length l)%nat then k (firstn b l) else None
  | Some a, Some b =>
      if ((a <=? b) && (b <=? length l))%nat then k (firstn (b - a) (skipn a l)) else None
  end.

(* ---------- expressions ---------- *)

Fixpoint eval (ext : ext_t) (en : env) (e : pexpr) (k : pval -> res) {struct e} : res :=
  let evals := fix evals (es : list pexpr) (kk : list pval -> res) : res :=
    match es with
    | [] => kk []
    | x :: r => eval ext en x (fun v => evals r (fun vs => kk (v :: vs)))
    end in
  let eval_opt := fun (o : option pexpr) (kk : option nat -> res) =>
    match o with
    | None => kk None
    | Some x => eval ext en x (fun v => match v with VNat n => kk (Some n) | _ => None end)
    end in
  match e with
  | PLit s => k (VBy (bytes_of_string s))
  | PLitB b => k (VBy b)
  | PInt n => k (VNat n)
  | PVar x =>
      match lookup_v en x with
      | Some v => k v
      | None => if String.eqb x "nil" then k VNil
                else if String.eqb x "true" then k (VBo true)
                else if String.eqb x "false" then k (VBo false)
                else None
      end
  | PSel e' f =>
      eval ext en e' (fun v =>
        match v with
        | VRec _ flds => match lookup_v flds f with Some x => k x | None => None end
        | _ => None
        end)
  | PCall fn args => evals args (fun vs => builtin ext fn vs k)
  | PMethod r m args => eval ext en r (fun rv => evals args (fun vs => method ext rv m vs k))
  | PSlice e' lo hi =>
      eval ext en e' (fun v => eval_opt lo (fun lo' => eval_opt hi (fun hi' =>
        match v with
        | VBy b => slice_list b lo' hi' (fun r => k (VBy r))
        | VLs l => slice_list l lo' hi' (fun r => k (VLs r))
        | _ => None
        end)))
  | PIndex e' i =>
      eval ext en e' (fun v => eval ext en i (fun iv =>
        match v, iv with
        | VLs l, VNat n => match nth_error l n with Some x => k (VBy x) | None => None end
        | _, _ => None
        end))
  | PBin op a b => eval ext en a (fun x => eval ext en b (fun y => binop op x y k))
  | PNot e' => eval ext en e' (fun v => match v with VBo b => k (VBo (negb b)) | _ => None end)
  | PStruct ty kvs =>
      (fix flds (l : list (string * pexpr)) (kk : list (string * pval) -> res) : res :=
        match l with
        | [] => kk []
        | (key, x) :: r => eval ext en x (fun v => flds r (fun vs => kk ((key, v) :: vs)))
        end) kvs (fun fs => k (VRec ty fs))
  | PUnknownE _ => None
  end.

Fixpoint evals (ext : ext_t) (en : env) (es : list pexpr) (kk : list pval -> res) : res :=
  match es with
  | [] => kk []
  | x :: r => eval ext en x (fun v => evals ext en r (fun vs => kk (v :: vs)))
  end.

(* ---------- statements ---------- *)

Definition bind_var (en : env) (x : string) (v : pval) : env :=
  if String.eqb x "_" then en else (x, v) :: en.

Definition assign (en : env) (x op : string) (v : pval) (k : env -> res) : res :=
  if String.eqb op ":=" then k (bind_var en x v)
  else if String.eqb op "=" then
    (if String.eqb x "_" then k en
     else match update_v en x v with Some en' => k en' | None => None end)
  else if String.eqb op "+=" then
    match lookup_v en x, v with
    | Some (VBy a), VBy b =>
        match update_v en x (VBy (a ++ b)%list) with Some en' => k en' | None => None end
    | _, _ => None
    end
  else None.

(* what the function has written to its io.Writer so far *)
Definition out_var : string := "$out".

Definition write_out (en : env) (b : bytes) (k : env -> res) : res :=
  match lookup_v en out_var with
  | Some (VBy o) => match update_v en out_var (VBy (o ++ b)%list) with Some en' => k en' | None => None end
  | _ => None
  end.

Definition call_stmt (en : env) (fn : string) (args : list pval) (k : env -> res) : res :=
  if String.eqb fn "fmt.Fprintln" then
    match args with
    | [_; VBy s] => write_out en (s ++ [10%N])%list k
    | _ => None
    end
  else if String.eqb fn "fmt.Fprintf" then
    match args with
    | _ :: VBy f :: rest => match sprintf f rest with Some b => write_out en b k | None => None end
    | _ => None
    end
  else None.

(* [k]: the rest of the enclosing block; [kr]: what a return statement does *)
Fixpoint exec (ext : ext_t) (s : pstmt) (en : env) (k : env -> res) (kr : env -> list pval -> res) {struct s} : res :=
  let block := fix block (ss : list pstmt) (en : env) (kk : env -> res) : res :=
    match ss with
    | [] => kk en
    | s' :: r => exec ext s' en (fun en' => block r en' kk) kr
    end in
  let cases := fix cases (ty : string) (cs : list (string * list pstmt)) (en : env) (kk : env -> res) : res :=
    match cs with
    | [] => kk en
    | (t, body) :: r => if String.eqb t ty then block body en kk else cases ty r en kk
    end in
  match s with
  | TDecl x => k ((x, VBy []) :: en)
  | TAssign x op e => eval ext en e (fun v => assign en x op v k)
  | TAssign2 x y op e =>
      if String.eqb op ":=" then
        eval ext en e (fun v =>
          match v with
          | VTup [a; b] => k (bind_var (bind_var en x a) y b)
          | _ => None
          end)
      else None
  | TAssignSel x f op e =>
      if String.eqb op "=" then
        eval ext en e (fun v =>
          match lookup_v en x with
          | Some (VRec ty flds) =>
              match update_v flds f v with
              | Some flds' => match update_v en x (VRec ty flds') with Some en' => k en' | None => None end
              | None => None
              end
          | _ => None
          end)
      else None
  | TIf c thn els =>
      eval ext en c (fun v =>
        match v with
        | VBo b =>
            if b then block thn ((scope_mark, VNil) :: en) (fun en' => k (pop_scope en'))
            else block els ((scope_mark, VNil) :: en) (fun en' => k (pop_scope en'))
        | _ => None
        end)
  | TTypeSwitch e cs =>
      eval ext en e (fun v =>
        match v with
        | VTag ty => cases ty cs ((scope_mark, VNil) :: en) (fun en' => k (pop_scope en'))
        | _ => None
        end)
  | TCall fn args =>
      (fix evs (es : list pexpr) (kk : list pval -> res) : res :=
         match es with
         | [] => kk []
         | x :: r => eval ext en x (fun v => evs r (fun vs => kk (v :: vs)))
         end) args (fun vs => call_stmt en fn vs k)
  | TReturn es => evals ext en es (fun vs => kr en vs)
  | TUnknown _ => None
  end.

Fixpoint exec_block (ext : ext_t) (ss : list pstmt) (en : env) (k : env -> res) (kr : env -> list pval -> res) : res :=
  match ss with
  | [] => k en
  | s :: r => exec ext s en (fun en' => exec_block ext r en' k kr) kr
  end.

Fixpoint zip_env (xs : list string) (vs : list pval) : env :=
  match xs, vs with
  | x :: xs', v :: vs' => (x, v) :: zip_env xs' vs'
  | _, _ => []
  end.

(* a call of a function with results, continuing with [kr]; falling off the end
   of the body is not a result *)
Definition call_func (ext : ext_t) (f : pfunc) (recv : pval) (args : list pval) (kr : list pval -> res) : res :=
  exec_block ext (pf_body f) ((pf_recv f, recv) :: zip_env (pf_params f) args)
    (fun _ => None) (fun _ vs => kr vs).

Definition run_func (f : pfunc) (recv : pval) (args : list pval) : res :=
  call_func ext_none f recv args (fun vs => Some vs).

(* a call of a function without results that writes to an io.Writer: the
   outcome is what it has written when it returns *)
Definition written (en : env) : res :=
  match lookup_v en out_var with Some v => Some [v] | None => None end.

Definition run_proc (ext : ext_t) (f : pfunc) (args : list pval) : res :=
  exec_block ext (pf_body f) ((out_var, VBy []) :: zip_env (pf_params f) args)
    written (fun en vs => match vs with [] => written en | _ => None end).

(* calls resolved in a table of translated functions (which themselves call
   nothing but library functions) *)
Fixpoint find_func (tbl : list (string * pfunc)) (fn : string) : option pfunc :=
  match tbl with
  | [] => None
  | (n, f) :: r => if String.eqb n fn then Some f else find_func r fn
  end.

Definition ext_table (tbl : list (string * pfunc)) : ext_t :=
  fun fn recv args kr =>
    match find_func tbl fn with
    | Some f => call_func ext_none f recv args kr
    | None => None
    end.

(* ---------- the Go structs as interpreter values ---------- *)

Definition enr_struct_fields : list string :=
  ["TransactionCode"; "RDFIIdentification"; "CheckDigit"; "DFIAccountNumber";
   "IndividualIdentification"; "IndividualName"; "EnrolleeClassificationCode"].

Definition dne_struct_fields : list string := ["DateOfDeath"; "CustomerSSN"; "Amount"].

Definition enr_rec (i : enr_info) : pval :=
  VRec "ENRPaymentInformation"
       [("TransactionCode", VInt (e_tx i)); ("RDFIIdentification", VBy (e_rdfi i));
        ("CheckDigit", VBy (e_check i)); ("DFIAccountNumber", VBy (e_acct i));
        ("IndividualIdentification", VBy (e_ident i)); ("IndividualName", VBy (e_name i));
        ("EnrolleeClassificationCode", VBy (e_code i))].

Definition dne_rec (i : dne_info) : pval :=
  VRec "DNEPaymentInformation"
       [("DateOfDeath", VBy (d_date i)); ("CustomerSSN", VBy (d_ssn i)); ("Amount", VBy (d_amount i))].

(* the *Addenda05 argument; [seq] and [eseq] are what its two other field
   accessors return (opaque) *)
Definition addenda_rec (pri seq eseq : bytes) : pval :=
  VRec "Addenda05"
       [("ID", VBy []); ("PaymentRelatedInformation", VBy pri);
        ("SequenceNumberField()", VBy seq); ("EntryDetailSequenceNumberField()", VBy eseq)].

Definition opts_rec (names accts corrected : bool) : pval :=
  VRec "Opts" [("MaskNames", VBo names); ("MaskAccountNumbers", VBo accts); ("MaskCorrectedData", VBo corrected)].

(* results of the parse functions: (info, nil) or (nil, err) *)
Definition enr_parse_result (pri : bytes) : list pval :=
  match parse_enr pri with
  | Some i => [enr_rec i; VNil]
  | None => [VNil; VErr]
  end.

Definition dne_parse_result (pri : bytes) : list pval :=
  match parse_dne pri with
  | Some i => [dne_rec i; VNil]
  | None => [VNil; VErr]
  end.

(* what dumpAddenda05 writes for an addenda whose cell is [cell]: the header
   line and the row `      %s\t%s\t%s\n` *)
Definition addenda05_header : bytes :=
  (bytes_of_string "      PaymentRelatedInformation" ++ [9%N] ++ bytes_of_string "SequenceNumber"
   ++ [9%N] ++ bytes_of_string "EntryDetailSequenceNumber" ++ [10%N])%list.

Definition addenda05_lines (cell seq eseq : bytes) : bytes :=
  (addenda05_header ++ bytes_of_string "      " ++ cell ++ [9%N] ++ seq ++ [9%N] ++ eseq ++ [10%N])%list.

(* C07 (phase 4) — the kept excused fields ([keep_ok]) from validity.
   A. [safe_quiet]: for ANY type tree, a selector that names no (struct, field) of the tree imposes no condition;
   B. generic access lemmas: the scalar of a field in the tree of a struct value;
   C. [keep_ok_intro] on the current tables: a typed File value whose header passes the regenerated rules of
      FileHeader.Validate, whose priorityCode is the package's literal and none of whose Addenda98 records carries
      iatCorrectedData satisfies [keep_ok]. *)
From Coq Require Import String Ascii List Bool ZArith NArith Lia.
Import ListNotations.
From ACH Require Import Bytes JsonCodec JsonCodecFacts JsonSurvive JsonPostTable Layout LayoutOk FileStruct.
From ACH Require Import JsonFile JsonFileFacts JsonFileCurrent JsonFull JsonFullFacts.
From ACH Require Import JsonTags RecValid RecValidFacts RecRules JsonDefaultsTable.
Local Open Scope string_scope.
Local Open Scope list_scope.

(* ------------------------------------------------------------ A. a selector that is silent on a type tree *)

Fixpoint sel_quiet (sel : string -> string -> bool) (t : ty) : bool :=
  match t with
  | TStr | TInt | TBool => true
  | TOther => false
  | TStruct n fs =>
      (fix go (fs : list (fmeta * ty)) : bool :=
         match fs with
         | [] => true
         | (m, ft) :: fs' =>
             negb (sel n (f_name m))
             && (match ft with TOther => true | _ => sel_quiet sel ft end)
             && go fs'
         end) fs
  | TPtr t' => sel_quiet sel t'
  | TSlice t' => sel_quiet sel t'
  end.

Fixpoint quiet_fields (sel : string -> string -> bool) (n : string) (fs : list (fmeta * ty)) : bool :=
  match fs with
  | [] => true
  | (m, ft) :: fs' =>
      negb (sel n (f_name m)) && (match ft with TOther => true | _ => sel_quiet sel ft end) && quiet_fields sel n fs'
  end.

Lemma sel_quiet_struct sel n fs : sel_quiet sel (TStruct n fs) = quiet_fields sel n fs.
Proof.
  cbn [sel_quiet]. induction fs as [|[m ft] fs IH]; [reflexivity|]. cbn [quiet_fields]. rewrite <- IH. reflexivity.
Qed.

Definition quiet_law (sel : string -> string -> bool) (t : ty) : Prop :=
  wf t = true -> sel_quiet sel t = true -> forall cur v, typed t cur = true -> typed t v = true -> safe_sel sel t cur v = true.

Lemma quiet_fields_law sel n fs :
  Forall (fun mf => quiet_law sel (snd mf)) fs ->
  wf_fields fs = true -> quiet_fields sel n fs = true ->
  forall cs vs, typed_fields fs cs = true -> typed_fields fs vs = true -> safe_fields sel n fs cs vs = true.
Proof.
  induction 1 as [|[m ft] fs Hft _ IH]; intros Hwf Hq cs vs Hc Hv.
  - destruct cs, vs; try discriminate. reflexivity.
  - destruct cs as [|c cs]; [discriminate|]. destruct vs as [|x vs]; [discriminate|].
    cbn [typed_fields] in Hc, Hv. apply andb_prop in Hc as [Hc Hcs]. apply andb_prop in Hv as [Hx Hvs].
    cbn [wf_fields] in Hwf. apply andb_prop in Hwf as [Hwf Hwfs]. apply andb_prop in Hwf as [Hwf Hoth]. apply andb_prop in Hwf as [Hwft Hdef].
    cbn [quiet_fields] in Hq. apply andb_prop in Hq as [Hq Hqs]. apply andb_prop in Hq as [Hsel Hqt].
    apply negb_true_iff in Hsel. cbn [snd] in Hft.
    cbn [safe_fields]. apply andb_true_intro; split; [|now apply IH].
    unfold safe_field. rewrite Hsel. unfold JsonCodec.cond.
    destruct (f_enc m) as [ek|]; [|reflexivity]. destruct (f_dec m) as [dk|]; [|reflexivity].
    destruct (key_eqb dk ek); [|reflexivity]. destruct (f_omit m && is_empty x); [reflexivity|].
    destruct ft; try (apply (Hft Hwft Hqt c x Hc Hx)); discriminate.
Qed.

Theorem safe_quiet sel t : quiet_law sel t.
Proof.
  induction t as [| | | |n fs IH|t IH|t IH] using ty_ind'; intros Hwf Hq cur v Hc Hv; try reflexivity; try discriminate.
  - destruct v as [| | | |vs| |]; try discriminate. destruct cur as [| | | |cs| |]; try discriminate.
    rewrite safe_struct. rewrite typed_struct in Hc, Hv. rewrite wf_struct in Hwf. apply andb_prop in Hwf as [_ Hwfs].
    rewrite sel_quiet_struct in Hq. eapply quiet_fields_law; eassumption.
  - cbn [wf] in Hwf. destruct t as [| | |n fs| | |]; try discriminate.
    destruct v as [| | | |vs| |]; try discriminate; [reflexivity|].
    change (typed (TStruct n fs) (VRec vs) = true) in Hv. rewrite safe_ptr_rec.
    apply (IH Hwf Hq); [|exact Hv].
    destruct cur; try discriminate; [now apply start_typed | exact Hc].
  - destruct v as [| | | | |xs|]; try discriminate. cbn [wf] in Hwf. cbn [typed] in Hv. cbn [safe_sel].
    rewrite forallb_forall in *. intros x Hx. apply (IH Hwf Hq); [now apply start_typed | now apply Hv].
Qed.

(* ------------------------------------------------------------ B. the scalar of a named field in the tree of a struct value *)

Lemma scal_lookup hid n fs : forall vs f ft x s,
  field_val fs vs f = Some (ft, x) -> hid n f = false -> scalar_of ft x = Some s ->
  LayoutTypes.lookup (scal_fields hid n fs vs) f = Some s.
Proof.
  induction fs as [|[m ft0] fs IH]; intros vs f ft x s Hf Hh Hs; [discriminate|].
  destruct vs as [|x0 vs]; [discriminate|]. cbn [field_val] in Hf. cbn [scal_fields].
  destruct (String.eqb (f_name m) f) eqn:E.
  - injection Hf as -> ->. apply String.eqb_eq in E. subst f. rewrite Hh, Hs. cbn [app LayoutTypes.lookup].
    rewrite String.eqb_refl. reflexivity.
  - assert (Hskip : forall r, LayoutTypes.lookup ((if hid n (f_name m) then [] else match scalar_of ft0 x0 with Some s0 => [(f_name m, s0)] | None => [] end) ++ r) f
                              = LayoutTypes.lookup r f).
    { intros r. destruct (hid n (f_name m)); [reflexivity|]. destruct (scalar_of ft0 x0); [|reflexivity].
      cbn [app LayoutTypes.lookup]. rewrite String.eqb_sym, E. reflexivity. }
    rewrite Hskip. eapply IH; eassumption.
Qed.

(* ------------------------------------------------------------ C. keep_ok on the current tables *)

Lemma safe_field_eq sel n m ft c x :
  safe_field sel n m ft c x =
  if survives_key m then (if f_omit m && is_empty x then JsonCodec.cond (sel n (f_name m)) (val_eqb c x) else safe_sel sel ft c x)
  else JsonCodec.cond (sel n (f_name m)) (val_eqb c x).
Proof.
  unfold safe_field, survives_key. destruct (f_enc m); [|reflexivity]. destruct (f_dec m); reflexivity.
Qed.

Definition keep_sel := sel_of keep_fields.

(* the header as a val: what the rules of FileHeader.Validate and the package's priorityCode literal say about it *)
Definition hdr_node (hv : val) : list rtree := nodes hidp_cur T_FileHeader hv.
Definition hdr_rules_ok (hv : val) : bool :=
  forallb (fun h => rec_validb hdr_core_rules (rscal h) && has_str "priorityCode" (bstr "01") h) (hdr_node hv).

Definition hdr_start : val := Eval vm_compute in field_default T_File "Header".

Ltac typed_fields_destruct H vs :=
  repeat (let x := fresh "x" in destruct vs as [|x vs]; [discriminate H|];
          cbn [typed_fields] in H; let Hx := fresh "Hx" in apply andb_prop in H as [Hx H]).

Lemma hdr_keep_of_rules hv :
  typed T_FileHeader hv = true -> hdr_rules_ok hv = true -> safe_sel keep_sel T_FileHeader hdr_start hv = true.
Proof.
  intros Ht Hr. destruct hv as [| | | |hs| |]; try discriminate.
  unfold hdr_rules_ok, hdr_node in Hr. unfold T_FileHeader in Ht, Hr |- *.
  rewrite nodes_struct in Hr. cbn [forallb] in Hr. rewrite andb_true_r in Hr. apply andb_prop in Hr as [Hrules Hprio].
  cbn [rscal] in Hrules. rewrite typed_struct in Ht.
  (* the four facts the rules give *)
  match type of Hrules with rec_validb _ ?r = true => set (R := r) in * end.
  pose proof (pins_sound hdr_core_rules "recordSize" (bstr "094") R ltac:(vm_compute; reflexivity) Hrules) as P1.
  pose proof (pins_sound hdr_core_rules "blockingFactor" (bstr "10") R ltac:(vm_compute; reflexivity) Hrules) as P2.
  pose proof (pins_sound hdr_core_rules "formatCode" (bstr "1") R ltac:(vm_compute; reflexivity) Hrules) as P3.
  pose proof (len_pinned_sound hdr_core_rules "FileIDModifier" R ltac:(vm_compute; reflexivity) Hrules) as P4.
  unfold has_str in Hprio. cbn [rscal] in Hprio. fold R in Hprio.
  clear Hrules.
  (* the header's fields *)
  typed_fields_destruct Ht hs. destruct hs; [|discriminate Ht]. clear Ht.
  repeat match goal with
         | H : typed TStr ?x = true |- _ => destruct x; try discriminate H; clear H
         | H : typed TInt ?x = true |- _ => destruct x; try discriminate H; clear H
         end.
  subst R. unfold gets in P1, P2, P3, P4.
  cbn [scal_fields hidp_cur sel_of inb existsb pair_eqb fst snd f_name scalar_of app String.eqb Ascii.eqb Bool.eqb andb orb
       LayoutTypes.lookup hid_fields] in P1, P2, P3, P4, Hprio.
  apply bytes_eqb_eq in Hprio. subst.
  unfold hdr_start. rewrite safe_struct. cbn [safe_fields].
  rewrite !safe_field_eq.
  cbn [survives_key f_enc f_dec f_omit f_name keep_sel sel_of inb existsb pair_eqb fst snd keep_fields JsonCodec.cond andb orb
       String.eqb Ascii.eqb Bool.eqb].
  repeat match goal with |- context [key_eqb ?a ?b] => let r := eval vm_compute in (key_eqb a b) in change (key_eqb a b) with r end.
  match type of P4 with ?s <> [] => destruct s; [exfalso; apply P4; reflexivity|] end.
  cbn [safe_sel andb is_empty]. rewrite !val_eqb_refl. cbn [andb].
  repeat match goal with |- context [if ?b then true else true] => destruct b end; reflexivity.
Qed.

(* the nodes under a named struct-valued field of the tree of a struct value *)
Lemma kid_lookup hid n fs : forall vs f ft x,
  field_val fs vs f = Some (ft, x) -> hid n f = false -> is_node_ty ft = true ->
  kget (kid_fields hid n fs vs) f = nodes hid ft x.
Proof.
  induction fs as [|[m ft0] fs IH]; intros vs f ft x Hf Hh Hn; [discriminate|].
  destruct vs as [|x0 vs]; [discriminate|]. cbn [field_val] in Hf. cbn [kid_fields].
  destruct (String.eqb (f_name m) f) eqn:E.
  - injection Hf as -> ->. apply String.eqb_eq in E. subst f. rewrite Hh, Hn. cbn [orb negb app kget].
    rewrite String.eqb_refl. reflexivity.
  - assert (Hskip : forall r, kget ((if hid n (f_name m) || negb (is_node_ty ft0) then [] else [(f_name m, nodes hid ft0 x0)]) ++ r) f = kget r f).
    { intros r. destruct (hid n (f_name m) || negb (is_node_ty ft0)); [reflexivity|].
      cbn [app kget]. rewrite String.eqb_sym, E. reflexivity. }
    rewrite Hskip. eapply IH; eassumption.
Qed.

Definition header_val (v : val) : option val :=
  match fld (T_File, v) "Header" with Some (_, hv) => Some hv | None => None end.

Lemma kid_header v hv :
  typed T_File v = true -> header_val v = Some hv -> kid (tree_of_file v) "Header" = hdr_node hv.
Proof.
  intros Ht Hh. destruct v as [| | | |vs| |]; try discriminate.
  unfold header_val in Hh. destruct (fld (T_File, VRec vs) "Header") as [[ft x]|] eqn:Ef; [|discriminate]. injection Hh as ->.
  unfold tree_of_file, view. unfold T_File in Ht, Ef |- *. rewrite nodes_struct. unfold kid. cbn [rkids].
  cbn [fld] in Ef.
  assert (Eft : ft = T_FileHeader).
  { revert Ef. rewrite typed_struct in Ht. typed_fields_destruct Ht vs.
    cbn [field_val f_name String.eqb Ascii.eqb Bool.eqb]. intros E. now injection E. }
  subst ft. rewrite (kid_lookup _ _ _ _ _ _ _ Ef); [reflexivity | vm_compute; reflexivity | vm_compute; reflexivity].
Qed.

Lemma quiet_control : sel_quiet keep_sel T_FileControl = true /\ wf T_FileControl = true
                      /\ sel_quiet keep_sel (TPtr T_ValidateOpts) = true /\ wf (TPtr T_ValidateOpts) = true.
Proof. vm_compute. repeat split; reflexivity. Qed.

Theorem keep_ok_intro v hv :
  typed T_File v = true ->
  header_val v = Some hv -> hdr_rules_ok hv = true ->
  a98_clean v = true ->
  keep_ok v = true.
Proof.
  intros Ht Hh Hr Ha. destruct v as [| | | |vs| |]; try discriminate.
  unfold keep_ok. fold keep_sel.
  let c := eval vm_compute in (start T_File) in change (start T_File) with c.
  unfold header_val in Hh. unfold a98_clean in Ha. fold keep_sel in Ha.
  unfold T_File in Ht, Hh, Ha |- *. rewrite typed_struct in Ht.
  typed_fields_destruct Ht vs. destruct vs; [|discriminate Ht]. clear Ht.
  cbn [fld field_val f_name String.eqb Ascii.eqb Bool.eqb] in Hh, Ha. injection Hh as ->.
  cbn [start] in Ha. apply andb_prop in Ha as [Ha1 Ha2].
  rewrite safe_struct. cbn [safe_fields]. rewrite !safe_field_eq.
  cbn [survives_key f_enc f_dec f_omit f_name keep_sel sel_of inb existsb pair_eqb fst snd keep_fields JsonCodec.cond andb orb
       String.eqb Ascii.eqb Bool.eqb].
  repeat match goal with |- context [key_eqb ?a ?b] => let r := eval vm_compute in (key_eqb a b) in change (key_eqb a b) with r end.
  cbn [andb]. fold keep_sel.
  destruct quiet_control as (Q1 & W1 & Q2 & W2).
  repeat (apply andb_true_intro; split); try reflexivity.
  - apply hdr_keep_of_rules; assumption.
  - exact Ha1.
  - exact Ha2.
  - apply (safe_quiet keep_sel T_FileControl W1 Q1); [vm_compute; reflexivity | assumption].
  - apply (safe_quiet keep_sel (TPtr T_ValidateOpts) W2 Q2); [reflexivity | assumption].
Qed.

Lemma header_val_typed v : typed T_File v = true -> exists hv, header_val v = Some hv.
Proof.
  intros Ht. destruct v as [| | | |vs| |]; try discriminate. unfold T_File in Ht. rewrite typed_struct in Ht.
  typed_fields_destruct Ht vs. unfold header_val, T_File. cbn [fld field_val f_name String.eqb Ascii.eqb Bool.eqb].
  eexists. reflexivity.
Qed.

(* the kept excused fields from validity: the header passes the regenerated rules of FileHeader.Validate ([valid]), its
   priorityCode is the package's literal ([in_domain]), no Addenda98 carries iatCorrectedData ([a98_clean]) *)
Theorem keep_ok_of_valid fhv bhv fv v :
  typed T_File v = true -> in_domain v = true -> valid fhv bhv fv v = true -> a98_clean v = true -> keep_ok v = true.
Proof.
  intros Ht Hd Hv Ha. destruct (header_val_typed v Ht) as [hv Hh].
  apply (keep_ok_intro v hv Ht Hh); [|exact Ha].
  unfold hdr_rules_ok. rewrite <- (kid_header v hv Ht Hh).
  unfold in_domain in Hd. cbv zeta in Hd. apply andb_prop in Hd as [Hd _]. apply andb_prop in Hd as [_ Hp].
  unfold valid in Hv. cbv zeta in Hv. repeat (apply andb_prop in Hv as [Hv ?]).
  apply forallb_and; assumption.
Qed.

(* C12 — model of ach.Flatten and File.FlattenBatches (file_flattener.go).

   Executable definitions only.  A batch is abstracted to what the algorithm
   looks at: its kind (Batcher or IATBatch), its header signature (the first 87
   columns of the rendered batch header, i.e. everything except the batch
   number), its batch number, its entries (trace number + opaque identity +
   the figures that feed the control totals) and, for ADV batches, its ADV
   entries (which the algorithm appends but never counts, keys or sorts).

   The two places where the Go code leaves the order open are parameters:
   * sort.Slice by entry count is a stable insertion sort up to 12 elements
     and unspecified among equal counts above that: the processing order is
     an argument of [run];
   * the consolidated batches are collected by ranging over a Go map: the
     list handed to the final sort by batch number is an arbitrary
     permutation ([flatten_spec]). *)
From ACH Require Import Bytes.
From Coq Require Import Permutation Sorted.

Record entry := mkEntry {
  e_trace : bytes;     (* EntryDetail.TraceNumber (Go string) *)
  e_core : bytes;      (* identity of the entry incl. its addenda (opaque) *)
  e_amount : Z;
  e_debit : bool;
  e_addenda : N;       (* number of addenda records *)
  e_cat : N            (* Category: 0 Forward, 1 Return, 2 NOC, 3 DishonoredReturn, 4 DishonoredReturnContested *)
}.

Inductive kind := KStd | KIAT.

Definition kind_eqb (a b : kind) : bool :=
  match a, b with KStd, KStd => true | KIAT, KIAT => true | _, _ => false end.

Record batch := mkBatch {
  b_kind : kind;
  b_sig : bytes;             (* GetHeaderSignature(): first 87 characters of Header.String() *)
  b_num : Z;                 (* Header.BatchNumber *)
  b_entries : list entry;    (* GetEntries() / IATBatch.Entries *)
  b_adv : list entry         (* GetADVEntries(); always [] for IAT batches *)
}.

(* Go's [<] on strings: bytewise lexicographic, a proper prefix is smaller *)
Fixpoint lex_ltb (a b : bytes) : bool :=
  match a, b with
  | _, [] => false
  | [], _ :: _ => true
  | x :: a', y :: b' => (x <? y)%N || ((x =? y)%N && lex_ltb a' b')
  end.

(* ---- stable insertion sort (sort.Slice on <= 12 elements; a stable sort has
   only one possible result, so the recursion scheme is immaterial) *)
Section Sort.
  Context {A : Type} (lt : A -> A -> bool).
  Fixpoint insert_by (x : A) (l : list A) : list A :=
    match l with
    | [] => [x]
    | y :: l' => if lt y x then y :: insert_by x l' else x :: y :: l'
    end.
  Fixpoint sort_by (l : list A) : list A :=
    match l with
    | [] => []
    | x :: l' => insert_by x (sort_by l')
    end.
End Sort.

(* ---- canMerge / Consume / Copy *)
Definition has_trace (t : bytes) (b : batch) : bool :=
  existsb (fun e => bytes_eqb t (e_trace e)) (b_entries b).

(* canMerge(a, b): no trace number of a occurs in b, and equal signatures *)
Definition can_merge (a b : batch) : bool :=
  forallb (fun e => negb (has_trace (e_trace e) b)) (b_entries a) && bytes_eqb (b_sig a) (b_sig b).

(* m.Consume(c): a type assertion guards the whole body; on a kind mismatch the
   error is returned (and ignored by the caller) and nothing is transferred *)
Definition consume (m c : batch) : batch :=
  if kind_eqb (b_kind m) (b_kind c) then
    mkBatch (b_kind m) (b_sig m)
            (if (b_num c <? b_num m)%Z then b_num c else b_num m)
            (b_entries m ++ b_entries c)
            (b_adv m ++ b_adv c)
  else m.

(* Copy(): NewBatch(header) (the header pointer is shared) + Consume(self) *)
Definition copy (b : batch) : batch :=
  consume (mkBatch (b_kind b) (b_sig b) (b_num b) [] []) b.

(* ---- the greedy loop over newBatchesByHeader (map from signature to the
   list of new batches with that signature, in creation order) *)
Definition groups := list (bytes * list batch).

(* first batch of the group that canMerge accepts consumes b *)
Fixpoint merge_into (b : batch) (g : list batch) : option (list batch) :=
  match g with
  | [] => None
  | m :: g' =>
      if can_merge b m then Some (consume m b :: g')
      else match merge_into b g' with
           | Some g'' => Some (m :: g'')
           | None => None
           end
  end.

Definition place (b : batch) (g : list batch) : list batch :=
  match merge_into b g with
  | Some g' => g'
  | None => g ++ [copy b]
  end.

Fixpoint step (b : batch) (gs : groups) : groups :=
  match gs with
  | [] => [(b_sig b, place b [])]
  | (s, g) :: gs' =>
      if bytes_eqb s (b_sig b) then (s, place b g) :: gs' else (s, g) :: step b gs'
  end.

Definition run (order : list batch) : groups :=
  fold_left (fun gs b => step b gs) order [].

Definition all_batches (gs : groups) : list batch := concat (map snd gs).

(* ---- building the new file *)
Definition trace_ltb (a b : entry) : bool := lex_ltb (e_trace a) (e_trace b).
Definition num_ltb (a b : batch) : bool := (b_num a <? b_num b)%Z.
Definition count_ltb (a b : batch) : bool := (length (b_entries a) <? length (b_entries b))%nat.

(* AddToFile: sort the entries by trace number, (re)build the control, reset
   the batch number to 0, append to Batches resp. IATBatches *)
Definition sort_entries (b : batch) : batch :=
  mkBatch (b_kind b) (b_sig b) (b_num b) (sort_by trace_ltb (b_entries b)) (b_adv b).

Definition is_std (b : batch) : bool := match b_kind b with KStd => true | KIAT => false end.
Definition is_iat (b : batch) : bool := negb (is_std b).

(* File.Create: every batch number is 0 (<= 1) at this point, so Batches and
   then IATBatches are numbered 1, 2, ... *)
Fixpoint renumber (n : Z) (l : list batch) : list batch :=
  match l with
  | [] => []
  | b :: l' => mkBatch (b_kind b) (b_sig b) n (b_entries b) (b_adv b) :: renumber (n + 1) l'
  end.

Definition finalize (all : list batch) : list batch :=
  let s := map sort_entries (sort_by num_ltb all) in
  renumber 1 (filter is_std s ++ filter is_iat s).

(* ---- the one check of Batch.Create / IATBatch.Create that consolidation can
   break: isCategory (a batch holds entries of one category; NOC entries are
   skipped).  AddToFile's error is ignored by Flatten, the batch is then missing
   from the new file and the count comparison (or ErrFileNoBatches) turns the
   whole operation into an error. *)
Definition cat_noc : N := 2%N.

Definition category_ok (b : batch) : bool :=
  match b_entries b with
  | e0 :: _ :: _ => forallb (fun e => (e_cat e =? cat_noc)%N || (e_cat e =? e_cat e0)%N) (b_entries b)
  | [_] => true
  | [] => match b_adv b with
          | a0 :: _ => forallb (fun a => (e_cat a =? e_cat a0)%N) (b_adv b)
          | [] => true
          end
  end.

Definition checked (out : list batch) : option (list batch) :=
  if forallb category_ok out then Some out else None.

(* ---- admissible processing orders and the specification relation *)
Definition count_le (a b : batch) : Prop := count_ltb b a = false.

Definition admissible (inp order : list batch) : Prop :=
  Permutation order inp /\ Sorted count_le order.

Definition flatten_spec (inp out : list batch) : Prop :=
  exists order all,
    admissible inp order /\ Permutation all (all_batches (run order)) /\ out = finalize all.

(* the order Go takes for at most 12 batches *)
Definition flatten_stable (inp : list batch) : list batch :=
  finalize (all_batches (run (sort_by count_ltb inp))).

(* ---- certificate check for more than 12 batches: the harness replays
   sort.Slice on the entry counts and passes the resulting index permutation
   as an untrusted hint *)
Fixpoint sorted_countb (l : list batch) : bool :=
  match l with
  | [] => true
  | a :: l' => match l' with
               | [] => true
               | b :: _ => negb (count_ltb b a) && sorted_countb l'
               end
  end.

Fixpoint nodupb (l : list nat) : bool :=
  match l with
  | [] => true
  | x :: l' => negb (existsb (Nat.eqb x) l') && nodupb l'
  end.

Definition perm_hintb (n : nat) (hint : list nat) : bool :=
  (length hint =? n)%nat && forallb (fun i => (i <? n)%nat) hint && nodupb hint.

Definition dummy_batch : batch := mkBatch KStd [] 0 [] [].

Definition apply_hint (inp : list batch) (hint : list nat) : list batch :=
  map (fun i => nth i inp dummy_batch) hint.

Definition flatten_hint (inp : list batch) (hint : list nat) : option (list batch) :=
  if perm_hintb (length inp) hint && sorted_countb (apply_hint inp hint)
  then Some (finalize (all_batches (run (apply_hint inp hint))))
  else None.

(* what the correspondence compares: None = Flatten returns an error *)
Definition flatten_stable_checked (inp : list batch) : option (list batch) :=
  checked (flatten_stable inp).
Definition flatten_hint_checked (inp : list batch) (hint : list nat) : option (option (list batch)) :=
  option_map checked (flatten_hint inp hint).

(* ---- observations used by the theorems *)
Definition ids_of (b : batch) : list (bytes * entry) := map (pair (b_sig b)) (b_entries b).
Definition ids (l : list batch) : list (bytes * entry) := flat_map ids_of l.
Definition adv_ids_of (b : batch) : list (bytes * entry) := map (pair (b_sig b)) (b_adv b).
Definition adv_ids (l : list batch) : list (bytes * entry) := flat_map adv_ids_of l.

Definition sumZ (l : list Z) : Z := fold_right Z.add 0%Z l.
Definition entry_addenda_count (l : list batch) : Z :=
  sumZ (map (fun p => (1 + Z.of_N (e_addenda (snd p)))%Z) (ids l)).
Definition debit_total (l : list batch) : Z :=
  sumZ (map (fun p => if e_debit (snd p) then e_amount (snd p) else 0%Z) (ids l)).
Definition credit_total (l : list batch) : Z :=
  sumZ (map (fun p => if e_debit (snd p) then 0%Z else e_amount (snd p)) (ids l)).

Definition traces (b : batch) : list bytes := map e_trace (b_entries b).

(* two batches share a trace number *)
Definition shares (a b : batch) : bool :=
  existsb (fun e => has_trace (e_trace e) b) (b_entries a).

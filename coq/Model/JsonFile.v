(* C07 (phase 2) — model of what FileFromJSONWith does AFTER the struct decode, at the
   level of file trees whose records are field maps ([recval], the input of the layout
   renderer Codec/Layout.v).  Executable definitions only; proofs are in JsonFileFacts.v.

   rtree       a struct value as a tree: its scalar fields (strings, ints, bools as 0/1)
               by Go field name, and its struct-valued fields ("kids": a pointer is a
               list of length 0 or 1, a slice a list; nil elements of slices are dropped)
   view hid    the tree of a JsonCodec value, without the fields listed in [hid]
               (fields the decoder cannot restore AND that neither this model nor the
               renderer reads: record-level option pointers, categories, ...)
   post        FileFromJSONWith after json.Unmarshal: options, header, setBatchesFromJSON
               (ids, options, type codes, CTX/ATX name packing, build, ConvertBatchType),
               overwriteDateTimeFields, control selection, Create, Validate
   lines/write Writer.Write on a tree, through [render] with the regenerated layouts

   The validators called on the way (FileHeader.Validate, BatchHeader.Validate,
   File.Validate) are abstract predicates (Section variables). *)
From Coq Require Import String Ascii List Bool ZArith NArith.
Import ListNotations.
From ACH Require Import Bytes JsonCodec JsonSurvive JsonPostTable Layout FileStruct.
From ACH Require Arith.
Local Open Scope string_scope.
Local Open Scope list_scope.

(* ------------------------------------------------------------ trees *)

Inductive rtree := RT (name : string) (scal : recval) (kids : list (string * list rtree)).

Definition rname (r : rtree) : string := match r with RT n _ _ => n end.
Definition rscal (r : rtree) : recval := match r with RT _ s _ => s end.
Definition rkids (r : rtree) : list (string * list rtree) := match r with RT _ _ k => k end.

Definition scalar_of (t : ty) (x : val) : option value :=
  match t, x with
  | TStr, VStr s => Some (VS s)
  | TInt, VInt z => Some (VI z)
  | TBool, VBool b => Some (VI (if b then 1 else 0)%Z)
  | _, _ => None
  end.

Definition is_node_ty (t : ty) : bool :=
  match t with TStruct _ [] => false | TStruct _ _ | TPtr _ | TSlice _ => true | _ => false end.

(* the nodes a value of type t stands for: a struct is one node, a nil pointer none, a slice its elements' nodes *)
Fixpoint nodes (hid : hidp) (t : ty) (v : val) : list rtree :=
  match t with
  | TStruct n fs =>
      match v with
      | VRec vs =>
          [ RT n
              ((fix go (fs : list (fmeta * ty)) (vs : list val) : recval :=
                  match fs, vs with
                  | (m, ft) :: fs', x :: vs' =>
                      (if hid n (f_name m) then []
                       else match scalar_of ft x with Some s => [(f_name m, s)] | None => [] end) ++ go fs' vs'
                  | _, _ => []
                  end) fs vs)
              ((fix go (fs : list (fmeta * ty)) (vs : list val) : list (string * list rtree) :=
                  match fs, vs with
                  | (m, ft) :: fs', x :: vs' =>
                      (if hid n (f_name m) || negb (is_node_ty ft) then [] else [(f_name m, nodes hid ft x)]) ++ go fs' vs'
                  | _, _ => []
                  end) fs vs) ]
      | _ => []
      end
  | TPtr t' => match v with VNil => [] | _ => nodes hid t' v end
  | TSlice t' => match v with VArr xs => flat_map (nodes hid t') xs | _ => [] end
  | _ => []
  end.

Definition empty_node : rtree := RT "" [] [].
Definition view (hid : hidp) (t : ty) (v : val) : rtree :=
  match nodes hid t v with [r] => r | _ => empty_node end.

(* ------------------------------------------------------------ access by name *)

Fixpoint rset (r : recval) (f : string) (v : value) : recval :=
  match r with
  | [] => [(f, v)]
  | (g, w) :: r' => if String.eqb f g then (g, v) :: r' else (g, w) :: rset r' f v
  end.

Fixpoint kget (ks : list (string * list rtree)) (k : string) : list rtree :=
  match ks with
  | [] => []
  | (g, ns) :: ks' => if String.eqb k g then ns else kget ks' k
  end.

Fixpoint kset (ks : list (string * list rtree)) (k : string) (ns : list rtree) : list (string * list rtree) :=
  match ks with
  | [] => [(k, ns)]
  | (g, old) :: ks' => if String.eqb k g then (g, ns) :: ks' else (g, old) :: kset ks' k ns
  end.

Definition sget (r : rtree) (f : string) : bytes := gets (rscal r) f.
Definition iget (r : rtree) (f : string) : Z := geti (rscal r) f.
Definition sset (r : rtree) (f : string) (s : bytes) : rtree := RT (rname r) (rset (rscal r) f (VS s)) (rkids r).
Definition iset (r : rtree) (f : string) (z : Z) : rtree := RT (rname r) (rset (rscal r) f (VI z)) (rkids r).
Definition kid (r : rtree) (k : string) : list rtree := kget (rkids r) k.
Definition set_kid (r : rtree) (k : string) (ns : list rtree) : rtree := RT (rname r) (rscal r) (kset (rkids r) k ns).
(* apply f to every node stored under k (nothing happens if there is no such field) *)
Fixpoint kmap (ks : list (string * list rtree)) (k : string) (f : rtree -> rtree) : list (string * list rtree) :=
  match ks with
  | [] => []
  | (g, ns) :: ks' => if String.eqb k g then (g, map f ns) :: ks' else (g, ns) :: kmap ks' k f
  end.
Definition map_kid (r : rtree) (k : string) (f : rtree -> rtree) : rtree := RT (rname r) (rscal r) (kmap (rkids r) k f).

Definition has_str (f : string) (s : bytes) (r : rtree) : bool :=
  match LayoutTypes.lookup (rscal r) f with Some (VS t) => bytes_eqb t s | _ => false end.
Definition has_int (f : string) (z : Z) (r : rtree) : bool :=
  match LayoutTypes.lookup (rscal r) f with Some (VI y) => Z.eqb y z | _ => false end.

Definition value_eqb (a b : value) : bool :=
  match a, b with VS x, VS y => bytes_eqb x y | VI x, VI y => Z.eqb x y | _, _ => false end.

Fixpoint recval_eqb (a b : recval) : bool :=
  match a, b with
  | [], [] => true
  | (f, v) :: a', (g, w) :: b' => String.eqb f g && value_eqb v w && recval_eqb a' b'
  | _, _ => false
  end.

Fixpoint rtree_eqb (a b : rtree) : bool :=
  match a, b with
  | RT n s k, RT n' s' k' =>
      String.eqb n n' && recval_eqb s s'
      && (fix go (k k' : list (string * list rtree)) : bool :=
            match k, k' with
            | [], [] => true
            | (g, ns) :: r, (g', ns') :: r' =>
                String.eqb g g'
                && (fix go2 (ns ns' : list rtree) : bool :=
                      match ns, ns' with
                      | [], [] => true
                      | x :: xs, y :: ys => rtree_eqb x y && go2 xs ys
                      | _, _ => false
                      end) ns ns'
                && go r r'
            | _, _ => false
            end) k k'
  end.

Definition bstr (s : string) : bytes := bytes_of_string s.
Definition sec_is (h : rtree) (sec : string) : bool := bytes_eqb (sget h "StandardEntryClassCode") (bstr sec).

(* ------------------------------------------------------------ options *)

(* a *ValidateOpts is a list of 0 or 1 nodes whose scalars are the boolean fields (0/1) *)
Definition flag (o : list rtree) (f : string) : bool :=
  match o with r :: _ => negb (iget r f =? 0)%Z | [] => false end.

Definition b2z (b : bool) : Z := if b then 1%Z else 0%Z.

(* ValidateOpts.merge: nil gives the other; otherwise the OR of the listed boolean fields *)
Definition merge_rt (fields : list string) (a b : list rtree) : list rtree :=
  match a, b with
  | [], _ => b
  | _, [] => a
  | x :: _, y :: _ => [ RT "ValidateOpts" (map (fun f => (f, VI (b2z (flag [x] f || flag [y] f)))) fields) [] ]
  end.

(* FileFromJSONWith: out.SetValidation(opts); out.SetValidation(out.validateOpts.merge(fromJSON));
   ... if opts != nil { out.SetValidation(opts) }  — options passed in replace the merged set *)
Definition final_opts (fields : list string) (passed from_json : list rtree) : list rtree :=
  match passed with
  | [] => merge_rt fields passed from_json
  | _ => passed
  end.

(* ------------------------------------------------------------ results *)

Inductive outcome (A : Type) := Good (a : A) | Bad (stage : string).
Arguments Good {A} a.
Arguments Bad {A} stage.

Definition bind {A B} (x : outcome A) (f : A -> outcome B) : outcome B :=
  match x with Good a => f a | Bad s => Bad s end.

Fixpoint map_out {A B} (f : A -> outcome B) (l : list A) : outcome (list B) :=
  match l with
  | [] => Good []
  | x :: r => bind (f x) (fun y => bind (map_out f r) (fun ys => Good (y :: ys)))
  end.

(* ------------------------------------------------------------ setEntryRecordType & co *)

Definition set_type_codes (codes : list (string * string)) (e : rtree) : rtree :=
  fold_left (fun e fc => map_kid e (fst fc) (fun a => sset a "TypeCode" (bstr (snd fc)))) codes e.

Definition codes_for (T : post_table) (entry_struct : string) : list (string * string) :=
  match find (fun p => String.eqb (fst p) entry_struct) (pt_typecodes T) with Some p => snd p | None => [] end.

(* setADVEntryRecordType *)
Definition set_adv_category (T : post_table) (e : rtree) : rtree :=
  fold_left (fun e gc => match kid e (fst gc) with [] => sset e "Category" (bstr (snd gc)) | _ => e end)
            (pt_adv_category T) e.

(* ------------------------------------------------------------ CTX / ATX: IndividualName = count(4) company(16) reserved(2) *)

Definition catx_field (name : bytes) : bytes :=
  if (rune_count name <? 5)%nat then name else trim (firstn 4 name).

Definition set_catx_records (e : rtree) (i : Z) : rtree :=
  let cur := sget e "IndividualName" in
  let count := numericField i 4 in
  let e' := iset e "AddendaRecordIndicator" i in
  sset e' "IndividualName"
       (if (4 <? rune_count cur)%nat then count ++ skipn 4 cur else count ++ alphaField [32%N] 16 ++ [32%N; 32%N]).

Definition set_catx_company (e : rtree) (s : bytes) : rtree :=
  let cur := sget e "IndividualName" in
  sset e "IndividualName"
       (if (4 <? rune_count cur)%nat then firstn 4 cur ++ alphaField s 16 ++ [32%N; 32%N]
        else [48%N; 48%N; 48%N; 48%N] ++ alphaField s 16 ++ [32%N; 32%N]).

Definition catx_pack (e : rtree) : rtree :=
  let ind := iget e "AddendaRecordIndicator" in
  let name := sget e "IndividualName" in
  let fld := atoi (catx_field name) in
  let e1 := if (0 <? ind)%Z && (fld =? 0)%Z then set_catx_records e ind else e in
  let e2 := if (ind =? 0)%Z && (0 <? fld)%Z then set_catx_records e1 fld else e1 in
  if (fld =? 0)%Z then set_catx_company e2 name else e2.

(* ------------------------------------------------------------ datetimeParse *)

Definition dig (b : N) : option N := if is_digit b then Some (b - 48)%N else None.
Definition two_digits (a b : N) : option N :=
  match dig a, dig b with Some x, Some y => Some (10 * x + y)%N | _, _ => None end.

Definition days_in (year month : N) : N :=
  let leap := (((year mod 4 =? 0) && negb (year mod 100 =? 0)) || (year mod 400 =? 0))%N in
  if (month =? 2)%N then (if leap then 29 else 28)%N
  else if ((month =? 4) || (month =? 6) || (month =? 9) || (month =? 11))%N then 30%N else 31%N.

(* what follows the seconds: an optional fraction ([.,] and at least one digit), then Z or +hh:mm / -hh:mm
   (hh <= 24, mm <= 60), then nothing.  Returns the zone offset in seconds east of UTC and whether the fraction is zero. *)
Fixpoint skip_digits (s : bytes) : bytes :=
  match s with b :: r => if is_digit b then skip_digits r else s | [] => [] end.

Fixpoint all_zero_digits (s : bytes) : bool :=
  match s with b :: r => if is_digit b then (b =? 48)%N && all_zero_digits r else true | [] => true end.

Definition zone_tail (s : bytes) : option Z :=
  match s with
  | [z] => if (z =? 90)%N then Some 0%Z else None
  | [sg; h1; h2; c; m1; m2] =>
      if negb (c =? 58)%N then None else
      match two_digits h1 h2, two_digits m1 m2 with
      | Some hh, Some mm =>
          if ((hh <=? 24) && (mm <=? 60))%N then
            let off := (Z.of_N hh * 3600 + Z.of_N mm * 60)%Z in
            if (sg =? 43)%N then Some off else if (sg =? 45)%N then Some (- off)%Z else None
          else None
      | _, _ => None
      end
  | _ => None
  end.

Definition frac_zone (s : bytes) : option (Z * bool) :=
  match s with
  | c :: d :: r =>
      if ((c =? 46) || (c =? 44))%N && is_digit d
      then match zone_tail (skip_digits (d :: r)) with Some z => Some (z, all_zero_digits (d :: r)) | None => None end
      else match zone_tail s with Some z => Some (z, true) | None => None end
  | _ => match zone_tail s with Some z => Some (z, true) | None => None end
  end.

Record stamp := mkstamp { st_yy : bytes; st_mm : bytes; st_dd : bytes; st_hh : bytes; st_mi : bytes }.

(* after "YYYY-MM-DDT" and the hour: ":MM:SS" and the tail *)
Definition time_tail (year month day hour : N) (ybytes mbytes dbytes : bytes) (s : bytes) : option stamp :=
  match s with
  | c1 :: i1 :: i2 :: c2 :: s1 :: s2 :: rest =>
      if negb ((c1 =? 58) && (c2 =? 58))%N then None else
      match two_digits i1 i2, two_digits s1 s2, frac_zone rest with
      | Some mi, Some sec, Some (off, frac0) =>
          if ((1 <=? month) && (month <=? 12) && (1 <=? day) && (day <=? days_in year month)
              && (hour <? 24) && (mi <? 60) && (sec <? 60))%N
          then
            (* !t.IsZero(): the instant is not January 1, year 1, 00:00:00 UTC *)
            let local := (Z.of_N hour * 3600 + Z.of_N mi * 60 + Z.of_N sec)%Z in
            if ((year =? 1) && (month =? 1) && (day =? 1))%N && (local - off =? 0)%Z && frac0 then None
            else Some (mkstamp ybytes mbytes dbytes (numericField (Z.of_N hour) 2) [i1; i2])
          else None
      | _, _, _ => None
      end
  | _ => None
  end.

(* time.Parse with any of the three layouts (the third subsumes the other two): the hour may have one digit *)
Definition datetime_parse (s : bytes) : option stamp :=
  match s with
  | y1 :: y2 :: y3 :: y4 :: c1 :: m1 :: m2 :: c2 :: d1 :: d2 :: ct :: h1 :: rest =>
      if negb ((c1 =? 45) && (c2 =? 45) && (ct =? 84))%N then None else
      match two_digits y1 y2, two_digits y3 y4, two_digits m1 m2, two_digits d1 d2, dig h1 with
      | Some yh, Some yl, Some mo, Some da, Some hd1 =>
          let year := (100 * yh + yl)%N in
          match rest with
          | h2 :: rest' =>
              match dig h2 with
              | Some hd2 => time_tail year mo da (10 * hd1 + hd2)%N [y3; y4] [m1; m2] [d1; d2] rest'
              | None => time_tail year mo da hd1 [y3; y4] [m1; m2] [d1; d2] rest
              end
          | [] => None
          end
      | _, _, _, _, _ => None
      end
  | _ => None
  end.

Definition fmt_date (t : stamp) : bytes := st_yy t ++ st_mm t ++ st_dd t.   (* t.Format("060102") *)
Definition fmt_time (t : stamp) : bytes := st_hh t ++ st_mi t.             (* t.Format("1504") *)

Definition trim_prefix (p s : bytes) : bytes := if is_prefix p s then skipn (length p) s else s.

Definition norm_date (r : rtree) (f : string) : rtree :=
  match datetime_parse (sget r f) with Some t => sset r f (fmt_date t) | None => r end.
Definition norm_time (r : rtree) (f : string) : rtree :=
  match datetime_parse (sget r f) with Some t => sset r f (fmt_time t) | None => r end.
Definition SD : bytes := [83%N; 68%N].
Definition norm_descriptive (r : rtree) : rtree :=
  match datetime_parse (trim_prefix SD (sget r "CompanyDescriptiveDate")) with
  | Some t => sset r "CompanyDescriptiveDate" (SD ++ fmt_time t)
  | None => r
  end.

Definition overwrite_dates (f : rtree) : rtree :=
  let f1 := map_kid f "Header" (fun h => norm_time (norm_date h "FileCreationDate") "FileCreationTime") in
  let f2 := map_kid f1 "Batches" (fun b => map_kid b "Header" (fun h => norm_date (norm_descriptive h) "EffectiveEntryDate")) in
  map_kid f2 "IATBatches" (fun b => map_kid b "Header" (fun h => norm_date h "EffectiveEntryDate")).

(* ------------------------------------------------------------ build *)

Local Open Scope Z_scope.

Definition P10 : Z := 10000000000.

(* aba8 *)
Definition aba8 (rtn : bytes) : bytes :=
  let n := rune_count rtn in
  if (10 <? n)%nat then []
  else if (n =? 10)%nat then
    match rtn with
    | c :: _ => if ((c =? 48) || (c =? 49))%N then firstn 8 (skipn 1 rtn) else []
    | [] => []
    end
  else if negb (n =? 8)%nat && negb (n =? 9)%nat then []
  else firstn 8 rtn.

Definition rdfi_num (e : rtree) : Z := atoi (aba8 (sget e "RDFIIdentification")).
Definition entry_hash (es : list rtree) : Z := Z.rem (fold_left (fun h e => h + rdfi_num e) es 0) P10.

Definition zmem (c : Z) (l : list Z) : bool := existsb (Z.eqb c) l.

(* calculateBatchAmounts: a Go switch takes the first matching case *)
Definition credit_of (cr db : list Z) (e : rtree) : Z :=
  if zmem (iget e "TransactionCode") cr then iget e "Amount" else 0.
Definition debit_of (cr db : list Z) (e : rtree) : Z :=
  if zmem (iget e "TransactionCode") cr then 0 else if zmem (iget e "TransactionCode") db then iget e "Amount" else 0.
Definition zsum (f : rtree -> Z) (es : list rtree) : Z := fold_left (fun a e => a + f e) es 0.

(* calculateADVBatchAmounts: two independent ifs *)
Definition adv_credit_codes : list Z := [81; 83; 85; 87].
Definition adv_debit_codes : list Z := [82; 84; 86; 88].

Definition std_addenda : list string :=
  [ "Addenda02"; "Addenda05"; "Addenda98"; "Addenda98Refused"; "Addenda99"; "Addenda99Dishonored"; "Addenda99Contested" ].
Definition iat_addenda : list string :=
  [ "Addenda10"; "Addenda11"; "Addenda12"; "Addenda13"; "Addenda14"; "Addenda15"; "Addenda16";
    "Addenda17"; "Addenda18"; "Addenda98"; "Addenda99" ].

Definition addenda_count (order : list string) (e : rtree) : Z :=
  fold_left (fun n k => n + Z.of_nat (length (kid e k))) order 0.

Definition trace_field (e : rtree) : bytes := stringField (sget e "TraceNumber") 15.

(* the addenda whose TraceNumber EntryDetail.SetTraceNumber copies *)
Definition trace_addenda : list string :=
  [ "Addenda02"; "Addenda98"; "Addenda98Refused"; "Addenda99"; "Addenda99Contested"; "Addenda99Dishonored" ].

Definition set_trace (copy_to : list string) (e : rtree) (odfi : bytes) (seq : Z) : rtree :=
  let tn := stringField odfi 8 ++ numericField seq 7 in
  fold_left (fun e k => map_kid e k (fun a => sset a "TraceNumber" tn)) copy_to (sset e "TraceNumber" tn).

(* opts == nil, or neither BypassOriginValidation nor CustomTraceNumbers *)
Definition auto_trace (o : list rtree) : bool :=
  match o with [] => true | _ => negb (flag o "BypassOriginValidation") && negb (flag o "CustomTraceNumbers") end.

Fixpoint number_from (k : Z) (as_ : list rtree) (eds : Z) : list rtree :=
  match as_ with
  | [] => []
  | a :: r => iset (iset a "SequenceNumber" k) "EntryDetailSequenceNumber" eds :: number_from (k + 1) r eds
  end.

Definition eds_of (e : rtree) : Z := parseNumField (skipn 8 (trace_field e)).

(* the per-entry loop of Batch.build (non-ADV) *)
Fixpoint build_entries (o : list rtree) (odfi : bytes) (seq : Z) (es : list rtree) : outcome (list rtree) :=
  match es with
  | [] => Good []
  | e :: r =>
      match atoi_opt (firstn 8 (trace_field e)), atoi_opt (firstn 8 (stringField odfi 8)) with
      | Some cur, Some hod =>
          let e1 := if negb (cur =? hod) && auto_trace o then set_trace trace_addenda e odfi seq else e in
          let e2 := set_kid e1 "Addenda05" (number_from 1 (kid e1 "Addenda05") (eds_of e1)) in
          bind (build_entries o odfi (seq + 1) r) (fun r' => Good (e2 :: r'))
      | _, _ => Bad "build:atoi"
      end
  end.

(* the ADV loop: SequenceNumber := seq; error once seq exceeds 9999 *)
Fixpoint build_adv_entries (seq : Z) (es : list rtree) : outcome (list rtree) :=
  match es with
  | [] => Good []
  | e :: r =>
      if (9999 <? seq + 1) then Bad "build:advcount"
      else bind (build_adv_entries (seq + 1) r) (fun r' => Good (iset e "SequenceNumber" seq :: r'))
  end.

Definition adv_count (es : list rtree) : Z := fold_left (fun n e => n + 1 + Z.of_nat (length (kid e "Addenda99"))) es 0.

(* ---- upsertOffsets helpers *)
Definition upper_byte (b : N) : N := if ((97 <=? b) && (b <=? 122))%N then (b - 32)%N else b.
Definition OFFSET : bytes := [79; 70; 70; 83; 69; 84]%N.
(* strings.EqualFold(name, "OFFSET") on ASCII (the long s and other fold partners are not modelled) *)
Definition is_offset_name (s : bytes) : bool := bytes_eqb (map upper_byte s) OFFSET.

(* CheckRoutingNumber *)
Definition routing_ok (rn : bytes) : bool :=
  match rn with
  | [] => false
  | _ => (rune_count rn =? 9)%nat && (ACH.Model.Arith.calc_check_digit rn =? Z.of_N (last rn 0%N) - 48)
  end.

(* fmt.Sprintf("%15.15d", n) *)
Definition pad15 (n : Z) : bytes :=
  let body := itoa (Z.abs n) in
  (if n <? 0 then [45%N] else []) ++ zeros (15 - length body) ++ body.

Definition last_trace (es : list rtree) : Z :=
  match rev es with
  | e :: _ => match atoi_opt (sget e "TraceNumber") with Some n => n | None => 0 end
  | [] => 0
  end.

Definition checking : bytes := [99; 104; 101; 99; 107; 105; 110; 103]%N.
Definition savings : bytes := [115; 97; 118; 105; 110; 103; 115]%N.

(* everything the model takes from the regenerated tables, and the abstract validators *)
Record penv := mkpenv {
  pe_table : post_table;
  pe_rm_credit : list Z;            (* upsertOffsets: codes whose amount is taken off the credit total *)
  pe_deb_chk : Z; pe_deb_sav : Z; pe_cre_chk : Z; pe_cre_sav : Z;   (* transaction codes of the offset entries per account type *)
  pe_new_entry_detail : rtree;      (* NewEntryDetail() *)
  pe_merge_fields : list string;    (* ValidateOpts.merge (Gen/JsonTags.opts_merge_fields) *)
  pe_credit : list Z; pe_debit : list Z;   (* calculateBatchAmounts (Gen/OffsetTable) *)
  pe_new_batch_control : rtree; pe_new_adv_batch_control : rtree;
  pe_new_file_control : rtree; pe_new_adv_file_control : rtree; pe_zero_adv_file_control : rtree;
                                    (* the constructors' values (from the regenerated decode-time defaults) *)
  pe_file_header_valid : list rtree -> rtree -> bool;    (* FileHeader.Validate() == nil, under the options *)
  pe_batch_header_valid : list rtree -> rtree -> bool;   (* BatchHeader / IATBatchHeader.Validate() == nil *)
  pe_file_valid : rtree -> bool }.                       (* File.Validate() == nil *)

Section Post.
  Variable E : penv.
  Let T := pe_table E.
  Let rm_credit_codes := pe_rm_credit E.
  Let deb_chk := pe_deb_chk E.
  Let deb_sav := pe_deb_sav E.
  Let cre_chk := pe_cre_chk E.
  Let cre_sav := pe_cre_sav E.
  Let new_entry_detail := pe_new_entry_detail E.
  Let merge_fields := pe_merge_fields E.
  Let credit_codes := pe_credit E.
  Let debit_codes := pe_debit E.
  Let new_batch_control := pe_new_batch_control E.
  Let new_adv_batch_control := pe_new_adv_batch_control E.
  Let new_file_control := pe_new_file_control E.
  Let new_adv_file_control := pe_new_adv_file_control E.
  Let zero_adv_file_control := pe_zero_adv_file_control E.
  Let file_header_valid := pe_file_header_valid E.
  Let batch_header_valid := pe_batch_header_valid E.
  Let file_valid := pe_file_valid E.

  Definition header_of (b : rtree) : rtree := match kid b "Header" with h :: _ => h | [] => empty_node end.

  (* the removal loop of upsertOffsets (with Entries[i+1:] and i--: every OFFSET entry is removed) *)
  Fixpoint remove_offsets (es : list rtree) (c : rtree) : list rtree * rtree :=
    match es with
    | [] => ([], c)
    | e :: r =>
        if is_offset_name (sget e "IndividualName") then
          let c1 := if zmem (iget e "TransactionCode") rm_credit_codes
                    then iset c "TotalCreditEntryDollarAmount" (iget c "TotalCreditEntryDollarAmount" - iget e "Amount")
                    else iset c "TotalDebitEntryDollarAmount" (iget c "TotalDebitEntryDollarAmount" - iget e "Amount") in
          remove_offsets r (iset c1 "EntryAddendaCount" (iget c1 "EntryAddendaCount" - 1))
        else let '(r', c') := remove_offsets r c in (e :: r', c')
    end.

  Definition offset_entry (off : rtree) (kept : list rtree) (code amount trace : Z) : rtree :=
    let rn := sget off "RoutingNumber" in
    let e1 := sset new_entry_detail "RDFIIdentification" (firstn 8 rn) in
    let e2 := sset e1 "CheckDigit" (firstn 1 (skipn 8 rn)) in
    let e3 := sset e2 "DFIAccountNumber" (sget off "AccountNumber") in
    let e4 := sset e3 "IdentificationNumber" [] in
    let e5 := sset e4 "IndividualName" OFFSET in
    let e6 := sset e5 "DiscretionaryData" (sget off "Description") in
    let e7 := match kept with e :: _ => sset e6 "Category" (sget e "Category") | [] => e6 end in
    iset (iset (sset e7 "TraceNumber" (pad15 trace)) "Amount" amount) "TransactionCode" code.

  (* upsertOffsets on a non-ADV batch whose entries and control have just been rebuilt *)
  Definition upsert_offsets (b : rtree) (es : list rtree) (c : rtree) (off : rtree) : outcome rtree :=
    if negb (routing_ok (sget off "RoutingNumber")) then Bad "build:offset-routing"
    else
      let '(kept, c0) := remove_offsets es c in
      let at_ := sget off "AccountType" in
      let chk := bytes_eqb at_ checking in
      if negb chk && negb (bytes_eqb at_ savings) then Bad "build:offset-type"
      else
        let lastn := last_trace kept in
        let damt := iget c0 "TotalCreditEntryDollarAmount" in
        let camt := iget c0 "TotalDebitEntryDollarAmount" in
        let ded := offset_entry off kept (if chk then deb_chk else deb_sav) damt (lastn + 1) in
        let ced := offset_entry off kept (if chk then cre_chk else cre_sav) camt (lastn + (if damt =? 0 then 1 else 2)) in
        let es1 := if damt =? 0 then kept else kept ++ [ded] in
        let c1 := if damt =? 0 then c0
                  else iset (iset c0 "EntryAddendaCount" (iget c0 "EntryAddendaCount" + 1))
                            "TotalDebitEntryDollarAmount" (iget c0 "TotalDebitEntryDollarAmount" + damt) in
        let es2 := if camt =? 0 then es1 else es1 ++ [ced] in
        let c2 := if camt =? 0 then c1
                  else iset (iset c1 "EntryAddendaCount" (iget c1 "EntryAddendaCount" + 1))
                            "TotalCreditEntryDollarAmount" (iget c1 "TotalCreditEntryDollarAmount" + camt) in
        let c3 := iset (iset c2 "ServiceClassCode" 200) "EntryHash" (entry_hash es2) in
        Good (set_kid (set_kid (map_kid b "Header" (fun h => iset h "ServiceClassCode" 200)) "Entries" es2) "Control" [c3]).

  (* Batch.build under the batch's options [o] (already stored on the batch) *)
  Definition build_batch (o : list rtree) (b : rtree) : outcome rtree :=
    let h := header_of b in
    if negb (batch_header_valid o h) then Bad "build:header"
    else match kid b "Entries", kid b "ADVEntries" with
         | [], [] => Bad "build:entries"
         | es, advs =>
           if negb (sec_is h "ADV") then
             bind (build_entries o (sget h "ODFIIdentification") 1 es) (fun es' =>
               let c0 := new_batch_control in
               let c1 := iset c0 "ServiceClassCode" (iget h "ServiceClassCode") in
               let c2 := sset c1 "CompanyIdentification" (sget h "CompanyIdentification") in
               let c3 := sset c2 "ODFIIdentification" (sget h "ODFIIdentification") in
               let c4 := iset c3 "BatchNumber" (iget h "BatchNumber") in
               let c5 := iset c4 "EntryAddendaCount" (fold_left (fun n e => n + 1 + addenda_count std_addenda e) es 0) in
               let c6 := iset c5 "EntryHash" (entry_hash es') in
               let c7 := iset c6 "TotalCreditEntryDollarAmount" (zsum (credit_of credit_codes debit_codes) es') in
               let c8 := iset c7 "TotalDebitEntryDollarAmount" (zsum (debit_of credit_codes debit_codes) es') in
               match kid b "offset" with
               | [] => Good (set_kid (set_kid b "Entries" es') "Control" [c8])
               | off :: _ => upsert_offsets b es' c8 off
               end)
           else
             bind (build_adv_entries 1 advs) (fun advs' =>
               let c0 := new_adv_batch_control in
               let c1 := iset c0 "ServiceClassCode" (iget h "ServiceClassCode") in
               let c2 := sset c1 "ACHOperatorData" (sget h "CompanyName") in
               let c3 := sset c2 "ODFIIdentification" (sget h "ODFIIdentification") in
               let c4 := iset c3 "BatchNumber" (iget h "BatchNumber") in
               let c5 := iset c4 "EntryAddendaCount" (adv_count advs) in
               let c6 := iset c5 "EntryHash" (entry_hash advs') in
               let c7 := iset c6 "TotalCreditEntryDollarAmount"
                              (zsum (fun e => if zmem (iget e "TransactionCode") adv_credit_codes then iget e "Amount" else 0) advs') in
               let c8 := iset c7 "TotalDebitEntryDollarAmount"
                              (zsum (fun e => if zmem (iget e "TransactionCode") adv_debit_codes then iget e "Amount" else 0) advs') in
               match kid b "offset" with
               | [] => Good (set_kid (set_kid b "ADVEntries" advs') "ADVControl" [c8])
               | _ => Bad "build:offset-adv"
               end)
         end.

  (* the body of the first loop of setBatchesFromJSON for one decoded batch that has a header *)
  Definition post_batch (o : list rtree) (b : rtree) : outcome rtree :=
    let h := header_of b in
    let b1 := sset b "id" (sget h "ID") in
    let b2 := set_kid b1 "validateOpts" o in
    let catx := existsb (sec_is h) (pt_catx T) in
    let b3 := map_kid b2 "Entries" (fun e =>
                let e1 := set_type_codes (codes_for T "EntryDetail") e in
                if catx then catx_pack e1 else e1) in
    let b4 := map_kid b3 "ADVEntries" (set_adv_category T) in
    bind (build_batch o b4) (fun b5 =>
      Good (sset b5 "@type" (bstr (convert_type T (string_of_list_ascii (map ascii_of_N (sget h "StandardEntryClassCode"))))))).

  (* IATBatch.build *)
  Definition iat_required : list string :=
    [ "Addenda10"; "Addenda11"; "Addenda12"; "Addenda13"; "Addenda14"; "Addenda15"; "Addenda16" ].

  Fixpoint build_iat_entries (o : list rtree) (odfi : bytes) (seq : Z) (es : list rtree) : outcome (list rtree) :=
    match es with
    | [] => Good []
    | e :: r =>
        if match kid e "Addenda98" with [] => negb (forallb (fun k => negb (Nat.eqb (length (kid e k)) 0)) iat_required) | _ => false end
        then Bad "build:iat-addenda"
        else
        match atoi_opt (firstn 8 (trace_field e)), atoi_opt (firstn 8 (stringField odfi 8)) with
        | Some cur, Some hod =>
            let e1 := if negb (cur =? hod) && auto_trace o then set_trace [] e odfi seq else e in
            let eds := eds_of e1 in
            let e2 := fold_left (fun e k => map_kid e k (fun a => iset a "EntryDetailSequenceNumber" eds)) iat_required e1 in
            let e3 := set_kid e2 "Addenda17" (number_from 1 (kid e2 "Addenda17") eds) in
            let e4 := set_kid e3 "Addenda18" (number_from 1 (kid e3 "Addenda18") eds) in
            bind (build_iat_entries o odfi (seq + 1) r) (fun r' => Good (e4 :: r'))
        | _, _ => Bad "build:atoi"
        end
    end.

  Definition build_iat (o : list rtree) (b : rtree) : outcome rtree :=
    let h := header_of b in
    if negb (batch_header_valid o h) then Bad "build:header"
    else match kid b "Entries" with
         | [] => Bad "build:entries"
         | es =>
           bind (build_iat_entries o (sget h "ODFIIdentification") 1 es) (fun es' =>
             let c0 := new_batch_control in
             let c1 := match kid b "Control" with oc :: _ => sset c0 "CompanyIdentification" (sget oc "CompanyIdentification") | [] => c0 end in
             let c2 := iset c1 "ServiceClassCode" (iget h "ServiceClassCode") in
             let c3 := sset c2 "ODFIIdentification" (sget h "ODFIIdentification") in
             let c4 := iset c3 "BatchNumber" (iget h "BatchNumber") in
             let c5 := iset c4 "EntryHash" (entry_hash es') in
             let c6 := iset c5 "TotalCreditEntryDollarAmount" (zsum (credit_of credit_codes debit_codes) es') in
             let c7 := iset c6 "TotalDebitEntryDollarAmount" (zsum (debit_of credit_codes debit_codes) es') in
             let c8 := iset c7 "EntryAddendaCount" (fold_left (fun n e => n + 1 + addenda_count iat_addenda e) es' 0) in
             Good (set_kid (set_kid b "Entries" es') "Control" [c8]))
         end.

  Definition post_iat (o : list rtree) (b : rtree) : outcome rtree :=
    let h := header_of b in
    let b1 := sset b "ID" (sget h "ID") in
    let b2 := set_kid b1 "validateOpts" o in
    let b3 := map_kid b2 "Entries" (set_type_codes (codes_for T "IATEntryDetail")) in
    build_iat o b3.

  Definition has_header (b : rtree) : bool := match kid b "Header" with [] => false | _ => true end.

  (* ---------------------------------------------------------- Create *)

  Definition is_adv_file (f : rtree) : bool := existsb (fun b => sec_is (header_of b) "ADV") (kid f "Batches").

  (* File.IsADV also repairs what it walks over: a batch without a control gets NewBatchControl(),
     up to and including the first ADV batch (batches without a header have been dropped before) *)
  Fixpoint isadv_fill (bs : list rtree) : list rtree :=
    match bs with
    | [] => []
    | b :: r =>
        let b' := match kid b "Control" with [] => set_kid b "Control" [new_batch_control] | _ => b end in
        if sec_is (header_of b) "ADV" then b' :: r else b' :: isadv_fill r
    end.

  (* "create ascending batch numbers unless batch number has been provided" *)
  Definition renumber1 (ctl : string) (seq : Z) (b : rtree) : rtree :=
    if (iget (header_of b) "BatchNumber" <=? 1)
    then map_kid (map_kid b "Header" (fun h => iset h "BatchNumber" seq)) ctl (fun c => iset c "BatchNumber" seq)
    else b.

  Fixpoint renumber (ctl : string) (seq : Z) (bs : list rtree) : list rtree :=
    match bs with [] => [] | b :: r => renumber1 ctl seq b :: renumber ctl (seq + 1) r end.

  Definition ctl_of (ctl : string) (b : rtree) : rtree := match kid b ctl with c :: _ => c | [] => empty_node end.
  Definition bsum (ctl f : string) (bs : list rtree) : Z := fold_left (fun a b => a + iget (ctl_of ctl b) f) bs 0.

  Definition block_count (recs : Z) : Z := if Z.rem recs 10 =? 0 then Z.quot recs 10 else Z.quot recs 10 + 1.

  Definition create_plain (f : rtree) : rtree :=
    let bs := renumber "Control" 1 (kid f "Batches") in
    let ibs := renumber "Control" (1 + Z.of_nat (length bs)) (kid f "IATBatches") in
    let all := bs ++ ibs in
    let cnt := bsum "Control" "EntryAddendaCount" all in
    let recs := 2 + 2 * Z.of_nat (length all) + cnt in
    let c1 := sset new_file_control "ID" (sget f "ID") in
    let c2 := iset c1 "BatchCount" (Z.of_nat (length all)) in
    let c3 := iset c2 "BlockCount" (block_count recs) in
    let c4 := iset c3 "EntryAddendaCount" cnt in
    let c5 := iset c4 "EntryHash" (Z.rem (bsum "Control" "EntryHash" all) P10) in
    let c6 := iset c5 "TotalDebitEntryDollarAmountInFile" (bsum "Control" "TotalDebitEntryDollarAmount" all) in
    let c7 := iset c6 "TotalCreditEntryDollarAmountInFile" (bsum "Control" "TotalCreditEntryDollarAmount" all) in
    set_kid (set_kid (set_kid f "Batches" bs) "IATBatches" ibs) "Control" [c7].

  (* createFileADV: every batch must be ADV (the batches before the offending one have been renumbered already) *)
  Fixpoint renumber_adv (seq : Z) (bs : list rtree) : list rtree * bool :=
    match bs with
    | [] => ([], true)
    | b :: r =>
        if negb (sec_is (header_of b) "ADV") then (b :: r, false)
        else let '(r', ok) := renumber_adv (seq + 1) r in (renumber1 "ADVControl" seq b :: r', ok)
    end.

  Definition create_adv (f : rtree) : rtree * bool :=
    let '(bs, ok) := renumber_adv 1 (kid f "Batches") in
    let f1 := set_kid f "Batches" bs in
    if negb ok then (f1, false)
    else
      let cnt := bsum "ADVControl" "EntryAddendaCount" bs in
      let recs := 2 + 2 * Z.of_nat (length bs) + cnt in
      let c1 := sset new_adv_file_control "ID" (sget f "ID") in
      let c2 := iset c1 "BatchCount" (Z.of_nat (length bs)) in
      let c3 := iset c2 "BlockCount" (block_count recs) in
      let c4 := iset c3 "EntryAddendaCount" cnt in
      let c5 := iset c4 "EntryHash" (Z.rem (bsum "ADVControl" "EntryHash" bs) P10) in
      let c6 := iset c5 "TotalDebitEntryDollarAmountInFile" (bsum "ADVControl" "TotalDebitEntryDollarAmount" bs) in
      let c7 := iset c6 "TotalCreditEntryDollarAmountInFile" (bsum "ADVControl" "TotalCreditEntryDollarAmount" bs) in
      (set_kid f1 "ADVControl" [c7], true).

  (* File.Create: (file afterwards, nil error?) *)
  Definition create (o : list rtree) (f : rtree) : rtree * bool :=
    let hdr := header_of f in
    if negb (flag o "SkipAll") && negb (flag o "AllowMissingFileHeader") && negb (file_header_valid o hdr) then (f, false)
    else if negb (flag o "SkipAll") && negb (flag o "AllowZeroBatches")
            && match kid f "Batches", kid f "IATBatches" with [], [] => true | _, _ => false end then (f, false)
    else if negb (is_adv_file f) then (create_plain f, true) else create_adv f.

  (* ---------------------------------------------------------- FileFromJSONWith after the decode *)

  Inductive pres := POk (f : rtree) | PInvalid (f : rtree) | PErr (stage : string).

  (* [d]: the tree of the decoded File value (all keys of the document read into one File);
     [passed]: the options argument (nil: []) *)
  Definition post (passed : list rtree) (d : rtree) : pres :=
    let o := final_opts merge_fields passed (kid d "validateOpts") in
    let f0 := set_kid d "validateOpts" o in
    (* header: decoded into NewFileHeader(), options attached by File.SetValidation *)
    let f1 := map_kid f0 "Header" (fun h => set_kid h "validateOpts" o) in
    (* setBatchesFromJSON *)
    match map_out (post_batch o) (filter has_header (kid f1 "Batches")) with
    | Bad s => PErr s
    | Good bs =>
      match map_out (post_iat o) (filter has_header (kid f1 "IATBatches")) with
      | Bad s => PErr s
      | Good ibs =>
        let f2 := set_kid (set_kid f1 "Batches" bs) "IATBatches" ibs in
        let f3a := overwrite_dates f2 in
        let f3 := set_kid f3a "Batches" (isadv_fill (kid f3a "Batches")) in
        (* the control that belongs to the kind of file is decoded, the other keeps the constructor's value; then BatchCount *)
        let n := Z.of_nat (length (kid f3 "Batches")) in
        let f4 := if negb (is_adv_file f3)
                  then set_kid (map_kid f3 "Control" (fun c => iset c "BatchCount" n)) "ADVControl" [zero_adv_file_control]
                  else set_kid (set_kid f3 "Control" [new_file_control])
                               "ADVControl" (map (fun c => iset c "BatchCount" n)
                                                 (match kid d "ADVControl" with [] => [new_adv_file_control] | l => l end)) in
        let '(f5, ok) := create o f4 in
        if negb ok then PInvalid f5
        else if file_valid f5 then POk f5 else PInvalid f5
      end
    end.

  (* ---------------------------------------------------------- when does the post-processing leave the text alone?
     Boolean conditions on the tree [d] of a file (hypotheses of the round-trip theorem, JsonFileFacts.v);
     the driver evaluates them on generated files. *)

  (* what setBatchesFromJSON attaches to a batch *)
  Definition decor (o : list rtree) (b : rtree) : rtree :=
    set_kid (sset b "id" (sget (header_of b) "ID")) "validateOpts" o.
  Definition decor_iat (o : list rtree) (b : rtree) : rtree :=
    set_kid (sset b "ID" (sget (header_of b) "ID")) "validateOpts" o.
  Definition type_name (h : rtree) : bytes :=
    bstr (convert_type T (string_of_list_ascii (map ascii_of_N (sget h "StandardEntryClassCode")))).

  (* every addenda record already carries the type code of the field it is stored in *)
  Definition addenda_typed (codes : list (string * string)) (e : rtree) : bool :=
    forallb (fun fc => forallb (has_str "TypeCode" (bstr (snd fc))) (kid e (fst fc))) codes.

  (* the CTX/ATX heuristic does not fire: the count part of IndividualName is a non-zero number and
     not (indicator 0 with a positive count) *)
  Definition catx_stable (e : rtree) : bool :=
    let ind := iget e "AddendaRecordIndicator" in
    let fld := atoi (catx_field (sget e "IndividualName")) in
    negb (fld =? 0) && negb ((ind =? 0) && (0 <? fld)).

  Definition adv_cat_std (e : rtree) : bool :=
    forallb (fun gc => match kid e (fst gc) with [] => has_str "Category" (bstr (snd gc)) e | _ => true end) (pt_adv_category T).

  Definition batch_prepared (b : rtree) : bool :=
    let h := header_of b in
    forallb (fun e => addenda_typed (codes_for T "EntryDetail") e
                      && (if existsb (sec_is h) (pt_catx T) then catx_stable e else true)) (kid b "Entries")
    && forallb adv_cat_std (kid b "ADVEntries").

  Definition iat_prepared (b : rtree) : bool :=
    forallb (addenda_typed (codes_for T "IATEntryDetail")) (kid b "Entries").

  (* tabulated: build, run under the file's options, changes nothing *)
  Definition batch_built (o : list rtree) (b : rtree) : bool :=
    match build_batch o (decor o b) with Good b' => rtree_eqb b' (decor o b) | Bad _ => false end.
  Definition iat_built (o : list rtree) (b : rtree) : bool :=
    match build_iat o (decor_iat o b) with Good b' => rtree_eqb b' (decor_iat o b) | Bad _ => false end.

  Definition short (s : bytes) : bool := (length s <=? 18)%nat.
  Definition fields_short (fields : list string) (h : rtree) : bool := forallb (fun f => short (sget h f)) fields.
  Definition dates_short (d : rtree) : bool :=
    forallb (fields_short ["FileCreationDate"; "FileCreationTime"]) (kid d "Header")
    && forallb (fun b => forallb (fields_short ["CompanyDescriptiveDate"; "EffectiveEntryDate"]) (kid b "Header")) (kid d "Batches")
    && forallb (fun b => forallb (fields_short ["EffectiveEntryDate"]) (kid b "Header")) (kid d "IATBatches").

  (* batch numbers: provided (> 1) or already the sequence number Create would assign *)
  Fixpoint numbered (ctl : string) (seq : Z) (bs : list rtree) : bool :=
    match bs with
    | [] => true
    | b :: r =>
        ((1 <? iget (header_of b) "BatchNumber")
         || (forallb (has_int "BatchNumber" seq) (kid b "Header") && forallb (has_int "BatchNumber" seq) (kid b ctl)))
        && numbered ctl (seq + 1) r
    end.

  Definition has_control (b : rtree) : bool := match kid b "Control" with [] => false | _ => true end.

  (* the file control holds what Create computes from the batch controls *)
  Definition fc_matches (d : rtree) : bool :=
    let all := kid d "Batches" ++ kid d "IATBatches" in
    let cnt := bsum "Control" "EntryAddendaCount" all in
    match kid d "Control" with
    | [c] =>
        String.eqb (rname c) (rname new_file_control)
        && has_int "BatchCount" (Z.of_nat (length all)) c
        && has_int "BlockCount" (block_count (2 + 2 * Z.of_nat (length all) + cnt)) c
        && has_int "EntryAddendaCount" cnt c
        && has_int "EntryHash" (Z.rem (bsum "Control" "EntryHash" all) P10) c
        && has_int "TotalDebitEntryDollarAmountInFile" (bsum "Control" "TotalDebitEntryDollarAmount" all) c
        && has_int "TotalCreditEntryDollarAmountInFile" (bsum "Control" "TotalCreditEntryDollarAmount" all) c
    | _ => false
    end.

  (* Create does not stop early *)
  Definition create_gate (o : list rtree) (d : rtree) : bool :=
    negb (negb (flag o "SkipAll") && negb (flag o "AllowMissingFileHeader")
          && negb (file_header_valid o (set_kid (header_of d) "validateOpts" o)))
    && negb (negb (flag o "SkipAll") && negb (flag o "AllowZeroBatches")
             && match kid d "Batches", kid d "IATBatches" with [], [] => true | _, _ => false end).

  Definition ready (passed : list rtree) (d : rtree) : bool :=
    let o := final_opts merge_fields passed (kid d "validateOpts") in
    let bs := kid d "Batches" in
    let ibs := kid d "IATBatches" in
    negb (is_adv_file d)
    && match kid d "Header" with [_] => true | _ => false end
    && forallb has_header bs && forallb has_header ibs
    && forallb batch_prepared bs && forallb iat_prepared ibs
    && forallb (batch_built o) bs && forallb (iat_built o) ibs
    && forallb has_control bs
    && dates_short d
    && numbered "Control" 1 bs && numbered "Control" (1 + Z.of_nat (length bs)) ibs
    && fc_matches d && create_gate o d.
End Post.

(* ------------------------------------------------------------ Writer.Write on a tree *)

Section Write.
  Variable layouts : list layout.

  Definition layout_named (n : string) : option layout := find (fun L => String.eqb (l_name L) n) layouts.

  Definition node_line (r : rtree) : list bytes :=
    match layout_named (rname r) with Some L => [render L (rscal r)] | None => [] end.

  Definition kid_lines (e : rtree) (k : string) : list bytes := flat_map node_line (kid e k).

  Definition entry_lines (order : list string) (e : rtree) : list bytes :=
    node_line e ++ flat_map (kid_lines e) order.

  Definition adv_entry_order : list string := [ "Addenda99" ].

  Definition hdr_is_adv (b : rtree) : bool :=
    match kid b "Header" with h :: _ => sec_is h "ADV" | [] => false end.

  Definition batch_lines (is_adv : bool) (b : rtree) : list bytes :=
    kid_lines b "Header"
    ++ (if negb is_adv then flat_map (entry_lines std_addenda) (kid b "Entries")
        else flat_map (entry_lines adv_entry_order) (kid b "ADVEntries"))
    ++ (if negb (hdr_is_adv b) then kid_lines b "Control" else kid_lines b "ADVControl").

  Definition iat_batch_lines (b : rtree) : list bytes :=
    kid_lines b "Header" ++ flat_map (entry_lines iat_addenda) (kid b "Entries") ++ kid_lines b "Control".

  Definition file_is_adv (f : rtree) : bool := existsb hdr_is_adv (kid f "Batches").

  Definition lines (f : rtree) : list bytes :=
    let adv := file_is_adv f in
    kid_lines f "Header"
    ++ flat_map (batch_lines adv) (kid f "Batches")
    ++ flat_map iat_batch_lines (kid f "IATBatches")
    ++ (if negb adv then kid_lines f "Control" else kid_lines f "ADVControl").

  Definition write_rt (le : bytes) (f : rtree) : bytes :=
    let ls := lines f in
    concat (map (fun l => l ++ le) (ls ++ repeat nines (pad_count (length ls)))).
End Write.

(* Phase 5, C13: File.Reversal of a file that validates under the ValidateOpts it carries
   validates under them again, options and trace numbers untouched; double reversal.

   The batch level follows ValidReversalFacts.reversal_batch_arith_valid with every check of
   Batch.verify read under the batch's options (ArithOptsFacts.batch_facts_o): the guarded
   checks (header = control class, addenda count, ascending traces, trace prefix) are either
   switched off before and after — Reversal stores no option — or hold before and are not
   touched (count, trace strings) or are re-established (both classes := class of the new
   directions).  Record level: a reversed code is a standard code; an entry carrying its own
   CheckTransactionCode needs that function to accept the new code ([ctc_accepts], a hypothesis:
   the function is user code).  File level: File.Create under the file's options — renumbering
   of batch numbers <= 1, control re-tabulated (totals swapped). *)
From Coq Require Import Lia.
From ACH Require Import ValidOut ValidOutFacts ArithOpts ArithOptsFacts.
From Coq Require Import ZArith NArith List Bool.
From ACH Require Import Bytes TxCodes RevTable Reversal ReversalFacts ReversalGenFacts ValidReversal ValidReversalFacts.
From ACH Require Export ReversalOpts.
From ACH Require MergeOpts.
Import ListNotations.
Open Scope Z_scope.

(* position-wise: a per-entry check that holds before holds after under a position-wise side
   condition [q] *)
Lemma each_o_recode_pos (f g : vopts -> Arith.entry -> rule) (q : vopts -> Z -> bool) rc es : forall eos,
  (forall eo e, In e es -> q eo (en_code e) = true -> f eo e = Arith.ROk -> g eo (recode rc e) = Arith.ROk) ->
  each_o (fun eo e => chk (q eo (en_code e)) RCode) eos es = Arith.ROk ->
  each_o f eos es = Arith.ROk ->
  each_o g eos (map (recode rc) es) = Arith.ROk.
Proof.
  induction es as [|e es IH]; intros eos Hfg Hq H; cbn [map each_o] in *; [reflexivity|].
  apply andr_ok in H as [H1 H2]. apply andr_ok in Hq as [Hq1 Hq2]. apply andr_ok. split.
  - apply Hfg; [now left| |exact H1]. now apply chk_true in Hq1.
  - apply IH; [|exact Hq2|exact H2]. intros eo x Hx Hqx Hf. apply Hfg; [now right|exact Hqx|exact Hf].
Qed.

Section RevO.
Variable csem : N -> Z -> bool.
Variables (A : AR.tables) (T : rtables).
Hypothesis HA : AT.tables_ok A = true.
Hypothesis HT : tables_ok T = true.
Hypothesis HS : rev_tables_agree A T = true.
Variable ep : N -> N -> rpay.

Local Notation arms := (rt_arms T).
Local Notation std := (rt_std T).
Local Notation vb := (validate_batch_o csem A).
Local Notation rc := (rcode T).

(* the side condition as a per-entry check over the validator's entries *)
Definition ctc_q (eo : vopts) (c : Z) : bool :=
  match octc eo with Some f => csem f (rc c) | None => true end.

Lemma ctc_accepts_each eos es :
  ctc_accepts csem rc eos (map e_code es) = true ->
  each_o (fun eo e => chk (ctc_q eo (en_code e)) RCode) eos (map (r_entry ep) es) = Arith.ROk.
Proof.
  revert eos. induction es as [|e es IH]; intros eos H; cbn [map ctc_accepts each_o] in *; [reflexivity|].
  apply andb_prop in H as [H1 H2]. apply andr_ok. split.
  - apply chk_intro. unfold ctc_q. cbn [r_entry en_code]. exact H1.
  - now apply IH.
Qed.

Definition batch_ok (x : rvb) : Prop :=
  all_reversible T (rv_b x) = true /\ ctc_accepts csem rc (rv_eopts x) (codes (rv_b x)) = true.

(* ---- one batch ---------------------------------------------------------------------------- *)

Theorem reversal_batch_valid_o d x :
  vb (rv_arith ep x) = Arith.ROk -> batch_ok x -> vb (rv_arith ep (reversal_batch_o T d x)) = Arith.ROk.
Proof.
  intros Hv [Hr Hctc]. destruct x as [o eos bp b]. cbn [rv_b rv_eopts] in Hr, Hctc.
  unfold rv_arith, reversal_batch_o in *. cbn [rv_opts rv_eopts rv_pay rv_b] in *.
  apply validate_batch_o_split in Hv as [F Htc]. apply validate_batch_o_split.
  destruct F as [Fne Fhc Fe Fc Fcl Fo Fn Fcnt Fasc Fd Fcr Fh Ft].
  cbn [vb_b vb_eopts vb_opts r_batch AR.bt_kind AR.bt_class AR.bt_odfi AR.bt_number AR.bt_entries AR.bt_ctl
       AR.bc_class AR.bc_count AR.bc_hash AR.bc_debit AR.bc_credit AR.bc_odfi AR.bc_number] in *.
  assert (Hne : rb_entries b <> []) by (intros E; rewrite E in Fne; now apply Fne).
  destruct (reversal_batch_shape T HT d b Hne Hr) as (Eb & Hany & Hdirs). cbv zeta in Eb, Hany, Hdirs.
  set (es' := map (rev_entry arms) (rb_entries b)) in *.
  set (cls := class_of (has_dir TCredit es') (has_dir TDebit es')) in *.
  rewrite Eb. pose proof Hr as Hr'. unfold all_reversible in Hr.
  destruct (sums_rev A T HA HT HS ep (rb_entries b) Hr) as [Scr Sdb].
  destruct (AT.constants_sound A HA) as (_ & _ & _ & _ & Kmix & Kcr & Kdb & Kadv).
  assert (Hcls : cls = 200 \/ cls = 220 \/ cls = 225).
  { unfold cls. destruct (has_dir TCredit es'), (has_dir TDebit es'); cbn in Hany |- *; auto; discriminate. }
  assert (Hclsok : memz cls (t_classes A) = true).
  { destruct (AT.tables_ok_parts A HA) as (_ & _ & _ & _ & _ & Hk). unfold AT.constants_ok in Hk.
    apply andb_prop in Hk as [_ Hss]. unfold AT.same_set in Hss. apply andb_prop in Hss as [_ Hss].
    rewrite forallb_forall in Hss. apply Hss. cbn [In]. destruct Hcls as [-> | [-> | ->]]; auto. }
  assert (Hstd : forall e, In e (rb_entries b) ->
                 AT.std_code A (rc (e_code e)) = true /\ 20 <= rc (e_code e) < 60).
  { intros e He. rewrite forallb_forall in Hr. specialize (Hr e He).
    destruct (props T HT _ Hr) as [_ _ _ Hcl _ _ _].
    exact (entry_code_std A T HS _ (reversible_entry_code _ _ Hcl)). }
  pose proof (ctc_accepts_each eos (rb_entries b) Hctc) as Hq.
  unfold validate_bctl in Fc. cbn [AR.bc_class AR.bc_odfi AR.bc_debit AR.bc_credit] in Fc. ok_split.
  cbn [vb_b vb_eopts vb_opts r_batch rb_scc_h rb_scc_c rb_debit rb_credit rb_entries AR.bt_kind AR.bt_class AR.bt_odfi
       AR.bt_number AR.bt_entries AR.bt_ctl AR.bc_class AR.bc_count AR.bc_hash AR.bc_debit AR.bc_credit AR.bc_odfi AR.bc_number].
  split.
  - constructor;
      cbn [vb_b vb_eopts vb_opts r_batch rb_scc_h rb_scc_c rb_debit rb_credit rb_entries AR.bt_kind AR.bt_class AR.bt_odfi
           AR.bt_number AR.bt_entries AR.bt_ctl AR.bc_class AR.bc_count AR.bc_hash AR.bc_debit AR.bc_credit AR.bc_odfi AR.bc_number];
      unfold es'; rewrite ?(r_entry_rev T ep); try assumption.
    + intros E. apply map_eq_nil, map_eq_nil in E. congruence.
    + split; [lia|exact Hclsok].
    + (* EntryDetail.Validate of every reversed entry, under the record's own options *)
      eapply (each_o_recode_pos _ _ ctc_q); [|exact Hq|exact Fe].
      intros eo x Hx Hqx Hvx. apply in_map_iff in Hx as (e & <- & He).
      destruct (Hstd e He) as [S R]. unfold AT.std_code in S. apply andb_prop in S as [S _].
      cbn [r_entry en_code] in Hqx.
      unfold validate_entry_o in Hvx |- *. cbn [recode r_entry en_code en_amount en_rdfi en_check] in *.
      ok_split. repeat (rewrite andr_ok; split); try (now apply chk_intro).
      * apply chk_intro. apply negb_true_iff, Z.eqb_neq. lia.
      * unfold ctc_q in Hqx. destruct (octc eo); [now apply chk_intro|now apply chk_intro].
    + unfold validate_bctl. cbn [AR.bc_class AR.bc_odfi AR.bc_debit AR.bc_credit].
      repeat (rewrite andr_ok; split); try reflexivity; apply chk_intro; try assumption.
      apply negb_true_iff, Z.eqb_neq. lia.
    + now right.
    + rewrite recode_count. exact Fcnt.
    + rewrite recode_ascending. exact Fasc.
    + rewrite Sdb. exact Fcr.
    + rewrite Scr. exact Fd.
    + unfold calc_hash in *. now rewrite recode_hash_sum.
    + destruct Ft as [Ft|[Ft|Ft]]; [now left|right; now left|right; right].
      unfold trace_odfi_ok in *. cbn [r_batch rb_entries AR.bt_odfi AR.bt_entries] in *.
      rewrite (r_entry_rev T ep), recode_trace_prefix. exact Ft.
  - (* ValidTranCodeForServiceClassCode *)
    unfold es'. rewrite (r_entry_rev T ep).
    eapply (each_o_recode_pos _ _ (fun _ _ => true)); [|clear; induction (map (r_entry ep) (rb_entries b)) as [|y l IHl] in eos |- *; cbn [each_o]; [reflexivity|exact (IHl (tl eos))]|exact Htc].
    intros eo x Hx _ Hvx. apply in_map_iff in Hx as (e & <- & He).
    destruct (Hstd e He) as [S R]. unfold AT.std_code in S. apply andb_prop in S as [_ S].
    unfold tran_code_o in *. cbn [recode r_entry en_code] in *. apply andr_ok. split; [now apply chk_intro|].
    destruct (octc eo); [reflexivity|].
    rewrite Kadv, Kmix, Kcr, Kdb. rewrite credit_or_debit_dir.
    assert (He' : In (rev_entry arms e) es') by (unfold es'; now apply in_map).
    destruct Hcls as [E | [E | E]]; rewrite E; cbn; [reflexivity| |].
    + assert (Hnd : has_dir TDebit es' = false).
      { unfold cls in E. destruct (has_dir TCredit es'), (has_dir TDebit es'); cbn in E; try reflexivity; discriminate. }
      pose proof (no_other_dir es' TCredit Hdirs ltac:(discriminate) Hnd) as Hall.
      unfold all_dir in Hall. rewrite forallb_forall in Hall. specialize (Hall _ He'). cbn [rev_entry e_code] in Hall.
      apply target_eqb_eq in Hall. unfold rcode. now rewrite Hall.
    + assert (Hnc : has_dir TCredit es' = false).
      { unfold cls in E. destruct (has_dir TCredit es'), (has_dir TDebit es'); cbn in E; try reflexivity; discriminate. }
      pose proof (no_other_dir es' TDebit Hdirs ltac:(discriminate) Hnc) as Hall.
      unfold all_dir in Hall. rewrite forallb_forall in Hall. specialize (Hall _ He'). cbn [rev_entry e_code] in Hall.
      apply target_eqb_eq in Hall. unfold rcode. now rewrite Hall.
Qed.


(* ---- File.Create's renumbering ------------------------------------------------------------- *)

Definition ab (x : rvb) : Arith.batch := r_batch ep (rv_pay x) (rv_b x).

Lemma rv_arith_b x : vb_b (rv_arith ep x) = ab x.
Proof. reflexivity. Qed.

Lemma rv_renumber_length xs : forall s, length (rv_renumber s xs) = length xs.
Proof. induction xs as [|x xs IH]; intros s; cbn [rv_renumber length]; [reflexivity|]. now rewrite IH. Qed.

Lemma set_number_valid_o x n :
  vb (rv_arith ep x) = Arith.ROk ->
  vb (rv_arith ep (mkrvb (rv_opts x) (rv_eopts x) (set_pay_number (rv_pay x) n) (rv_b x))) = Arith.ROk.
Proof.
  intros Hv. apply validate_batch_o_split in Hv as [F Htc]. apply validate_batch_o_split.
  destruct F as [Fne Fhc Fe Fc Fcl Fo Fn Fcnt Fasc Fd Fcr Fh Ft].
  split; [|exact Htc]. constructor; try assumption. reflexivity.
Qed.

Lemma rv_renumber_valid xs : forall s,
  Forall (fun x => vb (rv_arith ep x) = Arith.ROk) xs ->
  Forall (fun x => vb (rv_arith ep x) = Arith.ROk) (rv_renumber s xs).
Proof.
  induction xs as [|x xs IH]; intros s H; cbn [rv_renumber]; [constructor|].
  inversion H as [|? ? Hx Hxs]; subst. constructor; [|now apply IH].
  destruct (bp_number (rv_pay x) <=? 1); [now apply set_number_valid_o|exact Hx].
Qed.

(* sums over the batch controls do not see the batch number *)
Lemma rv_renumber_sum (h : Arith.bctl -> Z) :
  (forall x n, h (bt_ctl (ab (mkrvb (rv_opts x) (rv_eopts x) (set_pay_number (rv_pay x) n) (rv_b x)))) = h (bt_ctl (ab x))) ->
  forall xs s, sumz (fun b => h (bt_ctl b)) (map ab (rv_renumber s xs)) = sumz (fun b => h (bt_ctl b)) (map ab xs).
Proof.
  intros Hh. induction xs as [|x xs IH]; intros s; cbn [rv_renumber map sumz]; [reflexivity|].
  rewrite IH. destruct (bp_number (rv_pay x) <=? 1); [now rewrite Hh|reflexivity].
Qed.

(* batch numbers *)
Definition nums (xs : list rvb) : list Z := map (fun x => bp_number (rv_pay x)) xs.

Fixpoint asc_nums (last : Z) (l : list Z) : bool :=
  match l with [] => true | n :: t => if n <=? last then false else asc_nums n t end.

Fixpoint renum (seq : Z) (l : list Z) : list Z :=
  match l with [] => [] | n :: t => (if n <=? 1 then seq else n) :: renum (seq + 1) t end.

Lemma numbers_nums xs : forall last, numbers_ascending last (map ab xs) = asc_nums last (nums xs).
Proof.
  induction xs as [|x xs IH]; intros last; cbn [map numbers_ascending asc_nums nums]; [reflexivity|].
  cbn [ab r_batch AR.bt_number]. destruct (bp_number (rv_pay x) <=? last); [reflexivity|]. apply IH.
Qed.

Lemma nums_renumber xs : forall s, nums (rv_renumber s xs) = renum s (nums xs).
Proof.
  induction xs as [|x xs IH]; intros s; cbn [rv_renumber nums map renum]; [reflexivity|].
  fold (nums (rv_renumber (s + 1) xs)). rewrite IH. fold (nums xs).
  destruct (bp_number (rv_pay x) <=? 1); reflexivity.
Qed.

Lemma nums_reversal d xs : nums (map (reversal_batch_o T d) xs) = nums xs.
Proof. unfold nums. rewrite map_map. reflexivity. Qed.

Lemma renum_keeps_ascending l : forall lo seq, asc_nums lo l = true -> 1 <= seq <= lo + 1 ->
  asc_nums lo (renum seq l) = true.
Proof.
  induction l as [|n l IH]; intros lo seq H Hs; cbn [renum asc_nums] in *; [reflexivity|].
  destruct (n <=? lo) eqn:E; [discriminate|]. apply Z.leb_gt in E.
  destruct (n <=? 1) eqn:E1.
  - apply Z.leb_le in E1. assert (n = 1 /\ lo = 0 /\ seq = 1) as (-> & -> & ->) by lia.
    cbn. apply IH; [exact H|lia].
  - apply Z.leb_gt in E1. replace (n <=? lo) with false by (symmetry; apply Z.leb_gt; lia).
    apply IH; [exact H|lia].
Qed.

(* ---- sums over reversed batches -------------------------------------------------------------- *)

Lemma sum_rev_keep (h : Arith.bctl -> Z) d :
  (forall x, h (bt_ctl (ab (reversal_batch_o T d x))) = h (bt_ctl (ab x))) ->
  forall xs, sumz (fun b => h (bt_ctl b)) (map ab (map (reversal_batch_o T d) xs)) = sumz (fun b => h (bt_ctl b)) (map ab xs).
Proof. intros Hh. induction xs as [|x xs IH]; cbn [map sumz]; [reflexivity|]. now rewrite IH, Hh. Qed.

Lemma sum_rev_swap d xs :
  sumz (fun b => bc_debit (bt_ctl b)) (map ab (map (reversal_batch_o T d) xs)) = sumz (fun b => bc_credit (bt_ctl b)) (map ab xs)
  /\ sumz (fun b => bc_credit (bt_ctl b)) (map ab (map (reversal_batch_o T d) xs)) = sumz (fun b => bc_debit (bt_ctl b)) (map ab xs).
Proof.
  induction xs as [|x xs [IH1 IH2]]; cbn [map sumz]; [split; reflexivity|]. rewrite IH1, IH2.
  cbn [ab reversal_batch_o rv_pay rv_b r_batch AR.bt_ctl AR.bc_debit AR.bc_credit].
  destruct (reversal_fields T d (rv_b x)) as (_ & _ & -> & ->). split; reflexivity.
Qed.

(* ---- the file ------------------------------------------------------------------------------------ *)

(* what Reversal leaves alone / does, batch by batch *)
Definition kept (d : bytes) (x x' : rvb) : Prop :=
  rv_opts x' = rv_opts x /\ rv_eopts x' = rv_eopts x /\ rv_b x' = reversal_batch T d (rv_b x)
  /\ map e_trace (rb_entries (rv_b x')) = map e_trace (rb_entries (rv_b x))
  /\ map e_amount (rb_entries (rv_b x')) = map e_amount (rb_entries (rv_b x))
  /\ map e_id (rb_entries (rv_b x')) = map e_id (rb_entries (rv_b x))
  /\ codes (rv_b x') = map rc (codes (rv_b x)).

Lemma kept_renumber d xs : forall s, Forall2 (kept d) xs (rv_renumber s (map (reversal_batch_o T d) xs)).
Proof.
  induction xs as [|x xs IH]; intros s; cbn [map rv_renumber]; constructor; [|apply IH].
  assert (K : kept d x (reversal_batch_o T d x)).
  { unfold kept. cbn [reversal_batch_o rv_opts rv_eopts rv_b]. rewrite (reversal_entries T d (rv_b x)).
    repeat split; try reflexivity; unfold codes; rewrite ?(reversal_entries T d (rv_b x)), !map_map; reflexivity. }
  destruct (bp_number (rv_pay (reversal_batch_o T d x)) <=? 1); [|exact K].
  unfold kept in *. cbn [rv_opts rv_eopts rv_b] in *. exact K.
Qed.

Definition file_hyps (f : rvf) : Prop :=
  file_valid_o csem A (rvf_arith ep f) = true
  /\ oflag ix_skip_all (rvf_opts f) = false
  /\ (rvf_batches f <> [] \/ oflag ix_zero_batches (rvf_opts f) = true)
  /\ Forall batch_ok (rvf_batches f)
  /\ fc_count (rvf_ctl f) = sumz (fun b => bc_count (bt_ctl b)) (map ab (rvf_batches f)).

Theorem reversal_file_valid_o d t f : file_hyps f ->
  exists f', reversal_file_o A T ep d t f = RvOk f'
    /\ file_valid_o csem A (rvf_arith ep f') = true
    /\ rvf_opts f' = rvf_opts f /\ rvf_date f' = d /\ rvf_time f' = t
    /\ rvf_origin f' = rvf_origin f /\ rvf_dest f' = rvf_dest f
    /\ Forall2 (kept d) (rvf_batches f) (rvf_batches f')
    /\ fc_debit (rvf_ctl f') = fc_credit (rvf_ctl f) /\ fc_credit (rvf_ctl f') = fc_debit (rvf_ctl f)
    /\ rvf_ctl f' = tab_fctl_o A (map ab (rvf_batches f')).
Proof.
  intros (Hv & Hs & Hnz & Hok & Hcnt).
  apply file_valid_o_spec in Hv as [Hv|[Hh F]]; [cbn [rvf_arith vf_opts] in Hv; congruence|].
  cbn [rvf_arith vf_opts vf_origin vf_dest] in Hh.
  destruct F as [F1 F2 F3 F4 F5 F6 F7 F8]. cbn [rvf_arith vf_opts vf_batches vf_ctl] in *.
  rewrite map_map in F4, F5, F6, F7, F8. rewrite map_length in F1.
  change (map (fun x => vb_b (rv_arith ep x)) (rvf_batches f)) with (map ab (rvf_batches f)) in *.
  set (xs := rvf_batches f) in *. set (bs := map (reversal_batch_o T d) xs).
  set (bs' := rv_renumber 1 bs).
  exists (mkrvf (rvf_opts f) (rvf_origin f) (rvf_dest f) d t bs' (tab_fctl_o A (map ab bs'))).
  split; [|split; [|split; [reflexivity|split; [reflexivity|split; [reflexivity|split; [reflexivity|split; [reflexivity|split; [|split; [|split; [|reflexivity]]]]]]]]]].
  - unfold reversal_file_o. rewrite Hs. cbn [negb andb].
    destruct (oflag ix_missing_header (rvf_opts f)) eqn:Em; cbn [negb andb].
    + destruct (oflag ix_zero_batches (rvf_opts f)) eqn:Ez; cbn [negb andb]; [reflexivity|].
      fold xs bs. destruct bs eqn:Eb; [|reflexivity]. apply map_eq_nil in Eb.
      destruct Hnz as [Hnz|Hnz]; [now contradiction Hnz|discriminate].
    + destruct Hh as [Hh|Hh]; [discriminate|]. rewrite Hh. cbn [negb andb].
      destruct (oflag ix_zero_batches (rvf_opts f)) eqn:Ez; cbn [negb andb]; [reflexivity|].
      fold xs bs. destruct bs eqn:Eb; [|reflexivity]. apply map_eq_nil in Eb.
      destruct Hnz as [Hnz|Hnz]; [now contradiction Hnz|discriminate].
  - apply file_valid_o_spec. right. cbn [rvf_arith rvf_opts rvf_origin rvf_dest rvf_batches rvf_ctl vf_opts vf_origin vf_dest vf_batches vf_ctl].
    split; [exact Hh|]. fold xs bs bs'.
    destruct (sum_rev_swap d xs) as [Sd Sc].
    assert (Ecount : sumz (fun b => bc_count (bt_ctl b)) (map ab bs') = sumz (fun b => bc_count (bt_ctl b)) (map ab xs)).
    { unfold bs'. rewrite (rv_renumber_sum bc_count) by reflexivity. unfold bs. now rewrite (sum_rev_keep bc_count) by reflexivity. }
    assert (Ehash : sumz (fun b => bc_hash (bt_ctl b)) (map ab bs') = sumz (fun b => bc_hash (bt_ctl b)) (map ab xs)).
    { unfold bs'. rewrite (rv_renumber_sum bc_hash) by reflexivity. unfold bs. now rewrite (sum_rev_keep bc_hash) by reflexivity. }
    assert (Edeb : sumz (fun b => bc_debit (bt_ctl b)) (map ab bs') = sumz (fun b => bc_credit (bt_ctl b)) (map ab xs)).
    { unfold bs'. rewrite (rv_renumber_sum bc_debit) by reflexivity. exact Sd. }
    assert (Ecre : sumz (fun b => bc_credit (bt_ctl b)) (map ab bs') = sumz (fun b => bc_debit (bt_ctl b)) (map ab xs)).
    { unfold bs'. rewrite (rv_renumber_sum bc_credit) by reflexivity. exact Sc. }
    assert (Elen : length bs' = length xs) by (unfold bs', bs; now rewrite rv_renumber_length, map_length).
    constructor; cbn [rvf_arith rvf_opts rvf_origin rvf_dest rvf_batches rvf_ctl vf_opts vf_batches vf_ctl tab_fctl_o
                      AR.fc_batches AR.fc_count AR.fc_hash AR.fc_debit AR.fc_credit];
      rewrite ?map_map; change (map (fun x => vb_b (rv_arith ep x)) bs') with (map ab bs');
      change (map (fun x => r_batch ep (rv_pay x) (rv_b x)) bs') with (map ab bs'); try (now left); try reflexivity.
    + rewrite ?map_length. reflexivity.
    + apply Forall_forall. intros y Hy. apply in_map_iff in Hy as (x' & <- & Hx').
      revert x' Hx'. apply Forall_forall. unfold bs'. apply rv_renumber_valid.
      apply Forall_forall. intros x' Hx'. unfold bs in Hx'. apply in_map_iff in Hx' as (x & <- & Hx).
      apply reversal_batch_valid_o.
      * rewrite Forall_forall in F2. apply F2. now apply in_map.
      * rewrite Forall_forall in Hok. now apply Hok.
    + destruct F3 as [F3|F3]; [now left|right]. unfold tab_fctl_o.
      rewrite Ecount, Ehash, Edeb, Ecre, map_length, Elen.
      apply validate_fctl_swap.
      destruct (rvf_ctl f) as [n c h dd cr]. cbn [AR.fc_batches AR.fc_count AR.fc_hash AR.fc_debit AR.fc_credit] in *.
      subst n c h dd cr. exact F3.
    + destruct F7 as [F7|F7]; [now left|right].
      rewrite numbers_nums in F7 |- *. unfold bs', bs. rewrite nums_renumber, nums_reversal.
      apply renum_keeps_ascending; [exact F7|lia].
  - unfold bs'. apply kept_renumber.
  - cbn [rvf_ctl]. unfold tab_fctl_o. cbn [AR.fc_debit]. unfold bs'. rewrite (rv_renumber_sum bc_debit) by reflexivity. unfold bs. destruct (sum_rev_swap d xs) as [-> _]. now rewrite F6.
  - cbn [rvf_ctl]. unfold tab_fctl_o. cbn [AR.fc_credit]. unfold bs'. rewrite (rv_renumber_sum bc_credit) by reflexivity. unfold bs. destruct (sum_rev_swap d xs) as [_ ->]. now rewrite F5.
Qed.


(* ---- double reversal ------------------------------------------------------------------------------ *)

Lemma reversal_closed d b : all_reversible T b = true -> all_reversible T (reversal_batch T d b) = true.
Proof.
  unfold all_reversible. rewrite (reversal_entries T d b). intros H. apply forallb_forall. intros e' He'.
  apply in_map_iff in He' as (e & <- & He). rewrite forallb_forall in H. specialize (H e He).
  cbn [rev_entry e_code]. exact (cp_closed _ _ _ _ (props T HT _ H)).
Qed.

(* the functions accepted the original codes (validity), and the switch is an involution *)
Lemma valid_ctc_back es : forall eos,
  each_o (validate_entry_o csem A) eos (map (r_entry ep) es) = Arith.ROk ->
  forallb (fun e => reversible std (e_code e)) es = true ->
  ctc_accepts csem rc eos (map rc (map e_code es)) = true.
Proof.
  induction es as [|e es IH]; intros eos Hv Hr; cbn [map each_o ctc_accepts forallb] in *; [reflexivity|].
  apply andr_ok in Hv as [Hv1 Hv2]. apply andb_prop in Hr as [Hr1 Hr2].
  apply andb_true_intro. split; [|now apply IH].
  unfold validate_entry_o in Hv1. cbn [r_entry en_code] in Hv1.
  destruct (octc (hd None eos)) as [g|]; [|reflexivity]. ok_split.
  unfold rcode. rewrite (cp_invol _ _ _ _ (props T HT _ Hr1)). assumption.
Qed.

Definition restored (x x2 : rvb) : Prop :=
  rv_opts x2 = rv_opts x /\ rv_eopts x2 = rv_eopts x /\ rb_entries (rv_b x2) = rb_entries (rv_b x)
  /\ rb_debit (rv_b x2) = rb_debit (rv_b x) /\ rb_credit (rv_b x2) = rb_credit (rv_b x).

Lemma kept_twice d1 d2 xs : forall ys zs, Forall batch_ok xs ->
  Forall2 (kept d1) xs ys -> Forall2 (kept d2) ys zs -> Forall2 restored xs zs.
Proof.
  induction xs as [|x xs IH]; intros ys zs Hok H1 H2.
  - inversion H1; subst. inversion H2; subst. constructor.
  - inversion H1 as [|? y ? ys' K1 H1']; subst. inversion H2 as [|? z ? zs' K2 H2']; subst.
    inversion Hok as [|? ? [Hr _] Hok']; subst. constructor; [|now apply (IH ys' zs')].
    destruct K1 as (O1 & E1 & B1 & _). destruct K2 as (O2 & E2 & B2 & _).
    unfold restored. rewrite O2, O1, E2, E1, B2, B1.
    destruct (reversal_twice_general T HT d1 d2 (rv_b x) Hr) as (R1 & R2 & R3). cbv zeta in R1, R2, R3.
    repeat split; assumption.
Qed.

Theorem reversal_twice_o d1 t1 d2 t2 f : file_hyps f ->
  exists f1 f2, reversal_file_o A T ep d1 t1 f = RvOk f1 /\ reversal_file_o A T ep d2 t2 f1 = RvOk f2
    /\ file_valid_o csem A (rvf_arith ep f1) = true /\ file_valid_o csem A (rvf_arith ep f2) = true
    /\ rvf_opts f2 = rvf_opts f
    /\ Forall2 restored (rvf_batches f) (rvf_batches f2)
    /\ fc_debit (rvf_ctl f2) = fc_debit (rvf_ctl f) /\ fc_credit (rvf_ctl f2) = fc_credit (rvf_ctl f).
Proof.
  intros Hf. pose proof Hf as (Hv & Hs & Hnz & Hok & Hcnt).
  destruct (reversal_file_valid_o d1 t1 f Hf) as (f1 & E1 & V1 & O1 & _ & _ & _ & _ & K1 & D1 & C1 & T1).
  assert (Hf1 : file_hyps f1).
  { unfold file_hyps. split; [exact V1|]. split; [now rewrite O1|]. split; [|split].
    - rewrite O1. destruct Hnz as [Hnz|Hnz]; [left|now right]. intros E. rewrite E in K1. inversion K1; subst. now apply Hnz.
    - (* every reversed batch is again reversible, and the functions accept the original codes back *)
      assert (Hvb : Forall (fun x => vb (rv_arith ep x) = Arith.ROk) (rvf_batches f)).
      { apply file_valid_o_batches in Hv; [|exact Hs]. cbn [rvf_arith vf_batches] in Hv.
        apply Forall_forall. intros x Hx. rewrite Forall_forall in Hv. apply Hv. now apply in_map. }
      clear - K1 Hok Hvb HT. revert K1 Hok Hvb. generalize (rvf_batches f1). generalize (rvf_batches f).
      induction l as [|x xs IH]; intros ys K Hok Hvb; inversion K as [|? y ? ys' Kx K']; subst; constructor.
      + inversion Hok as [|? ? [Hr Hc] _]; subst. inversion Hvb as [|? ? Hvx _]; subst.
        destruct Kx as (_ & Ee & Eb & _ & _ & _ & Ec). unfold batch_ok. rewrite Eb, Ee. split; [now apply reversal_closed|].
        rewrite <- Eb, Ec. unfold codes.
        apply validate_batch_o_split in Hvx as [F _]. pose proof (vbf_entries _ _ _ F) as Fe.
        cbn [rv_arith vb_b vb_eopts r_batch AR.bt_entries] in Fe. apply valid_ctc_back; [exact Fe|exact Hr].
      + inversion Hok; subst. inversion Hvb; subst. now apply IH.
    - rewrite T1. reflexivity. }
  destruct (reversal_file_valid_o d2 t2 f1 Hf1) as (f2 & E2 & V2 & O2 & _ & _ & _ & _ & K2 & D2 & C2 & _).
  exists f1, f2. repeat split; try assumption.
  - now rewrite O2.
  - now apply (kept_twice d1 d2 _ (rvf_batches f1)).
  - now rewrite D2, C1.
  - now rewrite C2, D1.
Qed.


(* under SkipAll neither File.Create nor File.Validate checks anything *)
Lemma reversal_file_skip_all d t f : oflag ix_skip_all (rvf_opts f) = true ->
  exists f', reversal_file_o A T ep d t f = RvOk f' /\ file_valid_o csem A (rvf_arith ep f') = true
    /\ rvf_opts f' = rvf_opts f /\ Forall2 (kept d) (rvf_batches f) (rvf_batches f').
Proof.
  intros Hs. unfold reversal_file_o. rewrite Hs. cbn [negb andb]. eexists. split; [reflexivity|].
  split; [|split; [reflexivity|apply kept_renumber]].
  unfold file_valid_o. cbn [rvf_arith vf_opts rvf_opts]. now rewrite Hs.
Qed.

End RevO.

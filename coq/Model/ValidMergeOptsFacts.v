(* Phase 5, C09: every file MergeFilesWith emits validates under the options it carries when
   every input validates under the options stored on it.

   Per entry: what validity of the input batch under the options it is merged with says about
   one entry ([entry_in_o]) depends on the header only through service class and ODFI (part of
   the identity key BatchHeader.Equal compares) and is monotone in the batch options; an output
   batch carries at least the options of every input batch one of its entries comes from
   (C08_opts_no_mixing), so the per-entry facts carry over.  Per batch: non-empty (C09_limits),
   trace numbers strictly ascending in Go's string order (C09_traces_ascending), control =
   tabulation.  Per file: batch numbers ascending (C09_batch_numbers_ascending), control =
   tabulation, and the routing fields of the header validate under the EXACT union of the
   options of the inputs with that routing pair (C08_opts_file_exact; RequireABAOrigin tightens,
   so inclusion alone would not do). *)
From Coq Require Import Lia Sorting.Sorted.
From ACH Require Import ValidOut ValidOutFacts ArithOpts ArithOptsFacts.
From Coq Require Import List NArith ZArith Bool.
From ACH Require Import Bytes Fields Merge MergeFacts MergeOpts MergeOptsFacts ValidMerge ValidMergeFacts.
From ACH Require Export ValidMergeOpts.
Import ListNotations.
Open Scope Z_scope.

Lemma bytes_leb_false_gt a : forall b, AR.bytes_leb a b = false -> bcmp a b = Gt.
Proof.
  induction a as [|x a IH]; intros [|y b] H; cbn [AR.bytes_leb bcmp] in *; try discriminate; [reflexivity|].
  destruct (x <? y)%N eqn:E1; [discriminate|]. destruct (y <? x)%N eqn:E2.
  - replace (N.compare x y) with Gt; [reflexivity|]. symmetry. apply N.compare_gt_iff. now apply N.ltb_lt.
  - assert (x = y) by (apply N.ltb_ge in E1, E2; lia). subst y. rewrite N.compare_refl. now apply IH.
Qed.

Lemma hkey_scc a b : hkey a = hkey b -> h_scc a = h_scc b.
Proof. unfold hkey. intros H. injection H as H1 _ _ _ _ _ _. exact H1. Qed.

Section MrgO.
Variable csem : N -> Z -> bool.
Variables (A : AR.tables) (mp : N -> mpay) (mo : N -> vopts).

Local Notation me := (m_entry mp).
Local Notation vb := (validate_batch_o csem A).

(* ---- what validity of a batch under options says about one entry ----------------------- *)

Definition entry_in_o (cls : Z) (odfi : bytes) (o : vopts) (e : entry) : Prop :=
  (cls <> 0 /\ AR.memz cls (AR.t_classes A) = true) /\
  bytes_eqb odfi (repeat zero 9) = false /\
  validate_entry_o csem A (mo (e_id e)) (me e) = AR.ROk /\
  tran_code_o A cls (mo (e_id e)) (me e) = AR.ROk /\
  (custom o = true \/ AR.bytes_leb (e_trace e) [48%N] = false) /\
  (custom o = true \/ bypass o = true \/ AR.trace_prefix AR.KStd (me e) = stringField odfi 8).

Lemma entry_in_o_mono cls odfi o o' e : fle o o' -> entry_in_o cls odfi o e -> entry_in_o cls odfi o' e.
Proof.
  intros Hle (H1 & H2 & H3 & H4 & H5 & H6). unfold entry_in_o. repeat split; try assumption; try tauto.
  - destruct H5 as [H|H]; [left; now apply Hle|now right].
  - destruct H6 as [H|[H|H]]; [left; now apply Hle|right; left; now apply Hle|right; now right].
Qed.

(* a standard batch with header class / ODFI and the entries [es] (record options by [mo]) that
   validates under [o]: every entry is admissible *)
Lemma valid_o_entries_in o cls odfi num c es :
  vb (mkvb o (m_eopts mo es) (AR.mkbatch AR.KStd cls odfi num (map me es) c)) = AR.ROk ->
  forall e, In e es -> entry_in_o cls odfi o e.
Proof.
  intros Hv e He. apply validate_batch_o_split in Hv as [F Htc].
  destruct F as [Fne Fhc Fe Fc Fcl Fo Fn Fcnt Fasc Fd Fcr Fh Ft].
  cbn [vb_b vb_eopts vb_opts AR.bt_class AR.bt_odfi AR.bt_entries AR.bt_ctl] in *.
  unfold m_eopts in Fe, Htc. rewrite each_o_map in Fe, Htc. apply first_fail_ok in Fe, Htc.
  rewrite Forall_forall in Fe, Htc.
  unfold entry_in_o. repeat split; try (now apply Fhc).
  - unfold AR.validate_bctl in Fc. ok_split. rewrite Fo.
    match goal with H : negb (bytes_eqb _ _) = true |- _ => now apply negb_true_iff in H end.
  - now apply Fe.
  - now apply Htc.
  - destruct Fasc as [H|H]; [now left|right]. apply ascending_above in H. rewrite Forall_forall in H.
    exact (H (me e) (in_map me es e He)).
  - destruct Ft as [H|[H|H]]; [now left|right; now left|right; right].
    unfold AR.trace_odfi_ok in H. cbn [AR.bt_entries AR.bt_odfi] in H. rewrite forallb_forall in H.
    symmetry. apply bytes_eqb_eq. exact (H (me e) (in_map me es e He)).
Qed.

(* ... and conversely a tabulated batch of admissible entries, strictly ascending, validates *)
Lemma entries_in_o_valid o h num es :
  es <> [] -> tasc es -> (forall e, In e es -> entry_in_o (h_scc h) (h_odfi h) o e) ->
  AR.calc_debit A AR.KStd (map me es) <= AR.t_batch_limit A ->
  AR.calc_credit A AR.KStd (map me es) <= AR.t_batch_limit A ->
  vb (mkvb o (m_eopts mo es) (m_tab A mp h num es)) = AR.ROk.
Proof.
  intros Hne Ht Hin Hd Hc.
  destruct es as [|e0 es0] eqn:E; [congruence|]. rewrite <- E in *.
  assert (H0 : entry_in_o (h_scc h) (h_odfi h) o e0) by (apply Hin; rewrite E; now left).
  destruct H0 as (K1 & K2 & _).
  apply validate_batch_o_split. unfold m_tab, VO.tabulate, VO.tab_ctl.
  cbn [vb_b vb_eopts vb_opts AR.bt_class AR.bt_odfi AR.bt_number AR.bt_entries AR.bt_ctl
       AR.bc_class AR.bc_count AR.bc_hash AR.bc_debit AR.bc_credit AR.bc_odfi AR.bc_number].
  split.
  - constructor;
      cbn [vb_b vb_eopts vb_opts AR.bt_class AR.bt_odfi AR.bt_number AR.bt_entries AR.bt_ctl
           AR.bc_class AR.bc_count AR.bc_hash AR.bc_debit AR.bc_credit AR.bc_odfi AR.bc_number];
      try reflexivity; try (now right); try (now left).
    + intros E'. apply map_eq_nil in E'. congruence.
    + exact K1.
    + unfold m_eopts. rewrite each_o_map. apply first_fail_ok, Forall_forall. intros e He.
      destruct (Hin e He) as (_ & _ & K & _). exact K.
    + unfold AR.validate_bctl. cbn [AR.bc_class AR.bc_odfi AR.bc_debit AR.bc_credit].
      destruct K1 as [K0 Km].
      repeat apply andr_intro; try reflexivity; apply chk_intro.
      * now apply negb_true_iff, Z.eqb_neq.
      * now rewrite K2.
      * exact Km.
      * now apply Z.leb_le.
      * now apply Z.leb_le.
    + destruct (custom o) eqn:Ec; [now left|right].
      apply ascending_from_sorted.
      * apply Forall_forall. intros x Hx. apply in_map_iff in Hx as (e & <- & He).
        destruct (Hin e He) as (_ & _ & _ & _ & [K|K] & _); [congruence|]. exact K.
      * rewrite map_map. apply tasc_sorted; [reflexivity|exact Ht].
    + destruct (custom o) eqn:Ec; [now left|right]. destruct (bypass o) eqn:Eb; [now left|right].
      unfold AR.trace_odfi_ok. cbn [AR.bt_entries AR.bt_odfi]. apply forallb_forall. intros x Hx.
      apply in_map_iff in Hx as (e & <- & He).
      destruct (Hin e He) as (_ & _ & _ & _ & _ & [K|[K|K]]); [congruence|congruence|].
      apply bytes_eqb_eq. symmetry. exact K.
  - unfold m_eopts. rewrite each_o_map. apply first_fail_ok, Forall_forall. intros e He.
    destruct (Hin e He) as (_ & _ & _ & K & _). exact K.
Qed.

(* ---- the inputs --------------------------------------------------------------------------- *)

(* every input batch validates under the options MergeFilesWith attaches to it (the file's merged
   with its own — implied by validity under its own, [stored_valid_inputs]), under the batch
   number and the control record it holds *)
Definition inputs_valid_o (fs : list ifileo) : Prop :=
  forall f ib, In f fs -> In ib (fo_batches f) ->
    exists num c, vb (m_ibatch_o mp mo (fo_opts f) ib num c) = AR.ROk.

(* the routing fields of every input file header validate under the file's options *)
Definition input_header_valid (f : ifileo) : Prop :=
  oflag ix_skip_all (fo_opts f) = true \/ oflag ix_missing_header (fo_opts f) = true
  \/ header_ok (fo_opts f) (fo_origin f) (fo_dest f) = true.
Definition inputs_header_valid (fs : list ifileo) : Prop := forall f, In f fs -> input_header_valid f.

Lemma fle_batch_in_opts fo ib : fle (ibo_opts ib) (batch_in_opts fo ib).
Proof. intros i H. unfold batch_in_opts. rewrite oflag_omerge, H. apply orb_true_r. Qed.

(* validity under the options stored on the batch itself is enough *)
Lemma stored_valid_inputs fs :
  (forall f ib, In f fs -> In ib (fo_batches f) ->
     exists num c, vb (mkvb (ibo_opts ib) (m_eopts mo (ib_entries (ibo_batch ib)))
                            (AR.mkbatch AR.KStd (h_scc (ib_header (ibo_batch ib))) (h_odfi (ib_header (ibo_batch ib))) num
                                        (map me (ib_entries (ibo_batch ib))) c)) = AR.ROk) ->
  inputs_valid_o fs.
Proof.
  intros H f ib Hf Hib. destruct (H f ib Hf Hib) as (num & c & Hv). exists num, c.
  unfold m_ibatch_o. eapply validate_batch_o_mono; [apply fle_batch_in_opts|exact Hv].
Qed.

Lemma inputs_entry_in_o fs : inputs_valid_o fs ->
  forall f ib e, In f fs -> In ib (fo_batches f) -> In e (ib_entries (ibo_batch ib)) ->
  entry_in_o (h_scc (ib_header (ibo_batch ib))) (h_odfi (ib_header (ibo_batch ib))) (batch_in_opts (fo_opts f) ib) e.
Proof.
  intros Hv f ib e Hf Hib He. destruct (Hv f ib Hf Hib) as (num & c & Hnum).
  unfold m_ibatch_o in Hnum. exact (valid_o_entries_in _ _ _ _ _ _ Hnum e He).
Qed.

(* inputs that validate under their options and that Batch.build leaves alone satisfy the
   trace-number hypothesis of C08_opts_create_ok *)
Lemma inputs_valid_trace fs : inputs_valid_o fs -> inputs_stay fs -> inputs_trace_valid fs.
Proof.
  intros Hv Hs f ib e Hf Hib He. unfold entry_trace_valid. rewrite (Hs f ib e Hf Hib He). cbn [andb].
  destruct (inputs_entry_in_o fs Hv f ib e Hf Hib He) as (_ & _ & _ & _ & K5 & K6).
  destruct (custom (batch_in_opts (fo_opts f) ib)) eqn:Ec; [reflexivity|]. cbn [orb].
  destruct K5 as [K5|K5]; [congruence|]. rewrite (bytes_leb_false_gt _ _ K5). cbn [is_gt andb].
  destruct (bypass (batch_in_opts (fo_opts f) ib)) eqn:Eb; [reflexivity|]. cbn [orb].
  destruct K6 as [K6|[K6|K6]]; [congruence|congruence|].
  unfold trace_is_odfi. apply bytes_eqb_eq. symmetry. exact K6.
Qed.

(* ---- the outputs: batches ---------------------------------------------------------------------- *)

Lemma merge_o_entries_in fs c g rb : inputs_valid_o fs ->
  In g (merge_files_o fs c) -> In rb (rfo_batches g) ->
  forall e, In e (rbo_entries rb) -> entry_in_o (h_scc (rbo_header rb)) (h_odfi (rbo_header rb)) (rbo_opts rb) e.
Proof.
  intros Hv Hg Hrb e He.
  destruct (merge_o_entry_source fs c g rb e Hg Hrb He) as (f & ib & Hf & Hib & He' & _ & Hk & Hsub).
  rewrite <- (hkey_scc _ _ Hk), <- (hkey_odfi _ _ Hk).
  eapply entry_in_o_mono; [apply osub_fle, Hsub|]. now apply (inputs_entry_in_o fs Hv).
Qed.

Lemma merge_o_batch_nonempty fs c g rb : In g (merge_files_o fs c) -> In rb (rfo_batches g) -> rbo_entries rb <> [].
Proof.
  intros Hg Hrb.
  destruct (merge_limits (map erase_ifile fs) c (erase_rf g)) as (_ & _ & _ & Hne).
  { rewrite <- merge_o_erase. now apply in_map. }
  rewrite Forall_forall in Hne. specialize (Hne (erase_rb rb)). apply Hne.
  cbn [erase_rf rf_batches]. now apply in_map.
Qed.

Theorem merge_o_batch_valid fs c : inputs_valid_o fs ->
  forall g rb, In g (merge_files_o fs c) -> In rb (rfo_batches g) ->
  AR.calc_debit A AR.KStd (map me (rbo_entries rb)) <= AR.t_batch_limit A ->
  AR.calc_credit A AR.KStd (map me (rbo_entries rb)) <= AR.t_batch_limit A ->
  vb (m_obatch A mp mo rb) = AR.ROk.
Proof.
  intros Hv g rb Hg Hrb Hd Hc. unfold m_obatch. apply entries_in_o_valid; try assumption.
  - now apply (merge_o_batch_nonempty fs c g).
  - now apply (merge_o_tasc fs c g).
  - now apply (merge_o_entries_in fs c g).
Qed.

(* ---- the outputs: files ------------------------------------------------------------------------ *)

Lemma m_ofile_batches g : map vb_b (map (m_obatch A mp mo) (rfo_batches g)) = map (m_batch A mp) (rf_batches (erase_rf g)).
Proof. cbn [erase_rf rf_batches]. rewrite !map_map. apply map_ext. reflexivity. Qed.

(* some input file has the routing pair of an output file *)
Lemma merge_o_file_source fs c g : In g (merge_files_o fs c) -> exists f, In f fs /\ fo_route f = rfo_route g.
Proof.
  intros Hg.
  destruct (merge_limits (map erase_ifile fs) c (erase_rf g)) as (_ & _ & Hne & _).
  { rewrite <- merge_o_erase. now apply in_map. }
  cbn [erase_rf rf_batches] in Hne. destruct (rfo_batches g) as [|rb r] eqn:E; [now contradiction Hne|].
  assert (Hrb : In rb (rfo_batches g)) by (rewrite E; now left).
  pose proof (merge_o_batch_nonempty fs c g rb Hg Hrb) as Hn.
  destruct (rbo_entries rb) as [|e es] eqn:Ee; [congruence|].
  destruct (merge_o_entry_source fs c g rb e Hg Hrb ltac:(rewrite Ee; now left)) as (f & _ & Hf & _ & _ & Hr & _).
  now exists f.
Qed.

Lemma route_eq f g : fo_route f = rfo_route g -> fo_origin f = rfo_origin g /\ fo_dest f = rfo_dest g.
Proof. unfold fo_route, rfo_route. intros H. now injection H. Qed.

(* the header of an output file validates under the union of the options of the input files with
   its routing pair *)
Lemma merge_o_header_ok fs c g : inputs_header_valid fs -> In g (merge_files_o fs c) ->
  oflag ix_skip_all (rfo_opts g) = false -> oflag ix_missing_header (rfo_opts g) = false ->
  header_ok (rfo_opts g) (rfo_origin g) (rfo_dest g) = true.
Proof.
  intros Hh Hg Hs Hm.
  (* every input of the pair validates its header proper *)
  assert (Hin : forall f, In f fs -> fo_route f = rfo_route g ->
                          header_ok (fo_opts f) (rfo_origin g) (rfo_dest g) = true).
  { intros f Hf Hr. pose proof (osub_fle _ _ (merge_o_file_union fs c g f Hg Hf Hr)) as Hle.
    destruct (route_eq f g Hr) as [<- <-].
    destruct (Hh f Hf) as [H|[H|H]]; [apply Hle in H; congruence|apply Hle in H; congruence|exact H]. }
  destruct (merge_o_file_source fs c g Hg) as (f0 & Hf0 & Hr0).
  pose proof (Hin f0 Hf0 Hr0) as H0. unfold header_ok in H0 |- *.
  apply andb_prop in H0 as [H0 Hd0]. apply andb_prop in H0 as [Hne0 Ho0]. rewrite Hne0. cbn [andb].
  apply andb_true_intro. split.
  - destruct (oflag ix_bypass_origin (rfo_opts g)) eqn:Eb; [reflexivity|]. cbn [orb].
    assert (Hnb : forall f, In f fs -> fo_route f = rfo_route g -> oflag ix_bypass_origin (fo_opts f) = false).
    { intros f Hf Hr. destruct (oflag ix_bypass_origin (fo_opts f)) eqn:E; [|reflexivity].
      apply (osub_fle _ _ (merge_o_file_union fs c g f Hg Hf Hr)) in E. congruence. }
    rewrite (Hnb f0 Hf0 Hr0) in Ho0. cbn [orb] in Ho0. apply andb_prop in Ho0 as [Hz _]. rewrite Hz. cbn [andb].
    destruct (oflag ix_require_aba (rfo_opts g)) eqn:Ea; [|reflexivity]. cbn [negb orb].
    apply (merge_o_file_flags fs c g ix_require_aba Hg) in Ea as (f1 & Hf1 & Hr1 & Ea1).
    pose proof (Hin f1 Hf1 Hr1) as H1. unfold header_ok in H1.
    apply andb_prop in H1 as [H1 _]. apply andb_prop in H1 as [_ H1].
    rewrite (Hnb f1 Hf1 Hr1), Ea1 in H1. cbn [orb negb] in H1. apply andb_prop in H1 as [_ H1]. exact H1.
  - destruct (oflag ix_bypass_dest (rfo_opts g)) eqn:Eb; [reflexivity|]. cbn [orb].
    destruct (oflag ix_bypass_dest (fo_opts f0)) eqn:E.
    + apply (osub_fle _ _ (merge_o_file_union fs c g f0 Hg Hf0 Hr0)) in E. congruence.
    + exact Hd0.
Qed.

Theorem merge_o_file_valid fs c : inputs_valid_o fs -> inputs_header_valid fs ->
  forall g, In g (merge_files_o fs c) ->
  Forall (fun rb => AR.calc_debit A AR.KStd (map me (rbo_entries rb)) <= AR.t_batch_limit A /\
                    AR.calc_credit A AR.KStd (map me (rbo_entries rb)) <= AR.t_batch_limit A) (rfo_batches g) ->
  fctl_fits A (vf_ctl (m_ofile A mp mo g)) ->
  file_valid_o csem A (m_ofile A mp mo g) = true.
Proof.
  intros Hv Hh g Hg Hlim Hfit. apply file_valid_o_spec.
  cbn [m_ofile vf_opts vf_origin vf_dest vf_batches vf_ctl] in *.
  destruct (oflag ix_skip_all (rfo_opts g)) eqn:Es; [now left|right]. split.
  - destruct (oflag ix_missing_header (rfo_opts g)) eqn:Em; [now left|right]. now apply (merge_o_header_ok fs c g).
  - assert (Hne : rfo_batches g <> []).
    { destruct (merge_limits (map erase_ifile fs) c (erase_rf g)) as (_ & _ & Hne & _).
      { rewrite <- merge_o_erase. now apply in_map. }
      cbn [erase_rf rf_batches] in Hne. intros E. rewrite E in Hne. now apply Hne. }
    constructor; cbn [m_ofile vf_opts vf_origin vf_dest vf_batches vf_ctl tab_fctl_o
                      AR.fc_batches AR.fc_count AR.fc_hash AR.fc_debit AR.fc_credit];
      try reflexivity; try (now left).
    + now rewrite !map_length.
    + apply Forall_forall. intros x Hx. apply in_map_iff in Hx as (rb & <- & Hrb).
      rewrite Forall_forall in Hlim. destruct (Hlim rb Hrb) as [Hd Hc]. now apply (merge_o_batch_valid fs c Hv g).
    + right. apply fits_validate_fctl; [exact Hfit|]. intros _.
      cbn [tab_fctl_o AR.fc_batches]. rewrite !map_length. destruct (rfo_batches g); [congruence|cbn [length]; lia].
    + right. rewrite m_ofile_batches. apply asc_numbers_ascending.
      apply (merge_numbers (map erase_ifile fs) c). rewrite <- merge_o_erase. now apply in_map.
Qed.

(* the statement of C09_valid_opts *)
Theorem merge_o_valid_opts fs c :
  inputs_valid_o fs -> inputs_header_valid fs -> inputs_stay fs ->
  forall g, In g (merge_files_o fs c) ->
  Forall (fun rb => AR.calc_debit A AR.KStd (map me (rbo_entries rb)) <= AR.t_batch_limit A /\
                    AR.calc_credit A AR.KStd (map me (rbo_entries rb)) <= AR.t_batch_limit A) (rfo_batches g) ->
  fctl_fits A (vf_ctl (m_ofile A mp mo g)) ->
  (forall rb, In rb (rfo_batches g) -> rbo_created rb = Some (rbo_entries rb))
  /\ Forall (fun rb => vb (m_obatch A mp mo rb) = AR.ROk) (rfo_batches g)
  /\ file_valid_o csem A (m_ofile A mp mo g) = true.
Proof.
  intros Hv Hh Hs g Hg Hlim Hfit. split; [|split].
  - intros rb Hrb. apply (merge_o_created fs c g rb); [now apply inputs_valid_trace|exact Hg|exact Hrb].
  - apply Forall_forall. intros rb Hrb. rewrite Forall_forall in Hlim. destruct (Hlim rb Hrb) as [Hd Hc].
    now apply (merge_o_batch_valid fs c Hv g).
  - now apply (merge_o_file_valid fs c).
Qed.


(* ---- the hypothesis stated for whole input files ------------------------------------------------- *)

(* [views f v]: v is the input file f as File.Validate sees it — options, routing fields, per batch the
   options stored on it and on its entry records, class, ODFI and entries of the merge model's batch;
   batch numbers, batch controls and the file control are whatever the file holds *)
Definition views (f : ifileo) (v : vfile) : Prop :=
  vf_opts v = fo_opts f /\ vf_origin v = fo_origin f /\ vf_dest v = fo_dest f /\
  Forall2 (fun ib ob =>
             vb_opts ob = ibo_opts ib /\ vb_eopts ob = m_eopts mo (ib_entries (ibo_batch ib)) /\
             AR.bt_kind (vb_b ob) = AR.KStd /\ AR.bt_class (vb_b ob) = h_scc (ib_header (ibo_batch ib)) /\
             AR.bt_odfi (vb_b ob) = h_odfi (ib_header (ibo_batch ib)) /\
             AR.bt_entries (vb_b ob) = map me (ib_entries (ibo_batch ib)))
          (fo_batches f) (vf_batches v).

(* every input file passes File.Validate() under the options stored on it, and not because of SkipAll
   (under SkipAll nothing is known of the batches, and MergeFilesWith may fail in Batch.Create) *)
Definition input_files_valid (fs : list ifileo) : Prop :=
  forall f, In f fs -> exists v, views f v /\ file_valid_o csem A v = true /\ oflag ix_skip_all (fo_opts f) = false.

Lemma Forall2_In_l {X Y} (R : X -> Y -> Prop) l : forall l', Forall2 R l l' -> forall x, In x l -> exists y, In y l' /\ R x y.
Proof.
  induction l as [|a l IH]; intros l' H x Hx; [destruct Hx|].
  inversion H as [|? b ? l2 Hab Hl]; subst. destruct Hx as [<-|Hx].
  - exists b. split; [now left|exact Hab].
  - destruct (IH l2 Hl x Hx) as (y & Hy & Hr). exists y. split; [now right|exact Hr].
Qed.

Lemma input_files_valid_hyps fs : input_files_valid fs -> inputs_valid_o fs /\ inputs_header_valid fs.
Proof.
  intros H. split.
  - apply stored_valid_inputs. intros f ib Hf Hib.
    destruct (H f Hf) as (v & (Eo & _ & _ & Hb) & Hv & Hs).
    apply file_valid_o_batches in Hv; [|now rewrite Eo].
    destruct (Forall2_In_l _ _ _ Hb ib Hib) as (ob & Hob & E1 & E2 & E3 & E4 & E5 & E6).
    rewrite Forall_forall in Hv. specialize (Hv ob Hob).
    destruct ob as [o eos [k cls od num es c]]. cbn [vb_opts vb_eopts vb_b AR.bt_kind AR.bt_class AR.bt_odfi AR.bt_entries] in *.
    subst o eos k cls od es. now exists num, c.
  - intros f Hf. destruct (H f Hf) as (v & (Eo & Er & Ed & _) & Hv & Hs).
    apply file_valid_o_spec in Hv as [Hv|[Hh _]]; [rewrite Eo in Hv; congruence|].
    rewrite Eo, Er, Ed in Hh. right. exact Hh.
Qed.

End MrgO.

(* When does SegmentFile succeed?  For every file passing the modelled validation
   whose IAT / ADV batches are well-formed, the ONLY way to fail is the
   ascending-batch-number check of an output file (the known finding
   segment:batch-number-collision): under [numbers_ok] it returns two files. *)
From Coq Require Import ZArith NArith List Bool Lia Permutation.
Import ListNotations.
From ACH Require Import TxCodes RevTable SegTable Segment SegmentFacts.
Open Scope Z_scope.

(* the numbers File.Create leaves on the standard batches of both outputs are ascending
   (ADV files are not checked for it) *)
Definition numbers_ok (T : stables) (f : sfile) : bool :=
  is_adv_file (sf_batches f)
  || (ascending 0 (map sb_num (renumber 1 (flat_map (part T true) (sf_batches f))))
      && ascending 0 (map sb_num (renumber 1 (flat_map (part T false) (sf_batches f))))).

Lemma same_batch_ok T x y : same_batch x y -> batch_ok T x = batch_ok T y.
Proof.
  intros (He & _ & Ha & Hs & Hc & Hd). unfold batch_ok, ctl_wf, dir_wf.
  now rewrite He, Ha, Hs, Hc, Hd.
Qed.

Section Success.
  Variable T : stables.
  Hypothesis HT : seg_tables_ok T = true.

  Lemma fresh_std_ok (cr : bool) b y :
    batch_ok T b = true ->
    In y (fresh (st_amt_std T) false (if cr then 220 else 225) (sb_num b) (sb_ident b)
                (filter (goes (st_seg_std T) (dir_of cr)) (sb_entries b))) ->
    batch_ok T y = true.
  Proof.
    intros Hb Hy. destruct (HT_parts T HT) as (_ & _ & _ & _ & _ & Hamt & _).
    apply fresh_In in Hy as (He & _ & Ha & Hs & Hc & Hd & Hne).
    unfold batch_ok in Hb. apply andb_prop in Hb as [_ Hdir]. unfold dir_wf in Hdir.
    apply andb_prop in Hdir as [Hdir _]. apply andb_prop in Hdir as [Hdir _]. apply andb_prop in Hdir as [_ Hcodes].
    rewrite forallb_forall in Hcodes.
    set (es' := filter (goes (st_seg_std T) (dir_of cr)) (sb_entries b)) in *.
    assert (Hsub : forall e, In e es' -> entry_code (st_codes T) (e_code e) = true).
    { intros e Hin. apply filter_In in Hin as [Hin _]. now apply Hcodes. }
    assert (Hall : all_dir (dir_of cr) es' = true).
    { unfold all_dir. apply forallb_forall. intros e Hin. pose proof (Hsub e Hin) as Hec.
      apply filter_In in Hin as [_ Hg]. unfold goes in Hg. rewrite (agree T HT KStd) in Hg. cbn [amt_of] in Hg.
      now rewrite <- (amount_lists_dir _ _ _ Hamt Hec). }
    unfold batch_ok, ctl_wf, dir_wf. rewrite He, Ha, Hs, Hc, Hd, !Z.eqb_refl.
    assert (Hcodes' : forallb (fun e => entry_code (st_codes T) (e_code e)) es' = true) by (now apply forallb_forall).
    rewrite Hcodes'. destruct es' as [|e0 r0] eqn:Ees; [congruence|].
    destruct cr; cbn [dir_of] in Hall; rewrite Hall; reflexivity.
  Qed.

  Lemma part_batch_ok cr b y : batch_ok T b = true -> In y (part T cr b) -> batch_ok T y = true.
  Proof.
    intros Hb Hy. pose proof (batch_ok_bwf T HT b Hb) as [_ _ _ Hadv Hcls]. cbn [amt_of] in *.
    unfold part in Hy. rewrite Hadv in Hy.
    destruct (HT_parts T HT) as (_ & _ & _ & Hscc & _). destruct (scc_ok_sound _ Hscc) as (L200 & L220 & L225).
    destruct Hcls as [E|[[E _]|[E _]]]; rewrite E in Hy.
    - rewrite L200 in Hy. now apply (fresh_std_ok cr b y).
    - rewrite L220 in Hy. destruct cr; [|destruct Hy]. destruct Hy as [<-|[]]. exact Hb.
    - rewrite L225 in Hy. destruct cr; [destruct Hy|]. destruct Hy as [<-|[]]. exact Hb.
  Qed.

  (* an output of the walk passes File.Validate as soon as its numbers are ascending *)
  Lemma finish_succeeds o d bs is :
    uniform bs is ->
    (forall y, In y bs -> sb_adv y = true \/ batch_ok T y = true) ->
    (is_adv_file bs = false -> ascending 0 (map sb_num (renumber 1 bs)) = true) ->
    exists g, finish T o d bs is = inl g.
  Proof.
    intros Hu Hok Hasc. unfold finish.
    assert (Hmain : exists g, match create o d bs is with
                              | None => inr EAdvOnly
                              | Some g => match validate T g with None => inl g | Some v => inr (EOutput v) end
                              end = inl g).
    { destruct (create_uniform o d bs is Hu) as (g & m & Hc & _ & _ & Hb & Hi & Hcr & Hde).
      rewrite Hc. exists g.
      assert (Hadv : is_adv_file (sf_batches g) = is_adv_file bs).
      { rewrite Hb. unfold is_adv_file. clear. generalize 1. induction bs as [|b r IH]; intros n; [reflexivity|].
        cbn [renumber existsb]. rewrite IH. now destruct (sb_num b <=? 1). }
      unfold validate. rewrite Hadv. destruct (is_adv_file bs) eqn:Ea.
      - destruct Hu as [[_ ->]|Hnone]; [|rewrite (no_adv_not_adv_file _ Hnone) in Ea; discriminate].
        rewrite Hb, renumber_credit, renumber_debit, Hcr, Hde. cbn [tot_credit tot_debit].
        rewrite !Z.add_0_r, !Z.eqb_refl. reflexivity.
      - assert (Hall : forallb (batch_ok T) (sf_batches g) = true).
        { apply forallb_forall. intros x Hx. rewrite Hb in Hx.
          destruct (renumber_In _ _ _ Hx) as (y & Hy & Hs). rewrite (same_batch_ok T x y Hs).
          destruct (Hok y Hy) as [Hya|Hyo]; [|exact Hyo].
          exfalso. unfold is_adv_file in Ea. assert (existsb sb_adv bs = true) by (apply existsb_exists; now exists y).
          congruence. }
        rewrite Hall. cbn [negb]. rewrite Hb at 1 2. rewrite Hi at 1 2.
        rewrite !renumber_credit, !renumber_debit, Hcr, Hde, !Z.eqb_refl. cbn [andb negb].
        rewrite Hb, (Hasc eq_refl). reflexivity. }
    destruct bs as [|b r]; [destruct is as [|i ri]|]; [now exists empty_file|exact Hmain|exact Hmain].
  Qed.

  Theorem segment_succeeds f :
    validate T f = None -> input_wf T f = true -> numbers_ok T f = true ->
    exists cf df, segment T f = SOk cf df.
  Proof.
    intros Hv Hw Hn. destruct (input_cases T HT f Hv Hw) as (HB & HI & _ & _ & Hu).
    assert (Same : forall cr b x, In b (sf_batches f) -> In x (part T cr b) -> sb_adv x = sb_adv b).
    { intros cr b x Hb Hx. pose proof (part_ok T HT b (HB b Hb)) as P.
      apply (ps_same _ _ _ _ P). apply in_or_app. destruct cr; auto. }
    assert (Hout : forall cr, exists g, finish T (sf_origin f) (sf_dest f)
                          (flat_map (part T cr) (sf_batches f)) (flat_map (ipart T cr) (sf_iat f)) = inl g).
    { intros cr. apply finish_succeeds.
      - apply out_uniform; [exact Hu|intros b x Hb Hx; now apply (Same cr)].
      - intros y Hy. apply in_flat_map in Hy as (b & Hb & Hy).
        unfold validate in Hv. destruct (is_adv_file (sf_batches f)) eqn:Ea.
        + left. rewrite (Same cr b y Hb Hy). destruct Hu as [[Hall _]|Hnone].
          * rewrite forallb_forall in Hall. now apply Hall.
          * rewrite (no_adv_not_adv_file _ Hnone) in Ea. discriminate.
        + right. destruct (forallb (batch_ok T) (sf_batches f)) eqn:Eb; [|discriminate].
          rewrite forallb_forall in Eb. apply (part_batch_ok cr b y); [now apply Eb|exact Hy].
      - intros Hna. unfold numbers_ok in Hn. apply orb_prop in Hn as [Hadv|Hasc].
        + (* an ADV input: every output batch is ADV, so a non-ADV output has no standard batch *)
          destruct Hu as [[Hall _]|Hnone]; [|rewrite (no_adv_not_adv_file _ Hnone) in Hadv; discriminate].
          assert (Hnil : flat_map (part T cr) (sf_batches f) = []).
          { destruct (flat_map (part T cr) (sf_batches f)) as [|y r] eqn:E; [reflexivity|].
            assert (Hy : In y (flat_map (part T cr) (sf_batches f))) by (rewrite E; now left).
            apply in_flat_map in Hy as (b & Hb & Hy). rewrite forallb_forall in Hall.
            pose proof (Same cr b y Hb Hy) as Hs. rewrite (Hall b Hb) in Hs.
            unfold is_adv_file in Hna. cbn [existsb] in Hna. rewrite Hs in Hna. discriminate. }
          rewrite Hnil. reflexivity.
        + apply andb_prop in Hasc as [H1 H2]. destruct cr; assumption. }
    destruct (Hout true) as (cf & Ec). destruct (Hout false) as (df & Ed).
    exists cf, df. unfold segment. rewrite Hv, Ec, Ed. reflexivity.
  Qed.
End Success.

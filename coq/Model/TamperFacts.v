(* C04: completeness of the control arithmetic checks.  For every integrity
   protected field, replacing its value by a different one in an accepted batch /
   file makes validation fail: each lemma exhibits the equality that can no longer
   hold (control fields are compared with values recomputed independently of them;
   an entry field changes the recomputed value by a non-zero amount). *)
From Coq Require Import Lia ZifyBool ZifyNat ZifyN.
From ACH Require Export ArithFacts.
Open Scope Z_scope.

(* ---- setters --------------------------------------------------------------- *)

Definition set_ctl (b : batch) (c : bctl) : batch :=
  mkbatch (bt_kind b) (bt_class b) (bt_odfi b) (bt_number b) (bt_entries b) c.
Definition set_entries (b : batch) (es : list entry) : batch :=
  mkbatch (bt_kind b) (bt_class b) (bt_odfi b) (bt_number b) es (bt_ctl b).
Definition set_hdr_odfi (b : batch) (o : bytes) : batch :=
  mkbatch (bt_kind b) (bt_class b) o (bt_number b) (bt_entries b) (bt_ctl b).
Definition set_hdr_number (b : batch) (n : Z) : batch :=
  mkbatch (bt_kind b) (bt_class b) (bt_odfi b) n (bt_entries b) (bt_ctl b).

Inductive cfield := CClass | CCount | CHash | CDebit | CCredit | CNumber.
Definition get_c (p : cfield) (c : bctl) : Z :=
  match p with
  | CClass => bc_class c | CCount => bc_count c | CHash => bc_hash c
  | CDebit => bc_debit c | CCredit => bc_credit c | CNumber => bc_number c
  end.
Definition set_c (p : cfield) (v : Z) (c : bctl) : bctl :=
  match p with
  | CClass => mkbctl v (bc_count c) (bc_hash c) (bc_debit c) (bc_credit c) (bc_odfi c) (bc_number c)
  | CCount => mkbctl (bc_class c) v (bc_hash c) (bc_debit c) (bc_credit c) (bc_odfi c) (bc_number c)
  | CHash => mkbctl (bc_class c) (bc_count c) v (bc_debit c) (bc_credit c) (bc_odfi c) (bc_number c)
  | CDebit => mkbctl (bc_class c) (bc_count c) (bc_hash c) v (bc_credit c) (bc_odfi c) (bc_number c)
  | CCredit => mkbctl (bc_class c) (bc_count c) (bc_hash c) (bc_debit c) v (bc_odfi c) (bc_number c)
  | CNumber => mkbctl (bc_class c) (bc_count c) (bc_hash c) (bc_debit c) (bc_credit c) (bc_odfi c) v
  end.
Definition set_c_odfi (o : bytes) (c : bctl) : bctl :=
  mkbctl (bc_class c) (bc_count c) (bc_hash c) (bc_debit c) (bc_credit c) o (bc_number c).

Definition set_amount (e : entry) (a : Z) : entry :=
  mkentry (en_code e) a (en_rdfi e) (en_check e) (en_trace e) (en_addenda e).
Definition set_rdfi (e : entry) (r : bytes) : entry :=
  mkentry (en_code e) (en_amount e) r (en_check e) (en_trace e) (en_addenda e).
Definition set_check (e : entry) (c : bytes) : entry :=
  mkentry (en_code e) (en_amount e) (en_rdfi e) c (en_trace e) (en_addenda e).

Inductive ffield := FBatches | FCount | FHash | FDebit | FCredit.
Definition get_f (p : ffield) (c : fctl) : Z :=
  match p with
  | FBatches => fc_batches c | FCount => fc_count c | FHash => fc_hash c | FDebit => fc_debit c | FCredit => fc_credit c
  end.
Definition set_f (p : ffield) (v : Z) (c : fctl) : fctl :=
  match p with
  | FBatches => mkfctl v (fc_count c) (fc_hash c) (fc_debit c) (fc_credit c)
  | FCount => mkfctl (fc_batches c) v (fc_hash c) (fc_debit c) (fc_credit c)
  | FHash => mkfctl (fc_batches c) (fc_count c) v (fc_debit c) (fc_credit c)
  | FDebit => mkfctl (fc_batches c) (fc_count c) (fc_hash c) v (fc_credit c)
  | FCredit => mkfctl (fc_batches c) (fc_count c) (fc_hash c) (fc_debit c) v
  end.
Definition set_fctl (f : file) (c : fctl) : file := mkfile (fl_batches f) (fl_iat f) c.

Ltac simp_set H :=
  cbn [set_ctl set_c set_c_odfi set_hdr_odfi set_hdr_number set_entries
       bt_kind bt_class bt_odfi bt_number bt_entries bt_ctl
       bc_class bc_count bc_hash bc_debit bc_credit bc_odfi bc_number] in H.

(* ---- batch control and header fields ------------------------------------------ *)

Theorem tamper_bctl T b p v : verify T b = ROk -> v <> get_c p (bt_ctl b) ->
  verify T (set_ctl b (set_c p v (bt_ctl b))) <> ROk.
Proof.
  intros H Hv H'. apply verify_facts in H, H'.
  destruct p; cbn [get_c] in Hv; apply Hv.
  - pose proof (bf_class _ _ H) as A. pose proof (bf_class _ _ H') as B. simp_set B. congruence.
  - pose proof (bf_count _ _ H) as A. pose proof (bf_count _ _ H') as B. simp_set B. congruence.
  - pose proof (bf_hash _ _ H) as A. pose proof (bf_hash _ _ H') as B. simp_set B. congruence.
  - pose proof (bf_debit _ _ H) as A. pose proof (bf_debit _ _ H') as B. simp_set B. congruence.
  - pose proof (bf_credit _ _ H) as A. pose proof (bf_credit _ _ H') as B. simp_set B. congruence.
  - pose proof (bf_number _ _ H) as A. pose proof (bf_number _ _ H') as B. simp_set B. congruence.
Qed.

Theorem tamper_bctl_odfi T b o : verify T b = ROk -> o <> bc_odfi (bt_ctl b) ->
  verify T (set_ctl b (set_c_odfi o (bt_ctl b))) <> ROk.
Proof.
  intros H Hv H'. apply verify_facts in H, H'. apply Hv.
  pose proof (bf_odfi _ _ H) as A. pose proof (bf_odfi _ _ H') as B. simp_set B. congruence.
Qed.

Theorem tamper_hdr_odfi T b o : verify T b = ROk -> o <> bt_odfi b -> verify T (set_hdr_odfi b o) <> ROk.
Proof.
  intros H Hv H'. apply verify_facts in H, H'. apply Hv.
  pose proof (bf_odfi _ _ H) as A. pose proof (bf_odfi _ _ H') as B. simp_set B. congruence.
Qed.

Theorem tamper_hdr_number T b n : verify T b = ROk -> n <> bt_number b -> verify T (set_hdr_number b n) <> ROk.
Proof.
  intros H Hv H'. apply verify_facts in H, H'. apply Hv.
  pose proof (bf_number _ _ H) as A. pose proof (bf_number _ _ H') as B. simp_set B. congruence.
Qed.

(* ---- entry fields ---------------------------------------------------------------- *)

Lemma sum_where_app p a b : sum_where p (a ++ b) = sum_where p a + sum_where p b.
Proof. induction a as [|x a IH]; cbn [app sum_where]; [lia|]. rewrite IH. lia. Qed.

Lemma hash_sum_app a b : hash_sum (a ++ b) = hash_sum a + hash_sum b.
Proof. induction a as [|x a IH]; cbn [app hash_sum]; [lia|]. rewrite IH. lia. Qed.

Section WithTables.
Variable T : tables.
Hypothesis HT : tables_ok T = true.

(* every entry of an accepted batch (without foreign accounting codes) is added to
   exactly one of the two totals *)
Lemma entry_one_direction b e : validate_batch T b = ROk -> codes_regular T (bt_kind b) (bt_entries b) ->
  In e (bt_entries b) ->
  xorb (adds_credit T (bt_kind b) (en_code e)) (adds_debit T (bt_kind b) (en_code e)) = true.
Proof.
  intros Hv Hreg Hin. pose proof (verify_facts T b (validate_batch_verify T b Hv)) as F.
  pose proof (bf_entries T b F) as He. rewrite Forall_forall in He.
  pose proof (He e Hin) as Hc. apply validate_entry_facts in Hc as (Hc & _).
  destruct (bt_kind b) eqn:Ek.
  - pose proof (std_no_adv_codes T b Ek Hv) as Hna. rewrite Forall_forall in Hna.
    apply (std_code_one_direction T HT KStd); [discriminate|]. unfold std_code. now rewrite Hc, (Hna e Hin).
  - cbn in Hreg. rewrite Forall_forall in Hreg.
    apply (std_code_one_direction T HT KIAT); [discriminate|]. unfold std_code. now rewrite Hc, (Hreg e Hin).
  - cbn in Hreg. rewrite Forall_forall in Hreg.
    destruct (direction_sound_adv T HT (en_code e)) as [-> ->]. rewrite (Hreg e Hin). cbn [andb].
    unfold spec_is_credit, spec_is_debit. rewrite <- Z.negb_odd. now destruct (Z.odd (en_code e)).
Qed.

Theorem tamper_amount b pre e post a : bt_entries b = pre ++ e :: post ->
  validate_batch T b = ROk -> codes_regular T (bt_kind b) (bt_entries b) -> a <> en_amount e ->
  validate_batch T (set_entries b (pre ++ set_amount e a :: post)) <> ROk.
Proof.
  intros Hes Hv Hreg Ha Hv'.
  assert (Hin : In e (bt_entries b)) by (rewrite Hes; apply in_elt).
  pose proof (entry_one_direction b e Hv Hreg Hin) as Hx.
  pose proof (verify_facts T b (validate_batch_verify T b Hv)) as F.
  pose proof (verify_facts T _ (validate_batch_verify T _ Hv')) as F'.
  pose proof (bf_debit _ _ F) as D. pose proof (bf_debit _ _ F') as D'.
  pose proof (bf_credit _ _ F) as C. pose proof (bf_credit _ _ F') as C'.
  cbn [set_entries bt_kind bt_entries bt_ctl] in D', C'. rewrite Hes in D, C.
  unfold calc_debit, calc_credit in *. rewrite sum_where_app in D, D', C, C'.
  cbn [sum_where set_amount en_code en_amount] in D, D', C, C'.
  destruct (adds_credit T (bt_kind b) (en_code e)), (adds_debit T (bt_kind b) (en_code e)); cbn in Hx; try discriminate; lia.
Qed.

Lemma rem_eq_small s d m : 0 <= s -> 0 <= s + d -> 0 < m -> - m < d < m -> Z.rem (s + d) m = Z.rem s m -> d = 0.
Proof.
  intros Hs Hsd Hm Hd H. rewrite !Z.rem_mod_nonneg in H by lia.
  pose proof (Z.div_mod (s + d) m ltac:(lia)) as E1. pose proof (Z.div_mod s m ltac:(lia)) as E2.
  rewrite H in E1. assert (E : d = m * ((s + d) / m - s / m)) by (rewrite Z.mul_sub_distr_l; lia).
  set (k := (s + d) / m - s / m) in *.
  assert (Hk : k = 0).
  { destruct (Z.lt_trichotomy k 0) as [Hk|[Hk|Hk]]; [|exact Hk|].
    - assert (m * k <= m * (-1)) by (apply Z.mul_le_mono_nonneg_l; lia). lia.
    - assert (m * 1 <= m * k) by (apply Z.mul_le_mono_nonneg_l; lia). lia. }
  rewrite Hk in E. lia.
Qed.

Theorem tamper_rdfi b pre e post r : bt_entries b = pre ++ e :: post ->
  validate_batch T b = ROk -> Forall rdfi_wf (bt_entries b) -> digits8 r -> r <> en_rdfi e ->
  validate_batch T (set_entries b (pre ++ set_rdfi e r :: post)) <> ROk.
Proof.
  intros Hes Hv Hwf Hr Hne Hv'.
  pose proof (verify_facts T b (validate_batch_verify T b Hv)) as F.
  pose proof (verify_facts T _ (validate_batch_verify T _ Hv')) as F'.
  pose proof (bf_hash _ _ F) as A. pose proof (bf_hash _ _ F') as B.
  cbn [set_entries bt_entries bt_ctl] in B. rewrite <- A in B. rewrite Hes in B, Hwf.
  unfold calc_hash, least_sig in B. destruct (constants_sound T HT) as (Hdig & _). rewrite Hdig in B.
  apply Forall_app in Hwf as [Wpre Wrest]. inversion Wrest as [|? ? We Wpost]; subst.
  assert (Wpre' : Forall rdfi_wf (pre ++ post)) by (apply Forall_app; now split).
  rewrite !hash_sum_app in B. cbn [hash_sum set_rdfi en_rdfi] in B.
  unfold rdfi_wf in We. rewrite (aba8_digits8 _ Hr), (aba8_digits8 _ We) in B.
  destruct (atoi_digits8 _ Hr) as [Er Br]. destruct (atoi_digits8 _ We) as [Ee Be]. rewrite Er, Ee in B.
  destruct (hash_sum_wf _ Wpre) as [_ Bp]. destruct (hash_sum_wf _ Wpost) as [_ Bq].
  set (s := hash_sum pre + (digits_val (en_rdfi e) 0 + hash_sum post)) in *.
  replace (hash_sum pre + (digits_val r 0 + hash_sum post)) with (s + (digits_val r 0 - digits_val (en_rdfi e) 0)) in B by (unfold s; lia).
  apply rem_eq_small in B; try (unfold s; lia).
  apply Hne. destruct Hr as [Lr Dr]. destruct We as [Le De].
  apply digits_val_inj; try assumption; [congruence|lia].
Qed.

Theorem tamper_check b pre e post c : bt_entries b = pre ++ e :: post ->
  validate_batch T b = ROk -> check_value (bt_kind b) (set_check e c) <> check_value (bt_kind b) e ->
  validate_batch T (set_entries b (pre ++ set_check e c :: post)) <> ROk.
Proof.
  intros Hes Hv Hne Hv'.
  pose proof (verify_facts T b (validate_batch_verify T b Hv)) as F.
  pose proof (verify_facts T _ (validate_batch_verify T _ Hv')) as F'.
  pose proof (bf_entries _ _ F) as A. pose proof (bf_entries _ _ F') as B.
  cbn [set_entries bt_entries bt_kind] in B. rewrite Hes in A.
  rewrite Forall_forall in A, B.
  pose proof (A e (in_elt _ _ _)) as Ae. pose proof (B _ (in_elt _ _ _)) as Be.
  apply validate_entry_facts in Ae as (_ & Ae & _). apply validate_entry_facts in Be as (_ & Be & _).
  apply Hne. unfold check_digit_ok, rdfi_field, check_value in *. cbn [set_check en_rdfi en_check] in *.
  destruct (bt_kind b).
  - destruct (atoi_opt c); [|discriminate]. destruct (atoi_opt (en_check e)); [|discriminate]. f_equal. lia.
  - destruct (atoi_opt c); [|discriminate]. destruct (atoi_opt (en_check e)); [|discriminate]. f_equal. lia.
  - f_equal. lia.
Qed.

(* ---- file control ---------------------------------------------------------------- *)

Theorem tamper_fctl f p v : validate_file T f = ROk -> v <> get_f p (fl_ctl f) ->
  validate_file T (set_fctl f (set_f p v (fl_ctl f))) <> ROk.
Proof.
  intros H Hv H'. apply Hv. clear Hv.
  destruct (is_adv_file f) eqn:Ea.
  - destruct (file_arith_adv T HT f H Ea) as (A1 & A2 & A3 & A4 & A5).
    assert (Ea' : is_adv_file (set_fctl f (set_f p v (fl_ctl f))) = true) by exact Ea.
    destruct (file_arith_adv T HT _ H' Ea') as (B1 & B2 & B3 & B4 & B5).
    destruct p; cbn [get_f set_f set_fctl fl_ctl fl_batches fl_iat fc_batches fc_count fc_hash fc_debit fc_credit] in *; unfold all_batches in *; cbn [set_fctl fl_batches fl_iat] in *; congruence.
  - destruct (file_arith T HT f H Ea) as (A1 & (A2 & A3 & A4 & A5) & _).
    assert (Ea' : is_adv_file (set_fctl f (set_f p v (fl_ctl f))) = false) by exact Ea.
    destruct (file_arith T HT _ H' Ea') as (B1 & (B2 & B3 & B4 & B5) & _).
    destruct p; cbn [get_f set_f set_fctl fl_ctl fl_batches fl_iat fc_batches fc_count fc_hash fc_debit fc_credit] in *; unfold all_batches in *; cbn [set_fctl fl_batches fl_iat] in *; congruence.
Qed.

(* ---- lifting a rejected batch to the file that contains it ------------------------ *)

Theorem tampered_batch_rejects_file f b : In b (all_batches f) -> verify T b <> ROk -> read_validate T f <> ROk.
Proof.
  intros Hin Hb H. apply read_validate_all in H as [H _]. rewrite Forall_forall in H.
  apply Hb. apply validate_batch_verify. now apply H.
Qed.

Theorem tampered_std_batch_rejects_file f b : In b (fl_batches f) -> is_adv_file f = false ->
  verify T b <> ROk -> validate_file T f <> ROk.
Proof.
  intros Hin Ha Hb H. destruct (file_arith T HT f H Ha) as (_ & _ & Hv & _). rewrite Forall_forall in Hv.
  apply Hb. apply validate_batch_verify. now apply Hv.
Qed.

End WithTables.

(* ---- text level: a digit replacement in a zero padded numeric column --------------- *)

Theorem atoi_inj_fixed_width s s' : length s = length s' -> (0 < length s <= 18)%nat ->
  forallb is_digit s = true -> forallb is_digit s' = true -> s <> s' -> atoi s <> atoi s'.
Proof.
  intros Hl Hn Hd Hd' Hne E.
  assert (s <> []) by (destruct s; [cbn in Hn; lia|discriminate]).
  assert (s' <> []) by (destruct s'; [cbn in Hl; lia|discriminate]).
  destruct (atoi_digits s) as [E1 _]; try assumption; try lia.
  destruct (atoi_digits s') as [E2 _]; try assumption; try lia.
  apply Hne. apply digits_val_inj; try assumption. congruence.
Qed.

Lemma digits_val_app a b : digits_val (a ++ b) 0 = digits_val a 0 * 10 ^ Z.of_nat (length b) + digits_val b 0.
Proof.
  assert (G : forall acc, digits_val (a ++ b) acc = digits_val b (digits_val a acc)).
  { induction a as [|x a IH]; intros acc; cbn [app digits_val]; [reflexivity|apply IH]. }
  rewrite G. apply digits_val_acc.
Qed.

(* replacing the digit at distance |post| from the right end changes the value by (d' - d) * 10^|post| *)
Theorem digit_replacement_delta pre d d' post :
  digits_val (pre ++ d' :: post) 0 - digits_val (pre ++ d :: post) 0
  = (Z.of_N (d' - 48) - Z.of_N (d - 48)) * 10 ^ Z.of_nat (length post).
Proof.
  rewrite !digits_val_app. cbn [digits_val]. rewrite (digits_val_acc post (0 * 10 + _)), (digits_val_acc post (0 * 10 + Z.of_N (d - 48))).
  cbn [length]. rewrite Nat2Z.inj_succ, Z.pow_succ_r by lia. ring.
Qed.

(* a single digit change of the routing number also changes the check digit:
   the weights 3, 7, 1 are units modulo 10 *)
Lemma wsum_app i a b : wsum i (a ++ b) = wsum i a + wsum (i + length a) b.
Proof.
  revert i. induction a as [|x a IH]; intros i; cbn [app wsum length].
  - now rewrite Nat.add_0_r.
  - rewrite IH. replace (S i + length a)%nat with (i + S (length a))%nat by lia. lia.
Qed.

Theorem check_digit_single_digit pre d d' post :
  is_digit d = true -> is_digit d' = true -> d <> d' ->
  spec_check_digit (digit_vals (pre ++ d :: post)) <> spec_check_digit (digit_vals (pre ++ d' :: post)).
Proof.
  intros Hd Hd' Hne. unfold spec_check_digit, digit_vals. rewrite !map_app. cbn [map].
  rewrite !wsum_app. cbn [wsum]. rewrite !map_length.
  apply is_digit_range in Hd as [Hd Hdn]. apply is_digit_range in Hd' as [Hd' Hdn'].
  assert (Hz : Z.of_N (d - 48) <> Z.of_N (d' - 48)) by lia.
  set (x := Z.of_N (d - 48)) in *. set (y := Z.of_N (d' - 48)) in *.
  set (A := wsum 0 (map (fun b => Z.of_N (b - 48)) pre)).
  set (B := wsum (S (0 + length pre)) (map (fun b => Z.of_N (b - 48)) post)).
  unfold weight. destruct ((0 + length pre) mod 3)%nat as [|[|n]]; intros E;
    revert E; Z.div_mod_to_equations; lia.
Qed.

(* Facts about the model of the ADV branch of Batch.build (coq/Model/BuildADV.v). *)
From Coq Require Import Lia ZifyBool ZifyNat.
From ACH Require Import Offsets OffsetsFacts BuildIAT BuildIATFacts BuildADV.
Open Scope Z_scope.

Definition actl_ok (T : ttable) (b : abatch) : Prop :=
  let c := ab_ctl b in let es := ab_entries b in
  c_count c = acount es /\ c_hash c = ahash es /\ c_credit c = acredits T es /\ c_debit c = adebits T es /\
  c_svc c = ab_svc b /\ c_num c = ab_num b.

Lemma actl_okb_spec T b : actl_okb T b = true <-> actl_ok T b.
Proof. unfold actl_okb, actl_ok. cbv zeta. lia. Qed.

(* SequenceNumber = s, s+1, … ; nothing else changes *)
Fixpoint reseq (s : Z) (es : list aentry) : list aentry :=
  match es with [] => [] | e :: r => set_aseq e s :: reseq (s + 1) r end.

Lemma adv_loop_ok es : forall s es', adv_loop s es = (true, es') -> es' = reseq s es /\ s + zlen es <= 9999 \/ es = [].
Proof.
  induction es as [|e r IH]; intros s es' H; cbn [adv_loop] in H; [now right|]. left.
  destruct (s + 1 >? 9999) eqn:E; [discriminate|].
  destruct (adv_loop (s + 1) r) as [ok r1] eqn:El. inversion H; subst.
  cbn [reseq]. rewrite zlen_cons. destruct (IH _ _ El) as [[-> Hl]| ->].
  - split; [reflexivity|lia].
  - cbn [adv_loop] in El. inversion El; subst. cbn [reseq]. unfold zlen. cbn [length]. split; [reflexivity|lia].
Qed.

Lemma adv_loop_reseq es : forall s es', adv_loop s es = (true, es') -> es' = reseq s es.
Proof.
  intros s es' H. destruct (adv_loop_ok _ _ _ H) as [[-> _]| ->]; [reflexivity|].
  cbn [adv_loop] in H. now inversion H.
Qed.

Lemma adv_loop_fits es : forall s, s + zlen es <= 9999 -> adv_loop s es = (true, reseq s es).
Proof.
  induction es as [|e r IH]; intros s H; cbn [adv_loop reseq]; [reflexivity|].
  rewrite zlen_cons in H. pose proof (zlen_nonneg r).
  destruct (s + 1 >? 9999) eqn:E; [lia|]. rewrite IH by lia. reflexivity.
Qed.

Lemma adv_loop_limit es : forall s es', es <> [] -> adv_loop s es = (true, es') -> s + zlen es <= 9999.
Proof.
  intros s es' Hne H. destruct (adv_loop_ok _ _ _ H) as [[_ Hl]| ->]; [assumption|congruence].
Qed.

Lemma reseq_idem es : forall s, reseq s (reseq s es) = reseq s es.
Proof. induction es as [|e r IH]; intros s; cbn [reseq]; [reflexivity|]. now rewrite IH. Qed.

Lemma reseq_length es : forall s, length (reseq s es) = length es.
Proof. induction es as [|e r IH]; intros s; cbn [reseq length]; [reflexivity|now rewrite IH]. Qed.

Lemma reseq_seq es : forall s, map ae_seq (reseq s es) = map (fun i => s + Z.of_nat i) (seq 0 (length es)).
Proof.
  induction es as [|e r IH]; intros s; cbn [reseq map length seq]; [reflexivity|].
  cbn [set_aseq ae_seq]. f_equal; [lia|]. rewrite IH, <- seq_shift, map_map. apply map_ext. intros i. lia.
Qed.

Definition ae_static (e : aentry) := (ae_code e, ae_amount e, ae_rdfi e, ae_a99 e).

Lemma reseq_static es : forall s, map ae_static (reseq s es) = map ae_static es.
Proof. induction es as [|e r IH]; intros s; cbn [reseq map]; [reflexivity|]. now rewrite IH. Qed.

Lemma reseq_sums T es : forall s,
  acount (reseq s es) = acount es /\ ahash (reseq s es) = ahash es /\
  acredits T (reseq s es) = acredits T es /\ adebits T (reseq s es) = adebits T es.
Proof.
  unfold acount, ahash, acredits, adebits.
  assert (H : forall s, zsum (fun e => 1 + b2z (ae_a99 e)) (reseq s es) = zsum (fun e => 1 + b2z (ae_a99 e)) es /\
                        zsum ae_rdfi (reseq s es) = zsum ae_rdfi es /\
                        zsum (acr_amt T) (reseq s es) = zsum (acr_amt T) es /\
                        zsum (adb_amt T) (reseq s es) = zsum (adb_amt T) es).
  { induction es as [|e r IH]; intros s; cbn [reseq zsum]; [repeat split|].
    destruct (IH (s + 1)) as (I1 & I2 & I3 & I4). rewrite I1, I2, I3, I4.
    unfold acr_amt, adb_amt. cbn [set_aseq ae_code ae_amount ae_rdfi ae_a99]. repeat split. }
  intros s. destruct (H s) as (H1 & H2 & H3 & H4). rewrite H1, H2, H3, H4. repeat split.
Qed.

Lemma adv_build_ok_inv T b b' : adv_build T b = (true, b') ->
  ab_hdr_ok b = true /\ ab_off b = false /\ (ab_std_entries b = true \/ ab_entries b <> []) /\
  zlen (ab_entries b) <= 9998 /\
  b' = ab_with b (reseq 1 (ab_entries b)) (actl_of T b (reseq 1 (ab_entries b))).
Proof.
  unfold adv_build. destruct (ab_hdr_ok b); cbn [negb]; [|discriminate].
  destruct (negb (ab_std_entries b) && match ab_entries b with [] => true | _ :: _ => false end) eqn:Ee; [discriminate|].
  destruct (adv_loop 1 (ab_entries b)) as [ok es] eqn:El.
  destruct ok; [|discriminate]. intros H. inversion H as [[Ho Hb]].
  pose proof (adv_loop_reseq _ _ _ El) as ->.
  repeat split.
  - now destruct (ab_off b).
  - destruct (ab_std_entries b); [now left|right]. cbn [negb andb] in Ee. destruct (ab_entries b); [discriminate|discriminate].
  - destruct (ab_entries b) as [|e r] eqn:Eb; [unfold zlen; cbn [length]; lia|].
    assert (Hl : 1 + zlen (e :: r) <= 9999) by (eapply adv_loop_limit; [discriminate|eassumption]). lia.
Qed.

(* the statement of C05 for ADV batches *)
Theorem adv_build_control T b b' : adv_build T b = (true, b') -> actl_ok T b'.
Proof.
  intros H. apply adv_build_ok_inv in H as (_ & _ & _ & _ & ->).
  unfold actl_ok, ab_with, actl_of. cbn. repeat split.
Qed.

Definition adv_by_credit (e : aentry) : Z := if is_adv_credit (ae_code e) then ae_amount e else 0.
Definition adv_by_debit (e : aentry) : Z := if is_adv_debit (ae_code e) then ae_amount e else 0.

Lemma acredits_dir T es : ttable_good T -> acredits T es = zsum adv_by_credit es.
Proof. intros G. unfold acredits. apply zsum_ext. intros e _. unfold acr_amt, adv_by_credit. now rewrite (tg_acr T G). Qed.

Lemma adebits_dir T es : ttable_good T -> adebits T es = zsum adv_by_debit es.
Proof. intros G. unfold adebits. apply zsum_ext. intros e _. unfold adb_amt, adv_by_debit. now rewrite (tg_adb T G). Qed.

(* … by the accounting code (81/83/85/87 credit, 82/84/86/88 debit), every ADV entry and Addenda99
   counted, the hash cut to ten digits, sequence numbers 1, 2, …, and all of it over the caller's entries *)
Theorem adv_build_control_spec T b b' : ttable_good T -> adv_build T b = (true, b') ->
  let c := ab_ctl b' in let es := ab_entries b in
  c_count c = zsum (fun e => 1 + b2z (ae_a99 e)) es /\ c_credit c = zsum adv_by_credit es /\ c_debit c = zsum adv_by_debit es /\
  c_hash c = Z.rem (zsum ae_rdfi es) P10 /\
  ((forall e, In e es -> 0 <= ae_rdfi e) -> c_hash c = (zsum ae_rdfi es) mod P10) /\
  c_svc c = ab_svc b /\ c_num c = ab_num b /\
  map ae_static (ab_entries b') = map ae_static es /\
  map ae_seq (ab_entries b') = map (fun i => 1 + Z.of_nat i) (seq 0 (length es)) /\
  zlen es <= 9998.
Proof.
  intros G H. apply adv_build_ok_inv in H as (_ & _ & _ & Hl & ->).
  cbn [ab_ctl ab_entries ab_with actl_of c_count c_credit c_debit c_hash c_svc c_num]. cbv zeta.
  destruct (reseq_sums T (ab_entries b) 1) as (S1 & S2 & S3 & S4).
  rewrite S1, S2, S3, S4, (acredits_dir T _ G), (adebits_dir T _ G).
  repeat split; try assumption.
  - intros Hn. unfold ahash. apply rem_mod_nonneg. now apply zsum_nonneg.
  - apply reseq_static.
  - apply reseq_seq.
Qed.

Theorem adv_build_idem T b b' : adv_build T b = (true, b') -> adv_build T b' = (true, b').
Proof.
  intros H. apply adv_build_ok_inv in H as (Hh & Ho & Hne & Hl & ->).
  unfold adv_build. cbn [ab_with ab_hdr_ok ab_std_entries ab_entries ab_off ab_ctl]. rewrite Hh, Ho. cbn [negb].
  assert (He : negb (ab_std_entries b) && match reseq 1 (ab_entries b) with [] => true | _ :: _ => false end = false).
  { destruct Hne as [->|Hne]; [reflexivity|]. destruct (ab_entries b); [congruence|]. cbn [reseq]. apply andb_false_r. }
  rewrite He. rewrite adv_loop_fits.
  - rewrite reseq_idem. reflexivity.
  - unfold zlen in *. rewrite reseq_length. lia.
Qed.

(* the limit: a batch of 9999 or more ADV entries is refused (the 9999th entry still gets its number) *)
Theorem adv_build_limit T b : ab_hdr_ok b = true -> ab_off b = false -> ab_entries b <> [] ->
  (fst (adv_build T b) = true <-> zlen (ab_entries b) <= 9998).
Proof.
  intros Hh Ho Hne. split.
  - intros H. destruct (adv_build T b) as [ok b'] eqn:E. cbn [fst] in H. subst ok.
    now apply adv_build_ok_inv in E as (_ & _ & _ & Hl & _).
  - intros Hl. unfold adv_build. rewrite Hh, Ho. cbn [negb].
    destruct (ab_entries b) as [|e r] eqn:Ee; [congruence|]. rewrite andb_false_r.
    rewrite adv_loop_fits by lia. reflexivity.
Qed.

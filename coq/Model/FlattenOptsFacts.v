(* Facts about the option handling of the flatten model (FlattenOpts.v):
   - erasure: forgetting the options commutes with the whole algorithm, so every
     theorem of C12 (conservation, figures, sortedness, maximality, idempotence,
     validity) holds for files that carry options, whatever the options are —
     and whether or not Consume transfers them;
   - options kept: every input batch ends up, with all its entries, in a batch of
     the result whose option value holds at least what the input batch's held
     (the statement 41f38276 restored);
   - nothing invented: a flag of a result batch is a flag of one of the input
     batches with the same header signature. *)
From Coq Require Import List ZArith Bool Permutation Lia.
Import ListNotations.
From ACH Require Import Bytes Flatten FlattenFacts FlattenOpts.
From ACH Require MergeOpts MergeOptsFacts.

Notation osub := MergeOptsFacts.osub.
Notation oflag := MergeOpts.oflag.

(* ================================================================ generic list facts *)

Lemma insert_by_map {A B} (f : A -> B) (lt : B -> B -> bool) x l :
  map f (insert_by (fun a b => lt (f a) (f b)) x l) = insert_by lt (f x) (map f l).
Proof.
  induction l as [|y l IH]; [reflexivity|]. cbn [insert_by map].
  destruct (lt (f y) (f x)); cbn [map]; [now rewrite IH|reflexivity].
Qed.

Lemma sort_by_map {A B} (f : A -> B) (lt : B -> B -> bool) l :
  map f (sort_by (fun a b => lt (f a) (f b)) l) = sort_by lt (map f l).
Proof.
  induction l as [|x l IH]; [reflexivity|]. cbn [sort_by map]. now rewrite insert_by_map, IH.
Qed.

Lemma filter_map_comm {A B} (f : A -> B) (p : B -> bool) l :
  map f (filter (fun a => p (f a)) l) = filter p (map f l).
Proof.
  induction l as [|x l IH]; [reflexivity|]. cbn [filter map].
  destruct (p (f x)); cbn [map]; now rewrite IH.
Qed.

Lemma sort_by_in {A} (lt : A -> A -> bool) l x : In x (sort_by lt l) <-> In x l.
Proof.
  split; intros H.
  - eapply Permutation_in; [apply sort_by_perm|exact H].
  - eapply Permutation_in; [apply Permutation_sym, sort_by_perm|exact H].
Qed.

(* ================================================================ erasure *)

Definition erases (cons : batcho -> batcho -> batcho) : Prop :=
  forall m c, bo_batch (cons m c) = consume (bo_batch m) (bo_batch c).

Lemma consume_kind_mismatch m c : kind_eqb (b_kind m) (b_kind c) = false -> consume m c = m.
Proof. intros H. unfold consume. now rewrite H. Qed.

Lemma consume_o_erases : erases consume_o.
Proof.
  intros m c. unfold consume_o, bo_kind. destruct (kind_eqb _ _) eqn:E; [reflexivity|].
  symmetry. now apply consume_kind_mismatch.
Qed.

Lemma consume_unfixed_erases : erases consume_unfixed.
Proof. intros m c. reflexivity. Qed.

Definition erase_groups (gs : list (bytes * list batcho)) : groups :=
  map (fun p => (fst p, map bo_batch (snd p))) gs.

Section Erasure.
  Variable cons : batcho -> batcho -> batcho.
  Hypothesis Hc : erases cons.

  Lemma copy_o_erase b : bo_batch (copy_o cons b) = copy (bo_batch b).
  Proof. unfold copy_o, copy. now rewrite Hc. Qed.

  Lemma merge_into_o_erase b g :
    option_map (map bo_batch) (merge_into_o cons b g) = merge_into (bo_batch b) (map bo_batch g).
  Proof.
    induction g as [|m g IH]; [reflexivity|]. cbn [merge_into_o merge_into map].
    destruct (can_merge (bo_batch b) (bo_batch m)); [cbn [option_map map]; now rewrite Hc|].
    rewrite <- IH. destruct (merge_into_o cons b g); reflexivity.
  Qed.

  Lemma place_o_erase b g : map bo_batch (place_o cons b g) = place (bo_batch b) (map bo_batch g).
  Proof.
    unfold place_o, place. rewrite <- merge_into_o_erase.
    destruct (merge_into_o cons b g); cbn [option_map]; [reflexivity|].
    rewrite map_app. cbn [map]. now rewrite copy_o_erase.
  Qed.

  Lemma step_o_erase b gs : erase_groups (step_o cons b gs) = step (bo_batch b) (erase_groups gs).
  Proof.
    induction gs as [|[s g] gs IH]; cbn [step_o step erase_groups map fst snd].
    - now rewrite (place_o_erase b []).
    - destruct (bytes_eqb s (b_sig (bo_batch b))); cbn [map fst snd]; [now rewrite place_o_erase|].
      f_equal. exact IH.
  Qed.

  Lemma run_o_erase order : erase_groups (run_o cons order) = run (map bo_batch order).
  Proof.
    unfold run_o, run.
    assert (G : forall gs, erase_groups (fold_left (fun gs b => step_o cons b gs) order gs)
                           = fold_left (fun gs b => step b gs) (map bo_batch order) (erase_groups gs)).
    { induction order as [|b order IH]; intros gs; [reflexivity|]. cbn [fold_left map].
      now rewrite IH, step_o_erase. }
    exact (G []).
  Qed.

  Lemma all_batches_o_erase gs : map bo_batch (all_batches_o gs) = all_batches (erase_groups gs).
  Proof.
    unfold all_batches_o, all_batches, erase_groups. rewrite concat_map, !map_map. reflexivity.
  Qed.
End Erasure.

Lemma renumber_o_erase n l : map bo_batch (renumber_o n l) = renumber n (map bo_batch l).
Proof.
  revert n. induction l as [|b l IH]; intros n; [reflexivity|].
  cbn [renumber_o renumber map bo_batch]. now rewrite IH.
Qed.

Lemma finalize_o_erase all : map bo_batch (finalize_o all) = finalize (map bo_batch all).
Proof.
  unfold finalize_o, finalize. rewrite renumber_o_erase, map_app.
  rewrite (filter_map_comm bo_batch is_std), (filter_map_comm bo_batch is_iat).
  rewrite !map_map.
  assert (E : map (fun x => bo_batch (sort_entries_o x)) (sort_by (on_batch num_ltb) all)
              = map sort_entries (sort_by num_ltb (map bo_batch all))).
  { rewrite <- (sort_by_map bo_batch num_ltb all), map_map. reflexivity. }
  now rewrite E.
Qed.

(* forgetting the options commutes with Flatten: the batches of the result are those
   the option-free model computes — with the transfer of 41f38276 and without it *)
Theorem flatten_o_erasure f :
  map bo_batch (fo_batches (flatten_o_stable f)) = flatten_stable (map bo_batch (fo_batches f)).
Proof.
  unfold flatten_o_stable, flatten_stable. cbn [fo_batches].
  rewrite finalize_o_erase, (all_batches_o_erase), (run_o_erase _ consume_o_erases).
  unfold on_batch. now rewrite (sort_by_map bo_batch count_ltb).
Qed.

Theorem flatten_unfixed_erasure f :
  map bo_batch (fo_batches (flatten_unfixed_stable f)) = flatten_stable (map bo_batch (fo_batches f)).
Proof.
  unfold flatten_unfixed_stable, flatten_stable. cbn [fo_batches].
  rewrite finalize_o_erase, (all_batches_o_erase), (run_o_erase _ consume_unfixed_erases).
  unfold on_batch. now rewrite (sort_by_map bo_batch count_ltb).
Qed.

Lemma apply_hint_o_erase inp hint : map bo_batch (apply_hint_o inp hint) = apply_hint (map bo_batch inp) hint.
Proof.
  unfold apply_hint_o, apply_hint. rewrite map_map. apply map_ext. intros i.
  change dummy_batch with (bo_batch dummy_batcho). now rewrite map_nth.
Qed.

Theorem flatten_o_hint_erasure f hint :
  option_map (fun g => map bo_batch (fo_batches g)) (flatten_o_hint f hint)
  = flatten_hint (map bo_batch (fo_batches f)) hint.
Proof.
  unfold flatten_o_hint, flatten_hint. rewrite map_length, apply_hint_o_erase.
  destruct (perm_hintb _ _ && sorted_countb _); cbn [option_map fo_batches]; [|reflexivity].
  now rewrite finalize_o_erase, all_batches_o_erase, (run_o_erase _ consume_o_erases), apply_hint_o_erase.
Qed.

(* the new file carries the options of the file being flattened *)
Lemma flatten_o_file_opts f : fo_opts (flatten_o_stable f) = fo_opts f.
Proof. reflexivity. Qed.

(* ================================================================ options kept *)

(* [covers b r]: r holds every entry of b under the same header signature, and its
   option value holds at least what b's holds *)
Definition covers (b r : batcho) : Prop :=
  b_sig (bo_batch r) = b_sig (bo_batch b)
  /\ incl (b_entries (bo_batch b)) (b_entries (bo_batch r))
  /\ incl (b_adv (bo_batch b)) (b_adv (bo_batch r))
  /\ osub (bo_opts b) (bo_opts r).

Lemma covers_refl b : covers b b.
Proof. repeat split; try apply incl_refl. apply MergeOptsFacts.osub_refl. Qed.

Lemma covers_trans a b c : covers a b -> covers b c -> covers a c.
Proof.
  intros (S1 & E1 & A1 & O1) (S2 & E2 & A2 & O2). repeat split.
  - congruence.
  - eapply incl_tran; eauto.
  - eapply incl_tran; eauto.
  - eapply MergeOptsFacts.osub_trans; eauto.
Qed.

Definition grows (g g' : list batcho) : Prop :=
  forall r, In r g -> exists r', In r' g' /\ covers r r'.

Lemma grows_refl g : grows g g.
Proof. intros r Hr. exists r. split; [exact Hr|apply covers_refl]. Qed.

Lemma kind_eqb_refl_eq a b : a = b -> kind_eqb a b = true.
Proof. intros ->. destruct b; reflexivity. Qed.

Section Kept.
  Variable K : bytes -> kind.
  Definition kind_ok_o (b : batcho) : Prop := kind_ok K (bo_batch b).

  Lemma can_merge_kinds b m :
    kind_ok_o b -> kind_ok_o m -> can_merge (bo_batch b) (bo_batch m) = true ->
    kind_eqb (bo_kind m) (bo_kind b) = true /\ b_sig (bo_batch m) = b_sig (bo_batch b).
  Proof.
    intros Hb Hm H. unfold can_merge in H. apply andb_prop in H as [_ H].
    apply bytes_eqb_eq in H. split; [|now symmetry].
    apply kind_eqb_refl_eq. unfold bo_kind. unfold kind_ok_o, kind_ok in Hb, Hm. now rewrite Hb, Hm, H.
  Qed.

  Lemma consume_o_covers m c :
    kind_eqb (bo_kind m) (bo_kind c) = true -> b_sig (bo_batch m) = b_sig (bo_batch c) ->
    covers m (consume_o m c) /\ covers c (consume_o m c) /\ (kind_ok_o m -> kind_ok_o (consume_o m c)).
  Proof.
    intros Hk Hs. unfold consume_o. rewrite Hk. unfold consume, bo_kind in *. rewrite Hk.
    cbn [bo_batch bo_opts b_sig b_entries b_adv b_kind]. repeat split.
    - apply incl_appl, incl_refl.
    - apply incl_appl, incl_refl.
    - apply MergeOptsFacts.osub_merge_l.
    - exact Hs.
    - apply incl_appr, incl_refl.
    - apply incl_appr, incl_refl.
    - apply MergeOptsFacts.osub_merge_r.
    - intros H. exact H.
  Qed.

  Lemma copy_o_covers b : kind_ok_o b -> covers b (copy_o consume_o b) /\ kind_ok_o (copy_o consume_o b).
  Proof.
    intros Hb. unfold copy_o.
    set (e := mkBO (mkBatch (bo_kind b) (b_sig (bo_batch b)) (b_num (bo_batch b)) [] []) None).
    assert (Hk : kind_eqb (bo_kind e) (bo_kind b) = true) by (apply kind_eqb_refl_eq; reflexivity).
    destruct (consume_o_covers e b Hk eq_refl) as (_ & C & Kp). split; [exact C|].
    apply Kp. exact Hb.
  Qed.

  Lemma merge_into_o_kept b g g' :
    kind_ok_o b -> Forall kind_ok_o g -> merge_into_o consume_o b g = Some g' ->
    (exists r, In r g' /\ covers b r) /\ grows g g' /\ Forall kind_ok_o g'.
  Proof.
    intros Hb. revert g'. induction g as [|m g IH]; intros g' Hg H; [discriminate|].
    cbn [merge_into_o] in H. inversion Hg as [|? ? Hm Hg']; subst.
    destruct (can_merge (bo_batch b) (bo_batch m)) eqn:E.
    - inversion H; subst; clear H.
      destruct (can_merge_kinds b m Hb Hm E) as (Hk & Hs).
      destruct (consume_o_covers m b Hk Hs) as (C1 & C2 & Kp).
      split; [exists (consume_o m b); split; [now left|exact C2]|]. split.
      + intros r [<-|Hr]; [exists (consume_o m b); split; [now left|exact C1]|].
        exists r. split; [now right|apply covers_refl].
      + constructor; [now apply Kp|exact Hg'].
    - destruct (merge_into_o consume_o b g) as [g''|] eqn:E2; [|discriminate].
      inversion H; subst; clear H.
      destruct (IH g'' Hg' eq_refl) as ((r & Hr & C) & G & F).
      split; [exists r; split; [now right|exact C]|]. split.
      + intros x [E1|Hx]; [exists x; split; [left; exact E1|apply covers_refl]|].
        destruct (G x Hx) as (x' & Hx' & Cx). exists x'. split; [now right|exact Cx].
      + constructor; assumption.
  Qed.

  Lemma place_o_kept b g :
    kind_ok_o b -> Forall kind_ok_o g ->
    (exists r, In r (place_o consume_o b g) /\ covers b r) /\ grows g (place_o consume_o b g)
    /\ Forall kind_ok_o (place_o consume_o b g).
  Proof.
    intros Hb Hg. unfold place_o. destruct (merge_into_o consume_o b g) as [g'|] eqn:E.
    - now apply merge_into_o_kept.
    - destruct (copy_o_covers b Hb) as (C & Kc). split; [|split].
      + exists (copy_o consume_o b). split; [apply in_or_app; right; now left|exact C].
      + intros r Hr. exists r. split; [apply in_or_app; now left|apply covers_refl].
      + apply Forall_app. split; [exact Hg|repeat constructor; exact Kc].
  Qed.

  Definition groups_ok (gs : list (bytes * list batcho)) : Prop := Forall (fun p => Forall kind_ok_o (snd p)) gs.

  Lemma step_o_kept b gs :
    kind_ok_o b -> groups_ok gs ->
    (exists r, In r (all_batches_o (step_o consume_o b gs)) /\ covers b r)
    /\ grows (all_batches_o gs) (all_batches_o (step_o consume_o b gs))
    /\ groups_ok (step_o consume_o b gs).
  Proof.
    intros Hb. induction gs as [|[s g] gs IH]; intros Hg.
    - cbn [step_o]. destruct (place_o_kept b [] Hb (Forall_nil _)) as ((r & Hr & C) & _ & F).
      remember (place_o consume_o b []) as pl eqn:Epl. clear Epl.
      unfold all_batches_o. cbn [map snd concat]. rewrite app_nil_r. split; [|split].
      + exists r. split; assumption.
      + intros x [].
      + constructor; [exact F|constructor].
    - inversion Hg as [|? ? Hg1 Hg2]; subst. cbn [snd] in Hg1. cbn [step_o].
      unfold all_batches_o in *. destruct (bytes_eqb s (b_sig (bo_batch b))).
      + destruct (place_o_kept b g Hb Hg1) as ((r & Hr & C) & G & F).
        cbn [map snd concat]. split; [|split].
        * exists r. split; [apply in_or_app; now left|exact C].
        * intros x Hx. apply in_app_or in Hx as [Hx|Hx].
          -- destruct (G x Hx) as (x' & Hx' & Cx). exists x'. split; [apply in_or_app; now left|exact Cx].
          -- exists x. split; [apply in_or_app; now right|apply covers_refl].
        * constructor; [exact F|exact Hg2].
      + destruct (IH Hg2) as ((r & Hr & C) & G & F).
        cbn [map snd concat]. split; [|split].
        * exists r. split; [apply in_or_app; now right|exact C].
        * intros x Hx. apply in_app_or in Hx as [Hx|Hx].
          -- exists x. split; [apply in_or_app; now left|apply covers_refl].
          -- destruct (G x Hx) as (x' & Hx' & Cx). exists x'. split; [apply in_or_app; now right|exact Cx].
        * constructor; [exact Hg1|exact F].
  Qed.

  Lemma run_o_kept_gen order : forall gs,
    Forall kind_ok_o order -> groups_ok gs ->
    let out := fold_left (fun gs b => step_o consume_o b gs) order gs in
    (forall b, In b order -> exists r, In r (all_batches_o out) /\ covers b r)
    /\ grows (all_batches_o gs) (all_batches_o out) /\ groups_ok out.
  Proof.
    induction order as [|b order IH]; intros gs Ho Hg; cbn [fold_left].
    - split; [intros b []|]. split; [apply grows_refl|exact Hg].
    - inversion Ho as [|? ? Hb Ho']; subst.
      destruct (step_o_kept b gs Hb Hg) as ((r & Hr & C) & G & F).
      destruct (IH (step_o consume_o b gs) Ho' F) as (A & G' & F'). split; [|split].
      + intros x [<-|Hx]; [|now apply A].
        destruct (G' r Hr) as (r' & Hr' & C'). exists r'. split; [exact Hr'|eapply covers_trans; eauto].
      + intros x Hx. destruct (G x Hx) as (x' & Hx' & Cx). destruct (G' x' Hx') as (x'' & Hx'' & Cx').
        exists x''. split; [exact Hx''|eapply covers_trans; eauto].
      + exact F'.
  Qed.
End Kept.

Lemma kind_ok_o_of_consistent order :
  kinds_consistent (map bo_batch order) -> Forall (kind_ok_o (kind_of_sig (map bo_batch order))) order.
Proof.
  intros H. apply kind_of_sig_ok in H. rewrite Forall_forall in *. intros b Hb.
  apply H. now apply in_map.
Qed.

Lemma run_o_kept order b :
  kinds_consistent (map bo_batch order) -> In b order ->
  exists r, In r (all_batches_o (run_o consume_o order)) /\ covers b r.
Proof.
  intros Hk Hb.
  destruct (run_o_kept_gen (kind_of_sig (map bo_batch order)) order [] (kind_ok_o_of_consistent order Hk) (Forall_nil _))
    as (A & _ & _).
  now apply A.
Qed.

(* ---- through finalize: sorting, renumbering and the split by kind keep every batch,
   its entries (as a set) and its options *)
Lemma sort_entries_o_covers b : covers b (sort_entries_o b).
Proof.
  unfold sort_entries_o, sort_entries. repeat split; cbn [bo_batch bo_opts b_sig b_entries b_adv].
  - intros e He. now apply sort_by_in.
  - apply incl_refl.
  - apply MergeOptsFacts.osub_refl.
Qed.

Lemma renumber_o_covers n l r : In r l -> exists r', In r' (renumber_o n l) /\ covers r r'.
Proof.
  revert n. induction l as [|b l IH]; intros n Hr; [destruct Hr|]. destruct Hr as [<-|Hr]; cbn [renumber_o].
  - eexists. split; [now left|]. repeat split; cbn [bo_batch bo_opts b_sig b_entries b_adv];
      try apply incl_refl. apply MergeOptsFacts.osub_refl.
  - destruct (IH (n + 1)%Z Hr) as (r' & Hr' & C). exists r'. split; [now right|exact C].
Qed.

Lemma finalize_o_covers all r : In r all -> exists r', In r' (finalize_o all) /\ covers r r'.
Proof.
  intros Hr. unfold finalize_o.
  set (s := map sort_entries_o (sort_by (on_batch num_ltb) all)).
  assert (Hs : In (sort_entries_o r) s).
  { unfold s. apply in_map. now apply sort_by_in. }
  assert (Hin : In (sort_entries_o r) (filter (fun b => is_std (bo_batch b)) s ++ filter (fun b => is_iat (bo_batch b)) s)).
  { apply in_or_app. destruct (is_std (bo_batch (sort_entries_o r))) eqn:E.
    - left. apply filter_In. now split.
    - right. apply filter_In. split; [exact Hs|]. unfold is_iat. now rewrite E. }
  destruct (renumber_o_covers 1 _ _ Hin) as (r' & Hr' & C).
  exists r'. split; [exact Hr'|]. eapply covers_trans; [apply sort_entries_o_covers|exact C].
Qed.

(* every processing order: each batch that is processed is covered by a batch of the result *)
Theorem flatten_order_opts_kept order b :
  kinds_consistent (map bo_batch order) -> In b order ->
  exists r, In r (finalize_o (all_batches_o (run_o consume_o order))) /\ covers b r.
Proof.
  intros Hk Hb. destruct (run_o_kept order b Hk Hb) as (r & Hr & C).
  destruct (finalize_o_covers _ r Hr) as (r' & Hr' & C').
  exists r'. split; [exact Hr'|eapply covers_trans; eauto].
Qed.

Lemma kinds_consistent_incl l l' : (forall x, In x l' -> In x l) -> kinds_consistent l -> kinds_consistent l'.
Proof. intros Hi H a b Ha Hb. apply H; now apply Hi. Qed.

Theorem flatten_opts_kept f b :
  kinds_consistent (map bo_batch (fo_batches f)) -> In b (fo_batches f) ->
  exists r, In r (fo_batches (flatten_o_stable f)) /\ covers b r.
Proof.
  intros Hk Hb. unfold flatten_o_stable. cbn [fo_batches].
  apply flatten_order_opts_kept.
  - eapply kinds_consistent_incl; [|exact Hk]. intros x Hx.
    apply in_map_iff in Hx as (y & <- & Hy). apply in_map. now apply sort_by_in in Hy.
  - now apply sort_by_in.
Qed.

Theorem flatten_hint_opts_kept f hint g b :
  kinds_consistent (map bo_batch (fo_batches f)) -> flatten_o_hint f hint = Some g -> In b (fo_batches f) ->
  fo_opts g = fo_opts f /\ exists r, In r (fo_batches g) /\ covers b r.
Proof.
  intros Hk H Hb. unfold flatten_o_hint in H.
  destruct (perm_hintb _ _ && sorted_countb _) eqn:E; [|discriminate]. inversion H; subst; clear H.
  apply andb_prop in E as [E _]. cbn [fo_opts fo_batches]. split; [reflexivity|].
  assert (P : Permutation (apply_hint_o (fo_batches f) hint) (fo_batches f)).
  { apply perm_hintb_spec in E. unfold apply_hint_o. rewrite (Permutation_map _ E). now rewrite map_nth_seq. }
  apply flatten_order_opts_kept.
  - eapply kinds_consistent_incl; [|exact Hk]. intros x Hx.
    apply in_map_iff in Hx as (y & <- & Hy). apply in_map. eapply Permutation_in; [exact P|exact Hy].
  - eapply Permutation_in; [apply Permutation_sym, P|exact Hb].
Qed.

(* ================================================================ nothing invented *)

(* a flag of a batch of the result comes from an input batch with the same signature *)
Definition from_inputs (order : list batcho) (r : batcho) : Prop :=
  forall i, oflag i (bo_opts r) = true ->
  exists b, In b order /\ b_sig (bo_batch b) = b_sig (bo_batch r) /\ oflag i (bo_opts b) = true.

Lemma from_inputs_mono order order' r : incl order order' -> from_inputs order r -> from_inputs order' r.
Proof. intros Hi H i Hf. destruct (H i Hf) as (b & Hb & S & F). exists b. repeat split; auto. Qed.

Lemma consume_o_sig m c : b_sig (bo_batch (consume_o m c)) = b_sig (bo_batch m).
Proof.
  unfold consume_o. destruct (kind_eqb _ _); [|reflexivity]. unfold consume.
  destruct (kind_eqb _ _); reflexivity.
Qed.

Lemma consume_o_from order m c :
  from_inputs order m -> In c order -> b_sig (bo_batch c) = b_sig (bo_batch m) ->
  from_inputs order (consume_o m c).
Proof.
  intros Hm Hc Hs i Hf. rewrite consume_o_sig. unfold consume_o in Hf.
  destruct (kind_eqb _ _); [|now apply Hm].
  cbn [bo_opts] in Hf. rewrite MergeOptsFacts.oflag_omerge in Hf. apply orb_true_iff in Hf as [Hf|Hf].
  - now apply Hm.
  - exists c. repeat split; assumption.
Qed.

Lemma merge_into_o_from order b g g' :
  In b order -> Forall (from_inputs order) g -> merge_into_o consume_o b g = Some g' ->
  Forall (from_inputs order) g'.
Proof.
  intros Hb. revert g'. induction g as [|m g IH]; intros g' Hg H; [discriminate|].
  cbn [merge_into_o] in H. inversion Hg as [|? ? Hm Hg']; subst.
  destruct (can_merge (bo_batch b) (bo_batch m)) eqn:E.
  - inversion H; subst. constructor; [|exact Hg'].
    apply consume_o_from; [exact Hm|exact Hb|].
    unfold can_merge in E. apply andb_prop in E as [_ E]. now apply bytes_eqb_eq in E.
  - destruct (merge_into_o consume_o b g) as [g''|]; [|discriminate]. inversion H; subst.
    constructor; [exact Hm|now apply IH].
Qed.

Lemma copy_o_from order b : In b order -> from_inputs order (copy_o consume_o b).
Proof.
  intros Hb. unfold copy_o. apply consume_o_from; [|exact Hb|reflexivity].
  intros i Hf. discriminate Hf.
Qed.

Lemma place_o_from order b g :
  In b order -> Forall (from_inputs order) g -> Forall (from_inputs order) (place_o consume_o b g).
Proof.
  intros Hb Hg. unfold place_o. destruct (merge_into_o consume_o b g) eqn:E.
  - eapply merge_into_o_from; eauto.
  - apply Forall_app. split; [exact Hg|]. repeat constructor. now apply copy_o_from.
Qed.

Lemma step_o_from order b gs :
  In b order -> Forall (fun p => Forall (from_inputs order) (snd p)) gs ->
  Forall (fun p => Forall (from_inputs order) (snd p)) (step_o consume_o b gs).
Proof.
  intros Hb. induction gs as [|[s g] gs IH]; intros Hg; cbn [step_o].
  - constructor; [|constructor]. cbn [snd]. apply place_o_from; [exact Hb|constructor].
  - inversion Hg as [|? ? H1 H2]; subst. destruct (bytes_eqb s (b_sig (bo_batch b))).
    + constructor; [cbn [snd] in *; now apply place_o_from|exact H2].
    + constructor; [exact H1|now apply IH].
Qed.

Lemma run_o_from order :
  Forall (from_inputs order) (all_batches_o (run_o consume_o order)).
Proof.
  assert (G : forall pre gs, incl pre order ->
            Forall (fun p => Forall (from_inputs order) (snd p)) gs ->
            Forall (fun p => Forall (from_inputs order) (snd p)) (fold_left (fun gs b => step_o consume_o b gs) pre gs)).
  { induction pre as [|b pre IH]; intros gs Hi Hg; [exact Hg|]. cbn [fold_left].
    apply IH; [intros x Hx; apply Hi; now right|]. apply step_o_from; [apply Hi; now left|exact Hg]. }
  specialize (G order [] (incl_refl _) (Forall_nil _)). unfold run_o, all_batches_o.
  apply Forall_forall. intros r Hr. apply in_concat in Hr as (g & Hg & Hr).
  apply in_map_iff in Hg as (p & <- & Hp). rewrite Forall_forall in G. specialize (G p Hp).
  rewrite Forall_forall in G. now apply G.
Qed.

Lemma renumber_o_view n l r :
  In r (renumber_o n l) -> exists r0, In r0 l /\ bo_opts r = bo_opts r0 /\ b_sig (bo_batch r) = b_sig (bo_batch r0).
Proof.
  revert n. induction l as [|b l IH]; intros n H; [destruct H|]. cbn [renumber_o] in H. destruct H as [<-|H].
  - exists b. repeat split. now left.
  - destruct (IH _ H) as (r0 & H0 & E). exists r0. split; [now right|exact E].
Qed.

Theorem flatten_opts_no_invention f r :
  In r (fo_batches (flatten_o_stable f)) -> from_inputs (fo_batches f) r.
Proof.
  unfold flatten_o_stable. cbn [fo_batches]. intros Hr. unfold finalize_o in Hr.
  apply renumber_o_view in Hr as (r0 & H0 & Eo & Es).
  assert (H1 : exists r1, In r1 (all_batches_o (run_o consume_o (sort_by (on_batch count_ltb) (fo_batches f))))
                          /\ bo_opts r0 = bo_opts r1 /\ b_sig (bo_batch r0) = b_sig (bo_batch r1)).
  { apply in_app_or in H0. assert (H : In r0 (map sort_entries_o (sort_by (on_batch num_ltb)
        (all_batches_o (run_o consume_o (sort_by (on_batch count_ltb) (fo_batches f))))))).
    { destruct H0 as [H0|H0]; apply filter_In in H0; tauto. }
    apply in_map_iff in H as (r1 & <- & H1). apply sort_by_in in H1. exists r1. repeat split. exact H1. }
  destruct H1 as (r1 & H1 & Eo1 & Es1).
  pose proof (run_o_from (sort_by (on_batch count_ltb) (fo_batches f))) as F.
  rewrite Forall_forall in F. specialize (F r1 H1).
  intros i Hf. rewrite Eo, Eo1 in Hf. destruct (F i Hf) as (b & Hb & S & Fl).
  exists b. split; [now apply sort_by_in in Hb|]. split; [congruence|exact Fl].
Qed.

(* ================================================================ before 41f38276 *)

(* a file of one batch that carries CustomTraceNumbers: the consolidated batch of the
   unfixed code carries nothing *)
Definition custom_only : vopts := Some (MergeOpts.mkOpts [false; false; false; false; true] None).

Definition unfixed_witness : fileo :=
  mkFO custom_only
       [mkBO (mkBatch KStd [80%N; 80%N; 68%N] 1 [mkEntry [57%N; 57%N] [1%N] 100 false 0 0] []) custom_only].

Lemma unfixed_loses_options :
  exists f b, In b (fo_batches f) /\ kinds_consistent (map bo_batch (fo_batches f))
    /\ oflag MergeOpts.ix_custom_trace (bo_opts b) = true
    /\ forall r, In r (fo_batches (flatten_unfixed_stable f)) -> oflag MergeOpts.ix_custom_trace (bo_opts r) = false.
Proof.
  exists unfixed_witness, (mkBO (mkBatch KStd [80%N; 80%N; 68%N] 1 [mkEntry [57%N; 57%N] [1%N] 100 false 0 0] []) custom_only).
  split; [now left|]. split.
  - intros a b [<-|[]] [<-|[]] _. reflexivity.
  - split; [reflexivity|]. intros r Hr. vm_compute in Hr. destruct Hr as [<-|[]]. reflexivity.
Qed.

(* the same file under the code in force: the flag is kept *)
Lemma fixed_keeps_options_example :
  exists r, In r (fo_batches (flatten_o_stable unfixed_witness)) /\ oflag MergeOpts.ix_custom_trace (bo_opts r) = true.
Proof. eexists. split; [vm_compute; left; reflexivity|reflexivity]. Qed.

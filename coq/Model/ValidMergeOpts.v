(* Phase 5, C09: abstraction from the merge model WITH options (MergeOpts.v) to the
   validator model under ValidateOpts (ArithOpts.v).  Definitions only.

   As in ValidMerge.v an entry's transaction code, routing number and check digit are a
   function [mp] of its identity (the *EntryDetail itself); so is the option value stored on
   the record, [mo] — MergeFilesWith hands the *EntryDetail over as it is.  An output batch
   carries [rbo_opts] (batch.SetValidation(nextBatch.validateOpts)), its control is what
   Batch.Create tabulates; an output file carries [rfo_opts] and its routing pair, its batches
   are already renumbered by the model of File.Create (create_file_o), its control is the
   tabulation of the batch controls. *)
From ACH Require Import ValidOut ArithOpts.
From Coq Require Import List NArith ZArith Bool.
From ACH Require Import Bytes Merge MergeOpts ValidMerge.
Open Scope Z_scope.

Section AbsO.
Variables (A : AR.tables) (mp : N -> mpay) (mo : N -> vopts).

Definition m_eopts (es : list entry) : list vopts := map (fun e => mo (e_id e)) es.

Definition m_obatch (rb : rbatcho) : vbatch :=
  mkvb (rbo_opts rb) (m_eopts (rbo_entries rb))
       (m_tab A mp (rbo_header rb) (rbo_number rb) (rbo_entries rb)).

Definition m_ofile (g : rfileo) : vfile :=
  let bs := map m_obatch (rfo_batches g) in
  mkvf (rfo_opts g) (rfo_origin g) (rfo_dest g) bs (tab_fctl_o A (map vb_b bs)).

(* an input batch as Batch.Validate sees it when it runs under the options the merge attaches
   to it (file options merged with its own): batch number and control record are whatever the
   input holds — a control record need not be the tabulation (UnequalServiceClassCode,
   UnequalAddendaCounts) *)
Definition m_ibatch_o (fo : vopts) (ib : ibatcho) (num : Z) (c : AR.bctl) : vbatch :=
  let h := ib_header (ibo_batch ib) in
  let es := ib_entries (ibo_batch ib) in
  mkvb (batch_in_opts fo ib) (m_eopts es)
       (AR.mkbatch AR.KStd (h_scc h) (h_odfi h) num (map (m_entry mp) es) c).

(* the same batch with the control Create writes *)
Definition m_ibatch_tab (fo : vopts) (ib : ibatcho) (num : Z) : vbatch :=
  let h := ib_header (ibo_batch ib) in
  let es := ib_entries (ibo_batch ib) in
  mkvb (batch_in_opts fo ib) (m_eopts es) (m_tab A mp h num es).

End AbsO.

(* C12, phase 6 — facts about the whole-function model FlattenFull.v:
   * the literal isCategory of the three batch kinds is the check [category_ok] of Flatten.v
     on the batches Flatten hands to Create; the file-level category rule implies [cat_uniform];
   * Create of a consolidated standard batch, as modelled by C05's Offsets.build, IS the abstract
     [tabulate] that C12Valid uses: same Arith skeleton, so Arith validity transfers;
   * AddToFile over batches whose Create succeeds loses nothing; the outcome of [finish]. *)
From Coq Require Import Lia Permutation Sorted.
From ACH Require Import ValidOut ValidOutFacts.
From ACH Require Import OffsetsFacts BuildIATFacts BuildADVFacts FileCreateAll FileCreateAllFacts ValidOffsets ValidOffsetsFacts.
From ACH Require Import Bytes Fields Flatten FlattenFacts ValidFlatten ValidFlattenFacts FlattenFull.
Open Scope Z_scope.

(* ------------------------------------------------------------------ categories *)

Lemma is_category_std_ok b : b_entries b <> [] -> is_category_std false b = category_ok b.
Proof.
  intros H. unfold is_category_std, category_ok. cbn [negb].
  destruct (b_entries b) as [|e0 [|e1 r]]; [congruence|reflexivity|reflexivity].
Qed.

Lemma is_category_adv_ok b : b_entries b = [] -> b_adv b <> [] -> is_category_std true b = category_ok b.
Proof.
  intros H Ha. unfold is_category_std, category_ok. cbn [negb]. rewrite H.
  destruct (b_adv b) as [|a0 [|a1 r]]; [congruence| |reflexivity].
  cbn [is_nil forallb]. now rewrite N.eqb_refl.
Qed.

Lemma is_category_iat_ok b : b_entries b <> [] -> is_category_iat b = category_ok b.
Proof.
  intros H. unfold is_category_iat, category_ok.
  destruct (b_entries b) as [|e0 [|e1 r]]; [congruence|reflexivity|].
  cbn [forallb]. rewrite (N.eqb_refl (e_cat e0)), orb_true_r. reflexivity.
Qed.

Lemma head_cat_entries b e : cat_pure b -> In e (b_entries b) -> e_cat e = head_cat b.
Proof.
  intros [P _] He. unfold head_cat. destruct (b_entries b) as [|e0 r] eqn:E; [destruct He|].
  apply P; [exact He|now left].
Qed.

Lemma head_cat_adv b a : cat_pure b -> b_entries b = [] -> In a (b_adv b) -> e_cat a = head_cat b.
Proof.
  intros [_ P] Hn Ha. unfold head_cat. rewrite Hn. destruct (b_adv b) as [|a0 r] eqn:E; [destruct Ha|].
  apply P; [exact Ha|now left].
Qed.

(* the category rule (one category per batch, one category per header signature) is the
   hypothesis [cat_uniform] of C12_category_uniform *)
Lemma cat_rule_uniform inp : cat_rule inp -> cat_uniform inp.
Proof.
  intros (Hp & Hs & Hx). rewrite Forall_forall in Hp, Hx. split.
  - intros [s e] [s' e'] Hi Hi' Heq. cbn [fst snd] in *.
    unfold ids in Hi, Hi'. apply in_flat_map in Hi as (a & Ha & Hi). apply in_flat_map in Hi' as (b & Hb & Hi').
    unfold ids_of in Hi, Hi'. apply in_map_iff in Hi as (x & Ex & Hx1). apply in_map_iff in Hi' as (y & Ey & Hy1).
    injection Ex as <- <-. injection Ey as <- <-.
    rewrite (head_cat_entries a x (Hp a Ha) Hx1), (head_cat_entries b y (Hp b Hb) Hy1). now apply Hs.
  - intros [s e] [s' e'] Hi Hi' Heq. cbn [fst snd] in *.
    unfold adv_ids in Hi, Hi'. apply in_flat_map in Hi as (a & Ha & Hi). apply in_flat_map in Hi' as (b & Hb & Hi').
    unfold adv_ids_of in Hi, Hi'. apply in_map_iff in Hi as (x & Ex & Hx1). apply in_map_iff in Hi' as (y & Ey & Hy1).
    injection Ex as <- <-. injection Ey as <- <-.
    assert (Ea : b_entries a = []) by (destruct (Hx a Ha) as [H|H]; [exact H|rewrite H in Hx1; destruct Hx1]).
    assert (Eb : b_entries b = []) by (destruct (Hx b Hb) as [H|H]; [exact H|rewrite H in Hy1; destruct Hy1]).
    rewrite (head_cat_adv a x (Hp a Ha) Ea Hx1), (head_cat_adv b y (Hp b Hb) Eb Hy1). now apply Hs.
Qed.

(* Batch.Category() of a batch that holds entries of one category and no ADV entries *)
Lemma batch_category_pure b : cat_pure b -> b_entries b <> [] -> b_adv b = [] ->
  batch_category b = if is_ret_noc (head_cat b) then head_cat b else cat_forward.
Proof.
  intros Hp Hne Ha. unfold batch_category. rewrite Ha. cbn [find].
  destruct (find (fun e => is_ret_noc (e_cat e)) (b_entries b)) as [e|] eqn:F.
  - apply find_some in F as [He Hr]. rewrite (head_cat_entries b e Hp He) in *. now rewrite Hr.
  - destruct (b_entries b) as [|e0 r] eqn:E; [congruence|].
    assert (H0 := find_none _ _ F e0 ltac:(now left)). cbn beta in H0.
    assert (Hh : head_cat b = e_cat e0) by (unfold head_cat; now rewrite E). now rewrite Hh, H0.
Qed.

(* ------------------------------------------------------------------ Create of a standard batch *)

Definition hp_of (hd : bytes -> hdrp) (s : bytes) : hpay := mkhpay (hd_class (hd s)) (hd_odfi (hd s)).
Definition fp_of (sp : bytes -> stdp) (c : bytes) : fpay := mkfpay (sp_code (sp c)) (sp_rdfi (sp c)) (sp_check (sp c)).

Section Std.
Variables (A : Arith.tables) (T : Offsets.otable).
Hypothesis HA : agree A T.
Variables (hd : bytes -> hdrp) (sp : bytes -> stdp).

Local Notation toe := (to_off_entry sp).
Local Notation fe := (f_entry (fp_of sp)).

Lemma sk_entries_same es : sk_entries sp es (map toe es) = map fe es.
Proof.
  induction es as [|e es IH]; cbn [sk_entries map]; [reflexivity|]. rewrite IH. f_equal.
  unfold sk_entry, to_off_entry, f_entry, fp_of.
  cbn [Offsets.e_trace Offsets.e_code Offsets.e_amount Offsets.e_addenda fp_code fp_rdfi fp_check].
  now rewrite Z.eqb_refl.
Qed.

Lemma full_count es : Offsets.count (map toe es) = Arith.calc_count (map fe es).
Proof.
  unfold Offsets.count. induction es as [|e es IH]; cbn [map Arith.calc_count Offsets.sumf]; [reflexivity|].
  rewrite IH. unfold to_off_entry, f_entry. cbn [Offsets.e_addenda Arith.en_addenda]. lia.
Qed.

Lemma full_hash es : Offsets.hash (map toe es) = Arith.calc_hash A (map fe es).
Proof.
  unfold Arith.calc_hash, Arith.least_sig, Offsets.hash. rewrite (ag_hash A T HA).
  replace (Arith.hash_sum (map fe es)) with (Offsets.sumf Offsets.e_rdfi (map toe es)); [reflexivity|].
  induction es as [|e es IH]; cbn [map Arith.hash_sum Offsets.sumf]; [reflexivity|]. now rewrite IH.
Qed.

Lemma full_credit es : Offsets.credits T (map toe es) = Arith.calc_credit A Arith.KStd (map fe es).
Proof.
  unfold Arith.calc_credit, Offsets.credits. induction es as [|e es IH]; cbn [map Arith.sum_where Offsets.sumf]; [reflexivity|].
  rewrite IH. f_equal. unfold f_entry at 1 2. cbn [Arith.en_code Arith.en_amount]. rewrite (ag_credit A T HA). reflexivity.
Qed.

Lemma full_debit es : Offsets.debits T (map toe es) = Arith.calc_debit A Arith.KStd (map fe es).
Proof.
  unfold Arith.calc_debit, Offsets.debits. induction es as [|e es IH]; cbn [map Arith.sum_where Offsets.sumf]; [reflexivity|].
  rewrite IH. f_equal. unfold f_entry at 1 2. cbn [Arith.en_code Arith.en_amount]. rewrite (ag_debit A T HA).
  unfold Offsets.db_amt, to_off_entry, fp_of. cbn [Offsets.e_code Offsets.e_amount fp_code].
  destruct (Offsets.mem (sp_code (sp (e_core e))) (Offsets.t_credit T)); cbn [negb andb]; [reflexivity|].
  destruct (Offsets.mem (sp_code (sp (e_core e))) (Offsets.t_debit T)); reflexivity.
Qed.

(* every trace number carries the header's ODFI (integer form: what Batch.build tests) *)
Definition traces_prefixed (b : batch) : Prop :=
  Forall (fun e => Offsets.trace_odfi (tnum (e_trace e)) = hd_odfi_z (hd (b_sig b))) (b_entries b).

Lemma prefixed_has_prefix b : traces_prefixed b ->
  forallb (has_prefix (hd_odfi_z (hd (b_sig b)))) (map toe (b_entries b)) = true.
Proof.
  unfold traces_prefixed. intros H. apply forallb_forall. intros x Hx. apply in_map_iff in Hx as (e & <- & He).
  rewrite Forall_forall in H. unfold has_prefix, to_off_entry. cbn [Offsets.e_trace]. apply Z.eqb_eq. now apply H.
Qed.

(* Batch.build (C05's model) on the consolidated batch: succeeds, keeps every trace number,
   and leaves exactly the Arith skeleton [f_batch] = the abstract Create of C12Valid *)
Lemma build_consolidated b :
  hd_ok (hd (b_sig b)) = true -> b_entries b <> [] -> traces_prefixed b ->
  exists b', Offsets.build T (to_off hd sp b) = Offsets.Ret true b'
    /\ Offsets.b_entries b' = map toe (b_entries b)
    /\ ctl_ok T b'
    /\ off_skeleton hd sp b b' = f_batch A (hp_of hd) (fp_of sp) b.
Proof.
  intros Hok Hne Hpre.
  assert (Hne' : Offsets.b_entries (to_off hd sp b) <> []).
  { unfold to_off. cbn [Offsets.b_entries]. intros E. apply map_eq_nil in E. congruence. }
  pose proof (build_no_offset T (to_off hd sp b) Hok Hne' eq_refl) as Hb.
  cbn [to_off Offsets.b_odfi Offsets.b_entries] in Hb. unfold to_off in Hb. cbn [Offsets.b_odfi Offsets.b_entries] in Hb.
  rewrite (retrace_fix _ _ (prefixed_has_prefix b Hpre) 1) in Hb.
  eexists. split; [exact Hb|]. split; [reflexivity|]. split.
  - unfold ctl_ok, with_es_ctl, ctl_of. cbn. repeat split; reflexivity.
  - unfold off_skeleton, with_es_ctl, ctl_of, f_batch, VO.tabulate, VO.tab_ctl, hp_of.
    cbn [Offsets.b_ctl Offsets.b_svc Offsets.b_num Offsets.b_entries Offsets.c_svc Offsets.c_count Offsets.c_hash
         Offsets.c_debit Offsets.c_credit Offsets.c_num hp_class hp_odfi].
    rewrite sk_entries_same, full_count, full_hash, full_credit, full_debit. reflexivity.
Qed.

(* ... hence Create (build + Validate incl. isCategory) succeeds exactly when the abstract batch
   validates and the category check passes *)
Lemma create_std_spec b :
  hd_ok (hd (b_sig b)) = true -> b_entries b <> [] -> traces_prefixed b ->
  Arith.validate_batch A (f_batch A (hp_of hd) (fp_of sp) b) = Arith.ROk -> category_ok b = true ->
  exists b', create_std A T hd sp b = Some b' /\ Offsets.b_entries b' = map toe (b_entries b) /\ ctl_ok T b'
             /\ off_skeleton hd sp b b' = f_batch A (hp_of hd) (fp_of sp) b.
Proof.
  intros Hok Hne Hpre Hv Hc. destruct (build_consolidated b Hok Hne Hpre) as (b' & Hb & He & Hctl & Hsk).
  exists b'. split; [|split; [exact He|split; [exact Hctl|exact Hsk]]].
  unfold create_std. rewrite Hb, Hsk, Hv, (is_category_std_ok b Hne), Hc. reflexivity.
Qed.

Lemma create_std_fails_category b :
  b_entries b <> [] -> category_ok b = false -> create_std A T hd sp b = None.
Proof.
  intros Hne Hc. unfold create_std. destruct (Offsets.build T (to_off hd sp b)) as [[|] b'| |]; try reflexivity.
  rewrite (is_category_std_ok b Hne), Hc, andb_false_r. reflexivity.
Qed.

End Std.

(* ------------------------------------------------------------------ AddToFile, File.Create, the sanity checks *)

Lemma sumZ_app a b : sumZ (a ++ b) = sumZ a + sumZ b.
Proof. induction a as [|x a IH]; cbn [app sumZ fold_right]; [reflexivity|]. unfold sumZ in *. rewrite IH. lia. Qed.

Definition sum_ids (g : entry -> Z) (l : list batch) : Z := sumZ (map (fun p => g (snd p)) (ids l)).

Lemma sum_ids_cons g b l : sum_ids g (b :: l) = sumZ (map g (b_entries b)) + sum_ids g l.
Proof.
  unfold sum_ids, ids. cbn [flat_map]. rewrite map_app, sumZ_app. f_equal.
  unfold ids_of. rewrite map_map. reflexivity.
Qed.

Lemma sum_ids_perm g l l' : Permutation (ids l) (ids l') -> sum_ids g l = sum_ids g l'.
Proof. intros P. unfold sum_ids. now apply sumZ_perm, Permutation_map. Qed.

(* the consolidated batches in the order AddToFile sees them *)
Definition pre (all : list batch) : list batch := map sort_entries (sort_by num_ltb all).

Lemma pre_ids all : Permutation (ids (pre all)) (ids all).
Proof. unfold pre. rewrite ids_map_sort_entries. apply ids_perm, sort_by_perm. Qed.

Definition same_content (x y : batch) : Prop :=
  b_kind y = b_kind x /\ b_sig y = b_sig x /\ b_entries y = b_entries x /\ b_adv y = b_adv x.

Lemma renumber_content l : forall n x, In x l -> exists y, In y (renumber n l) /\ same_content x y.
Proof.
  induction l as [|b l IH]; intros n x Hx; [destruct Hx|]. cbn [renumber]. destruct Hx as [<-|Hx].
  - eexists. split; [now left|]. unfold same_content. cbn. repeat split; reflexivity.
  - destruct (IH (n + 1) x Hx) as (y & Hy & Hc). exists y. split; [now right|exact Hc].
Qed.

(* every batch handed to AddToFile is, up to its number, a batch of the result list of Flatten.v *)
Lemma pre_in_out all x : In x (pre all) -> exists y, In y (finalize all) /\ same_content x y.
Proof.
  intros Hx. unfold finalize. fold (pre all). apply renumber_content. apply in_app_iff.
  destruct (is_std x) eqn:E; [left|right]; apply filter_In; split; try exact Hx; try exact E.
  unfold is_iat. now rewrite E.
Qed.

Lemma sumZ_nonneg l : Forall (fun z => 0 <= z) l -> 0 <= sumZ l.
Proof. induction 1 as [|z l Hz _ IH]; cbn [sumZ fold_right]; [lia|]. unfold sumZ in IH. lia. Qed.

(* with non-negative terms, the sum over one batch is at most the sum over the file *)
Lemma sum_member_le (g : entry -> Z) l b :
  (forall p, In p (ids l) -> 0 <= g (snd p)) -> In b l -> sumZ (map g (b_entries b)) <= sum_ids g l.
Proof.
  induction l as [|x l IH]; intros Hg Hb; [destruct Hb|]. rewrite sum_ids_cons.
  assert (Hx : 0 <= sumZ (map g (b_entries x))).
  { apply sumZ_nonneg, Forall_forall. intros z Hz. apply in_map_iff in Hz as (e & <- & He).
    apply (Hg (b_sig x, e)). apply in_ids; [now left|exact He]. }
  assert (Hl : 0 <= sum_ids g l).
  { unfold sum_ids. apply sumZ_nonneg, Forall_forall. intros z Hz. apply in_map_iff in Hz as (q & <- & Hq).
    apply Hg. unfold ids in *. cbn [flat_map]. apply in_app_iff. now right. }
  destruct Hb as [<-|Hb]; [lia|].
  assert (IH' : sumZ (map g (b_entries b)) <= sum_ids g l).
  { apply IH; [|exact Hb]. intros q Hq. apply Hg. unfold ids in *. cbn [flat_map]. apply in_app_iff. now right. }
  lia.
Qed.

Section Finish.
Variables (A : Arith.tables) (T : Offsets.otable) (TT : BuildIAT.ttable).
Hypothesis HA : agree A T.
Variables (hd : bytes -> hdrp) (sp : bytes -> stdp) (ip : bytes -> ipay) (ap : bytes -> apay).

Local Notation toe := (to_off_entry sp).

Definition cnt_e (e : entry) : Z := 1 + Z.of_N (e_addenda e).
Definition cr_e (e : entry) : Z := Offsets.cr_amt T (toe e).
Definition db_e (e : entry) : Z := Offsets.db_amt T (toe e).

Lemma count_sum es : Offsets.count (map toe es) = sumZ (map cnt_e es).
Proof.
  unfold Offsets.count. induction es as [|e es IH]; cbn [map Offsets.sumf sumZ fold_right]; [reflexivity|].
  unfold sumZ in IH. rewrite IH. unfold cnt_e, to_off_entry. cbn [Offsets.e_addenda]. reflexivity.
Qed.

Lemma credits_sum es : Offsets.credits T (map toe es) = sumZ (map cr_e es).
Proof.
  unfold Offsets.credits. induction es as [|e es IH]; cbn [map Offsets.sumf sumZ fold_right]; [reflexivity|].
  unfold sumZ in IH. rewrite IH. reflexivity.
Qed.

Lemma debits_sum es : Offsets.debits T (map toe es) = sumZ (map db_e es).
Proof.
  unfold Offsets.debits. induction es as [|e es IH]; cbn [map Offsets.sumf sumZ fold_right]; [reflexivity|].
  unfold sumZ in IH. rewrite IH. reflexivity.
Qed.

(* a standard (non-ADV) consolidated batch whose Create succeeds as C05's build says *)
Definition created (x : batch) : Prop :=
  b_kind x = Flatten.KStd /\ hd_adv (hd (b_sig x)) = false /\
  exists b', create_std A T hd sp x = Some b' /\ ctl_ok T b' /\ Offsets.b_entries b' = map toe (b_entries x)
             /\ Arith.validate_batch A (off_skeleton hd sp x b') = Arith.ROk /\ is_category_std false x = true.

(* AddToFile over such batches: nothing is skipped, the controls sum up to the sums over the entries *)
Lemma add_all_created l : Forall created l ->
  exists ss, add_all A T TT hd sp ip ap l = (ss, [])
    /\ length ss = length l /\ existsb sb_is_adv ss = false
    /\ zsum (fun s => Offsets.c_count (sb_ctl s)) ss = sum_ids cnt_e l
    /\ zsum (fun s => Offsets.c_credit (sb_ctl s)) ss = sum_ids cr_e l
    /\ zsum (fun s => Offsets.c_debit (sb_ctl s)) ss = sum_ids db_e l.
Proof.
  induction 1 as [|x l (Hk & Hadv & b' & Hc & (K1 & K2 & K3 & K4 & _) & He & _) _ IH].
  - exists []. cbn. repeat split; reflexivity.
  - destruct IH as (ss & Hss & Hlen & Hna & S1 & S2 & S3).
    exists (SStd (std_hdr0 b') :: ss). cbn [add_all]. rewrite Hss, Hk, Hadv, Hc.
    split; [reflexivity|]. split; [cbn [length]; now rewrite Hlen|]. split; [cbn [existsb sb_is_adv orb]; exact Hna|].
    rewrite !sum_ids_cons. cbn [zsum sb_ctl std_hdr0 Offsets.b_ctl].
    rewrite S1, S2, S3, K1, K3, K4, He, count_sum, credits_sum, debits_sum. repeat split; reflexivity.
Qed.

(* Flatten after the consolidation loop, on a file of standard batches each of whose
   consolidated batches passes Create, and whose own control is the tabulation of its entries:
   File.Create succeeds, none of the three ErrFlattenChanged... comparisons fires; the only
   error left is FileControl.Validate on the new control (field widths) *)
Theorem finish_created inf all :
  i_hdr_ok inf = true -> all <> [] -> Forall created (pre all) ->
  i_count inf = sum_ids cnt_e all -> i_debit inf = sum_ids db_e all -> i_credit inf = sum_ids cr_e all ->
  let r := finish A T TT hd sp ip ap inf all in
  (fst r = FOk \/ (fst r = FErrValidate /\ file_ctl_ok A (snd r) = false))
  /\ length (af_std (snd r)) = length all /\ af_iat (snd r) = []
  /\ Offsets.fc_count (af_ctl (snd r)) = i_count inf
  /\ Offsets.fc_debit (af_ctl (snd r)) = i_debit inf
  /\ Offsets.fc_credit (af_ctl (snd r)) = i_credit inf.
Proof.
  intros Hh Hne Hc E1 E2 E3. cbv zeta. unfold finish. fold (pre all).
  destruct (add_all_created (pre all) Hc) as (ss & Hss & Hlen & Hna & S1 & S2 & S3). rewrite Hss.
  assert (Hlen' : length ss = length all).
  { rewrite Hlen. unfold pre. rewrite map_length. apply Permutation_length, sort_by_perm. }
  assert (Hss_ne : ss <> []) by (intros ->; destruct all; [congruence|discriminate]).
  set (f0 := mkaf (i_hdr_ok inf) (mkfo false false false) ss [] zero_fctl zero_fctl).
  assert (Hf : file_create_all TT f0 = (true, created_std TT f0)).
  { unfold file_create_all, created_std, f0. cbn [af_opts fo_skip_all fo_allow_missing_hdr fo_allow_zero af_hdr_ok af_std af_iat negb andb].
    rewrite Hh. cbn [negb andb]. destruct ss as [|s0 ss']; [congruence|]. cbn [andb].
    unfold file_is_adv. cbn [af_std]. rewrite Hna. cbn [negb]. now rewrite file_control_renumber. }
  assert (Q1 : zsum (fun s => Offsets.c_count (sb_ctl s)) ss = i_count inf)
    by (rewrite S1, (sum_ids_perm _ _ _ (pre_ids all)); now symmetry).
  assert (Q2 : zsum (fun s => Offsets.c_debit (sb_ctl s)) ss = i_debit inf)
    by (rewrite S3, (sum_ids_perm _ _ _ (pre_ids all)); now symmetry).
  assert (Q3 : zsum (fun s => Offsets.c_credit (sb_ctl s)) ss = i_credit inf)
    by (rewrite S2, (sum_ids_perm _ _ _ (pre_ids all)); now symmetry).
  rewrite Hf. unfold created_std, f0, af_with.
  cbn [af_std af_iat af_ctl af_actl renumber_i file_control_all Offsets.fc_count Offsets.fc_debit Offsets.fc_credit zsum].
  rewrite !Z.add_0_r, Q1, Q2, Q3, !Z.eqb_refl. cbn [negb].
  match goal with |- context [file_ctl_ok A ?f] => destruct (file_ctl_ok A f) eqn:Ev end; cbn [negb fst snd af_std af_iat af_ctl].
  all: (split; [first [now left | right; split; [reflexivity|exact Ev]]|]).
  all: cbn [Offsets.fc_count Offsets.fc_debit Offsets.fc_credit].
  all: rewrite renumber_s_length; repeat split; try assumption.
  all: unfold file_control_all; cbn [Offsets.fc_count Offsets.fc_debit Offsets.fc_credit zsum]; rewrite Z.add_0_r; assumption.
Qed.

End Finish.

(* ------------------------------------------------------------------ FlattenBatches succeeds *)

Section Succeeds.
Variables (A : Arith.tables) (T : Offsets.otable) (TT : BuildIAT.ttable).
Hypothesis HA : agree A T.
Variables (hd : bytes -> hdrp) (sp : bytes -> stdp) (ip : bytes -> ipay) (ap : bytes -> apay).

Local Notation fb := (f_batch A (hp_of hd) (fp_of sp)).
Local Notation fe := (f_entry (fp_of sp)).
Local Notation pok := (pair_ok A (hp_of hd) (fp_of sp)).

(* a file of standard (non-ADV) batches *)
Definition std_file (inp : list batch) : Prop :=
  Forall (fun b => b_kind b = Flatten.KStd /\ b_entries b <> [] /\ b_adv b = []) inp.

(* per (header, entry): the header is valid and not ADV, the trace number carries its ODFI *)
Definition hdr_pair (p : bytes * entry) : Prop :=
  hd_adv (hd (fst p)) = false /\ hd_ok (hd (fst p)) = true /\
  Offsets.trace_odfi (tnum (e_trace (snd p))) = hd_odfi_z (hd (fst p)).

Definition fits (b : batch) : Prop :=
  Arith.calc_debit A Arith.KStd (map fe (b_entries b)) <= Arith.t_batch_limit A /\
  Arith.calc_credit A Arith.KStd (map fe (b_entries b)) <= Arith.t_batch_limit A.

Lemma run_kind order : Forall (fun b => b_kind b = Flatten.KStd) order ->
  Forall (fun b => b_kind b = Flatten.KStd) (all_batches (run order)).
Proof.
  apply run_P. intros m b Hm _ _. now rewrite consume_kind.
Qed.

(* every consolidated batch, as AddToFile sees it: Create — Batch.build as modelled by C05, then
   Validate as modelled by C03 (Arith) with isCategory — succeeds, and its entries are strictly
   ascending by trace number *)
Lemma consolidated_created inf inp order all :
  std_file inp ->
  kinds_consistent inp -> Forall traces_nodup inp ->
  Forall (fun b => Arith.validate_batch A (fb b) = Arith.ROk) inp ->
  Forall hdr_pair (ids inp) ->
  i_debit inf = sum_ids (db_e T sp) inp -> i_credit inf = sum_ids (cr_e T sp) inp ->
  cat_rule inp ->
  i_debit inf <= Arith.t_file_limit A -> i_credit inf <= Arith.t_file_limit A ->
  Arith.t_file_limit A <= Arith.t_batch_limit A ->
  admissible inp order -> Permutation all (all_batches (run order)) ->
  Forall (fun x => created A T hd sp x /\ StronglySorted trace_lt (b_entries x)) (pre all)
  /\ Permutation (ids all) (ids inp).
Proof.
  intros Hstd Hk Hnd Hv Hhp E2 E3 Hcat L1 L2 L3 Hadm Hall. unfold std_file in Hstd.
  assert (Hs : flatten_spec inp (finalize all)) by (exists order, all; split; [exact Hadm|split; [exact Hall|reflexivity]]).
  destruct Hadm as (Hperm & Hsorted).
  assert (Hne' : Forall nonempty inp) by (eapply Forall_impl; [|exact Hstd]; intros x (_ & H & _); now left).
  destruct (flatten_conservation inp _ Hk Hs) as (P1 & _).
  destruct (flatten_wellformed inp _ Hnd Hne' Hs) as (Hw & _).
  pose proof (flatten_pairs inp _ pok Hk Hs (valid_pairs_all A (hp_of hd) (fp_of sp) inp Hv)) as Hpok.
  pose proof (flatten_pairs inp _ hdr_pair Hk Hs Hhp) as Hhdr.
  pose proof (flatten_category inp _ Hk (cat_rule_uniform inp Hcat) Hs) as Hck.
  assert (Hcok : forallb category_ok (finalize all) = true).
  { unfold checked in Hck. destruct (forallb category_ok (finalize all)); [reflexivity|discriminate]. }
  (* the consolidated totals fit the batch control: they are part of the file totals *)
  assert (Hfit : Forall fits (finalize all)).
  { assert (Hamt : forall p, In p (ids (finalize all)) -> 0 <= e_amount (snd p)).
    { intros p Hp. rewrite Forall_forall in Hpok. destruct (Hpok p Hp) as (_ & _ & Hst & _).
      apply entry_static_spec in Hst as [Hst _]. apply validate_entry_facts in Hst as (_ & _ & Ha). now destruct (Ha eq_refl). }
    apply Forall_forall. intros y Hy. unfold fits. rewrite <- (full_debit A T HA sp), <- (full_credit A T HA sp), debits_sum, credits_sum. split.
    - eapply Z.le_trans; [apply (sum_member_le (db_e T sp) (finalize all) y); [|exact Hy]|].
      + intros p Hp. specialize (Hamt p Hp). unfold db_e, Offsets.db_amt, to_off_entry. cbn [Offsets.e_code Offsets.e_amount].
        destruct (Offsets.mem _ (Offsets.t_credit T)); [lia|]. destruct (Offsets.mem _ (Offsets.t_debit T)); lia.
      + rewrite (sum_ids_perm _ _ _ P1), <- E2. lia.
    - eapply Z.le_trans; [apply (sum_member_le (cr_e T sp) (finalize all) y); [|exact Hy]|].
      + intros p Hp. specialize (Hamt p Hp). unfold cr_e, Offsets.cr_amt, to_off_entry. cbn [Offsets.e_code Offsets.e_amount].
        destruct (Offsets.mem _ (Offsets.t_credit T)); lia.
      + rewrite (sum_ids_perm _ _ _ P1), <- E3. lia. }
  (* permutation of the pairs of [all] and of the input *)
  assert (Pall : Permutation (ids all) (ids inp)).
  { destruct (run_ids order (kinds_consistent_perm _ _ (Permutation_sym Hperm) Hk)) as (R1 & _).
    rewrite (ids_perm _ _ Hall), R1. now apply ids_perm. }
  split; [|exact Pall].
  (* kinds *)
  assert (Hkind : Forall (fun b => b_kind b = Flatten.KStd) (pre all)).
  { assert (Ho : Forall (fun b => b_kind b = Flatten.KStd) order).
    { apply Forall_forall. intros b Hb. eapply Permutation_in in Hb; [|exact Hperm].
      rewrite Forall_forall in Hstd. now destruct (Hstd b Hb). }
    pose proof (run_kind order Ho) as Hr. rewrite Forall_forall in Hr.
    apply Forall_forall. intros x Hx. unfold pre in Hx. apply in_map_iff in Hx as (y & <- & Hy). cbn [sort_entries b_kind].
    apply Hr. eapply Permutation_in; [exact Hall|]. eapply Permutation_in; [apply sort_by_perm|exact Hy]. }
  apply Forall_forall. intros x Hx. destruct (pre_in_out all x Hx) as (y & Hy & Ky & Sy & Ey & Ay).
  rewrite Forall_forall in Hw, Hpok, Hhdr, Hfit, Hkind. destruct (Hw y Hy) as (Hso & Hnon).
  assert (Hyadv : b_adv y = []).
  { destruct (b_adv y) as [|a q] eqn:E; [reflexivity|]. exfalso.
    destruct (flatten_conservation inp _ Hk Hs) as (_ & P2).
    assert (Hin : In (b_sig y, a) (adv_ids (finalize all))).
    { unfold adv_ids. apply in_flat_map. exists y. split; [exact Hy|]. unfold adv_ids_of. rewrite E. now left. }
    eapply Permutation_in in Hin; [|exact P2]. unfold adv_ids in Hin. apply in_flat_map in Hin as (z & Hz & Hin).
    rewrite Forall_forall in Hstd. destruct (Hstd z Hz) as (_ & _ & Za). unfold adv_ids_of in Hin. now rewrite Za in Hin. }
  assert (Hxne : b_entries x <> []) by (rewrite <- Ey; destruct Hnon as [H|H]; [exact H|congruence]).
  assert (Hidx : forall e, In e (b_entries x) -> In (b_sig x, e) (ids (finalize all))).
  { intros e He. rewrite <- Sy. apply in_ids; [exact Hy|now rewrite Ey]. }
  split; [|rewrite <- Ey; exact Hso].
  destruct (b_entries x) as [|e0 es0] eqn:Ex; [congruence|]. rewrite <- Ex in *.
  destruct (Hhdr _ (Hidx e0 ltac:(rewrite Ex; now left))) as (Hna & Hok & _). cbn [fst] in Hna, Hok.
  split; [now apply Hkind|]. split; [exact Hna|].
  assert (Hvx : Arith.validate_batch A (fb x) = Arith.ROk).
  { destruct (Hfit y Hy) as (F1 & F2). apply pairs_valid.
    - apply Forall_forall. intros p Hp. unfold ids_of in Hp. apply in_map_iff in Hp as (e & <- & He). now apply Hpok, Hidx.
    - exact Hxne.
    - rewrite <- Ey. exact Hso.
    - rewrite <- Ey. exact F1.
    - rewrite <- Ey. exact F2. }
  assert (Hcx : category_ok x = true).
  { rewrite forallb_forall in Hcok. specialize (Hcok y Hy). unfold category_ok in *. now rewrite <- Ey, <- Ay. }
  destruct (create_std_spec A T HA hd sp x Hok Hxne) as (b' & Hc & He & Hctl & Hsk); [|exact Hvx|exact Hcx|].
  - unfold traces_prefixed. apply Forall_forall. intros e He. now destruct (Hhdr _ (Hidx e He)) as (_ & _ & Ht).
  - exists b'. split; [exact Hc|]. split; [exact Hctl|]. split; [exact He|]. split; [now rewrite Hsk|].
    now rewrite (is_category_std_ok x Hxne).
Qed.

(* FlattenBatches on a valid file of standard batches that satisfies the category rule: no batch
   is lost in AddToFile, File.Create succeeds, none of the three ErrFlattenChanged... checks
   fires; the new file control carries the original figures.  The only error return left is
   FileControl.Validate of the new control (its conditions on hash and widths, Arith.validate_fctl) *)
Theorem flatten_succeeds inf inp r :
  std_file inp -> inp <> [] -> i_hdr_ok inf = true ->
  kinds_consistent inp -> Forall traces_nodup inp ->
  Forall (fun b => Arith.validate_batch A (fb b) = Arith.ROk) inp ->
  Forall hdr_pair (ids inp) ->
  i_count inf = sum_ids cnt_e inp -> i_debit inf = sum_ids (db_e T sp) inp -> i_credit inf = sum_ids (cr_e T sp) inp ->
  cat_rule inp ->
  i_debit inf <= Arith.t_file_limit A -> i_credit inf <= Arith.t_file_limit A ->
  Arith.t_file_limit A <= Arith.t_batch_limit A ->
  flatten_full_spec A T TT hd sp ip ap inf inp r ->
  (fst r = FOk \/ (fst r = FErrValidate /\ file_ctl_ok A (snd r) = false))
  /\ af_iat (snd r) = []
  /\ Offsets.fc_count (af_ctl (snd r)) = i_count inf
  /\ Offsets.fc_debit (af_ctl (snd r)) = i_debit inf
  /\ Offsets.fc_credit (af_ctl (snd r)) = i_credit inf.
Proof.
  intros Hstd Hne Hh Hk Hnd Hv Hhp E1 E2 E3 Hcat L1 L2 L3 (order & all & Hadm & Hall & ->).
  destruct (consolidated_created inf inp order all Hstd Hk Hnd Hv Hhp E2 E3 Hcat L1 L2 L3 Hadm Hall) as (Hcv & Pall).
  assert (Hcr : Forall (created A T hd sp) (pre all)) by (eapply Forall_impl; [|exact Hcv]; intros x [H _]; exact H).
  unfold std_file in Hstd.
  assert (Hall_ne : all <> []).
  { intros ->. destruct inp as [|b0 inp']; [congruence|]. inversion Hstd as [|? ? (_ & Hb0 & _) _]; subst.
    destruct (b_entries b0) as [|e0 q] eqn:E; [congruence|].
    assert (Hin : In (b_sig b0, e0) (ids (b0 :: inp'))) by (apply in_ids; [now left|rewrite E; now left]).
    eapply Permutation_in in Hin; [|apply Permutation_sym, Pall]. destruct Hin. }
  destruct (finish_created A T TT hd sp ip ap inf all Hh Hall_ne Hcr) as (R1 & _ & R2 & R3 & R4 & R5).
  - rewrite E1. symmetry. now apply sum_ids_perm.
  - rewrite E2. symmetry. now apply sum_ids_perm.
  - rewrite E3. symmetry. now apply sum_ids_perm.
  - repeat split; assumption.
Qed.

(* ... and the result is VALID: every batch of the new file is the result of C05's Batch.build on a
   consolidated batch, accepted by the validator model (control = tabulation, ascending trace
   numbers carrying the ODFI, admissible entries, isCategory) *)
Theorem flatten_valid inf inp r :
  std_file inp -> i_hdr_ok inf = true ->
  kinds_consistent inp -> Forall traces_nodup inp ->
  Forall (fun b => Arith.validate_batch A (fb b) = Arith.ROk) inp ->
  Forall hdr_pair (ids inp) ->
  i_debit inf = sum_ids (db_e T sp) inp -> i_credit inf = sum_ids (cr_e T sp) inp ->
  cat_rule inp ->
  i_debit inf <= Arith.t_file_limit A -> i_credit inf <= Arith.t_file_limit A ->
  Arith.t_file_limit A <= Arith.t_batch_limit A ->
  flatten_full_spec A T TT hd sp ip ap inf inp r ->
  exists all, r = finish A T TT hd sp ip ap inf all /\ flatten_spec inp (finalize all) /\
    Forall (fun x => created A T hd sp x /\ StronglySorted trace_lt (b_entries x)) (pre all).
Proof.
  intros Hstd Hh Hk Hnd Hv Hhp E2 E3 Hcat L1 L2 L3 (order & all & Hadm & Hall & ->).
  exists all. split; [reflexivity|]. split; [exists order, all; split; [exact Hadm|split; [exact Hall|reflexivity]]|].
  now destruct (consolidated_created inf inp order all Hstd Hk Hnd Hv Hhp E2 E3 Hcat L1 L2 L3 Hadm Hall).
Qed.

End Succeeds.

(* the executable models used in the correspondence are instances of the specification *)
Lemma flatten_full_stable_spec A T TT hd sp ip ap inf inp :
  flatten_full_spec A T TT hd sp ip ap inf inp (flatten_full_stable A T TT hd sp ip ap inf inp).
Proof.
  exists (sort_by count_ltb inp), (all_batches (run (sort_by count_ltb inp))).
  split; [apply stable_admissible|]. split; reflexivity.
Qed.

Lemma flatten_full_hint_sound A T TT hd sp ip ap inf inp hint r :
  flatten_full_hint A T TT hd sp ip ap inf inp hint = Some r -> flatten_full_spec A T TT hd sp ip ap inf inp r.
Proof.
  unfold flatten_full_hint. destruct (perm_hintb (length inp) hint && sorted_countb (apply_hint inp hint)) eqn:E; [|discriminate].
  intros H. injection H as <-. apply andb_prop in E as [E1 E2].
  exists (apply_hint inp hint), (all_batches (run (apply_hint inp hint))). split; [|split; reflexivity].
  split; [now apply apply_hint_perm|now apply sorted_countb_spec].
Qed.

(* ------------------------------------------------------------------ flattening the result again *)

Lemma strict_sorted_nodup l : StronglySorted trace_lt l -> NoDup (map e_trace l).
Proof.
  induction 1 as [|a l Hl IH Ha]; cbn [map]; constructor; [|exact IH].
  intros Hin. apply in_map_iff in Hin as (b & Eb & Hb). rewrite Forall_forall in Ha. specialize (Ha b Hb).
  unfold trace_lt, trace_ltb in Ha. rewrite Eb, lex_ltb_irrefl in Ha. discriminate.
Qed.

Section Again.
Variables (A : Arith.tables) (T : Offsets.otable) (TT : BuildIAT.ttable).
Hypothesis HA : agree A T.
Variables (hd : bytes -> hdrp) (sp : bytes -> stdp) (ip : bytes -> ipay) (ap : bytes -> apay).

Local Notation fb := (f_batch A (hp_of hd) (fp_of sp)).
Local Notation pok := (pair_ok A (hp_of hd) (fp_of sp)).

(* the batch list Flatten produces from a valid file under the category rule is again such a file,
   with the same control figures *)
Lemma result_is_valid_file inf inp out :
  std_file inp -> inp <> [] ->
  kinds_consistent inp -> Forall traces_nodup inp ->
  Forall (fun b => Arith.validate_batch A (fb b) = Arith.ROk) inp ->
  Forall (hdr_pair hd) (ids inp) ->
  i_debit inf = sum_ids (db_e T sp) inp -> i_credit inf = sum_ids (cr_e T sp) inp ->
  cat_rule inp ->
  i_debit inf <= Arith.t_file_limit A -> i_credit inf <= Arith.t_file_limit A ->
  Arith.t_file_limit A <= Arith.t_batch_limit A ->
  flatten_spec inp out ->
  std_file out /\ out <> [] /\ kinds_consistent out /\ Forall traces_nodup out /\
  Forall (fun b => Arith.validate_batch A (fb b) = Arith.ROk) out /\
  Forall (hdr_pair hd) (ids out) /\ Permutation (ids out) (ids inp) /\ cat_rule out.
Proof.
  intros Hstd Hne Hk Hnd Hv Hhp E2 E3 Hcat L1 L2 L3 Hs. unfold std_file in Hstd.
  assert (Hne' : Forall nonempty inp) by (eapply Forall_impl; [|exact Hstd]; intros x (_ & H & _); now left).
  destruct (flatten_conservation inp _ Hk Hs) as (P1 & P2).
  destruct (flatten_wellformed inp _ Hnd Hne' Hs) as (Hw & _).
  pose proof (flatten_pairs inp _ pok Hk Hs (valid_pairs_all A (hp_of hd) (fp_of sp) inp Hv)) as Hpok.
  pose proof (flatten_pairs inp _ (hdr_pair hd) Hk Hs Hhp) as Hhdr.
  assert (Hu : cat_uniform out) by (eapply cat_uniform_perm; [exact P1|exact P2|now apply cat_rule_uniform]).
  assert (Hadv0 : adv_ids inp = []).
  { clear -Hstd. induction Hstd as [|x l (_ & _ & Hx) _ IH]; unfold adv_ids in *; cbn [flat_map]; [reflexivity|].
    rewrite IH. unfold adv_ids_of. now rewrite Hx. }
  assert (Hyadv : forall y, In y out -> b_adv y = []).
  { intros y Hy. destruct (b_adv y) as [|a q] eqn:E; [reflexivity|]. exfalso.
    assert (Hin : In (b_sig y, a) (adv_ids out)) by (apply in_adv_ids; [exact Hy|rewrite E; now left]).
    eapply Permutation_in in Hin; [|exact P2]. now rewrite Hadv0 in Hin. }
  assert (Hyne : forall y, In y out -> b_entries y <> []).
  { intros y Hy. rewrite Forall_forall in Hw. destruct (Hw y Hy) as (_ & [H|H]); [exact H|]. now rewrite (Hyadv y Hy) in H. }
  (* kinds *)
  assert (Hkind : Forall (fun b => b_kind b = Flatten.KStd) out).
  { destruct Hs as (order & all & (Hperm & _) & Hall & ->).
    apply Forall_finalize; [intros b m H; exact H|].
    assert (Ho : Forall (fun b => b_kind b = Flatten.KStd) order).
    { apply Forall_forall. intros b Hb. eapply Permutation_in in Hb; [|exact Hperm].
      rewrite Forall_forall in Hstd. now destruct (Hstd b Hb). }
    pose proof (run_P (fun b => b_kind b = Flatten.KStd) (fun m b Hm _ _ => eq_trans (consume_kind m b) Hm) order Ho) as Hr.
    rewrite Forall_forall in Hr. apply Forall_forall. intros x Hx. apply in_map_iff in Hx as (y & <- & Hy).
    cbn [sort_entries b_kind]. apply Hr. eapply Permutation_in; [exact Hall|exact Hy]. }
  (* totals fit *)
  assert (Hamt : forall p, In p (ids out) -> 0 <= e_amount (snd p)).
  { intros p Hp. rewrite Forall_forall in Hpok. destruct (Hpok p Hp) as (_ & _ & Hst & _).
    apply entry_static_spec in Hst as [Hst _]. apply validate_entry_facts in Hst as (_ & _ & Ha). now destruct (Ha eq_refl). }
  assert (Hfit : Forall (fits A sp) out).
  { apply Forall_forall. intros y Hy. unfold fits. rewrite <- (full_debit A T HA sp), <- (full_credit A T HA sp), (debits_sum T sp), (credits_sum T sp). split.
    - eapply Z.le_trans; [apply (sum_member_le (db_e T sp) out y); [|exact Hy]|].
      + intros p Hp. specialize (Hamt p Hp). unfold db_e, Offsets.db_amt, to_off_entry. cbn [Offsets.e_code Offsets.e_amount].
        destruct (Offsets.mem _ (Offsets.t_credit T)); [lia|]. destruct (Offsets.mem _ (Offsets.t_debit T)); lia.
      + rewrite (sum_ids_perm _ _ _ P1), <- E2. lia.
    - eapply Z.le_trans; [apply (sum_member_le (cr_e T sp) out y); [|exact Hy]|].
      + intros p Hp. specialize (Hamt p Hp). unfold cr_e, Offsets.cr_amt, to_off_entry. cbn [Offsets.e_code Offsets.e_amount].
        destruct (Offsets.mem _ (Offsets.t_credit T)); lia.
      + rewrite (sum_ids_perm _ _ _ P1), <- E3. lia. }
  rewrite Forall_forall in Hw, Hkind, Hfit, Hpok.
  split.
  { apply Forall_forall. intros y Hy. split; [now apply Hkind|]. split; [now apply Hyne|now apply Hyadv]. }
  split.
  { intros ->. destruct inp as [|b0 inp']; [congruence|]. inversion Hstd as [|? ? (_ & Hb0 & _) _]; subst.
    destruct (b_entries b0) as [|e0 q] eqn:E; [congruence|].
    assert (Hin : In (b_sig b0, e0) (ids (b0 :: inp'))) by (apply in_ids; [now left|rewrite E; now left]).
    eapply Permutation_in in Hin; [|apply Permutation_sym, P1]. destruct Hin. }
  split; [intros a b Ha Hb _; now rewrite (Hkind a Ha), (Hkind b Hb)|].
  split.
  { apply Forall_forall. intros y Hy. destruct (Hw y Hy) as (Hso & _). unfold traces_nodup, traces. now apply strict_sorted_nodup. }
  split.
  { apply Forall_forall. intros y Hy. destruct (Hw y Hy) as (Hso & _). destruct (Hfit y Hy) as (F1 & F2).
    apply pairs_valid; try assumption; [|now apply Hyne].
    apply Forall_forall. intros p Hp. apply Hpok. unfold ids. apply in_flat_map. now exists y. }
  split; [exact Hhdr|]. split; [exact P1|].
  (* the category rule of the result *)
  destruct Hu as (U1 & _). split; [|split].
  - apply Forall_forall. intros y Hy. split.
    + intros e e' He He'. apply (U1 (b_sig y, e) (b_sig y, e')); [now apply in_ids|now apply in_ids|reflexivity].
    + rewrite (Hyadv y Hy). intros a a' [].
  - intros a b Ha Hb Hsig. unfold head_cat.
    destruct (b_entries a) as [|ea ra] eqn:Ea; [now apply Hyne in Ea|].
    destruct (b_entries b) as [|eb rb] eqn:Eb; [now apply Hyne in Eb|].
    apply (U1 (b_sig a, ea) (b_sig b, eb)); [apply in_ids; [exact Ha|rewrite Ea; now left]|apply in_ids; [exact Hb|rewrite Eb; now left]|exact Hsig].
  - apply Forall_forall. intros y Hy. right. now apply Hyadv.
Qed.

(* flatten (flatten f): the second application succeeds like the first and consolidates nothing:
   its result list is the list it was given (up to the file header's creation time, which the model
   does not contain) *)
Theorem reflatten inf inp out r' :
  std_file inp -> inp <> [] -> i_hdr_ok inf = true ->
  kinds_consistent inp -> Forall traces_nodup inp ->
  Forall (fun b => Arith.validate_batch A (fb b) = Arith.ROk) inp ->
  Forall (hdr_pair hd) (ids inp) ->
  i_count inf = sum_ids cnt_e inp -> i_debit inf = sum_ids (db_e T sp) inp -> i_credit inf = sum_ids (cr_e T sp) inp ->
  cat_rule inp ->
  i_debit inf <= Arith.t_file_limit A -> i_credit inf <= Arith.t_file_limit A ->
  Arith.t_file_limit A <= Arith.t_batch_limit A ->
  flatten_spec inp out ->
  flatten_full_spec A T TT hd sp ip ap inf out r' ->
  (fst r' = FOk \/ (fst r' = FErrValidate /\ file_ctl_ok A (snd r') = false))
  /\ Offsets.fc_count (af_ctl (snd r')) = i_count inf
  /\ Offsets.fc_debit (af_ctl (snd r')) = i_debit inf
  /\ Offsets.fc_credit (af_ctl (snd r')) = i_credit inf
  /\ exists all', r' = finish A T TT hd sp ip ap inf all' /\ finalize all' = out
       /\ Forall (fun x => created A T hd sp x /\ StronglySorted trace_lt (b_entries x)) (pre all').
Proof.
  intros Hstd Hne Hh Hk Hnd Hv Hhp E1 E2 E3 Hcat L1 L2 L3 Hs Hs'.
  destruct (result_is_valid_file inf inp out Hstd Hne Hk Hnd Hv Hhp E2 E3 Hcat L1 L2 L3 Hs)
    as (O1 & O2 & O3 & O4 & O5 & O6 & P1 & O7).
  assert (E1' : i_count inf = sum_ids cnt_e out) by (rewrite E1; symmetry; now apply sum_ids_perm).
  assert (E2' : i_debit inf = sum_ids (db_e T sp) out) by (rewrite E2; symmetry; now apply sum_ids_perm).
  assert (E3' : i_credit inf = sum_ids (cr_e T sp) out) by (rewrite E3; symmetry; now apply sum_ids_perm).
  destruct (flatten_succeeds A T TT HA hd sp ip ap inf out r' O1 O2 Hh O3 O4 O5 O6 E1' E2' E3' O7 L1 L2 L3 Hs') as (R1 & _ & R3 & R4 & R5).
  destruct (flatten_valid A T TT HA hd sp ip ap inf out r' O1 Hh O3 O4 O5 O6 E2' E3' O7 L1 L2 L3 Hs') as (all' & Er & Hs2 & Hcv).
  split; [exact R1|]. split; [exact R3|]. split; [exact R4|]. split; [exact R5|].
  exists all'. split; [exact Er|]. split; [exact (flatten_idempotent inp out (finalize all') Hs Hs2)|exact Hcv].
Qed.

End Again.

(* ------------------------------------------------------------------ files of standard AND IAT batches *)

Lemma zsum_sumZ {X} (f : X -> Z) l : zsum f l = sumZ (map f l).
Proof. induction l as [|x l IH]; cbn [zsum map sumZ fold_right]; [reflexivity|]. unfold sumZ in IH. now rewrite IH. Qed.

Definition sum_pairs (g : bytes * entry -> Z) (l : list batch) : Z := sumZ (map g (ids l)).

Lemma sum_pairs_cons g b l : sum_pairs g (b :: l) = sumZ (map (fun e => g (b_sig b, e)) (b_entries b)) + sum_pairs g l.
Proof.
  unfold sum_pairs, ids. cbn [flat_map]. rewrite map_app, sumZ_app. f_equal. unfold ids_of. now rewrite map_map.
Qed.

Lemma sum_pairs_perm g l l' : Permutation (ids l) (ids l') -> sum_pairs g l = sum_pairs g l'.
Proof. intros P. unfold sum_pairs. now apply sumZ_perm, Permutation_map. Qed.

Lemma pair_member_le (g : bytes * entry -> Z) l b :
  (forall p, In p (ids l) -> 0 <= g p) -> In b l -> sumZ (map (fun e => g (b_sig b, e)) (b_entries b)) <= sum_pairs g l.
Proof.
  induction l as [|x l IH]; intros Hg Hb; [destruct Hb|]. rewrite sum_pairs_cons.
  assert (Hx : 0 <= sumZ (map (fun e => g (b_sig x, e)) (b_entries x))).
  { apply sumZ_nonneg, Forall_forall. intros z Hz. apply in_map_iff in Hz as (e & <- & He).
    apply Hg. apply in_ids; [now left|exact He]. }
  assert (Hl : 0 <= sum_pairs g l).
  { unfold sum_pairs. apply sumZ_nonneg, Forall_forall. intros z Hz. apply in_map_iff in Hz as (q & <- & Hq).
    apply Hg. unfold ids in *. cbn [flat_map]. apply in_app_iff. now right. }
  destruct Hb as [<-|Hb]; [lia|].
  assert (IH' : sumZ (map (fun e => g (b_sig b, e)) (b_entries b)) <= sum_pairs g l).
  { apply IH; [|exact Hb]. intros q Hq. apply Hg. unfold ids in *. cbn [flat_map]. apply in_app_iff. now right. }
  lia.
Qed.

(* IATBatch.build goes through when every entry passes its three error returns *)
Lemma iat_loop_ok odfi o es : forall s,
  Forall (fun e => BuildIAT.incl_ok e = true /\ BuildIAT.ie_tr_num e = true) es ->
  exists es', BuildIAT.iat_loop true odfi o s es = (true, es').
Proof.
  induction es as [|e r IH]; intros s H; cbn [BuildIAT.iat_loop]; [now exists []|].
  inversion H as [|? ? (H1 & H2) Hr]; subst. rewrite H1, H2. cbn [negb].
  destruct (IH (s + 1) Hr) as (r' & ->). eexists. reflexivity.
Qed.

Section Mixed.
Variables (A : Arith.tables) (T : Offsets.otable) (TT : BuildIAT.ttable).
Hypothesis HA : agree A T.
Variables (hd : bytes -> hdrp) (sp : bytes -> stdp) (ip : bytes -> ipay) (ap : bytes -> apay).
(* the kind that goes with a header signature (the SEC code, columns 51-53, is IAT exactly for
   IATBatch headers: C12_signature_layout) *)
Variable kiat : bytes -> bool.

Local Notation toe := (to_off_entry sp).
Local Notation toi := (to_iat_entry ip).
Local Notation fb := (f_batch A (hp_of hd) (fp_of sp)).
Local Notation fe := (f_entry (fp_of sp)).
Local Notation pok := (pair_ok A (hp_of hd) (fp_of sp)).

(* what one entry contributes to its batch control, by the kind of its header *)
Definition cnt_p (p : bytes * entry) : Z := if kiat (fst p) then BuildIAT.icount_one (toi (snd p)) else cnt_e (snd p).
Definition cr_p (p : bytes * entry) : Z := if kiat (fst p) then BuildIAT.icr_amt TT (toi (snd p)) else cr_e T sp (snd p).
Definition db_p (p : bytes * entry) : Z := if kiat (fst p) then BuildIAT.idb_amt TT (toi (snd p)) else db_e T sp (snd p).

Definition kind_sig (b : batch) : Prop :=
  (b_kind b = Flatten.KStd /\ kiat (b_sig b) = false) \/ (b_kind b = Flatten.KIAT /\ kiat (b_sig b) = true).

Definition created_s (x : batch) : Prop := created A T hd sp x /\ kiat (b_sig x) = false.

(* an IAT consolidated batch whose Create succeeds as C05's iat_build says; the control is the
   tabulation of the caller's entries *)
Definition created_i (x : batch) : Prop :=
  b_kind x = Flatten.KIAT /\ kiat (b_sig x) = true /\
  exists b', create_iat TT hd ip x = Some b'
    /\ Offsets.c_count (BuildIAT.ib_ctl b') = BuildIAT.icount (map toi (b_entries x))
    /\ Offsets.c_credit (BuildIAT.ib_ctl b') = BuildIAT.icredits TT (map toi (b_entries x))
    /\ Offsets.c_debit (BuildIAT.ib_ctl b') = BuildIAT.idebits TT (map toi (b_entries x)).

Lemma create_iat_spec x :
  hd_ok (hd (b_sig x)) = true -> hd_odfi_num (hd (b_sig x)) = true -> b_entries x <> [] ->
  Forall (fun e => BuildIAT.incl_ok (toi e) = true /\ ip_tr_num (ip (e_core e)) = true) (b_entries x) ->
  category_ok x = true ->
  exists b', create_iat TT hd ip x = Some b'
    /\ Offsets.c_count (BuildIAT.ib_ctl b') = BuildIAT.icount (map toi (b_entries x))
    /\ Offsets.c_credit (BuildIAT.ib_ctl b') = BuildIAT.icredits TT (map toi (b_entries x))
    /\ Offsets.c_debit (BuildIAT.ib_ctl b') = BuildIAT.idebits TT (map toi (b_entries x)).
Proof.
  intros Hok Hnum Hne Hes Hc.
  assert (Hes' : Forall (fun e => BuildIAT.incl_ok e = true /\ BuildIAT.ie_tr_num e = true) (map toi (b_entries x))).
  { apply Forall_forall. intros y Hy. apply in_map_iff in Hy as (e & <- & He). rewrite Forall_forall in Hes.
    destruct (Hes e He) as (H1 & H2). split; [exact H1|exact H2]. }
  destruct (iat_loop_ok (hd_odfi_z (hd (b_sig x))) None (map toi (b_entries x)) 1 Hes') as (es' & Hl).
  pose proof (iat_loop_static _ _ _ _ _ _ _ Hl) as Hst.
  destruct (static_sums TT _ _ Hst) as (S1 & _ & S3 & S4).
  unfold create_iat, BuildIAT.iat_build, to_iat.
  cbn [BuildIAT.ib_hdr_ok BuildIAT.ib_entries BuildIAT.ib_odfi_num BuildIAT.ib_odfi BuildIAT.ib_opts].
  rewrite Hok, Hnum. cbn [negb].
  destruct (map toi (b_entries x)) as [|e0 r0] eqn:Em; [apply map_eq_nil in Em; congruence|]. rewrite <- Em in *.
  rewrite Hl, (is_category_iat_ok x Hne), Hc.
  eexists. split; [reflexivity|]. unfold BuildIAT.ib_with, BuildIAT.ictl_of.
  cbn [BuildIAT.ib_ctl Offsets.c_count Offsets.c_credit Offsets.c_debit]. repeat split; assumption.
Qed.

(* AddToFile over standard and IAT batches whose Create succeeds *)
Lemma add_all_mixed l : Forall (fun x => created_s x \/ created_i x) l ->
  exists ss ibs, add_all A T TT hd sp ip ap l = (ss, ibs)
    /\ (length ss + length ibs = length l)%nat /\ existsb sb_is_adv ss = false
    /\ zsum (fun s => Offsets.c_count (sb_ctl s)) ss + zsum (fun b => Offsets.c_count (BuildIAT.ib_ctl b)) ibs = sum_pairs cnt_p l
    /\ zsum (fun s => Offsets.c_credit (sb_ctl s)) ss + zsum (fun b => Offsets.c_credit (BuildIAT.ib_ctl b)) ibs = sum_pairs cr_p l
    /\ zsum (fun s => Offsets.c_debit (sb_ctl s)) ss + zsum (fun b => Offsets.c_debit (BuildIAT.ib_ctl b)) ibs = sum_pairs db_p l.
Proof.
  induction 1 as [|x l Hx _ IH].
  - exists [], []. cbn. repeat split; reflexivity.
  - destruct IH as (ss & ibs & Hss & Hlen & Hna & S1 & S2 & S3).
    destruct Hx as [((Hk & Hadv & b' & Hc & (K1 & K2 & K3 & K4 & _) & He & _) & Hki)|(Hk & Hki & b' & Hc & K1 & K3 & K4)].
    + exists (SStd (std_hdr0 b') :: ss), ibs. cbn [add_all]. rewrite Hss, Hk, Hadv, Hc.
      split; [reflexivity|]. split; [cbn [length]; lia|]. split; [cbn [existsb sb_is_adv orb]; exact Hna|].
      rewrite !sum_pairs_cons. cbn [zsum sb_ctl std_hdr0 Offsets.b_ctl].
      rewrite (map_ext (fun e => cnt_p (b_sig x, e)) cnt_e) by (intros e; unfold cnt_p; cbn [fst snd]; now rewrite Hki).
      rewrite (map_ext (fun e => cr_p (b_sig x, e)) (cr_e T sp)) by (intros e; unfold cr_p; cbn [fst snd]; now rewrite Hki).
      rewrite (map_ext (fun e => db_p (b_sig x, e)) (db_e T sp)) by (intros e; unfold db_p; cbn [fst snd]; now rewrite Hki).
      rewrite K1, K3, K4, He, (count_sum sp), (credits_sum T sp), (debits_sum T sp). repeat split; lia.
    + exists ss, (iat_hdr0 b' :: ibs). cbn [add_all]. rewrite Hss, Hk, Hc.
      split; [reflexivity|]. split; [cbn [length]; lia|]. split; [exact Hna|].
      rewrite !sum_pairs_cons. cbn [zsum iat_hdr0 BuildIAT.ib_ctl].
      rewrite (map_ext (fun e => cnt_p (b_sig x, e)) (fun e => BuildIAT.icount_one (toi e))) by (intros e; unfold cnt_p; cbn [fst snd]; now rewrite Hki).
      rewrite (map_ext (fun e => cr_p (b_sig x, e)) (fun e => BuildIAT.icr_amt TT (toi e))) by (intros e; unfold cr_p; cbn [fst snd]; now rewrite Hki).
      rewrite (map_ext (fun e => db_p (b_sig x, e)) (fun e => BuildIAT.idb_amt TT (toi e))) by (intros e; unfold db_p; cbn [fst snd]; now rewrite Hki).
      rewrite K1, K3, K4. unfold BuildIAT.icount, BuildIAT.icredits, BuildIAT.idebits.
      rewrite (zsum_sumZ BuildIAT.icount_one), (zsum_sumZ (BuildIAT.icr_amt TT)), (zsum_sumZ (BuildIAT.idb_amt TT)), !map_map. repeat split; lia.
Qed.

Theorem finish_mixed inf all :
  i_hdr_ok inf = true -> all <> [] -> Forall (fun x => created_s x \/ created_i x) (pre all) ->
  i_count inf = sum_pairs cnt_p all -> i_debit inf = sum_pairs db_p all -> i_credit inf = sum_pairs cr_p all ->
  let r := finish A T TT hd sp ip ap inf all in
  (fst r = FOk \/ (fst r = FErrValidate /\ file_ctl_ok A (snd r) = false))
  /\ (length (af_std (snd r)) + length (af_iat (snd r)) = length all)%nat
  /\ Offsets.fc_count (af_ctl (snd r)) = i_count inf
  /\ Offsets.fc_debit (af_ctl (snd r)) = i_debit inf
  /\ Offsets.fc_credit (af_ctl (snd r)) = i_credit inf.
Proof.
  intros Hh Hne Hc E1 E2 E3. cbv zeta. unfold finish. fold (pre all).
  destruct (add_all_mixed (pre all) Hc) as (ss & ibs & Hss & Hlen & Hna & S1 & S2 & S3). rewrite Hss.
  assert (Hlen' : (length ss + length ibs = length all)%nat).
  { rewrite Hlen. unfold pre. rewrite map_length. apply Permutation_length, sort_by_perm. }
  set (f0 := mkaf (i_hdr_ok inf) (mkfo false false false) ss ibs zero_fctl zero_fctl).
  assert (Hf : file_create_all TT f0 = (true, created_std TT f0)).
  { unfold file_create_all, created_std, f0. cbn [af_opts fo_skip_all fo_allow_missing_hdr fo_allow_zero af_hdr_ok af_std af_iat negb andb].
    rewrite Hh. cbn [negb andb].
    assert (Hnn : (match ss with [] => true | _ :: _ => false end && match ibs with [] => true | _ :: _ => false end) = false).
    { destruct ss, ibs; try reflexivity. cbn [length] in Hlen'. destruct all; [congruence|discriminate]. }
    rewrite Hnn. unfold file_is_adv. cbn [af_std]. rewrite Hna. cbn [negb]. now rewrite file_control_renumber. }
  assert (Q1 : zsum (fun s => Offsets.c_count (sb_ctl s)) ss + zsum (fun b => Offsets.c_count (BuildIAT.ib_ctl b)) ibs = i_count inf)
    by (rewrite S1, (sum_pairs_perm _ _ _ (pre_ids all)); now symmetry).
  assert (Q2 : zsum (fun s => Offsets.c_debit (sb_ctl s)) ss + zsum (fun b => Offsets.c_debit (BuildIAT.ib_ctl b)) ibs = i_debit inf)
    by (rewrite S3, (sum_pairs_perm _ _ _ (pre_ids all)); now symmetry).
  assert (Q3 : zsum (fun s => Offsets.c_credit (sb_ctl s)) ss + zsum (fun b => Offsets.c_credit (BuildIAT.ib_ctl b)) ibs = i_credit inf)
    by (rewrite S2, (sum_pairs_perm _ _ _ (pre_ids all)); now symmetry).
  rewrite Hf. unfold created_std, f0, af_with.
  cbn [af_std af_iat af_ctl af_actl file_control_all Offsets.fc_count Offsets.fc_debit Offsets.fc_credit].
  rewrite Q1, Q2, Q3, !Z.eqb_refl. cbn [negb].
  match goal with |- context [file_ctl_ok A ?f] => destruct (file_ctl_ok A f) eqn:Ev end; cbn [negb fst snd af_std af_iat af_ctl].
  all: (split; [first [now left | right; split; [reflexivity|exact Ev]]|]).
  all: rewrite renumber_s_length, renumber_i_length; repeat split; try assumption.
  all: unfold file_control_all; cbn [Offsets.fc_count Offsets.fc_debit Offsets.fc_credit]; assumption.
Qed.

End Mixed.

Section MixedSucceeds.
Variables (A : Arith.tables) (T : Offsets.otable) (TT : BuildIAT.ttable).
Hypothesis HA : agree A T.
Variables (hd : bytes -> hdrp) (sp : bytes -> stdp) (ip : bytes -> ipay) (ap : bytes -> apay).
Variable kiat : bytes -> bool.

Local Notation toe := (to_off_entry sp).
Local Notation toi := (to_iat_entry ip).
Local Notation fb := (f_batch A (hp_of hd) (fp_of sp)).
Local Notation fe := (f_entry (fp_of sp)).
Local Notation pok := (pair_ok A (hp_of hd) (fp_of sp)).
Local Notation ksig := (kind_sig kiat).

(* a file of standard (non-ADV) and IAT batches; the kind goes with the signature *)
Definition mixed_file (inp : list batch) : Prop :=
  Forall (fun b => b_entries b <> [] /\ b_adv b = [] /\ ksig b) inp.

(* per (header, entry): the header is valid; under a standard header it is not ADV and the trace
   number carries its ODFI; under an IAT header the ODFI is numeric, the mandatory addenda
   records are there (addendaFieldInclusion), the trace number is numeric, the amount not negative *)
Definition mixed_pair (p : bytes * entry) : Prop :=
  hd_ok (hd (fst p)) = true /\
  (kiat (fst p) = false -> hd_adv (hd (fst p)) = false /\ Offsets.trace_odfi (tnum (e_trace (snd p))) = hd_odfi_z (hd (fst p))) /\
  (kiat (fst p) = true -> hd_odfi_num (hd (fst p)) = true /\ BuildIAT.incl_ok (toi (snd p)) = true
                          /\ ip_tr_num (ip (e_core (snd p))) = true /\ 0 <= e_amount (snd p)).

Lemma run_kind_sig order : Forall ksig order -> Forall ksig (all_batches (run order)).
Proof.
  apply run_P. intros m b Hm _ _. unfold kind_sig in *. now rewrite consume_kind, consume_sig.
Qed.

Lemma std_pairs_ok inp : Forall ksig inp ->
  Forall (fun b => kiat (b_sig b) = false -> Arith.validate_batch A (fb b) = Arith.ROk) inp ->
  Forall (fun p => kiat (fst p) = false -> pok p) (ids inp).
Proof.
  intros Hk Hv. induction inp as [|b l IH]; unfold ids; cbn [flat_map]; [constructor|].
  inversion Hk as [|? ? Hb Hl]; subst. inversion Hv as [|? ? Vb Vl]; subst.
  apply Forall_app. split; [|now apply IH].
  apply Forall_forall. intros p Hp Hki.
  assert (Hs : fst p = b_sig b) by (unfold ids_of in Hp; apply in_map_iff in Hp as (e & <- & _); reflexivity).
  rewrite Hs in Hki. pose proof (valid_pairs A (hp_of hd) (fp_of sp) b (Vb Hki)) as Hall.
  rewrite Forall_forall in Hall. now apply Hall.
Qed.

Lemma consolidated_created_mixed inf inp order all :
  mixed_file inp ->
  kinds_consistent inp -> Forall traces_nodup inp ->
  Forall (fun b => kiat (b_sig b) = false -> Arith.validate_batch A (fb b) = Arith.ROk) inp ->
  Forall mixed_pair (ids inp) ->
  i_debit inf = sum_pairs (db_p T TT sp ip kiat) inp -> i_credit inf = sum_pairs (cr_p T TT sp ip kiat) inp ->
  cat_rule inp ->
  i_debit inf <= Arith.t_file_limit A -> i_credit inf <= Arith.t_file_limit A ->
  Arith.t_file_limit A <= Arith.t_batch_limit A ->
  admissible inp order -> Permutation all (all_batches (run order)) ->
  Forall (fun x => (created_s A T hd sp kiat x \/ created_i TT hd ip kiat x) /\ StronglySorted trace_lt (b_entries x)) (pre all)
  /\ Permutation (ids all) (ids inp).
Proof.
  intros Hmix Hk Hnd Hv Hmp E2 E3 Hcat L1 L2 L3 Hadm Hall. unfold mixed_file in Hmix.
  assert (Hs : flatten_spec inp (finalize all)) by (exists order, all; split; [exact Hadm|split; [exact Hall|reflexivity]]).
  destruct Hadm as (Hperm & Hsorted).
  assert (Hne' : Forall nonempty inp) by (eapply Forall_impl; [|exact Hmix]; intros x (H & _); now left).
  assert (Hks : Forall ksig inp) by (eapply Forall_impl; [|exact Hmix]; intros x (_ & _ & H); exact H).
  destruct (flatten_conservation inp _ Hk Hs) as (P1 & P2).
  destruct (flatten_wellformed inp _ Hnd Hne' Hs) as (Hw & _).
  pose proof (flatten_pairs inp _ _ Hk Hs (std_pairs_ok inp Hks Hv)) as Hpok.
  pose proof (flatten_pairs inp _ mixed_pair Hk Hs Hmp) as Hhdr.
  pose proof (flatten_category inp _ Hk (cat_rule_uniform inp Hcat) Hs) as Hck.
  assert (Hcok : forallb category_ok (finalize all) = true).
  { unfold checked in Hck. destruct (forallb category_ok (finalize all)); [reflexivity|discriminate]. }
  rewrite Forall_forall in Hpok, Hhdr.
  (* every contribution to the totals is non-negative *)
  assert (Hamt : forall p, In p (ids (finalize all)) -> 0 <= e_amount (snd p)).
  { intros p Hp. destruct (kiat (fst p)) eqn:Eki.
    - now destruct (Hhdr p Hp) as (_ & _ & H); destruct (H Eki) as (_ & _ & _ & Ha).
    - destruct (Hpok p Hp Eki) as (_ & _ & Hst & _).
      apply entry_static_spec in Hst as [Hst _]. apply validate_entry_facts in Hst as (_ & _ & Ha). now destruct (Ha eq_refl). }
  assert (Hdb : forall p, In p (ids (finalize all)) -> 0 <= db_p T TT sp ip kiat p).
  { intros p Hp. specialize (Hamt p Hp). unfold db_p. destruct (kiat (fst p)).
    - unfold BuildIAT.idb_amt, to_iat_entry. cbn [BuildIAT.ie_code BuildIAT.ie_amount].
      destruct (Offsets.mem _ (BuildIAT.tt_iat_credit TT)); [lia|]. destruct (Offsets.mem _ (BuildIAT.tt_iat_debit TT)); lia.
    - unfold db_e, Offsets.db_amt, to_off_entry. cbn [Offsets.e_code Offsets.e_amount].
      destruct (Offsets.mem _ (Offsets.t_credit T)); [lia|]. destruct (Offsets.mem _ (Offsets.t_debit T)); lia. }
  assert (Hcr : forall p, In p (ids (finalize all)) -> 0 <= cr_p T TT sp ip kiat p).
  { intros p Hp. specialize (Hamt p Hp). unfold cr_p. destruct (kiat (fst p)).
    - unfold BuildIAT.icr_amt, to_iat_entry. cbn [BuildIAT.ie_code BuildIAT.ie_amount].
      destruct (Offsets.mem _ (BuildIAT.tt_iat_credit TT)); lia.
    - unfold cr_e, Offsets.cr_amt, to_off_entry. cbn [Offsets.e_code Offsets.e_amount].
      destruct (Offsets.mem _ (Offsets.t_credit T)); lia. }
  assert (Pall : Permutation (ids all) (ids inp)).
  { destruct (run_ids order (kinds_consistent_perm _ _ (Permutation_sym Hperm) Hk)) as (R1 & _).
    rewrite (ids_perm _ _ Hall), R1. now apply ids_perm. }
  split; [|exact Pall].
  assert (Hkind : Forall ksig (pre all)).
  { assert (Ho : Forall ksig order).
    { apply Forall_forall. intros b Hb. eapply Permutation_in in Hb; [|exact Hperm]. rewrite Forall_forall in Hks. now apply Hks. }
    pose proof (run_kind_sig order Ho) as Hr. rewrite Forall_forall in Hr.
    apply Forall_forall. intros x Hx. unfold pre in Hx. apply in_map_iff in Hx as (y & <- & Hy).
    assert (Hy' : ksig y) by (apply Hr; eapply Permutation_in; [exact Hall|]; eapply Permutation_in; [apply sort_by_perm|exact Hy]).
    exact Hy'. }
  apply Forall_forall. intros x Hx. destruct (pre_in_out all x Hx) as (y & Hy & Ky & Sy & Ey & Ay).
  rewrite Forall_forall in Hw, Hkind. destruct (Hw y Hy) as (Hso & Hnon).
  assert (Hyadv : b_adv y = []).
  { destruct (b_adv y) as [|a q] eqn:E; [reflexivity|]. exfalso.
    assert (Hin : In (b_sig y, a) (adv_ids (finalize all))).
    { unfold adv_ids. apply in_flat_map. exists y. split; [exact Hy|]. unfold adv_ids_of. rewrite E. now left. }
    eapply Permutation_in in Hin; [|exact P2]. unfold adv_ids in Hin. apply in_flat_map in Hin as (z & Hz & Hin).
    rewrite Forall_forall in Hmix. destruct (Hmix z Hz) as (_ & Za & _). unfold adv_ids_of in Hin. now rewrite Za in Hin. }
  assert (Hxne : b_entries x <> []) by (rewrite <- Ey; destruct Hnon as [H|H]; [exact H|congruence]).
  assert (Hidx : forall e, In e (b_entries x) -> In (b_sig x, e) (ids (finalize all))).
  { intros e He. rewrite <- Sy. apply in_ids; [exact Hy|now rewrite Ey]. }
  split; [|rewrite <- Ey; exact Hso].
  assert (Hcx : category_ok x = true).
  { rewrite forallb_forall in Hcok. specialize (Hcok y Hy). unfold category_ok in *. now rewrite <- Ey, <- Ay. }
  destruct (b_entries x) as [|e0 es0] eqn:Ex; [congruence|]. rewrite <- Ex in *.
  assert (Hi0 : In (b_sig x, e0) (ids (finalize all))) by (apply Hidx; rewrite Ex; now left).
  destruct (Hhdr _ Hi0) as (Hok & Hstd & Hiat). cbn [fst snd] in Hok, Hstd, Hiat.
  destruct (Hkind x Hx) as [(Kx & Kix)|(Kx & Kix)].
  - (* standard *)
    left. destruct (Hstd Kix) as (Hna & _).
    assert (Hfit : fits A sp y).
    { unfold fits. rewrite <- (full_debit A T HA sp), <- (full_credit A T HA sp), (debits_sum T sp), (credits_sum T sp).
      assert (Kiy : kiat (b_sig y) = false) by now rewrite Sy.
      split.
      - rewrite <- (map_ext (fun e => db_p T TT sp ip kiat (b_sig y, e)) (db_e T sp)) by (intros e; unfold db_p; cbn [fst snd]; now rewrite Kiy).
        eapply Z.le_trans; [apply (pair_member_le (db_p T TT sp ip kiat) (finalize all) y Hdb Hy)|].
        rewrite (sum_pairs_perm _ _ _ P1), <- E2. lia.
      - rewrite <- (map_ext (fun e => cr_p T TT sp ip kiat (b_sig y, e)) (cr_e T sp)) by (intros e; unfold cr_p; cbn [fst snd]; now rewrite Kiy).
        eapply Z.le_trans; [apply (pair_member_le (cr_p T TT sp ip kiat) (finalize all) y Hcr Hy)|].
        rewrite (sum_pairs_perm _ _ _ P1), <- E3. lia. }
    split; [|exact Kix]. split; [exact Kx|]. split; [exact Hna|].
    assert (Hvx : Arith.validate_batch A (fb x) = Arith.ROk).
    { destruct Hfit as (F1 & F2). apply pairs_valid.
      - apply Forall_forall. intros p Hp. unfold ids_of in Hp. apply in_map_iff in Hp as (e & <- & He). apply Hpok; [now apply Hidx|exact Kix].
      - exact Hxne.
      - rewrite <- Ey. exact Hso.
      - rewrite <- Ey. exact F1.
      - rewrite <- Ey. exact F2. }
    destruct (create_std_spec A T HA hd sp x Hok Hxne) as (b' & Hc & He & Hctl & Hsk); [|exact Hvx|exact Hcx|].
    + unfold traces_prefixed. apply Forall_forall. intros e He. destruct (Hhdr _ (Hidx e He)) as (_ & H & _). now destruct (H Kix).
    + exists b'. split; [exact Hc|]. split; [exact Hctl|]. split; [exact He|]. split; [now rewrite Hsk|].
      now rewrite (is_category_std_ok x Hxne).
  - (* IAT *)
    right. destruct (Hiat Kix) as (Hnum & _).
    split; [exact Kx|]. split; [exact Kix|].
    apply (create_iat_spec TT hd ip x Hok Hnum Hxne); [|exact Hcx].
    apply Forall_forall. intros e He. destruct (Hhdr _ (Hidx e He)) as (_ & _ & H). cbn [fst snd] in H.
    destruct (H Kix) as (_ & H1 & H2 & _). now split.
Qed.

(* FlattenBatches on a valid file of standard and IAT batches under the category rule *)
Theorem flatten_succeeds_mixed inf inp r :
  mixed_file inp -> inp <> [] -> i_hdr_ok inf = true ->
  kinds_consistent inp -> Forall traces_nodup inp ->
  Forall (fun b => kiat (b_sig b) = false -> Arith.validate_batch A (fb b) = Arith.ROk) inp ->
  Forall mixed_pair (ids inp) ->
  i_count inf = sum_pairs (cnt_p ip kiat) inp ->
  i_debit inf = sum_pairs (db_p T TT sp ip kiat) inp -> i_credit inf = sum_pairs (cr_p T TT sp ip kiat) inp ->
  cat_rule inp ->
  i_debit inf <= Arith.t_file_limit A -> i_credit inf <= Arith.t_file_limit A ->
  Arith.t_file_limit A <= Arith.t_batch_limit A ->
  flatten_full_spec A T TT hd sp ip ap inf inp r ->
  (fst r = FOk \/ (fst r = FErrValidate /\ file_ctl_ok A (snd r) = false))
  /\ Offsets.fc_count (af_ctl (snd r)) = i_count inf
  /\ Offsets.fc_debit (af_ctl (snd r)) = i_debit inf
  /\ Offsets.fc_credit (af_ctl (snd r)) = i_credit inf
  /\ exists all, r = finish A T TT hd sp ip ap inf all /\ flatten_spec inp (finalize all)
       /\ (length (af_std (snd r)) + length (af_iat (snd r)) = length all)%nat
       /\ Forall (fun x => (created_s A T hd sp kiat x \/ created_i TT hd ip kiat x) /\ StronglySorted trace_lt (b_entries x)) (pre all).
Proof.
  intros Hmix Hne Hh Hk Hnd Hv Hmp E1 E2 E3 Hcat L1 L2 L3 (order & all & Hadm & Hall & ->).
  destruct (consolidated_created_mixed inf inp order all Hmix Hk Hnd Hv Hmp E2 E3 Hcat L1 L2 L3 Hadm Hall) as (Hcv & Pall).
  assert (Hcr : Forall (fun x => created_s A T hd sp kiat x \/ created_i TT hd ip kiat x) (pre all))
    by (eapply Forall_impl; [|exact Hcv]; intros x [H _]; exact H).
  unfold mixed_file in Hmix.
  assert (Hall_ne : all <> []).
  { intros ->. destruct inp as [|b0 inp']; [congruence|]. inversion Hmix as [|? ? (Hb0 & _) _]; subst.
    destruct (b_entries b0) as [|e0 q] eqn:E; [congruence|].
    assert (Hin : In (b_sig b0, e0) (ids (b0 :: inp'))) by (apply in_ids; [now left|rewrite E; now left]).
    eapply Permutation_in in Hin; [|apply Permutation_sym, Pall]. destruct Hin. }
  destruct (finish_mixed A T TT hd sp ip ap kiat inf all Hh Hall_ne Hcr) as (R1 & R2 & R3 & R4 & R5).
  - rewrite E1. symmetry. now apply sum_pairs_perm.
  - rewrite E2. symmetry. now apply sum_pairs_perm.
  - rewrite E3. symmetry. now apply sum_pairs_perm.
  - split; [exact R1|]. split; [exact R3|]. split; [exact R4|]. split; [exact R5|].
    exists all. split; [reflexivity|]. split; [exists order, all; split; [exact Hadm|split; [exact Hall|reflexivity]]|].
    split; [exact R2|exact Hcv].
Qed.

End MixedSucceeds.

(* ------------------------------------------------------------------ ADV batches *)

(* Create of a consolidated ADV batch (C05's adv_build, then isCategory over the ADV entries):
   succeeds exactly when the batch holds at most 9998 ADV entries — consolidation has no such
   limit, see C12_succeeds_adv_limit_refuted *)
Lemma create_adv_iff TT (hd : bytes -> hdrp) (ap : bytes -> apay) x :
  hd_ok (hd (b_sig x)) = true -> b_entries x = [] -> b_adv x <> [] -> category_ok x = true ->
  (create_adv TT hd ap x <> None <-> BuildIAT.zlen (b_adv x) <= 9998).
Proof.
  intros Hok He Ha Hc.
  assert (Hh : BuildADV.ab_hdr_ok (to_adv hd ap x) = true) by exact Hok.
  assert (Hne : BuildADV.ab_entries (to_adv hd ap x) <> []).
  { unfold to_adv. cbn [BuildADV.ab_entries]. intros E. apply map_eq_nil in E. congruence. }
  assert (Hlen : BuildIAT.zlen (BuildADV.ab_entries (to_adv hd ap x)) = BuildIAT.zlen (b_adv x)).
  { unfold to_adv, BuildIAT.zlen. cbn [BuildADV.ab_entries]. now rewrite map_length. }
  pose proof (BuildADVFacts.adv_build_limit TT (to_adv hd ap x) Hh eq_refl Hne) as Hl. rewrite Hlen in Hl.
  unfold create_adv. destruct (BuildADV.adv_build TT (to_adv hd ap x)) as [ok a'] eqn:E. cbn [fst] in Hl.
  rewrite (is_category_adv_ok x He Ha), Hc. destruct ok.
  - split; [intros _; now apply Hl|intros _; discriminate].
  - split; [intros H; congruence|intros H; apply Hl in H; discriminate].
Qed.

(* ------------------------------------------------------------------ ADV files *)

Lemma adv_member_le l b : In b l -> (length (b_adv b) <= length (adv_ids l))%nat.
Proof.
  induction l as [|x l IH]; intros Hb; [destruct Hb|]. unfold adv_ids. cbn [flat_map]. rewrite app_length.
  destruct Hb as [<-|Hb]; [unfold adv_ids_of; rewrite map_length; lia|]. specialize (IH Hb). unfold adv_ids in IH. lia.
Qed.

Section AdvFile.
Variables (A : Arith.tables) (T : Offsets.otable) (TT : BuildIAT.ttable).
Variables (hd : bytes -> hdrp) (sp : bytes -> stdp) (ip : bytes -> ipay) (ap : bytes -> apay).

Definition created_a (x : batch) : Prop :=
  b_kind x = Flatten.KStd /\ hd_adv (hd (b_sig x)) = true /\ exists a', create_adv TT hd ap x = Some a'.

Lemma add_all_adv l : Forall created_a l ->
  exists ss, add_all A T TT hd sp ip ap l = (ss, []) /\ length ss = length l /\ forallb sb_is_adv ss = true.
Proof.
  induction 1 as [|x l (Hk & Hadv & a' & Hc) _ IH].
  - exists []. cbn. repeat split; reflexivity.
  - destruct IH as (ss & Hss & Hlen & Hall). exists (SAdv (adv_hdr0 a') :: ss). cbn [add_all]. rewrite Hss, Hk, Hadv, Hc.
    split; [reflexivity|]. split; [cbn [length]; now rewrite Hlen|]. cbn [forallb sb_is_adv andb]. exact Hall.
Qed.

(* an ADV file: File.Create takes the createFileADV branch; Flatten's three comparisons read
   File.Control, which an ADV file leaves zero on both sides *)
Theorem finish_adv inf all :
  i_hdr_ok inf = true -> all <> [] -> Forall created_a (pre all) ->
  i_count inf = 0 -> i_debit inf = 0 -> i_credit inf = 0 ->
  let r := finish A T TT hd sp ip ap inf all in
  (fst r = FOk \/ (fst r = FErrValidate /\ file_ctl_ok A (snd r) = false))
  /\ length (af_std (snd r)) = length all /\ af_iat (snd r) = [] /\ forallb sb_is_adv (af_std (snd r)) = true.
Proof.
  intros Hh Hne Hc E1 E2 E3. cbv zeta. unfold finish. fold (pre all).
  destruct (add_all_adv (pre all) Hc) as (ss & Hss & Hlen & Hadv). rewrite Hss.
  assert (Hlen' : length ss = length all).
  { rewrite Hlen. unfold pre. rewrite map_length. apply Permutation_length, sort_by_perm. }
  destruct ss as [|s0 ss']; [destruct all; [congruence|discriminate]|].
  assert (Hex : existsb sb_is_adv (s0 :: ss') = true).
  { cbn [forallb] in Hadv. apply andb_prop in Hadv as [H0 _]. cbn [existsb]. now rewrite H0. }
  unfold file_create_all.
  cbn [af_opts fo_skip_all fo_allow_missing_hdr fo_allow_zero af_hdr_ok af_std af_iat negb andb].
  rewrite Hh. cbn [negb andb]. unfold file_is_adv. cbn [af_std]. rewrite Hex. cbn [negb]. rewrite andb_false_r.
  rewrite (adv_file_loop_all (s0 :: ss') 1 Hadv). unfold af_with.
  cbn [af_std af_iat af_ctl af_actl zero_fctl Offsets.fc_count Offsets.fc_debit Offsets.fc_credit].
  rewrite E1, E2, E3. cbn [Z.eqb negb].
  match goal with |- context [file_ctl_ok A ?f] => destruct (file_ctl_ok A f) eqn:Ev end; cbn [negb fst snd af_std af_iat].
  all: (split; [first [now left | right; split; [reflexivity|exact Ev]]|]).
  all: rewrite renumber_s_length; split; [exact Hlen'|split; [reflexivity|]].
  all: clear -Hadv; revert Hadv; generalize (s0 :: ss'); generalize 1.
  all: intros q l; revert q; induction l as [|s l IH]; intros q H; cbn [renumber_s forallb]; [reflexivity|].
  all: cbn [forallb] in H; apply andb_prop in H as [H0 H1]; rewrite (IH _ H1), andb_true_r.
  all: destruct (sb_num s <=? 1); [destruct s; cbn [sset_num sb_is_adv] in *; assumption|assumption].
Qed.

(* FlattenBatches on a valid ADV file under the category rule, holding at most 9998 ADV entries *)
Theorem flatten_succeeds_adv inf inp r :
  Forall (fun b => b_kind b = Flatten.KStd /\ b_entries b = [] /\ b_adv b <> []) inp -> inp <> [] ->
  i_hdr_ok inf = true -> i_count inf = 0 -> i_debit inf = 0 -> i_credit inf = 0 ->
  Forall (fun p => hd_adv (hd (fst p)) = true /\ hd_ok (hd (fst p)) = true) (adv_ids inp) ->
  cat_rule inp -> BuildIAT.zlen (adv_ids inp) <= 9998 ->
  flatten_full_spec A T TT hd sp ip ap inf inp r ->
  (fst r = FOk \/ (fst r = FErrValidate /\ file_ctl_ok A (snd r) = false))
  /\ af_iat (snd r) = [] /\ forallb sb_is_adv (af_std (snd r)) = true
  /\ exists all, r = finish A T TT hd sp ip ap inf all /\ flatten_spec inp (finalize all)
       /\ length (af_std (snd r)) = length all /\ Forall created_a (pre all).
Proof.
  intros Hadv Hne Hh E1 E2 E3 Hp Hcat Hsz (order & all & Hadm & Hall & ->).
  assert (Hs : flatten_spec inp (finalize all)) by (exists order, all; split; [exact Hadm|split; [exact Hall|reflexivity]]).
  destruct Hadm as (Hperm & Hsorted).
  assert (Hk : kinds_consistent inp).
  { intros a b Ha Hb _. rewrite Forall_forall in Hadv. destruct (Hadv a Ha) as (-> & _). now destruct (Hadv b Hb) as (-> & _). }
  assert (Hne' : Forall nonempty inp) by (eapply Forall_impl; [|exact Hadv]; intros x (_ & _ & H); now right).
  assert (Hnd : Forall traces_nodup inp).
  { eapply Forall_impl; [|exact Hadv]. intros x (_ & H & _). unfold traces_nodup, traces. rewrite H. constructor. }
  destruct (flatten_conservation inp _ Hk Hs) as (P1 & P2).
  destruct (flatten_wellformed inp _ Hnd Hne' Hs) as (Hw & _).
  pose proof (flatten_category inp _ Hk (cat_rule_uniform inp Hcat) Hs) as Hck.
  assert (Hcok : forallb category_ok (finalize all) = true).
  { unfold checked in Hck. destruct (forallb category_ok (finalize all)); [reflexivity|discriminate]. }
  assert (Hids : ids inp = []).
  { clear -Hadv. induction Hadv as [|x l (_ & Hx & _) _ IH]; unfold ids in *; cbn [flat_map]; [reflexivity|].
    rewrite IH. unfold ids_of. now rewrite Hx. }
  assert (Hp' : Forall (fun p => hd_adv (hd (fst p)) = true /\ hd_ok (hd (fst p)) = true) (adv_ids (finalize all)))
    by (eapply Permutation_Forall; [apply Permutation_sym, P2|exact Hp]).
  assert (Hkind : Forall (fun b => b_kind b = Flatten.KStd) (pre all)).
  { assert (Ho : Forall (fun b => b_kind b = Flatten.KStd) order).
    { apply Forall_forall. intros b Hb. eapply Permutation_in in Hb; [|exact Hperm].
      rewrite Forall_forall in Hadv. now destruct (Hadv b Hb). }
    pose proof (run_P (fun b => b_kind b = Flatten.KStd) (fun m b Hm _ _ => eq_trans (consume_kind m b) Hm) order Ho) as Hr.
    rewrite Forall_forall in Hr.
    apply Forall_forall. intros x Hx. unfold pre in Hx. apply in_map_iff in Hx as (y & <- & Hy). cbn [sort_entries b_kind].
    apply Hr. eapply Permutation_in; [exact Hall|]. eapply Permutation_in; [apply sort_by_perm|exact Hy]. }
  assert (Hcr : Forall created_a (pre all)).
  { apply Forall_forall. intros x Hx. destruct (pre_in_out all x Hx) as (y & Hy & Ky & Sy & Ey & Ay).
    rewrite Forall_forall in Hw, Hp', Hkind. destruct (Hw y Hy) as (_ & Hnon).
    assert (Hye : b_entries y = []).
    { destruct (b_entries y) as [|e q] eqn:E; [reflexivity|]. exfalso.
      assert (Hin : In (b_sig y, e) (ids (finalize all))) by (apply in_ids; [exact Hy|rewrite E; now left]).
      eapply Permutation_in in Hin; [|exact P1]. now rewrite Hids in Hin. }
    assert (Hya : b_adv y <> []) by (destruct Hnon as [H|H]; [congruence|exact H]).
    destruct (b_adv y) as [|a0 q0] eqn:Ea; [congruence|]. rewrite <- Ea in *.
    assert (Hin : In (b_sig y, a0) (adv_ids (finalize all))) by (apply in_adv_ids; [exact Hy|rewrite Ea; now left]).
    destruct (Hp' _ Hin) as (Had & Hok). cbn [fst] in Had, Hok.
    split; [now apply Hkind|]. split; [now rewrite <- Sy|].
    assert (Hc : category_ok x = true).
    { rewrite forallb_forall in Hcok. specialize (Hcok y Hy). unfold category_ok in *. now rewrite <- Ey, <- Ay. }
    assert (Hlen : BuildIAT.zlen (b_adv x) <= 9998).
    { rewrite <- Ay. unfold BuildIAT.zlen. pose proof (adv_member_le _ y Hy) as Hm.
      rewrite (Permutation_length P2) in Hm. unfold BuildIAT.zlen in Hsz. lia. }
    assert (Hsome : create_adv TT hd ap x <> None).
    { apply create_adv_iff; try assumption; [now rewrite <- Sy|now rewrite <- Ey|now rewrite <- Ay]. }
    destruct (create_adv TT hd ap x) as [a'|]; [now exists a'|congruence]. }
  assert (Hall_ne : all <> []).
  { intros ->. destruct inp as [|b0 inp']; [congruence|]. inversion Hadv as [|? ? (_ & _ & Hb0) _]; subst.
    destruct (b_adv b0) as [|a0 q] eqn:E; [congruence|].
    assert (Hin : In (b_sig b0, a0) (adv_ids (b0 :: inp'))) by (apply in_adv_ids; [now left|rewrite E; now left]).
    assert (Pa : Permutation (adv_ids []) (adv_ids (b0 :: inp'))).
    { destruct (run_ids order (kinds_consistent_perm _ _ (Permutation_sym Hperm) Hk)) as (_ & R2).
      rewrite (adv_ids_perm _ _ Hall), R2. now apply adv_ids_perm. }
    eapply Permutation_in in Hin; [|apply Permutation_sym, Pa]. destruct Hin. }
  destruct (finish_adv inf all Hh Hall_ne Hcr E1 E2 E3) as (R1 & R2 & R3 & R4).
  split; [exact R1|]. split; [exact R3|]. split; [exact R4|].
  exists all. split; [reflexivity|]. split; [exact Hs|]. split; [exact R2|exact Hcr].
Qed.

End AdvFile.

(* ------------------------------------------------------------------ FileControl.Validate of the new control *)

Lemma validate_fctl_batches A nb c h d cr : nb <> 0 ->
  Arith.validate_fctl A (Arith.mkfctl nb c h d cr) = Arith.validate_fctl A (Arith.mkfctl 1 c h d cr).
Proof.
  intros H. unfold Arith.validate_fctl. cbn [Arith.fc_batches Arith.fc_count Arith.fc_hash Arith.fc_debit Arith.fc_credit].
  apply Z.eqb_neq in H. rewrite H. reflexivity.
Qed.

Section Hash.
Variables (A : Arith.tables) (T : Offsets.otable) (TT : BuildIAT.ttable).
Hypothesis HA : agree A T.
Variables (hd : bytes -> hdrp) (sp : bytes -> stdp) (ip : bytes -> ipay) (ap : bytes -> apay).

Local Notation toe := (to_off_entry sp).
Local Notation fb := (f_batch A (hp_of hd) (fp_of sp)).

(* Atoi(aba8(RDFIIdentification)): the entry's term of the entry hash *)
Definition rd_e (e : entry) : Z := atoi (Arith.aba8 (sp_rdfi (sp (e_core e)))).

Lemma rdfi_sum es : Offsets.sumf Offsets.e_rdfi (map toe es) = sumZ (map rd_e es).
Proof.
  induction es as [|e es IH]; cbn [map Offsets.sumf sumZ fold_right]; [reflexivity|].
  unfold sumZ in IH. rewrite IH. reflexivity.
Qed.

Definition batch_rd (x : batch) : Z := sumZ (map rd_e (b_entries x)).

Lemma batch_rd_sum l : zsum batch_rd l = sum_ids rd_e l.
Proof. induction l as [|x l IH]; [reflexivity|]. rewrite sum_ids_cons. cbn [zsum]. now rewrite IH. Qed.

Lemma add_all_created_hash l : Forall (created A T hd sp) l ->
  exists ss, add_all A T TT hd sp ip ap l = (ss, [])
    /\ existsb sb_is_adv ss = false
    /\ zsum (fun s => Offsets.c_hash (sb_ctl s)) ss = zsum (fun x => Z.rem (batch_rd x) Offsets.P10) l.
Proof.
  induction 1 as [|x l (Hk & Hadv & b' & Hc & (_ & K2 & _) & He & _) _ IH].
  - exists []. cbn. repeat split; reflexivity.
  - destruct IH as (ss & Hss & Hna & S1). exists (SStd (std_hdr0 b') :: ss). cbn [add_all]. rewrite Hss, Hk, Hadv, Hc.
    split; [reflexivity|]. split; [cbn [existsb sb_is_adv orb]; exact Hna|].
    cbn [zsum sb_ctl std_hdr0 Offsets.b_ctl]. rewrite S1, K2, He. unfold Offsets.hash, batch_rd. now rewrite rdfi_sum.
Qed.

(* the new file control of a file of created standard batches: not an ADV file; batch count; the
   entry hash is the sum of all routing numbers of the input cut to ten digits *)
Lemma finish_created_hash inf all :
  i_hdr_ok inf = true -> all <> [] -> Forall (created A T hd sp) (pre all) ->
  BuildIAT.hash10 (BuildIAT.tt_create TT) = true ->
  (forall p, In p (ids all) -> 0 <= rd_e (snd p)) ->
  let f := snd (finish A T TT hd sp ip ap inf all) in
  file_is_adv f = false /\ Offsets.fc_batches (af_ctl f) = BuildIAT.zlen all
  /\ Offsets.fc_hash (af_ctl f) = (sum_ids rd_e all) mod Offsets.P10.
Proof.
  intros Hh Hne Hc H10 Hpos. cbv zeta. unfold finish. fold (pre all).
  destruct (add_all_created A T TT hd sp ip ap (pre all) Hc) as (ss0 & Hss0 & Hlen & _).
  destruct (add_all_created_hash (pre all) Hc) as (ss & Hss & Hna & S1).
  rewrite Hss in Hss0. injection Hss0 as <-. rewrite Hss.
  assert (Hlen' : length ss = length all).
  { rewrite Hlen. unfold pre. rewrite map_length. apply Permutation_length, sort_by_perm. }
  set (f0 := mkaf (i_hdr_ok inf) (mkfo false false false) ss [] zero_fctl zero_fctl).
  assert (Hf : file_create_all TT f0 = (true, created_std TT f0)).
  { unfold file_create_all, created_std, f0. cbn [af_opts fo_skip_all fo_allow_missing_hdr fo_allow_zero af_hdr_ok af_std af_iat negb andb].
    rewrite Hh. cbn [negb andb]. destruct ss as [|s0 ss']; [destruct all; [congruence|discriminate]|]. cbn [andb].
    unfold file_is_adv. cbn [af_std]. rewrite Hna. cbn [negb]. now rewrite file_control_renumber. }
  rewrite Hf.
  assert (Hsnd : forall c (g : afile), snd (if negb (file_ctl_ok A g) then (FErrValidate, g)
      else if negb (i_count inf =? Offsets.fc_count (af_ctl g)) then (FErrCount, g)
      else if negb (i_debit inf =? Offsets.fc_debit (af_ctl g)) then (FErrDebit, g)
      else if negb (i_credit inf =? Offsets.fc_credit (af_ctl g)) then (c, g) else (FOk, g)) = g).
  { intros c g. destruct (negb (file_ctl_ok A g)); [reflexivity|].
    destruct (negb (i_count inf =? _)); [reflexivity|]. destruct (negb (i_debit inf =? _)); [reflexivity|].
    destruct (negb (i_credit inf =? _)); reflexivity. }
  rewrite Hsnd. unfold created_std, f0, af_with, file_is_adv.
  cbn [af_std af_iat af_ctl file_control_all Offsets.fc_batches Offsets.fc_hash renumber_i zsum].
  rewrite is_adv_renumber, (hash10_spec _ H10), cut10, !Z.add_0_r, S1.
  split; [exact Hna|]. split; [unfold BuildIAT.zlen; now rewrite Hlen'|].
  assert (Hb : forall x, In x (pre all) -> 0 <= batch_rd x).
  { intros x Hx. unfold batch_rd. apply sumZ_nonneg, Forall_forall. intros z Hz. apply in_map_iff in Hz as (e & <- & He).
    apply (Hpos (b_sig x, e)). eapply Permutation_in; [apply pre_ids|]. now apply in_ids. }
  rewrite rem_mod_nonneg by (apply zsum_rem_nonneg; exact Hb).
  rewrite (mod_zsum_rem batch_rd (pre all) Hb), batch_rd_sum.
  now rewrite (sum_ids_perm _ _ _ (pre_ids all)).
Qed.

(* C12_succeeds with the last error return closed: if the ORIGINAL file control (count, debit and
   credit totals, entry hash = the routing numbers cut to ten digits) passes FileControl.Validate,
   so does the new one — FlattenBatches returns no error *)
Theorem flatten_succeeds_ok inf inp r :
  std_file inp -> inp <> [] -> i_hdr_ok inf = true ->
  kinds_consistent inp -> Forall traces_nodup inp ->
  Forall (fun b => Arith.validate_batch A (fb b) = Arith.ROk) inp ->
  Forall (hdr_pair hd) (ids inp) ->
  i_count inf = sum_ids cnt_e inp -> i_debit inf = sum_ids (db_e T sp) inp -> i_credit inf = sum_ids (cr_e T sp) inp ->
  cat_rule inp ->
  Arith.t_file_limit A <= Arith.t_batch_limit A ->
  BuildIAT.hash10 (BuildIAT.tt_create TT) = true ->
  (forall p, In p (ids inp) -> 0 <= rd_e (snd p)) ->
  Arith.validate_fctl A (Arith.mkfctl 1 (i_count inf) ((sum_ids rd_e inp) mod Offsets.P10) (i_debit inf) (i_credit inf)) = Arith.ROk ->
  flatten_full_spec A T TT hd sp ip ap inf inp r ->
  fst r = FOk.
Proof.
  intros Hstd Hne Hh Hk Hnd Hv Hhp E1 E2 E3 Hcat L3 H10 Hpos Hctl Hspec.
  assert (L12 : i_debit inf <= Arith.t_file_limit A /\ i_credit inf <= Arith.t_file_limit A).
  { pose proof Hctl as Hc0. unfold Arith.validate_fctl in Hc0.
    cbn [Arith.fc_batches Arith.fc_count Arith.fc_hash Arith.fc_debit Arith.fc_credit] in Hc0.
    apply ArithFacts.andr_ok in Hc0 as [_ Hc0]. apply ArithFacts.andr_ok in Hc0 as [Hdb0 Hcr0].
    apply ArithFacts.chk_true in Hcr0; [|discriminate]. apply ArithFacts.chk_true in Hdb0; [|discriminate].
    split; now apply Z.leb_le. }
  destruct L12 as (L1 & L2).
  pose proof (flatten_succeeds A T TT HA hd sp ip ap inf inp r Hstd Hne Hh Hk Hnd Hv Hhp E1 E2 E3 Hcat L1 L2 L3 Hspec) as (R1 & _ & R3 & R4 & R5).
  destruct R1 as [R1|(R1 & Rv)]; [exact R1|exfalso].
  destruct Hspec as (order & all & Hadm & Hall & ->).
  destruct (consolidated_created A T HA hd sp inf inp order all Hstd Hk Hnd Hv Hhp E2 E3 Hcat L1 L2 L3 Hadm Hall) as (Hcv & Pall).
  assert (Hcr : Forall (created A T hd sp) (pre all)) by (eapply Forall_impl; [|exact Hcv]; intros x [H _]; exact H).
  assert (Hall_ne : all <> []).
  { intros ->. unfold std_file in Hstd. destruct inp as [|b0 inp']; [congruence|]. inversion Hstd as [|? ? (_ & Hb0 & _) _]; subst.
    destruct (b_entries b0) as [|e0 q] eqn:E; [congruence|].
    assert (Hin : In (b_sig b0, e0) (ids (b0 :: inp'))) by (apply in_ids; [now left|rewrite E; now left]).
    eapply Permutation_in in Hin; [|apply Permutation_sym, Pall]. destruct Hin. }
  assert (Hpos' : forall p, In p (ids all) -> 0 <= rd_e (snd p)) by (intros p Hp; apply Hpos; eapply Permutation_in; [exact Pall|exact Hp]).
  destruct (finish_created_hash inf all Hh Hall_ne Hcr H10 Hpos') as (Q1 & Q2 & Q3).
  unfold file_ctl_ok in Rv. rewrite Q1 in Rv. unfold a_fctl in Rv. rewrite Q2, Q3, R3, R4, R5 in Rv.
  rewrite validate_fctl_batches in Rv.
  - rewrite (sum_ids_perm _ _ _ Pall), Hctl in Rv. discriminate.
  - unfold BuildIAT.zlen. destruct all; [congruence|cbn [length]; lia].
Qed.

End Hash.

(* C12, phase 6 — facts about the whole-function model FlattenFull.v:
   * the literal isCategory of the three batch kinds is the check [category_ok] of Flatten.v
     on the batches Flatten hands to Create; the file-level category rule implies [cat_uniform];
   * Create of a consolidated standard batch, as modelled by C05's Offsets.build, IS the abstract
     [tabulate] that C12Valid uses: same Arith skeleton, so Arith validity transfers;
   * AddToFile over batches whose Create succeeds loses nothing; the outcome of [finish]. *)
From Coq Require Import Lia Permutation Sorted.
From ACH Require Import ValidOut ValidOutFacts.
From ACH Require Import OffsetsFacts FileCreateAll ValidOffsets ValidOffsetsFacts.
From ACH Require Import Bytes Fields Flatten FlattenFacts ValidFlatten ValidFlattenFacts FlattenFull.
Open Scope Z_scope.

(* ------------------------------------------------------------------ categories *)

Lemma is_category_std_ok b : b_entries b <> [] -> is_category_std false b = category_ok b.
Proof.
  intros H. unfold is_category_std, category_ok. cbn [negb].
  destruct (b_entries b) as [|e0 [|e1 r]]; [congruence|reflexivity|reflexivity].
Qed.

Lemma is_category_adv_ok b : b_entries b = [] -> b_adv b <> [] -> is_category_std true b = category_ok b.
Proof.
  intros H Ha. unfold is_category_std, category_ok. cbn [negb]. rewrite H.
  destruct (b_adv b) as [|a0 [|a1 r]]; [congruence| |reflexivity].
  cbn [is_nil forallb]. now rewrite N.eqb_refl.
Qed.

Lemma is_category_iat_ok b : b_entries b <> [] -> is_category_iat b = category_ok b.
Proof.
  intros H. unfold is_category_iat, category_ok.
  destruct (b_entries b) as [|e0 [|e1 r]]; [congruence|reflexivity|].
  cbn [forallb]. rewrite (N.eqb_refl (e_cat e0)), orb_true_r. reflexivity.
Qed.

Lemma head_cat_entries b e : cat_pure b -> In e (b_entries b) -> e_cat e = head_cat b.
Proof.
  intros [P _] He. unfold head_cat. destruct (b_entries b) as [|e0 r] eqn:E; [destruct He|].
  apply P; [exact He|now left].
Qed.

Lemma head_cat_adv b a : cat_pure b -> b_entries b = [] -> In a (b_adv b) -> e_cat a = head_cat b.
Proof.
  intros [_ P] Hn Ha. unfold head_cat. rewrite Hn. destruct (b_adv b) as [|a0 r] eqn:E; [destruct Ha|].
  apply P; [exact Ha|now left].
Qed.

(* the category rule (one category per batch, one category per header signature) is the
   hypothesis [cat_uniform] of C12_succeeds_partial *)
Lemma cat_rule_uniform inp : cat_rule inp -> cat_uniform inp.
Proof.
  intros (Hp & Hs & Hx). rewrite Forall_forall in Hp, Hx. split.
  - intros [s e] [s' e'] Hi Hi' Heq. cbn [fst snd] in *.
    unfold ids in Hi, Hi'. apply in_flat_map in Hi as (a & Ha & Hi). apply in_flat_map in Hi' as (b & Hb & Hi').
    unfold ids_of in Hi, Hi'. apply in_map_iff in Hi as (x & Ex & Hx1). apply in_map_iff in Hi' as (y & Ey & Hy1).
    injection Ex as <- <-. injection Ey as <- <-.
    rewrite (head_cat_entries a x (Hp a Ha) Hx1), (head_cat_entries b y (Hp b Hb) Hy1). now apply Hs.
  - intros [s e] [s' e'] Hi Hi' Heq. cbn [fst snd] in *.
    unfold adv_ids in Hi, Hi'. apply in_flat_map in Hi as (a & Ha & Hi). apply in_flat_map in Hi' as (b & Hb & Hi').
    unfold adv_ids_of in Hi, Hi'. apply in_map_iff in Hi as (x & Ex & Hx1). apply in_map_iff in Hi' as (y & Ey & Hy1).
    injection Ex as <- <-. injection Ey as <- <-.
    assert (Ea : b_entries a = []) by (destruct (Hx a Ha) as [H|H]; [exact H|rewrite H in Hx1; destruct Hx1]).
    assert (Eb : b_entries b = []) by (destruct (Hx b Hb) as [H|H]; [exact H|rewrite H in Hy1; destruct Hy1]).
    rewrite (head_cat_adv a x (Hp a Ha) Ea Hx1), (head_cat_adv b y (Hp b Hb) Eb Hy1). now apply Hs.
Qed.

(* Batch.Category() of a batch that holds entries of one category and no ADV entries *)
Lemma batch_category_pure b : cat_pure b -> b_entries b <> [] -> b_adv b = [] ->
  batch_category b = if is_ret_noc (head_cat b) then head_cat b else cat_forward.
Proof.
  intros Hp Hne Ha. unfold batch_category. rewrite Ha. cbn [find].
  destruct (find (fun e => is_ret_noc (e_cat e)) (b_entries b)) as [e|] eqn:F.
  - apply find_some in F as [He Hr]. rewrite (head_cat_entries b e Hp He) in *. now rewrite Hr.
  - destruct (b_entries b) as [|e0 r] eqn:E; [congruence|].
    assert (H0 := find_none _ _ F e0 ltac:(now left)). cbn beta in H0.
    assert (Hh : head_cat b = e_cat e0) by (unfold head_cat; now rewrite E). now rewrite Hh, H0.
Qed.

(* ------------------------------------------------------------------ Create of a standard batch *)

Definition hp_of (hd : bytes -> hdrp) (s : bytes) : hpay := mkhpay (hd_class (hd s)) (hd_odfi (hd s)).
Definition fp_of (sp : bytes -> stdp) (c : bytes) : fpay := mkfpay (sp_code (sp c)) (sp_rdfi (sp c)) (sp_check (sp c)).

Section Std.
Variables (A : Arith.tables) (T : Offsets.otable).
Hypothesis HA : agree A T.
Variables (hd : bytes -> hdrp) (sp : bytes -> stdp).

Local Notation toe := (to_off_entry sp).
Local Notation fe := (f_entry (fp_of sp)).

Lemma sk_entries_same es : sk_entries sp es (map toe es) = map fe es.
Proof.
  induction es as [|e es IH]; cbn [sk_entries map]; [reflexivity|]. rewrite IH. f_equal.
  unfold sk_entry, to_off_entry, f_entry, fp_of.
  cbn [Offsets.e_trace Offsets.e_code Offsets.e_amount Offsets.e_addenda fp_code fp_rdfi fp_check].
  now rewrite Z.eqb_refl.
Qed.

Lemma full_count es : Offsets.count (map toe es) = Arith.calc_count (map fe es).
Proof.
  unfold Offsets.count. induction es as [|e es IH]; cbn [map Arith.calc_count Offsets.sumf]; [reflexivity|].
  rewrite IH. unfold to_off_entry, f_entry. cbn [Offsets.e_addenda Arith.en_addenda]. lia.
Qed.

Lemma full_hash es : Offsets.hash (map toe es) = Arith.calc_hash A (map fe es).
Proof.
  unfold Arith.calc_hash, Arith.least_sig, Offsets.hash. rewrite (ag_hash A T HA).
  replace (Arith.hash_sum (map fe es)) with (Offsets.sumf Offsets.e_rdfi (map toe es)); [reflexivity|].
  induction es as [|e es IH]; cbn [map Arith.hash_sum Offsets.sumf]; [reflexivity|]. now rewrite IH.
Qed.

Lemma full_credit es : Offsets.credits T (map toe es) = Arith.calc_credit A Arith.KStd (map fe es).
Proof.
  unfold Arith.calc_credit, Offsets.credits. induction es as [|e es IH]; cbn [map Arith.sum_where Offsets.sumf]; [reflexivity|].
  rewrite IH. f_equal. unfold f_entry at 1 2. cbn [Arith.en_code Arith.en_amount]. rewrite (ag_credit A T HA). reflexivity.
Qed.

Lemma full_debit es : Offsets.debits T (map toe es) = Arith.calc_debit A Arith.KStd (map fe es).
Proof.
  unfold Arith.calc_debit, Offsets.debits. induction es as [|e es IH]; cbn [map Arith.sum_where Offsets.sumf]; [reflexivity|].
  rewrite IH. f_equal. unfold f_entry at 1 2. cbn [Arith.en_code Arith.en_amount]. rewrite (ag_debit A T HA).
  unfold Offsets.db_amt, to_off_entry, fp_of. cbn [Offsets.e_code Offsets.e_amount fp_code].
  destruct (Offsets.mem (sp_code (sp (e_core e))) (Offsets.t_credit T)); cbn [negb andb]; [reflexivity|].
  destruct (Offsets.mem (sp_code (sp (e_core e))) (Offsets.t_debit T)); reflexivity.
Qed.

(* every trace number carries the header's ODFI (integer form: what Batch.build tests) *)
Definition traces_prefixed (b : batch) : Prop :=
  Forall (fun e => Offsets.trace_odfi (tnum (e_trace e)) = hd_odfi_z (hd (b_sig b))) (b_entries b).

Lemma prefixed_has_prefix b : traces_prefixed b ->
  forallb (has_prefix (hd_odfi_z (hd (b_sig b)))) (map toe (b_entries b)) = true.
Proof.
  unfold traces_prefixed. intros H. apply forallb_forall. intros x Hx. apply in_map_iff in Hx as (e & <- & He).
  rewrite Forall_forall in H. unfold has_prefix, to_off_entry. cbn [Offsets.e_trace]. apply Z.eqb_eq. now apply H.
Qed.

(* Batch.build (C05's model) on the consolidated batch: succeeds, keeps every trace number,
   and leaves exactly the Arith skeleton [f_batch] = the abstract Create of C12Valid *)
Lemma build_consolidated b :
  hd_ok (hd (b_sig b)) = true -> b_entries b <> [] -> traces_prefixed b ->
  exists b', Offsets.build T (to_off hd sp b) = Offsets.Ret true b'
    /\ Offsets.b_entries b' = map toe (b_entries b)
    /\ ctl_ok T b'
    /\ off_skeleton hd sp b b' = f_batch A (hp_of hd) (fp_of sp) b.
Proof.
  intros Hok Hne Hpre.
  assert (Hne' : Offsets.b_entries (to_off hd sp b) <> []).
  { unfold to_off. cbn [Offsets.b_entries]. intros E. apply map_eq_nil in E. congruence. }
  pose proof (build_no_offset T (to_off hd sp b) Hok Hne' eq_refl) as Hb.
  cbn [to_off Offsets.b_odfi Offsets.b_entries] in Hb. unfold to_off in Hb. cbn [Offsets.b_odfi Offsets.b_entries] in Hb.
  rewrite (retrace_fix _ _ (prefixed_has_prefix b Hpre) 1) in Hb.
  eexists. split; [exact Hb|]. split; [reflexivity|]. split.
  - unfold ctl_ok, with_es_ctl, ctl_of. cbn. repeat split; reflexivity.
  - unfold off_skeleton, with_es_ctl, ctl_of, f_batch, VO.tabulate, VO.tab_ctl, hp_of.
    cbn [Offsets.b_ctl Offsets.b_svc Offsets.b_num Offsets.b_entries Offsets.c_svc Offsets.c_count Offsets.c_hash
         Offsets.c_debit Offsets.c_credit Offsets.c_num hp_class hp_odfi].
    rewrite sk_entries_same, full_count, full_hash, full_credit, full_debit. reflexivity.
Qed.

(* ... hence Create (build + Validate incl. isCategory) succeeds exactly when the abstract batch
   validates and the category check passes *)
Lemma create_std_spec b :
  hd_ok (hd (b_sig b)) = true -> b_entries b <> [] -> traces_prefixed b ->
  Arith.validate_batch A (f_batch A (hp_of hd) (fp_of sp) b) = Arith.ROk -> category_ok b = true ->
  exists b', create_std A T hd sp b = Some b' /\ Offsets.b_entries b' = map toe (b_entries b) /\ ctl_ok T b'
             /\ off_skeleton hd sp b b' = f_batch A (hp_of hd) (fp_of sp) b.
Proof.
  intros Hok Hne Hpre Hv Hc. destruct (build_consolidated b Hok Hne Hpre) as (b' & Hb & He & Hctl & Hsk).
  exists b'. split; [|split; [exact He|split; [exact Hctl|exact Hsk]]].
  unfold create_std. rewrite Hb, Hsk, Hv, (is_category_std_ok b Hne), Hc. reflexivity.
Qed.

Lemma create_std_fails_category b :
  b_entries b <> [] -> category_ok b = false -> create_std A T hd sp b = None.
Proof.
  intros Hne Hc. unfold create_std. destruct (Offsets.build T (to_off hd sp b)) as [[|] b'| |]; try reflexivity.
  rewrite (is_category_std_ok b Hne), Hc, andb_false_r. reflexivity.
Qed.

End Std.

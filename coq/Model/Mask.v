(* Byte-exact model of cmd/achcli/describe: maskNumber, maskName.
   Definitions only (so the model still runs when a proof breaks). *)
From ACH Require Export Utf8.
Open Scope N_scope.

(* unicode.IsSpace, as used by strings.Fields *)
Definition is_space_rune (r : N) : bool :=
  ((9 <=? r) && (r <=? 13)) || (r =? 32) || (r =? 133) || (r =? 160) || (r =? 5760)
  || ((8192 <=? r) && (r <=? 8202)) || (r =? 8232) || (r =? 8233) || (r =? 8239)
  || (r =? 8287) || (r =? 12288).

(* strings.Fields: maximal runs of non-space runes, as byte strings *)
Fixpoint fields_aux (cs : list (N * bytes)) (cur : bytes) : list bytes :=
  match cs with
  | [] => match cur with [] => [] | _ => [cur] end
  | (r, bs) :: rest =>
      if is_space_rune r
      then match cur with [] => fields_aux rest [] | _ => cur :: fields_aux rest [] end
      else fields_aux rest (cur ++ bs)
  end.
Definition fields (s : bytes) : list bytes := fields_aux (chunks s) [].

(* the loop of maskNumber, positions length-1 down to 2; [bs] holds the bytes at
   those positions right to left, [acc] is out[i+1 ..], [unm] is unmaskedDigits *)
Fixpoint mask_tail (bs : bytes) (acc : bytes) (unm : nat) : bytes :=
  match bs with
  | [] => acc
  | b :: rest =>
      if b =? sp then
        let c := match acc with
                 | x :: _ => if x =? star then star else sp
                 | [] => sp
                 end in
        mask_tail rest (c :: acc) unm
      else if (unm <? 4)%nat then mask_tail rest (b :: acc) (S unm)
      else mask_tail rest (star :: acc) unm
  end.

Definition maskNumber (s : bytes) : bytes :=
  let n := rune_count s in
  if (n <? 5)%nat then repeat star 5
  else star :: star :: mask_tail (rev (firstn (n - 2) (skipn 2 s))) [] 0.

Definition mask_word (w : bytes) : bytes :=
  let n := rune_count w in
  if (3 <? n)%nat then firstn 2 w ++ repeat star (n - 2) else repeat star n.

Definition maskName (s : bytes) : bytes := join [sp] (map mask_word (fields s)).

(* a byte that carries information: neither blank nor asterisk *)
Definition sig (b : N) : bool := negb (b =? sp) && negb (b =? star).
Definition count_sig (l : bytes) : nat := length (filter sig l).

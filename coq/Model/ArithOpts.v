(* Phase 5 (C09 / C13): the validator model of C03 (Arith.v) UNDER ValidateOpts, for
   standard batches and the files that hold them.  Executable definitions only
   (proofs: ArithOptsFacts.v).

   Written from the Go code, guard by guard (`opts == nil || !opts.F`, `opts != nil &&
   opts.F`); an option value is MergeOpts.vopts (None = the nil pointer, flags in the
   declaration order of the struct; the positions used here are pinned against the
   struct of the run by ArithOptsTable.positions_ok, Oblig/C09OptsObl.v):

   record level, the *EntryDetail's own options ([vb_eopts], parallel to the entries):
     EntryDetail.Validate        CheckTransactionCode f   replaces the standard-code test by f
                                 AllowInvalidCheckDigit   skips the check-digit test
     ValidTranCodeForServiceClassCode   an entry with a CheckTransactionCode is not compared
                                 with the service class (after the ADV-code test)
   batch level, the options stored on the batch ([vb_opts]), Batch.verify:
     BatchHeader.Validate (isFieldInclusion)  ServiceClassCode accepted (a header carrying its
                                 own CheckTransactionCode is not modelled)
     UnequalServiceClassCode     header class = control class not required
     UnequalAddendaCounts        EntryAddendaCount = recount not required
     CustomTraceNumbers          isSequenceAscending and isTraceNumberODFI skipped
     BypassOriginValidation      isTraceNumberODFI returns nil
   file level, File.ValidateWith(f.validateOpts) ([vf_opts]):
     SkipAll                     returns nil at once
     AllowMissingFileHeader      FileHeader.ValidateWith skipped
     FileHeader.ValidateWith     ImmediateDestination / ImmediateOrigin present; origin not
                                 000000000 / 0000000000 unless BypassOriginValidation, and an
                                 ABA number if RequireABAOrigin; destination not 000000000 and
                                 an ABA number unless BypassDestinationValidation
     AllowMissingFileControl     FileControl.Validate skipped
     UnequalAddendaCounts        file EntryAddendaCount = sum not required
     AllowUnorderedBatchNumbers  isSequenceAscending skipped
   Everything else is Arith's: the result is the first failing rule, in the order of the code. *)
From Coq Require Import List NArith ZArith Bool.
From ACH Require Export Arith.
From ACH Require Import Bytes Fields MergeOpts.
Import ListNotations.
Open Scope Z_scope.

(* positions among the bool fields of ValidateOpts (declaration order); BypassOriginValidation
   and CustomTraceNumbers are MergeOpts.ix_bypass_origin / ix_custom_trace *)
Definition ix_skip_all : nat := 0.
Definition ix_require_aba : nat := 1.
Definition ix_bypass_dest : nat := 3.
Definition ix_zero_batches : nat := 5.
Definition ix_missing_header : nat := 6.
Definition ix_missing_control : nat := 7.
Definition ix_unequal_scc : nat := 10.
Definition ix_unordered : nat := 11.
Definition ix_invalid_check : nat := 12.
Definition ix_unequal_addenda : nat := 13.

Definition octc (o : vopts) : option N := match o with Some a => o_ctc a | None => None end.

Definition nonempty {X} (l : list X) : bool := match l with [] => false | _ :: _ => true end.

(* a standard batch with the options stored on it and on its entry records *)
Record vbatch := mkvb {
  vb_opts : vopts;            (* Batch.validateOpts *)
  vb_eopts : list vopts;      (* EntryDetail.validateOpts, one per entry of vb_b *)
  vb_b : batch }.

Record vfile := mkvf {
  vf_opts : vopts;            (* File.validateOpts (= FileHeader.validateOpts, what File.SetValidation stores) *)
  vf_origin : bytes;          (* Header.ImmediateOrigin *)
  vf_dest : bytes;            (* Header.ImmediateDestination *)
  vf_batches : list vbatch;
  vf_ctl : fctl }.

Section Sem.
(* csem f c = true: the CheckTransactionCode function with identity f returns nil on code c *)
Variable csem : N -> Z -> bool.
Variable T : tables.

(* EntryDetail.Validate *)
Definition validate_entry_o (eo : vopts) (e : entry) : rule :=
  chk (negb (en_code e =? 0)) RCode ;;
  chk (nonempty (en_rdfi e)) RCheckDigit ;;
  match octc eo with
  | Some f => chk (csem f (en_code e)) RCode
  | None => chk (memz (en_code e) (t_codes T)) RCode
  end ;;
  chk (0 <=? en_amount e) RAmount ;; chk (en_amount e <=? t_amount_limit T) RAmount ;;
  chk (oflag ix_invalid_check eo || check_digit_ok KStd e) RCheckDigit.

(* Batch.ValidTranCodeForServiceClassCode *)
Definition tran_code_o (cls : Z) (eo : vopts) (e : entry) : rule :=
  chk (negb (memz (en_code e) (t_advcodes T))) RAdvCode ;;
  match octc eo with
  | Some _ => ROk
  | None =>
      if cls =? t_advclass T then RClass
      else if cls =? t_mixed T then ROk
      else if cls =? t_credits T then chk (credit_or_debit (en_code e) =? 1) RDirection
      else if cls =? t_debits T then chk (credit_or_debit (en_code e) =? 2) RDirection
      else ROk
  end.

(* a per-entry check over the entries and their option values, in entry order; an entry without
   a value (list too short) has nil options *)
Fixpoint each_o (f : vopts -> entry -> rule) (eos : list vopts) (es : list entry) : rule :=
  match es with
  | [] => ROk
  | e :: t => f (hd None eos) e ;; each_o f (tl eos) t
  end.

(* Batch.verify *)
Definition verify_o (ob : vbatch) : rule :=
  let o := vb_opts ob in
  let b := vb_b ob in
  let c := bt_ctl b in
  let es := bt_entries b in
  chk (nonempty es) RNoEntries ;;
  chk (negb (bt_class b =? 0) && memz (bt_class b) (t_classes T)) RClass ;;
  each_o validate_entry_o (vb_eopts ob) es ;;
  validate_bctl T KStd c ;;
  chk (oflag ix_unequal_scc o || (bt_class b =? bc_class c)) RClass ;;
  chk (bytes_eqb (bt_odfi b) (bc_odfi c)) ROdfi ;;
  chk (bt_number b =? bc_number c) RNumber ;;
  chk ((calc_count es =? bc_count c) || oflag ix_unequal_addenda o) RCount ;;
  chk (custom o || ascending (ascending_init KStd) es) RAscending ;;
  chk (calc_debit T KStd es =? bc_debit c) RDebit ;;
  chk (calc_credit T KStd es =? bc_credit c) RCredit ;;
  chk (calc_hash T es =? bc_hash c) RHash ;;
  chk (custom o || bypass o || trace_odfi_ok KStd b) RTraceOdfi.

(* Batcher.Validate of a standard SEC type, the part every type shares *)
Definition validate_batch_o (ob : vbatch) : rule :=
  verify_o ob ;; each_o (tran_code_o (bt_class (vb_b ob))) (vb_eopts ob) (bt_entries (vb_b ob)).

(* CheckRoutingNumber *)
Definition routing_ok (r : bytes) : bool :=
  nonempty r && (rune_count r =? 9)%nat && (calc_check_digit r =? Z.of_N (last r 0%N) - 48).

(* FileHeader.ValidateWith(opts), the two routing fields *)
Definition header_ok (o : vopts) (origin dest : bytes) : bool :=
  nonempty dest && nonempty origin
  && (oflag ix_bypass_origin o
      || (negb (bytes_eqb origin (repeat zero 9)) && negb (bytes_eqb origin (repeat zero 10))
          && (negb (oflag ix_require_aba o) || routing_ok origin)))
  && (oflag ix_bypass_dest o
      || (negb (bytes_eqb dest (repeat zero 9)) && routing_ok dest)).

(* File.ValidateWith after the header, non-ADV branch, no IAT batches *)
Definition file_body_o (f : vfile) : rule :=
  let o := vf_opts f in
  let c := vf_ctl f in
  let bs := map vb_b (vf_batches f) in
  chk (fc_batches c =? Z.of_nat (length bs)) RFBatchCount ;;
  first_fail validate_batch_o (vf_batches f) ;;
  (if oflag ix_missing_control o then ROk else validate_fctl T c) ;;
  chk ((fc_count c =? sumz (fun b => bc_count (bt_ctl b)) bs) || oflag ix_unequal_addenda o) RFCount ;;
  chk (fc_debit c =? sumz (fun b => bc_debit (bt_ctl b)) bs) RFDebit ;;
  chk (fc_credit c =? sumz (fun b => bc_credit (bt_ctl b)) bs) RFCredit ;;
  (if oflag ix_unordered o then ROk else chk (numbers_ascending 0 bs) RFAscending) ;;
  chk (least_sig (sumz (fun b => bc_hash (bt_ctl b)) bs) (t_hash_digits T) =? fc_hash c) RFHash.

Definition is_rok (r : rule) : bool := match r with ROk => true | _ => false end.

(* File.Validate() = File.ValidateWith(f.validateOpts) returns nil *)
Definition file_valid_o (f : vfile) : bool :=
  let o := vf_opts f in
  oflag ix_skip_all o
  || ((oflag ix_missing_header o || header_ok o (vf_origin f) (vf_dest f)) && is_rok (file_body_o f)).

(* File.Create's control record over the batches as they stand *)
Definition tab_fctl_o (bs : list batch) : fctl :=
  mkfctl (Z.of_nat (length bs))
         (sumz (fun b => bc_count (bt_ctl b)) bs)
         (least_sig (sumz (fun b => bc_hash (bt_ctl b)) bs) (t_hash_digits T))
         (sumz (fun b => bc_debit (bt_ctl b)) bs)
         (sumz (fun b => bc_credit (bt_ctl b)) bs).

End Sem.

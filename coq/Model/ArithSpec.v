(* Declarative NACHA control arithmetic, independent of the code tables and of
   the validation functions of Arith.v: what the control fields MUST equal. *)
From ACH Require Export Arith.
Open Scope Z_scope.

(* direction of a transaction code: the units digit (standard and IAT entries);
   ADV accounting codes 81..88 alternate credit (odd) / debit (even) *)
Definition spec_is_credit (k : kind) (c : Z) : bool :=
  match k with
  | KADV => Z.odd c
  | _ => (1 <=? c mod 10) && (c mod 10 <=? 4)
  end.
Definition spec_is_debit (k : kind) (c : Z) : bool :=
  match k with
  | KADV => Z.even c
  | _ => 5 <=? c mod 10
  end.

Definition spec_credit (k : kind) (es : list entry) : Z := sum_where (fun e => spec_is_credit k (en_code e)) es.
Definition spec_debit (k : kind) (es : list entry) : Z := sum_where (fun e => spec_is_debit k (en_code e)) es.
Definition spec_count (es : list entry) : Z := sumz (fun e => 1 + en_addenda e) es.

(* the number written in the 8 routing-number columns of the entry record *)
Definition rdfi_num (e : entry) : Z := digits_val (rdfi_field e) 0.
Definition spec_hash (es : list entry) : Z := sumz rdfi_num es mod 10 ^ 10.

(* ABA check digit, closed form, over the digit values d0..d7 *)
Fixpoint wsum (i : nat) (ds : list Z) : Z :=
  match ds with [] => 0 | d :: t => weight i * d + wsum (S i) t end.
Definition spec_check_digit (ds : list Z) : Z := (10 - wsum 0 ds mod 10) mod 10.
Definition digit_vals (s : bytes) : list Z := map (fun b => Z.of_N (b - 48)) s.

(* a routing number as the reader produces it from a fully numeric column *)
Definition digits8 (s : bytes) : Prop := length s = 8%nat /\ forallb is_digit s = true.
Definition rdfi_wf (e : entry) : Prop := digits8 (en_rdfi e).

(* Go string order on trace numbers *)
Definition bytes_lt (a b : bytes) : Prop := bytes_leb b a = false.

Definition units_in (lo hi : Z) (c : Z) : Prop := lo <= c mod 10 <= hi.

(* C14 — proofs about the purity model. *)
From Coq Require Import List Bool NArith Arith Lia.
Import ListNotations.
From ACH Require Import Bytes EffectTable Purity.

(* ---------------------------------------------------------------- fill *)

Lemma fill_hdr_inv b : inv_bat b = true -> fill_hdr b = b.
Proof. unfold inv_bat, fill_hdr. destruct (b_hdr b); [reflexivity|discriminate]. Qed.

Lemma fill_ctl_inv b : inv_bat b = true -> fill_ctl b = b.
Proof.
  unfold inv_bat, fill_ctl. destruct (b_hdr b); [|discriminate]. intros ->. reflexivity.
Qed.

Lemma fill_inv b : inv_bat b = true -> fill b = b.
Proof. intros H. unfold fill. rewrite (fill_hdr_inv b H). now apply fill_ctl_inv. Qed.

Lemma inv_bat_fill b : inv_bat (fill b) = true.
Proof.
  destruct b as [[s|] [|]]; reflexivity.
Qed.

Lemma fill_fix_inv b : fill b = b -> inv_bat b = true.
Proof. intros H. rewrite <- H. apply inv_bat_fill. Qed.

Lemma fill_idem b : fill (fill b) = fill b.
Proof. apply fill_inv, inv_bat_fill. Qed.

(* ---------------------------------------------------------------- IsADV *)

Lemma isADV_inv f : inv f = true -> isADV f = (f, existsb is_adv f).
Proof.
  induction f as [|b t IH]; intros H; [reflexivity|].
  cbn [inv forallb] in H. apply andb_prop in H as [Hb Ht].
  cbn [isADV existsb]. rewrite (fill_inv b Hb).
  destruct (is_adv b) eqn:E; [reflexivity|].
  rewrite (IH Ht). reflexivity.
Qed.

Lemma install_inv f : inv f = true -> install f = f.
Proof. intros H. unfold install. now rewrite (isADV_inv f H). Qed.

Lemma isADV_idem f : isADV (fst (isADV f)) = isADV f.
Proof.
  induction f as [|b t IH]; [reflexivity|].
  cbn [isADV]. destruct (is_adv (fill b)) eqn:E.
  - cbn [fst isADV]. rewrite fill_idem, E. reflexivity.
  - cbn [fst isADV]. rewrite fill_idem, E, IH. reflexivity.
Qed.

Lemma install_idem f : install (install f) = install f.
Proof. unfold install. now rewrite isADV_idem. Qed.

Lemma install_length f : length (install f) = length f.
Proof.
  unfold install. induction f as [|b t IH]; [reflexivity|].
  cbn [isADV]. destruct (is_adv (fill b)); cbn [fst length]; [reflexivity|]. now rewrite IH.
Qed.

(* the exact fixed points of install *)
Lemma install_fix_iff f : install f = f <-> prefix_inv f = true.
Proof.
  unfold install. induction f as [|b t IH]; [cbn; tauto|].
  cbn [isADV prefix_inv]. split.
  - intros H. destruct (is_adv (fill b)) eqn:E; cbn [fst] in H.
    + injection H as Hb. rewrite Hb in E. rewrite (fill_fix_inv b Hb), E. reflexivity.
    + injection H as Hb Ht. rewrite (fill_fix_inv b Hb). rewrite Hb in E. rewrite E.
      cbn. now apply IH.
  - intros H. apply andb_prop in H as [Hb Hr]. rewrite (fill_inv b Hb).
    destruct (is_adv b) eqn:E; [reflexivity|]. cbn in Hr. cbn [fst]. f_equal. now apply IH.
Qed.

Lemma prefix_inv_install f : prefix_inv (install f) = true.
Proof. apply install_fix_iff, install_idem. Qed.

Lemma inv_prefix_inv f : inv f = true -> prefix_inv f = true.
Proof. intros H. apply install_fix_iff. now apply install_inv. Qed.

(* ---------------------------------------------------------------- steps and histories *)

Lemma validate_step_cases v f : validate_step v f = f \/ validate_step v f = install f.
Proof.
  unfold validate_step. destruct (v_skipAll v); [now left|].
  destruct (negb (v_allowMissing v) && negb (v_hdrOk v)); [now left|now right].
Qed.

Lemma step_cases f o : step f o = f \/ step f o = install f.
Proof.
  destruct o as [v|v|i|r| | |v]; cbn [step]; try (now left); try apply validate_step_cases.
  - now right.
  - destruct (v_ok v); [|apply validate_step_cases].
    unfold write_step. destruct (validate_step_cases v f) as [-> | ->]; [now right|].
    right. apply install_idem.
Qed.

(* every history leaves the file as it was or in its normal form [install f] — for all
   files, with or without nil pointers *)
Lemma history_general ops : forall f,
  fold_left step ops f = f \/ fold_left step ops f = install f.
Proof.
  induction ops as [|o ops IH]; intros f; [now left|].
  cbn [fold_left]. destruct (step_cases f o) as [-> | ->]; [apply IH|].
  destruct (IH (install f)) as [-> | ->]; [now right|]. right. apply install_idem.
Qed.

Lemma history_fixed ops f : install f = f -> fold_left step ops f = f.
Proof. intros H. destruct (history_general ops f) as [E|E]; rewrite E; [reflexivity|exact H]. Qed.

Lemma history_inv ops f : inv f = true -> fold_left step ops f = f.
Proof. intros H. apply history_fixed. now apply install_inv. Qed.

Lemma history_observe ops f : inv f = true -> observe (fold_left step ops f) = observe f.
Proof. intros H. now rewrite (history_inv ops f H). Qed.

(* necessary and sufficient: the operations are pure on f exactly when f has no nil
   header / control up to and including its first ADV batch *)
Lemma pure_iff f : (forall ops, fold_left step ops f = f) <-> prefix_inv f = true.
Proof.
  split.
  - intros H. apply install_fix_iff. exact (H [OWriteBypass]).
  - intros H ops. apply history_fixed. now apply install_fix_iff.
Qed.

Lemma observe_inj f g : observe f = observe g -> f = g.
Proof.
  revert g. induction f as [|[h c] t IH]; intros [|[h' c'] t'] H; try discriminate; [reflexivity|].
  cbn in H. injection H as -> -> Ht. f_equal. now apply IH.
Qed.

Lemma pure_observe_iff f :
  (forall ops, observe (fold_left step ops f) = observe f) <-> prefix_inv f = true.
Proof.
  rewrite <- pure_iff. split; intros H ops; [apply observe_inj, H | now rewrite H].
Qed.

Lemma inv_step f o : inv f = true -> inv (step f o) = true.
Proof.
  intros H. destruct (step_cases f o) as [-> | ->]; [exact H|]. now rewrite (install_inv f H).
Qed.

(* after the first operation that reaches IsADV nothing changes any more *)
Lemma history_after_install ops f : fold_left step ops (install f) = install f.
Proof. apply history_fixed, install_idem. Qed.

(* ---------------------------------------------------------------- reader / constructor files *)

Lemma inv_built secs : no_adv secs = true -> inv (built secs) = true.
Proof.
  unfold built, inv, no_adv. induction secs as [|s t IH]; intros H; [reflexivity|].
  cbn [forallb map] in *. apply andb_prop in H as [Hs Ht].
  rewrite (IH Ht), andb_true_r. unfold new_batch, inv_bat. cbn. exact Hs.
Qed.

Lemma inv_app f g : inv (f ++ g) = inv f && inv g.
Proof. unfold inv. apply forallb_app. Qed.

(* File.AddBatch(NewBatch(bh)) keeps the invariant for every SEC code but ADV *)
Lemma inv_add_batch f sec : bytes_eqb sec adv = false -> inv f = true -> inv (f ++ [new_batch sec]) = true.
Proof. intros E H. rewrite inv_app, H. unfold new_batch. cbn. now rewrite E. Qed.

(* what Reader.Read and File.Create return satisfies the exact condition, ADV or not *)
Lemma prefix_inv_created secs : prefix_inv (created secs) = true.
Proof. apply prefix_inv_install. Qed.

Lemma prefix_inv_reader secs : prefix_inv (reader_file secs) = true.
Proof. apply prefix_inv_install. Qed.

Lemma history_prefix ops f : prefix_inv f = true -> observe (fold_left step ops f) = observe f.
Proof. intros H. rewrite history_fixed; [reflexivity|]. now apply install_fix_iff. Qed.

Lemma prefix_inv_step f o : prefix_inv f = true -> prefix_inv (step f o) = true.
Proof.
  intros H. destruct (step_cases f o) as [-> | ->]; [exact H|apply prefix_inv_install].
Qed.

(* ---------------------------------------------------------------- effect instances *)

Lemma upd_inv g i f : (forall b, inv_bat b = true -> g b = b) -> inv f = true -> upd i g f = f.
Proof.
  intros Hg. revert i. induction f as [|b t IH]; intros i H; [destruct i; reflexivity|].
  cbn [inv forallb] in H. apply andb_prop in H as [Hb Ht].
  destruct i as [|j]; cbn [upd]; [now rewrite (Hg b Hb)|]. now rewrite (IH j Ht).
Qed.

Lemma sem_noop c i f : inv f = true -> sem c i f = f.
Proof.
  intros H. destruct c; cbn [sem]; try reflexivity.
  - apply upd_inv; [apply fill_hdr_inv|exact H].
  - apply upd_inv; [apply fill_ctl_inv|exact H].
Qed.

Lemma trace_pure tr f : inv f = true -> run tr f = f.
Proof.
  unfold run. induction tr as [|[c i] tr IH]; intros H; [reflexivity|].
  cbn [fold_left fst snd]. rewrite (sem_noop c i f H). now apply IH.
Qed.

Lemma upd_app pre g b t : upd (length pre) g (pre ++ b :: t) = pre ++ g b :: t.
Proof. induction pre as [|x pre IH]; [reflexivity|]. cbn [length app upd]. now rewrite IH. Qed.

Lemma run_app t1 t2 f : run (t1 ++ t2) f = run t2 (run t1 f).
Proof. unfold run. apply fold_left_app. Qed.

Lemma isADV_trace_run bs : forall pre,
  run (isADV_trace (length pre) bs) (pre ++ bs) = pre ++ fst (isADV bs).
Proof.
  induction bs as [|b t IH]; intros pre; [reflexivity|].
  cbn [isADV_trace isADV]. unfold run. cbn [fold_left fst snd sem].
  rewrite upd_app, upd_app. fold (fill b).
  destruct (is_adv (fill b)) eqn:E; [reflexivity|].
  cbn [fst]. specialize (IH (pre ++ [fill b])).
  rewrite app_length in IH. cbn [length] in IH. rewrite Nat.add_1_r in IH.
  rewrite <- app_assoc in IH. cbn [app] in IH. unfold run in IH. rewrite IH.
  now rewrite <- app_assoc.
Qed.

Lemma isADV_trace_install f : run (isADV_trace 0 f) f = install f.
Proof. exact (isADV_trace_run f []). Qed.

Definition install_class (ci : eclass * nat) : Prop := fst ci = CInstallHeader \/ fst ci = CInstallControl.

Lemma isADV_trace_classes bs : forall k, Forall install_class (isADV_trace k bs).
Proof.
  induction bs as [|b t IH]; intros k; [constructor|].
  cbn [isADV_trace]. constructor; [now left|]. constructor; [now right|].
  destruct (is_adv (fill b)); [constructor|apply IH].
Qed.

(* the literal steps are runs of instances of the two install effects only *)
Lemma step_refines f o :
  step f o = run (op_trace f o) f /\ Forall install_class (op_trace f o).
Proof.
  assert (V : forall v,
     let t1 := if v_skipAll v then [] else if negb (v_allowMissing v) && negb (v_hdrOk v) then [] else isADV_trace 0 f in
     validate_step v f = run t1 f /\ Forall install_class t1).
  { intros v. unfold validate_step. cbn zeta. destruct (v_skipAll v); [split; [reflexivity|constructor]|].
    destruct (negb (v_allowMissing v) && negb (v_hdrOk v)); [split; [reflexivity|constructor]|].
    split; [now rewrite isADV_trace_install|apply isADV_trace_classes]. }
  destruct o as [v|v|i|r| | |v]; cbn [step op_trace]; try (split; [reflexivity|constructor]); try apply V.
  - split; [unfold write_step; now rewrite isADV_trace_install|apply isADV_trace_classes].
  - destruct (V v) as [E F]. cbn zeta in E, F. destruct (v_ok v); [|split; assumption].
    split.
    + rewrite run_app, <- E. unfold write_step. now rewrite isADV_trace_install.
    + apply Forall_app. split; [exact F|apply isADV_trace_classes].
Qed.

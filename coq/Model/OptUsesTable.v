(* Types of the table regenerated from the package sources (Gen/OptUses.v): the
   fields of ValidateOpts, the fields ValidateOpts.merge ORs together, and every
   use of a flag with the polarity the translator computed.  Boolean checker
   and its soundness statement: every use of one of the 15 relaxation flags is
   a relaxing guard that the model contains (same function, flag, occurrence),
   or lies in one of the listed non-validation functions; and conversely every
   guard site of the model exists in the source. *)
From Coq Require Import String List Bool Arith.
Import ListNotations.
From ACH Require Import OptMono OptMonoFacts.
Open Scope string_scope.

Inductive ukind := URelax | UTighten | UEffect | UNonError | UExpr | UUnknown.
Record use := mkuse { u_func : string; u_flag : string; u_occ : nat; u_kind : ukind }.

Definition smem (s : string) (l : list string) : bool := existsb (String.eqb s) l.

Definition expected_fields : list (string * string) :=
  [("SkipAll", "bool"); ("RequireABAOrigin", "bool"); ("BypassOriginValidation", "bool");
   ("BypassDestinationValidation", "bool"); ("CheckTransactionCode", "func"); ("CustomTraceNumbers", "bool");
   ("AllowZeroBatches", "bool"); ("AllowMissingFileHeader", "bool"); ("AllowMissingFileControl", "bool");
   ("BypassCompanyIdentificationMatch", "bool"); ("CustomReturnCodes", "bool"); ("UnequalServiceClassCode", "bool");
   ("AllowUnorderedBatchNumbers", "bool"); ("AllowInvalidCheckDigit", "bool"); ("UnequalAddendaCounts", "bool");
   ("PreserveSpaces", "bool"); ("AllowInvalidAmounts", "bool"); ("AllowZeroEntryAmount", "bool");
   ("AllowSpecialCharacters", "bool")].

Fixpoint fields_eqb (a b : list (string * string)) : bool :=
  match a, b with
  | [], [] => true
  | (x, t) :: a', (y, u) :: b' => String.eqb x y && String.eqb t u && fields_eqb a' b'
  | _, _ => false
  end.

(* the option struct has exactly the known fields: a new option must be classified
   (relaxation flag of the model, or fixed parameter) before the proof applies again *)
Definition fields_ok (fs : list (string * string)) : bool := fields_eqb fs expected_fields.

(* every boolean field is merged with || (merge never drops a relaxation) *)
Definition merge_ok (fs : list (string * string)) (merged : list string) : bool :=
  forallb (fun p : string * string => negb (String.eqb (snd p) "bool") || smem (fst p) merged) fs.

(* functions that read relaxation flags but take no part in accepting a text:
   rendering of two header fields, trace-number assignment in build, merge, and (since
   66a624ee) the split of a mixed IAT batch by SegmentFile, which keeps the entries' trace
   numbers exactly when IATBatch.build would not assign new ones *)
Definition nonvalidation_funcs : list string :=
  ["Batch.build"; "IATBatch.build"; "FileHeader.ImmediateDestinationField";
   "FileHeader.ImmediateOriginField"; "ValidateOpts.merge"; "File.segmentFileIATBatches"].

Definition site_eqb (a b : site) : bool :=
  String.eqb (s_func a) (s_func b) && flag_eqb (s_flag a) (s_flag b) && Nat.eqb (s_occ a) (s_occ b).

Definition is_relax (k : ukind) : bool := match k with URelax => true | _ => false end.

Definition use_ok (model : list site) (u : use) : bool :=
  match flag_of_name (u_flag u) with
  | None => true   (* SkipAll, RequireABAOrigin, PreserveSpaces, CheckTransactionCode: fixed parameters *)
  | Some f =>
      match u_kind u with
      | URelax => existsb (site_eqb (mksite (u_func u) f (u_occ u))) model
      | UEffect | UNonError => smem (u_func u) nonvalidation_funcs
      | _ => false
      end
  end.

Definition site_in_table (t : list use) (s : site) : bool :=
  existsb (fun u => is_relax (u_kind u) && String.eqb (u_func u) (s_func s)
                    && String.eqb (u_flag u) (flag_name (s_flag s)) && Nat.eqb (u_occ u) (s_occ s)) t.

Definition uses_ok (t : list use) (model : list site) : bool :=
  forallb (use_ok model) t && forallb (site_in_table t) model.

(* the other option fields: RequireABAOrigin only ever tightens, inside the origin
   check of FileHeader.ValidateWith; PreserveSpaces is read by the field parser only;
   SkipAll only switches validation off *)
Definition other_use_ok (u : use) : bool :=
  if String.eqb (u_flag u) "RequireABAOrigin" then
    smem (u_func u) ["ValidateOpts.merge"]
    || (String.eqb (u_func u) "FileHeader.ValidateWith" && match u_kind u with UTighten => true | _ => false end)
  else if String.eqb (u_flag u) "PreserveSpaces" then
    smem (u_func u) ["ValidateOpts.merge"; "converters.parseStringFieldWithOpts"]
  else if String.eqb (u_flag u) "SkipAll" then
    smem (u_func u) ["ValidateOpts.merge"] || is_relax (u_kind u)
  else true.
Definition others_ok (t : list use) : bool := forallb other_use_ok t.

(* every flag of the property is exercised by the table at all (a translator that
   lost track of a flag would otherwise pass); AllowZeroBatches is only read by File.Create *)
Definition flags_covered (t : list use) : bool :=
  forallb (fun f => existsb (fun u => String.eqb (u_flag u) (flag_name f) && is_relax (u_kind u)) t) all_flags.

Lemma site_eqb_eq a b : site_eqb a b = true <-> a = b.
Proof.
  destruct a as [fa la oa], b as [fb lb ob]. unfold site_eqb. cbn [s_func s_flag s_occ].
  rewrite !andb_true_iff, String.eqb_eq, flag_eqb_eq, Nat.eqb_eq. split.
  - intros [[-> ->] ->]. reflexivity.
  - intros H. injection H as -> -> ->. auto.
Qed.

Theorem uses_sound t model : uses_ok t model = true ->
  (forall u f, In u t -> flag_of_name (u_flag u) = Some f ->
     (u_kind u = URelax /\ In (mksite (u_func u) f (u_occ u)) model)
     \/ In (u_func u) nonvalidation_funcs)
  /\ (forall s, In s model -> exists u, In u t /\ u_kind u = URelax /\ u_func u = s_func s
                                       /\ u_flag u = flag_name (s_flag s) /\ u_occ u = s_occ s).
Proof.
  unfold uses_ok. rewrite andb_true_iff, !forallb_forall. intros [H1 H2]. split.
  - intros u f Hu Hf. specialize (H1 u Hu). unfold use_ok in H1. rewrite Hf in H1.
    assert (Hmem : smem (u_func u) nonvalidation_funcs = true -> In (u_func u) nonvalidation_funcs).
    { unfold smem. intros H. apply existsb_exists in H as (x & Hx & E). apply String.eqb_eq in E. now subst. }
    destruct (u_kind u) eqn:Ek; try discriminate H1.
    + left. split; [reflexivity|]. apply existsb_exists in H1 as (s & Hs & E).
      apply site_eqb_eq in E. now subst.
    + right. auto.
    + right. auto.
  - intros s Hs. specialize (H2 s Hs). unfold site_in_table in H2.
    apply existsb_exists in H2 as (u & Hu & E). rewrite !andb_true_iff in E.
    destruct E as [[[Ek Ef] El] Eo]. exists u. split; [exact Hu|].
    apply String.eqb_eq in Ef, El. apply Nat.eqb_eq in Eo.
    destruct (u_kind u); try discriminate Ek. auto.
Qed.

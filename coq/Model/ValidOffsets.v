(* Phase 2, C05: abstraction from the Offsets model (Batch.build / upsertOffsets /
   File.Create) to the skeleton of the validator model Arith.  Definitions only.

   The Offsets entry keeps the integer Atoi(aba8(RDFI)) but neither the routing number
   nor the check digit as stored; they travel as an opaque payload [epay] beside each
   entry ([dentry]), and [d_build] says how build carries the payloads: trace assignment
   keeps them, the removal loop drops the payloads of the removed entries, the offset
   entries get the payload [poff] of the offset account.  ValidOffsetsFacts proves that the
   first components of [d_build] are exactly the entries of Offsets.build's result.

   Trace numbers are the 15-digit strings of the model's integers, the ODFI the 8-digit
   string of b_odfi (what SetTraceNumber and the header field hold). *)
From ACH Require Import ValidOut.
From ACH Require Import Offsets OffsetsFacts.
Open Scope Z_scope.

Module AR := ACH.Model.Arith.
Module VO := ACH.Model.ValidOut.

Record epay := mkepay { p_rdfi : bytes; p_check : bytes }.
Definition dentry := (entry * epay)%type.

Definition o_entry (d : dentry) : AR.entry :=
  AR.mkentry (e_code (fst d)) (e_amount (fst d)) (p_rdfi (snd d)) (p_check (snd d))
             (trace15 (e_trace (fst d))) (e_addenda (fst d)).

Definition o_ctl (b : batch) : AR.bctl :=
  let c := b_ctl b in
  AR.mkbctl (c_svc c) (c_count c) (c_hash c) (c_debit c) (c_credit c) (odfi8 (b_odfi b)) (c_num c).

Definition o_batch (b : batch) (des : list dentry) : AR.batch :=
  AR.mkbatch AR.KStd (b_svc b) (odfi8 (b_odfi b)) (b_num b) (map o_entry des) (o_ctl b).

(* the payload denotes the integer the model keeps for the entry hash *)
Definition pay_ok (d : dentry) : bool := atoi (AR.aba8 (p_rdfi (snd d))) =? e_rdfi (fst d).

(* ---- how build carries the payloads ------------------------------------------- *)

Fixpoint d_retrace (odfi seq : Z) (des : list dentry) : list dentry :=
  match des with
  | [] => []
  | d :: r => ((if trace_odfi (e_trace (fst d)) =? odfi then fst d else set_trace (fst d) (odfi * P7 + seq mod P7)), snd d)
              :: d_retrace odfi (seq + 1) r
  end.

Definition d_nonoff (d : dentry) : bool := nonoff (fst d).

Definition d_build (T : otable) (b : batch) (des : list dentry) (poff : epay) : list dentry :=
  let des1 := d_retrace (b_odfi b) 1 des in
  match b_off b with
  | None => des1
  | Some o =>
      let bd := filter d_nonoff des1 in
      bd ++ map (fun e => (e, poff))
                (new_offsets T o (last_trace (map fst bd)) (credits T (map fst bd)) (debits T (map fst bd)))
  end.

(* ---- agreement of the two regenerated tables ---------------------------------- *)

Definition lists_agree (a b : list Z) : bool := forallb (fun c => mem c b) a && forallb (fun c => mem c a) b.

Definition off_code_ok (A : AR.tables) (c : Z) : bool :=
  negb (c =? 0) && AR.memz c (AR.t_codes A) && negb (AR.memz c (AR.t_advcodes A)).

(* Arith's lists of Batch.calculateBatchAmounts are the lists of the Offsets table; the hash
   keeps 10 digits; class 200 is the mixed class, accepted, and not the ADV class; the four
   offset transaction codes are accepted entry codes *)
Definition tables_agree (A : AR.tables) (T : otable) : bool :=
  lists_agree (AR.t_std_credit A) (t_credit T) && lists_agree (AR.t_std_debit A) (t_debit T)
  && (AR.t_hash_digits A =? 10)
  && (AR.t_mixed A =? mixed) && negb (AR.t_advclass A =? mixed) && class_okb A mixed
  && off_code_ok A (t_deb_chk T) && off_code_ok A (t_deb_sav T)
  && off_code_ok A (t_cre_chk T) && off_code_ok A (t_cre_sav T).

(* ---- the payload of the offset account ------------------------------------------ *)

Definition poff_ok (o : offcfg) (poff : epay) : bool :=
  (atoi (AR.aba8 (p_rdfi poff)) =? o_rdfi o)
  && match p_rdfi poff with [] => false | _ => true end
  && AR.check_digit_ok AR.KStd (AR.mkentry 0 0 (p_rdfi poff) (p_check poff) [] 0).

(* ---- File.Create ------------------------------------------------------------------ *)

Definition o_fctl (c : fctl) : AR.fctl :=
  AR.mkfctl (fc_batches c) (fc_count c) (fc_hash c) (fc_debit c) (fc_credit c).

Definition o_batches (bs : list batch) (dess : list (list dentry)) : list AR.batch :=
  map (fun p => o_batch (fst p) (snd p)) (combine bs dess).

Definition o_file (f : file) (dess : list (list dentry)) : AR.file :=
  AR.mkfile (o_batches (f_batches f) dess) [] (o_fctl (f_ctl f)).

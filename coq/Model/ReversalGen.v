(* Phase 3, C13: what File.Reversal does with batches described PRENOTE, with return / NOC
   entries and with batches carrying offset entries, on top of the Reversal model
   (Reversal.v).  Definitions only.

   reversal.go treats none of them specially:
   - the description of EVERY batch is replaced by the literal (a PRENOTE description is lost);
   - EVERY entry goes through the switch, whatever its addenda or its IndividualName — the
     OFFSET entries Batch.Create appended for a batch with WithOffset are flipped like all others;
   - the `.( *Batch )` rebuild is dead for the batch types NewBatch returns, so upsertOffsets is
     not run again: the offset entries stay where they are, with their amounts.
   What differs is what Batch.Validate demands afterwards.  ValidAmountForCodes (batch.go),
   without validate options:
     entry with Addenda98 / Addenda98Refused                 -> amount = 0        (ANoc)
     entry with Addenda99 / ...Dishonored / ...Contested     -> any amount        (AReturn)
     otherwise: batch described PRENOTE or prenote code      -> amount = 0        (AForward)
                else                                          -> amount > 0
   (the exemption for the zero-dollar codes of ACK / ATX is SEC specific and outside the model,
   as every rule a Batch<SEC>.Validate adds).

   As for the payloads of the validator abstraction, the addenda kind [ak] and "IndividualName
   is OFFSET" [off] are functions of the entry identity, which Reversal does not touch
   (rev_entry keeps e_id). *)
From Coq Require Import ZArith NArith List Bool.
Import ListNotations.
From ACH Require Import Bytes TxCodes RevTable Reversal.
Open Scope Z_scope.

Inductive akind := AForward | ANoc | AReturn.

Section Gen.
  Variables (ak : N -> akind) (off : N -> bool).

  Definition amount_rule_gen (pre : list Z) (prenote_desc : bool) (e : entry) : bool :=
    match ak (e_id e) with
    | ANoc => e_amount e =? 0
    | AReturn => true
    | AForward => amount_rule pre prenote_desc e
    end.

  (* rbatch_valid without its last conjunct (the amount rule) *)
  Definition rbatch_struct (T : rtables) (b : rbatch) : bool :=
    match rb_entries b with [] => false | _ => true end
    && (rb_scc_h b =? rb_scc_c b)
    && memz (rb_scc_h b) [200; 220; 225]
    && forallb (fun e => entry_code (rt_std T) (e_code e)) (rb_entries b)
    && implb (rb_scc_h b =? 220) (all_dir TCredit (rb_entries b))
    && implb (rb_scc_h b =? 225) (all_dir TDebit (rb_entries b))
    && (rb_credit b =? sum_dir (rt_amt T) TCredit (rb_entries b))
    && (rb_debit b =? sum_dir (rt_amt T) TDebit (rb_entries b)).

  Definition rbatch_valid_gen (T : rtables) (b : rbatch) : bool :=
    rbatch_struct T b
    && forallb (amount_rule_gen (rt_pre T) (is_prenote_desc (rb_desc b))) (rb_entries b).

  Definition rfile_valid_gen (T : rtables) (f : rfile) : bool :=
    match rf_batches f with [] => false | _ => true end
    && forallb (rbatch_valid_gen T) (rf_batches f)
    && (rf_debit f =? sum_debit (rf_batches f))
    && (rf_credit f =? sum_credit (rf_batches f)).

  (* the entries whose amount is still admissible once the description reads REVERSAL: a
     forward entry must carry a prenote code or a positive amount *)
  Definition survives (pre : list Z) (e : entry) : bool :=
    match ak (e_id e) with
    | AForward => memz (e_code e) pre || (0 <? e_amount e)
    | _ => true
    end.
  Definition batch_survives (T : rtables) (b : rbatch) : bool := forallb (survives (rt_pre T)) (rb_entries b).

  (* a forward entry of a PRENOTE batch survives iff its code is a prenote code *)
  Definition prenote_coded (pre : list Z) (e : entry) : bool :=
    match ak (e_id e) with AForward => memz (e_code e) pre | _ => true end.

  (* ---- offsets: the amounts of the OFFSET entries of one direction against the amounts of
     the other entries of the opposite direction (what upsertOffsets establishes) *)
  Fixpoint osum (amt : list seg_arm) (o : bool) (t : target) (es : list entry) : Z :=
    match es with
    | [] => 0
    | e :: r => (if Bool.eqb (off (e_id e)) o && goes amt t e then e_amount e else 0) + osum amt o t r
    end.

  Definition offsets_consistent (amt : list seg_arm) (es : list entry) : bool :=
    (osum amt true TDebit es =? osum amt false TCredit es)
    && (osum amt true TCredit es =? osum amt false TDebit es).

  Definition offset_codes (es : list entry) : list Z :=
    map e_code (filter (fun e => off (e_id e)) es).
End Gen.
